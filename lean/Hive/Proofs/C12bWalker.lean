import Hive.Model.C12bWalker
/-! Refinement and "every pushed element exactly once" invariants for the Walker model. -/
namespace Hive.C12b.WK

theorem mem_mark (p : List Nat) (x y : Nat) : y ∈ mark p x ↔ y = x ∨ y ∈ p := by
  unfold mark
  by_cases h : x ∈ p
  · simp only [h, if_true]
    constructor
    · exact Or.inr
    · rintro (h1 | h1)
      · exact h1 ▸ h
      · exact h1
  · simp only [h, if_false, List.mem_append, List.mem_cons, List.not_mem_nil, or_false]
    constructor
    · rintro (h1 | h1)
      · exact Or.inr h1
      · exact Or.inl h1
    · rintro (h1 | h1)
      · exact Or.inr h1
      · exact Or.inl h1

theorem nodup_mark (p : List Nat) (x : Nat) (h : p.Nodup) : (mark p x).Nodup := by
  unfold mark
  by_cases hx : x ∈ p
  · simp [hx, h]
  · simp only [hx, if_false]
    rw [List.nodup_append]
    refine ⟨h, by simp, ?_⟩
    intro a ha b hb
    simp only [List.mem_cons, List.not_mem_nil, or_false] at hb
    subst hb
    intro e; subst e; exact hx ha

/-! ## refinement of the abstract specification -/

def abs (s : St) : Spec :=
  { revisit := s.revisit, pending := s.queue, seen := fun x => decide (x ∈ s.pushed), stopped := s.stopped }

theorem abs_offer (front : Bool) (s : St) (x : Nat) :
    abs (if front then pushFront1 s x else push1 s x) = specOffer front (abs s) x := by
  cases front with
  | false =>
    simp only [Bool.false_eq_true, if_false, push1, specOffer, abs, decide_eq_true_eq]
    by_cases h : x ∈ s.pushed ∧ s.revisit = false
    · simp [h]
    · simp only [h, if_false]
      congr 1
      funext y
      simp only [mem_mark]
      by_cases hy : y = x <;> simp [hy]
  | true =>
    simp only [if_true, pushFront1, specOffer, abs, decide_eq_true_eq]
    by_cases h : x ∈ s.pushed ∧ s.revisit = false
    · simp [h]
    · simp only [h, if_false]
      congr 1
      funext y
      simp only [mem_mark]
      by_cases hy : y = x <;> simp [hy]

theorem abs_foldl_push (s : St) (xs : List Nat) :
    abs (xs.foldl push1 s) = xs.foldl (specOffer false) (abs s) := by
  induction xs generalizing s with
  | nil => rfl
  | cons x xs ih =>
    simp only [List.foldl_cons]
    rw [ih, ← abs_offer false s x]; rfl

theorem abs_foldl_pushFront (s : St) (xs : List Nat) :
    abs (xs.foldl pushFront1 s) = xs.foldl (specOffer true) (abs s) := by
  induction xs generalizing s with
  | nil => rfl
  | cons x xs ih =>
    simp only [List.foldl_cons]
    rw [ih, ← abs_offer true s x]; rfl

theorem step_refines (s : St) (op : Op) :
    (step s op).2 = (specStep (abs s) op).2 ∧ abs (step s op).1 = (specStep (abs s) op).1 := by
  cases op with
  | push x => exact ⟨rfl, abs_offer false s x⟩
  | pushAll xs => exact ⟨rfl, abs_foldl_push s xs⟩
  | pushFront xs => exact ⟨rfl, abs_foldl_pushFront s xs⟩
  | next =>
    cases hq : s.queue with
    | nil => simp [step, specStep, abs, hq]
    | cons x q => simp [step, specStep, abs, hq]
  | hasNext => exact ⟨rfl, rfl⟩
  | pushed x => exact ⟨rfl, rfl⟩
  | stop => exact ⟨rfl, rfl⟩
  | stopped => exact ⟨rfl, rfl⟩
  | reset => simp [step, specStep, abs]

def specRun (s : Spec) : List Op → Spec × List Out
  | [] => (s, [])
  | op :: ops =>
    let r := specStep s op
    let rs := specRun r.1 ops
    (rs.1, r.2 :: rs.2)

theorem run_refines (s : St) (ops : List Op) :
    (run s ops).2 = (specRun (abs s) ops).2 ∧ abs (run s ops).1 = (specRun (abs s) ops).1 := by
  induction ops generalizing s with
  | nil => simp [run, specRun]
  | cons op ops ih =>
    obtain ⟨h1, h2⟩ := step_refines s op
    obtain ⟨h3, h4⟩ := ih (step s op).1
    simp only [run, specRun]
    rw [← h2, h1]
    exact ⟨by rw [h3], h4⟩

/-! ## revisit flag is constant -/

theorem push1_revisit (s : St) (x : Nat) : (push1 s x).revisit = s.revisit := by
  unfold push1; split <;> rfl

theorem pushFront1_revisit (s : St) (x : Nat) : (pushFront1 s x).revisit = s.revisit := by
  unfold pushFront1; split <;> rfl

theorem foldl_revisit (f : St → Nat → St) (hf : ∀ s x, (f s x).revisit = s.revisit) (s : St) (xs : List Nat) :
    (xs.foldl f s).revisit = s.revisit := by
  induction xs generalizing s with
  | nil => rfl
  | cons x xs ih => simp only [List.foldl_cons]; rw [ih, hf]

theorem step_revisit (s : St) (op : Op) : (step s op).1.revisit = s.revisit := by
  cases op with
  | push x => exact push1_revisit s x
  | pushAll xs => exact foldl_revisit _ push1_revisit s xs
  | pushFront xs => exact foldl_revisit _ pushFront1_revisit s xs
  | next => simp only [step]; split <;> rfl
  | _ => rfl

/-! ## without revisiting: every offered element is yielded or queued, exactly once -/

structure InvOnce (s : St) : Prop where
  norevisit : s.revisit = false
  nodup : (s.yielded ++ s.queue).Nodup
  cover : ∀ x, x ∈ s.yielded ++ s.queue ↔ x ∈ s.pushed
  offered : ∀ x, x ∈ s.pushed ↔ x ∈ s.offered

theorem invOnce_init : InvOnce (init false) := by
  constructor <;> simp [init]

theorem invOnce_offer {s : St} (h : InvOnce s) (front : Bool) (x : Nat) :
    InvOnce (if front then pushFront1 s x else push1 s x) := by
  have hr := h.norevisit
  by_cases hx : x ∈ s.pushed
  · have e : (if front then pushFront1 s x else push1 s x) = { s with offered := s.offered ++ [x] } := by
      cases front <;> simp [push1, pushFront1, hx, hr]
    rw [e]
    refine ⟨hr, h.nodup, h.cover, ?_⟩
    intro y
    show y ∈ s.pushed ↔ y ∈ s.offered ++ [x]
    rw [h.offered y]
    simp only [List.mem_append, List.mem_cons, List.not_mem_nil, or_false]
    constructor
    · exact Or.inl
    · rintro (h1 | h1)
      · exact h1
      · subst h1; exact (h.offered y).1 hx
  · have hnot : x ∉ s.yielded ++ s.queue := fun e => hx ((h.cover x).1 e)
    have hmark : mark s.pushed x = s.pushed ++ [x] := by simp [mark, hx]
    cases front with
    | false =>
      have e : push1 s x = { s with pushed := s.pushed ++ [x], queue := s.queue ++ [x], offered := s.offered ++ [x] } := by
        simp [push1, hx, hmark]
      simp only [Bool.false_eq_true, if_false]
      rw [e]
      refine ⟨hr, ?_, ?_, ?_⟩
      · show (s.yielded ++ (s.queue ++ [x])).Nodup
        rw [← List.append_assoc, List.nodup_append]
        refine ⟨h.nodup, by simp, ?_⟩
        intro a ha b hb
        simp only [List.mem_cons, List.not_mem_nil, or_false] at hb
        subst hb
        intro e; subst e; exact hnot ha
      · intro y
        show y ∈ s.yielded ++ (s.queue ++ [x]) ↔ y ∈ s.pushed ++ [x]
        have := h.cover y
        simp only [List.mem_append, List.mem_cons, List.not_mem_nil, or_false] at this ⊢
        rw [← this, or_assoc]
      · intro y
        show y ∈ s.pushed ++ [x] ↔ y ∈ s.offered ++ [x]
        rw [List.mem_append, List.mem_append, h.offered y]
    | true =>
      have e : pushFront1 s x = { s with pushed := s.pushed ++ [x], queue := x :: s.queue, offered := s.offered ++ [x] } := by
        simp [pushFront1, hx, hmark]
      simp only [if_true]
      rw [e]
      refine ⟨hr, ?_, ?_, ?_⟩
      · show (s.yielded ++ x :: s.queue).Nodup
        have hp : (s.yielded ++ x :: s.queue).Perm (x :: (s.yielded ++ s.queue)) := List.perm_middle
        rw [hp.nodup_iff, List.nodup_cons]
        exact ⟨hnot, h.nodup⟩
      · intro y
        show y ∈ s.yielded ++ x :: s.queue ↔ y ∈ s.pushed ++ [x]
        have := h.cover y
        simp only [List.mem_append, List.mem_cons, List.not_mem_nil, or_false] at this ⊢
        rw [← this]
        constructor
        · rintro (h1 | h1 | h1)
          · exact Or.inl (Or.inl h1)
          · exact Or.inr h1
          · exact Or.inl (Or.inr h1)
        · rintro ((h1 | h1) | h1)
          · exact Or.inl h1
          · exact Or.inr (Or.inr h1)
          · exact Or.inr (Or.inl h1)
      · intro y
        show y ∈ s.pushed ++ [x] ↔ y ∈ s.offered ++ [x]
        rw [List.mem_append, List.mem_append, h.offered y]

theorem invOnce_foldl {s : St} (h : InvOnce s) (front : Bool) (xs : List Nat) :
    InvOnce (xs.foldl (fun s x => if front then pushFront1 s x else push1 s x) s) := by
  induction xs generalizing s with
  | nil => exact h
  | cons x xs ih => exact ih (invOnce_offer h front x)

theorem invOnce_step {s : St} (h : InvOnce s) (op : Op) : InvOnce (step s op).1 := by
  cases op with
  | push x => exact invOnce_offer h false x
  | pushAll xs => exact invOnce_foldl h false xs
  | pushFront xs => exact invOnce_foldl h true xs
  | next =>
    cases hq : s.queue with
    | nil => simp only [step, hq]; exact h
    | cons x q =>
      simp only [step, hq]
      have e : s.yielded ++ [x] ++ q = s.yielded ++ s.queue := by rw [hq]; simp
      refine ⟨h.norevisit, ?_, ?_, h.offered⟩
      · show (s.yielded ++ [x] ++ q).Nodup
        rw [e]; exact h.nodup
      · intro y
        show y ∈ s.yielded ++ [x] ++ q ↔ y ∈ s.pushed
        rw [e]; exact h.cover y
  | hasNext => exact h
  | pushed x => exact h
  | stop => exact ⟨h.norevisit, h.nodup, h.cover, h.offered⟩
  | stopped => exact h
  | reset =>
    refine ⟨h.norevisit, ?_, ?_, ?_⟩ <;> simp [step]

theorem invOnce_final (s : St) (ops : List Op) (h : InvOnce s) : InvOnce (final s ops) := by
  induction ops generalizing s with
  | nil => exact h
  | cons op ops ih => exact ih _ (invOnce_step h op)

/-! ## with revisiting: every offer is yielded or queued, as often as it was offered -/

def InvAll (s : St) : Prop := s.revisit = true ∧ (s.yielded ++ s.queue).Perm s.offered

theorem invAll_init : InvAll (init true) := by
  simp [InvAll, init]

theorem invAll_offer {s : St} (h : InvAll s) (front : Bool) (x : Nat) :
    InvAll (if front then pushFront1 s x else push1 s x) := by
  obtain ⟨hr, hp⟩ := h
  cases front with
  | false =>
    have e : push1 s x = { s with pushed := mark s.pushed x, queue := s.queue ++ [x], offered := s.offered ++ [x] } := by
      simp [push1, hr]
    simp only [Bool.false_eq_true, if_false]
    rw [e]
    refine ⟨hr, ?_⟩
    show (s.yielded ++ (s.queue ++ [x])).Perm (s.offered ++ [x])
    rw [← List.append_assoc]
    exact hp.append_right [x]
  | true =>
    have e : pushFront1 s x = { s with pushed := mark s.pushed x, queue := x :: s.queue, offered := s.offered ++ [x] } := by
      simp [pushFront1, hr]
    simp only [if_true]
    rw [e]
    refine ⟨hr, ?_⟩
    show (s.yielded ++ x :: s.queue).Perm (s.offered ++ [x])
    have h1 : (s.yielded ++ x :: s.queue).Perm (x :: (s.yielded ++ s.queue)) := List.perm_middle
    have h2 : (x :: (s.yielded ++ s.queue)).Perm (x :: s.offered) := hp.cons x
    have h3 : (x :: s.offered).Perm (s.offered ++ [x]) := (List.perm_append_singleton x s.offered).symm
    exact h1.trans (h2.trans h3)

theorem invAll_foldl {s : St} (h : InvAll s) (front : Bool) (xs : List Nat) :
    InvAll (xs.foldl (fun s x => if front then pushFront1 s x else push1 s x) s) := by
  induction xs generalizing s with
  | nil => exact h
  | cons x xs ih => exact ih (invAll_offer h front x)

theorem invAll_step {s : St} (h : InvAll s) (op : Op) : InvAll (step s op).1 := by
  cases op with
  | push x => exact invAll_offer h false x
  | pushAll xs => exact invAll_foldl h false xs
  | pushFront xs => exact invAll_foldl h true xs
  | next =>
    cases hq : s.queue with
    | nil => simp only [step, hq]; exact h
    | cons x q =>
      simp only [step, hq]
      refine ⟨h.1, ?_⟩
      show (s.yielded ++ [x] ++ q).Perm s.offered
      have e : s.yielded ++ [x] ++ q = s.yielded ++ s.queue := by rw [hq]; simp
      rw [e]; exact h.2
  | hasNext => exact h
  | pushed x => exact h
  | stop => exact ⟨h.1, h.2⟩
  | stopped => exact h
  | reset => exact ⟨h.1, by simp [step]⟩

theorem invAll_final (s : St) (ops : List Op) (h : InvAll s) : InvAll (final s ops) := by
  induction ops generalizing s with
  | nil => exact h
  | cons op ops ih => exact ih _ (invAll_step h op)

/-! ## PushFront / Push semantics, explicitly -/

/-- The elements of `xs` that are new w.r.t. `p`, first occurrences only, in argument order. -/
def fresh (p : List Nat) : List Nat → List Nat
  | [] => []
  | x :: xs => if x ∈ p then fresh p xs else x :: fresh (p ++ [x]) xs

theorem pushFront_queue (s : St) (xs : List Nat) (hr : s.revisit = false) :
    (xs.foldl pushFront1 s).queue = (fresh s.pushed xs).reverse ++ s.queue ∧
    (xs.foldl pushFront1 s).pushed = s.pushed ++ fresh s.pushed xs := by
  induction xs generalizing s with
  | nil => simp [fresh]
  | cons x xs ih =>
    simp only [List.foldl_cons, fresh]
    by_cases hx : x ∈ s.pushed
    · have e : pushFront1 s x = { s with offered := s.offered ++ [x] } := by simp [pushFront1, hx, hr]
      rw [e]
      have := ih { s with offered := s.offered ++ [x] } hr
      simpa [hx] using this
    · have e : pushFront1 s x = { s with pushed := s.pushed ++ [x], queue := x :: s.queue, offered := s.offered ++ [x] } := by
        simp [pushFront1, hx, mark]
      rw [e]
      have := ih { s with pushed := s.pushed ++ [x], queue := x :: s.queue, offered := s.offered ++ [x] } hr
      simp only [hx, if_false]
      obtain ⟨h1, h2⟩ := this
      exact ⟨by rw [h1]; simp, by rw [h2]; simp⟩

theorem push_queue (s : St) (xs : List Nat) (hr : s.revisit = false) :
    (xs.foldl push1 s).queue = s.queue ++ fresh s.pushed xs ∧
    (xs.foldl push1 s).pushed = s.pushed ++ fresh s.pushed xs := by
  induction xs generalizing s with
  | nil => simp [fresh]
  | cons x xs ih =>
    simp only [List.foldl_cons, fresh]
    by_cases hx : x ∈ s.pushed
    · have e : push1 s x = { s with offered := s.offered ++ [x] } := by simp [push1, hx, hr]
      rw [e]
      have := ih { s with offered := s.offered ++ [x] } hr
      simpa [hx] using this
    · have e : push1 s x = { s with pushed := s.pushed ++ [x], queue := s.queue ++ [x], offered := s.offered ++ [x] } := by
        simp [push1, hx, mark]
      rw [e]
      have := ih { s with pushed := s.pushed ++ [x], queue := s.queue ++ [x], offered := s.offered ++ [x] } hr
      simp only [hx, if_false]
      obtain ⟨h1, h2⟩ := this
      exact ⟨by rw [h1]; simp, by rw [h2]; simp⟩

theorem run_fst (s : St) (ops : List Op) : (run s ops).1 = final s ops := by
  induction ops generalizing s with
  | nil => rfl
  | cons op ops ih => simp [run, final, ih]

end Hive.C12b.WK
