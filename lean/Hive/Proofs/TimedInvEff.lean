import Hive.Proofs.TimedInv
/-!
# The invariant is preserved by every effect on the shared state (thread pool unchanged)

`Eff s s'` lists the ways an API call changes the fields the invariant reads (heap, log, next,
closed, reg, the ignore flag, clock); `inv_eff` proves preservation once per kind of effect.
-/
namespace Hive.Timed
open Hive.Conc

/-- Multiset inclusion of heaps. -/
def HSub (h' h : List Elem) : Prop := ∀ p : Elem → Bool, h'.countP p ≤ h.countP p

theorem HSub.refl (h : List Elem) : HSub h h := fun _ => Nat.le_refl _

theorem HSub.mem {h' h : List Elem} (hs : HSub h' h) {e : Elem} (he : e ∈ h') : e ∈ h := by
  have h1 : 0 < h'.countP (fun a => a == e) := List.countP_pos_iff.mpr ⟨e, he, by simp⟩
  have h2 := hs (fun a => a == e)
  have h3 : 0 < h.countP (fun a => a == e) := by omega
  obtain ⟨a, ha, hae⟩ := List.countP_pos_iff.mp h3
  have : a = e := by simpa using hae
  exact this ▸ ha

theorem HSub.hc {h' h : List Elem} (hs : HSub h' h) (x : Nat) : hc x h' ≤ hc x h := hs _

theorem HSub.of_perm_cons {h h' : List Elem} {e : Elem} (hp : h.Perm (e :: h')) : HSub h' h := by
  intro p
  rw [hp.countP_eq p, List.countP_cons]
  omega

theorem HSub.nil (h : List Elem) : HSub [] h := fun _ => by simp

/-- Events that no clause of the trace predicate and no counter looks at. -/
def Ev.inert : Ev → Bool
  | .dropSize _ => true
  | .dropSD _ => true
  | .skip _ => true
  | .cancelRes _ false _ => true
  | .cancelRes _ true none => true
  | _ => false

/-- The identifier map after a successful `Add` of element `x`. -/
def regAfter (r : List (Nat × Nat)) (id : Option Nat) (x : Nat) : List (Nat × Nat) :=
  match id with
  | some i => regSet r i x
  | none => r

inductive Eff (s s' : Sh) : Prop
  /-- nothing the invariant reads changes, except that elements may leave the heap, inert events may
  be logged and the clock may advance -/
  | core (new : List Ev) : HSub s'.heap s.heap → s'.log = new ++ s.log → (∀ ev ∈ new, ev.inert = true) →
      s'.next = s.next → (∀ y ∈ s.closed, y ∈ s'.closed) →
      (∀ j y, regGet s'.reg j = some y → regGet s.reg j = some y) → s'.flags = s.flags → s.clock ≤ s'.clock → Eff s s'
  /-- `QueueElement.Cancel()` -/
  | cancel (x : Nat) : HSub s'.heap s.heap → s'.log = .cancelled x :: s.log → s'.next = s.next →
      (∀ y, y ∈ s'.closed ↔ y = x ∨ y ∈ s.closed) → s'.reg = s.reg → s'.flags = s.flags →
      s'.clock = s.clock → Eff s s'
  /-- the registration of `x` under `i` is dropped together with the event that says so -/
  | revoke (i x : Nat) (ev : Ev) : regGet s.reg i = some x → (ev = .cancelRes i true (some x) ∨ ev = .replaced i x) →
      s'.heap = s.heap → s'.log = ev :: s.log → s'.next = s.next → s'.closed = s.closed →
      s'.reg = regDel s.reg i → s'.flags = s.flags → s'.clock = s.clock → Eff s s'
  /-- a successful `Queue.Add`, registering the element if it has an identifier -/
  | addOk (due : Nat) (id : Option Nat) (kind : Kind) (tag : Nat) (new : List Ev) :
      HSub s'.heap (newElem s due id kind tag :: s.heap) → (∀ ev ∈ new, ev.inert = true) →
      s'.log = new ++ .sched s.next id due :: s.log → s'.next = s.next + 1 → (∀ y ∈ s.closed, y ∈ s'.closed) →
      s'.reg = regAfter s.reg id s.next →
      s'.flags = s.flags → s'.clock = s.clock → Eff s s'
  /-- first part of `Queue.Shutdown` -/
  | sd1 (f : Flags) : s'.heap = s.heap → s'.log = .shutdown f.cancel f.ignore :: s.log → s'.next = s.next →
      s'.closed = s.closed → s'.reg = s.reg → s'.flags = s.flags.or f → s'.clock = s.clock → Eff s s'

section
variable {ev : Ev} (hi : ev.inert = true)
include hi
theorem inert_isDeliver (x : Nat) : Ev.isDeliver x ev = false := by
  cases ev <;> simp_all [Ev.inert, Ev.isDeliver]
theorem inert_isRun (x : Nat) : Ev.isRun x ev = false := by
  cases ev <;> simp_all [Ev.inert, Ev.isRun]
theorem inert_isCancelled (x : Nat) : Ev.isCancelled x ev = false := by
  cases ev <;> simp_all [Ev.inert, Ev.isCancelled]
theorem inert_isRevoke (x : Nat) : Ev.isRevoke x ev = false := by
  cases ev with
  | cancelRes i b o => cases b <;> cases o <;> simp_all [Ev.inert, Ev.isRevoke]
  | _ => simp_all [Ev.inert, Ev.isRevoke]
theorem inert_isIgnore : Ev.isIgnoreShutdown ev = false := by
  cases ev <;> simp_all [Ev.inert, Ev.isIgnoreShutdown]
theorem inert_okEv (older : List Ev) : okEv ev older = true := by
  cases ev with
  | cancelRes i b o => cases b <;> cases o <;> simp_all [Ev.inert, okEv]
  | _ => simp_all [Ev.inert, okEv]
theorem inert_not_sched (y : Nat) (i : Option Nat) (d : Nat) : ev ≠ .sched y i d := by
  intro h; subst h; simp [Ev.inert] at hi
end

/-- What a list of inert events in front of a log does to everything the invariant computes from the log. -/
structure LogSame (log' log : List Ev) : Prop where
  dc : ∀ x, dc x log' = dc x log
  rc : ∀ x, rc x log' = rc x log
  canc : ∀ x, log'.any (Ev.isCancelled x) = log.any (Ev.isCancelled x)
  rev : ∀ x, log'.any (Ev.isRevoke x) = log.any (Ev.isRevoke x)
  ign : log'.any Ev.isIgnoreShutdown = log.any Ev.isIgnoreShutdown
  due : ∀ x, dueOf x log' = dueOf x log
  idf : ∀ x, idOf x log' = idOf x log
  ok : okLog log' = okLog log

theorem logSame_inert {new log : List Ev} (h : ∀ ev ∈ new, ev.inert = true) : LogSame (new ++ log) log := by
  induction new with
  | nil => exact ⟨fun _ => rfl, fun _ => rfl, fun _ => rfl, fun _ => rfl, rfl, fun _ => rfl, fun _ => rfl, rfl⟩
  | cons ev new ih =>
    have hev := h ev (by simp)
    have ih' := ih (fun e he => h e (by simp [he]))
    have hns : ∀ y i d, Ev.sched y i d ∈ [ev] → False := by
      intro y i d hm
      simp only [List.mem_singleton] at hm
      exact inert_not_sched hev y i d hm.symm
    constructor
    · intro x; simp only [List.cons_append, dc, List.countP_cons, inert_isDeliver hev]; exact ih'.dc x
    · intro x; simp only [List.cons_append, rc, List.countP_cons, inert_isRun hev]; exact ih'.rc x
    · intro x; simp only [List.cons_append, List.any_cons, inert_isCancelled hev, Bool.false_or]; exact ih'.canc x
    · intro x; simp only [List.cons_append, List.any_cons, inert_isRevoke hev, Bool.false_or]; exact ih'.rev x
    · simp only [List.cons_append, List.any_cons, inert_isIgnore hev, Bool.false_or]; exact ih'.ign
    · intro x
      have := dueOf_append (x := x) (new := [ev]) (log := new ++ log) (fun y i d hm => (hns y i d hm).elim)
      simp only [List.cons_append, List.nil_append] at this ⊢
      rw [this]; exact ih'.due x
    · intro x
      have := idOf_append (x := x) (new := [ev]) (log := new ++ log) (fun y i d hm => (hns y i d hm).elim)
      simp only [List.cons_append, List.nil_append] at this ⊢
      rw [this]; exact ih'.idf x
    · simp only [List.cons_append, okLog, inert_okEv hev, Bool.true_and]; exact ih'.ok

theorem Eff.ext {s s' : Sh} (h : Eff s s') : Ext s s' := by
  cases h with
  | core new hh hl hin hn hc hr hf hk =>
    refine ⟨by omega, hk, by rw [hf]; exact fun h => h, new, hl, ?_⟩
    intro y i d hm; exact (inert_not_sched (hin _ hm) y i d rfl).elim
  | cancel x hh hl hn hc hr hf hk =>
    exact ⟨by omega, by omega, by rw [hf]; exact fun h => h, [.cancelled x], by simpa using hl, by simp⟩
  | revoke i x ev hg hev hh hl hn hc hr hf hk =>
    refine ⟨by omega, by omega, by rw [hf]; exact fun h => h, [ev], by simpa using hl, ?_⟩
    intro y j d hm
    simp only [List.mem_singleton] at hm
    rcases hev with rfl | rfl <;> cases hm
  | addOk due id kind tag new hh hin hl hn hc hr hf hk =>
    refine ⟨by omega, by omega, by rw [hf]; exact fun h => h, new ++ [.sched s.next id due], by simpa using hl, ?_⟩
    intro y j d hm
    simp only [List.mem_append, List.mem_singleton] at hm
    rcases hm with hm | hm
    · exact (inert_not_sched (hin _ hm) y j d rfl).elim
    · cases hm; exact Nat.le_refl _
  | sd1 f hh hl hn hc hr hf hk =>
    refine ⟨by omega, by omega, ?_, [.shutdown f.cancel f.ignore], by simpa using hl, by simp⟩
    intro hi; rw [hf]; simp [Flags.or, hi]


theorem inv_eff_core {s s' : Sh} {ts : List Th} (h : Inv s ts) (new : List Ev) (hh : HSub s'.heap s.heap)
    (hl : s'.log = new ++ s.log) (hin : ∀ ev ∈ new, ev.inert = true) (hn : s'.next = s.next)
    (hcl : ∀ y ∈ s.closed, y ∈ s'.closed) (hr : ∀ j y, regGet s'.reg j = some y → regGet s.reg j = some y)
    (hf : s'.flags = s.flags) (hk : s.clock ≤ s'.clock) :
    Inv s' ts := by
  have x := (Eff.core new hh hl hin hn hcl hr hf hk).ext
  have ls := logSame_inert (log := s.log) hin
  constructor
  · intro y; rw [hl, ls.dc]; have := h.a1 y; have := hh.hc y; omega
  · intro y; rw [hl, ls.dc, ls.rc]; exact h.b1 y
  · intro y hy; rw [hl, ls.dc, ls.rev, ls.due]; exact h.fresh y (by omega)
  · intro e he; exact (h.heap_ok e (hh.mem he)).ext x
  · intro t ht; exact (h.th_ok t ht).ext x
  · intro y hy; rw [hl, ls.canc] at hy; exact hcl _ (h.c1 y hy)
  · intro hi; rw [hl, ls.ign]; rw [hf] at hi; exact h.ign hi
  · intro i y hy; rw [hn]; exact h.r_lt i y (hr i y hy)
  · intro i y hy; rw [hl, ls.rev, ls.rc]; exact h.r_rev i y (hr i y hy)
  · intro i y hy; rw [hl, ls.idf]; exact h.r_id i y (hr i y hy)
  · intro i j y hi hj; exact h.r_inj i j y (hr i y hi) (hr j y hj)
  · intro y hy; rw [hl, ls.rev] at hy; rw [hl, ls.idf]; exact h.rev_id y hy
  · rw [hl, ls.ok]; exact h.ok

theorem inv_eff_cancel {s s' : Sh} {ts : List Th} (h : Inv s ts) (x : Nat) (hh : HSub s'.heap s.heap)
    (hl : s'.log = .cancelled x :: s.log) (hn : s'.next = s.next)
    (hcl : ∀ y, y ∈ s'.closed ↔ y = x ∨ y ∈ s.closed) (hr : s'.reg = s.reg) (hf : s'.flags = s.flags)
    (hk : s'.clock = s.clock) : Inv s' ts := by
  have ex := (Eff.cancel x hh hl hn hcl hr hf hk).ext
  constructor
  · intro y; rw [hl]; have := h.a1 y; have := hh.hc y
    simp only [dc, List.countP_cons, Ev.isDeliver, Bool.false_eq_true, ↓reduceIte, Nat.add_zero] at *; omega
  · intro y; rw [hl]; have := h.b1 y
    simp only [dc, rc, List.countP_cons, Ev.isDeliver, Ev.isRun, Bool.false_eq_true, ↓reduceIte, Nat.add_zero] at *; omega
  · intro y hy; rw [hl]; have := h.fresh y (by omega)
    simpa [dc, List.countP_cons, Ev.isDeliver, Ev.isRevoke, dueOf] using this
  · intro e he; exact (h.heap_ok e (hh.mem he)).ext ex
  · intro t ht; exact (h.th_ok t ht).ext ex
  · intro y hy; rw [hl] at hy
    simp only [List.any_cons, Ev.isCancelled, Bool.or_eq_true, beq_iff_eq] at hy
    rw [hcl]
    rcases hy with hy | hy
    · exact Or.inl hy.symm
    · exact Or.inr (h.c1 y hy)
  · intro hi; rw [hf] at hi; rw [hl]; simpa [Ev.isIgnoreShutdown] using h.ign hi
  · intro i y hy; rw [hr] at hy; rw [hn]; exact h.r_lt i y hy
  · intro i y hy; rw [hr] at hy; rw [hl]; simpa [rc, List.countP_cons, Ev.isRevoke, Ev.isRun] using h.r_rev i y hy
  · intro i y hy; rw [hr] at hy; rw [hl]; simpa [idOf] using h.r_id i y hy
  · intro i j y hi hj; rw [hr] at hi hj; exact h.r_inj i j y hi hj
  · intro y hy; rw [hl] at hy ⊢; simp only [List.any_cons, Ev.isRevoke, Bool.false_or] at hy
    simpa [idOf] using h.rev_id y hy
  · rw [hl]; simp only [okLog, okEv, Bool.true_and]; exact h.ok

theorem inv_eff_revoke {s s' : Sh} {ts : List Th} (h : Inv s ts) (i x : Nat) (ev : Ev)
    (hg : regGet s.reg i = some x) (hev : ev = .cancelRes i true (some x) ∨ ev = .replaced i x)
    (hh : s'.heap = s.heap) (hl : s'.log = ev :: s.log) (hn : s'.next = s.next) (hcl : s'.closed = s.closed)
    (hr : s'.reg = regDel s.reg i) (hf : s'.flags = s.flags) (hk : s'.clock = s.clock) : Inv s' ts := by
  have ex := (Eff.revoke i x ev hg hev hh hl hn hcl hr hf hk).ext
  have hxlt := h.r_lt i x hg
  have hdel : ∀ y, Ev.isDeliver y ev = false := by rcases hev with rfl | rfl <;> intro y <;> rfl
  have hrun : ∀ y, Ev.isRun y ev = false := by rcases hev with rfl | rfl <;> intro y <;> rfl
  have hcan : ∀ y, Ev.isCancelled y ev = false := by rcases hev with rfl | rfl <;> intro y <;> rfl
  have hign : Ev.isIgnoreShutdown ev = false := by rcases hev with rfl | rfl <;> rfl
  have hrev : ∀ y, Ev.isRevoke y ev = (x == y) := by rcases hev with rfl | rfl <;> intro y <;> rfl
  have hdue : ∀ y, dueOf y (ev :: s.log) = dueOf y s.log := by rcases hev with rfl | rfl <;> intro y <;> rfl
  have hidf : ∀ y, idOf y (ev :: s.log) = idOf y s.log := by rcases hev with rfl | rfl <;> intro y <;> rfl
  have hok : okEv ev s.log = !s.log.any (Ev.isRun x) := by rcases hev with rfl | rfl <;> rfl
  constructor
  · intro y; rw [hl, hh]; have := h.a1 y
    simp only [dc, List.countP_cons, hdel, Bool.false_eq_true, ↓reduceIte, Nat.add_zero] at *; omega
  · intro y; rw [hl]; have := h.b1 y
    simp only [dc, rc, List.countP_cons, hdel, hrun, Bool.false_eq_true, ↓reduceIte, Nat.add_zero] at *; omega
  · intro y hy; rw [hl]; obtain ⟨f1, f2, f3⟩ := h.fresh y (by omega)
    refine ⟨?_, ?_, ?_⟩
    · simpa [dc, List.countP_cons, hdel] using f1
    · have : x ≠ y := by omega
      simp [List.any_cons, hrev, this, f2]
    · rw [hdue]; exact f3
  · intro e he; rw [hh] at he; exact (h.heap_ok e he).ext ex
  · intro t ht; exact (h.th_ok t ht).ext ex
  · intro y hy; rw [hl] at hy; simp only [List.any_cons, hcan, Bool.false_or] at hy; rw [hcl]; exact h.c1 y hy
  · intro hi; rw [hf] at hi; rw [hl]; simp only [List.any_cons, hign, Bool.false_or]; exact h.ign hi
  · intro j y hy; rw [hr] at hy; rw [hn]; exact h.r_lt j y (regGet_regDel_some hy).2
  · intro j y hy; rw [hr] at hy
    obtain ⟨hji, hy'⟩ := regGet_regDel_some hy
    have hxy : x ≠ y := by
      intro hxy; subst hxy; exact hji (h.r_inj j i x hy' hg)
    obtain ⟨r1, r2⟩ := h.r_rev j y hy'
    rw [hl]
    refine ⟨by simp [List.any_cons, hrev, hxy, r1], ?_⟩
    simpa [rc, List.countP_cons, hrun] using r2
  · intro j y hy; rw [hr] at hy; rw [hl, hidf]; exact h.r_id j y (regGet_regDel_some hy).2
  · intro j k y hj hk'; rw [hr] at hj hk'
    exact h.r_inj j k y (regGet_regDel_some hj).2 (regGet_regDel_some hk').2
  · intro y hy; rw [hl] at hy ⊢; rw [hidf]
    simp only [List.any_cons, hrev, Bool.or_eq_true, beq_iff_eq] at hy
    rcases hy with rfl | hy
    · exact ⟨i, h.r_id i x hg⟩
    · exact h.rev_id y hy
  · rw [hl]; simp only [okLog, hok, Bool.and_eq_true, Bool.not_eq_eq_eq_not, Bool.not_true]
    exact ⟨any_false_of_countP (h.r_rev i x hg).2, h.ok⟩

theorem pre_zero_of_fresh {s : Sh} {ts : List Th} (h : ∀ t ∈ ts, TOk s t) {y : Nat} (hy : s.next ≤ y) :
    tsum (pre y) ts = 0 := by
  apply tsum_zero
  intro t ht
  have := h t ht
  cases t <;> simp only [pre, TOk, Known] at * <;>
    first
    | rfl
    | (have h1 := this.1; split <;> omega)
    | (have h1 := this.1.1; split <;> omega)

theorem wr_zero_of_fresh {s : Sh} {ts : List Th} (h : ∀ t ∈ ts, TOk s t) {y : Nat} (hy : s.next ≤ y) :
    tsum (wr y) ts = 0 := by
  apply tsum_zero
  intro t ht
  have := h t ht
  cases t <;> simp only [wr, TOk, Known] at * <;>
    first
    | rfl
    | (have h1 := this.1.1; split <;> omega)

theorem inv_eff_addOk {s s' : Sh} {ts : List Th} (h : Inv s ts) (due : Nat) (id : Option Nat) (kind : Kind)
    (tag : Nat) (new : List Ev) (hh : HSub s'.heap (newElem s due id kind tag :: s.heap))
    (hin : ∀ ev ∈ new, ev.inert = true) (hl : s'.log = new ++ .sched s.next id due :: s.log)
    (hn : s'.next = s.next + 1) (hcl : ∀ y ∈ s.closed, y ∈ s'.closed)
    (hr : s'.reg = regAfter s.reg id s.next)
    (hf : s'.flags = s.flags) (hk : s'.clock = s.clock) : Inv s' ts := by
  have ex := (Eff.addOk due id kind tag new hh hin hl hn hcl hr hf hk).ext
  have ls := logSame_inert (log := Ev.sched s.next id due :: s.log) hin
  obtain ⟨fr1, fr2, fr3⟩ := h.fresh s.next (Nat.le_refl _)
  have hrc0 : rc s.next s.log = 0 := by have := h.b1 s.next; omega
  have hdue : ∀ y, dueOf y (Ev.sched s.next id due :: s.log) = if s.next == y then some due else dueOf y s.log :=
    fun y => rfl
  have hidf : ∀ y, idOf y (Ev.sched s.next id due :: s.log) = if s.next == y then some id else idOf y s.log :=
    fun y => rfl
  have hreg : ∀ j y, regGet s'.reg j = some y → (id = some j ∧ y = s.next) ∨ (regGet s.reg j = some y) := by
    intro j y hy
    rw [hr] at hy
    unfold regAfter at hy
    cases id with
    | none => exact Or.inr hy
    | some i =>
      by_cases hji : j = i
      · subst hji; simp only [regGet_regSet_self, Option.some.injEq] at hy; exact Or.inl ⟨rfl, hy.symm⟩
      · simp only [regGet_regSet_ne _ _ hji] at hy; exact Or.inr hy
  constructor
  · intro y
    rw [hl, ls.dc]
    have h1 := hh.hc y
    rw [hc_cons] at h1
    simp only [newElem] at h1
    have h2 := h.a1 y
    simp only [dc, List.countP_cons, Ev.isDeliver, Bool.false_eq_true, ↓reduceIte, Nat.add_zero] at *
    by_cases hy : s.next = y
    · subst hy
      have : hc s.next s.heap = 0 := hc_zero_of_forall (fun e he => by have := (h.heap_ok e he).1; omega)
      have := pre_zero_of_fresh h.th_ok (Nat.le_refl s.next)
      try simp only [if_true] at h1
      omega
    · try simp only [hy, if_false] at h1
      omega
  · intro y; rw [hl, ls.dc, ls.rc]; have := h.b1 y
    simp only [dc, rc, List.countP_cons, Ev.isDeliver, Ev.isRun, Bool.false_eq_true, ↓reduceIte, Nat.add_zero] at *
    exact this
  · intro y hy
    obtain ⟨f1, f2, f3⟩ := h.fresh y (by omega)
    rw [hl, ls.dc, ls.rev, ls.due]
    refine ⟨?_, ?_, ?_⟩
    · simpa [dc, List.countP_cons, Ev.isDeliver] using f1
    · simpa [Ev.isRevoke] using f2
    · rw [hdue]; have : ¬ s.next = y := by omega
      simp [this, f3]
  · intro e he
    have hm := hh.mem he
    rcases List.mem_cons.mp hm with rfl | hm
    · refine ⟨by simp [newElem, hn], ?_, ?_⟩
      · rw [hl, ls.due, hdue]; simp [newElem]
      · rw [hl, ls.idf, hidf]; simp [newElem]
    · exact (h.heap_ok e hm).ext ex
  · intro t ht; exact (h.th_ok t ht).ext ex
  · intro y hy; rw [hl, ls.canc] at hy
    simp only [List.any_cons, Ev.isCancelled, Bool.false_or] at hy; exact hcl _ (h.c1 y hy)
  · intro hi; rw [hf] at hi; rw [hl, ls.ign]; simpa [Ev.isIgnoreShutdown] using h.ign hi
  · intro j y hy; rw [hn]
    rcases hreg j y hy with ⟨_, rfl⟩ | hy'
    · omega
    · have := h.r_lt j y hy'; omega
  · intro j y hy; rw [hl, ls.rev, ls.rc]
    simp only [List.any_cons, Ev.isRevoke, Bool.false_or, rc, List.countP_cons, Ev.isRun, Bool.false_eq_true,
      ↓reduceIte, Nat.add_zero]
    rcases hreg j y hy with ⟨_, rfl⟩ | hy'
    · exact ⟨fr2, hrc0⟩
    · exact h.r_rev j y hy'
  · intro j y hy; rw [hl, ls.idf, hidf]
    rcases hreg j y hy with ⟨hid, rfl⟩ | hy'
    · simp [hid]
    · have := h.r_lt j y hy'
      have hne : ¬ s.next = y := by omega
      simp only [beq_iff_eq, hne, if_false]; exact h.r_id j y hy'
  · intro j k y hj hk'
    rcases hreg j y hj with ⟨hid, rfl⟩ | hj'
    · rcases hreg k s.next hk' with ⟨hid', _⟩ | hk''
      · rw [hid] at hid'; exact Option.some.inj hid'
      · have := h.r_lt k _ hk''; omega
    · rcases hreg k y hk' with ⟨hid', rfl⟩ | hk''
      · have := h.r_lt j _ hj'; omega
      · exact h.r_inj j k y hj' hk''
  · intro y hy; rw [hl, ls.rev] at hy; rw [hl, ls.idf, hidf]
    simp only [List.any_cons, Ev.isRevoke, Bool.false_or] at hy
    have hne : ¬ s.next = y := by
      intro hny; subst hny; rw [fr2] at hy; exact Bool.false_ne_true hy
    simp only [beq_iff_eq, hne, if_false]; exact h.rev_id y hy
  · rw [hl, ls.ok]; simp only [okLog, okEv, Bool.true_and]; exact h.ok

theorem inv_eff_sd1 {s s' : Sh} {ts : List Th} (h : Inv s ts) (f : Flags) (hh : s'.heap = s.heap)
    (hl : s'.log = .shutdown f.cancel f.ignore :: s.log) (hn : s'.next = s.next) (hcl : s'.closed = s.closed)
    (hr : s'.reg = s.reg) (hf : s'.flags = s.flags.or f) (hk : s'.clock = s.clock) : Inv s' ts := by
  have ex := (Eff.sd1 f hh hl hn hcl hr hf hk).ext
  constructor
  · intro y; rw [hl, hh]; have := h.a1 y
    simp only [dc, List.countP_cons, Ev.isDeliver, Bool.false_eq_true, ↓reduceIte, Nat.add_zero] at *; omega
  · intro y; rw [hl]; have := h.b1 y
    simp only [dc, rc, List.countP_cons, Ev.isDeliver, Ev.isRun, Bool.false_eq_true, ↓reduceIte, Nat.add_zero] at *
    omega
  · intro y hy; rw [hl]; have := h.fresh y (by omega)
    simpa [dc, List.countP_cons, Ev.isDeliver, Ev.isRevoke, dueOf] using this
  · intro e he; rw [hh] at he; exact (h.heap_ok e he).ext ex
  · intro t ht; exact (h.th_ok t ht).ext ex
  · intro y hy; rw [hl] at hy; simp only [List.any_cons, Ev.isCancelled, Bool.false_or] at hy
    rw [hcl]; exact h.c1 y hy
  · intro hi; rw [hf] at hi; rw [hl]
    simp only [Flags.or, Bool.or_eq_true] at hi
    simp only [List.any_cons, Bool.or_eq_true]
    rcases hi with hi | hi
    · exact Or.inr (h.ign hi)
    · left; rw [hi]; rfl
  · intro i y hy; rw [hr] at hy; rw [hn]; exact h.r_lt i y hy
  · intro i y hy; rw [hr] at hy; rw [hl]
    simpa [rc, List.countP_cons, Ev.isRevoke, Ev.isRun] using h.r_rev i y hy
  · intro i y hy; rw [hr] at hy; rw [hl]; simpa [idOf] using h.r_id i y hy
  · intro i j y hi hj; rw [hr] at hi hj; exact h.r_inj i j y hi hj
  · intro y hy; rw [hl] at hy ⊢; simp only [List.any_cons, Ev.isRevoke, Bool.false_or] at hy
    simpa [idOf] using h.rev_id y hy
  · rw [hl]; simp only [okLog, okEv, Bool.true_and]; exact h.ok

theorem inv_eff {s s' : Sh} {ts : List Th} (h : Inv s ts) (e : Eff s s') : Inv s' ts := by
  cases e with
  | core new hh hl hin hn hc hr hf hk => exact inv_eff_core h new hh hl hin hn hc hr hf hk
  | cancel x hh hl hn hc hr hf hk => exact inv_eff_cancel h x hh hl hn hc hr hf hk
  | revoke i x ev hg hev hh hl hn hc hr hf hk => exact inv_eff_revoke h i x ev hg hev hh hl hn hc hr hf hk
  | addOk due id kind tag new hh hin hl hn hc hr hf hk => exact inv_eff_addOk h due id kind tag new hh hin hl hn hc hr hf hk
  | sd1 f hh hl hn hc hr hf hk => exact inv_eff_sd1 h f hh hl hn hc hr hf hk

end Hive.Timed
