import Hive.Model.TypedStore
/-! Lemmas about the `TypedStore` model: failures, transparency, the iteration loop. -/
namespace Hive.Typed

variable {K V : Type}

/-! ### the raw store -/

theorem Store.get_insert_same (m : Store) (k v : Bytes) : (m.insert k v).get k = some v := by
  induction m with
  | nil => simp [Store.insert, Store.get]
  | cons e rest ih =>
    obtain ⟨k', v'⟩ := e
    unfold Store.insert
    split
    · simp [Store.get]
    · split
      · simp [Store.get]
      · rename_i hne _
        simp [Store.get, hne, ih]

theorem Store.get_insert_other (m : Store) (k k' v : Bytes) (h : k' ≠ k) :
    (m.insert k v).get k' = m.get k' := by
  induction m with
  | nil => simp [Store.insert, Store.get, h]
  | cons e rest ih =>
    obtain ⟨k'', v''⟩ := e
    unfold Store.insert
    split
    · rename_i heq; subst heq; simp [Store.get, h]
    · split
      · simp [Store.get, h]
      · simp only [Store.get, ih]

theorem Store.get_erase_same (m : Store) (k : Bytes) : (m.erase k).get k = none := by
  induction m with
  | nil => simp [Store.erase, Store.get]
  | cons e rest ih =>
    obtain ⟨k', v'⟩ := e
    by_cases hk : k' = k
    · subst hk; simpa [Store.erase, List.filter] using ih
    · have : (k = k') = False := by simp; exact fun a => hk a.symm
      simp only [Store.erase, List.filter, ne_eq, hk, not_false_eq_true, decide_true, Store.get, this, if_false]
      exact ih

theorem Store.get_erase_other (m : Store) (k k' : Bytes) (h : k' ≠ k) : (m.erase k).get k' = m.get k' := by
  induction m with
  | nil => simp [Store.erase, Store.get]
  | cons e rest ih =>
    obtain ⟨k'', v''⟩ := e
    by_cases hk : k'' = k
    · subst hk
      have : (k' = k'') = False := by simp [h]
      simp only [Store.erase, List.filter, ne_eq, not_true_eq_false, decide_false, Store.get, this, if_false]
      exact ih
    · simp only [Store.erase, List.filter, ne_eq, hk, not_false_eq_true, decide_true, Store.get]
      split
      · rfl
      · exact ih

/-! ### failures -/

def serrOf : SCall → SErr
  | .kvGet | .kvHas | .kvSet | .kvDel | .kvIter | .cb => .kv
  | .encK => .encK
  | .encV => .encV
  | .decK => .decK
  | .decV => .decV

/-- The error an answer carries, if any. -/
def SOut.error : SOut K V → Option SErr
  | .err e => some e
  | .iter _ st => st
  | _ => none

/-- Every failed call is reported with its own error, and the store is unchanged. -/
def SFailAtomic (m : Store) (r : SRes K V) : Prop :=
  ∀ e ∈ r.tr, e.res = .fail → r.st = m ∧ r.out.error = some (serrOf e.call)

/-- An error is returned only when a call failed. -/
def SErrTraced (r : SRes K V) : Prop :=
  ∀ k, r.out.error = some k → ∃ e ∈ r.tr, e.res = .fail ∧ serrOf e.call = k

theorem sfailAtomic_get (KC : Codec K) (VC : Codec V) (m : Store) (k : K) (F : SFaults) :
    SFailAtomic m (sget KC VC m k F) := by
  unfold sget SFailAtomic
  repeat' split
  all_goals simp [serrOf, SOut.error]

theorem sfailAtomic_has (KC : Codec K) (m : Store) (k : K) (F : SFaults) :
    SFailAtomic m (shas (V := V) KC m k F) := by
  unfold shas SFailAtomic
  repeat' split
  all_goals simp [serrOf, SOut.error]

theorem sfailAtomic_set (KC : Codec K) (VC : Codec V) (m : Store) (k : K) (v : V) (F : SFaults) :
    SFailAtomic m (sset KC VC m k v F) := by
  unfold sset SFailAtomic
  repeat' split
  all_goals simp [serrOf, SOut.error]

theorem sfailAtomic_delete (KC : Codec K) (m : Store) (k : K) (F : SFaults) :
    SFailAtomic m (sdelete (V := V) KC m k F) := by
  unfold sdelete SFailAtomic
  repeat' split
  all_goals simp [serrOf, SOut.error]

/-- The loop reports exactly the failure it records (given a failure-free trace so far). -/
theorem iterLoop_fail (kvAfter : Option Nat) (stop : Nat) (rs : List (Except SErr (K × V))) :
    ∀ (n : Nat) (acc : List (K × V)) (tr : List SEv), (∀ e ∈ tr, e.res ≠ .fail) →
      (∀ x ∈ rs, x ≠ .error .kv ∧ x ≠ .error .encK ∧ x ≠ .error .encV) →
      ∀ e ∈ (iterLoop kvAfter stop rs n acc tr).2.2, e.res = .fail →
        (iterLoop kvAfter stop rs n acc tr).2.1 = some (serrOf e.call) := by
  induction rs with
  | nil =>
    intro n acc tr htr _ e he hf
    simp only [iterLoop, List.mem_append, List.mem_cons, List.not_mem_nil, or_false] at he
    rcases he with he | rfl
    · exact absurd hf (htr e he)
    · simp at hf
  | cons r rest ih =>
    intro n acc tr htr hrs e he hf
    have hr := hrs r (by simp)
    unfold iterLoop at he ⊢
    split
    · rename_i hk
      simp only [hk, if_true, List.mem_append, List.mem_cons, List.not_mem_nil, or_false] at he
      rcases he with he | rfl
      · exact absurd hf (htr e he)
      · simp [serrOf]
    · rename_i hk
      simp only [hk, if_false] at he
      cases r with
      | error er =>
        cases er with
        | decV =>
          simp only [List.mem_append, List.mem_cons, List.not_mem_nil, or_false] at he
          rcases he with he | rfl | rfl | rfl
          · exact absurd hf (htr e he)
          · simp at hf
          · simp [serrOf]
          · simp at hf
        | decK =>
          simp only [List.mem_append, List.mem_cons, List.not_mem_nil, or_false] at he
          rcases he with he | rfl | rfl
          · exact absurd hf (htr e he)
          · simp [serrOf]
          · simp at hf
        | kv => simp at hr
        | encK => simp at hr
        | encV => simp at hr
      | ok kv =>
        simp only at he ⊢
        split
        · rename_i hs
          simp only [hs, if_true, List.mem_append, List.mem_cons, List.not_mem_nil, or_false] at he
          rcases he with he | rfl | rfl | rfl | rfl
          · exact absurd hf (htr e he)
          all_goals simp at hf
        · rename_i hs
          simp only [hs, if_false] at he
          refine ih (n + 1) (acc ++ [kv]) _ ?_ (fun x hx => hrs x (by simp [hx])) e he hf
          intro e' he'
          simp only [List.mem_append, List.mem_cons, List.not_mem_nil, or_false] at he'
          rcases he' with he' | rfl | rfl | rfl
          · exact htr e' he'
          all_goals simp

theorem iterLoop_traced (kvAfter : Option Nat) (stop : Nat) (rs : List (Except SErr (K × V))) :
    ∀ (n : Nat) (acc : List (K × V)) (tr : List SEv) (k : SErr),
      (∀ x ∈ rs, x ≠ .error .kv ∧ x ≠ .error .encK ∧ x ≠ .error .encV) →
      (iterLoop kvAfter stop rs n acc tr).2.1 = some k →
        ∃ e ∈ (iterLoop kvAfter stop rs n acc tr).2.2, e.res = .fail ∧ serrOf e.call = k := by
  induction rs with
  | nil => intro n acc tr k _ h; simp [iterLoop] at h
  | cons r rest ih =>
    intro n acc tr k hrs h
    have hr := hrs r (by simp)
    unfold iterLoop at h ⊢
    split
    · rename_i hk
      simp only [hk, if_true] at h
      cases h
      exact ⟨⟨.kvIter, .fail⟩, by simp, rfl, rfl⟩
    · rename_i hk
      simp only [hk, if_false] at h
      cases r with
      | error er =>
        cases er with
        | decV => simp only at h ⊢; cases h; exact ⟨⟨.decV, .fail⟩, by simp, rfl, rfl⟩
        | decK => simp only at h ⊢; cases h; exact ⟨⟨.decK, .fail⟩, by simp, rfl, rfl⟩
        | kv => simp at hr
        | encK => simp at hr
        | encV => simp at hr
      | ok kv =>
        simp only at h ⊢
        split
        · rename_i hs; simp [hs] at h
        · rename_i hs
          simp only [hs, if_false] at h
          exact ih _ _ _ k (fun x hx => hrs x (by simp [hx])) h

theorem decEntry_kinds (KC : Codec K) (VC : Codec V) (F : SFaults) (i : Nat) (e : Bytes × Bytes) :
    decEntry KC VC F i e ≠ .error .kv ∧ decEntry KC VC F i e ≠ .error .encK ∧ decEntry KC VC F i e ≠ .error .encV := by
  unfold decEntry
  repeat' split
  all_goals simp

theorem mapIdxFrom_mem {A B : Type} (f : Nat → A → B) (l : List A) :
    ∀ (i : Nat) (x : B), x ∈ mapIdxFrom f i l → ∃ j a, x = f j a := by
  induction l with
  | nil => intro i x h; simp [mapIdxFrom] at h
  | cons a as ih =>
    intro i x h
    simp only [mapIdxFrom, List.mem_cons] at h
    rcases h with rfl | h
    · exact ⟨i, a, rfl⟩
    · exact ih _ _ h

theorem rs_kinds (KC : Codec K) (VC : Codec V) (F : SFaults) (es : Store) :
    ∀ x ∈ mapIdxFrom (decEntry KC VC F) 0 es, x ≠ .error .kv ∧ x ≠ .error .encK ∧ x ≠ .error .encV := by
  intro x hx
  obtain ⟨j, a, rfl⟩ := mapIdxFrom_mem _ _ _ _ hx
  exact decEntry_kinds KC VC F j a

theorem siterate_st (KC : Codec K) (VC : Codec V) (m : Store) (pfx : Bytes) (bwd : Bool) (stop : Nat) (F : SFaults) :
    (siterate KC VC m pfx bwd stop F).st = m := by
  unfold siterate; split <;> rfl

theorem sfailAtomic_iterate (KC : Codec K) (VC : Codec V) (m : Store) (pfx : Bytes) (bwd : Bool) (stop : Nat)
    (F : SFaults) : SFailAtomic m (siterate KC VC m pfx bwd stop F) := by
  intro e he hf
  refine ⟨siterate_st .., ?_⟩
  unfold siterate at he ⊢
  split
  · rename_i hk
    simp only [hk, if_true, List.mem_cons, List.not_mem_nil, or_false] at he
    subst he; simp [SOut.error, serrOf]
  · rename_i hk
    simp only [hk] at he
    exact iterLoop_fail F.kvAfter stop _ 0 [] [] (by simp) (rs_kinds KC VC F _) e he hf

theorem sfailAtomic_step (KC : Codec K) (VC : Codec V) (m : Store) (op : SOp K V) (F : SFaults) :
    SFailAtomic m (sstep KC VC m op F) := by
  cases op with
  | get k => exact sfailAtomic_get KC VC m k F
  | has k => exact sfailAtomic_has KC m k F
  | set k v => exact sfailAtomic_set KC VC m k v F
  | delete k => exact sfailAtomic_delete KC m k F
  | iterate pfx bwd stop => exact sfailAtomic_iterate KC VC m pfx bwd stop F

theorem serrTraced_step (KC : Codec K) (VC : Codec V) (m : Store) (op : SOp K V) (F : SFaults) :
    SErrTraced (sstep KC VC m op F) := by
  cases op with
  | get k =>
    show SErrTraced (sget KC VC m k F)
    unfold sget SErrTraced; repeat' split
    all_goals simp [serrOf, SOut.error]
  | has k =>
    show SErrTraced (shas KC m k F)
    unfold shas SErrTraced; repeat' split
    all_goals simp [serrOf, SOut.error]
  | set k v =>
    show SErrTraced (sset KC VC m k v F)
    unfold sset SErrTraced; repeat' split
    all_goals simp [serrOf, SOut.error]
  | delete k =>
    show SErrTraced (sdelete KC m k F)
    unfold sdelete SErrTraced; repeat' split
    all_goals simp [serrOf, SOut.error]
  | iterate pfx bwd stop =>
    show SErrTraced (siterate KC VC m pfx bwd stop F)
    intro k hk
    unfold siterate at hk ⊢
    split
    · rename_i h1
      simp only [h1, if_true, SOut.error] at hk
      cases hk
      exact ⟨⟨.kvIter, .fail⟩, by simp, rfl, rfl⟩
    · rename_i h1
      simp only [h1, SOut.error] at hk
      exact iterLoop_traced F.kvAfter stop _ 0 [] [] k (rs_kinds KC VC F _) hk

/-! ### the iteration loop, declaratively -/

@[simp] theorem goodPrefix_nil : goodPrefix ([] : List (Except SErr (K × V))) = [] := rfl
@[simp] theorem goodPrefix_ok (kv : K × V) (rs : List (Except SErr (K × V))) :
    goodPrefix (.ok kv :: rs) = kv :: goodPrefix rs := by
  simp [goodPrefix, List.takeWhile, Except.isOk, Except.toBool, Except.toOption]
@[simp] theorem goodPrefix_err (e : SErr) (rs : List (Except SErr (K × V))) :
    goodPrefix (.error e :: rs) = [] := by
  simp [goodPrefix, List.takeWhile, Except.isOk, Except.toBool]
@[simp] theorem firstErr_nil : firstErr ([] : List (Except SErr (K × V))) = none := rfl
@[simp] theorem firstErr_ok (kv : K × V) (rs : List (Except SErr (K × V))) :
    firstErr (.ok kv :: rs) = firstErr rs := by
  simp [firstErr, List.dropWhile, Except.isOk, Except.toBool]
@[simp] theorem firstErr_err (e : SErr) (rs : List (Except SErr (K × V))) :
    firstErr (.error e :: rs) = some e := by
  simp [firstErr, List.dropWhile, Except.isOk, Except.toBool]

/-- Without a store failure the loop hands the callback the decodable prefix — cut where the
callback asks to stop — and returns the first decode error unless the callback stopped before it. -/
theorem iterLoop_spec (stop : Nat) (rs : List (Except SErr (K × V))) :
    ∀ (n : Nat) (acc : List (K × V)) (tr : List SEv),
      (∀ x ∈ rs, x ≠ .error .kv ∧ x ≠ .error .encK ∧ x ≠ .error .encV) →
      ((iterLoop none stop rs n acc tr).1, (iterLoop none stop rs n acc tr).2.1) =
        if acc.length < stop ∧ stop ≤ acc.length + (goodPrefix rs).length then
          (acc ++ (goodPrefix rs).take (stop - acc.length), none)
        else (acc ++ goodPrefix rs, firstErr rs) := by
  induction rs with
  | nil =>
    intro n acc tr _
    simp only [iterLoop, goodPrefix_nil, List.length_nil, Nat.add_zero, List.append_nil, firstErr_nil]
    split
    · rename_i h; omega
    · rfl
  | cons r rest ih =>
    intro n acc tr hrs
    have hr := hrs r (by simp)
    unfold iterLoop
    simp only [reduceCtorEq, if_false]
    cases r with
    | error er =>
      have hlen : ¬ (acc.length < stop ∧ stop ≤ acc.length + 0) := by omega
      cases er with
      | decV => simp
      | decK => simp
      | kv => simp at hr
      | encK => simp at hr
      | encV => simp at hr
    | ok kv =>
      simp only [goodPrefix_ok, firstErr_ok, List.length_cons, List.length_append, List.length_nil, Nat.zero_add]
      split
      · rename_i hs
        have h1 : acc.length < stop ∧ stop ≤ acc.length + ((goodPrefix rest).length + 1) := by omega
        have h2 : stop - acc.length = 1 := by omega
        simp [h1, h2]
      · rename_i hs
        rw [ih (n + 1) (acc ++ [kv]) _ (fun x hx => hrs x (by simp [hx]))]
        simp only [List.length_append, List.length_cons, List.length_nil, Nat.zero_add]
        by_cases hc : acc.length < stop ∧ stop ≤ acc.length + ((goodPrefix rest).length + 1)
        · have hc' : acc.length + 1 < stop ∧ stop ≤ acc.length + 1 + (goodPrefix rest).length := by omega
          have h3 : stop - acc.length = (stop - (acc.length + 1)) + 1 := by omega
          simp [hc, hc', h3]
        · have hc' : ¬ (acc.length + 1 < stop ∧ stop ≤ acc.length + 1 + (goodPrefix rest).length) := by omega
          simp [hc, hc']

/-- With any store failure position the pairs delivered are still a prefix of the decodable prefix. -/
theorem iterLoop_prefix (kvAfter : Option Nat) (stop : Nat) (rs : List (Except SErr (K × V))) :
    ∀ (n : Nat) (acc : List (K × V)) (tr : List SEv),
      ∃ j, (iterLoop kvAfter stop rs n acc tr).1 = acc ++ (goodPrefix rs).take j := by
  induction rs with
  | nil => intro n acc tr; exact ⟨0, by simp [iterLoop]⟩
  | cons r rest ih =>
    intro n acc tr
    unfold iterLoop
    split
    · exact ⟨0, by simp⟩
    · cases r with
      | error er => cases er <;> exact ⟨0, by simp⟩
      | ok kv =>
        simp only
        split
        · exact ⟨1, by simp⟩
        · obtain ⟨j, hj⟩ := ih (n + 1) (acc ++ [kv]) (tr ++ [⟨.decK, .ok⟩, ⟨.decV, .ok⟩, ⟨.cb, .ok⟩])
          exact ⟨j + 1, by rw [hj]; simp⟩

/-- Without injected decode faults the position of a decode call does not matter. -/
theorem decEntry_noFaults (KC : Codec K) (VC : Codec V) (i : Nat) (e : Bytes × Bytes) :
    decEntry KC VC noSFaults i e = decEntry KC VC noSFaults 0 e := by
  simp [decEntry, decAt, noSFaults]

theorem mapIdxFrom_noFaults (KC : Codec K) (VC : Codec V) (es : Store) :
    ∀ i, mapIdxFrom (decEntry KC VC noSFaults) i es = es.map (decEntry KC VC noSFaults 0) := by
  induction es with
  | nil => intro i; rfl
  | cons e rest ih => intro i; simp [mapIdxFrom, ih, decEntry_noFaults KC VC i e]

end Hive.Typed
