import Hive.Proofs.ReactiveInst
/-!
# Every note of a Set subscription is a true difference (`diffFrom`)

`applyMut` / `replaceMut` report only elements that were absent as added and only elements that are
present (after the additions) as deleted; lifted along the linked history of a subscription, with the
fold of the notes tracking the contents (`set_entry`).
-/
namespace Hive.Reactive

theorem applyMut_diff (s : List Nat) (m : Mut) :
    (∀ x ∈ (applyMut s m).2.1, x ∉ s) ∧ (∀ x ∈ (applyMut s m).2.2, x ∈ s ∨ x ∈ (applyMut s m).2.1) := by
  constructor
  · intro x hx
    simp only [applyMut, List.mem_filter, List.contains_eq_mem, Bool.not_eq_true', decide_eq_false_iff_not] at hx
    exact hx.2
  · intro x hx
    simp only [applyMut, List.mem_filter, List.mem_append, List.contains_eq_mem, decide_eq_true_eq,
      Bool.not_eq_true', decide_eq_false_iff_not] at hx ⊢
    exact hx.2

theorem replaceMut_diff (s els : List Nat) :
    (∀ x ∈ (replaceMut s els).2.1, x ∉ s) ∧ (∀ x ∈ (replaceMut s els).2.2, x ∈ s ∨ x ∈ (replaceMut s els).2.1) := by
  constructor
  · intro x hx
    simp only [replaceMut, List.mem_filter, List.contains_eq_mem, Bool.not_eq_true', decide_eq_false_iff_not] at hx
    exact hx.2
  · intro x hx
    simp only [replaceMut, List.mem_filter, List.contains_eq_mem, Bool.not_eq_true', decide_eq_false_iff_not] at hx
    exact Or.inl hx.1

/-- What a write of the Set reports: added elements were absent, deleted elements are present by then. -/
theorem set_entry_diff {init : List Nat} {e : Entry (List Nat) Mut}
    (h : ∃ w, (setObj init).upd e.before w = .change e.after e.note) :
    (∀ x ∈ e.note.1, x ∉ e.before) ∧ (∀ x ∈ e.note.2, x ∈ e.before ∨ x ∈ e.note.1) := by
  obtain ⟨w, hw⟩ := h
  cases w with
  | apply m =>
    simp only [setObj, setUpd] at hw
    split at hw
    · cases hw
    · split at hw
      · cases hw
      · injection hw with h1 h2
        rw [← h2]; exact applyMut_diff _ _
  | compute g =>
    simp only [setObj, setUpd] at hw
    injection hw with h1 h2
    rw [← h2]; exact applyMut_diff _ _
  | replace els =>
    simp only [setObj, setUpd] at hw
    injection hw with h1 h2
    rw [← h2]; exact replaceMut_diff _ _
  | replaceView g =>
    simp only [setObj, setUpd] at hw
    injection hw with h1 h2
    rw [← h2]; exact replaceMut_diff _ _

/-- Along a linked history of true differences, starting from a fold that equals the first state. -/
theorem diffFrom_linked {a b : List Nat} {l : List (Entry (List Nat) Mut)} (hl : linked a l b)
    (hf : ∀ e ∈ l, ∀ x, x ∈ e.after ↔ x ∈ foldStep e.before e.note)
    (hd : ∀ e ∈ l, (∀ x ∈ e.note.1, x ∉ e.before) ∧ (∀ x ∈ e.note.2, x ∈ e.before ∨ x ∈ e.note.1))
    (T : List Nat) (hT : ∀ x, x ∈ T ↔ x ∈ a) (d : Nat) : diffFrom T ((l.take d).map (·.note)) = true := by
  induction l generalizing a T d with
  | nil => simp [diffFrom]
  | cons e r ih =>
    cases d with
    | zero => simp [diffFrom]
    | succ d =>
      have he := hd e (by simp)
      have hb : e.before = a := hl.1
      simp only [List.take_succ_cons, List.map_cons, diffFrom, Bool.and_eq_true, List.all_eq_true,
        Bool.not_eq_true', List.contains_eq_mem, decide_eq_false_iff_not, decide_eq_true_eq, List.mem_append]
      refine ⟨⟨?_, ?_⟩, ?_⟩
      · intro x hx; rw [hT x, ← hb]; exact he.1 x hx
      · intro x hx; rw [hT x, ← hb]; exact he.2 x hx
      · apply ih hl.2 (fun y hy => hf y (List.mem_cons_of_mem _ hy)) (fun y hy => hd y (List.mem_cons_of_mem _ hy))
        intro x
        rw [hf e (by simp) x, mem_foldStep, mem_foldStep, hT x, hb]

/-- **The notes of every Set subscription are true differences** (initial note included). -/
theorem set_notes_trueDiffs (init : List Nat) {cfg : Hive.Conc.Cfg (Sh (List Nat) Mut) (Th (setObj init).WOp Mut)}
    (hi : Inv (setObj init) cfg) {c : Nat} (hc : c < cfg.1.ncb) : trueDiffs (notes (cfg.1.cbs c).evs) = true := by
  have h3 := hi.i3.cb c
  rcases done_or_untouched _ hi hc with hd | ⟨he, _⟩
  · rw [h3.log]
    obtain ⟨flag, hflag⟩ := h3.iniOk hc
    have key : ∀ T, (∀ x, x ∈ T ↔ x ∈ (cfg.1.cbs c).s0) →
        diffFrom T (((cfg.1.cbs c).since.take (cfg.1.cbs c).d).map (·.note)) = true :=
      fun T hT => diffFrom_linked (h3.chain hc) (fun e he => set_entry (h3.upd e he))
        (fun e he => set_entry_diff (h3.upd e he)) T hT _
    simp only [iniPart, hd, if_true, hflag, setObj, trueDiffs]
    split
    · simp only [Option.toList, List.cons_append, List.nil_append, diffFrom, List.all_nil, Bool.and_true]
      simp only [Bool.and_eq_true, List.all_eq_true]
      refine ⟨by intro x _; simp, ?_⟩
      apply key
      intro x; rw [mem_foldStep]; simp
    · next hno =>
      have : (cfg.1.cbs c).s0 = [] := by
        cases hs : (cfg.1.cbs c).s0 with
        | nil => rfl
        | cons a r => simp [hs] at hno
      simp only [Option.toList, List.nil_append]
      apply key
      intro x; rw [this]
  · rw [he]; rfl

end Hive.Reactive
