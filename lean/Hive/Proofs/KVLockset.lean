import Hive.Model.KVLockset

/-!
# Soundness of the lockset analysis `an` w.r.t. the path semantics `Exec`

If `fnOk g p` then on every path through `p` — either branch of every `if`, any number of iterations of every loop,
early `return`/`break`/`continue` — and through the body of every closure in `p`, the trace of events runs without
violating the discipline (`okA` holds before every event in the lock state reached so far), and the path ends, by
falling off the end or by `return`, in a state in which every lock still held has its unlock deferred.
-/

namespace Hive.KV.Lockset

/-! ## Unfolding equations of `an` -/

theorem an_seq (g : Guards) (p q : Prog) (lc : Option Held) (h : Held) :
    an g (.seq p q) lc h =
      match an g p lc h with
      | .err => .err
      | .jump => if q = .skip then .jump else .err
      | .fall h' => an g q lc h' := by
  rw [an]; rfl

theorem an_ite (g : Guards) (t e : Prog) (lc : Option Held) (h : Held) :
    an g (.ite t e) lc h =
      match an g t lc h, an g e lc h with
      | .err, _ => .err
      | _, .err => .err
      | .jump, .jump => .jump
      | .fall h1, .jump => if h1 = h then .fall h else .err
      | .jump, .fall h2 => if h2 = h then .fall h else .err
      | .fall h1, .fall h2 => if h1 = h ∧ h2 = h then .fall h else .err := by
  rw [an]; rfl

theorem an_loop (g : Guards) (b : Prog) (lc : Option Held) (h : Held) :
    an g (.loop b) lc h =
      match an g b (some h) h with
      | .err => .err
      | .jump => .fall h
      | .fall h' => if h' = h then .fall h else .err := by
  rw [an]; rfl

theorem an_closure (g : Guards) (b : Prog) (lc : Option Held) (h : Held) :
    an g (.closure b) lc h = if bodyVerdict (an g b none []) then .fall h else .err := by
  rw [an]

/-! ## Consequences of "not refused" for the composite statements -/

theorem seq_left_ne_err {g : Guards} {p q : Prog} {lc : Option Held} {h : Held}
    (hne : an g (.seq p q) lc h ≠ .err) : an g p lc h ≠ .err := by
  intro hc
  apply hne
  rw [an_seq, hc]

theorem seq_of_fall {g : Guards} {p q : Prog} {lc : Option Held} {h h1 : Held}
    (hp : an g p lc h = .fall h1) : an g (.seq p q) lc h = an g q lc h1 := by
  rw [an_seq, hp]

theorem ite_ne_err {g : Guards} {t e : Prog} {lc : Option Held} {h : Held}
    (hne : an g (.ite t e) lc h ≠ .err) : an g t lc h ≠ .err ∧ an g e lc h ≠ .err := by
  rw [an_ite] at hne
  constructor
  · intro hc
    apply hne
    rw [hc]
  · intro hc
    apply hne
    rw [hc]
    cases an g t lc h <;> rfl

theorem ite_fall_left {g : Guards} {t e : Prog} {lc : Option Held} {h h1 : Held}
    (hne : an g (.ite t e) lc h ≠ .err) (ht : an g t lc h = .fall h1) :
    h1 = h ∧ an g (.ite t e) lc h = .fall h := by
  rw [an_ite, ht] at hne
  rw [an_ite, ht]
  cases he : an g e lc h with
  | err => rw [he] at hne; exact absurd rfl hne
  | jump =>
    rw [he] at hne
    by_cases hh : h1 = h
    · exact ⟨hh, by simp [hh]⟩
    · simp [hh] at hne
  | fall h2 =>
    rw [he] at hne
    by_cases hh : h1 = h ∧ h2 = h
    · exact ⟨hh.1, by simp [hh.1, hh.2]⟩
    · simp [hh] at hne

theorem ite_fall_right {g : Guards} {t e : Prog} {lc : Option Held} {h h2 : Held}
    (hne : an g (.ite t e) lc h ≠ .err) (he : an g e lc h = .fall h2) :
    h2 = h ∧ an g (.ite t e) lc h = .fall h := by
  rw [an_ite, he] at hne
  rw [an_ite, he]
  cases ht : an g t lc h with
  | err => rw [ht] at hne; exact absurd rfl hne
  | jump =>
    rw [ht] at hne
    by_cases hh : h2 = h
    · exact ⟨hh, by simp [hh]⟩
    · simp [hh] at hne
  | fall h1 =>
    rw [ht] at hne
    by_cases hh : h1 = h ∧ h2 = h
    · exact ⟨hh.2, by simp [hh.1, hh.2]⟩
    · simp [hh] at hne

theorem loop_ne_err {g : Guards} {b : Prog} {lc : Option Held} {h : Held}
    (hne : an g (.loop b) lc h ≠ .err) :
    an g (.loop b) lc h = .fall h ∧ an g b (some h) h ≠ .err ∧
      ∀ h', an g b (some h) h = .fall h' → h' = h := by
  rw [an_loop] at hne
  rw [an_loop]
  cases hb : an g b (some h) h with
  | err => rw [hb] at hne; exact absurd rfl hne
  | jump => exact ⟨rfl, by simp, by simp⟩
  | fall h1 =>
    rw [hb] at hne
    by_cases hh : h1 = h
    · refine ⟨by simp [hh], by simp, ?_⟩
      intro h' heq
      cases heq
      exact hh
    · simp [hh] at hne

/-! ## Traces -/

theorem runTr_append (g : Guards) (h : Held) (t1 t2 : List Atom) :
    runTr g h (t1 ++ t2) = (runTr g h t1).bind fun h' => runTr g h' t2 := by
  induction t1 generalizing h with
  | nil => simp [runTr]
  | cons a t ih =>
    simp only [List.cons_append, runTr]
    by_cases hok : okA g h a = true
    · simp [hok, ih]
    · simp [hok]

/-- A successful run ends in `stateAfter`, and every event was allowed in the state reached before it. -/
theorem runTr_some {g : Guards} {h h' : Held} {tr : List Atom} (hrun : runTr g h tr = some h') :
    h' = stateAfter h tr ∧
      ∀ pre a post, tr = pre ++ a :: post → okA g (stateAfter h pre) a = true := by
  induction tr generalizing h with
  | nil =>
    simp only [runTr, Option.some.injEq] at hrun
    refine ⟨by simp [stateAfter, hrun], ?_⟩
    intro pre a post heq
    simp at heq
  | cons b t ih =>
    simp only [runTr] at hrun
    by_cases hok : okA g h b = true
    · simp only [hok, if_true] at hrun
      obtain ⟨hfin, hall⟩ := ih hrun
      refine ⟨by simp [stateAfter, hfin], ?_⟩
      intro pre a post heq
      cases pre with
      | nil =>
        simp only [List.nil_append, List.cons.injEq] at heq
        rw [← heq.1]
        simpa [stateAfter] using hok
      | cons c pre' =>
        simp only [List.cons_append, List.cons.injEq] at heq
        rw [← heq.1]
        simpa [stateAfter] using hall pre' a post heq.2
    · simp [hok] at hrun

/-! ## The main lemma -/

/-- What a path of `p` that ends as `o` guarantees, given the analysis result `r` of `p` from `h` (loop context `lc`):
the trace runs; a path that falls through ends in the very state the analysis computed; a returning path ends with
every held lock deferred; a `break`/`continue` path ends in the state of the loop entry. -/
def Post (g : Guards) (lc : Option Held) (h : Held) (tr : List Atom) (r : Res) : Out → Prop
  | .norm => ∃ h', r = .fall h' ∧ runTr g h tr = some h'
  | .ret => ∃ h', runTr g h tr = some h' ∧ allDeferred h' = true
  | .brk => ∃ h', runTr g h tr = some h' ∧ lc = some h'
  | .cont => ∃ h', runTr g h tr = some h' ∧ lc = some h'

theorem Post_prepend {g : Guards} {lc : Option Held} {h h1 : Held} {t1 t2 : List Atom} {r : Res} {o : Out}
    (hrun : runTr g h t1 = some h1) (hp : Post g lc h1 t2 r o) : Post g lc h (t1 ++ t2) r o := by
  cases o <;> simpa [Post, runTr_append, hrun] using hp

theorem Post_res_irrel {g : Guards} {lc : Option Held} {h : Held} {tr : List Atom} {r r' : Res} {o : Out}
    (ho : o ≠ .norm) (hp : Post g lc h tr r o) : Post g lc h tr r' o := by
  cases o with
  | norm => exact absurd rfl ho
  | ret => exact hp
  | brk => exact hp
  | cont => exact hp

theorem an_sound (g : Guards) {p : Prog} {tr : List Atom} {o : Out} (hex : Exec p tr o) :
    ∀ (lc : Option Held) (h : Held), an g p lc h ≠ .err → Post g lc h tr (an g p lc h) o := by
  induction hex with
  | skip =>
    intro lc h _
    exact ⟨h, by rw [an], rfl⟩
  | atom a =>
    intro lc h hne
    rw [an] at hne ⊢
    by_cases hok : okA g h a = true
    · simp only [hok, if_true]
      exact ⟨stepA h a, rfl, by simp [runTr, hok]⟩
    · simp [hok] at hne
  | ret =>
    intro lc h hne
    rw [an] at hne
    by_cases hd : allDeferred h = true
    · exact ⟨h, rfl, hd⟩
    · simp [hd] at hne
  | brk =>
    intro lc h hne
    rw [an] at hne
    by_cases hd : lc = some h
    · exact ⟨h, rfl, hd⟩
    · simp [hd] at hne
  | cont =>
    intro lc h hne
    rw [an] at hne
    by_cases hd : lc = some h
    · exact ⟨h, rfl, hd⟩
    · simp [hd] at hne
  | seqN _ _ ihp ihq =>
    intro lc h hne
    have hp := ihp lc h (seq_left_ne_err hne)
    obtain ⟨h1, hfall, hrun⟩ := hp
    rw [seq_of_fall hfall] at hne ⊢
    exact Post_prepend hrun (ihq lc h1 hne)
  | seqJ _ ho ihp =>
    intro lc h hne
    exact Post_res_irrel ho (ihp lc h (seq_left_ne_err hne))
  | @iteT t e tr o _ iht =>
    intro lc h hne
    have hp := iht lc h (ite_ne_err hne).1
    cases o with
    | norm =>
      obtain ⟨h1, hfall, hrun⟩ := hp
      obtain ⟨heq, hres⟩ := ite_fall_left hne hfall
      exact ⟨h, hres, by rw [hrun, heq]⟩
    | ret => exact hp
    | brk => exact hp
    | cont => exact hp
  | @iteE t e tr o _ ihe =>
    intro lc h hne
    have hp := ihe lc h (ite_ne_err hne).2
    cases o with
    | norm =>
      obtain ⟨h2, hfall, hrun⟩ := hp
      obtain ⟨heq, hres⟩ := ite_fall_right hne hfall
      exact ⟨h, hres, by rw [hrun, heq]⟩
    | ret => exact hp
    | brk => exact hp
    | cont => exact hp
  | loopDone =>
    intro lc h hne
    exact ⟨h, (loop_ne_err hne).1, rfl⟩
  | @loopIter b t1 t2 o1 o2 _ ho1 _ ihb ihl =>
    intro lc h hne
    obtain ⟨_, hbne, hbal⟩ := loop_ne_err hne
    have hb := ihb (some h) h hbne
    have hrun : runTr g h t1 = some h := by
      cases ho1 with
      | inl hn =>
        subst hn
        obtain ⟨h', hfall, hrun⟩ := hb
        rw [hrun, hbal h' hfall]
      | inr hc =>
        subst hc
        obtain ⟨h', hrun, hlc⟩ := hb
        rw [hrun]
        exact hlc.symm
    exact Post_prepend hrun (ihl lc h hne)
  | loopBrk _ ihb =>
    intro lc h hne
    obtain ⟨hres, hbne, _⟩ := loop_ne_err hne
    obtain ⟨h', hrun, hlc⟩ := ihb (some h) h hbne
    exact ⟨h, hres, by rw [hrun]; exact hlc.symm⟩
  | loopRet _ ihb =>
    intro lc h hne
    obtain ⟨_, hbne, _⟩ := loop_ne_err hne
    exact ihb (some h) h hbne
  | @closure b =>
    intro lc h hne
    rw [an_closure] at hne ⊢
    by_cases hv : bodyVerdict (an g b none []) = true
    · simp only [hv, if_true]
      exact ⟨h, rfl, rfl⟩
    · simp [hv] at hne

/-! ## Function bodies and closure bodies -/

theorem fnOk_ne_err {g : Guards} {p : Prog} (hok : fnOk g p = true) : an g p none [] ≠ .err := by
  intro hc
  simp [fnOk, hc, bodyVerdict] at hok

/-- Every closure body inside an accepted program has itself been accepted as a function body. -/
theorem bodies_ok (g : Guards) (p : Prog) :
    ∀ (lc : Option Held) (h : Held), an g p lc h ≠ .err → ∀ b ∈ bodies p, fnOk g b = true := by
  induction p with
  | skip => intro _ _ _ b hb; simp [bodies] at hb
  | atom a => intro _ _ _ b hb; simp [bodies] at hb
  | ret => intro _ _ _ b hb; simp [bodies] at hb
  | brk => intro _ _ _ b hb; simp [bodies] at hb
  | cont => intro _ _ _ b hb; simp [bodies] at hb
  | seq p q ihp ihq =>
    intro lc h hne b hb
    simp only [bodies, List.mem_append] at hb
    cases hb with
    | inl hb => exact ihp lc h (seq_left_ne_err hne) b hb
    | inr hb =>
      cases hp : an g p lc h with
      | err => exact absurd hp (seq_left_ne_err hne)
      | jump =>
        rw [an_seq, hp] at hne
        by_cases hq : q = .skip
        · subst hq
          simp [bodies] at hb
        · simp [hq] at hne
      | fall h1 =>
        rw [seq_of_fall hp] at hne
        exact ihq lc h1 hne b hb
  | ite t e iht ihe =>
    intro lc h hne b hb
    simp only [bodies, List.mem_append] at hb
    cases hb with
    | inl hb => exact iht lc h (ite_ne_err hne).1 b hb
    | inr hb => exact ihe lc h (ite_ne_err hne).2 b hb
  | loop body ih =>
    intro lc h hne b hb
    simp only [bodies] at hb
    exact ih (some h) h (loop_ne_err hne).2.1 b hb
  | closure body ih =>
    intro lc h hne b hb
    rw [an_closure] at hne
    have hv : bodyVerdict (an g body none []) = true := by
      by_cases hv : bodyVerdict (an g body none []) = true
      · exact hv
      · simp [hv] at hne
    simp only [bodies, List.mem_cons] at hb
    cases hb with
    | inl hb => subst hb; exact hv
    | inr hb => exact ih none [] (fnOk_ne_err hv) b hb

theorem allDeferred_iff_heldAtExit (h : Held) : allDeferred h = true ↔ heldAtExit h = [] := by
  simp [allDeferred, heldAtExit, List.filter_eq_nil_iff]

/-- An accepted body: every path runs without violating the discipline, ends by falling off the end or by `return`
(never by a stray `break`/`continue`), and ends with every held lock deferred. -/
theorem fn_sound {g : Guards} {p : Prog} (hok : fnOk g p = true) {tr : List Atom} {o : Out} (hex : Exec p tr o) :
    (o = .norm ∨ o = .ret) ∧ ∃ h', runTr g [] tr = some h' ∧ allDeferred h' = true := by
  have hp := an_sound g hex none [] (fnOk_ne_err hok)
  cases o with
  | norm =>
    obtain ⟨h', hfall, hrun⟩ := hp
    refine ⟨Or.inl rfl, h', hrun, ?_⟩
    simpa [fnOk, hfall, bodyVerdict] using hok
  | ret =>
    obtain ⟨h', hrun, hd⟩ := hp
    exact ⟨Or.inr rfl, h', hrun, hd⟩
  | brk =>
    obtain ⟨h', _, hlc⟩ := hp
    cases hlc
  | cont =>
    obtain ⟨h', _, hlc⟩ := hp
    cases hlc

/-- Soundness in terms of `okA`: for the body of an accepted function and of every closure in it, on every path,
every event is allowed in the lock state reached before it, and after the path (deferred unlocks run) nothing is held. -/
theorem lockset_sound_okA (g : Guards) (p : Prog) (hok : fnOk g p = true) :
    ∀ b ∈ p :: bodies p, ∀ (tr : List Atom) (o : Out), Exec b tr o →
      (o = .norm ∨ o = .ret) ∧
      (∀ pre a post, tr = pre ++ a :: post → okA g (stateAfter [] pre) a = true) ∧
      heldAtExit (stateAfter [] tr) = [] := by
  intro b hb tr o hex
  have hbok : fnOk g b = true := by
    simp only [List.mem_cons] at hb
    cases hb with
    | inl hb => subst hb; exact hok
    | inr hb => exact bodies_ok g p none [] (fnOk_ne_err hok) b hb
  obtain ⟨ho, h', hrun, hd⟩ := fn_sound hbok hex
  obtain ⟨hfin, hall⟩ := runTr_some hrun
  refine ⟨ho, hall, ?_⟩
  rw [← hfin]
  exact (allDeferred_iff_heldAtExit h').1 hd

/-! ## What `okA` says about accesses -/

theorem okA_read {g : Guards} {h : Held} {ty f x : String} (hok : okA g h (.read ty f x) = true)
    (hg : guardedQ g ty f = true) : ∃ e ∈ h, e.name = x := by
  simpa [okA, hg, heldAny] using hok

theorem okA_write {g : Guards} {h : Held} {ty f x : String} (hok : okA g h (.write ty f x) = true)
    (hg : guardedQ g ty f = true) : ∃ e ∈ h, e.name = x ∧ e.mode = .w := by
  simpa [okA, hg, heldW] using hok

theorem okA_escape {g : Guards} {h : Held} {ty f x : String} (hok : okA g h (.escape ty f x) = true) :
    guardedQ g ty f = false := by
  simpa [okA] using hok

theorem okA_unresolved {g : Guards} {h : Held} {f x : String} (hok : okA g h (.unresolved f x) = true) :
    guardedBare g f = false := by
  simpa [okA] using hok

theorem failing_nil {g : Guards} {funcs : List (String × List (List String))} (hf : failing g funcs = [])
    (f : String × List (List String)) (hmem : f ∈ funcs) : checkToks g f.2 = true := by
  simp only [failing, List.map_eq_nil_iff, List.filter_eq_nil_iff] at hf
  simpa using hf f hmem

theorem checkToks_parse {g : Guards} {toks : List (List String)} {p : Prog} (hc : checkToks g toks = true)
    (hp : parseToks toks = some p) : fnOk g p = true := by
  simpa [checkToks, hp] using hc

end Hive.KV.Lockset
