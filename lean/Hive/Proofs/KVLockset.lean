import Hive.Model.KVLockset

namespace Hive.KV.Lockset

end Hive.KV.Lockset
