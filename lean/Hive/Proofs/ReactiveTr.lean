import Hive.Model.ReactiveInst
/-!
# The transitions of the reactive protocol model, one constructor each

`Tr o sh t sh' t'` lists the nineteen ways `(sh', t') ∈ step o sh t` can hold; the invariant proofs
do their case analysis on it instead of unfolding `step` again and again.
-/
namespace Hive.Reactive
open Hive.Conc

variable {S N : Type}

inductive Tr (o : Obj S N) : Sh S N → Th o.WOp N → Sh S N → Th o.WOp N → Prop
  | earlyReturn (sh : Sh S N) (w : o.WOp) (rest : List (Op o.WOp)) : o.early w = true →
      Tr o sh { pc := .idle, script := .write w :: rest } sh { pc := .idle, script := rest }
  | startWrite (sh : Sh S N) (w : o.WOp) (rest : List (Op o.WOp)) : o.early w = false → sh.ulock = false →
      Tr o sh { pc := .idle, script := .write w :: rest } { sh with ulock := true } { pc := .wU w, script := rest }
  | startSub (sh : Sh S N) (flag : Bool) (rest : List (Op o.WOp)) : sh.vlock = false →
      Tr o sh { pc := .idle, script := .sub flag :: rest } { sh with vlock := true } { pc := .sV flag, script := rest }
  | startUnsub (sh : Sh S N) (c : Nat) (rest : List (Op o.WOp)) : c < sh.ncb →
      Tr o sh { pc := .idle, script := .unsub c :: rest }
        { sh with listed := sh.listed.filter (· != c) } { pc := .uRm c, script := rest }
  | wLockV (sh : Sh S N) (w : o.WOp) (sc : List (Op o.WOp)) : sh.vlock = false →
      Tr o sh { pc := .wU w, script := sc } { sh with vlock := true } { pc := .wV w, script := sc }
  | wChange (sh : Sh S N) (w : o.WOp) (sc : List (Op o.WOp)) (s' : S) (n : N) :
      o.upd sh.st w = .change s' n →
      Tr o sh { pc := .wV w, script := sc }
        { sh with st := s', uid := sh.uid + 1,
                  cbs := fun i => { sh.cbs i with since := (sh.cbs i).since ++ [{ before := sh.st, note := n, after := s' }] } }
        { pc := .wRelV (sh.uid + 1) (some n) sh.listed, script := sc }
  | wQuiet (sh : Sh S N) (w : o.WOp) (sc : List (Op o.WOp)) (bump : Bool) :
      o.upd sh.st w = .quiet bump →
      Tr o sh { pc := .wV w, script := sc }
        { sh with uid := if bump then sh.uid + 1 else sh.uid } { pc := .wRelV 0 none [], script := sc }
  | wRelV (sh : Sh S N) (id : Nat) (n : Option N) (todo : List Nat) (sc : List (Op o.WOp)) :
      Tr o sh { pc := .wRelV id n todo, script := sc } { sh with vlock := false } { pc := .wLoop id n todo, script := sc }
  | wDone (sh : Sh S N) (id : Nat) (n : Option N) (sc : List (Op o.WOp)) :
      Tr o sh { pc := .wLoop id n [], script := sc } { sh with ulock := false } { pc := .idle, script := sc }
  | wNone (sh : Sh S N) (id : Nat) (c : Nat) (rest : List Nat) (sc : List (Op o.WOp)) :
      Tr o sh { pc := .wLoop id none (c :: rest), script := sc } sh { pc := .wLoop id none rest, script := sc }
  | wTake (sh : Sh S N) (id : Nat) (n : N) (c : Nat) (rest : List Nat) (sc : List (Op o.WOp)) :
      (sh.cbs c).elock = false → (sh.cbs c).takes id = true →
      Tr o sh { pc := .wLoop id (some n) (c :: rest), script := sc }
        (setCb sh c { sh.cbs c with elock := true, last := id, evs := (sh.cbs c).evs ++ [.enter n], d := (sh.cbs c).d + 1 })
        { pc := .wRun id (some n) c rest, script := sc }
  | wSkip (sh : Sh S N) (id : Nat) (n : N) (c : Nat) (rest : List Nat) (sc : List (Op o.WOp)) :
      (sh.cbs c).elock = false → (sh.cbs c).takes id = false →
      Tr o sh { pc := .wLoop id (some n) (c :: rest), script := sc } sh { pc := .wLoop id (some n) rest, script := sc }
  | wExit (sh : Sh S N) (id : Nat) (n : Option N) (c : Nat) (rest : List Nat) (sc : List (Op o.WOp)) :
      Tr o sh { pc := .wRun id n c rest, script := sc }
        (setCb sh c { sh.cbs c with elock := false, evs := (sh.cbs c).evs ++ [.exit] })
        { pc := .wLoop id n rest, script := sc }
  | sRegister (sh : Sh S N) (flag : Bool) (sc : List (Op o.WOp)) :
      Tr o sh { pc := .sV flag, script := sc }
        { setCb sh sh.ncb { elock := true, last := sh.uid, s0 := sh.st, ini := o.ini sh.st flag } with
            ncb := sh.ncb + 1, listed := sh.listed ++ [sh.ncb] }
        { pc := .sReg sh.ncb, script := sc }
  | sRelV (sh : Sh S N) (c : Nat) (sc : List (Op o.WOp)) :
      Tr o sh { pc := .sReg c, script := sc } { sh with vlock := false } { pc := .sInit c, script := sc }
  | sEnter (sh : Sh S N) (c : Nat) (n : N) (sc : List (Op o.WOp)) : (sh.cbs c).ini = some n →
      Tr o sh { pc := .sInit c, script := sc }
        (setCb sh c { sh.cbs c with evs := (sh.cbs c).evs ++ [.enter n], iniDone := true }) { pc := .sRun c, script := sc }
  | sNoInit (sh : Sh S N) (c : Nat) (sc : List (Op o.WOp)) : (sh.cbs c).ini = none →
      Tr o sh { pc := .sInit c, script := sc }
        (setCb sh c { sh.cbs c with elock := false, iniDone := true }) { pc := .idle, script := sc }
  | sExit (sh : Sh S N) (c : Nat) (sc : List (Op o.WOp)) :
      Tr o sh { pc := .sRun c, script := sc }
        (setCb sh c { sh.cbs c with elock := false, evs := (sh.cbs c).evs ++ [.exit] }) { pc := .idle, script := sc }
  | uMark (sh : Sh S N) (c : Nat) (sc : List (Op o.WOp)) : (sh.cbs c).elock = false →
      Tr o sh { pc := .uRm c, script := sc }
        (setCb sh c { sh.cbs c with unsub := true, evs := (sh.cbs c).evs ++ [.unsubRet] }) { pc := .idle, script := sc }

theorem tr_of_step (o : Obj S N) {sh sh' : Sh S N} {t t' : Th o.WOp N}
    (h : (sh', t') ∈ step o sh t) : Tr o sh t sh' t' := by
  obtain ⟨pc, sc⟩ := t
  cases pc with
  | idle =>
    cases sc with
    | nil => simp [step] at h
    | cons op rest =>
      cases op with
      | write w =>
        by_cases hearly : o.early w = true
        · simp [step, hearly] at h
          obtain ⟨h1, h2⟩ := h
          rw [h1, h2]
          exact Tr.earlyReturn sh w rest hearly
        · by_cases hu : sh.ulock = true
          · simp [step, hu, hearly] at h
          · simp [step, hu, hearly] at h
            obtain ⟨rfl, rfl⟩ := h
            exact Tr.startWrite sh w rest (by simpa using hearly) (by simpa using hu)
      | sub flag =>
        by_cases hv : sh.vlock = true
        · simp [step, hv] at h
        · simp [step, hv] at h
          obtain ⟨rfl, rfl⟩ := h
          exact Tr.startSub sh flag rest (by simpa using hv)
      | unsub c =>
        by_cases hc : c < sh.ncb
        · simp [step, hc] at h
          obtain ⟨rfl, rfl⟩ := h
          exact Tr.startUnsub sh c rest hc
        · simp [step, hc] at h
  | wU w =>
    by_cases hv : sh.vlock = true
    · simp [step, hv] at h
    · simp [step, hv] at h
      obtain ⟨rfl, rfl⟩ := h
      exact Tr.wLockV sh w sc (by simpa using hv)
  | wV w =>
    cases hu : o.upd sh.st w with
    | change s' n =>
      simp [step, hu] at h
      obtain ⟨rfl, rfl⟩ := h
      exact Tr.wChange sh w sc s' n hu
    | quiet bump =>
      simp [step, hu] at h
      obtain ⟨rfl, rfl⟩ := h
      exact Tr.wQuiet sh w sc bump hu
  | wRelV id n todo =>
    simp [step] at h
    obtain ⟨rfl, rfl⟩ := h
    exact Tr.wRelV sh id n todo sc
  | wLoop id n todo =>
    cases todo with
    | nil =>
      simp [step] at h
      obtain ⟨rfl, rfl⟩ := h
      exact Tr.wDone sh id n sc
    | cons c rest =>
      cases n with
      | none =>
        simp [step] at h
        obtain ⟨h1, h2⟩ := h
        rw [h1, h2]
        exact Tr.wNone sh id c rest sc
      | some n =>
        by_cases he : (sh.cbs c).elock = true
        · simp [step, he] at h
        · by_cases ht : (sh.cbs c).takes id = true
          · simp [step, he, ht] at h
            obtain ⟨h1, h2⟩ := h
            rw [h1, h2]
            have := Tr.wTake (o := o) sh id n c rest sc (by simpa using he) ht
            simpa [he] using this
          · simp [step, he, ht] at h
            obtain ⟨h1, h2⟩ := h
            rw [h1, h2]
            exact Tr.wSkip sh id n c rest sc (by simpa using he) (by simpa using ht)
  | wRun id n c rest =>
    simp [step] at h
    obtain ⟨rfl, rfl⟩ := h
    exact Tr.wExit sh id n c rest sc
  | sV flag =>
    simp [step] at h
    obtain ⟨rfl, rfl⟩ := h
    exact Tr.sRegister sh flag sc
  | sReg c =>
    simp [step] at h
    obtain ⟨rfl, rfl⟩ := h
    exact Tr.sRelV sh c sc
  | sInit c =>
    cases hi : (sh.cbs c).ini with
    | some n =>
      simp [step, hi] at h
      obtain ⟨rfl, rfl⟩ := h
      have := Tr.sEnter (o := o) sh c n sc hi
      simpa [hi] using this
    | none =>
      simp [step, hi] at h
      obtain ⟨rfl, rfl⟩ := h
      have := Tr.sNoInit (o := o) sh c sc hi
      simpa [hi] using this
  | sRun c =>
    simp [step] at h
    obtain ⟨rfl, rfl⟩ := h
    exact Tr.sExit sh c sc
  | uRm c =>
    by_cases he : (sh.cbs c).elock = true
    · simp [step, he] at h
    · simp [step, he] at h
      obtain ⟨h1, h2⟩ := h
      rw [h1, h2]
      have := Tr.uMark (o := o) sh c sc (by simpa using he)
      simpa [he] using this

end Hive.Reactive
