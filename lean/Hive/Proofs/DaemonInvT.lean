import Hive.Proofs.DaemonInvB
/-! The relation between the ghost event trace (what an observer has seen) and the state of the daemon
model, and the five trace predicates as invariants. -/
namespace Hive.Daemon

structure InvT (s : St) : Prop where
  liveSound : ∀ w, w ∈ (obsOf s.tr).live →
      w.id < s.n ∧ (s.objs w.id).pc = .run ∧ (s.objs w.id).name = w.name ∧ (s.objs w.id).order = w.order
  liveComplete : ∀ i, i < s.n → (s.objs i).pc = .run →
      (⟨i, (s.objs i).name, (s.objs i).order⟩ : W) ∈ (obsOf s.tr).live
  sdRetDone : (obsOf s.tr).sdRet = true → s.sd = .done
  stopEvStopped : (obsOf s.tr).stopEv = true → s.stopped = true
  afterStopEv : (obsOf s.tr).afterStop ≠ [] → (obsOf s.tr).stopEv = true
  lastWaitLoop : ∀ p, (obsOf s.tr).lastWait = some p → ∀ prev todo, s.sd = .loop prev todo → prev < p
  lastWaitMid : ∀ prev todo, s.sd = .waitMid prev todo → (obsOf s.tr).lastWait = some prev
  quiet : (s.sd = .idle ∨ s.sd = .taken ∨ s.sd = .stoppedSet ∨ s.sd = .snap) →
      (obsOf s.tr).lastWait = none ∧ (obsOf s.tr).minCancel = none
  minCancelLoop : ∀ m, (obsOf s.tr).minCancel = some m →
      ∀ prev todo, (s.sd = .loop prev todo ∨ s.sd = .waitMid prev todo) → prev ≤ m
  okOrder : orderOk s.tr = true
  okTogether : togetherOk s.tr = true
  okWait : waitOk s.tr = true
  okNoAdd : noAddOk s.tr = true
  okRefused : refusedOk s.tr = true

theorem invT_init : InvT init := by
  constructor <;> simp [init, obsOf, Obs.init, orderOk, togetherOk, waitOk, noAddOk, refusedOk, holds, scan]

/-- `InvT` only reads `n`, `objs`, `sd`, `stopped` and the trace. -/
theorem invT_congr {s s' : St} (h : InvT s) (hn : s'.n = s.n) (ho : s'.objs = s.objs) (hsd : s'.sd = s.sd)
    (hst : s'.stopped = s.stopped) (htr : s'.tr = s.tr) : InvT s' := by
  constructor
  · rw [htr, hn, ho]; exact h.liveSound
  · rw [htr, hn, ho]; exact h.liveComplete
  · rw [htr, hsd]; exact h.sdRetDone
  · rw [htr, hst]; exact h.stopEvStopped
  · rw [htr]; exact h.afterStopEv
  · rw [htr, hsd]; exact h.lastWaitLoop
  · rw [htr, hsd]; exact h.lastWaitMid
  · rw [htr, hsd]; exact h.quiet
  · rw [htr, hsd]; exact h.minCancelLoop
  · rw [htr]; exact h.okOrder
  · rw [htr]; exact h.okTogether
  · rw [htr]; exact h.okWait
  · rw [htr]; exact h.okNoAdd
  · rw [htr]; exact h.okRefused

/-- The constructor for a step that appends one event. -/
theorem invT_ev {s s' : St} (h : InvT s) (e : Ev) (htr : s'.tr = s.tr ++ [e])
    (c1 : ∀ w, w ∈ (upd (obsOf s.tr) e).live →
      w.id < s'.n ∧ (s'.objs w.id).pc = .run ∧ (s'.objs w.id).name = w.name ∧ (s'.objs w.id).order = w.order)
    (c2 : ∀ i, i < s'.n → (s'.objs i).pc = .run →
      (⟨i, (s'.objs i).name, (s'.objs i).order⟩ : W) ∈ (upd (obsOf s.tr) e).live)
    (c3 : (upd (obsOf s.tr) e).sdRet = true → s'.sd = .done)
    (c4 : (upd (obsOf s.tr) e).stopEv = true → s'.stopped = true)
    (c5 : (upd (obsOf s.tr) e).afterStop ≠ [] → (upd (obsOf s.tr) e).stopEv = true)
    (c6 : ∀ p, (upd (obsOf s.tr) e).lastWait = some p → ∀ prev todo, s'.sd = .loop prev todo → prev < p)
    (c7 : ∀ prev todo, s'.sd = .waitMid prev todo → (upd (obsOf s.tr) e).lastWait = some prev)
    (c8 : (s'.sd = .idle ∨ s'.sd = .taken ∨ s'.sd = .stoppedSet ∨ s'.sd = .snap) →
      (upd (obsOf s.tr) e).lastWait = none ∧ (upd (obsOf s.tr) e).minCancel = none)
    (c9 : ∀ m, (upd (obsOf s.tr) e).minCancel = some m →
      ∀ prev todo, (s'.sd = .loop prev todo ∨ s'.sd = .waitMid prev todo) → prev ≤ m)
    (k1 : chkOrder (obsOf s.tr) e = true) (k2 : chkTogether (obsOf s.tr) e = true)
    (k3 : chkWait (obsOf s.tr) e = true) (k4 : chkNoAdd (obsOf s.tr) e = true)
    (k5 : chkRefused (obsOf s.tr) e = true) : InvT s' := by
  have ho : obsOf s'.tr = upd (obsOf s.tr) e := by rw [htr]; simp [obsOf, List.foldl_append]
  have hk : ∀ chk, holds chk s'.tr = (holds chk s.tr && chk (obsOf s.tr) e) := by
    intro chk; rw [htr]; simp [holds, obsOf, scan_append]
  constructor
  · rw [ho]; exact c1
  · rw [ho]; exact c2
  · rw [ho]; exact c3
  · rw [ho]; exact c4
  · rw [ho]; exact c5
  · rw [ho]; exact c6
  · rw [ho]; exact c7
  · rw [ho]; exact c8
  · rw [ho]; exact c9
  · show holds chkOrder s'.tr = true
    rw [hk, k1, Bool.and_true]; exact h.okOrder
  · show holds chkTogether s'.tr = true
    rw [hk, k2, Bool.and_true]; exact h.okTogether
  · show holds chkWait s'.tr = true
    rw [hk, k3, Bool.and_true]; exact h.okWait
  · show holds chkNoAdd s'.tr = true
    rw [hk, k4, Bool.and_true]; exact h.okNoAdd
  · show holds chkRefused s'.tr = true
    rw [hk, k5, Bool.and_true]; exact h.okRefused

/-- An event that neither the observer's live set nor the wait bookkeeping reacts to, on an unchanged state. -/
theorem invT_ev_neutral {s : St} (h : InvT s) (e : Ev)
    (hl : (upd (obsOf s.tr) e).live = (obsOf s.tr).live)
    (h3 : (upd (obsOf s.tr) e).sdRet = true → s.sd = .done)
    (h4 : (upd (obsOf s.tr) e).stopEv = true → s.stopped = true)
    (h5 : (upd (obsOf s.tr) e).afterStop ≠ [] → (upd (obsOf s.tr) e).stopEv = true)
    (hw : (upd (obsOf s.tr) e).lastWait = (obsOf s.tr).lastWait)
    (hm : (upd (obsOf s.tr) e).minCancel = (obsOf s.tr).minCancel)
    (k1 : chkOrder (obsOf s.tr) e = true) (k2 : chkTogether (obsOf s.tr) e = true)
    (k3 : chkWait (obsOf s.tr) e = true) (k4 : chkNoAdd (obsOf s.tr) e = true)
    (k5 : chkRefused (obsOf s.tr) e = true) : InvT (emit e s) := by
  refine invT_ev h e rfl ?_ ?_ h3 h4 h5 ?_ ?_ ?_ ?_ k1 k2 k3 k4 k5
  · rw [hl]; exact h.liveSound
  · rw [hl]; exact h.liveComplete
  · rw [hw]; exact h.lastWaitLoop
  · rw [hw]; exact h.lastWaitMid
  · rw [hw, hm]; exact h.quiet
  · rw [hm]; exact h.minCancelLoop

theorem invT_bwcall {s : St} (h : InvT s) (c name : Nat) (order : Int) : InvT (emit (.bwcall c name order) s) := by
  apply invT_ev_neutral h
  · simp only [upd]; split <;> rfl
  · simp only [upd]; split <;> exact h.sdRetDone
  · simp only [upd]; split <;> exact h.stopEvStopped
  · simp only [upd]
    split
    · rename_i hs; intro _; exact hs
    · exact h.afterStopEv
  · simp only [upd]; split <;> rfl
  · simp only [upd]; split <;> rfl
  all_goals rfl

theorem invT_refuse {s : St} (h : InvT s) (c name : Nat) (why : Why) : InvT (emit (.refuse c name why) s) := by
  apply invT_ev_neutral h <;> first | rfl | exact h.sdRetDone | exact h.stopEvStopped | exact h.afterStopEv

theorem invT_sdcall {s : St} (h : InvT s) (c : Nat) : InvT (emit (.sdcall c) s) := by
  apply invT_ev_neutral h <;> first | rfl | exact h.sdRetDone | exact h.stopEvStopped | exact h.afterStopEv

theorem invT_runcall {s : St} (h : InvT s) (c : Nat) : InvT (emit (.runcall c) s) := by
  apply invT_ev_neutral h <;> first | rfl | exact h.sdRetDone | exact h.stopEvStopped | exact h.afterStopEv

theorem invT_runsnap {s : St} (h : InvT s) (c : Nat) : InvT (emit (.runsnap c) s) := by
  apply invT_ev_neutral h <;> first | rfl | exact h.sdRetDone | exact h.stopEvStopped | exact h.afterStopEv

theorem invT_runret {s : St} (h : InvT s) (c : Nat) : InvT (emit (.runret c) s) := by
  apply invT_ev_neutral h <;> first | rfl | exact h.sdRetDone | exact h.stopEvStopped | exact h.afterStopEv

theorem invT_stopseen {s : St} (h : InvT s) (hst : s.stopped = true) : InvT (emit .stopseen s) := by
  apply invT_ev_neutral h
  · rfl
  · exact h.sdRetDone
  · intro _; exact hst
  · intro _; rfl
  all_goals rfl

theorem live_nil_of_done {s : St} (hB : InvB s) (h : InvT s) (hsd : s.sd = .done) : (obsOf s.tr).live = [] := by
  apply List.eq_nil_iff_forall_not_mem.mpr
  intro w hw
  obtain ⟨h1, h2, _, _⟩ := h.liveSound w hw
  have := hB.doneInv (Or.inr (Or.inr hsd)) w.id h1
  simp [Wk.counted, h2] at this

theorem invT_sdret {s : St} (hA : InvA s) (hB : InvB s) (h : InvT s) (c : Nat) (hsd : s.sd = .done) :
    InvT (emit (.sdret c) s) := by
  have hst : s.stopped = true := hA.stopped_iff.mpr (by simp [hsd])
  apply invT_ev_neutral h
  · rfl
  · intro _; exact hsd
  · intro _; exact hst
  · intro _; rfl
  · rfl
  · rfl
  · rfl
  · rfl
  · show (obsOf s.tr).live.isEmpty = true
    rw [live_nil_of_done hB h hsd]; rfl
  · rfl
  · rfl

/-! ## steps without an event -/

/-- An object that is not running its handler moves on (Done, clean-up, flag cleared). -/
theorem invT_setObj_norun {s : St} {i : Nat} {w' : Wk} (h : InvT s)
    (hold : (s.objs i).pc ≠ .run) (hnew : w'.pc ≠ .run) : InvT (setObj s i w') := by
  have hne : ∀ w, w ∈ (obsOf s.tr).live → w.id ≠ i := by
    intro w hw hwi
    have := (h.liveSound w hw).2.1
    rw [hwi] at this; exact hold this
  constructor
  · intro w hw
    have hw' : w ∈ (obsOf s.tr).live := hw
    have := h.liveSound w hw'
    rw [setObj_objs_ne _ _ _ _ (hne w hw')]
    exact this
  · intro j hj hr
    by_cases hji : j = i
    · subst hji; rw [setObj_objs_same] at hr; exact absurd hr hnew
    · rw [setObj_objs_ne _ _ _ _ hji] at hr ⊢
      exact h.liveComplete j hj hr
  · exact h.sdRetDone
  · exact h.stopEvStopped
  · exact h.afterStopEv
  · exact h.lastWaitLoop
  · exact h.lastWaitMid
  · exact h.quiet
  · exact h.minCancelLoop
  · exact h.okOrder
  · exact h.okTogether
  · exact h.okWait
  · exact h.okNoAdd
  · exact h.okRefused

/-- A step of the shutdown body that changes only `stopped`, `running` and its program point. -/
theorem invT_sd_only {s : St} (h : InvT s) (st' r' : Bool) (sd' : SdPc)
    (h3 : (obsOf s.tr).sdRet = true → sd' = .done)
    (h4 : s.stopped = true → st' = true)
    (h6 : ∀ p, (obsOf s.tr).lastWait = some p → ∀ prev todo, sd' = .loop prev todo → prev < p)
    (h7 : ∀ prev todo, sd' = .waitMid prev todo → (obsOf s.tr).lastWait = some prev)
    (h8 : (sd' = .idle ∨ sd' = .taken ∨ sd' = .stoppedSet ∨ sd' = .snap) →
      (obsOf s.tr).lastWait = none ∧ (obsOf s.tr).minCancel = none)
    (h9 : ∀ m, (obsOf s.tr).minCancel = some m →
      ∀ prev todo, (sd' = .loop prev todo ∨ sd' = .waitMid prev todo) → prev ≤ m) :
    InvT { s with stopped := st', running := r', sd := sd' } :=
  ⟨h.liveSound, h.liveComplete, h3, fun hs => h4 (h.stopEvStopped hs), h.afterStopEv, h6, h7, h8, h9,
    h.okOrder, h.okTogether, h.okWait, h.okNoAdd, h.okRefused⟩

theorem sdRet_false_of_ne_done {s : St} (h : InvT s) (hne : s.sd ≠ .done) : (obsOf s.tr).sdRet = false := by
  cases hc : (obsOf s.tr).sdRet with
  | false => rfl
  | true => exact absurd (h.sdRetDone hc) hne

/-! ## the worker goroutine -/

theorem findLive_some {l : List W} {i : Nat} {w : W} (h : findLive l i = some w) : w ∈ l ∧ w.id = i := by
  unfold findLive at h
  exact ⟨List.mem_of_find?_eq_some h, by simpa using List.find?_some h⟩

theorem invT_wkStep {s s' : St} {i : Nat} (hB : InvB s) (h : InvT s) (hs : s' ∈ wkStep s i) : InvT s' := by
  unfold wkStep at hs
  by_cases hi : i < s.n
  · simp only [hi, if_true] at hs
    cases hpc : (s.objs i).pc with
    | reg => simp [hpc] at hs
    | fin => simp [hpc] at hs
    | run =>
      simp only [hpc, List.mem_append, List.mem_singleton] at hs
      rcases hs with hs | hs
      · -- the handler returns
        subst hs
        refine invT_ev h (.ret i) rfl ?_ ?_ h.sdRetDone h.stopEvStopped h.afterStopEv
          h.lastWaitLoop h.lastWaitMid h.quiet h.minCancelLoop rfl rfl rfl rfl rfl
        · intro w hw
          have hw' : w ∈ (obsOf s.tr).live ∧ w.id ≠ i := by
            simpa [upd, List.mem_filter] using hw
          have := h.liveSound w hw'.1
          show w.id < s.n ∧ _
          rw [emit_objs, setObj_objs_ne _ _ _ _ hw'.2]
          exact this
        · intro j hj hr
          have hj' : j < s.n := hj
          by_cases hji : j = i
          · subst hji
            rw [emit_objs, setObj_objs_same] at hr
            simp at hr
          · rw [emit_objs, setObj_objs_ne _ _ _ _ hji] at hr ⊢
            have := h.liveComplete j hj' hr
            simp only [upd, List.mem_filter, bne_iff_ne, ne_eq]
            exact ⟨this, hji⟩
      · split at hs
        · -- the handler observes its cancellation
          rename_i hcs
          simp only [List.mem_singleton] at hs
          subst hs
          have hcanc : (s.objs i).cancelled = true := by
            simp only [Bool.and_eq_true] at hcs; exact hcs.1
          refine invT_ev h (.seen i) rfl ?_ ?_ h.sdRetDone h.stopEvStopped h.afterStopEv
            h.lastWaitLoop h.lastWaitMid h.quiet h.minCancelLoop ?_ rfl rfl rfl rfl
          · intro w hw
            have hw' : w ∈ (obsOf s.tr).live := hw
            have := h.liveSound w hw'
            show w.id < s.n ∧ _
            rw [emit_objs]
            by_cases hwi : w.id = i
            · rw [hwi, setObj_objs_same]; rw [hwi] at this
              exact ⟨this.1, rfl, this.2.2.1, this.2.2.2⟩
            · rw [setObj_objs_ne _ _ _ _ hwi]; exact this
          · intro j hj hr
            have hj' : j < s.n := hj
            show _ ∈ (obsOf s.tr).live
            rw [emit_objs] at hr ⊢
            by_cases hji : j = i
            · subst hji
              rw [setObj_objs_same]
              exact h.liveComplete j hj' hpc
            · rw [setObj_objs_ne _ _ _ _ hji] at hr ⊢
              exact h.liveComplete j hj' hr
          · show chkOrder (obsOf s.tr) (.seen i) = true
            simp only [chkOrder]
            cases hf : findLive (obsOf s.tr).live i with
            | none => rfl
            | some w =>
              obtain ⟨hw, hwi⟩ := findLive_some hf
              have hws := h.liveSound w hw
              simp only [List.all_eq_true, decide_eq_true_eq]
              intro v hv
              have hvs := h.liveSound v hv
              have := hB.canc i hi hpc hcanc v.id hvs.1 hvs.2.1
              unfold ordOf at this
              rw [hvs.2.2.2] at this
              rw [← hws.2.2.2, hwi]
              exact this
        · simp at hs
    | ret =>
      simp only [hpc, List.mem_singleton] at hs
      subst hs
      have := invT_setObj_norun (i := i) (w' := { s.objs i with pc := .dn }) h (by simp [hpc]) (by simp)
      exact invT_congr this rfl rfl rfl rfl rfl
    | dn =>
      simp only [hpc] at hs
      have hb := invT_setObj_norun (i := i) (w' := { s.objs i with pc := .cl }) h (by simp [hpc]) (by simp)
      split at hs
      · simp only [List.mem_singleton] at hs; subst hs; exact invT_congr hb rfl rfl rfl rfl rfl
      · simp only [List.mem_singleton] at hs; subst hs; exact invT_congr hb rfl rfl rfl rfl rfl
    | cl =>
      simp only [hpc, List.mem_singleton] at hs
      subst hs
      exact invT_setObj_norun (i := i) (w' := { s.objs i with pc := .fin }) h (by simp [hpc]) (by simp)
  · simp [hi] at hs

/-! ## starting a worker -/

def spawnSt (s : St) (i : Nat) : St :=
  { setObj s i { s.objs i with pc := .run } with
    wgc := fun o => if o = (s.objs i).order then s.wgc o + 1 else s.wgc o, rw := s.rw + 1 }

theorem spawn1_reg {s : St} {i : Nat} (h : (s.objs i).pc = .reg) :
    spawn1 s i = emit (.start i (s.objs i).name (s.objs i).order) (spawnSt s i) := by
  unfold spawn1 spawnSt; simp [h]

theorem spawn1_not_reg {s : St} {i : Nat} (h : (s.objs i).pc ≠ .reg) : spawn1 s i = s := by
  unfold spawn1; simp [h]

theorem spawnSt_objs_same (s : St) (i : Nat) : (spawnSt s i).objs i = { s.objs i with pc := .run } :=
  setObj_objs_same _ _ _

theorem spawnSt_objs_ne (s : St) (i j : Nat) (h : j ≠ i) : (spawnSt s i).objs j = s.objs j :=
  setObj_objs_ne _ _ _ _ h

theorem invT_spawn1 {s : St} {i : Nat} (hA : InvA s) (h : InvT s) (hi : i < s.n) (hst : s.stopped = false) :
    InvT (spawn1 s i) := by
  by_cases hpc : (s.objs i).pc = .reg
  · rw [spawn1_reg hpc]
    have hnd : s.sd ≠ .done := by
      intro hd
      have := hA.stopped_iff.mpr (by simp [hd]); simp [hst] at this
    refine invT_ev h (.start i (s.objs i).name (s.objs i).order) rfl ?_ ?_ h.sdRetDone h.stopEvStopped
      h.afterStopEv h.lastWaitLoop h.lastWaitMid h.quiet h.minCancelLoop rfl rfl rfl ?_ rfl
    · intro w hw
      have hw' : w = ⟨i, (s.objs i).name, (s.objs i).order⟩ ∨ w ∈ (obsOf s.tr).live := by
        simpa [upd] using hw
      show w.id < s.n ∧ ((spawnSt s i).objs w.id).pc = .run ∧ ((spawnSt s i).objs w.id).name = w.name ∧
        ((spawnSt s i).objs w.id).order = w.order
      rcases hw' with rfl | hw'
      · rw [spawnSt_objs_same]; exact ⟨hi, rfl, rfl, rfl⟩
      · have := h.liveSound w hw'
        have hne : w.id ≠ i := by
          intro hwi; rw [hwi, hpc] at this; simp at this
        rw [spawnSt_objs_ne _ _ _ hne]; exact this
    · intro j hj hr
      have hj' : j < s.n := hj
      have hr' : ((spawnSt s i).objs j).pc = .run := hr
      show (⟨j, ((spawnSt s i).objs j).name, ((spawnSt s i).objs j).order⟩ : W) ∈ (upd (obsOf s.tr) _).live
      simp only [upd, List.mem_cons]
      by_cases hji : j = i
      · subst hji; left; rw [spawnSt_objs_same]
      · right
        rw [spawnSt_objs_ne _ _ _ hji] at hr' ⊢
        exact h.liveComplete j hj' hr'
    · show (!(obsOf s.tr).sdRet) = true
      rw [sdRet_false_of_ne_done h hnd]; rfl
  · rw [spawn1_not_reg hpc]; exact h

end Hive.Daemon
