import Hive.Proofs.GoInt
import Hive.Gen.C19_SafeMath
/-! Proofs about the definitions generated from core/safemath/safe_math.go. -/
namespace Hive.GoInt
open Hive.Gen.SafeMath IntTy

/-- The exact answer the property demands. -/
def exact (T : IntTy) (z : Int) : Res Int := if T.InRange z then .ok z else .overflow

theorem bounds (T : IntTy) (hb : 0 < T.bits) :
    T.minVal ≤ 0 ∧ 0 ≤ T.maxVal ∧ T.maxVal - T.minVal + 1 = T.modulus ∧ 0 < T.half ∧
      (T.signed = true → T.minVal = -T.half ∧ T.maxVal = T.half - 1) ∧
      (T.signed = false → T.minVal = 0) := by
  have hM := T.modulus_pos
  have hH := T.half_pos
  have hMH := T.modulus_eq_two_half hb
  cases hs : T.signed with
  | false => rw [T.minVal_unsigned hs, T.maxVal_unsigned hs]; simp; omega
  | true => rw [T.minVal_signed hs, T.maxVal_signed hs]; simp; omega

theorem wrap_hi (T : IntTy) (hb : 0 < T.bits) (z : Int) (h1 : z > T.maxVal) (h2 : z ≤ T.maxVal + T.modulus) :
    T.wrap z = z - T.modulus := by
  obtain ⟨b1, b2, b3, _⟩ := bounds T hb
  have := T.wrap_shift hb z 1 (by unfold InRange; omega)
  simpa using this

theorem wrap_lo (T : IntTy) (hb : 0 < T.bits) (z : Int) (h1 : z < T.minVal) (h2 : T.minVal - T.modulus ≤ z) :
    T.wrap z = z + T.modulus := by
  obtain ⟨b1, b2, b3, _⟩ := bounds T hb
  have := T.wrap_shift hb z (-1) (by unfold InRange; omega)
  rw [this]; omega

theorem safeAdd_exact (T : IntTy) (hb : 0 < T.bits) (x y : Int) (hx : T.InRange x) (hy : T.InRange y) :
    SafeAdd T x y = exact T (x + y) := by
  obtain ⟨b1, b2, b3, _⟩ := bounds T hb
  unfold InRange at hx hy
  unfold SafeAdd exact IntTy.add InRange
  by_cases h1 : x + y > T.maxVal
  · rw [wrap_hi T hb _ h1 (by omega)]
    have hy0 : y > 0 := by omega
    have : x + y - T.modulus < x := by omega
    have hr : ¬ (T.minVal ≤ x + y ∧ x + y ≤ T.maxVal) := by omega
    simp [hy0, this, hr]
  · by_cases h2 : x + y < T.minVal
    · rw [wrap_lo T hb _ h2 (by omega)]
      have hy0 : ¬ y > 0 := by omega
      have : x + y + T.modulus > x := by omega
      have hr : ¬ (T.minVal ≤ x + y ∧ x + y ≤ T.maxVal) := by omega
      simp [hy0, this, hr]
    · rw [T.wrap_eq_self hb _ (by unfold InRange; omega)]
      have hr : (T.minVal ≤ x + y ∧ x + y ≤ T.maxVal) := by omega
      by_cases hy0 : y > 0
      · have : ¬ x + y < x := by omega
        simp [hy0, this, hr]
      · have : ¬ x + y > x := by omega
        simp [hy0, this, hr]

theorem safeSub_exact (T : IntTy) (hb : 0 < T.bits) (x y : Int) (hx : T.InRange x) (hy : T.InRange y) :
    SafeSub T x y = exact T (x - y) := by
  obtain ⟨b1, b2, b3, _⟩ := bounds T hb
  unfold InRange at hx hy
  unfold SafeSub exact IntTy.sub InRange
  by_cases h1 : x - y > T.maxVal
  · rw [wrap_hi T hb _ h1 (by omega)]
    have hy0 : ¬ y > 0 := by omega
    have : x - y - T.modulus < x := by omega
    have hr : ¬ (T.minVal ≤ x - y ∧ x - y ≤ T.maxVal) := by omega
    simp [hy0, this, hr]
  · by_cases h2 : x - y < T.minVal
    · rw [wrap_lo T hb _ h2 (by omega)]
      have hy0 : y > 0 := by omega
      have : x - y + T.modulus > x := by omega
      have hr : ¬ (T.minVal ≤ x - y ∧ x - y ≤ T.maxVal) := by omega
      simp [hy0, this, hr]
    · rw [T.wrap_eq_self hb _ (by unfold InRange; omega)]
      have hr : (T.minVal ≤ x - y ∧ x - y ≤ T.maxVal) := by omega
      by_cases hy0 : y > 0
      · have : ¬ x - y > x := by omega
        simp [hy0, this, hr]
      · have : ¬ x - y < x := by omega
        simp [hy0, this, hr]

end Hive.GoInt
