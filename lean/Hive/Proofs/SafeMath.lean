import Hive.Proofs.GoInt
import Hive.Gen.C19_SafeMath
/-! Proofs about the definitions generated from core/safemath/safe_math.go. -/
namespace Hive.GoInt
open Hive.Gen.SafeMath IntTy

/-- The exact answer the property demands. -/
def exact (T : IntTy) (z : Int) : Res Int := if T.InRange z then .ok z else .overflow

theorem bounds (T : IntTy) (hb : 0 < T.bits) :
    T.minVal ≤ 0 ∧ 0 ≤ T.maxVal ∧ T.maxVal - T.minVal + 1 = T.modulus ∧ 0 < T.half ∧
      (T.signed = true → T.minVal = -T.half ∧ T.maxVal = T.half - 1) ∧
      (T.signed = false → T.minVal = 0) := by
  have hM := T.modulus_pos
  have hH := T.half_pos
  have hMH := T.modulus_eq_two_half hb
  cases hs : T.signed with
  | false => rw [T.minVal_unsigned hs, T.maxVal_unsigned hs]; simp; omega
  | true => rw [T.minVal_signed hs, T.maxVal_signed hs]; simp; omega

theorem wrap_hi (T : IntTy) (hb : 0 < T.bits) (z : Int) (h1 : z > T.maxVal) (h2 : z ≤ T.maxVal + T.modulus) :
    T.wrap z = z - T.modulus := by
  obtain ⟨b1, b2, b3, _⟩ := bounds T hb
  have := T.wrap_shift hb z 1 (by unfold InRange; omega)
  simpa using this

theorem wrap_lo (T : IntTy) (hb : 0 < T.bits) (z : Int) (h1 : z < T.minVal) (h2 : T.minVal - T.modulus ≤ z) :
    T.wrap z = z + T.modulus := by
  obtain ⟨b1, b2, b3, _⟩ := bounds T hb
  have := T.wrap_shift hb z (-1) (by unfold InRange; omega)
  rw [this]; omega

theorem exact_in (T : IntTy) (z : Int) (h : T.minVal ≤ z ∧ z ≤ T.maxVal) : exact T z = .ok z := by
  unfold exact; exact if_pos h

theorem exact_out (T : IntTy) (z : Int) (h : ¬ (T.minVal ≤ z ∧ z ≤ T.maxVal)) : exact T z = .overflow := by
  unfold exact; exact if_neg h

/-- The three ways a sum / difference of two in-range numbers wraps. -/
theorem wrap_cases (T : IntTy) (hb : 0 < T.bits) (z : Int) (h1 : T.minVal - T.modulus ≤ z) (h2 : z ≤ T.maxVal + T.modulus) :
    (z > T.maxVal ∧ T.wrap z = z - T.modulus) ∨ (z < T.minVal ∧ T.wrap z = z + T.modulus) ∨
      ((T.minVal ≤ z ∧ z ≤ T.maxVal) ∧ T.wrap z = z) := by
  by_cases a : z > T.maxVal
  · exact Or.inl ⟨a, wrap_hi T hb z a h2⟩
  · by_cases b : z < T.minVal
    · exact Or.inr (Or.inl ⟨b, wrap_lo T hb z b h1⟩)
    · exact Or.inr (Or.inr ⟨by omega, T.wrap_eq_self hb z (by unfold InRange; omega)⟩)

/-- Closes `(if … then … else …) = .ok z | .overflow` when all conditions are linear facts about the operands: every
path of the (regenerated) code is followed and decided by `omega`.  Written against the *shape* of the code, not its
exact comparisons, so that an equivalent rewrite of the source (`y >= 0` for `y > 0`, swapped branches, …) still
proves, while a non-equivalent one leaves an unprovable path. -/
macro "close_ite" : tactic => `(tactic|
  (simp only [decide_eq_true_eq, Bool.or_eq_true, Bool.and_eq_true, Bool.not_eq_true', decide_eq_false_iff_not, ge_iff_le, gt_iff_lt]
   repeat' split
   all_goals first | rfl | omega | (exfalso; omega) | (simp only [Res.ok.injEq]; omega)))

theorem safeAdd_exact (T : IntTy) (hb : 0 < T.bits) (x y : Int) (hx : T.InRange x) (hy : T.InRange y) :
    SafeAdd T x y = exact T (x + y) := by
  obtain ⟨b1, b2, b3, _⟩ := bounds T hb
  unfold InRange at hx hy
  unfold SafeAdd IntTy.add
  rcases wrap_cases T hb (x + y) (by omega) (by omega) with ⟨h, e⟩ | ⟨h, e⟩ | ⟨h, e⟩
  · rw [e, exact_out T _ (by omega)]; close_ite
  · rw [e, exact_out T _ (by omega)]; close_ite
  · rw [e, exact_in T _ h]; close_ite

theorem safeSub_exact (T : IntTy) (hb : 0 < T.bits) (x y : Int) (hx : T.InRange x) (hy : T.InRange y) :
    SafeSub T x y = exact T (x - y) := by
  obtain ⟨b1, b2, b3, _⟩ := bounds T hb
  unfold InRange at hx hy
  unfold SafeSub IntTy.sub
  rcases wrap_cases T hb (x - y) (by omega) (by omega) with ⟨h, e⟩ | ⟨h, e⟩ | ⟨h, e⟩
  · rw [e, exact_out T _ (by omega)]; close_ite
  · rw [e, exact_out T _ (by omega)]; close_ite
  · rw [e, exact_in T _ h]; close_ite

theorem exact_ok_iff (T : IntTy) (z r : Int) : exact T z = .ok r ↔ (r = z ∧ T.InRange z) := by
  unfold exact
  by_cases h : T.InRange z
  · simp [h]; exact eq_comm
  · simp [h]

theorem exact_overflow_iff (T : IntTy) (z : Int) : exact T z = .overflow ↔ ¬ T.InRange z := by
  unfold exact
  by_cases h : T.InRange z <;> simp [h]

end Hive.GoInt
