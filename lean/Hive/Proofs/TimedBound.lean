import Hive.Proofs.TimedAll
/-!
# C18 — the size bound as an invariant, and what `Queue.Add` / a replacement may drop

`WithMaxSize(n)` / `WithMaxQueueSize(n)`, n > 0: the heap never holds more than `n` elements
(`bnd_reach`); `Add` drops an element exactly when the heap already holds `n` (`add_within`,
`add_full`); `TaskExecutor.ExecuteAt(id)` for an identifier whose task is still in the heap takes
that task out first, so it never drops anything (`replace_within_bound`).
-/
namespace Hive.Timed
open Hive.Conc

/-- The size bound. -/
def Bnd (s : Sh) : Prop := s.maxSize = 0 ∨ s.heap.length ≤ s.maxSize

theorem add_maxSize (s : Sh) (due : Nat) (id : Option Nat) (kind : Kind) (tag : Nat) :
    (add s due id kind tag).1.maxSize = s.maxSize := by
  rcases add_cases s due id kind tag with ⟨_, h1, _⟩ | ⟨_, _, h2, new, cl, h1, _⟩
  · rw [h1]
  · rw [h1]; simp

/-- `Add` on a queue that is not full (or has no bound): the element goes in, nothing is dropped. -/
theorem add_within (s : Sh) (due : Nat) (id : Option Nat) (kind : Kind) (tag : Nat)
    (hs : s.isShutdown = false) (hb : s.maxSize = 0 ∨ s.heap.length < s.maxSize) :
    (add s due id kind tag).1.closed = s.closed ∧
    (add s due id kind tag).1.heap.length = s.heap.length + 1 ∧
    (add s due id kind tag).1.heap.Perm (newElem s due id kind tag :: s.heap) ∧
    (add s due id kind tag).1.log = .sched s.next id due :: s.log := by
  unfold add
  simp only [hs, Bool.false_eq_true, if_false]
  have hl := Heap.length_push s.heap (newElem s due id kind tag)
  have hp := Heap.push_perm s.heap (newElem s due id kind tag)
  simp only [newElem] at hl hp
  have hn : ¬ (s.maxSize > 0 ∧ (Heap.push s.heap { serial := s.next, due := due, id := id, kind := kind, tag := tag }).length > s.maxSize) := by
    rw [hl]; omega
  simp only [hn, if_false]
  simp [hl, newElem, hp]

/-- `Add` on a full queue: one element is dropped (its channel closed), the size stays. -/
theorem add_full (s : Sh) (due : Nat) (id : Option Nat) (kind : Kind) (tag : Nat)
    (hs : s.isShutdown = false) (hb : 0 < s.maxSize ∧ s.maxSize ≤ s.heap.length) :
    ∃ d, (add s due id kind tag).1.closed = d.serial :: s.closed ∧
      (add s due id kind tag).1.heap.length = s.heap.length ∧
      (newElem s due id kind tag :: s.heap).Perm (d :: (add s due id kind tag).1.heap) := by
  unfold add
  simp only [hs, Bool.false_eq_true, if_false]
  have hl := Heap.length_push s.heap (newElem s due id kind tag)
  have hp := Heap.push_perm s.heap (newElem s due id kind tag)
  simp only [newElem] at hl hp
  have hy : (s.maxSize > 0 ∧ (Heap.push s.heap { serial := s.next, due := due, id := id, kind := kind, tag := tag }).length > s.maxSize) := by
    rw [hl]; omega
  simp only [hy, and_self, if_true]
  have hlt : (Heap.push s.heap { serial := s.next, due := due, id := id, kind := kind, tag := tag }).length - 1 <
      (Heap.push s.heap { serial := s.next, due := due, id := id, kind := kind, tag := tag }).length := by
    rw [hl]; omega
  have hsome := Heap.removeAt_isSome hlt
  cases hr : Heap.removeAt (Heap.push s.heap { serial := s.next, due := due, id := id, kind := kind, tag := tag })
      ((Heap.push s.heap { serial := s.next, due := due, id := id, kind := kind, tag := tag }).length - 1) with
  | none => simp [hr] at hsome
  | some r =>
    obtain ⟨d, h2⟩ := r
    obtain ⟨_, hperm⟩ := Heap.removeAt_perm hr
    refine ⟨d, by simp, ?_, ?_⟩
    · have := hperm.length_eq
      simp only [List.length_cons, hl] at this
      simp; omega
    · simpa [newElem] using hp.symm.trans hperm

theorem add_bnd (s : Sh) (due : Nat) (id : Option Nat) (kind : Kind) (tag : Nat) (h : Bnd s) :
    Bnd (add s due id kind tag).1 := by
  unfold Bnd
  rw [add_maxSize]
  cases hs : s.isShutdown with
  | true =>
    rcases add_cases s due id kind tag with ⟨_, h1, _⟩ | ⟨h1, _⟩
    · rw [h1]; exact h
    · rw [hs] at h1; cases h1
  | false =>
    rcases h with h0 | hle
    · exact Or.inl h0
    · by_cases hf : s.heap.length < s.maxSize
      · have := (add_within s due id kind tag hs (Or.inr hf)).2.1
        right; omega
      · by_cases h0 : s.maxSize = 0
        · exact Or.inl h0
        · obtain ⟨d, _, hl, _⟩ := add_full s due id kind tag hs ⟨by omega, by omega⟩
          right; omega

theorem cancelElem_len (s : Sh) (x : Nat) : (cancelElem s x).heap.length ≤ s.heap.length := by
  rcases cancelElem_heap s x with ⟨h, _⟩ | ⟨e, _, hp⟩
  · rw [h]; exact Nat.le_refl _
  · have := hp.length_eq; simp only [List.length_cons] at this; omega

/-- Cancelling an element that is in the heap takes exactly one element out. -/
theorem cancelElem_len_mem (s : Sh) (x : Nat) (hm : ∃ e ∈ s.heap, e.serial = x) :
    (cancelElem s x).heap.length + 1 = s.heap.length := by
  rcases cancelElem_heap s x with ⟨_, hn⟩ | ⟨e, _, hp⟩
  · obtain ⟨e, he, hx⟩ := hm; exact absurd hx (hn e he)
  · have := hp.length_eq; simp only [List.length_cons] at this; omega

theorem cancelElem_bnd (s : Sh) (x : Nat) (h : Bnd s) : Bnd (cancelElem s x) := by
  unfold Bnd at *
  have := cancelElem_len s x
  simp only [cancelElem_maxSize]
  omega

theorem exec1_bnd (s : Sh) (i : Nat) (h : Bnd s) : Bnd (exec1 s i) ∧ (exec1 s i).maxSize = s.maxSize := by
  unfold exec1
  split
  · exact ⟨cancelElem_bnd s _ h, rfl⟩
  · exact ⟨h, rfl⟩

theorem exec2_bnd (s : Sh) (i due : Nat) (kind : Kind) (tag : Nat) (h : Bnd s) :
    Bnd (exec2 s i due kind tag) ∧ (exec2 s i due kind tag).maxSize = s.maxSize := by
  have hb := add_bnd s due (some i) kind tag h
  have hm := add_maxSize s due (some i) kind tag
  unfold exec2
  cases ha : add s due (some i) kind tag with
  | mk s' r =>
    rw [ha] at hb hm
    cases r <;> exact ⟨hb, hm⟩

theorem cancelId_bnd (s : Sh) (i : Nat) (h : Bnd s) : Bnd (cancelId s i) ∧ (cancelId s i).maxSize = s.maxSize := by
  unfold cancelId
  split
  · exact ⟨h, rfl⟩
  · exact ⟨cancelElem_bnd s _ h, rfl⟩

theorem sd3_bnd (s : Sh) (h : Bnd s) : Bnd (sd3 s) ∧ (sd3 s).maxSize = s.maxSize := by
  unfold sd3 broadcast
  split
  · exact ⟨by unfold Bnd; simp, rfl⟩
  · exact ⟨h, rfl⟩

/-- Every transition keeps the bound (and the configured `maxSize`). -/
theorem bnd_tr {s s' : Sh} {t t' : Th} (h : Bnd s) (tr : Tr s t s' t') : Bnd s' ∧ s'.maxSize = s.maxSize := by
  cases tr with
  | idlePop hp =>
    have := (Heap.pop_perm hp).length_eq
    simp only [List.length_cons] at this
    refine ⟨?_, rfl⟩
    unfold Bnd at *
    simp only
    omega
  | cbExec1 _ _ _ => exact exec1_bnd _ _ h
  | cbExec2 _ _ => exact exec2_bnd _ _ _ _ _ h
  | cbCancel _ _ _ => exact cancelId_bnd _ _ h
  | ctlExec2 => exact exec2_bnd _ _ _ _ _ h
  | ctlSd3 =>
    have := sd3_bnd _ h
    exact ⟨this.1, this.2⟩
  | ctlAdd => exact ⟨add_bnd _ _ _ _ _ h, add_maxSize _ _ _ _ _⟩
  | ctlExec1 _ => exact exec1_bnd _ _ h
  | ctlCancelElem _ => exact ⟨cancelElem_bnd _ _ h, rfl⟩
  | ctlCancelId _ => exact cancelId_bnd _ _ h
  | ctlSd1 h1 =>
    obtain ⟨_, rfl⟩ := sd1_some h1
    exact ⟨h, rfl⟩
  | _ => exact ⟨h, rfl⟩

/-- The bound as a property of configurations, together with the configured size. -/
def BndCfg (m : Nat) (c : Cfg Sh Th) : Prop := Bnd c.1 ∧ c.1.maxSize = m

theorem bnd_reach {maxSize : Nat} {ts : List Th} {c : Cfg Sh Th} (hr : Reach sys (initCfg maxSize ts) c) :
    BndCfg maxSize c := by
  refine inv_induction (BndCfg maxSize) ⟨Or.inr (by simp [initCfg]), rfl⟩ ?_ hr
  intro a b ha st
  obtain ⟨s, l, t, r, s', t', rfl, rfl, tr⟩ := Step.tr st
  have := bnd_tr ha.1 tr
  exact ⟨this.1, this.2.trans ha.2⟩

/-! ## a replacement never drops -/

theorem exec1_some (s : Sh) (i x : Nat) (hg : regGet s.reg i = some x) :
    exec1 s i = { cancelElem s x with reg := regDel (cancelElem s x).reg i, regLocked := true,
                                      log := .replaced i x :: (cancelElem s x).log } := by
  unfold exec1; rw [hg]

/-- `exec2` on a queue that is not shut down and not full: the new element goes in, is registered,
and nothing is dropped. -/
theorem exec2_within (s : Sh) (i due : Nat) (kind : Kind) (tag : Nat) (hs : s.isShutdown = false)
    (hb : s.maxSize = 0 ∨ s.heap.length < s.maxSize) :
    (exec2 s i due kind tag).closed = s.closed ∧ (exec2 s i due kind tag).heap.length = s.heap.length + 1 ∧
    (exec2 s i due kind tag).heap.Perm (newElem s due (some i) kind tag :: s.heap) ∧
    regGet (exec2 s i due kind tag).reg i = some s.next ∧ (exec2 s i due kind tag).lastRes = .ok s.next := by
  obtain ⟨h1, h2, h3, _⟩ := add_within s due (some i) kind tag hs hb
  rcases add_cases s due (some i) kind tag with ⟨hsd, _, _⟩ | ⟨_, hok, _⟩
  · rw [hs] at hsd; cases hsd
  · unfold exec2
    cases hadd : add s due (some i) kind tag with
    | mk s1 r1 =>
      rw [hadd] at hok h1 h2 h3
      simp only at hok h1 h2 h3
      subst hok
      refine ⟨h1, h2, h3, ?_, rfl⟩
      simp [regSet, regGet]

/-- **A replacement never drops.**  `TaskExecutor.ExecuteAt(i, …)` (both halves) on a queue within its
bound that is not shut down, for an identifier whose registered task `x` is still in the heap: the
only channel that gets closed is `x`'s, the heap holds as many elements as before, `i` is registered
to the new element, and the new element is in the heap — whatever the size bound and however full
the queue is. -/
theorem replace_within_bound (s : Sh) (i x due : Nat) (kind : Kind) (tag : Nat) (hb : Bnd s)
    (hs : s.isShutdown = false) (hg : regGet s.reg i = some x) (hm : ∃ e ∈ s.heap, e.serial = x) :
    (∀ y, y ∈ (exec2 (exec1 s i) i due kind tag).closed ↔ y = x ∨ y ∈ s.closed) ∧
    (exec2 (exec1 s i) i due kind tag).heap.length = s.heap.length ∧
    regGet (exec2 (exec1 s i) i due kind tag).reg i = some s.next ∧
    (∃ e ∈ (exec2 (exec1 s i) i due kind tag).heap, e.serial = s.next) ∧
    (exec2 (exec1 s i) i due kind tag).lastRes = .ok s.next := by
  have hlen := cancelElem_len_mem s x hm
  have h1 : (exec1 s i).heap = (cancelElem s x).heap := by rw [exec1_some s i x hg]
  have h1c : (exec1 s i).closed = (cancelElem s x).closed := by rw [exec1_some s i x hg]
  have h1m : (exec1 s i).maxSize = s.maxSize := by rw [exec1_some s i x hg]; rfl
  have h1s : (exec1 s i).isShutdown = false := by rw [exec1_some s i x hg]; exact hs
  have h1n : (exec1 s i).next = s.next := by rw [exec1_some s i x hg]; rfl
  have hb1 : (exec1 s i).maxSize = 0 ∨ (exec1 s i).heap.length < (exec1 s i).maxSize := by
    rw [h1m, h1]
    rcases hb with h0 | hle
    · exact Or.inl h0
    · right; omega
  obtain ⟨hc, hl, hp, hr, hres⟩ := exec2_within (exec1 s i) i due kind tag h1s hb1
  refine ⟨?_, ?_, ?_, ?_, ?_⟩
  · intro y; rw [hc, h1c]; exact cancelElem_closed_mem s x y
  · rw [hl, h1]; omega
  · rw [hr, h1n]
  · refine ⟨newElem (exec1 s i) due (some i) kind tag, hp.symm.subset (by simp), ?_⟩
    simp [newElem, h1n]
  · rw [hres, h1n]

end Hive.Timed
