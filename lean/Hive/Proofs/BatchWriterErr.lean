import Hive.Model.BatchWriterErr
import Hive.Proofs.BatchWriterInv
/-!
# C08 proofs: the store-error path (`sysE`) is simulated by `sys`

Every step of `sysE` is a step of `sys` on the first component of the state, or the death of the process (which
changes nothing but the flag); so the first component of every reachable configuration of `sysE` is reachable in
`sys`, and every invariant of `sys` holds up to the crash.  After the crash nothing moves.
-/
namespace Hive.BatchWriter
open Hive.Conc Hive.Spec.BatchWriter

theorem mem_stepE {s : StE} {t : Thread} {s' : StE} {t' : Thread} (hm : (s', t') ∈ stepE s t) :
    s.2 = false ∧ (((s'.1, t') ∈ step s.1 t ∧ s'.2 = false) ∨
      (s' = (s.1, true) ∧ t = .writer ∧ t' = .writer ∧ (storeCall s.1).isSome = true)) := by
  unfold stepE at hm
  by_cases hd : s.2 = true
  · simp [hd] at hm
  · have hd' : s.2 = false := by simpa using hd
    refine ⟨hd', ?_⟩
    simp only [hd', Bool.false_eq_true, if_false, List.mem_append, List.mem_map] at hm
    rcases hm with ⟨x, hx, he⟩ | hm
    · left
      obtain ⟨a, b⟩ := x
      simp only [Prod.mk.injEq] at he
      obtain ⟨rfl, rfl⟩ := he
      exact ⟨hx, rfl⟩
    · right
      by_cases hc : t = .writer ∧ (storeCall s.1).isSome = true
      · simp only [hc, and_self, if_true, List.mem_singleton, Prod.mk.injEq] at hm
        exact ⟨hm.1, hc.1, hm.2, hc.2⟩
      · simp [hc] at hm

/-- **Simulation.**  What `sysE` reaches from a lifted initial configuration, `sys` reaches too (forgetting the flag). -/
theorem sysE_sim {c0 : Cfg St Thread} {c : Cfg StE Thread} (hr : Reach sysE (liftCfg c0) c) :
    Reach sys c0 (dropCfg c) := by
  induction hr with
  | refl => exact Reach.refl _
  | tail _ hs ih =>
    cases hs with
    | mk s pre t post s' t' hm =>
      obtain ⟨_, h | h⟩ := mem_stepE hm
      · exact Reach.tail ih (Step.mk s.1 pre t post s'.1 t' h.1)
      · obtain ⟨rfl, rfl, rfl, _⟩ := h
        exact ih

/-- the flag is only ever set by a failing store call of the writer goroutine -/
theorem stuck_of_dead {c : Cfg StE Thread} (hd : c.1.2 = true) : Stuck sysE c := by
  intro t _
  show stepE c.1 t = []
  simp [stepE, hd]

/-- after the crash nothing changes any more -/
theorem reach_of_dead {c c' : Cfg StE Thread} (hd : c.1.2 = true) (hr : Reach sysE c c') : c' = c := by
  induction hr with
  | refl => rfl
  | tail _ hs ih =>
    subst ih
    cases hs with
    | mk s pre t post s' t' hm =>
      have := (mem_stepE hm).1
      simp only at hd
      rw [hd] at this
      exact absurd this (by simp)

end Hive.BatchWriter
