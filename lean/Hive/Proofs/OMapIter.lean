import Hive.Proofs.OMapPtr
/-!
# Weak iteration (C11): a `ForEach` that releases the lock between steps

The iterator follows the `next` pointer of its current element, which may meanwhile have been
unlinked (its own pointers stay as they were).  Relative to the map `p0` at the start of the
iteration an element is *active* if it was live at the start or was allocated later; `T` marks the
keys that stay live throughout.  `WInv` collects what stays true of the heap while writers that do
not delete `T`-keys run; the cursor only ever sits on active elements.
-/
namespace Hive.OMap
namespace PMap

/-- live at the start of the iteration, or allocated after it -/
def Active0 (p0 : PMap) (n : Nat) : Prop := n ∈ ids p0 ∨ p0.heap.length ≤ n

/-! ## facts about a sorted doubly linked chain -/

theorem seg_next_mem {h : List Node} {l : List Nat} {pv : Option Nat} (hs : Seg h pv l none)
    {n : Nat} {nd : Node} (hn : n ∈ l) (hnd : h[n]? = some nd) {m : Nat} (hm : nd.next = some m)
    (hsort : l.Pairwise (· < ·)) : n < m ∧ m ∈ l := by
  induction l generalizing pv with
  | nil => cases hn
  | cons a r ih =>
    obtain ⟨⟨na, hna, _, hnx⟩, hr⟩ := hs
    rw [List.pairwise_cons] at hsort
    rcases List.mem_cons.1 hn with e | e
    · subst e
      rw [hna] at hnd; cases hnd
      rw [Option.or_none] at hnx
      rw [hnx] at hm
      have hmem : m ∈ r := List.mem_of_head? hm
      exact ⟨hsort.1 m hmem, List.mem_cons_of_mem _ hmem⟩
    · obtain ⟨h1, h2⟩ := ih hr e hsort.2
      exact ⟨h1, List.mem_cons_of_mem _ h2⟩

theorem seg_next_le {h : List Node} {l : List Nat} {pv : Option Nat} (hs : Seg h pv l none)
    (hsort : l.Pairwise (· < ·)) {n t : Nat} (hn : n ∈ l) (ht : t ∈ l) (hlt : n < t) :
    ∃ nd m, h[n]? = some nd ∧ nd.next = some m ∧ m ≤ t := by
  induction l generalizing pv with
  | nil => cases hn
  | cons a r ih =>
    obtain ⟨⟨na, hna, _, hnx⟩, hr⟩ := hs
    rw [List.pairwise_cons] at hsort
    rcases List.mem_cons.1 hn with e | e
    · subst e
      have htr : t ∈ r := by
        rcases List.mem_cons.1 ht with e' | e'
        · omega
        · exact e'
      cases r with
      | nil => cases htr
      | cons b r' =>
        refine ⟨na, b, hna, by simpa using hnx, ?_⟩
        rcases List.mem_cons.1 htr with e' | e'
        · omega
        · have := (List.pairwise_cons.1 hsort.2).1 t e'; omega
    · have htr : t ∈ r := by
        rcases List.mem_cons.1 ht with e' | e'
        · have := hsort.1 n e; omega
        · exact e'
      exact ih hr hsort.2 e htr

theorem le_getLast_of_sorted {l : List Nat} (hsort : l.Pairwise (· < ·)) {t x : Nat} (hl : l.getLast? = some t)
    (hx : x ∈ l) : x ≤ t := by
  obtain ⟨init, rfl⟩ := List.getLast?_eq_some_iff.1 hl
  rw [List.pairwise_append] at hsort
  rcases List.mem_append.1 hx with h | h
  · have := hsort.2.2 x h t (by simp); omega
  · simp at h; omega

/-! ## `next` pointers under heap updates -/

/-- `some (some m)`: element `n` exists and its `next` is `m`; `some none`: exists, `next = nil`; `none`: no such element -/
def nextAt (h : List Node) (n : Nat) : Option (Option Nat) := (h[n]?).map (·.next)

theorem nextAt_setNext (h : List Node) (a n : Nat) (nx : Option Nat) :
    nextAt (setNext h a nx) n = if a = n then (h[n]?).map (fun _ => nx) else nextAt h n := by
  unfold nextAt; rw [get_setNext]; by_cases e : a = n <;> cases h[n]? <;> simp [e]

theorem nextAt_setPrev (h : List Node) (b n : Nat) (pv : Option Nat) : nextAt (setPrev h b pv) n = nextAt h n := by
  unfold nextAt; rw [get_setPrev]; by_cases e : b = n <;> cases h[n]? <;> simp [e]

theorem nextAt_setVal (h : List Node) (i n v : Nat) : nextAt (setVal h i v) n = nextAt h n := by
  unfold nextAt; rw [get_setVal]; by_cases e : i = n <;> cases h[n]? <;> simp [e]

theorem nextAt_unlink (h : List Node) (pv nx : Option Nat) (n : Nat) :
    nextAt (unlink h pv nx) n = if pv = some n then (h[n]?).map (fun _ => nx) else nextAt h n := by
  unfold unlink
  cases pv with
  | none => cases nx <;> simp [nextAt_setPrev]
  | some a =>
    cases nx with
    | none => simp [nextAt_setNext]
    | some b => simp [nextAt_setPrev, nextAt_setNext]

theorem length_unlink (h : List Node) (pv nx : Option Nat) : (unlink h pv nx).length = h.length := by
  unfold unlink; cases pv <;> cases nx <;> simp [length_setNext, length_setPrev]

theorem nextAt_append (h : List Node) (x : Node) (n : Nat) :
    nextAt (h ++ [x]) n = if n < h.length then nextAt h n else if n = h.length then some x.next else none := by
  unfold nextAt
  by_cases h1 : n < h.length
  · simp [h1, List.getElem?_append_left h1]
  · by_cases h2 : n = h.length
    · subst h2; simp [get_append_new]
    · have : (h ++ [x]).length ≤ n := by simp; omega
      simp [h1, h2, List.getElem?_eq_none this]

theorem nextAt_lt {h : List Node} {n : Nat} {x : Option Nat} (hx : nextAt h n = some x) : n < h.length := by
  unfold nextAt at hx
  rcases Nat.lt_or_ge n h.length with hl | hl
  · exact hl
  · rw [List.getElem?_eq_none hl] at hx; cases hx

theorem nextAt_some_of_lt {h : List Node} {n : Nat} (hl : n < h.length) : ∃ x, nextAt h n = some x := by
  unfold nextAt; rw [List.getElem?_eq_getElem hl]; exact ⟨_, rfl⟩

theorem seg_nextAt_mem {h : List Node} {l : List Nat} (hs : Seg h none l none) (hsort : l.Pairwise (· < ·))
    {n m : Nat} (hn : n ∈ l) (hm : nextAt h n = some (some m)) : n < m ∧ m ∈ l := by
  unfold nextAt at hm
  cases hnd : h[n]? with
  | none => rw [hnd] at hm; cases hm
  | some nd =>
    rw [hnd] at hm
    exact seg_next_mem hs hn hnd (by simpa using hm) hsort

theorem seg_nextAt_le {h : List Node} {l : List Nat} (hs : Seg h none l none) (hsort : l.Pairwise (· < ·))
    {n t : Nat} (hn : n ∈ l) (ht : t ∈ l) (hlt : n < t) : ∃ m, nextAt h n = some (some m) ∧ m ≤ t := by
  obtain ⟨nd, m, h1, h2, h3⟩ := seg_next_le hs hsort hn ht hlt
  exact ⟨m, by simp [nextAt, h1, h2], h3⟩

/-- the `next` of the last element of a segment -/
theorem seg_last_nextAt {h : List Node} {l : List Nat} {pv nx : Option Nat} (hs : Seg h pv l nx) {n : Nat}
    (hl : l.getLast? = some n) : nextAt h n = some nx := by
  obtain ⟨init, rfl⟩ := List.getLast?_eq_some_iff.1 hl
  rw [seg_append] at hs
  obtain ⟨_, ⟨nd, hnd, _, hnx⟩, _⟩ := hs
  simp [nextAt, hnd, hnx]

/-! ## the invariant of an iteration in progress -/

structure WInv (p0 : PMap) (T : Nat → Bool) (p : PMap) : Prop where
  inv : PInv p
  keep : ∀ e ∈ p0.dict, T e.1 = true → e ∈ p.dict
  len : p0.heap.length ≤ p.heap.length
  keys : ∀ i, i < p0.heap.length → keyOf p.heap i = keyOf p0.heap i
  fresh : ∀ j, p0.heap.length ≤ j → j < p.heap.length → T (keyOf p.heap j) = false
  act : ∀ i ∈ ids p, Active0 p0 i
  incr : ∀ n m, Active0 p0 n → nextAt p.heap n = some (some m) → n < m ∧ m < p.heap.length ∧ Active0 p0 m
  reach : ∀ n, Active0 p0 n → n < p.heap.length → ∀ e ∈ p0.dict, T e.1 = true → n < e.2 →
    ∃ m, nextAt p.heap n = some (some m) ∧ m ≤ e.2

theorem winv_init {p0 : PMap} (T : Nat → Bool) (hp : PInv p0) : WInv p0 T p0 := by
  have hact : ∀ n, Active0 p0 n → n < p0.heap.length → n ∈ ids p0 := by
    intro n hn hlt; rcases hn with h | h
    · exact h
    · omega
  refine ⟨hp, fun e he _ => he, Nat.le_refl _, fun _ _ => rfl, ?_, fun i hi => Or.inl hi, ?_, ?_⟩
  · intro j h1 h2; omega
  · intro n m hn hm
    obtain ⟨h1, h2⟩ := seg_nextAt_mem hp.linked hp.sorted (hact n hn (nextAt_lt hm)) hm
    exact ⟨h1, hp.bound m h2, Or.inl h2⟩
  · intro n hn hlt e he _ hne
    exact seg_nextAt_le hp.linked hp.sorted (hact n hn hlt) (mem_ids_of_mem he) hne

/-! ### shapes of the results of `Set` and `Delete` -/

theorem set_existing {p : PMap} {k i : Nat} (v : Nat) (h : AMap.get p.dict k = some i) :
    (p.set k v).1 = { p with heap := setVal p.heap i v } := by
  simp [PMap.set, h]

theorem set_new_empty {p : PMap} {k : Nat} (v : Nat) (h : AMap.get p.dict k = none) (hh : p.head = none) :
    (p.set k v).1 = { heap := p.heap ++ [{ key := k, val := v, prev := none, next := none }],
                      head := some p.heap.length, tail := some p.heap.length,
                      dict := p.dict ++ [(k, p.heap.length)], size := p.size + 1 } := by
  simp [PMap.set, h, hh]

theorem set_new_tail {p : PMap} {k hd t : Nat} (v : Nat) (h : AMap.get p.dict k = none) (hh : p.head = some hd)
    (ht : p.tail = some t) :
    (p.set k v).1 = { heap := setNext p.heap t (some p.heap.length) ++ [{ key := k, val := v, prev := some t, next := none }],
                      head := some hd, tail := some p.heap.length,
                      dict := p.dict ++ [(k, p.heap.length)], size := p.size + 1 } := by
  simp [PMap.set, h, hh, ht]

theorem delete_found {p : PMap} {k i : Nat} {n : Node} (h : AMap.get p.dict k = some i) (hn : p.heap[i]? = some n) :
    (p.delete k).1.heap = unlink p.heap n.prev n.next ∧ (p.delete k).1.dict = AMap.remove p.dict k := by
  simp [PMap.delete, h, hn]

theorem delete_absent {p : PMap} {k : Nat} (h : AMap.get p.dict k = none) : (p.delete k).1 = p := by
  simp [PMap.delete, h]

theorem mem_dict_get_ne_none {d : List (Nat × Nat)} {k i : Nat} (h : (k, i) ∈ d) : AMap.get d k ≠ none := by
  intro hn
  exact (AMap.get_eq_none_iff d k).1 hn (List.mem_map.2 ⟨(k, i), h, rfl⟩)

/-! ### preservation by writers -/

/-- `Set` never disturbs an iteration in progress. -/
theorem winv_set {p0 p : PMap} {T : Nat → Bool} (hdom : ∀ k, T k = true → k ∈ AMap.keys p0.dict)
    (w : WInv p0 T p) (k v : Nat) : WInv p0 T (p.set k v).1 := by
  have hinv' := (set_refines w.inv k v).2.2
  cases hget : AMap.get p.dict k with
  | some i =>
    rw [set_existing v hget] at hinv' ⊢
    refine ⟨hinv', w.keep, by simpa [length_setVal] using w.len, ?_, ?_, w.act, ?_, ?_⟩
    · intro j hj; show keyOf (setVal p.heap i v) j = _; rw [keyOf_setVal]; exact w.keys j hj
    · intro j h1 h2
      show T (keyOf (setVal p.heap i v) j) = false
      rw [keyOf_setVal]; exact w.fresh j h1 (by simpa [length_setVal] using h2)
    · intro n m hn hm
      have hm' : nextAt p.heap n = some (some m) := by simpa [nextAt_setVal] using hm
      simpa [length_setVal] using w.incr n m hn hm'
    · intro n hn hlt e he hT hne
      have := w.reach n hn (by simpa [length_setVal] using hlt) e he hT hne
      simpa [nextAt_setVal] using this
  | none =>
    have hfreshKey : T k = false := by
      cases hT : T k with
      | false => rfl
      | true =>
        obtain ⟨e, he, hek⟩ := List.mem_map.1 (hdom k hT)
        have hmem := w.keep e he (by rw [hek]; exact hT)
        have : (k, e.2) ∈ p.dict := by rw [← hek]; exact hmem
        exact absurd hget (mem_dict_get_ne_none this)
    cases hh : p.head with
    | none =>
      have hids : ids p = [] := by
        have := w.inv.head; rw [hh] at this
        exact List.head?_eq_none_iff.1 this.symm
      have hd : p.dict = [] := by simpa [ids] using hids
      rw [set_new_empty v hget hh] at hinv' ⊢
      refine ⟨hinv', ?_, ?_, ?_, ?_, ?_, ?_, ?_⟩
      · intro e he hT; exact List.mem_append_left _ (w.keep e he hT)
      · show p0.heap.length ≤ (p.heap ++ [_]).length
        have := w.len; simp; omega
      · intro j hj
        show keyOf (p.heap ++ [_]) j = _
        rw [keyOf_append _ _ (by have := w.len; omega)]; exact w.keys j hj
      · intro j h1 h2
        show T (keyOf (p.heap ++ [_]) j) = false
        have h2' : j < p.heap.length + 1 := by simpa using h2
        by_cases hj : j < p.heap.length
        · rw [keyOf_append _ _ hj]; exact w.fresh j h1 hj
        · have : j = p.heap.length := by omega
          subst this
          simp only [keyOf, get_append_new]; exact hfreshKey
      · intro i hi
        have : i = p.heap.length := by simpa [ids, hd] using hi
        exact Or.inr (this ▸ w.len)
      · intro n m hn hm
        show n < m ∧ m < (p.heap ++ [_]).length ∧ _
        rw [nextAt_append] at hm
        by_cases h1 : n < p.heap.length
        · simp only [h1, if_true] at hm
          obtain ⟨a, b, c⟩ := w.incr n m hn hm
          exact ⟨a, by simp; omega, c⟩
        · by_cases h2 : n = p.heap.length <;> simp [h1, h2] at hm
      · intro n hn hlt e he hT hne
        have := w.keep e he hT
        rw [hd] at this; cases this
    | some hd =>
      have hne : ids p ≠ [] := by
        intro e; have := w.inv.head; rw [hh, e] at this; cases this
      obtain ⟨t, ht⟩ : ∃ t, (ids p).getLast? = some t := by
        cases hl : (ids p).getLast? with
        | none => exact absurd (List.getLast?_eq_none_iff.1 hl) hne
        | some t => exact ⟨t, rfl⟩
      have htail : p.tail = some t := by rw [w.inv.tail, ht]
      have htmem : t ∈ ids p := List.mem_of_getLast? ht
      have htlt : t < p.heap.length := w.inv.bound t htmem
      have hlen : (setNext p.heap t (some p.heap.length)).length = p.heap.length := length_setNext _ _ _
      rw [set_new_tail v hget hh htail] at hinv' ⊢
      refine ⟨hinv', ?_, ?_, ?_, ?_, ?_, ?_, ?_⟩
      · intro e he hT; exact List.mem_append_left _ (w.keep e he hT)
      · show p0.heap.length ≤ (setNext p.heap t (some p.heap.length) ++ [_]).length
        have := w.len; simp [hlen]; omega
      · intro j hj
        show keyOf (setNext p.heap t (some p.heap.length) ++ [_]) j = _
        rw [keyOf_append _ _ (by have := w.len; omega), keyOf_setNext]; exact w.keys j hj
      · intro j h1 h2
        show T (keyOf (setNext p.heap t (some p.heap.length) ++ [_]) j) = false
        have h2' : j < p.heap.length + 1 := by simpa [hlen] using h2
        by_cases hj : j < p.heap.length
        · rw [keyOf_append _ _ (by omega), keyOf_setNext]; exact w.fresh j h1 hj
        · have : j = p.heap.length := by omega
          subst this
          have := get_append_new (setNext p.heap t (some p.heap.length)) { key := k, val := v, prev := some t, next := none }
          rw [hlen] at this
          simp only [keyOf, this]; exact hfreshKey
      · intro i hi
        have : i ∈ ids p ∨ i = p.heap.length := by simpa [ids] using hi
        rcases this with h | h
        · exact w.act i h
        · exact Or.inr (h ▸ w.len)
      · intro n m hn hm
        show n < m ∧ m < (setNext p.heap t (some p.heap.length) ++ [_]).length ∧ _
        rw [nextAt_append, hlen] at hm
        by_cases h1 : n < p.heap.length
        · simp only [h1, if_true, nextAt_setNext] at hm
          by_cases htn : t = n
          · subst htn
            obtain ⟨x, hx⟩ := nextAt_some_of_lt h1
            unfold nextAt at hx
            cases hnd : p.heap[t]? with
            | none => rw [hnd] at hx; cases hx
            | some nd =>
              simp [hnd] at hm
              subst hm
              exact ⟨h1, by simp [hlen], Or.inr w.len⟩
          · simp only [htn, if_false] at hm
            obtain ⟨a, b, c⟩ := w.incr n m hn hm
            exact ⟨a, by simp [hlen]; omega, c⟩
        · by_cases h2 : n = p.heap.length <;> simp [h1, h2] at hm
      · intro n hn hlt e he hT hne'
        have hmem := mem_ids_of_mem (w.keep e he hT)
        have hle : e.2 ≤ t := le_getLast_of_sorted w.inv.sorted ht hmem
        have hn1 : n < p.heap.length := by omega
        have htn : t ≠ n := by omega
        obtain ⟨m, hm, hmle⟩ := w.reach n hn hn1 e he hT hne'
        refine ⟨m, ?_, hmle⟩
        show nextAt (setNext p.heap t (some p.heap.length) ++ [_]) n = _
        rw [nextAt_append, hlen]
        simp only [hn1, if_true, nextAt_setNext, htn, if_false]
        exact hm

/-- `Clear` is fine when no key is required to stay live. -/
theorem winv_clear {p0 p : PMap} {T : Nat → Bool} (hT : ∀ k, T k = false) (w : WInv p0 T p) : WInv p0 T p.clear := by
  refine ⟨(clear_refines p).2, ?_, w.len, w.keys, w.fresh, ?_, w.incr, ?_⟩
  · intro e _ h; rw [hT] at h; cases h
  · intro i hi; simp [ids, clear] at hi
  · intro n _ _ e _ h; rw [hT] at h; cases h

/-- `Delete` of a key that is not required to stay live. -/
theorem winv_delete {p0 p : PMap} {T : Nat → Bool} (w : WInv p0 T p) (k : Nat) (hk : T k = false) :
    WInv p0 T (p.delete k).1 := by
  have hinv' := (delete_refines w.inv k).2.2
  cases hget : AMap.get p.dict k with
  | none => rw [delete_absent hget]; exact w
  | some i =>
    have hmem := dict_get_mem hget
    have himem : i ∈ ids p := mem_ids_of_mem hmem
    obtain ⟨nd, hnd⟩ := heap_some w.inv himem
    obtain ⟨hheap, hdict⟩ := delete_found hget hnd
    obtain ⟨d1, d2, hd⟩ := List.append_of_mem hmem
    have hids : ids p = d1.map (·.2) ++ i :: d2.map (·.2) := by simp [ids, hd]
    have hlinked := w.inv.linked
    rw [hids, seg_append] at hlinked
    obtain ⟨hA, ⟨nd', hnd', hpv, hnx⟩, hB⟩ := hlinked
    rw [hnd] at hnd'; cases hnd'
    simp only [List.head?_cons, Option.some_or, Option.or_none] at hA hpv hnx
    have hsorted := w.inv.sorted
    rw [hids] at hsorted
    have hnext_i : nextAt p.heap i = some nd.next := by simp [nextAt, hnd]
    -- the predecessor's old `next` is `i`, and it is smaller than `i`
    have hpred : ∀ a, nd.prev = some a → nextAt p.heap a = some (some i) ∧ a < i ∧ a ∈ ids p := by
      intro a ha
      rw [hpv] at ha
      refine ⟨seg_last_nextAt hA ha, ?_, ?_⟩
      · have hamem : a ∈ d1.map (·.2) := List.mem_of_getLast? ha
        exact (List.pairwise_append.1 hsorted).2.2 a hamem i (by simp)
      · rw [hids]; exact List.mem_append_left _ (List.mem_of_getLast? ha)
    have hnextAt' : ∀ n, nextAt (p.delete k).1.heap n =
        if nd.prev = some n then (p.heap[n]?).map (fun _ => nd.next) else nextAt p.heap n := by
      intro n; rw [hheap, nextAt_unlink]
    have hlen' : (p.delete k).1.heap.length = p.heap.length := by rw [hheap, length_unlink]
    refine ⟨hinv', ?_, by rw [hlen']; exact w.len, ?_, ?_, ?_, ?_, ?_⟩
    · intro e he hT
      rw [hdict]
      refine List.mem_filter.2 ⟨w.keep e he hT, ?_⟩
      have : e.1 ≠ k := by intro h; rw [h, hk] at hT; cases hT
      simpa using this
    · intro j hj; rw [hheap, keyOf_unlink]; exact w.keys j hj
    · intro j h1 h2; rw [hheap, keyOf_unlink]; exact w.fresh j h1 (by rwa [hlen'] at h2)
    · intro j hj
      apply w.act
      have : j ∈ (AMap.remove p.dict k).map (·.2) := by rw [← hdict]; exact hj
      obtain ⟨e, he, hej⟩ := List.mem_map.1 this
      exact List.mem_map.2 ⟨e, (List.mem_filter.1 he).1, hej⟩
    · intro n m hn hm
      rw [hnextAt', hlen'] at *
      by_cases hpn : nd.prev = some n
      · simp only [hpn, if_true] at hm
        obtain ⟨h1, h2, _⟩ := hpred n hpn
        obtain ⟨x, hx⟩ := nextAt_some_of_lt (nextAt_lt h1)
        have hm' : nd.next = some m := by
          unfold nextAt at hx
          cases hq : p.heap[n]? with
          | none => rw [hq] at hx; cases hx
          | some q => simpa [hq] using hm
        obtain ⟨a, b, c⟩ := w.incr i m (w.act i himem) (by rw [hnext_i, hm'])
        exact ⟨by omega, b, c⟩
      · simp only [hpn, if_false] at hm
        exact w.incr n m hn hm
    · intro n hn hlt e he hT hne
      rw [hlen'] at hlt
      rw [hnextAt']
      obtain ⟨m, hm, hmle⟩ := w.reach n hn hlt e he hT hne
      by_cases hpn : nd.prev = some n
      · simp only [hpn, if_true]
        obtain ⟨h1, _, _⟩ := hpred n hpn
        rw [h1] at hm
        have hmi : m = i := by simpa using hm.symm
        subst hmi
        -- the target is not the deleted element
        have hne2 : e.2 ≠ m := by
          intro heq
          have hem : e ∈ p.dict := w.keep e he hT
          have : e = (k, m) := inj_of_nodup_map (·.2) (show (p.dict.map (·.2)).Nodup from w.inv.nodupIds) hem hmem heq
          rw [this] at hT
          rw [hk] at hT; cases hT
        have hlt2 : m < e.2 := by omega
        obtain ⟨m', hm', hmle'⟩ := w.reach m (w.act m himem) (w.inv.bound m himem) e he hT hlt2
        rw [hnext_i] at hm'
        have hq : ∃ q, p.heap[n]? = some q := by
          have := nextAt_lt h1
          exact ⟨p.heap[n], List.getElem?_eq_getElem this⟩
        obtain ⟨q, hq⟩ := hq
        refine ⟨m', ?_, hmle'⟩
        simp only [hq, Option.map_some]
        simpa using hm'
      · simp only [hpn, if_false]
        exact ⟨m, hm, hmle⟩

/-- the writers that may run during an iteration without unlinking a key that must stay live -/
def opOk (T : Nat → Bool) : MOp → Prop
  | .set _ _ => True
  | .del k => T k = false
  | .clear => ∀ k, T k = false

theorem winv_applyOp {p0 p : PMap} {T : Nat → Bool} (hdom : ∀ k, T k = true → k ∈ AMap.keys p0.dict)
    (w : WInv p0 T p) (op : MOp) (hop : opOk T op) : WInv p0 T (applyOp p op) := by
  cases op with
  | set k v => exact winv_set hdom w k v
  | del k => exact winv_delete w k hop
  | clear => exact winv_clear hop w

theorem winv_applyOps {p0 p : PMap} {T : Nat → Bool} (hdom : ∀ k, T k = true → k ∈ AMap.keys p0.dict)
    (w : WInv p0 T p) (ops : List MOp) (hops : ∀ op ∈ ops, opOk T op) : WInv p0 T (applyOps p ops) := by
  induction ops generalizing p with
  | nil => exact w
  | cons op r ih =>
    simp only [applyOps, List.foldl_cons]
    exact ih (winv_applyOp hdom w op (hops op (by simp))) (fun o ho => hops o (List.mem_cons_of_mem _ ho))

theorem heap_len_applyOp (p : PMap) (op : MOp) : p.heap.length ≤ (applyOp p op).heap.length := by
  cases op with
  | set k v =>
    simp only [applyOp, PMap.set]
    cases AMap.get p.dict k with
    | some i => simp [length_setVal]
    | none =>
      cases p.head with
      | none => simp
      | some hd => cases p.tail <;> simp [length_setNext]
  | del k =>
    simp only [applyOp, PMap.delete]
    split
    · simp
    · split <;> simp [length_unlink]
  | clear => simp [applyOp, clear]

theorem heap_len_applyOps (p : PMap) (ops : List MOp) : p.heap.length ≤ (applyOps p ops).heap.length := by
  induction ops generalizing p with
  | nil => exact Nat.le_refl _
  | cons op r ih =>
    simp only [applyOps, List.foldl_cons]
    exact Nat.le_trans (heap_len_applyOp p op) (ih _)

theorem stepCursor_of_nextAt {p : PMap} {i : Nat} {x : Option Nat} (h : nextAt p.heap i = some x) :
    stepCursor p true i = x := by
  unfold nextAt at h
  unfold stepCursor
  cases hq : p.heap[i]? with
  | none => rw [hq] at h; cases h
  | some q => rw [hq] at h; simpa using h

theorem weakWalk_none (fuel : Nat) (p : PMap) (script : List (List MOp × Bool)) :
    (weakWalk true fuel p none script).2.1 = [] := by
  cases fuel <;> rfl

/-- the heart of the weak-iteration property, for an iteration already in progress -/
theorem weakWalk_fwd {p0 : PMap} {T : Nat → Bool} (hdom : ∀ k, T k = true → k ∈ AMap.keys p0.dict)
    (fuel : Nat) (p : PMap) (c : Option Nat) (script : List (List MOp × Bool)) (w : WInv p0 T p)
    (hscript : ∀ e ∈ script, ∀ op ∈ e.1, opOk T op)
    (hc : ∀ i, c = some i → Active0 p0 i ∧ i < p.heap.length)
    (hdone : (weakWalk true fuel p c script).2.2 = true) :
    ((weakWalk true fuel p c script).2.1.map (·.1)).Pairwise (· < ·) ∧
    (∀ i, c = some i → ∀ j ∈ (weakWalk true fuel p c script).2.1.map (·.1), i ≤ j) ∧
    (∀ e ∈ p0.dict, T e.1 = true → (∃ i, c = some i ∧ i ≤ e.2) → e.2 ∈ (weakWalk true fuel p c script).2.1.map (·.1)) ∧
    (∀ x ∈ (weakWalk true fuel p c script).2.1, Active0 p0 x.1 ∧
      (x.1 < p0.heap.length → x.2.1 = keyOf p0.heap x.1) ∧ (p0.heap.length ≤ x.1 → T x.2.1 = false)) := by
  induction fuel generalizing p c script with
  | zero => simp [weakWalk] at hdone
  | succ f ih =>
    cases c with
    | none =>
      have hv : (weakWalk true (f + 1) p none script).2.1 = [] := rfl
      rw [hv]
      refine ⟨List.Pairwise.nil, ?_, ?_, ?_⟩
      · intro i h; cases h
      · rintro e _ _ ⟨i, h, _⟩; cases h
      · intro x hx; cases hx
    | some i =>
      obtain ⟨hact, hlt⟩ := hc i rfl
      have hnd : p.heap[i]? = some p.heap[i] := List.getElem?_eq_getElem hlt
      have hops : ∀ op ∈ (script.headD ([], false)).1, opOk T op := by
        cases script with
        | nil => intro op hop; simp at hop
        | cons e r => intro op hop; exact hscript e (by simp) op hop
      have hscript' : ∀ e ∈ script.tail, ∀ op ∈ e.1, opOk T op :=
        fun e he => hscript e (List.mem_of_mem_tail he)
      have w' := winv_applyOps hdom w _ hops
      have hlt' : i < (applyOps p (script.headD ([], false)).1).heap.length :=
        Nat.lt_of_lt_of_le hlt (heap_len_applyOps _ _)
      obtain ⟨x, hx⟩ := nextAt_some_of_lt hlt'
      have hcur := stepCursor_of_nextAt hx
      -- unfold one iteration of the loop
      have hunf : weakWalk true (f + 1) p (some i) script =
          if (script.headD ([], false)).2 then
            (applyOps p (script.headD ([], false)).1, [(i, (p.heap[i].key, p.heap[i].val))], false)
          else
            ((weakWalk true f (applyOps p (script.headD ([], false)).1) x script.tail).1,
             (i, (p.heap[i].key, p.heap[i].val)) :: (weakWalk true f (applyOps p (script.headD ([], false)).1) x script.tail).2.1,
             (weakWalk true f (applyOps p (script.headD ([], false)).1) x script.tail).2.2) := by
        simp only [weakWalk, hnd, hcur]
      rw [hunf] at hdone ⊢
      by_cases hstop : (script.headD ([], false)).2 = true
      · rw [if_pos hstop] at hdone; cases hdone
      · rw [if_neg hstop] at hdone ⊢
        have hc' : ∀ m, x = some m → Active0 p0 m ∧ m < (applyOps p (script.headD ([], false)).1).heap.length := by
          intro m hm; subst hm
          obtain ⟨_, b, c⟩ := w'.incr i m hact hx
          exact ⟨c, b⟩
        obtain ⟨ha, hb, hcov, hkeys⟩ := ih _ x script.tail w' hscript' hc' hdone
        have hgt : ∀ j ∈ (weakWalk true f (applyOps p (script.headD ([], false)).1) x script.tail).2.1.map (·.1), i < j := by
          intro j hj
          cases x with
          | none => rw [weakWalk_none] at hj; cases hj
          | some m =>
            have := hb m rfl j hj
            have := (w'.incr i m hact hx).1
            omega
        refine ⟨?_, ?_, ?_, ?_⟩
        · simp only [List.map_cons, List.pairwise_cons]
          exact ⟨hgt, ha⟩
        · intro i' hi' j hj
          cases hi'
          simp only [List.map_cons, List.mem_cons] at hj
          rcases hj with hj | hj
          · omega
          · have := hgt j hj; omega
        · rintro e he hT ⟨i', hi', hle⟩
          cases hi'
          simp only [List.map_cons, List.mem_cons]
          by_cases heq : e.2 = i
          · exact Or.inl heq
          · right
            have hlt2 : i < e.2 := by omega
            obtain ⟨m, hm, hmle⟩ := w'.reach i hact hlt' e he hT hlt2
            rw [hx] at hm
            have : x = some m := by simpa using hm
            exact hcov e he hT ⟨m, this, hmle⟩
        · intro y hy
          simp only [List.mem_cons] at hy
          rcases hy with hy | hy
          · subst hy
            have hk : p.heap[i].key = keyOf p.heap i := by simp [keyOf, hnd]
            refine ⟨hact, ?_, ?_⟩
            · intro h0; show p.heap[i].key = _; rw [hk]; exact w.keys i h0
            · intro h0; show T p.heap[i].key = false; rw [hk]; exact w.fresh i h0 hlt
          · exact hkeys y hy

/-! ### putting it together -/

theorem sorted_ext : ∀ {a b : List Nat}, a.Pairwise (· < ·) → b.Pairwise (· < ·) → (∀ x, x ∈ a ↔ x ∈ b) → a = b
  | [], [], _, _, _ => rfl
  | [], y :: _, _, _, h => by have := (h y).2 (by simp); cases this
  | x :: _, [], _, _, h => by have := (h x).1 (by simp); cases this
  | x :: r, y :: r', ha, hb, h => by
    rw [List.pairwise_cons] at ha hb
    have hxy : x = y := by
      have h1 := (h x).1 (by simp)
      have h2 := (h y).2 (by simp)
      rcases List.mem_cons.1 h1 with e | e
      · exact e
      · rcases List.mem_cons.1 h2 with e' | e'
        · exact e'.symm
        · have := hb.1 x e; have := ha.1 y e'; omega
    subst hxy
    congr 1
    apply sorted_ext ha.2 hb.2
    intro z
    constructor
    · intro hz
      have := (h z).1 (List.mem_cons_of_mem _ hz)
      rcases List.mem_cons.1 this with e | e
      · have := ha.1 z hz; omega
      · exact e
    · intro hz
      have := (h z).2 (List.mem_cons_of_mem _ hz)
      rcases List.mem_cons.1 this with e | e
      · have := hb.1 z hz; omega
      · exact e

theorem head_le_of_sorted {l : List Nat} (hs : l.Pairwise (· < ·)) {a x : Nat} (ha : l.head? = some a) (hx : x ∈ l) : a ≤ x := by
  obtain ⟨r, rfl⟩ := List.head?_eq_some_iff.1 ha
  rw [List.pairwise_cons] at hs
  rcases List.mem_cons.1 hx with e | e
  · omega
  · have := hs.1 x e; omega

/-- the keys required to stay live: present at the start and never deleted (nor cleared) by the script -/
def liveThrough (p0 : PMap) (script : List (List MOp × Bool)) (k : Nat) : Bool :=
  decide (k ∈ AMap.keys p0.dict) && script.all (fun e => e.1.all (fun op => op != .del k && op != .clear))

theorem liveThrough_opOk (p0 : PMap) (script : List (List MOp × Bool)) :
    ∀ e ∈ script, ∀ op ∈ e.1, opOk (liveThrough p0 script) op := by
  intro e he op hop
  have key : ∀ k, (op = .del k ∨ op = .clear) → liveThrough p0 script k = false := by
    intro k hk
    unfold liveThrough
    have : script.all (fun e => e.1.all (fun op => op != .del k && op != .clear)) = false := by
      rw [Bool.eq_false_iff]; intro hall
      have h1 := List.all_eq_true.1 hall e he
      have h2 := List.all_eq_true.1 h1 op hop
      rcases hk with hk | hk <;> simp [hk] at h2
    simp [this]
  cases op with
  | set k v => trivial
  | del k => exact key k (Or.inl rfl)
  | clear => exact fun k => key k (Or.inr rfl)

/-- **Weak iteration, forward.**  Start a `ForEach` on a well-formed map `p0`; between any two steps let
arbitrary writers run (`script`).  If the iteration runs to completion, the keys passed to the
consumer, restricted to the keys that were live throughout, are exactly those keys, once each, in
insertion order. -/
theorem weak_iteration_fwd {p0 : PMap} (hp : PInv p0) (fuel : Nat) (script : List (List MOp × Bool))
    (hdone : (weakWalk true fuel p0 p0.head script).2.2 = true) :
    ((weakWalk true fuel p0 p0.head script).2.1.map (·.2.1)).filter (liveThrough p0 script)
      = (AMap.keys p0.dict).filter (liveThrough p0 script) := by
  let T := liveThrough p0 script
  have hdom : ∀ k, T k = true → k ∈ AMap.keys p0.dict := by
    intro k hk
    simp only [T, liveThrough, Bool.and_eq_true, decide_eq_true_eq] at hk
    exact hk.1
  have hc : ∀ i, p0.head = some i → Active0 p0 i ∧ i < p0.heap.length := by
    intro i hi
    have : i ∈ ids p0 := List.mem_of_head? (hp.head ▸ hi)
    exact ⟨Or.inl this, hp.bound i this⟩
  obtain ⟨ha, _, hcov, hkeys⟩ := weakWalk_fwd hdom fuel p0 p0.head script (winv_init T hp)
    (liveThrough_opOk p0 script) hc hdone
  generalize (weakWalk true fuel p0 p0.head script).2.1 = vis at ha hcov hkeys
  -- identities of the elements whose keys stay live
  let Tids := (p0.dict.filter (fun e => T e.1)).map (·.2)
  have hTsorted : Tids.Pairwise (· < ·) :=
    hp.sorted.sublist (List.Sublist.map _ List.filter_sublist)
  have hTmem : ∀ j, j ∈ Tids ↔ ∃ e ∈ p0.dict, T e.1 = true ∧ e.2 = j := by
    intro j; simp only [Tids, List.mem_map, List.mem_filter]
    constructor
    · rintro ⟨e, ⟨h1, h2⟩, h3⟩; exact ⟨e, h1, h2, h3⟩
    · rintro ⟨e, h1, h2, h3⟩; exact ⟨e, ⟨h1, h2⟩, h3⟩
  -- every such element is visited
  have hall : ∀ j ∈ Tids, j ∈ vis.map (·.1) := by
    intro j hj
    obtain ⟨e, he, hT, rfl⟩ := (hTmem j).1 hj
    have hmem := mem_ids_of_mem he
    cases hh : p0.head with
    | none =>
      have : ids p0 = [] := List.head?_eq_none_iff.1 (hp.head ▸ hh)
      rw [this] at hmem; cases hmem
    | some a =>
      apply hcov e he hT
      exact ⟨a, hh, head_le_of_sorted hp.sorted (hp.head ▸ hh) hmem⟩
  have hidfilter : (vis.map (·.1)).filter (fun j => decide (j ∈ Tids)) = Tids := by
    apply sorted_ext (ha.sublist List.filter_sublist) hTsorted
    intro x
    simp only [List.mem_filter, decide_eq_true_eq]
    exact ⟨fun h => h.2, fun h => ⟨hall x h, h⟩⟩
  -- a visited element reports a key that stays live iff it is one of these elements
  have hiff : ∀ x ∈ vis, T x.2.1 = decide (x.1 ∈ Tids) := by
    intro x hx
    obtain ⟨hact, hk1, hk2⟩ := hkeys x hx
    by_cases hin : x.1 ∈ Tids
    · obtain ⟨e, he, hT, hej⟩ := (hTmem x.1).1 hin
      have hlt : x.1 < p0.heap.length := hej ▸ hp.bound e.2 (mem_ids_of_mem he)
      rw [hk1 hlt, ← hej, hp.keyOk e he, hT]; simp [hej, hin]
    · simp only [hin, decide_false]
      rcases Nat.lt_or_ge x.1 p0.heap.length with hlt | hge
      · have hx0 : x.1 ∈ ids p0 := by
          rcases hact with h | h
          · exact h
          · omega
        obtain ⟨e, he, hej⟩ := List.mem_map.1 hx0
        rw [hk1 hlt, ← hej, hp.keyOk e he]
        cases hT : T e.1 with
        | false => rfl
        | true => exact absurd ((hTmem x.1).2 ⟨e, he, hT, hej⟩) hin
      · exact hk2 hge
  -- assemble
  have h1 : (vis.map (·.2.1)).filter T = (vis.filter (fun x => decide (x.1 ∈ Tids))).map (·.2.1) := by
    rw [List.filter_map]
    congr 1
    apply List.filter_congr
    intro x hx; exact hiff x hx
  have h2 : (vis.filter (fun x => decide (x.1 ∈ Tids))).map (·.2.1)
      = ((vis.map (·.1)).filter (fun j => decide (j ∈ Tids))).map (keyOf p0.heap) := by
    rw [List.filter_map, List.map_map]
    apply List.map_congr_left
    intro x hx
    obtain ⟨hxv, hxT⟩ := List.mem_filter.1 hx
    have hin : x.1 ∈ Tids := by simpa using hxT
    obtain ⟨e, he, _, hej⟩ := (hTmem x.1).1 hin
    have hlt : x.1 < p0.heap.length := hej ▸ hp.bound e.2 (mem_ids_of_mem he)
    exact (hkeys x hxv).2.1 hlt
  have h3 : Tids.map (keyOf p0.heap) = (AMap.keys p0.dict).filter T := by
    simp only [Tids, AMap.keys, List.map_map]
    rw [List.filter_map]
    apply List.map_congr_left
    intro e he
    exact hp.keyOk e (List.mem_filter.1 he).1
  show (vis.map (·.2.1)).filter T = (AMap.keys p0.dict).filter T
  rw [h1, h2, hidfilter, h3]

/-! ## the reverse direction (`ForEachReverse` follows `prev`) -/

def prevAt (h : List Node) (n : Nat) : Option (Option Nat) := (h[n]?).map (·.prev)

theorem prevAt_setNext (h : List Node) (a n : Nat) (nx : Option Nat) : prevAt (setNext h a nx) n = prevAt h n := by
  unfold prevAt; rw [get_setNext]; by_cases e : a = n <;> cases h[n]? <;> simp [e]

theorem prevAt_setPrev (h : List Node) (b n : Nat) (pv : Option Nat) :
    prevAt (setPrev h b pv) n = if b = n then (h[n]?).map (fun _ => pv) else prevAt h n := by
  unfold prevAt; rw [get_setPrev]; by_cases e : b = n <;> cases h[n]? <;> simp [e]

theorem prevAt_setVal (h : List Node) (i n v : Nat) : prevAt (setVal h i v) n = prevAt h n := by
  unfold prevAt; rw [get_setVal]; by_cases e : i = n <;> cases h[n]? <;> simp [e]

theorem exists_setNext (h : List Node) (a n : Nat) (nx pv : Option Nat) :
    ((setNext h a nx)[n]?).map (fun _ => pv) = (h[n]?).map (fun _ => pv) := by
  rw [get_setNext]; by_cases e : a = n <;> cases h[n]? <;> simp [e]

theorem prevAt_unlink (h : List Node) (pv nx : Option Nat) (n : Nat) :
    prevAt (unlink h pv nx) n = if nx = some n then (h[n]?).map (fun _ => pv) else prevAt h n := by
  unfold unlink
  cases nx with
  | none => cases pv <;> simp [prevAt_setNext]
  | some b =>
    cases pv with
    | none => simp [prevAt_setPrev]
    | some a => simp [prevAt_setPrev, prevAt_setNext, exists_setNext]

theorem prevAt_append (h : List Node) (x : Node) (n : Nat) :
    prevAt (h ++ [x]) n = if n < h.length then prevAt h n else if n = h.length then some x.prev else none := by
  unfold prevAt
  by_cases h1 : n < h.length
  · simp [h1, List.getElem?_append_left h1]
  · by_cases h2 : n = h.length
    · subst h2; simp [get_append_new]
    · have : (h ++ [x]).length ≤ n := by simp; omega
      simp [h1, h2, List.getElem?_eq_none this]

theorem prevAt_lt {h : List Node} {n : Nat} {x : Option Nat} (hx : prevAt h n = some x) : n < h.length := by
  unfold prevAt at hx
  rcases Nat.lt_or_ge n h.length with hl | hl
  · exact hl
  · rw [List.getElem?_eq_none hl] at hx; cases hx

theorem prevAt_some_of_lt {h : List Node} {n : Nat} (hl : n < h.length) : ∃ x, prevAt h n = some x := by
  unfold prevAt; rw [List.getElem?_eq_getElem hl]; exact ⟨_, rfl⟩

/-- the `prev` of an element of a sorted chain is the last element before it -/
theorem seg_prevAt_split {h : List Node} {pre post : List Nat} {n : Nat} {nx : Option Nat}
    (hs : Seg h none (pre ++ n :: post) nx) : prevAt h n = some pre.getLast? := by
  rw [seg_append] at hs
  obtain ⟨_, ⟨nd, hnd, hpv, _⟩, _⟩ := hs
  simp [prevAt, hnd, hpv]

theorem seg_prevAt_mem {h : List Node} {l : List Nat} {nx : Option Nat} (hs : Seg h none l nx)
    (hsort : l.Pairwise (· < ·)) {n m : Nat} (hn : n ∈ l) (hm : prevAt h n = some (some m)) : m < n ∧ m ∈ l := by
  obtain ⟨pre, post, rfl⟩ := List.append_of_mem hn
  rw [seg_prevAt_split hs] at hm
  have hl : pre.getLast? = some m := by simpa using hm
  have hmem : m ∈ pre := List.mem_of_getLast? hl
  exact ⟨(List.pairwise_append.1 hsort).2.2 m hmem n (by simp), List.mem_append_left _ hmem⟩

theorem seg_prevAt_le {h : List Node} {l : List Nat} {nx : Option Nat} (hs : Seg h none l nx)
    (hsort : l.Pairwise (· < ·)) {n t : Nat} (hn : n ∈ l) (ht : t ∈ l) (hlt : t < n) :
    ∃ m, prevAt h n = some (some m) ∧ t ≤ m := by
  obtain ⟨pre, post, rfl⟩ := List.append_of_mem hn
  have hsplit := List.pairwise_append.1 hsort
  have htpre : t ∈ pre := by
    rcases List.mem_append.1 ht with h1 | h1
    · exact h1
    · rcases List.mem_cons.1 h1 with e | e
      · omega
      · have := (List.pairwise_cons.1 hsplit.2.1).1 t e; omega
  cases hl : pre.getLast? with
  | none => rw [List.getLast?_eq_none_iff.1 hl] at htpre; cases htpre
  | some m =>
    exact ⟨m, by rw [seg_prevAt_split hs, hl], le_getLast_of_sorted hsplit.1 hl htpre⟩

/-- the `prev` of the first element of a segment -/
theorem seg_first_prevAt {h : List Node} {l : List Nat} {pv nx : Option Nat} (hs : Seg h pv l nx) {n : Nat}
    (hl : l.head? = some n) : prevAt h n = some pv := by
  obtain ⟨r, rfl⟩ := List.head?_eq_some_iff.1 hl
  obtain ⟨⟨nd, hnd, hpv, _⟩, _⟩ := hs
  simp [prevAt, hnd, hpv]

/-- the backward counterpart of `WInv` -/
structure WInvR (p0 : PMap) (T : Nat → Bool) (p : PMap) : Prop where
  base : WInv p0 T p
  decr : ∀ n m, Active0 p0 n → prevAt p.heap n = some (some m) → m < n ∧ Active0 p0 m
  reachR : ∀ n, Active0 p0 n → n < p.heap.length → ∀ e ∈ p0.dict, T e.1 = true → e.2 < n →
    ∃ m, prevAt p.heap n = some (some m) ∧ e.2 ≤ m

theorem winvR_init {p0 : PMap} (T : Nat → Bool) (hp : PInv p0) : WInvR p0 T p0 := by
  have hact : ∀ n, Active0 p0 n → n < p0.heap.length → n ∈ ids p0 := by
    intro n hn hlt; rcases hn with h | h
    · exact h
    · omega
  refine ⟨winv_init T hp, ?_, ?_⟩
  · intro n m hn hm
    obtain ⟨h1, h2⟩ := seg_prevAt_mem hp.linked hp.sorted (hact n hn (prevAt_lt hm)) hm
    exact ⟨h1, Or.inl h2⟩
  · intro n hn hlt e he _ hne
    exact seg_prevAt_le hp.linked hp.sorted (hact n hn hlt) (mem_ids_of_mem he) hne

theorem winvR_set {p0 p : PMap} {T : Nat → Bool} (hdom : ∀ k, T k = true → k ∈ AMap.keys p0.dict)
    (w : WInvR p0 T p) (k v : Nat) : WInvR p0 T (p.set k v).1 := by
  have hbase := winv_set hdom w.base k v
  refine ⟨hbase, ?_, ?_⟩
  all_goals
    cases hget : AMap.get p.dict k with
    | some i =>
      rw [set_existing v hget]
      first
        | (intro n m hn hm
           exact w.decr n m hn (by simpa [prevAt_setVal] using hm))
        | (intro n hn hlt e he hT hne
           have := w.reachR n hn (by simpa [length_setVal] using hlt) e he hT hne
           simpa [prevAt_setVal] using this)
    | none =>
      cases hh : p.head with
      | none =>
        have hids : ids p = [] := by
          have := w.base.inv.head; rw [hh] at this
          exact List.head?_eq_none_iff.1 this.symm
        have hd : p.dict = [] := by simpa [ids] using hids
        rw [set_new_empty v hget hh]
        first
          | (intro n m hn hm
             show m < n ∧ _
             rw [prevAt_append] at hm
             by_cases h1 : n < p.heap.length
             · simp only [h1, if_true] at hm; exact w.decr n m hn hm
             · by_cases h2 : n = p.heap.length <;> simp [h1, h2] at hm)
          | (intro n hn hlt e he hT hne
             have := w.base.keep e he hT
             rw [hd] at this; cases this)
      | some hd =>
        have hne : ids p ≠ [] := by
          intro e; have := w.base.inv.head; rw [hh, e] at this; cases this
        obtain ⟨t, ht⟩ : ∃ t, (ids p).getLast? = some t := by
          cases hl : (ids p).getLast? with
          | none => exact absurd (List.getLast?_eq_none_iff.1 hl) hne
          | some t => exact ⟨t, rfl⟩
        have htail : p.tail = some t := by rw [w.base.inv.tail, ht]
        have htmem : t ∈ ids p := List.mem_of_getLast? ht
        have htlt : t < p.heap.length := w.base.inv.bound t htmem
        have hlen : (setNext p.heap t (some p.heap.length)).length = p.heap.length := length_setNext _ _ _
        rw [set_new_tail v hget hh htail]
        first
          | (intro n m hn hm
             show m < n ∧ _
             rw [prevAt_append, hlen] at hm
             by_cases h1 : n < p.heap.length
             · simp only [h1, if_true, prevAt_setNext] at hm; exact w.decr n m hn hm
             · by_cases h2 : n = p.heap.length
               · subst h2
                 simp at hm; subst hm
                 exact ⟨htlt, w.base.act _ htmem⟩
               · simp [h1, h2] at hm)
          | (intro n hn hlt e he hT hne'
             show ∃ m, prevAt (setNext p.heap t (some p.heap.length) ++ [_]) n = _ ∧ _
             have hlt' : n < p.heap.length + 1 := by
               have := hlt
               simp [hlen] at this
               exact this
             rw [prevAt_append, hlen]
             by_cases h1 : n < p.heap.length
             · simp only [h1, if_true, prevAt_setNext]
               exact w.reachR n hn h1 e he hT hne'
             · have h2 : n = p.heap.length := by omega
               simp only [h1, h2, if_false, if_true]
               have hmem := mem_ids_of_mem (w.base.keep e he hT)
               exact ⟨t, by simp, le_getLast_of_sorted w.base.inv.sorted ht hmem⟩)

theorem winvR_clear {p0 p : PMap} {T : Nat → Bool} (hT : ∀ k, T k = false) (w : WInvR p0 T p) : WInvR p0 T p.clear := by
  refine ⟨winv_clear hT w.base, w.decr, ?_⟩
  intro n _ _ e _ h; rw [hT] at h; cases h

theorem winvR_delete {p0 p : PMap} {T : Nat → Bool} (w : WInvR p0 T p) (k : Nat) (hk : T k = false) :
    WInvR p0 T (p.delete k).1 := by
  have hbase := winv_delete w.base k hk
  cases hget : AMap.get p.dict k with
  | none => rw [delete_absent hget]; exact w
  | some i =>
    have hmem := dict_get_mem hget
    have himem : i ∈ ids p := mem_ids_of_mem hmem
    obtain ⟨nd, hnd⟩ := heap_some w.base.inv himem
    obtain ⟨hheap, hdict⟩ := delete_found hget hnd
    obtain ⟨d1, d2, hd⟩ := List.append_of_mem hmem
    have hids : ids p = d1.map (·.2) ++ i :: d2.map (·.2) := by simp [ids, hd]
    have hlinked := w.base.inv.linked
    rw [hids, seg_append] at hlinked
    obtain ⟨hA, ⟨nd', hnd', hpv, hnx⟩, hB⟩ := hlinked
    rw [hnd] at hnd'; cases hnd'
    simp only [List.head?_cons, Option.some_or, Option.or_none] at hA hpv hnx
    have hsorted := w.base.inv.sorted
    rw [hids] at hsorted
    have hprev_i : prevAt p.heap i = some nd.prev := by simp [prevAt, hnd]
    -- the successor's old `prev` is `i`, and it is larger than `i`
    have hsucc : ∀ b, nd.next = some b → prevAt p.heap b = some (some i) ∧ i < b := by
      intro b hb
      rw [hnx] at hb
      refine ⟨seg_first_prevAt hB hb, ?_⟩
      have hbmem : b ∈ d2.map (·.2) := List.mem_of_head? hb
      exact (List.pairwise_cons.1 (List.pairwise_append.1 hsorted).2.1).1 b hbmem
    have hprevAt' : ∀ n, prevAt (p.delete k).1.heap n =
        if nd.next = some n then (p.heap[n]?).map (fun _ => nd.prev) else prevAt p.heap n := by
      intro n; rw [hheap, prevAt_unlink]
    have hlen' : (p.delete k).1.heap.length = p.heap.length := by rw [hheap, length_unlink]
    refine ⟨hbase, ?_, ?_⟩
    · intro n m hn hm
      rw [hprevAt'] at hm
      by_cases hpn : nd.next = some n
      · simp only [hpn, if_true] at hm
        obtain ⟨h1, h2⟩ := hsucc n hpn
        have hm' : nd.prev = some m := by
          obtain ⟨x, hx⟩ := prevAt_some_of_lt (prevAt_lt h1)
          unfold prevAt at hx
          cases hq : p.heap[n]? with
          | none => rw [hq] at hx; cases hx
          | some q => simpa [hq] using hm
        obtain ⟨a, c⟩ := w.decr i m (w.base.act i himem) (by rw [hprev_i, hm'])
        exact ⟨by omega, c⟩
      · simp only [hpn, if_false] at hm
        exact w.decr n m hn hm
    · intro n hn hlt e he hT hne
      rw [hlen'] at hlt
      rw [hprevAt']
      obtain ⟨m, hm, hmle⟩ := w.reachR n hn hlt e he hT hne
      by_cases hpn : nd.next = some n
      · simp only [hpn, if_true]
        obtain ⟨h1, _⟩ := hsucc n hpn
        rw [h1] at hm
        have hmi : m = i := by simpa using hm.symm
        subst hmi
        have hne2 : e.2 ≠ m := by
          intro heq
          have hem : e ∈ p.dict := w.base.keep e he hT
          have : e = (k, m) := inj_of_nodup_map (·.2) (show (p.dict.map (·.2)).Nodup from w.base.inv.nodupIds) hem hmem heq
          rw [this] at hT
          rw [hk] at hT; cases hT
        have hlt2 : e.2 < m := by omega
        obtain ⟨m', hm', hmle'⟩ := w.reachR m (w.base.act m himem) (w.base.inv.bound m himem) e he hT hlt2
        rw [hprev_i] at hm'
        have hq : ∃ q, p.heap[n]? = some q := ⟨p.heap[n], List.getElem?_eq_getElem hlt⟩
        obtain ⟨q, hq⟩ := hq
        refine ⟨m', ?_, hmle'⟩
        simp only [hq, Option.map_some]
        simpa using hm'
      · simp only [hpn, if_false]
        exact ⟨m, hm, hmle⟩

theorem winvR_applyOp {p0 p : PMap} {T : Nat → Bool} (hdom : ∀ k, T k = true → k ∈ AMap.keys p0.dict)
    (w : WInvR p0 T p) (op : MOp) (hop : opOk T op) : WInvR p0 T (applyOp p op) := by
  cases op with
  | set k v => exact winvR_set hdom w k v
  | del k => exact winvR_delete w k hop
  | clear => exact winvR_clear hop w

theorem winvR_applyOps {p0 p : PMap} {T : Nat → Bool} (hdom : ∀ k, T k = true → k ∈ AMap.keys p0.dict)
    (w : WInvR p0 T p) (ops : List MOp) (hops : ∀ op ∈ ops, opOk T op) : WInvR p0 T (applyOps p ops) := by
  induction ops generalizing p with
  | nil => exact w
  | cons op r ih =>
    simp only [applyOps, List.foldl_cons]
    exact ih (winvR_applyOp hdom w op (hops op (by simp))) (fun o ho => hops o (List.mem_cons_of_mem _ ho))

theorem stepCursor_of_prevAt {p : PMap} {i : Nat} {x : Option Nat} (h : prevAt p.heap i = some x) :
    stepCursor p false i = x := by
  unfold prevAt at h
  unfold stepCursor
  cases hq : p.heap[i]? with
  | none => rw [hq] at h; cases h
  | some q => rw [hq] at h; simpa using h

theorem weakWalk_none_rev (fuel : Nat) (p : PMap) (script : List (List MOp × Bool)) :
    (weakWalk false fuel p none script).2.1 = [] := by
  cases fuel <;> rfl

theorem weakWalk_rev {p0 : PMap} {T : Nat → Bool} (hdom : ∀ k, T k = true → k ∈ AMap.keys p0.dict)
    (fuel : Nat) (p : PMap) (c : Option Nat) (script : List (List MOp × Bool)) (w : WInvR p0 T p)
    (hscript : ∀ e ∈ script, ∀ op ∈ e.1, opOk T op)
    (hc : ∀ i, c = some i → Active0 p0 i ∧ i < p.heap.length)
    (hdone : (weakWalk false fuel p c script).2.2 = true) :
    ((weakWalk false fuel p c script).2.1.map (·.1)).Pairwise (· > ·) ∧
    (∀ i, c = some i → ∀ j ∈ (weakWalk false fuel p c script).2.1.map (·.1), j ≤ i) ∧
    (∀ e ∈ p0.dict, T e.1 = true → (∃ i, c = some i ∧ e.2 ≤ i) → e.2 ∈ (weakWalk false fuel p c script).2.1.map (·.1)) ∧
    (∀ x ∈ (weakWalk false fuel p c script).2.1, Active0 p0 x.1 ∧
      (x.1 < p0.heap.length → x.2.1 = keyOf p0.heap x.1) ∧ (p0.heap.length ≤ x.1 → T x.2.1 = false)) := by
  induction fuel generalizing p c script with
  | zero => simp [weakWalk] at hdone
  | succ f ih =>
    cases c with
    | none =>
      have hv : (weakWalk false (f + 1) p none script).2.1 = [] := rfl
      rw [hv]
      refine ⟨List.Pairwise.nil, ?_, ?_, ?_⟩
      · intro i h; cases h
      · rintro e _ _ ⟨i, h, _⟩; cases h
      · intro x hx; cases hx
    | some i =>
      obtain ⟨hact, hlt⟩ := hc i rfl
      have hnd : p.heap[i]? = some p.heap[i] := List.getElem?_eq_getElem hlt
      have hops : ∀ op ∈ (script.headD ([], false)).1, opOk T op := by
        cases script with
        | nil => intro op hop; simp at hop
        | cons e r => intro op hop; exact hscript e (by simp) op hop
      have hscript' : ∀ e ∈ script.tail, ∀ op ∈ e.1, opOk T op :=
        fun e he => hscript e (List.mem_of_mem_tail he)
      have w' := winvR_applyOps hdom w _ hops
      have hlt' : i < (applyOps p (script.headD ([], false)).1).heap.length :=
        Nat.lt_of_lt_of_le hlt (heap_len_applyOps _ _)
      obtain ⟨x, hx⟩ := prevAt_some_of_lt hlt'
      have hcur := stepCursor_of_prevAt hx
      have hunf : weakWalk false (f + 1) p (some i) script =
          if (script.headD ([], false)).2 then
            (applyOps p (script.headD ([], false)).1, [(i, (p.heap[i].key, p.heap[i].val))], false)
          else
            ((weakWalk false f (applyOps p (script.headD ([], false)).1) x script.tail).1,
             (i, (p.heap[i].key, p.heap[i].val)) :: (weakWalk false f (applyOps p (script.headD ([], false)).1) x script.tail).2.1,
             (weakWalk false f (applyOps p (script.headD ([], false)).1) x script.tail).2.2) := by
        simp only [weakWalk, hnd, hcur]
      rw [hunf] at hdone ⊢
      by_cases hstop : (script.headD ([], false)).2 = true
      · rw [if_pos hstop] at hdone; cases hdone
      · rw [if_neg hstop] at hdone ⊢
        have hc' : ∀ m, x = some m → Active0 p0 m ∧ m < (applyOps p (script.headD ([], false)).1).heap.length := by
          intro m hm; subst hm
          obtain ⟨b, c⟩ := w'.decr i m hact hx
          exact ⟨c, by omega⟩
        obtain ⟨ha, hb, hcov, hkeys⟩ := ih _ x script.tail w' hscript' hc' hdone
        have hgt : ∀ j ∈ (weakWalk false f (applyOps p (script.headD ([], false)).1) x script.tail).2.1.map (·.1), j < i := by
          intro j hj
          cases x with
          | none => rw [weakWalk_none_rev] at hj; cases hj
          | some m =>
            have := hb m rfl j hj
            have := (w'.decr i m hact hx).1
            omega
        refine ⟨?_, ?_, ?_, ?_⟩
        · simp only [List.map_cons, List.pairwise_cons]
          exact ⟨fun j hj => hgt j hj, ha⟩
        · intro i' hi' j hj
          cases hi'
          simp only [List.map_cons, List.mem_cons] at hj
          rcases hj with hj | hj
          · omega
          · have := hgt j hj; omega
        · rintro e he hT ⟨i', hi', hle⟩
          cases hi'
          simp only [List.map_cons, List.mem_cons]
          by_cases heq : e.2 = i
          · exact Or.inl heq
          · right
            have hlt2 : e.2 < i := by omega
            obtain ⟨m, hm, hmle⟩ := w'.reachR i hact hlt' e he hT hlt2
            rw [hx] at hm
            have : x = some m := by simpa using hm
            exact hcov e he hT ⟨m, this, hmle⟩
        · intro y hy
          simp only [List.mem_cons] at hy
          rcases hy with hy | hy
          · subst hy
            have hk : p.heap[i].key = keyOf p.heap i := by simp [keyOf, hnd]
            refine ⟨hact, ?_, ?_⟩
            · intro h0; show p.heap[i].key = _; rw [hk]; exact w.base.keys i h0
            · intro h0; show T p.heap[i].key = false; rw [hk]; exact w.base.fresh i h0 hlt
          · exact hkeys y hy

/-- `ForEachReverse`: the same with `prev` pointers, the keys live throughout come in reverse insertion order. -/
theorem weak_iteration_rev {p0 : PMap} (hp : PInv p0) (fuel : Nat) (script : List (List MOp × Bool))
    (hdone : (weakWalk false fuel p0 p0.tail script).2.2 = true) :
    ((weakWalk false fuel p0 p0.tail script).2.1.map (·.2.1)).filter (liveThrough p0 script)
      = (AMap.keys p0.dict).reverse.filter (liveThrough p0 script) := by
  let T := liveThrough p0 script
  have hdom : ∀ k, T k = true → k ∈ AMap.keys p0.dict := by
    intro k hk
    simp only [T, liveThrough, Bool.and_eq_true, decide_eq_true_eq] at hk
    exact hk.1
  have hc : ∀ i, p0.tail = some i → Active0 p0 i ∧ i < p0.heap.length := by
    intro i hi
    have : i ∈ ids p0 := List.mem_of_getLast? (hp.tail ▸ hi)
    exact ⟨Or.inl this, hp.bound i this⟩
  obtain ⟨ha, _, hcov, hkeys⟩ := weakWalk_rev hdom fuel p0 p0.tail script (winvR_init T hp)
    (liveThrough_opOk p0 script) hc hdone
  generalize (weakWalk false fuel p0 p0.tail script).2.1 = vis at ha hcov hkeys
  -- identities of the elements whose keys stay live
  let Tids := (p0.dict.filter (fun e => T e.1)).map (·.2)
  have hTsorted : Tids.Pairwise (· < ·) :=
    hp.sorted.sublist (List.Sublist.map _ List.filter_sublist)
  have hTmem : ∀ j, j ∈ Tids ↔ ∃ e ∈ p0.dict, T e.1 = true ∧ e.2 = j := by
    intro j; simp only [Tids, List.mem_map, List.mem_filter]
    constructor
    · rintro ⟨e, ⟨h1, h2⟩, h3⟩; exact ⟨e, h1, h2, h3⟩
    · rintro ⟨e, h1, h2, h3⟩; exact ⟨e, ⟨h1, h2⟩, h3⟩
  -- every such element is visited
  have hall : ∀ j ∈ Tids, j ∈ vis.map (·.1) := by
    intro j hj
    obtain ⟨e, he, hT, rfl⟩ := (hTmem j).1 hj
    have hmem := mem_ids_of_mem he
    cases hh : p0.tail with
    | none =>
      have : ids p0 = [] := List.getLast?_eq_none_iff.1 (hp.tail ▸ hh)
      rw [this] at hmem; cases hmem
    | some a =>
      apply hcov e he hT
      exact ⟨a, hh, le_getLast_of_sorted hp.sorted (hp.tail ▸ hh) hmem⟩
  have hidfilter : (vis.map (·.1)).filter (fun j => decide (j ∈ Tids)) = Tids.reverse := by
    have hdec : ((vis.map (·.1)).filter (fun j => decide (j ∈ Tids))).reverse.Pairwise (· < ·) := by
      rw [List.pairwise_reverse]
      exact (ha.sublist List.filter_sublist).imp (fun h => h)
    have := sorted_ext hdec hTsorted (by
      intro x
      simp only [List.mem_reverse, List.mem_filter, decide_eq_true_eq]
      exact ⟨fun h => h.2, fun h => ⟨hall x h, h⟩⟩)
    have h2 := congrArg List.reverse this
    rw [List.reverse_reverse] at h2
    exact h2
  -- a visited element reports a key that stays live iff it is one of these elements
  have hiff : ∀ x ∈ vis, T x.2.1 = decide (x.1 ∈ Tids) := by
    intro x hx
    obtain ⟨hact, hk1, hk2⟩ := hkeys x hx
    by_cases hin : x.1 ∈ Tids
    · obtain ⟨e, he, hT, hej⟩ := (hTmem x.1).1 hin
      have hlt : x.1 < p0.heap.length := hej ▸ hp.bound e.2 (mem_ids_of_mem he)
      rw [hk1 hlt, ← hej, hp.keyOk e he, hT]; simp [hej, hin]
    · simp only [hin, decide_false]
      rcases Nat.lt_or_ge x.1 p0.heap.length with hlt | hge
      · have hx0 : x.1 ∈ ids p0 := by
          rcases hact with h | h
          · exact h
          · omega
        obtain ⟨e, he, hej⟩ := List.mem_map.1 hx0
        rw [hk1 hlt, ← hej, hp.keyOk e he]
        cases hT : T e.1 with
        | false => rfl
        | true => exact absurd ((hTmem x.1).2 ⟨e, he, hT, hej⟩) hin
      · exact hk2 hge
  -- assemble
  have h1 : (vis.map (·.2.1)).filter T = (vis.filter (fun x => decide (x.1 ∈ Tids))).map (·.2.1) := by
    rw [List.filter_map]
    congr 1
    apply List.filter_congr
    intro x hx; exact hiff x hx
  have h2 : (vis.filter (fun x => decide (x.1 ∈ Tids))).map (·.2.1)
      = ((vis.map (·.1)).filter (fun j => decide (j ∈ Tids))).map (keyOf p0.heap) := by
    rw [List.filter_map, List.map_map]
    apply List.map_congr_left
    intro x hx
    obtain ⟨hxv, hxT⟩ := List.mem_filter.1 hx
    have hin : x.1 ∈ Tids := by simpa using hxT
    obtain ⟨e, he, _, hej⟩ := (hTmem x.1).1 hin
    have hlt : x.1 < p0.heap.length := hej ▸ hp.bound e.2 (mem_ids_of_mem he)
    exact (hkeys x hxv).2.1 hlt
  have h3 : Tids.map (keyOf p0.heap) = (AMap.keys p0.dict).filter T := by
    simp only [Tids, AMap.keys, List.map_map]
    rw [List.filter_map]
    apply List.map_congr_left
    intro e he
    exact hp.keyOk e (List.mem_filter.1 he).1
  show (vis.map (·.2.1)).filter T = (AMap.keys p0.dict).reverse.filter T
  rw [h1, h2, hidfilter, List.map_reverse, h3, List.filter_reverse]

end PMap
end Hive.OMap
