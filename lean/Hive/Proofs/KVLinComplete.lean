import Hive.Proofs.KVLin
import Hive.Proofs.KVOrder
/-!
# Completeness of the history checker's search

`search` (the total Wing–Gong search with memoisation that `drv_c05` runs) finds a linearisation
whenever one exists, unless it exhausts its node budget.  Invariant of the memo table: it contains
only configurations (operations still to linearise, state) that have no completion.
-/
namespace Hive.KV.Lin
open Hive.KV.Conc Hive.KV

/-- `L` linearises the operations `todo` starting from state `st`. -/
def Completion (ops : Array HOp) (todo : List Nat) (st : SeqSt) (L : List Nat) : Prop :=
  L.Perm todo ∧ (L.map (pick ops)).Pairwise (fun a b => a.inv < b.ret) ∧ runSeq st (L.map (pick ops)) = true

def Completable (ops : Array HOp) (todo : List Nat) (st : SeqSt) : Prop := ∃ L, Completion ops todo st L

def MemoOk (ops : Array HOp) (memo : Std.HashSet (List Nat × SeqSt)) : Prop :=
  ∀ todo st, memo.contains (todo, st) = true → ¬ Completable ops todo st

/-- Every operation of `todo` was invoked before it returned. -/
def WSon (ops : Array HOp) (todo : List Nat) : Prop := ∀ i ∈ todo, (pick ops i).inv < (pick ops i).ret

theorem WSon.erase {ops : Array HOp} {todo : List Nat} (h : WSon ops todo) (i : Nat) : WSon ops (todo.erase i) :=
  fun j hj => h j (List.mem_of_mem_erase hj)

/-! ## candidates -/

theorem minRetL_spec (ops : Array HOp) : ∀ (todo : List Nat),
    match minRetL ops todo with
    | none => todo = []
    | some r => (∀ j ∈ todo, r ≤ (pick ops j).ret) ∧ ∃ j ∈ todo, (pick ops j).ret = r
  | [] => by simp [minRetL]
  | i :: rest => by
    have ih := minRetL_spec ops rest
    simp only [minRetL]
    cases h : minRetL ops rest with
    | none =>
      rw [h] at ih
      simp only at ih ⊢
      subst ih
      exact ⟨by simp, i, List.mem_cons_self .., rfl⟩
    | some r =>
      rw [h] at ih
      simp only at ih ⊢
      obtain ⟨h1, j, hj, hjr⟩ := ih
      refine ⟨?_, ?_⟩
      · intro x hx
        rcases List.mem_cons.mp hx with rfl | hx
        · exact Nat.min_le_left _ _
        · exact Nat.le_trans (Nat.min_le_right _ _) (h1 x hx)
      · rcases Nat.le_total (pick ops i).ret r with hle | hle
        · exact ⟨i, List.mem_cons_self .., by rw [Nat.min_eq_left hle]⟩
        · exact ⟨j, List.mem_cons_of_mem _ hj, by rw [Nat.min_eq_right hle]; exact hjr⟩

/-- The candidates are exactly the operations still to linearise that were invoked before every
operation still to linearise returned. -/
theorem mem_candidates (ops : Array HOp) (todo : List Nat) (i : Nat) :
    i ∈ candidates ops todo ↔ i ∈ todo ∧ ∀ j ∈ todo, (pick ops i).inv < (pick ops j).ret := by
  have hs := minRetL_spec ops todo
  unfold candidates
  cases h : minRetL ops todo with
  | none =>
    rw [h] at hs; simp only at hs; subst hs; simp
  | some r =>
    rw [h] at hs
    obtain ⟨h1, j0, hj0, hjr⟩ := hs
    simp only [mem_sortBy, List.mem_filter, decide_eq_true_eq]
    constructor
    · rintro ⟨hi, hlt⟩
      exact ⟨hi, fun j hj => Nat.lt_of_lt_of_le hlt (h1 j hj)⟩
    · rintro ⟨hi, hall⟩
      exact ⟨hi, by have := hall j0 hj0; omega⟩

/-! ## completions -/

theorem completion_nil (ops : Array HOp) (st : SeqSt) : Completion ops [] st [] :=
  ⟨List.Perm.refl _, by simp, rfl⟩

/-- The first operation of a completion is a candidate whose recorded answer the contract gives, and
the rest completes the configuration after it. -/
theorem completion_head {ops : Array HOp} {todo : List Nat} {st : SeqSt} {i : Nat} {L : List Nat}
    (hw : WSon ops todo) (h : Completion ops todo st (i :: L)) :
    i ∈ candidates ops todo ∧ ((hstep st (pick ops i).kind).2 == (pick ops i).out) = true ∧
      Completion ops (todo.erase i) (hstep st (pick ops i).kind).1 L := by
  obtain ⟨hp, hrt, hrun⟩ := h
  have hi : i ∈ todo := hp.mem_iff.mp (List.mem_cons_self ..)
  simp only [List.map_cons, List.pairwise_cons, runSeq, Bool.and_eq_true] at hrt hrun
  refine ⟨(mem_candidates ops todo i).mpr ⟨hi, ?_⟩, hrun.1, ?_, hrt.2, hrun.2⟩
  · intro j hj
    rcases List.mem_cons.mp (hp.mem_iff.mpr hj) with rfl | hjL
    · exact hw j hi
    · exact hrt.1 _ (List.mem_map.mpr ⟨j, hjL, rfl⟩)
  · have := hp.erase i
    simpa using this

/-- Conversely a candidate that matches, followed by a completion of what remains, is a completion. -/
theorem completion_cons {ops : Array HOp} {todo : List Nat} {st : SeqSt} {i : Nat} {L : List Nat}
    (hc : i ∈ candidates ops todo) (hm : ((hstep st (pick ops i).kind).2 == (pick ops i).out) = true)
    (h : Completion ops (todo.erase i) (hstep st (pick ops i).kind).1 L) : Completion ops todo st (i :: L) := by
  obtain ⟨hi, hall⟩ := (mem_candidates ops todo i).mp hc
  obtain ⟨hp, hrt, hrun⟩ := h
  refine ⟨?_, ?_, ?_⟩
  · exact (List.Perm.cons i hp).trans (List.perm_cons_erase hi).symm
  · simp only [List.map_cons, List.pairwise_cons]
    refine ⟨?_, hrt⟩
    intro b hb
    obtain ⟨j, hj, rfl⟩ := List.mem_map.mp hb
    exact hall j (List.mem_of_mem_erase (hp.mem_iff.mp hj))
  · simp only [List.map_cons, runSeq, Bool.and_eq_true]
    exact ⟨hm, hrun⟩

/-! ## the search -/

/-- What a search of configurations with `n` operations to go has to deliver. -/
def RecSpec (ops : Array HOp) (rec : List Nat → SeqSt → List Nat → SearchSt → SRes × SearchSt) (n : Nat) : Prop :=
  ∀ todo st acc ss, todo.length = n → WSon ops todo → MemoOk ops ss.memo →
    MemoOk ops (rec todo st acc ss).2.memo ∧
    ((rec todo st acc ss).1 = .none → ¬ Completable ops todo st) ∧
    (∀ w, (rec todo st acc ss).1 = .found w → ∃ L, Completion ops todo st L ∧ w = acc.reverse ++ L)

/-- Invariant of the loop over the candidates. -/
structure LoopInv (ops : Array HOp) (todo : List Nat) (st : SeqSt) (acc : List Nat) (seen : List Nat)
    (p : SRes × SearchSt) : Prop where
  memo : MemoOk ops p.2.memo
  none : p.1 = .none → ∀ i ∈ seen, ¬ (((hstep st (pick ops i).kind).2 == (pick ops i).out) = true ∧
    Completable ops (todo.erase i) (hstep st (pick ops i).kind).1)
  found : ∀ w, p.1 = .found w → ∃ L, Completion ops todo st L ∧ w = acc.reverse ++ L

theorem memoOk_insert {ops : Array HOp} {memo : Std.HashSet (List Nat × SeqSt)} (h : MemoOk ops memo)
    (todo : List Nat) (st : SeqSt) (hn : ¬ Completable ops todo st) : MemoOk ops (memo.insert (todo, st)) := by
  intro todo' st' hc
  rw [Std.HashSet.contains_insert] at hc
  simp only [Bool.or_eq_true, beq_iff_eq] at hc
  rcases hc with heq | hc
  · cases heq; exact hn
  · exact h todo' st' hc

theorem tryCand_inv {ops : Array HOp} {rec : List Nat → SeqSt → List Nat → SearchSt → SRes × SearchSt} {n : Nat}
    (hrec : RecSpec ops rec n) {todo : List Nat} {st : SeqSt} {acc seen : List Nat} {p : SRes × SearchSt} {i : Nat}
    (hlen : todo.length = n + 1) (hw : WSon ops todo) (hi : i ∈ candidates ops todo)
    (h : LoopInv ops todo st acc seen p) : LoopInv ops todo st acc (i :: seen) (tryCand ops rec todo st acc p i) := by
  have hit : i ∈ todo := ((mem_candidates ops todo i).mp hi).1
  unfold tryCand
  cases hp : p.1 with
  | found w =>
    simp only
    exact ⟨h.memo, (fun hn => by rw [hp] at hn; cases hn), h.found⟩
  | budget =>
    simp only
    exact ⟨h.memo, (fun hn => by rw [hp] at hn; cases hn), h.found⟩
  | none =>
    simp only
    have hseen := h.none hp
    by_cases hm : ((hstep st (pick ops i).kind).2 == (pick ops i).out) = true
    · rw [if_pos hm]
      by_cases hc : p.2.memo.contains (todo.erase i, (hstep st (pick ops i).kind).1) = true
      · rw [if_pos hc]
        refine ⟨h.memo, fun _ j hj => ?_, h.found⟩
        rcases List.mem_cons.mp hj with rfl | hj
        · exact fun hh => h.memo _ _ hc hh.2
        · exact hseen j hj
      · rw [if_neg hc]
        have hlen' : (todo.erase i).length = n := by rw [List.length_erase_of_mem hit, hlen]; rfl
        obtain ⟨r1, r2, r3⟩ := hrec (todo.erase i) (hstep st (pick ops i).kind).1 (i :: acc) p.2 hlen' (hw.erase i) h.memo
        cases hr : (rec (todo.erase i) (hstep st (pick ops i).kind).1 (i :: acc) p.2) with
        | mk res ss' =>
          rw [hr] at r1 r2 r3
          simp only at r1 r2 r3
          cases res with
          | none =>
            simp only
            refine ⟨memoOk_insert r1 _ _ (r2 rfl), fun _ j hj => ?_, (fun w hw' => by cases hw')⟩
            rcases List.mem_cons.mp hj with rfl | hj
            · exact fun hh => r2 rfl hh.2
            · exact hseen j hj
          | budget =>
            simp only
            exact ⟨r1, (fun hn => by cases hn), (fun w hw' => by cases hw')⟩
          | found w =>
            simp only
            refine ⟨r1, (fun hn => by cases hn), fun w' hw' => ?_⟩
            cases hw'
            obtain ⟨L, hL, hwL⟩ := r3 w rfl
            exact ⟨i :: L, completion_cons hi hm hL, by rw [hwL]; simp⟩
    · rw [if_neg hm]
      refine ⟨h.memo, fun _ j hj => ?_, h.found⟩
      rcases List.mem_cons.mp hj with rfl | hj
      · exact fun hh => hm hh.1
      · exact hseen j hj

theorem foldl_tryCand_inv {ops : Array HOp} {rec : List Nat → SeqSt → List Nat → SearchSt → SRes × SearchSt} {n : Nat}
    (hrec : RecSpec ops rec n) {todo : List Nat} {st : SeqSt} {acc : List Nat}
    (hlen : todo.length = n + 1) (hw : WSon ops todo) :
    ∀ (cs seen : List Nat) (p : SRes × SearchSt), (∀ i ∈ cs, i ∈ candidates ops todo) →
      LoopInv ops todo st acc seen p →
      LoopInv ops todo st acc (cs.reverse ++ seen) (cs.foldl (tryCand ops rec todo st acc) p)
  | [], seen, p, _, h => by simpa using h
  | i :: cs, seen, p, hcs, h => by
    have h1 := tryCand_inv hrec hlen hw (hcs i (List.mem_cons_self ..)) h
    have h2 := foldl_tryCand_inv hrec hlen hw cs (i :: seen) _ (fun j hj => hcs j (List.mem_cons_of_mem _ hj)) h1
    simpa [List.foldl_cons] using h2

/-- **Correctness of `search`**: the memo table stays sound, `none` means that no completion
exists, `found w` delivers a completion. -/
theorem search_spec (ops : Array HOp) (budget : Option Nat) : ∀ n, RecSpec ops (search ops budget n) n
  | 0 => by
    intro todo st acc ss hlen _ hm
    have : todo = [] := List.eq_nil_of_length_eq_zero hlen
    subst this
    simp only [search]
    exact ⟨hm, (fun h => by cases h), (fun w hw => by cases hw; exact ⟨[], completion_nil ops st, by simp⟩)⟩
  | n + 1 => by
    intro todo st acc ss hlen hw hm
    simp only [search]
    by_cases hb : overBudget budget ss.nodes = true
    · rw [if_pos hb]
      exact ⟨hm, (fun h => by cases h), (fun w h => by cases h)⟩
    · rw [if_neg hb]
      have h0 : LoopInv ops todo st acc [] (SRes.none, { ss with nodes := ss.nodes + 1 }) :=
        ⟨hm, (fun _ i hi => by cases hi), (fun w h => by cases h)⟩
      have hl := foldl_tryCand_inv (search_spec ops budget n) hlen hw (candidates ops todo) [] _ (fun i hi => hi) h0
      refine ⟨hl.memo, fun hnone => ?_, hl.found⟩
      rintro ⟨L, hL⟩
      cases L with
      | nil =>
        have := hL.1.length_eq
        simp [hlen] at this
      | cons i L' =>
        obtain ⟨hc, hmatch, hrest⟩ := completion_head hw hL
        exact hl.none hnone i (by simp [hc]) ⟨hmatch, L', hrest⟩

/-! ## the decision procedure -/

theorem wellStamped_WSon (h : List HOp) (hws : wellStamped h.toArray = true) :
    WSon h.toArray (List.range h.toArray.size) := by
  intro i hi
  have hlt : i < h.length := by simpa using hi
  simp only [wellStamped, List.all_toArray, List.all_eq_true, decide_eq_true_eq] at hws
  have : pick h.toArray i = h[i] := by simp [pick, Array.getD, hlt]
  rw [this]
  exact hws _ (List.getElem_mem hlt)

/-- **Completeness of the checker**: a linearizable, well-stamped history is accepted, unless the
search gives up on its node budget (which it reports as such). -/
theorem decideHist_complete (h : List HOp) (budget : Option Nat) (hws : wellStamped h.toArray = true)
    (hlin : Linearizable h.toArray) :
    decideHist h budget = .accept ∨ decideHist h budget = .reject "budget-exhausted" := by
  obtain ⟨w, hw⟩ := hlin
  have hcomp : Completable h.toArray (List.range h.toArray.size) seqInit := ⟨w, hw⟩
  have hspec := search_spec h.toArray budget h.toArray.size (List.range h.toArray.size) seqInit []
    { memo := {}, nodes := 0 } (by simp) (wellStamped_WSon h hws)
    (fun todo st hc => by simp at hc)
  unfold decideHist
  simp only [hws, Bool.not_true, Bool.false_eq_true, if_false]
  obtain ⟨_, hnone, hfound⟩ := hspec
  cases hres : (search h.toArray budget h.toArray.size (List.range h.toArray.size) seqInit []
      { memo := {}, nodes := 0 }).1 with
  | none => exact absurd hcomp (hnone hres)
  | budget => right; rfl
  | found w' =>
    left
    obtain ⟨L, hL, hwL⟩ := hfound w' hres
    have : w' = L := by simpa using hwL
    subst this
    simp only
    rw [if_pos ((validate_iff _ _).mpr hL)]

/-! ## without a budget the search never gives up -/

theorem tryCand_no_budget {ops : Array HOp} {rec : List Nat → SeqSt → List Nat → SearchSt → SRes × SearchSt}
    (hrec : ∀ todo st acc ss, (rec todo st acc ss).1 ≠ .budget) (todo : List Nat) (st : SeqSt) (acc : List Nat)
    (p : SRes × SearchSt) (i : Nat) (hp : p.1 ≠ .budget) : (tryCand ops rec todo st acc p i).1 ≠ .budget := by
  unfold tryCand
  cases h1 : p.1 with
  | found w => simp; exact hp
  | budget => exact absurd h1 hp
  | none =>
    simp only
    split
    · split
      · exact hp
      · have := hrec (todo.erase i) (hstep st (pick ops i).kind).1 (i :: acc) p.2
        cases hr : rec (todo.erase i) (hstep st (pick ops i).kind).1 (i :: acc) p.2 with
        | mk res ss' =>
          rw [hr] at this
          cases res with
          | none => simp
          | found w => simp
          | budget => exact absurd rfl this
    · exact hp

theorem search_no_budget (ops : Array HOp) : ∀ n todo st acc ss, (search ops none n todo st acc ss).1 ≠ .budget
  | 0, _, _, _, _ => by simp [search]
  | n + 1, todo, st, acc, ss => by
    simp only [search, overBudget, Bool.false_eq_true, if_false]
    have : ∀ (cs : List Nat) (p : SRes × SearchSt), p.1 ≠ .budget →
        (cs.foldl (tryCand ops (search ops none n) todo st acc) p).1 ≠ .budget := by
      intro cs
      induction cs with
      | nil => intro p hp; exact hp
      | cons i cs ih =>
        intro p hp
        exact ih _ (tryCand_no_budget (search_no_budget ops n) todo st acc p i hp)
    exact this _ _ (by simp)

/-- **Completeness, unbounded**: without a node budget a linearizable, well-stamped history is
accepted. -/
theorem decideHist_complete_unbounded (h : List HOp) (hws : wellStamped h.toArray = true)
    (hlin : Linearizable h.toArray) : decideHist h none = .accept := by
  rcases decideHist_complete h none hws hlin with hacc | hb
  · exact hacc
  · exfalso
    unfold decideHist at hb
    simp only [hws, Bool.not_true, Bool.false_eq_true, if_false] at hb
    have hnb := search_no_budget h.toArray h.toArray.size (List.range h.toArray.size) seqInit [] { memo := {}, nodes := 0 }
    split at hb
    · split at hb <;> simp at hb
    · simp at hb
    · rename_i hres; exact hnb hres

end Hive.KV.Lin
