import Hive.Model.WorkerPoolSync
/-!
# C16 — facts about the sequential models of `syncutils.Counter` and `syncutils.Stack`
-/
namespace Hive.WPS

theorem change_value (c : Ctr) (v : Int) : (c.change v).value = v := by
  unfold Ctr.change
  split
  · rename_i h; exact h.symm
  · rfl

/-- `Update` returns the value it has stored (what `decreasePendingTasks` compares with zero). -/
theorem update_returns_value (c : Ctr) (d : Int) : (c.update d).2 = (c.update d).1.value ∧ (c.update d).2 = c.value + d := by
  simp [Ctr.update, change_value]

def updAll (c : Ctr) : List Int → Ctr
  | [] => c
  | d :: ds => updAll (c.update d).1 ds

theorem updAll_value (c : Ctr) (ds : List Int) : (updAll c ds).value = c.value + ds.sum := by
  induction ds generalizing c with
  | nil => simp [updAll]
  | cons d ds ih =>
    simp only [updAll, List.sum_cons]
    have h : (c.update d).1.value = c.value + d := by simp [Ctr.update, change_value]
    rw [ih, h]
    omega

/-- No callback runs when the value does not change; otherwise exactly one per active subscriber, in subscription
order, all with the same `(old, new)`. -/
theorem change_log (c : Ctr) (v : Int) :
    (c.change v).log = if v = c.value then c.log else c.log ++ c.subs.map (fun i => (i, c.value, v)) := by
  unfold Ctr.change
  split <;> rfl

theorem foldl_push (q : Stk) (xs : List Int) : xs.foldl Stk.push q = q ++ xs := by
  induction xs generalizing q with
  | nil => simp
  | cons x xs ih => simp [List.foldl, ih, Stk.push]

theorem popN_all (l : Stk) : Stk.popN l.length l = ([], l) := by
  induction l with
  | nil => rfl
  | cons x xs ih => simp [Stk.popN, Stk.pop, ih]

/-- The queue is FIFO: whatever is in it (`q`), after pushing `xs` the elements come out as `q ++ xs`. -/
theorem popN_push (q : Stk) (xs : List Int) :
    Stk.popN (q.length + xs.length) (xs.foldl Stk.push q) = ([], q ++ xs) := by
  rw [foldl_push]
  have := popN_all (q ++ xs)
  simpa using this

end Hive.WPS
