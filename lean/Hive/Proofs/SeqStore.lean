import Hive.Model.SeqStore
import Hive.Proofs.Seq
/-!
# A Sequence over a faithful store layer refines the sequential machine (C07)
-/
namespace Hive.Seq.Layered
open Hive.Seq

variable {σ : Type}

theorem abs_labandon (L : Layer σ) (s : LSt σ) : abs L (labandon s) = abandon (abs L s) := by
  unfold labandon abandon abs
  cases h : s.obj <;> simp [h]

theorem applyEnv_disk {L : Layer σ} (hF : Faithful L) (b : Option Env) (l : σ) :
    L.disk (applyEnv L b l) = L.disk l := by
  cases b with
  | none => rfl
  | some e => exact hF.env_disk e l

/-- What a successful `Get` tells: the value is the database's, the layer state still holds the same. -/
theorem get_facts {L : Layer σ} (hF : Faithful L) {l l1 : σ} {v : Option Nat} (hg : L.get l = (l1, some v)) :
    v = L.disk l ∧ L.disk l1 = L.disk l := by
  have h1 := hF.get_sound l v (by rw [hg])
  have h2 := hF.get_disk l
  rw [hg] at h2
  exact ⟨h1, h2⟩

theorem get_fail_disk {L : Layer σ} (hF : Faithful L) {l l1 : σ} (hg : L.get l = (l1, none)) :
    L.disk l1 = L.disk l := by
  have h2 := hF.get_disk l
  rw [hg] at h2
  exact h2

theorem set_ok_disk {L : Layer σ} (hF : Faithful L) {l l2 : σ} {v : Nat} (hs : L.set l v = (l2, true)) :
    L.disk l2 = some v := by
  have := hF.set_ack l v (by rw [hs])
  rw [hs] at this
  exact this

theorem set_fail_disk {L : Layer σ} (hF : Faithful L) {l l2 : σ} {v : Nat} (hs : L.set l v = (l2, false)) :
    L.disk l2 = L.disk l := by
  have := hF.set_nak l v (by rw [hs])
  rw [hs] at this
  exact this

/-- The statement of the one-step simulation. -/
def SimStep (L : Layer σ) (s : LSt σ) (op : LOp) : Prop :=
  match seqOp L s op with
  | some sop => step (abs L s) sop = (abs L (lstep L s op).1, (lstep L s op).2)
  | none => abs L (lstep L s op).1 = abs L s ∧ (lstep L s op).2 = .ok

theorem sim_new (L : Layer σ) (s : LSt σ) (i : Nat) : SimStep L s (.new i) := by
  simp only [SimStep, seqOp, lstep, step]
  have h := abs_labandon L s
  simp only [abs] at h ⊢
  rw [← h]

theorem sim_env (L : Layer σ) (hF : Faithful L) (s : LSt σ) (e : Env) : SimStep L s (.env e) := by
  simp only [SimStep, seqOp, lstep, abs, hF.env_disk, and_self]

theorem sim_next (L : Layer σ) (hF : Faithful L) (s : LSt σ) (b : Option Env) : SimStep L s (.next b) := by
  unfold SimStep
  cases hobj : s.obj with
  | none => simp [seqOp, lstep, step, abs, hobj]
  | some o =>
    cases hl : hasLease o with
    | true => simp [seqOp, lstep, lserve, step, abs, hobj, hl]
    | false =>
      cases hg : L.get s.lay with
      | mk l1 r =>
        cases r with
        | none =>
          have hd := get_fail_disk hF hg
          simp [seqOp, lstep, step, abs, hobj, hl, hg, hd]
        | some v =>
          obtain ⟨hv, hd⟩ := get_facts hF hg
          subst hv
          have hd' : L.disk (applyEnv L b l1) = L.disk s.lay := by rw [applyEnv_disk hF, hd]
          by_cases hz : lease ((L.disk s.lay).getD 0) o.interval = 0
          · simp [seqOp, lstep, step, abs, hobj, hl, hg, hz, mark, hd']
          · cases hs : L.set (applyEnv L b l1) ((L.disk s.lay).getD 0 + lease ((L.disk s.lay).getD 0) o.interval) with
            | mk l2 ok =>
              cases ok with
              | true =>
                have h2 := set_ok_disk hF hs
                simp [seqOp, lstep, step, abs, hobj, hl, hg, hz, mark, hs, h2, update]
              | false =>
                have h2 := set_fail_disk hF hs
                simp [seqOp, lstep, step, abs, hobj, hl, hg, hz, mark, hs, h2, hd']

theorem sim_release (L : Layer σ) (hF : Faithful L) (s : LSt σ) : SimStep L s .release := by
  unfold SimStep
  cases hobj : s.obj with
  | none => simp [seqOp, lstep, step, abs, hobj]
  | some o =>
    cases hl : hasLease o with
    | false => simp [seqOp, lstep, step, abs, hobj, hl]
    | true =>
      cases hs : L.set s.lay o.next with
      | mk l1 ok =>
        cases ok with
        | true =>
          have h2 := set_ok_disk hF hs
          simp [seqOp, lstep, step, abs, hobj, hl, hs, h2]
        | false =>
          have h2 := set_fail_disk hF hs
          simp [seqOp, lstep, step, abs, hobj, hl, hs, h2]

theorem sim_crash (L : Layer σ) (hF : Faithful L) (s : LSt σ) (pt : CrashAt) : SimStep L s (.crash pt) := by
  unfold SimStep
  cases hobj : s.obj with
  | none => simp [seqOp, lstep, step, abs, hobj]
  | some o =>
    cases pt with
    | idle =>
      simp [seqOp, lstep, step, abs, hobj, labandon, abandon]
    | nextRead =>
      cases hl : hasLease o with
      | true =>
        simp [seqOp, lstep, step, abs, hobj, hl, labandon, abandon]
      | false =>
        cases hg : L.get s.lay with
        | mk l1 r =>
          cases r with
          | none =>
            have hd := get_fail_disk hF hg
            simp [seqOp, lstep, step, abs, hobj, hl, hg, hd]
          | some v =>
            obtain ⟨_, hd⟩ := get_facts hF hg
            simp [seqOp, lstep, step, abs, hobj, hl, hg, hd, labandon, abandon]
    | nextWrite =>
      cases hl : hasLease o with
      | true =>
        simp [seqOp, lstep, step, abs, hobj, hl, labandon, abandon]
      | false =>
        cases hg : L.get s.lay with
        | mk l1 r =>
          cases r with
          | none =>
            have hd := get_fail_disk hF hg
            simp [seqOp, lstep, step, abs, hobj, hl, hg, hd]
          | some v =>
            obtain ⟨hv, hd⟩ := get_facts hF hg
            subst hv
            by_cases hz : lease ((L.disk s.lay).getD 0) o.interval = 0
            · simp [seqOp, lstep, step, abs, hobj, hl, hg, hz, mark, hd]
            · cases hs : L.set l1 ((L.disk s.lay).getD 0 + lease ((L.disk s.lay).getD 0) o.interval) with
              | mk l2 ok =>
                cases ok with
                | true =>
                  have h2 := set_ok_disk hF hs
                  simp [seqOp, lstep, step, abs, hobj, hl, hg, hz, mark, hs, h2, labandon, abandon]
                | false =>
                  have h2 := set_fail_disk hF hs
                  simp [seqOp, lstep, step, abs, hobj, hl, hg, hz, mark, hs, h2, hd]
    | relWrite =>
      cases hl : hasLease o with
      | false =>
        simp [seqOp, lstep, step, abs, hobj, hl, labandon, abandon]
      | true =>
        cases hs : L.set s.lay o.next with
        | mk l1 ok =>
          cases ok with
          | true =>
            have h2 := set_ok_disk hF hs
            simp [seqOp, lstep, step, abs, hobj, hl, hs, h2, labandon, abandon]
          | false =>
            have h2 := set_fail_disk hF hs
            simp [seqOp, lstep, step, abs, hobj, hl, hs, h2]

theorem sim_step (L : Layer σ) (hF : Faithful L) (s : LSt σ) (op : LOp) : SimStep L s op := by
  cases op with
  | new i => exact sim_new L s i
  | next b => exact sim_next L hF s b
  | release => exact sim_release L hF s
  | crash pt => exact sim_crash L hF s pt
  | env e => exact sim_env L hF s e

theorem seqOp_wf (L : Layer σ) (s : LSt σ) (op : LOp) (hw : op.wf) : ∀ sop, seqOp L s op = some sop → sop.wf := by
  intro sop h
  cases op with
  | new i => simp [seqOp] at h; subst h; exact hw
  | _ =>
    cases sop with
    | new j =>
      -- no other layered operation maps to a restart
      exfalso
      simp only [seqOp] at h
      repeat' split at h
      all_goals simp at h
    | _ => trivial

/-- The sequential history a layered history amounts to. -/
def seqOps (L : Layer σ) : LSt σ → List LOp → List Op
  | _, [] => []
  | s, op :: ops =>
    match seqOp L s op with
    | some sop => sop :: seqOps L (lstep L s op).1 ops
    | none => seqOps L (lstep L s op).1 ops

/-- The answers of the calls (environment events answer nothing). -/
def callOuts (L : Layer σ) : LSt σ → List LOp → List Out
  | _, [] => []
  | s, op :: ops =>
    match seqOp L s op with
    | some _ => (lstep L s op).2 :: callOuts L (lstep L s op).1 ops
    | none => callOuts L (lstep L s op).1 ops

theorem seqOps_wf (L : Layer σ) (s : LSt σ) (ops : List LOp) (hw : ∀ op ∈ ops, op.wf) :
    ∀ sop ∈ seqOps L s ops, sop.wf := by
  induction ops generalizing s with
  | nil => intro sop h; simp [seqOps] at h
  | cons op ops ih =>
    intro sop h
    have hw' : ∀ op' ∈ ops, op'.wf := fun op' h' => hw op' (List.mem_cons_of_mem _ h')
    simp only [seqOps] at h
    cases hso : seqOp L s op with
    | none => rw [hso] at h; exact ih _ hw' sop h
    | some sop' =>
      rw [hso] at h
      rcases List.mem_cons.mp h with h | h
      · subst h; exact seqOp_wf L s op (hw op List.mem_cons_self) _ hso
      · exact ih _ hw' sop h

/-- **Refinement over whole histories.** -/
theorem sim_run (L : Layer σ) (hF : Faithful L) (s : LSt σ) (ops : List LOp) :
    run (abs L s) (seqOps L s ops) = (abs L (lrun L s ops).1, callOuts L s ops) := by
  induction ops generalizing s with
  | nil => simp [seqOps, callOuts, lrun, run]
  | cons op ops ih =>
    have h := sim_step L hF s op
    unfold SimStep at h
    simp only [seqOps, callOuts, lrun]
    cases hso : seqOp L s op with
    | none =>
      rw [hso] at h
      simp only
      rw [← h.1, ih]
    | some sop =>
      rw [hso] at h
      simp only [run, h, ih]

end Hive.Seq.Layered
