import Hive.Spec.OMap
import Hive.Proofs.OMap
/-!
# History-level order invariant, `SetArithmetic` threshold invariant, codec round trip (C11)
-/
namespace Hive.OMap
open PMap (MOp)

/-! ## insertion order over every history -/

/-- birth time as a number (0 for keys that are not live) -/
def birthD (h : List MOp) (k : Nat) : Nat := (birthRev h k).getD 0

structure OrdInv (h : List MOp) : Prop where
  nodup : (AMap.keys (AMap.runRev h)).Nodup
  live : ∀ k, k ∈ AMap.keys (AMap.runRev h) ↔ (birthRev h k).isSome = true
  bound : ∀ k t, birthRev h k = some t → t < h.length
  sorted : (AMap.keys (AMap.runRev h)).Pairwise (fun a b => birthD h a < birthD h b)

theorem pairwise_congr_mem {l : List Nat} {f g : Nat → Nat} (h : ∀ x ∈ l, f x = g x)
    (hp : l.Pairwise (fun a b => f a < f b)) : l.Pairwise (fun a b => g a < g b) := by
  induction l with
  | nil => exact List.Pairwise.nil
  | cons x r ih =>
    rw [List.pairwise_cons] at hp ⊢
    refine ⟨?_, ih (fun y hy => h y (List.mem_cons_of_mem _ hy)) hp.2⟩
    intro b hb
    rw [← h x (by simp), ← h b (List.mem_cons_of_mem _ hb)]
    exact hp.1 b hb

theorem birthRev_set_other (older : List MOp) {k x : Nat} (v : Nat) (h : x ≠ k) :
    birthRev (.set k v :: older) x = birthRev older x := by
  have : ¬ k = x := fun e => h e.symm
  simp [birthRev, this]

theorem birthRev_del_other (older : List MOp) {k x : Nat} (h : x ≠ k) :
    birthRev (.del k :: older) x = birthRev older x := by
  have : ¬ k = x := fun e => h e.symm
  simp [birthRev, this]

theorem ordInv (h : List MOp) : OrdInv h := by
  induction h with
  | nil => exact ⟨by simp [AMap.runRev, AMap.keys], by simp [AMap.runRev, AMap.keys, birthRev],
      by simp [birthRev], by simp [AMap.runRev, AMap.keys]⟩
  | cons op older ih =>
    cases op with
    | set k v =>
      have hrun : AMap.runRev (.set k v :: older) = (AMap.set (AMap.runRev older) k v).1 := rfl
      refine ⟨?_, ?_, ?_, ?_⟩
      · rw [hrun]; exact AMap.nodup_set ih.nodup k v
      · intro x
        rw [hrun, AMap.mem_keys_set]
        by_cases hx : x = k
        · subst hx
          simp only [or_true, true_iff, birthRev, if_true]
          cases birthRev older x <;> rfl
        · rw [birthRev_set_other older v hx, ← ih.live x]; simp [hx]
      · intro x t ht
        by_cases hx : x = k
        · subst hx
          simp only [birthRev, if_true] at ht
          cases hb : birthRev older x with
          | none => simp [hb] at ht; simp [← ht]
          | some t' =>
            simp [hb] at ht
            have := ih.bound x t' hb
            simp only [List.length_cons]; omega
        · rw [birthRev_set_other older v hx] at ht
          have := ih.bound x t ht
          simp only [List.length_cons]; omega
      · rw [hrun, AMap.keys_set]
        by_cases hk : k ∈ AMap.keys (AMap.runRev older)
        · simp only [hk, if_true]
          refine pairwise_congr_mem ?_ ih.sorted
          intro x _
          by_cases hx : x = k
          · subst hx
            have := (ih.live x).1 hk
            simp only [birthD, birthRev, if_true]
            cases hb : birthRev older x with
            | none => simp [hb] at this
            | some t => rfl
          · simp only [birthD, birthRev_set_other older v hx]
        · simp only [hk, if_false]
          have hnone : birthRev older k = none := by
            cases hb : birthRev older k with
            | none => rfl
            | some t => exact absurd ((ih.live k).2 (by simp [hb])) hk
          rw [List.pairwise_append]
          refine ⟨?_, by simp, ?_⟩
          · refine pairwise_congr_mem ?_ ih.sorted
            intro x hx
            have hxk : x ≠ k := fun e => hk (e ▸ hx)
            simp only [birthD, birthRev_set_other older v hxk]
          · intro a ha b hb
            simp at hb; subst hb
            have hab : a ≠ b := fun e => hk (e ▸ ha)
            have hsome := (ih.live a).1 ha
            cases hba : birthRev older a with
            | none => simp [hba] at hsome
            | some t =>
              have := ih.bound a t hba
              simp [birthD, birthRev_set_other older v hab, hba, birthRev, hnone]
              exact this
    | del k =>
      have hrun : AMap.runRev (.del k :: older) = (AMap.delete (AMap.runRev older) k).1 := rfl
      refine ⟨?_, ?_, ?_, ?_⟩
      · rw [hrun]; exact AMap.nodup_delete ih.nodup k
      · intro x
        rw [hrun, AMap.mem_keys_delete]
        by_cases hx : x = k
        · subst hx; simp [birthRev]
        · rw [birthRev_del_other older hx, ← ih.live x]; simp [hx]
      · intro x t ht
        by_cases hx : x = k
        · subst hx; simp [birthRev] at ht
        · rw [birthRev_del_other older hx] at ht
          have := ih.bound x t ht
          simp only [List.length_cons]; omega
      · rw [hrun, AMap.keys_delete]
        have hsub : ((AMap.keys (AMap.runRev older)).filter (· != k)).Pairwise
            (fun a b => birthD older a < birthD older b) := ih.sorted.sublist List.filter_sublist
        refine pairwise_congr_mem ?_ hsub
        intro x hx
        have hxk : x ≠ k := by simpa using (List.mem_filter.1 hx).2
        simp only [birthD, birthRev_del_other older hxk]
    | clear =>
      exact ⟨by simp [AMap.runRev, AMap.applyOp, AMap.keys], by simp [AMap.runRev, AMap.applyOp, AMap.keys, birthRev],
        by simp [birthRev], by simp [AMap.runRev, AMap.applyOp, AMap.keys]⟩

theorem run_eq_runRev (h : List MOp) : AMap.run h = AMap.runRev h.reverse := by
  have : ∀ (h : List MOp) (m : AMap), h.foldl AMap.applyOp m = h.reverse.foldr (fun op a => AMap.applyOp a op) m := by
    intro h m; rw [List.foldr_reverse]
  have h2 : ∀ l : List MOp, AMap.runRev l = l.foldr (fun op a => AMap.applyOp a op) [] := by
    intro l; induction l with
    | nil => rfl
    | cons op r ih => simp [AMap.runRev, ih]
  rw [AMap.run, this, h2]

/-- every reachable abstract map has distinct keys -/
theorem nodup_run (h : List MOp) : (AMap.keys (AMap.run h)).Nodup := by
  rw [run_eq_runRev]; exact (ordInv _).nodup

/-! ## SetArithmetic -/

/-- what the collected mutations must be, relative to the counters `c0` at the time `m` was fresh -/
structure ArInv (c0 : Counts) (thr : Int) (a : ArSt) : Prop where
  added : ∀ x, x ∈ elems a.added ↔ c0 x < thr ∧ thr ≤ a.counts x
  deleted : ∀ x, x ∈ elems a.deleted ↔ thr ≤ c0 x ∧ a.counts x < thr
  nodupA : (elems a.added).Nodup
  nodupD : (elems a.deleted).Nodup

theorem arInv_fresh (c : Counts) (thr : Int) : ArInv c thr { counts := c, added := [], deleted := [] } := by
  refine ⟨?_, ?_, by simp [elems_nil], by simp [elems_nil]⟩
  · intro x; simp only [elems_nil, List.not_mem_nil, false_iff]; omega
  · intro x; simp only [elems_nil, List.not_mem_nil, false_iff]; omega

theorem bump_self (c : Counts) (e : Nat) (d : Int) : c.bump e d e = c e + d := by simp [Counts.bump]
theorem bump_other (c : Counts) {e x : Nat} (d : Int) (h : x ≠ e) : c.bump e d x = c x := by simp [Counts.bump, h]

theorem arInv_inc {c0 : Counts} {thr : Int} {a : ArSt} (h : ArInv c0 thr a) (e : Nat) : ArInv c0 thr (a.inc thr e) := by
  unfold ArSt.inc collect
  simp only [if_true]
  by_cases hc : a.counts e + 1 = thr
  · simp only [hc, if_true, sDelete_snd]
    by_cases hd : e ∈ elems a.deleted
    · -- the element was pending as deleted: the two cancel
      simp only [(has_iff_mem _ _).2 hd, if_true]
      have hd' := (h.deleted e).1 hd
      refine ⟨?_, ?_, h.nodupA, nodup_sDelete h.nodupD e⟩
      · intro x
        dsimp only
        rw [h.added x]
        by_cases hx : x = e
        · subst hx; rw [bump_self]; constructor <;> intro ⟨h1, h2⟩ <;> omega
        · rw [bump_other _ _ hx]
      · intro x
        dsimp only
        rw [mem_sDelete, h.deleted x]
        by_cases hx : x = e
        · subst hx; rw [bump_self]; constructor
          · intro ⟨_, h2⟩; exact absurd rfl h2
          · intro ⟨_, h2⟩; omega
        · rw [bump_other _ _ hx]; simp [hx]
    · simp only [(has_false_iff _ _).2 hd, Bool.false_eq_true, if_false]
      have hnd : ¬ (thr ≤ c0 e ∧ a.counts e < thr) := fun hh => hd ((h.deleted e).2 hh)
      refine ⟨?_, ?_, nodup_sAdd h.nodupA e, h.nodupD⟩
      · intro x
        dsimp only
        rw [mem_sAdd, h.added x]
        by_cases hx : x = e
        · subst hx; rw [bump_self]; constructor
          · intro _; constructor <;> omega
          · intro _; exact Or.inr rfl
        · rw [bump_other _ _ hx]; simp [hx]
      · intro x
        dsimp only
        rw [h.deleted x]
        by_cases hx : x = e
        · subst hx; rw [bump_self]; constructor <;> intro ⟨h1, h2⟩ <;> omega
        · rw [bump_other _ _ hx]
  · simp only [hc, if_false]
    refine ⟨?_, ?_, h.nodupA, h.nodupD⟩
    · intro x
      dsimp only
      rw [h.added x]
      by_cases hx : x = e
      · subst hx; rw [bump_self]; constructor <;> intro ⟨h1, h2⟩ <;> constructor <;> omega
      · rw [bump_other _ _ hx]
    · intro x
      dsimp only
      rw [h.deleted x]
      by_cases hx : x = e
      · subst hx; rw [bump_self]; constructor <;> intro ⟨h1, h2⟩ <;> constructor <;> omega
      · rw [bump_other _ _ hx]

theorem arInv_dec {c0 : Counts} {thr : Int} {a : ArSt} (h : ArInv c0 thr a) (e : Nat) : ArInv c0 thr (a.dec thr e) := by
  unfold ArSt.dec collect
  simp only [Bool.false_eq_true, if_false]
  by_cases hc : a.counts e + -1 = thr - 1
  · simp only [hc, if_true, sDelete_snd]
    by_cases hd : e ∈ elems a.added
    · simp only [(has_iff_mem _ _).2 hd, if_true]
      have hd' := (h.added e).1 hd
      refine ⟨?_, ?_, nodup_sDelete h.nodupA e, h.nodupD⟩
      · intro x
        dsimp only
        rw [mem_sDelete, h.added x]
        by_cases hx : x = e
        · subst hx; rw [bump_self]; constructor
          · intro ⟨_, h2⟩; exact absurd rfl h2
          · intro ⟨_, h2⟩; omega
        · rw [bump_other _ _ hx]; simp [hx]
      · intro x
        dsimp only
        rw [h.deleted x]
        by_cases hx : x = e
        · subst hx; rw [bump_self]; constructor <;> intro ⟨h1, h2⟩ <;> omega
        · rw [bump_other _ _ hx]
    · simp only [(has_false_iff _ _).2 hd, Bool.false_eq_true, if_false]
      have hnd : ¬ (c0 e < thr ∧ thr ≤ a.counts e) := fun hh => hd ((h.added e).2 hh)
      refine ⟨?_, ?_, h.nodupA, nodup_sAdd h.nodupD e⟩
      · intro x
        dsimp only
        rw [h.added x]
        by_cases hx : x = e
        · subst hx; rw [bump_self]; constructor <;> intro ⟨h1, h2⟩ <;> omega
        · rw [bump_other _ _ hx]
      · intro x
        dsimp only
        rw [mem_sAdd, h.deleted x]
        by_cases hx : x = e
        · subst hx; rw [bump_self]; constructor
          · intro _; constructor <;> omega
          · intro _; exact Or.inr rfl
        · rw [bump_other _ _ hx]; simp [hx]
  · simp only [hc, if_false]
    refine ⟨?_, ?_, h.nodupA, h.nodupD⟩
    · intro x
      dsimp only
      rw [h.added x]
      by_cases hx : x = e
      · subst hx; rw [bump_self]; constructor <;> intro ⟨h1, h2⟩ <;> constructor <;> omega
      · rw [bump_other _ _ hx]
    · intro x
      dsimp only
      rw [h.deleted x]
      by_cases hx : x = e
      · subst hx; rw [bump_self]; constructor <;> intro ⟨h1, h2⟩ <;> constructor <;> omega
      · rw [bump_other _ _ hx]

theorem arInv_run {c0 : Counts} {thr : Int} (xs : List (Bool × Nat)) {a : ArSt} (h : ArInv c0 thr a) :
    ArInv c0 thr (a.run thr xs) := by
  induction xs generalizing a with
  | nil => exact h
  | cons x r ih =>
    simp only [ArSt.run, List.foldl_cons]
    apply ih
    unfold ArSt.stepC
    split
    · exact arInv_inc h _
    · exact arInv_dec h _

theorem counts_inc (a : ArSt) (thr : Int) (e : Nat) : (a.inc thr e).counts = a.counts.bump e 1 := by
  unfold ArSt.inc collect
  simp only [if_true]
  split <;> (try split) <;> rfl

theorem counts_dec (a : ArSt) (thr : Int) (e : Nat) : (a.dec thr e).counts = a.counts.bump e (-1) := by
  unfold ArSt.dec collect
  simp only [Bool.false_eq_true, if_false]
  split <;> (try split) <;> rfl

/-- the counters after a run of collector calls: +1 per added-collector call, -1 per subtracted-collector call -/
theorem counts_run (a : ArSt) (thr : Int) (xs : List (Bool × Nat)) (x : Nat) :
    (a.run thr xs).counts x = a.counts x + ((xs.filter (fun y => y.1 && y.2 == x)).length : Int)
      - ((xs.filter (fun y => !y.1 && y.2 == x)).length : Int) := by
  induction xs generalizing a with
  | nil => simp [ArSt.run]
  | cons y r ih =>
    obtain ⟨b, e⟩ := y
    have := ih (ArSt.stepC thr a (b, e))
    simp only [ArSt.run, List.foldl_cons] at this ⊢
    rw [this]
    cases b
    · simp only [ArSt.stepC, Bool.false_eq_true, if_false, counts_dec, Counts.bump]
      by_cases he : x = e
      · subst he; simp [List.filter_cons]; omega
      · have : ¬ e = x := fun h => he h.symm
        simp [List.filter_cons, he, this]
    · simp only [ArSt.stepC, if_true, counts_inc, Counts.bump]
      by_cases he : x = e
      · subst he; simp [List.filter_cons]; omega
      · have : ¬ e = x := fun h => he h.symm
        simp [List.filter_cons, he, this]

/-! ## codec -/

theorem le32_unle32 (n : Nat) (h : n < 4294967296) (rest : Bytes) : unle32 (le32 n ++ rest) = some (n, rest) := by
  simp only [le32, List.cons_append, List.nil_append, unle32, UInt8.toNat_ofNat']
  congr 1
  simp only [Prod.mk.injEq, and_true]
  omega

theorem length_le32 (n : Nat) : (le32 n).length = 4 := rfl

/-- on the domain `D` the element decoder inverts the encoder regardless of what follows (this makes
the encoding injective and prefix-free on `D`) -/
def Codec (D : Nat → Prop) (enc : Nat → Bytes) (dec : Dec) : Prop :=
  ∀ x, D x → ∀ rest, dec (enc x ++ rest) = some (x, (enc x).length)

theorem decodeLoop_encodeEntries {DK DV : Nat → Prop} {encK encV : Nat → Bytes} {decK decV : Dec}
    (hK : Codec DK encK decK) (hV : Codec DV encV decV) (l : List (Nat × Nat)) (hl : ∀ p ∈ l, DK p.1 ∧ DV p.2)
    (m0 : AMap) (used : Nat) (seen : List Nat) (hn : (AMap.keys l).Nodup) (hs : ∀ p ∈ l, p.1 ∉ seen) (rest : Bytes) :
    decodeLoop decK decV l.length (encodeEntries encK encV l ++ rest) m0 used seen
      = (l.foldl (fun c p => (AMap.set c p.1 p.2).1) m0, some (used + (encodeEntries encK encV l).length)) := by
  induction l generalizing m0 used seen with
  | nil => simp [decodeLoop, encodeEntries]
  | cons p r ih =>
    obtain ⟨k, v⟩ := p
    have hkv := hl (k, v) (by simp)
    have hks : seen.contains k = false := by
      have := hs (k, v) (by simp)
      simpa using this
    simp only [AMap.keys, List.map_cons, List.nodup_cons] at hn
    have h1 : decK (encodeEntries encK encV ((k, v) :: r) ++ rest)
        = some (k, (encK k).length) := by
      simp only [encodeEntries, List.append_assoc]; exact hK k hkv.1 _
    have h2 : (encodeEntries encK encV ((k, v) :: r) ++ rest).drop (encK k).length
        = encV v ++ (encodeEntries encK encV r ++ rest) := by
      simp only [encodeEntries, List.append_assoc]; simp
    have h3 : (encodeEntries encK encV ((k, v) :: r) ++ rest).drop ((encK k).length + (encV v).length)
        = encodeEntries encK encV r ++ rest := by
      simp only [encodeEntries, List.append_assoc]
      rw [← List.drop_drop]; simp
    have hs' : ∀ p ∈ r, p.1 ∉ k :: seen := by
      intro p hp hmem
      rcases List.mem_cons.1 hmem with e | e
      · exact hn.1 (List.mem_map.2 ⟨p, hp, e⟩)
      · exact hs p (List.mem_cons_of_mem _ hp) e
    simp only [List.length_cons, decodeLoop, h1, hks, Bool.false_eq_true, if_false, h2, hV v hkv.2 _, h3,
      ih (fun p hp => hl p (List.mem_cons_of_mem _ hp)) _ _ _ hn.2 hs', List.foldl_cons]
    simp only [encodeEntries, List.length_append]
    congr 2; omega

/-! ### canonicity: accepted bytes are the encoding of what they decode to -/

/-- the decoder accepts only the encoder's bytes: whatever it decodes, the consumed prefix is the
encoding of the decoded value -/
def Canon (enc : Nat → Bytes) (dec : Dec) : Prop :=
  ∀ b x n, dec b = some (x, n) → (enc x).length = n ∧ b = enc x ++ b.drop n

theorem unle32_le32 {b rest : Bytes} {c : Nat} (h : unle32 b = some (c, rest)) : b = le32 c ++ rest ∧ c < 4294967296 := by
  match b, h with
  | x0 :: x1 :: x2 :: x3 :: r, h =>
    simp only [unle32, Option.some.injEq, Prod.mk.injEq] at h
    obtain ⟨hc, hr⟩ := h
    subst hr
    have h0 := x0.toNat_lt; have h1 := x1.toNat_lt; have h2 := x2.toNat_lt; have h3 := x3.toNat_lt
    have e0 : c % 256 = x0.toNat := by omega
    have e1 : c / 256 % 256 = x1.toNat := by omega
    have e2 : c / 65536 % 256 = x2.toNat := by omega
    have e3 : c / 16777216 % 256 = x3.toNat := by omega
    refine ⟨?_, by omega⟩
    simp only [le32, e0, e1, e2, e3, UInt8.ofNat_toNat, List.cons_append, List.nil_append]

theorem decodeLoop_canonical {encK encV : Nat → Bytes} {decK decV : Dec} (hK : Canon encK decK) (hV : Canon encV decV)
    (n : Nat) (b : Bytes) (m0 : AMap) (used : Nat) (seen : List Nat) (m' : AMap) (used' : Nat)
    (h : decodeLoop decK decV n b m0 used seen = (m', some used')) :
    ∃ l : List (Nat × Nat), l.length = n ∧ used' = used + (encodeEntries encK encV l).length ∧
      b = encodeEntries encK encV l ++ b.drop (encodeEntries encK encV l).length ∧
      m' = l.foldl (fun c p => (AMap.set c p.1 p.2).1) m0 ∧ (AMap.keys l).Nodup ∧ ∀ p ∈ l, p.1 ∉ seen := by
  induction n generalizing b m0 used seen with
  | zero =>
    simp only [decodeLoop, Prod.mk.injEq, Option.some.injEq] at h
    exact ⟨[], rfl, by simp [encodeEntries, h.2], by simp [encodeEntries], by simp [h.1], by simp [AMap.keys], by simp⟩
  | succ n ih =>
    simp only [decodeLoop] at h
    cases hk : decK b with
    | none => simp [hk] at h
    | some kn =>
      obtain ⟨k, nk⟩ := kn
      simp only [hk] at h
      simp only [List.contains_iff_mem] at h
      by_cases hs : k ∈ seen
      · rw [if_pos hs] at h; simp at h
      · rw [if_neg hs] at h
        cases hv : decV (b.drop nk) with
        | none => simp [hv] at h
        | some vn =>
          obtain ⟨v, nv⟩ := vn
          simp only [hv] at h
          obtain ⟨l, hl, hu, hb, hm, hn, hd⟩ := ih _ _ _ _ h
          obtain ⟨hkl, hkb⟩ := hK b k nk hk
          obtain ⟨hvl, hvb⟩ := hV _ v nv hv
          have hknot : k ∉ seen := hs
          refine ⟨(k, v) :: l, by simp [hl], ?_, ?_, ?_, ?_, ?_⟩
          · simp only [encodeEntries, List.length_append]; omega
          · have e1 : b = encK k ++ (encV v ++ b.drop (nk + nv)) := by
              conv => lhs; rw [hkb]
              congr 1
              conv => lhs; rw [hvb]
              rw [List.drop_drop]
            have e2 : b.drop (nk + nv) = encodeEntries encK encV l ++ (b.drop (nk + nv)).drop (encodeEntries encK encV l).length := hb
            simp only [encodeEntries, List.length_append, List.append_assoc]
            conv => lhs; rw [e1, e2]
            congr 3
            rw [List.drop_drop]
            congr 1; omega
          · simp only [List.foldl_cons]; exact hm
          · simp only [AMap.keys, List.map_cons, List.nodup_cons]
            refine ⟨?_, hn⟩
            intro hmem
            obtain ⟨p, hp, hpk⟩ := List.mem_map.1 hmem
            exact hd p hp (by rw [hpk]; simp)
          · intro p hp
            rcases List.mem_cons.1 hp with e | e
            · subst e; exact hknot
            · intro hmem; exact hd p e (List.mem_cons_of_mem _ hmem)

end Hive.OMap
