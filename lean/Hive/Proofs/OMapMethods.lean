import Hive.Spec.OMapConc
import Hive.Gen.C11_Skel
import Hive.Gen.C11_Methods
/-!
# C11: the regenerated method sets of `set` / `readableSet` / `SerializableOrderedMap` / `OrderedMap`, read against the
# regenerated lock skeletons

`Hive/Gen/C11_Methods.lean` (harness/c11/methodset, go/ast) lists for every type the methods that a selector `x.M`
reaches through the embedding chain, with the type that DECLARES each of them.  `Hive/Gen/C11_Skel.lean`
(harness/tools/extract-sync) has the lock skeleton of every declaring method.  This file reads the two together:

* `modeOfSkel` — what a skeleton does with `applyMutex` (`R`: read-locked for the whole body, `W`: write-locked for the
  whole body, `none`: never mentioned, `bad`: anything else);
* `selfCalls` / `reentryFree` — the calls a method makes on its own receiver (`call s.X`, also inside callbacks), resolved
  through the method set of the receiver's static type; a method that holds `applyMutex` must only reach methods that
  never take it (what `DeleteAll` calling `s.Delete` violated);
* `modelOf` — which lock script(s) of `Hive/Model/OMapConc.lean` (`methodScript`) model each method of the method set.
-/
namespace Hive.OMap
open Hive.Gen.C11Skel Hive.Gen.C11Methods

inductive AMode
  | none | R | W | bad
deriving Repr, DecidableEq

def hasInfix (p : List Char) : List Char → Bool
  | [] => p.isEmpty
  | c :: r => p.isPrefixOf (c :: r) || hasInfix p r

/-- the token names the field `applyMutex` -/
def mentionsApply (tok : String) : Bool := hasInfix "applyMutex".toList tok.toList

/-- `tok = verb ++ " " ++ x ++ ".applyMutex"` for some receiver expression `x` without spaces -/
def isApplyTok (verb tok : String) : Bool :=
  let v := (verb ++ " ").toList
  v.isPrefixOf tok.toList && ".applyMutex".toList.isSuffixOf tok.toList && !(tok.toList.drop v.length).contains ' '

/-- What a lock skeleton does with `applyMutex`: taken as the very first action and released by the `defer` right behind
it (so it is held for the whole body, on every path), or never mentioned. -/
def modeOfSkel (sk : List String) : AMode :=
  match sk with
  | a :: b :: rest =>
    if isApplyTok "rlock" a && isApplyTok "defer runlock" b && !rest.any mentionsApply then .R
    else if isApplyTok "lock" a && isApplyTok "defer unlock" b && !rest.any mentionsApply then .W
    else if sk.any mentionsApply then .bad else .none
  | _ => if sk.any mentionsApply then .bad else .none

/-- the same reading of the method-set tool's own report (go/ast over the body of the declaring method) -/
def modeOfUse : List String → AMode
  | [] => .none
  | ["RLock", "defer RUnlock"] => .R
  | ["Lock", "defer Unlock"] => .W
  | _ => .bad

/-- the regenerated skeleton of every declaring method, keyed by (declaring type, method) -/
def skelTable : List ((String × String) × List String) := [
  (("set", "Add"), skel_set_Add), (("set", "AddAll"), skel_set_AddAll), (("set", "Delete"), skel_set_Delete),
  (("set", "DeleteAll"), skel_set_DeleteAll), (("set", "Apply"), skel_set_Apply), (("set", "Compute"), skel_set_Compute),
  (("set", "Replace"), skel_set_Replace), (("set", "apply"), skel_set_apply), (("set", "ReadOnly"), skel_set_ReadOnly),
  (("readableSet", "HasAll"), skel_readableSet_HasAll), (("readableSet", "ForEach"), skel_readableSet_ForEach),
  (("readableSet", "Range"), skel_readableSet_Range), (("readableSet", "Intersect"), skel_readableSet_Intersect),
  (("readableSet", "Filter"), skel_readableSet_Filter), (("readableSet", "Equals"), skel_readableSet_Equals),
  (("readableSet", "Any"), skel_readableSet_Any), (("readableSet", "Is"), skel_readableSet_Is),
  (("readableSet", "Iterator"), skel_readableSet_Iterator), (("readableSet", "Clone"), skel_readableSet_Clone),
  (("readableSet", "ToSlice"), skel_readableSet_ToSlice), (("readableSet", "String"), skel_readableSet_String),
  (("SerializableOrderedMap", "Encode"), skel_SerializableOrderedMap_Encode),
  (("SerializableOrderedMap", "Decode"), skel_SerializableOrderedMap_Decode),
  (("OrderedMap", "Set"), skel_OrderedMap_Set), (("OrderedMap", "Delete"), skel_OrderedMap_Delete),
  (("OrderedMap", "Get"), skel_OrderedMap_Get), (("OrderedMap", "Has"), skel_OrderedMap_Has),
  (("OrderedMap", "Clear"), skel_OrderedMap_Clear), (("OrderedMap", "ForEach"), skel_OrderedMap_ForEach),
  (("OrderedMap", "ForEachReverse"), skel_OrderedMap_ForEachReverse), (("OrderedMap", "Head"), skel_OrderedMap_Head),
  (("OrderedMap", "Tail"), skel_OrderedMap_Tail), (("OrderedMap", "Size"), skel_OrderedMap_Size),
  (("OrderedMap", "IsEmpty"), skel_OrderedMap_IsEmpty), (("OrderedMap", "Clone"), skel_OrderedMap_Clone)]

/-- (method, declaring type, what its skeleton does with `applyMutex`) for every method of a method set -/
def modeTable (ms : List (String × String × Nat)) : List (String × String × Option AMode) :=
  ms.map (fun m => (m.1, m.2.1, (skelTable.lookup (m.2.1, m.1)).map modeOfSkel))

/-! ## calls on the own receiver -/

/-- `tok = "call " ++ recv ++ "." ++ path` ↦ `path` (`"Set"`, `"OrderedMap.Delete"`, …) -/
def selfCallOf (recv tok : String) : Option String :=
  let p := ("call " ++ recv ++ ".").toList
  if p.isPrefixOf tok.toList then some (String.ofList (tok.toList.drop p.length)) else none

/-- the calls a skeleton makes on the receiver `recv` (callbacks included: they are part of the skeleton) -/
def selfCalls (recv : String) (sk : List String) : List String := sk.filterMap (selfCallOf recv)

/-- the method set of a type by its name (the embedded field is called like its type) -/
def methodsOf : String → List (String × String × Nat)
  | "set" => methods_set
  | "readableSet" => methods_readableSet
  | "SerializableOrderedMap" => methods_SerializableOrderedMap
  | "OrderedMap" => methods_OrderedMap
  | _ => []

def receiverOf (name : String) : String := (receiver_set.lookup name).getD "?"

/-- Resolution of a path called on a receiver of static type `set`: `"X"` through `methods_set`, `"OrderedMap.X"`
(the embedded field named explicitly) through `methods_OrderedMap`; the answer is the declaring type. -/
def resolveOnSet (path : String) : Option (String × String) :=
  let om := "OrderedMap.".toList
  if om.isPrefixOf path.toList then
    let n := String.ofList (path.toList.drop om.length)
    ((methodsOf "OrderedMap").lookup n).map (fun d => (d.1, n))
  else (methods_set.lookup path).map (fun d => (d.1, path))

/-- From a method declared on `set` (receiver type `*set`): every call on the own receiver resolves, and reaches —
transitively through further methods declared on `set` — only methods whose skeleton never mentions `applyMutex`.
Methods declared on the embedded types cannot name the field at all (`C11_methodset_applymutex_confined`), so the
recursion stops there. -/
def reentryFree : Nat → String → Bool
  | 0, _ => false
  | fuel + 1, name =>
    match skelTable.lookup ("set", name) with
    | none => false
    | some sk =>
      (selfCalls (receiverOf name) sk).all (fun path =>
        match resolveOnSet path with
        | none => false
        | some (decl, n) =>
          if decl == "set" then
            (skelTable.lookup ("set", n)).map modeOfSkel == some AMode.none && reentryFree fuel n
          else true)

/-! ## the leaf mutexes (`OrderedMap.mutex`, `ShrinkingMap.mutex`): nothing that locks is called while they are held -/

/-- The calls a skeleton makes on its own receiver **while it holds `recv.field`** (taken by `lock`/`rlock`, given back by
`unlock`/`runlock`; a deferred release keeps it until the end).  Callbacks are part of the skeleton. -/
def heldSelfCalls (recv field : String) : Bool → List String → List String
  | _, [] => []
  | held, t :: r =>
    let x := recv ++ "." ++ field
    if t == "lock " ++ x || t == "rlock " ++ x then heldSelfCalls recv field true r
    else if t == "unlock " ++ x || t == "runlock " ++ x then heldSelfCalls recv field false r
    else
      match (if held then selfCallOf recv t else none) with
      | some path => path :: heldSelfCalls recv field held r
      | none => heldSelfCalls recv field held r

/-- the token names `recv.field` in a lock call (plain or deferred) -/
def locksField (recv field tok : String) : Bool := (" " ++ recv ++ "." ++ field).toList.isSuffixOf tok.toList

/-- the skeletons of the `ShrinkingMap` methods the ordered map and `SetArithmetic` use, and of its unexported helpers -/
def shrinkSkelTable : List (String × List String) := [
  ("Set", skel_ShrinkingMap_Set), ("Get", skel_ShrinkingMap_Get), ("Has", skel_ShrinkingMap_Has),
  ("Compute", skel_ShrinkingMap_Compute), ("Delete", skel_ShrinkingMap_Delete), ("Clear", skel_ShrinkingMap_Clear),
  ("delete", skel_ShrinkingMap_delete), ("shouldShrink", skel_ShrinkingMap_shouldShrink), ("shrink", skel_ShrinkingMap_shrink)]

/-- a `ShrinkingMap` helper that may be called under `s.mutex`: its skeleton never touches the mutex, and neither does
anything it calls on the receiver (`call s.X`), transitively -/
def shrinkHelperLockFree : Nat → String → Bool
  | 0, _ => false
  | fuel + 1, name =>
    match shrinkSkelTable.lookup name with
    | none => false
    | some sk =>
      !sk.any (locksField "s" "mutex") && (selfCalls "s" sk).all (fun callee => shrinkHelperLockFree fuel callee)

/-! ## which lock scripts model each method

`Call` is the alphabet of `methodScript` (`Hive/Model/OMapConc.lean`); a goroutine is any list of calls
(`C11_deadlock_free_methods`).  The parameters (source sets, sizes, which deletions find their key) are arbitrary in
the theorems; the representatives below only fix the constructor. -/

def modelOf : String × String → Option (List Call)
  | ("set", "Add") => some [.add]
  | ("set", "Delete") => some [.delete true]
  | ("set", "AddAll") => some [.addAll 1 1]
  | ("set", "DeleteAll") => some [.deleteAll 1 [true]]
  | ("set", "Apply") => some [.apply 1 1 1 [true]]
  | ("set", "Compute") => some [.apply 1 1 1 [true]]               -- the factory reads the receiver under the write lock (`.apply` with the receiver as source)
  | ("set", "apply") => some []                                    -- only reachable inside Apply/Compute (part of `.apply`)
  | ("set", "Replace") => some [.replace 1 1 1]
  | ("set", "ReadOnly") => some []                                 -- returns a field, no synchronisation
  | ("readableSet", "HasAll") => some [.readerOf 1 1]
  | ("readableSet", "Equals") => some [.reader 1, .readerOf 1 1]
  | ("readableSet", "Intersect") => some [.readerOf 1 1]
  | ("readableSet", "Filter") => some [.reader 1]
  | ("readableSet", "ForEach") => some [.reader 1]
  | ("readableSet", "Range") => some [.reader 1]
  | ("readableSet", "Any") => some [.reader 1]
  | ("readableSet", "Is") => some [.reader 2]
  | ("readableSet", "Iterator") => some [.reader 1]
  | ("readableSet", "Clone") => some [.reader 1]                   -- AddAll on the new, still private set with this set as source
  | ("readableSet", "ToSlice") => some [.reader 1]
  | ("readableSet", "String") => some [.reader 1]
  | ("SerializableOrderedMap", "Encode") => some [.reader 2]       -- Size, then ForEach
  | ("SerializableOrderedMap", "Decode") => some [.mapSet]         -- one `Set` per decoded entry
  | ("OrderedMap", "Set") => some [.mapSet]
  | ("OrderedMap", "Delete") => some [.mapDelete true]
  | ("OrderedMap", "Clear") => some [.clear]
  | ("OrderedMap", "Clone") => some [.clone 1]
  | ("OrderedMap", "Get") => some [.reader 1]
  | ("OrderedMap", "Has") => some [.reader 1]
  | ("OrderedMap", "Head") => some [.reader 1]
  | ("OrderedMap", "Tail") => some [.reader 1]
  | ("OrderedMap", "Size") => some [.reader 1]
  | ("OrderedMap", "IsEmpty") => some [.reader 1]
  | ("OrderedMap", "ForEach") => some [.reader 1]
  | ("OrderedMap", "ForEachReverse") => some [.reader 1]
  | _ => none

/-- what the model says about a list of calls: `W` if one of them is atomic (all its writes under `applyMutex`
exclusively), `R` if one is a mutator under the shared lock, `none` otherwise -/
def modeOfCalls (cs : List Call) : AMode :=
  if cs.any Call.isAtomic then .W else if cs.any Call.isMutator then .R else .none

end Hive.OMap
