import Hive.Model.AdsId
/-!
# The identifier serializers (C09): a round-tripping pair is invisible, whatever its stored form

`istep_sim`: with a serializer pair that round-trips (`dec (enc r) = r` wherever `enc` succeeds — the stored form
is arbitrary: raw bytes, tagged, reversed, text …) every call of the instance with a root *cell* is the call of
the sequential model `step` (whose root cell holds the identifier itself), except that a `Commit` whose encoder
fails is a no-op answering "failed to set root".
-/
namespace Hive.Ads

variable {R B : Type}

/-- `bytesToIdentifier (identifierToBytes r) = r` wherever the encoder succeeds. -/
def RoundTrip (ic : IdCodec R B) : Prop := ∀ r b, ic.enc r = some b → ic.dec b = some r

def LawfulSame (same : R → R → Bool) : Prop := ∀ a b, same a b = true ↔ a = b

/-- The root cell holds the stored form of the digest under which the node store was flushed; no dangling import. -/
def IdInv (ic : IdCodec R B) (st : ISt R B) : Prop :=
  st.dangling = none ∧
  match st.cell, st.s.rootKey with
  | none, none => True
  | some b, some r => ic.enc r = some b
  | _, _ => False

theorem idInv_init (ic : IdCodec R B) : IdInv ic (ISt.init : ISt R B) := by
  simp [IdInv, ISt.init, init]

/-- What one call does, in terms of the sequential model. -/
def SimStep (c : Cfg R) (ic : IdCodec R B) (st : ISt R B) (op : Op) (res : ISt R B × IOut R) : Prop :=
  if op = .commit ∧ commitsOk c ic st op = false then res = (st, .errSetRoot)
  else res.1.s = (step c st.s op).1 ∧ res.2 = .out (step c st.s op).2

theorem istep_sim (c : Cfg R) (ic : IdCodec R B) (same : R → R → Bool) (hrt : RoundTrip ic) (hs : LawfulSame same)
    (st : ISt R B) (hi : IdInv ic st) (op : Op) :
    IdInv ic (istep c ic same st op).1 ∧ SimStep c ic st op (istep c ic same st op) := by
  obtain ⟨hd, hc⟩ := hi
  cases op with
  | commit =>
    cases he : ic.enc (c.rootOf st.s.trie.fn) with
    | none => simp [istep, istepG, hd, he, SimStep, commitsOk, IdInv, hc]
    | some b => simp [istep, istepG, hd, he, SimStep, commitsOk, IdInv, step]
  | reopen =>
    cases hcell : st.cell with
    | none =>
      cases hr : st.s.rootKey with
      | none => simp [istep, istepG, hcell, hr, SimStep, IdInv, step]
      | some r => simp [hcell, hr] at hc
    | some b =>
      cases hr : st.s.rootKey with
      | none => simp [hcell, hr] at hc
      | some r =>
        simp [hcell, hr] at hc
        have hdec := hrt r b hc
        have hsame : same r r = true := (hs r r).2 rfl
        simp [istep, istepG, hcell, hr, hdec, hsame, SimStep, IdInv, step, hc]
  | restored =>
    refine ⟨by simpa [istep, istepG, IdInv] using ⟨hd, hc⟩, ?_⟩
    cases hcell : st.cell <;> cases hr : st.s.rootKey <;> simp [hcell, hr] at hc <;>
      simp [istep, istepG, SimStep, step, hcell, hr]
  | size => exact ⟨by simpa [istep, istepG, IdInv] using ⟨hd, hc⟩, by simp [istep, istepG, SimStep, step]⟩
  | root =>
    refine ⟨?_, by simp [istep, istepG, hd, SimStep, step]⟩
    simpa [istep, istepG, hd, IdInv, step] using hc
  | set k v =>
    have hk : (step c st.s (.set k v)).1.rootKey = st.s.rootKey := by
      cases k <;> cases v <;> simp [step, addSize] <;> split <;> rfl
    refine ⟨?_, by simp [istep, istepG, hd, SimStep]⟩
    simp only [istep, istepG, hd, IdInv, hk]; exact ⟨trivial, hc⟩
  | get k =>
    have hk : (step c st.s (.get k)).1 = st.s := by
      cases k <;> simp [step]; split <;> try rfl
      split <;> rfl
    refine ⟨?_, by simp [istep, istepG, hd, SimStep]⟩
    simp only [istep, istepG, hd, IdInv, hk]; exact ⟨trivial, hc⟩
  | has k =>
    have hk : (step c st.s (.has k)).1 = st.s := by cases k <;> simp [step]
    refine ⟨?_, by simp [istep, istepG, hd, SimStep]⟩
    simp only [istep, istepG, hd, IdInv, hk]; exact ⟨trivial, hc⟩
  | del k =>
    have hk : (step c st.s (.del k)).1.rootKey = st.s.rootKey := by
      cases k <;> simp [step]
      split
      · split <;> simp [addSize]
      · rfl
    refine ⟨?_, by simp [istep, istepG, hd, SimStep]⟩
    simp only [istep, istepG, hd, IdInv, hk]; exact ⟨trivial, hc⟩
  | stream n =>
    have hk : (step c st.s (.stream n)).1 = st.s := by simp [step]
    refine ⟨?_, by simp [istep, istepG, hd, SimStep]⟩
    simp only [istep, istepG, hd, IdInv, hk]; exact ⟨trivial, hc⟩

/-- The state after a history, with the calls of `dropFailed` only, in the sequential model. -/
theorem irun_sim (c : Cfg R) (ic : IdCodec R B) (same : R → R → Bool) (hrt : RoundTrip ic) (hs : LawfulSame same)
    (ops : List Op) : ∀ (st : ISt R B), IdInv ic st →
      IdInv ic (irunG c ic same id st ops).1 ∧
      (irunG c ic same id st ops).1.s = final c st.s (dropFailed c ic same st ops) := by
  induction ops with
  | nil => intro st hi; exact ⟨hi, rfl⟩
  | cons op ops ih =>
    intro st hi
    obtain ⟨hi', hsim⟩ := istep_sim c ic same hrt hs st hi op
    have ih' := ih (istep c ic same st op).1 hi'
    simp only [irunG]
    refine ⟨ih'.1, ?_⟩
    have hrun : (irunG c ic same id (istepG c ic same id st op).1 ops).1.s
        = final c (istep c ic same st op).1.s (dropFailed c ic same (istep c ic same st op).1 ops) := ih'.2
    rw [hrun]
    unfold SimStep at hsim
    by_cases hf : op = .commit ∧ commitsOk c ic st op = false
    · rw [if_pos hf] at hsim
      obtain ⟨rfl, hno⟩ := hf
      simp [dropFailed, hno, hsim]
    · rw [if_neg hf] at hsim
      have hkeep : dropFailed c ic same st (op :: ops) = op :: dropFailed c ic same (istep c ic same st op).1 ops := by
        cases op <;> simp [dropFailed]
        cases h : commitsOk c ic st .commit
        · exact absurd ⟨rfl, h⟩ hf
        · rfl
      rw [hkeep, hsim.1]; rfl

/-- Per call: the root cell is present afterwards iff it was present before or this call is a `Commit` whose
`root.Set` succeeded — for **any** serializer pair (round-tripping or not), any `same`, any import digest. -/
theorem cell_step (c : Cfg R) (ic : IdCodec R B) (same : R → R → Bool) (dg : R → R) (st : ISt R B) (op : Op) :
    (istepG c ic same dg st op).1.cell.isSome = (st.cell.isSome || commitsOk c ic st op) := by
  cases op <;> simp [istepG, commitsOk]
  all_goals (try (cases hd : st.dangling <;> simp))
  · cases he : ic.enc (c.rootOf st.s.trie.fn) <;> simp
  · cases hcell : st.cell.bind ic.dec <;> simp
    · cases hr : st.s.rootKey <;> simp
      split <;> simp

theorem cell_run (c : Cfg R) (ic : IdCodec R B) (same : R → R → Bool) (dg : R → R) (ops : List Op) :
    ∀ st : ISt R B, (irunG c ic same dg st ops).1.cell.isSome = (st.cell.isSome || anyCommitOk c ic same dg st ops) := by
  induction ops with
  | nil => intro st; simp [irunG, anyCommitOk]
  | cons op ops ih =>
    intro st
    simp only [irunG, anyCommitOk]
    rw [ih, cell_step, Bool.or_assoc]

end Hive.Ads
