import Hive.Proofs.DListRefine2
/-! Neighbour reads (`Next`/`Prev`/`Front`/`Back`) and the whole-list pushes, self-push included. -/
namespace Hive.DList

/-! ### reading neighbours -/

theorem nextOf_at {s : St} (w : WF s) {o : Bool} {A B : List Nat} {t : Nat} (h : s.seq o = A ++ t :: B) :
    nextOf s t = B.head?.getD 0 := by
  have ht : t ∈ s.seq o := by rw [h]; simp
  have hr := w.ring o
  rw [h] at hr
  unfold nextOf
  rw [w.own o t ht]
  simp only
  rw [(ring_at hr).1]
  cases B with
  | nil => simp
  | cons b T =>
    have hb : b ∈ s.seq o := by rw [h]; simp
    have : b ≠ root o := by have := (w.ids o b hb).1; have := root_lt o; omega
    simp [this]

theorem prevOf_at {s : St} (w : WF s) {o : Bool} {A B : List Nat} {t : Nat} (h : s.seq o = A ++ t :: B) :
    prevOf s t = A.getLast?.getD 0 := by
  have ht : t ∈ s.seq o := by rw [h]; simp
  have hr := w.ring o
  rw [h] at hr
  unfold prevOf
  rw [w.own o t ht]
  simp only
  rw [(ring_at hr).2]
  cases hl : A.getLast? with
  | none => simp
  | some b =>
    have hb : b ∈ s.seq o := by rw [h]; exact List.mem_append_left _ (List.mem_of_getLast? hl)
    have : b ≠ root o := by have := (w.ids o b hb).1; have := root_lt o; omega
    simp [this]

theorem front_eq {s : St} (w : WF s) (o : Bool) : front s o = (s.seq o).head?.getD 0 := by
  unfold front
  rw [w.len o, (ring_root (w.ring o)).1]
  cases s.seq o with
  | nil => simp
  | cons a T => rw [if_neg (by simp only [List.length_cons]; omega)]; simp

theorem back_eq {s : St} (w : WF s) (o : Bool) : back s o = (s.seq o).getLast?.getD 0 := by
  unfold back
  rw [w.len o, (ring_root (w.ring o)).2]
  cases h : s.seq o with
  | nil => simp
  | cons b T =>
    have : (b :: T).getLast? ≠ none := by simp
    cases hl : (b :: T).getLast? with
    | none => exact absurd hl this
    | some c => rw [if_neg (by simp only [List.length_cons]; omega)]; simp

/-! ### insertValue: projections -/

theorem insertValue_val (s : St) (l : Bool) (v a x : Nat) :
    ((insertValue s l v a).1.heap x).val = if x = s.fresh then v else (s.heap x).val := by
  simp only [insertValue, insert, alloc, setOwner_val, link_val]
  split <;> rfl

theorem insertValue_seq (s : St) (l : Bool) (v a : Nat) (k : Bool) :
    (insertValue s l v a).1.seq k = if k = l then (insAfter a s.fresh (root l :: s.seq l)).tail else s.seq k := by
  simp [insertValue, insert, alloc, upd]

theorem map_val_insertValue {s : St} (w : WF s) (l : Bool) (v a : Nat) {o : Bool} {xs : List Nat}
    (h : ∀ x ∈ xs, x ∈ s.seq o) :
    (xs.map fun x => ((insertValue s l v a).1.heap x).val) = xs.map fun x => (s.heap x).val := by
  apply List.map_congr_left
  intro x hx
  rw [insertValue_val, if_neg]
  have := (w.ids o x (h x hx)).2
  omega

/-! ### PushBackList -/

theorem pbl_loop (l o : Bool) : ∀ (todo pre post : List Nat) (s : St), WF s → s.seq o = pre ++ todo ++ post →
    WF (pblLoop l todo.length (todo.head?.getD 0) s) ∧
    abs (pblLoop l todo.length (todo.head?.getD 0) s)
      = (todo.map fun x => (s.heap x).val).foldl (fun t v => (push t l v (fun e xs => xs ++ [e])).1) (abs s) := by
  intro todo
  induction todo with
  | nil => intro pre post s w _; exact ⟨w, rfl⟩
  | cons t todo' ih =>
    intro pre post s w hseq
    simp only [List.length_cons, List.head?_cons, Option.getD_some, pblLoop, List.map_cons, List.foldl_cons]
    -- one iteration
    have hback : (insAfter (s.heap (root l)).prev s.fresh (root l :: s.seq l)).tail = s.seq l ++ [s.fresh] := by
      rw [(ring_root (w.ring l)).2]; exact insAfter_last _ (w.nodupR l)
    obtain ⟨w0, _, habs1⟩ := insertValue_refines w (s.heap t).val (w.prev_mem (l := l) List.mem_cons_self)
      (fun e xs => xs ++ [e]) hback
    have w1 : WF (insertValue s l (s.heap t).val (s.heap (root l)).prev).1 := w0
    have habs1' : abs (insertValue s l (s.heap t).val (s.heap (root l)).prev).1
        = (push (abs s) l (s.heap t).val (fun e xs => xs ++ [e])).1 := habs1
    generalize hs1 : (insertValue s l (s.heap t).val (s.heap (root l)).prev).1 = s1 at w1 habs1'
    have hseq1 : s1.seq o = (pre ++ [t]) ++ todo' ++ (if o = l then post ++ [s.fresh] else post) := by
      rw [← hs1, insertValue_seq, hback]
      by_cases hol : o = l
      · subst hol; simp [hseq]
      · simp [hol, hseq]
    have hnext : pblLoop l todo'.length (nextOf s1 t) s1 = pblLoop l todo'.length (todo'.head?.getD 0) s1 := by
      cases todo' with
      | nil => rfl
      | cons t2 r =>
        have : s1.seq o = pre ++ t :: (t2 :: r ++ (if o = l then post ++ [s.fresh] else post)) := by
          rw [hseq1]; simp
        rw [nextOf_at w1 this]; simp
    rw [hnext]
    obtain ⟨w2, habs2⟩ := ih (pre ++ [t]) (if o = l then post ++ [s.fresh] else post) s1 w1 hseq1
    refine ⟨w2, ?_⟩
    rw [habs2, habs1', ← hs1]
    rw [map_val_insertValue w l _ _ (o := o) (xs := todo')]
    intro x hx
    rw [hseq]; simp [hx]

theorem pushBackList_ok {s : St} (w : WF s) (l o : Bool) : StepOk s (.pushBackList l o) := by
  unfold StepOk
  simp only [step, sstep, lazyInit_eq w]
  have := pbl_loop l o (s.seq o) [] [] s w (by simp)
  have hlen : (s.len o).toNat = (s.seq o).length := by rw [w.len o]; exact Int.toNat_natCast _
  rw [← hlen, ← front_eq w o] at this
  exact ⟨this.1, by first | trivial | rfl, this.2⟩

/-! ### PushFrontList -/

theorem pfl_loop (l o : Bool) : ∀ (rtodo pre post : List Nat) (s : St), WF s →
    s.seq o = pre ++ rtodo.reverse ++ post →
    WF (pflLoop l rtodo.length (rtodo.head?.getD 0) s) ∧
    abs (pflLoop l rtodo.length (rtodo.head?.getD 0) s)
      = (rtodo.map fun x => (s.heap x).val).foldl (fun t v => (push t l v (fun e xs => e :: xs)).1) (abs s) := by
  intro rtodo
  induction rtodo with
  | nil => intro pre post s w _; exact ⟨w, rfl⟩
  | cons t todo' ih =>
    intro pre post s w hseq
    simp only [List.length_cons, List.head?_cons, Option.getD_some, pflLoop, List.map_cons, List.foldl_cons]
    have hfront : (insAfter (root l) s.fresh (root l :: s.seq l)).tail = s.fresh :: s.seq l :=
      insAfter_front _ _ _
    obtain ⟨w0, _, habs1⟩ := insertValue_refines w (s.heap t).val (l := l) List.mem_cons_self
      (fun e xs => e :: xs) hfront
    have w1 : WF (insertValue s l (s.heap t).val (root l)).1 := w0
    have habs1' : abs (insertValue s l (s.heap t).val (root l)).1
        = (push (abs s) l (s.heap t).val (fun e xs => e :: xs)).1 := habs1
    generalize hs1 : (insertValue s l (s.heap t).val (root l)).1 = s1 at w1 habs1'
    have hseq1 : s1.seq o = (if o = l then s.fresh :: pre else pre) ++ todo'.reverse ++ (t :: post) := by
      rw [← hs1, insertValue_seq, hfront]
      by_cases hol : o = l
      · subst hol; simp [hseq]
      · simp [hol, hseq]
    have hnext : pflLoop l todo'.length (prevOf s1 t) s1 = pflLoop l todo'.length (todo'.head?.getD 0) s1 := by
      cases todo' with
      | nil => rfl
      | cons t2 r =>
        have : s1.seq o = ((if o = l then s.fresh :: pre else pre) ++ r.reverse ++ [t2]) ++ t :: post := by
          rw [hseq1]; simp
        rw [prevOf_at w1 this]; simp
    rw [hnext]
    obtain ⟨w2, habs2⟩ := ih (if o = l then s.fresh :: pre else pre) (t :: post) s1 w1 hseq1
    refine ⟨w2, ?_⟩
    rw [habs2, habs1', ← hs1]
    rw [map_val_insertValue w l _ _ (o := o) (xs := todo')]
    intro x hx
    rw [hseq]; simp [hx]

theorem pushFrontList_ok {s : St} (w : WF s) (l o : Bool) : StepOk s (.pushFrontList l o) := by
  unfold StepOk
  simp only [step, sstep, lazyInit_eq w]
  have := pfl_loop l o (s.seq o).reverse [] [] s w (by simp)
  have hlen : (s.len o).toNat = (s.seq o).length := by rw [w.len o]; exact Int.toNat_natCast _
  rw [List.length_reverse, List.head?_reverse, ← hlen, ← back_eq w o, List.map_reverse] at this
  exact ⟨this.1, by first | trivial | rfl, this.2⟩

/-! ### every operation -/

theorem step_ok {s : St} (w : WF s) (op : Op) (hok : OpOk s op) : StepOk s op := by
  cases op with
  | pushFront l v => exact pushFront_ok w l v
  | pushBack l v => exact pushBack_ok w l v
  | remove l e => exact remove_ok w l e (hok e (by simp [Op.args]))
  | insertBefore l v m => exact insertBefore_ok w l v m (hok m (by simp [Op.args]))
  | insertAfter l v m => exact insertAfter_ok w l v m (hok m (by simp [Op.args]))
  | moveToFront l e => exact moveToFront_ok w l e (hok e (by simp [Op.args]))
  | moveToBack l e => exact moveToBack_ok w l e (hok e (by simp [Op.args]))
  | moveBefore l e m => exact moveBefore_ok w l e m (hok e (by simp [Op.args])) (hok m (by simp [Op.args]))
  | moveAfter l e m => exact moveAfter_ok w l e m (hok e (by simp [Op.args])) (hok m (by simp [Op.args]))
  | pushBackList l o => exact pushBackList_ok w l o
  | pushFrontList l o => exact pushFrontList_ok w l o
  | init l => exact init_ok w l

end Hive.DList
