import Hive.Proofs.BatchWriterLife
/-!
# C08 proofs, part 4: what Stop has to wait for, and the monitor's verdicts

`NInv s`: `need ≤ sch` (every Enqueue that returned before Stop was invoked is covered by a scheduling),
the scheduled flag alternates with resets, `fin`: once the writer has left its loop every scheduling has been written, committed and done; `errs`: no
check of the trace predicate ever fails on a model trace; `snap_need`: what a Stop call has to wait for
(`snap t`, the obligations at its invocation) is below `need`.
-/
namespace Hive.BatchWriter
open Hive.Conc Hive.Spec.BatchWriter

structure NInv (s : St) : Prop where
  need0 : s.once < 3 → ∀ o, s.mon.need o = 0
  need_sch : ∀ o, s.mon.need o ≤ s.mon.sch o
  sch_rst : ∀ o, s.mon.sch o = s.rst o + (if s.flag o = true then 1 else 0)
  fin : (s.wpc = .wgDone ∨ s.wpc = .exited) → ∀ o, s.mon.dn o = s.mon.sch o
  errs : s.mon.errs = []
  snap_need : ∀ t o, (s.mon.snap t) o ≤ s.mon.need o

set_option hygiene false in
macro "heavyN" : tactic => `(tactic|
  ((try intro o) <;> (try intro o') <;> (try have n6 := h6 o o') <;> (try have n2' := h2 o') <;> (try have n2 := h2 o) <;> (try have n3 := h3 o) <;> (try have sn := hsn o) <;>
   (try have w1 := (hw o).dn_com) <;> (try have w2 := (hw o).com_wr) <;> (try have w3 := (hw o).wr_rst) <;>
   (try have w4 := (hw o).rst_rcv) <;> (try have w5 := (hw o).rcv_snt) <;>
   (try simp [emit, Mon.step, TInv, holdW, holdR, atTop, inWin, bodyPre, upd_apply, Tab.get_set, *] at *) <;>
      (try split) <;> (try simp_all [Tab.get_set]) <;> (try split) <;> (try subst_vars) <;> (try omega)))

theorem fin_of_exit {s : St} (hw : ∀ o, WO s o) (hs : WS s)
    (hex : s.wpc = .loopCnt → s.count = 0 → ∀ o, s.mon.sch o = s.rcv o)
    (h1 : s.wpc = .loopCnt) (h2 : s.count = 0) (o : Nat) : s.mon.dn o = s.mon.sch o := by
  have e := hex h1 h2 o
  obtain ⟨a1, a2, a3, a4, a5⟩ := hw o
  have t := hs.top (Or.inl (Or.inr (Or.inr (Or.inl h1))))
  have t2 := hs.todo_nil (by simp [h1])
  simp [holdW, holdR, h1, t.1, t2] at a1 a2 a3 a4
  omega

theorem snap_le_dn {s : St} (h2 : ∀ o, s.mon.need o ≤ s.mon.sch o)
    (h4 : (s.wpc = .wgDone ∨ s.wpc = .exited) → ∀ o, s.mon.dn o = s.mon.sch o)
    (h6 : ∀ t o, (s.mon.snap t) o ≤ s.mon.need o) (id : Nat)
    (ht : s.wpc = .exited ∨ ∀ o, (s.mon.snap id) o = 0) (x : Nat) : (s.mon.snap id) x ≤ s.mon.dn x := by
  rcases ht with ht | ht
  · have := h4 (Or.inr ht) x; have := h2 x; have := h6 id x; omega
  · simp [ht x]

set_option maxRecDepth 4096 in
set_option hygiene false in
theorem ninv_step {s s' : St} {t t' : Thread} (h : NInv s) (hw : ∀ o, WO s o) (hs : WS s) (hl : LInv s)
    (ht : TInv s t) (hc : CFacts s t) (hsn : ∀ o, s.snt o ≤ s.mon.sch o)
    (hex : s.wpc = .loopCnt → s.count = 0 → ∀ o, s.mon.sch o = s.rcv o)
    (hm : (s', t') ∈ step s t) : NInv s' := by
  obtain ⟨h1, h2, h3, h4, h5, h6⟩ := h
  have f1 := fin_of_exit hw hs hex
  have f2 := snap_le_dn h2 h4 h6
  have f3 : inWin t = true → ¬ (s.wpc = .wgDone ∨ s.wpc = .exited) := by
    intro a c
    have := hl.fin_win c
    have := hc.win a
    omega
  have f4 : bodyPre t = true → ∀ o, s.mon.need o = 0 := by
    intro a; exact h1 (by have := hc.pre a; omega)
  have f5 := hs.store_eq
  have f6 : s.wpc = .addWrite → s.mon.wr s.wcur < s.mon.sch s.wcur := by
    intro a
    have := (hw s.wcur).wr_rst; have := h3 s.wcur
    simp [holdW, a] at *; omega
  have f7 : ∀ o rest, s.todo = o :: rest → s.mon.dn o < s.mon.com o := by
    intro o rest a
    have := (hw o).dn_com
    simp [a] at this; omega
  have f8 : s.wpc = .addReset → s.flag s.wcur = true := by
    intro a
    have := (hw s.wcur).rst_rcv; have := (hw s.wcur).rcv_snt; have := h3 s.wcur; have := hsn s.wcur
    simp [holdR, a] at *
    by_cases hf : s.flag s.wcur = true
    · exact hf
    · simp [hf] at *; omega
  have f9 : ∀ id, (s.wpc = .exited ∨ ∀ o, (s.mon.snap id) o = 0) →
      (∃ x, x ∈ s.mon.objs ∧ s.mon.dn x < (s.mon.snap id) x) → False := by
    intro id a ⟨x, _, hx⟩
    have := f2 id a x; omega
  clear hex hs hl hc
  step_cases
  all_goals (
    refine ⟨?_, ?_, ?_, ?_, ?_, ?_⟩ <;> first | exact h1 | exact h2 | exact h3 | exact h4 | exact h5 | exact h6 | heavyN)
  · have a := h2 o; have b := ht.1; omega
  · have a := h2 o; omega
  · have a := h6 o o'; omega
  · exact h6 o o'
  · intro e; subst e; simp_all
end Hive.BatchWriter
