import Hive.Proofs.SafeMathLemmas
import Hive.Gen.C19_SafeMath
/-! SafeSub: the definition generated from core/safemath/safe_math.go meets the specification, for every width and signedness. -/
namespace Hive.GoInt
open Hive.Gen.SafeMath IntTy

theorem safeSub_exact (T : IntTy) (hb : 0 < T.bits) (x y : Int) (hx : T.InRange x) (hy : T.InRange y) :
    SafeSub T x y = exact T (x - y) := by
  obtain ⟨b1, b2, b3, _⟩ := bounds T hb
  unfold InRange at hx hy
  unfold SafeSub IntTy.sub
  rcases wrap_cases T hb (x - y) (by omega) (by omega) with ⟨h, e⟩ | ⟨h, e⟩ | ⟨h, e⟩
  · rw [e, exact_out T _ (by omega)]; close_ite
  · rw [e, exact_out T _ (by omega)]; close_ite
  · rw [e, exact_in T _ h]; close_ite

end Hive.GoInt
