import Hive.Proofs.OMapStep
/-!
# C11: `s.AddAll(s)` / `s.Apply(added = s)` at pointer level — the consumer of every entry re-`Set`s that very entry

`OrderedMap.Set` of a live key only overwrites the value stored in its element: no pointer, no dictionary entry, neither
`head` nor `tail` nor `size` changes.  So the iteration that is interleaved with these writers is the plain iteration: it
visits every key once, in insertion order, runs to completion, and the chain, the dictionary and the order are what they
were; only the values of the visited entries are the new value (for a `ds.Set` the same zero-sized `types.Void`).
-/
namespace Hive.OMap
namespace PMap

/-- the writers of `s.AddAll(s)` / `s.Apply(added = s)`: visit number `j` sets the key it is shown (to `v`) -/
def setSelfScript (v : Nat) (keys : List Nat) : List (List MOp × Bool) := keys.map (fun k => ([MOp.set k v], false))

theorem get_split {d1 d2 : List (Nat × Nat)} {k i : Nat} (hn : (AMap.keys (d1 ++ (k, i) :: d2)).Nodup) :
    AMap.get (d1 ++ (k, i) :: d2) k = some i := by
  induction d1 with
  | nil => simp [AMap.get]
  | cons e r ih =>
    have hn2 : e.1 ∉ AMap.keys (r ++ (k, i) :: d2) ∧ (AMap.keys (r ++ (k, i) :: d2)).Nodup := by
      simpa [AMap.keys] using hn
    have hne : e.1 ≠ k := by
      intro he
      apply hn2.1
      simp [AMap.keys, he]
    have := ih hn2.2
    simp only [AMap.get, List.cons_append] at this ⊢
    simp only [hne, if_false]
    exact this

/-- `Set` of a live key: only the value cell of its element changes -/
theorem set_live {p : PMap} {k i : Nat} (hget : AMap.get p.dict k = some i) (v : Nat) :
    (p.set k v).1 = { p with heap := setVal p.heap i v } := by
  unfold PMap.set; rw [hget]

theorem weakWalk_setSelf (v : Nat) : ∀ (d2 d1 : List (Nat × Nat)) (p : PMap), PInv p → p.dict = d1 ++ d2 →
    ∀ fuel, d2.length < fuel →
    ((weakWalk true fuel p ((d2.head?).map (·.2)) (setSelfScript v (AMap.keys d2))).2.1.map (·.2.1) = AMap.keys d2 ∧
     (weakWalk true fuel p ((d2.head?).map (·.2)) (setSelfScript v (AMap.keys d2))).2.2 = true ∧
     (weakWalk true fuel p ((d2.head?).map (·.2)) (setSelfScript v (AMap.keys d2))).1.dict = p.dict ∧
     (weakWalk true fuel p ((d2.head?).map (·.2)) (setSelfScript v (AMap.keys d2))).1.head = p.head ∧
     (weakWalk true fuel p ((d2.head?).map (·.2)) (setSelfScript v (AMap.keys d2))).1.tail = p.tail ∧
     (weakWalk true fuel p ((d2.head?).map (·.2)) (setSelfScript v (AMap.keys d2))).1.size = p.size ∧
     PInv (weakWalk true fuel p ((d2.head?).map (·.2)) (setSelfScript v (AMap.keys d2))).1)
  | [], d1, p, hp, hd, fuel, hf => by
    obtain ⟨f, rfl⟩ : ∃ f, fuel = f + 1 := ⟨fuel - 1, by omega⟩
    simp [weakWalk, AMap.keys, hp]
  | (k, i) :: d2, d1, p, hp, hd, fuel, hf => by
    obtain ⟨f, rfl⟩ : ∃ f, fuel = f + 1 := ⟨fuel - 1, by simp at hf; omega⟩
    have hget : AMap.get p.dict k = some i := by rw [hd]; exact get_split (by rw [← hd]; exact hp.nodupK)
    have hmem : (k, i) ∈ p.dict := by rw [hd]; simp
    obtain ⟨n, hn⟩ := heap_some hp (mem_ids_of_mem hmem)
    have hkey : n.key = k := by
      have := hp.keyOk (k, i) hmem
      simpa [keyOf, hn] using this
    have hset := set_live hget v
    have hinv' : PInv (p.set k v).1 := (set_refines hp k v).2.2
    have hd' : (p.set k v).1.dict = (d1 ++ [(k, i)]) ++ d2 := by rw [hset]; simp [hd]
    -- the locked read of `next` after the consumer: the successor in the chain
    have hstep : stepCursor (p.set k v).1 true i = (d2.head?).map (·.2) := by
      have hids : ids (p.set k v).1 = d1.map (·.2) ++ i :: d2.map (·.2) := by simp [ids, hd']
      have hs := hinv'.linked
      rw [hids] at hs
      obtain ⟨n', hn', _, hnx⟩ := seg_split_node hs
      simp only [stepCursor, hn', if_true, hnx, Option.or_none]
      cases d2 <;> simp
    have ih := weakWalk_setSelf v d2 (d1 ++ [(k, i)]) (p.set k v).1 hinv' hd' f (by simp at hf; omega)
    have hdict : (p.set k v).1.dict = p.dict := by rw [hset]
    have hhead : (p.set k v).1.head = p.head := by rw [hset]
    have htail : (p.set k v).1.tail = p.tail := by rw [hset]
    have hsize : (p.set k v).1.size = p.size := by rw [hset]
    simp only [List.head?_cons, Option.map_some, weakWalk, hn, setSelfScript, AMap.keys, List.map_cons, List.headD_cons,
      List.tail_cons, applyOps, List.foldl_cons, List.foldl_nil, applyOp, Bool.false_eq_true, if_false, hstep]
    simp only [setSelfScript, AMap.keys] at ih
    refine ⟨by rw [ih.1, hkey], ih.2.1, ?_, ?_, ?_, ?_, ih.2.2.2.2.2.2⟩
    · rw [ih.2.2.1, hdict]
    · rw [ih.2.2.2.1, hhead]
    · rw [ih.2.2.2.2.1, htail]
    · rw [ih.2.2.2.2.2.1, hsize]

/-- after any history: the iteration whose visit `j` re-`Set`s the key it is shown visits every key once in insertion
order, completes, and leaves dictionary, `head`, `tail`, `size` — hence the order of the keys — as they were -/
theorem setSelf_run (h : List MOp) (v fuel : Nat) (hf : (AMap.run h).length < fuel) :
    let r := weakWalk true fuel (PMap.run h) (PMap.run h).head (setSelfScript v (AMap.keys (AMap.run h)))
    r.2.1.map (·.2.1) = AMap.keys (AMap.run h) ∧ r.2.2 = true ∧ r.1.dict = (PMap.run h).dict ∧
    AMap.keys (abs r.1) = AMap.keys (AMap.run h) ∧ PInv r.1 := by
  obtain ⟨habs, hinv⟩ := run_refines h
  have hk : AMap.keys (AMap.run h) = AMap.keys (PMap.run h).dict := by rw [← habs, keys_abs]
  have hl : (AMap.run h).length = (PMap.run h).dict.length := by rw [← habs]; simp [abs]
  intro r
  have hh : (PMap.run h).head = ((PMap.run h).dict.head?).map (·.2) := by
    rw [hinv.head]; simp [ids]
  have := weakWalk_setSelf v (PMap.run h).dict [] (PMap.run h) hinv rfl fuel (by omega)
  rw [← hh, ← hk] at this
  refine ⟨this.1, this.2.1, this.2.2.1, ?_, this.2.2.2.2.2.2⟩
  rw [keys_abs, this.2.2.1, hk]

end PMap

/-- the abstract model of `s.AddAll(s)` (argument = the receiver's own contents, the way the line protocol treats an
aliased argument): nothing is reported as added and no element appears or disappears -/
theorem addAll_self (s : ASet) :
    elems (addAll s (elems s)).2 = [] ∧ (∀ x, x ∈ elems (addAll s (elems s)).1 ↔ x ∈ elems s) := by
  constructor
  · have : ∀ x, x ∉ elems (addAll s (elems s)).2 := fun x hx => by
      rw [addAll_eq, mem_addFold_snd] at hx
      simp only [elems_nil, List.not_mem_nil, false_or] at hx
      exact hx.2 hx.1
    cases hd : elems (addAll s (elems s)).2 with
    | nil => rfl
    | cons e r => exact absurd (by rw [hd]; simp) (this e)
  · intro x
    rw [addAll_eq, mem_addFold_fst]
    simp

end Hive.OMap
