import Hive.Proofs.KVConcStep
/-!
# C05 protocol model: the lock counters equal what the goroutines hold

For every lock: the writer flag counts the goroutines holding it in write mode (0 or 1), `readers`
counts those holding it in read mode, `pending` counts those inside `Lock()`; a held writer excludes
readers.
-/
namespace Hive.KV.Conc
open Hive.Conc

def total (f : Thread → Nat) (ts : List Thread) : Nat := (ts.map f).sum

theorem total_mid (f : Thread → Nat) (pre post : List Thread) (t : Thread) :
    total f (pre ++ t :: post) = total f pre + f t + total f post := by
  simp [total, List.sum_append, Nat.add_assoc]

theorem total_pos (f : Thread → Nat) (ts : List Thread) (h : total f ts ≠ 0) : ∃ u ∈ ts, f u ≠ 0 := by
  induction ts with
  | nil => simp [total] at h
  | cons t ts ih =>
    by_cases hf : f t = 0
    · have : total f ts ≠ 0 := by simpa [total, hf] using h
      obtain ⟨u, hu, hfu⟩ := ih this
      exact ⟨u, List.mem_cons_of_mem _ hu, hfu⟩
    · exact ⟨t, List.mem_cons_self .., hf⟩

theorem total_zero (f : Thread → Nat) (ts : List Thread) (h : ∀ u ∈ ts, f u = 0) : total f ts = 0 := by
  induction ts with
  | nil => rfl
  | cons t ts ih =>
    have h1 := h t (List.mem_cons_self ..)
    have h2 := ih (fun u hu => h u (List.mem_cons_of_mem _ hu))
    simp only [total, List.map_cons, List.sum_cons] at h2 ⊢
    omega

def b2n (b : Bool) : Nat := if b then 1 else 0

/-- How often goroutine `t` holds lock `l` in write / read mode; whether it is inside `Lock(l)`. -/
def hW (l : LockId) (t : Thread) : Nat := t.held.count (l, true)
def hR (l : LockId) (t : Thread) : Nat := t.held.count (l, false)
def hP (l : LockId) (t : Thread) : Nat := if t.waiting = true ∧ t.code.head? = some (.lock l) then 1 else 0

structure LInv (c : Cfg Shared Thread) : Prop where
  w : ∀ l, b2n (c.1.locks l).writer = total (hW l) c.2
  r : ∀ l, (c.1.locks l).readers = total (hR l) c.2
  p : ∀ l, (c.1.locks l).pending = total (hP l) c.2
  excl : ∀ l, (c.1.locks l).writer = true → (c.1.locks l).readers = 0
  tinv : ∀ t ∈ c.2, TInv t

theorem hP_of_not_lock (t : Thread) (h : TInv t) (l : LockId) (hn : ∀ l' rest, t.code ≠ .lock l' :: rest) :
    hP l t = 0 := by
  simp [hP, h.nowait hn]

theorem setLock_same (ls : LockId → RW) (l : LockId) (x : RW) : setLock ls l x l = x := by simp [setLock]
theorem setLock_other (ls : LockId → RW) (l l' : LockId) (x : RW) (h : l' ≠ l) : setLock ls l x l' = ls l' := by
  simp [setLock, h]

/-- Steps that touch no lock. -/
theorem linv_nolock {s s' : Shared} {pre post : List Thread} {t t' : Thread}
    (h : LInv (s, pre ++ t :: post)) (hl : s'.locks = s.locks) (hh : t'.held = t.held)
    (hp : ∀ l, hP l t' = hP l t) (ht : TInv t') : LInv (s', pre ++ t' :: post) := by
  constructor
  · intro l
    have := h.w l
    simp only [total_mid, hl] at this ⊢
    simpa [hW, hh] using this
  · intro l
    have := h.r l
    simp only [total_mid, hl] at this ⊢
    simpa [hR, hh] using this
  · intro l
    have := h.p l
    simp only [total_mid, hl] at this ⊢
    rw [hp l]; exact this
  · intro l; rw [hl]; exact h.excl l
  · intro u hu
    rcases List.mem_append.mp hu with hu | hu
    · exact h.tinv u (List.mem_append_left _ hu)
    · rcases List.mem_cons.mp hu with rfl | hu
      · exact ht
      · exact h.tinv u (List.mem_append_right _ (List.mem_cons_of_mem _ hu))

theorem tinv_others {s : Shared} {pre post : List Thread} {t t' : Thread}
    (h : LInv (s, pre ++ t :: post)) (ht : TInv t') : ∀ u ∈ pre ++ t' :: post, TInv u := by
  intro u hu
  rcases List.mem_append.mp hu with hu | hu
  · exact h.tinv u (List.mem_append_left _ hu)
  · rcases List.mem_cons.mp hu with rfl | hu
    · exact ht
    · exact h.tinv u (List.mem_append_right _ (List.mem_cons_of_mem _ hu))

theorem count_pair_ne {l l' : LockId} {b b' : Bool} (h : ¬ (l = l' ∧ b = b')) (held : List (LockId × Bool)) :
    ((l, b) :: held).count (l', b') = held.count (l', b') := by
  rw [List.count_cons]
  have : ((l, b) == (l', b')) = false := by
    simp only [beq_eq_false_iff_ne, ne_eq, Prod.mk.injEq]; exact h
  simp [this]

theorem linv_step {s s' : Shared} {pre post : List Thread} {t t' : Thread}
    (hs : TStep s t s' t') (h : LInv (s, pre ++ t :: post)) : LInv (s', pre ++ t' :: post) := by
  have ht : TInv t := h.tinv t (List.mem_append_right _ (List.mem_cons_self ..))
  have ht' : TInv t' := tinv_step hs ht
  cases hs with
  | invoke op rest hc hs =>
    refine linv_nolock h rfl rfl (fun l => ?_) ht'
    have hcode := ht.idle hc
    rw [hP_of_not_lock t ht l (fun l' r hh => by rw [hcode] at hh; cases hh)]
    simp [hP, ht.nowait (fun l' r hh => by rw [hcode] at hh; cases hh)]
  | ret op hc hcode =>
    refine linv_nolock h rfl rfl (fun l => ?_) ht'
    rw [hP_of_not_lock t ht l (fun l' r hh => by rw [hcode] at hh; cases hh)]
    simp [hP, ht.nowait (fun l' r hh => by rw [hcode] at hh; cases hh)]
  | checkFail op rest hc hcode hcl =>
    refine linv_nolock h rfl rfl (fun l => ?_) ht'
    rw [hP_of_not_lock t ht l (fun l' r hh => by rw [hcode] at hh; cases hh)]
    simp [hP]
  | checkOk op rest hc hcode hcl =>
    refine linv_nolock h rfl rfl (fun l => ?_) ht'
    rw [hP_of_not_lock t ht l (fun l' r hh => by rw [hcode] at hh; cases hh)]
    simp [hP, ht.nowait (fun l' r hh => by rw [hcode] at hh; cases hh)]
  | load op rest hc hcode =>
    refine linv_nolock h rfl rfl (fun l => ?_) ht'
    rw [hP_of_not_lock t ht l (fun l' r hh => by rw [hcode] at hh; cases hh)]
    simp [hP, ht.nowait (fun l' r hh => by rw [hcode] at hh; cases hh)]
  | eff op a rest hc hcode =>
    refine linv_nolock h rfl rfl (fun l => ?_) ht'
    rw [hP_of_not_lock t ht l (fun l' r hh => by rw [hcode] at hh; cases hh)]
    simp [hP, ht.nowait (fun l' r hh => by rw [hcode] at hh; cases hh)]
  | swap op rest hc hcode =>
    refine linv_nolock h rfl rfl (fun l => ?_) ht'
    rw [hP_of_not_lock t ht l (fun l' r hh => by rw [hcode] at hh; cases hh)]
    simp [hP, ht.nowait (fun l' r hh => by rw [hcode] at hh; cases hh)]
  | announce op l rest hc hcode hwt =>
    refine ⟨fun l' => ?_, fun l' => ?_, fun l' => ?_, fun l' => ?_, tinv_others h ht'⟩
    · have := h.w l'
      simp only [total_mid] at this ⊢
      by_cases hl : l' = l
      · subst hl; simpa [setLock_same, hW] using this
      · simpa [setLock_other _ _ _ _ hl, hW] using this
    · have := h.r l'
      simp only [total_mid] at this ⊢
      by_cases hl : l' = l
      · subst hl; simpa [setLock_same, hR] using this
      · simpa [setLock_other _ _ _ _ hl, hR] using this
    · have := h.p l'
      simp only [total_mid] at this ⊢
      by_cases hl : l' = l
      · subst hl
        have h0 : hP l' t = 0 := by simp [hP, hwt]
        have h1 : hP l' { t with waiting := true } = 1 := by simp [hP, hcode]
        simp only [setLock_same, h1]
        omega
      · have h0 : hP l' t = 0 := by simp [hP, hwt]
        have h1 : hP l' { t with waiting := true } = 0 := by
          simp only [hP, hcode, List.head?_cons, Option.some.injEq, Instr.lock.injEq]
          have : ¬ l = l' := fun hh => hl hh.symm
          simp [this]
        simp only [setLock_other _ _ _ _ hl, h1]
        omega
    · by_cases hl : l' = l
      · subst hl; simpa [setLock_same] using h.excl l'
      · simpa [setLock_other _ _ _ _ hl] using h.excl l'
  | acquire op l rest hc hcode hwt hfree =>
    have hnl : ∀ l', hP l' { t with code := rest, waiting := false, held := (l, true) :: t.held } = 0 := by
      intro l'; simp [hP]
    refine ⟨fun l' => ?_, fun l' => ?_, fun l' => ?_, fun l' => ?_, tinv_others h ht'⟩
    · have := h.w l'
      simp only [total_mid] at this ⊢
      by_cases hl : l' = l
      · subst hl
        simp only [setLock_same, hW, List.count_cons_self, b2n, if_true] at this ⊢
        rw [hfree.1] at this
        simp only [Bool.false_eq_true, if_false] at this
        omega
      · have hc' : ((l, true) :: t.held).count (l', true) = t.held.count (l', true) :=
          count_pair_ne (fun hh => hl hh.1.symm) _
        simpa [setLock_other _ _ _ _ hl, hW, hc'] using this
    · have := h.r l'
      simp only [total_mid] at this ⊢
      have hc' : ((l, true) :: t.held).count (l', false) = t.held.count (l', false) :=
        count_pair_ne (fun hh => by cases hh.2) _
      by_cases hl : l' = l
      · subst hl; simpa [setLock_same, hR, hc'] using this
      · simpa [setLock_other _ _ _ _ hl, hR, hc'] using this
    · have := h.p l'
      simp only [total_mid] at this ⊢
      by_cases hl : l' = l
      · subst hl
        have h1 : hP l' t = 1 := by simp [hP, hwt, hcode]
        simp only [setLock_same, hnl]
        omega
      · have h1 : hP l' t = 0 := by
          simp only [hP, hcode, List.head?_cons, Option.some.injEq, Instr.lock.injEq]
          have : ¬ l = l' := fun hh => hl hh.symm
          simp [this]
        simp only [setLock_other _ _ _ _ hl, hnl]
        omega
    · by_cases hl : l' = l
      · subst hl; intro _; simpa [setLock_same] using hfree.2
      · simpa [setLock_other _ _ _ _ hl] using h.excl l'
  | rlock op l rest hc hcode hfree =>
    have hnw := ht.nowait (fun l' r hh => by rw [hcode] at hh; cases hh)
    refine ⟨fun l' => ?_, fun l' => ?_, fun l' => ?_, fun l' => ?_, tinv_others h ht'⟩
    · have := h.w l'
      simp only [total_mid] at this ⊢
      have hc' : ((l, false) :: t.held).count (l', true) = t.held.count (l', true) :=
        count_pair_ne (fun hh => by cases hh.2) _
      by_cases hl : l' = l
      · subst hl; simpa [setLock_same, hW, hc'] using this
      · simpa [setLock_other _ _ _ _ hl, hW, hc'] using this
    · have := h.r l'
      simp only [total_mid] at this ⊢
      by_cases hl : l' = l
      · subst hl
        simp only [setLock_same, hR, List.count_cons_self] at this ⊢
        omega
      · have hc' : ((l, false) :: t.held).count (l', false) = t.held.count (l', false) :=
          count_pair_ne (fun hh => hl hh.1.symm) _
        simpa [setLock_other _ _ _ _ hl, hR, hc'] using this
    · have := h.p l'
      simp only [total_mid] at this ⊢
      have h0 : hP l' t = 0 := by simp [hP, hnw]
      have h1 : hP l' { t with code := rest, held := (l, false) :: t.held } = 0 := by simp [hP, hnw]
      by_cases hl : l' = l
      · subst hl; simp only [setLock_same, h1]; omega
      · simp only [setLock_other _ _ _ _ hl, h1]; omega
    · by_cases hl : l' = l
      · subst hl; intro hw; simp [setLock_same, hfree.1] at hw
      · simpa [setLock_other _ _ _ _ hl] using h.excl l'
  | unlock op l rest hc hcode =>
    have hnw := ht.nowait (fun l' r hh => by rw [hcode] at hh; cases hh)
    have hwf := ht.wf
    rw [hcode] at hwf
    simp only [wfc, Bool.and_eq_true, List.contains_iff_mem] at hwf
    have hcnt : 0 < t.held.count (l, true) := List.count_pos_iff.mpr hwf.1
    refine ⟨fun l' => ?_, fun l' => ?_, fun l' => ?_, fun l' => ?_, tinv_others h ht'⟩
    · have := h.w l'
      simp only [total_mid] at this ⊢
      by_cases hl : l' = l
      · subst hl
        simp only [setLock_same, hW, List.count_erase_self, b2n] at this ⊢
        split at this <;> simp only [Bool.false_eq_true, if_false] <;> omega
      · have hc' : (t.held.erase (l, true)).count (l', true) = t.held.count (l', true) :=
          List.count_erase_of_ne (by simp only [ne_eq, Prod.mk.injEq, not_and]; exact fun hh => absurd hh hl)
        simpa [setLock_other _ _ _ _ hl, hW, hc'] using this
    · have := h.r l'
      simp only [total_mid] at this ⊢
      have hc' : (t.held.erase (l, true)).count (l', false) = t.held.count (l', false) :=
        List.count_erase_of_ne (by simp)
      by_cases hl : l' = l
      · subst hl; simpa [setLock_same, hR, hc'] using this
      · simpa [setLock_other _ _ _ _ hl, hR, hc'] using this
    · have := h.p l'
      simp only [total_mid] at this ⊢
      have h0 : hP l' t = 0 := by simp [hP, hnw]
      have h1 : hP l' { t with code := rest, held := t.held.erase (l, true) } = 0 := by simp [hP, hnw]
      by_cases hl : l' = l
      · subst hl; simp only [setLock_same, h1]; omega
      · simp only [setLock_other _ _ _ _ hl, h1]; omega
    · by_cases hl : l' = l
      · subst hl; intro hw; simp [setLock_same] at hw
      · simpa [setLock_other _ _ _ _ hl] using h.excl l'
  | runlock op l rest hc hcode =>
    have hnw := ht.nowait (fun l' r hh => by rw [hcode] at hh; cases hh)
    have hwf := ht.wf
    rw [hcode] at hwf
    simp only [wfc, Bool.and_eq_true, List.contains_iff_mem] at hwf
    have hcnt : 0 < t.held.count (l, false) := List.count_pos_iff.mpr hwf.1
    refine ⟨fun l' => ?_, fun l' => ?_, fun l' => ?_, fun l' => ?_, tinv_others h ht'⟩
    · have := h.w l'
      simp only [total_mid] at this ⊢
      have hc' : (t.held.erase (l, false)).count (l', true) = t.held.count (l', true) :=
        List.count_erase_of_ne (by simp)
      by_cases hl : l' = l
      · subst hl; simpa [setLock_same, hW, hc'] using this
      · simpa [setLock_other _ _ _ _ hl, hW, hc'] using this
    · have := h.r l'
      simp only [total_mid] at this ⊢
      by_cases hl : l' = l
      · subst hl
        simp only [setLock_same, hR, List.count_erase_self] at this ⊢
        omega
      · have hc' : (t.held.erase (l, false)).count (l', false) = t.held.count (l', false) :=
          List.count_erase_of_ne (by simp only [ne_eq, Prod.mk.injEq, not_and]; exact fun hh => absurd hh hl)
        simpa [setLock_other _ _ _ _ hl, hR, hc'] using this
    · have := h.p l'
      simp only [total_mid] at this ⊢
      have h0 : hP l' t = 0 := by simp [hP, hnw]
      have h1 : hP l' { t with code := rest, held := t.held.erase (l, false) } = 0 := by simp [hP, hnw]
      by_cases hl : l' = l
      · subst hl; simp only [setLock_same, h1]; omega
      · simp only [setLock_other _ _ _ _ hl, h1]; omega
    · by_cases hl : l' = l
      · subst hl
        intro hw
        have hr : (s.locks l').readers = 0 := h.excl l' (by simpa [setLock_same] using hw)
        simp only [setLock_same]
        omega
      · simpa [setLock_other _ _ _ _ hl] using h.excl l'

/-! ## initial configuration, reachability -/

theorem initThreads_mem {n : Nat} {scripts : List (List COp)} {t : Thread} (h : t ∈ initThreads n scripts) :
    ∃ k sc, t = initThread k sc ∧ n ≤ k := by
  induction scripts generalizing n with
  | nil => simp [initThreads] at h
  | cons sc rest ih =>
    simp only [initThreads, List.mem_cons] at h
    rcases h with rfl | h
    · exact ⟨n, sc, rfl, Nat.le_refl _⟩
    · obtain ⟨k, sc', hk, hle⟩ := ih h
      exact ⟨k, sc', hk, by omega⟩

theorem linv_init (scripts : List (List COp)) : LInv (initCfg scripts) := by
  have hz : ∀ (f : Thread → Nat), (∀ k sc, f (initThread k sc) = 0) → total f (initThreads 0 scripts) = 0 := by
    intro f hf
    apply total_zero
    intro u hu
    obtain ⟨k, sc, rfl, _⟩ := initThreads_mem hu
    exact hf k sc
  refine ⟨fun l => ?_, fun l => ?_, fun l => ?_, fun l => ?_, fun t ht => ?_⟩
  · rw [initCfg, hz _ (fun k sc => by simp [hW, initThread])]; rfl
  · rw [initCfg, hz _ (fun k sc => by simp [hR, initThread])]; rfl
  · rw [initCfg, hz _ (fun k sc => by simp [hP, initThread])]; rfl
  · intro hw; simp [initCfg, initShared, RW.free] at hw
  · obtain ⟨k, sc, rfl, _⟩ := initThreads_mem ht
    exact tinv_init k sc

theorem linv_reach {scripts : List (List COp)} {c : Cfg Shared Thread} (hr : Reach sys (initCfg scripts) c) :
    LInv c := by
  refine inv_induction (S := sys) LInv (linv_init scripts) ?_ hr
  intro a b ha hstep
  cases hstep with
  | mk s pre t post s' t' hmem => exact linv_step (step_tstep hmem) ha

end Hive.KV.Conc
