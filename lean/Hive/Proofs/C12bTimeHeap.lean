import Hive.Proofs.C12bTimeHeapOrd
/-! The TimeHeap model refines the windowed-sum specification. -/
namespace Hive.C12b.TH

theorem heapPop_some_of_ne_nil (a : List Entry) (h : a ≠ []) : ∃ p, heapPop a = some p := by
  unfold heapPop
  cases a with
  | nil => exact absurd rfl h
  | cons x xs =>
    simp only
    have hl : (down (swap (x :: xs) 0 ((x :: xs).length - 1)) 0 ((x :: xs).length - 1)).length = xs.length + 1 := by
      rw [down_length, swap_length]; simp
    have : (x :: xs).length - 1 < (down (swap (x :: xs) 0 ((x :: xs).length - 1)) 0 ((x :: xs).length - 1)).length := by
      rw [hl]; simp
    rw [List.getElem?_eq_getElem this]
    exact ⟨_, rfl⟩

theorem inWindow_mono (now h : Nat) (e x : Entry) (hle : e.ts ≤ x.ts) (he : inWindow now h e = true) :
    inWindow now h x = true := by
  simp only [inWindow, decide_eq_true_eq] at he ⊢
  omega

theorem HeapOrd_nil : HeapOrd [] := by
  intro k _ hk; simp at hk

/-- The loop of `AveragePerSecond` removes exactly the entries outside the window. -/
theorem expire_spec (now h : Nat) (k : Nat) (a : List Entry) (total : Nat)
    (hk : a.length ≤ k) (ho : HeapOrd a) (ht : total = counts a % W) :
    (expire now h k a total).1.Perm (a.filter (inWindow now h)) ∧ HeapOrd (expire now h k a total).1 ∧
      (expire now h k a total).2 = counts (expire now h k a total).1 % W := by
  induction k generalizing a total with
  | zero =>
    have : a = [] := List.eq_nil_of_length_eq_zero (by omega)
    subst this
    simp [expire, HeapOrd_nil, ht]
  | succ k ih =>
    by_cases hnil : a = []
    · subst hnil
      simp [expire, heapPop, HeapOrd_nil, ht]
    · obtain ⟨p, hp⟩ := heapPop_some_of_ne_nil a hnil
      obtain ⟨e, a'⟩ := p
      obtain ⟨hperm, hlen⟩ := heapPop_perm a e a' hp
      obtain ⟨hmin, ho'⟩ := heapPop_min a e a' ho hp
      have hc : counts a = e.count + counts a' := by rw [counts_perm hperm, counts_cons]
      simp only [expire, hp]
      by_cases hw : inWindow now h e = true
      · simp only [hw, if_true]
        refine ⟨?_, heapPush_ord a' e ho', ?_⟩
        · have hall : ∀ x ∈ e :: a', inWindow now h x = true := by
            intro x hx
            rcases List.mem_cons.1 hx with e1 | e1
            · subst e1; exact hw
            · exact inWindow_mono now h e x (hmin x e1) hw
          have h1 : (a.filter (inWindow now h)).Perm ((e :: a').filter (inWindow now h)) := hperm.filter _
          rw [List.filter_eq_self.2 hall] at h1
          exact (heapPush_perm a' e).trans h1.symm
        · rw [counts_perm (heapPush_perm a' e), counts_cons, ht, hc]
      · simp only [hw, Bool.false_eq_true, if_false]
        obtain ⟨r1, r2, r3⟩ := ih a' (wsub total e.count) (by omega) ho' (by rw [ht, hc, wsub_counts])
        refine ⟨?_, r2, r3⟩
        have h1 : (a.filter (inWindow now h)).Perm ((e :: a').filter (inWindow now h)) := hperm.filter _
        have h2 : (e :: a').filter (inWindow now h) = a'.filter (inWindow now h) := by
          simp [hw]
        rw [h2] at h1
        exact r1.trans h1.symm

/-- Refinement relation between the implementation-level state and the specification state. -/
structure Rel (s : St) (sp : Spec) : Prop where
  now : s.now = sp.now
  perm : s.heap.Perm sp.live
  ord : HeapOrd s.heap
  total : s.total = counts s.heap % W

theorem rel_init : Rel init specInit :=
  ⟨rfl, List.Perm.refl _, HeapOrd_nil, rfl⟩

theorem step_refines {s : St} {sp : Spec} (h : Rel s sp) (op : Op) :
    (step s op).2 = (specStep sp op).2 ∧ Rel (step s op).1 (specStep sp op).1 := by
  cases op with
  | tick d =>
    refine ⟨rfl, ?_, h.perm, h.ord, h.total⟩
    show s.now + d = sp.now + d
    rw [h.now]
  | add c =>
    refine ⟨rfl, h.now, ?_, heapPush_ord _ _ h.ord, ?_⟩
    · show (heapPush s.heap { ts := s.now, count := c % W }).Perm (sp.live ++ [{ ts := sp.now, count := c % W }])
      rw [h.now]
      exact (heapPush_perm _ _).trans ((h.perm.cons _).trans (List.perm_append_singleton _ _).symm)
    · show wadd s.total (c % W) = counts (heapPush s.heap { ts := s.now, count := c % W }) % W
      rw [counts_perm (heapPush_perm _ _), counts_cons, h.total, wadd_counts]
  | clear =>
    exact ⟨rfl, h.now, List.Perm.refl _, HeapOrd_nil, rfl⟩
  | avg hh =>
    obtain ⟨r1, r2, r3⟩ := expire_spec s.now hh s.heap.length s.heap s.total (Nat.le_refl _) h.ord h.total
    have hf : (s.heap.filter (inWindow s.now hh)).Perm (sp.live.filter (inWindow sp.now hh)) := by
      rw [h.now]; exact h.perm.filter _
    refine ⟨?_, h.now, r1.trans hf, r2, r3⟩
    show Out.total (expire s.now hh s.heap.length s.heap s.total).2 hh = Out.total (counts (sp.live.filter (inWindow sp.now hh)) % W) hh
    rw [r3, counts_perm (r1.trans hf)]

theorem run_refines (s : St) (sp : Spec) (ops : List Op) (h : Rel s sp) :
    (run s ops).2 = (specRun sp ops).2 ∧ Rel (run s ops).1 (specRun sp ops).1 := by
  induction ops generalizing s sp with
  | nil => exact ⟨rfl, h⟩
  | cons op ops ih =>
    obtain ⟨h1, h2⟩ := step_refines h op
    obtain ⟨h3, h4⟩ := ih _ _ h2
    simp only [run, specRun]
    exact ⟨by rw [h1, h3], h4⟩

theorem run_fst (s : St) (ops : List Op) : (run s ops).1 = final s ops := by
  induction ops generalizing s with
  | nil => rfl
  | cons op ops ih => simp [run, final, ih]

/-! ## one fixed window: the answer is the sum over everything added since the last Clear that is
inside the window now -/

/-- Clock and the entries added since the last `Clear`, read off the history alone. -/
def track (p : Nat × List Entry) : Op → Nat × List Entry
  | .tick d => (p.1 + d, p.2)
  | .add c => (p.1, p.2 ++ [{ ts := p.1, count := c % W }])
  | .clear => (p.1, [])
  | .avg _ => p

def addedSince (ops : List Op) : Nat × List Entry := ops.foldl track (0, [])

/-- Every window query of the history uses the window `h`. -/
def FixedWindow (h : Nat) (ops : List Op) : Prop := ∀ op ∈ ops, ∀ h', op = .avg h' → h' = h

theorem inWindow_later (now d h : Nat) (e : Entry) (hw : inWindow (now + d) h e = true) :
    inWindow now h e = true := by
  simp only [inWindow, decide_eq_true_eq] at hw ⊢
  omega

theorem filter_later (now d h : Nat) (l : List Entry) :
    l.filter (inWindow (now + d) h) = (l.filter (inWindow now h)).filter (inWindow (now + d) h) := by
  rw [List.filter_filter]
  apply List.filter_congr
  intro e _
  cases h1 : inWindow (now + d) h e
  · simp
  · simp [inWindow_later now d h e h1]

theorem spec_fixed (h : Nat) (ops : List Op) (sp : Spec) (p : Nat × List Entry) (hf : FixedWindow h ops)
    (hn : sp.now = p.1) (hl : sp.live.filter (inWindow sp.now h) = p.2.filter (inWindow p.1 h)) :
    (specRun sp ops).1.now = (ops.foldl track p).1 ∧
    (specRun sp ops).1.live.filter (inWindow (specRun sp ops).1.now h) =
      (ops.foldl track p).2.filter (inWindow (ops.foldl track p).1 h) := by
  induction ops generalizing sp p with
  | nil => exact ⟨hn, hl⟩
  | cons op ops ih =>
    simp only [specRun, List.foldl_cons]
    apply ih
    · intro o ho; exact hf o (List.mem_cons_of_mem _ ho)
    · cases op <;> simp [specStep, track, hn]
    · cases op with
      | tick d =>
        simp only [specStep, track]
        rw [filter_later sp.now d h sp.live, hl, hn, ← filter_later]
      | add c =>
        simp only [specStep, track, List.filter_append]
        rw [hn] at hl ⊢
        rw [hl]
      | clear => simp [specStep, track]
      | avg h' =>
        have : h' = h := hf (.avg h') (by simp) h' rfl
        subst this
        simp only [specStep, track, List.filter_filter, Bool.and_self]
        exact hl

end Hive.C12b.TH
