import Hive.Gen.C04_Map
/-!
# Helper definitions and lemmas for "the mapdb model is the interpretation of its translated source" (C04)
-/
namespace Hive.KV
open MapSrc Hive.Gen.C04Map

/-- The unexported methods of `*mapDB` that other methods call, by name: their *generated* bodies. -/
def selfTbl (n : String) : List MStmt :=
  if n == "set" then src_mapdb_mapDB_set else if n == "delete" then src_mapdb_mapDB_delete
  else if n == "WithRealm" then src_mapdb_mapDB_WithRealm else [.other n]

/-- The environment at the start of a method: realm of the view, byte-string arguments, direction / stop of an iteration. -/
def env0 (R : Bytes) (argv : List Bytes) (d : Dir) (stop : Nat) : Env := ⟨R, argv, d, stop, [], [], []⟩

/-- The loop over `setOperations` in `Commit` never leaves early and writes every entry under `realm ‖ key`. -/
theorem applyAll_set (e : Env) (es : List (Bytes × Bytes)) (db : Store) (sets : AList) (dels : List Bytes) :
    applyAll e src_mapdb_mapDB_set ["[]byte(key)", "value"] es ⟨db, sets, dels, none⟩ =
      some (⟨{ db with m := es.foldr (fun x m => aset (e.realm ++ x.1) x.2 m) db.m }, sets, dels, none⟩, .ok) := by
  induction es with
  | nil => rfl
  | cons x rest ih =>
    rw [applyAll, ih]
    simp [leaf, mapPrim, evalE, done, src_mapdb_mapDB_set]

/-- The loop over `deleteOperations` in `Commit` never leaves early and deletes every `realm ‖ key`. -/
theorem applyAll_delete (e : Env) (ks : List Bytes) (db : Store) (sets : AList) (dels : List Bytes) :
    applyAll e src_mapdb_mapDB_delete ["[]byte(key)"] (ks.map (fun k => (k, []))) ⟨db, sets, dels, none⟩ =
      some (⟨{ db with m := ks.foldr (fun k m => adel (e.realm ++ k) m) db.m }, sets, dels, none⟩, .ok) := by
  induction ks with
  | nil => rfl
  | cons x rest ih =>
    rw [List.map_cons, applyAll, ih]
    simp [leaf, mapPrim, evalE, done, src_mapdb_mapDB_delete]

end Hive.KV
