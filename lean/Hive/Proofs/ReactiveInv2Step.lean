import Hive.Proofs.ReactiveInv2
/-! Preservation of the layer-2 invariant by every transition. -/
namespace Hive.Reactive
open Hive.Conc

variable {S N : Type}

theorem sameObs_refl (a : Cb S N) : SameObs a a := ⟨rfl, rfl, rfl, rfl⟩

theorem inv2_step (o : Obj S N) {sh sh' : Sh S N} {pre post : List (Th o.WOp N)} {t t' : Th o.WOp N}
    (htr : Tr o sh t sh' t') (h1 : Inv1 o (sh, pre ++ t :: post)) (h : Inv2 o (sh, pre ++ t :: post)) :
    Inv2 o (sh', pre ++ t' :: post) := by
  obtain ⟨hcb, hthr⟩ := h
  simp only at hcb hthr
  rw [forall_mid] at hthr
  obtain ⟨ht, ho⟩ := hthr
  have h1t : Th1 sh t := (forall_mid.mp h1.thr).1
  have h1o : ∀ u ∈ pre ++ post, Th1 sh u := (forall_mid.mp h1.thr).2
  have hexU : inU t = true → ∀ u ∈ pre ++ post, inU u = false :=
    fun hin => others_false inU pre post t _ h1.hU hin
  have hexE : ∀ c, holdsE c t = true → ∀ u ∈ pre ++ post, holdsE c u = false :=
    fun c hin => others_false (holdsE c) pre post t _ (h1.hE c) hin
  have hfreeE : ∀ c, (sh.cbs c).elock = false → ∀ u ∈ pre ++ post, holdsE c u = false := by
    intro c he
    have := h1.hE c
    simp only [he] at this
    exact (all_false _ _ _ _ (by simpa using this)).2
  have hheld : ∀ c, holdsE c t = true → (sh.cbs c).elock = true :=
    fun c hh => elock_of_holds o h1 (t := t) (by simp) hh
  have hsame : ∀ sh2 : Sh S N, sh.uid ≤ sh2.uid → sh2.listed = sh.listed →
      (∀ c, (sh2.cbs c).last = (sh.cbs c).last) → (∀ c, SameObs (sh2.cbs c) (sh.cbs c)) →
      ∀ u ∈ pre ++ post, Th2 sh2 u :=
    fun sh2 a b c d u hu => th2_same (ho u hu) a b c d
  have hcbsame : ∀ sh2 : Sh S N, sh.uid ≤ sh2.uid → sh2.ncb = sh.ncb → sh2.listed = sh.listed →
      (∀ c, (sh2.cbs c).last = (sh.cbs c).last) → (∀ c, (sh2.cbs c).elock = (sh.cbs c).elock) →
      (∀ c, SameObs (sh2.cbs c) (sh.cbs c)) → ∀ c, Cb2 sh2 c :=
    fun sh2 a b c d e f x => cb2_mono (hcb x) a b (fun _ hin => c ▸ hin) (d x) (e x) (f x)
  cases htr with
  | earlyReturn w rest hearly =>
    refine ⟨hcbsame _ (Nat.le_refl _) rfl rfl (fun _ => rfl) (fun _ => rfl) (fun _ => sameObs_refl _), ?_⟩
    simp only; rw [forall_mid]
    exact ⟨th2_idle _ rest, hsame _ (Nat.le_refl _) rfl (fun _ => rfl) (fun _ => sameObs_refl _)⟩
  | startWrite w rest hearly hu =>
    refine ⟨hcbsame _ (Nat.le_refl _) rfl rfl (fun _ => rfl) (fun _ => rfl) (fun _ => sameObs_refl _), ?_⟩
    simp only; rw [forall_mid]
    exact ⟨by constructor <;> simp [tid, todo, isFresh, runs, marking],
      hsame _ (Nat.le_refl _) rfl (fun _ => rfl) (fun _ => sameObs_refl _)⟩
  | startSub flag rest hv =>
    refine ⟨hcbsame _ (Nat.le_refl _) rfl rfl (fun _ => rfl) (fun _ => rfl) (fun _ => sameObs_refl _), ?_⟩
    simp only; rw [forall_mid]
    exact ⟨by constructor <;> simp [tid, todo, isFresh, runs, marking],
      hsame _ (Nat.le_refl _) rfl (fun _ => rfl) (fun _ => sameObs_refl _)⟩
  | startUnsub c rest hc =>
    refine ⟨?_, ?_⟩
    · intro x
      exact cb2_mono (hcb x) (Nat.le_refl _) rfl (fun y hy => (List.mem_filter.mp hy).1) rfl rfl (sameObs_refl _)
    · simp only; rw [forall_mid]
      refine ⟨?_, ?_⟩
      · constructor <;> simp [tid, todo, isFresh, runs, marking]
      · intro u hu
        exact th2_frame (ho u hu) (Nat.le_refl _) (fun _ _ hin => (List.mem_filter.mp hin).1) (fun _ _ => rfl)
          (fun _ _ => sameObs_refl _)
  | wLockV w sc hv =>
    refine ⟨hcbsame _ (Nat.le_refl _) rfl rfl (fun _ => rfl) (fun _ => rfl) (fun _ => sameObs_refl _), ?_⟩
    simp only; rw [forall_mid]
    exact ⟨by constructor <;> simp [tid, todo, isFresh, runs, marking],
      hsame _ (Nat.le_refl _) rfl (fun _ => rfl) (fun _ => sameObs_refl _)⟩
  | wChange w sc s' n hupd =>
    refine ⟨hcbsame _ (Nat.le_succ _) rfl rfl (fun _ => rfl) (fun _ => rfl) (fun _ => ⟨rfl, rfl, rfl, rfl⟩), ?_⟩
    simp only; rw [forall_mid]
    refine ⟨?_, hsame _ (Nat.le_succ _) rfl (fun _ => rfl) (fun _ => ⟨rfl, rfl, rfl, rfl⟩)⟩
    constructor <;> simp [tid, todo, isFresh, runs, marking]
    intro c _
    exact Nat.lt_succ_of_le (hcb c).lastLe
  | wQuiet w sc bump hupd =>
    have hle : sh.uid ≤ (if bump then sh.uid + 1 else sh.uid) := by split <;> omega
    refine ⟨hcbsame _ hle rfl rfl (fun _ => rfl) (fun _ => rfl) (fun _ => sameObs_refl _), ?_⟩
    simp only; rw [forall_mid]
    exact ⟨by constructor <;> simp [tid, todo, isFresh, runs, marking],
      hsame _ hle rfl (fun _ => rfl) (fun _ => sameObs_refl _)⟩
  | wRelV id n todo sc =>
    refine ⟨hcbsame _ (Nat.le_refl _) rfl rfl (fun _ => rfl) (fun _ => rfl) (fun _ => sameObs_refl _), ?_⟩
    simp only; rw [forall_mid]
    exact ⟨⟨ht.tidLe, ht.lastLt, ht.fresh, ht.runDone, ht.runOpen, ht.markNL⟩,
      hsame _ (Nat.le_refl _) rfl (fun _ => rfl) (fun _ => sameObs_refl _)⟩
  | wDone id n sc =>
    refine ⟨hcbsame _ (Nat.le_refl _) rfl rfl (fun _ => rfl) (fun _ => rfl) (fun _ => sameObs_refl _), ?_⟩
    simp only; rw [forall_mid]
    exact ⟨th2_idle _ sc, hsame _ (Nat.le_refl _) rfl (fun _ => rfl) (fun _ => sameObs_refl _)⟩
  | wNone id c rest sc =>
    have := h1t.noteNone rfl
    simp [todo] at this
  | wTake id n c rest sc he htk =>
    have hun : (sh.cbs c).unsub = false := takes_true_unsub htk
    have hret : hasUnsubRet (sh.cbs c).evs = false := by
      cases hr : hasUnsubRet (sh.cbs c).evs with
      | false => rfl
      | true => rw [(hcb c).retUnsub hr] at hun; cases hun
    have hscan : scan (sh.cbs c).evs = some false := by
      obtain ⟨b, hb, hbe⟩ := (hcb c).scanOk
      cases b with
      | false => exact hb
      | true => rw [hbe rfl] at he; cases he
    have hcl : c < sh.ncb := h1t.workLt c (by simp [work])
    have hdone : (sh.cbs c).iniDone = true := by
      cases hd : (sh.cbs c).iniDone with
      | true => rfl
      | false => rw [(hcb c).notDone hcl hd] at he; cases he
    have hnd := h1t.workNodup
    simp only [work, List.nodup_cons] at hnd
    refine ⟨?_, ?_⟩
    · intro x
      by_cases hx : x = c
      · subst hx
        constructor <;> simp only [setCb_cbs, if_true, setCb_uid, setCb_ncb, setCb_listed]
        · exact ht.tidLe
        · intros; trivial
        · exact (hcb x).unsubNL
        · rw [hasUnsubRet_enter]; exact (hcb x).retUnsub
        · rw [nau_enter _ _ hret]; exact (hcb x).nau
        · exact ⟨true, by rw [scan_append, hscan]; rfl, fun _ => trivial⟩
      · exact cb2_setCb_ne (hcb x) hx
    · simp only; rw [forall_mid]
      refine ⟨?_, ?_⟩
      · constructor
        · exact ht.tidLe
        · intro x hx
          have hxc : x ≠ c := fun h => hnd.1 (h ▸ hx)
          simp only [setCb_cbs, hxc, if_false]
          exact ht.lastLt x (List.mem_cons_of_mem _ hx)
        · intro x hx; simp [isFresh] at hx
        · intro x hx
          simp [runs] at hx; subst hx
          simp [setCb_cbs, hdone]
        · intro x hx
          simp [runs] at hx; subst hx
          simp only [setCb_cbs, if_true]
          rw [scan_append, hscan]; rfl
        · intro x hx; simp [marking] at hx
      · intro u hu
        refine th2_setCb (ho u hu) (hfreeE c he u hu) ?_
        intro hc
        have := inU_of_todo u c hc
        rw [hexU rfl u hu] at this; cases this
  | wSkip id n c rest sc he htk =>
    refine ⟨hcb, ?_⟩
    simp only; rw [forall_mid]
    refine ⟨?_, ho⟩
    refine ⟨ht.tidLe, ?_, ?_, ?_, ?_, ?_⟩
    · intro x hx; exact ht.lastLt x (List.mem_cons_of_mem _ hx)
    · intro x hx; simp [isFresh] at hx
    · intro x hx; simp [runs] at hx
    · intro x hx; simp [runs] at hx
    · intro x hx; simp [marking] at hx
  | wExit id n c rest sc =>
    have hopen : scan (sh.cbs c).evs = some true := ht.runOpen c (by simp [runs])
    have hdone : (sh.cbs c).iniDone = true := ht.runDone c (by simp [runs])
    have hnd := h1t.workNodup
    simp only [work, List.nodup_cons] at hnd
    refine ⟨?_, ?_⟩
    · intro x
      by_cases hx : x = c
      · subst hx
        constructor <;> simp only [setCb_cbs, if_true, setCb_uid, setCb_ncb, setCb_listed]
        · exact (hcb x).lastLe
        · intro _ hd; rw [hdone] at hd; cases hd
        · exact (hcb x).unsubNL
        · rw [hasUnsubRet_exit]; exact (hcb x).retUnsub
        · rw [nau_exit]; exact (hcb x).nau
        · exact ⟨false, by rw [scan_append, hopen]; rfl, fun hb => by cases hb⟩
      · exact cb2_setCb_ne (hcb x) hx
    · simp only; rw [forall_mid]
      refine ⟨?_, ?_⟩
      · constructor
        · exact ht.tidLe
        · intro x hx
          have hxc : x ≠ c := fun h => hnd.1 (h ▸ hx)
          simp only [setCb_cbs, hxc, if_false]
          exact ht.lastLt x hx
        · intro x hx; simp [isFresh] at hx
        · intro x hx; simp [runs] at hx
        · intro x hx; simp [runs] at hx
        · intro x hx; simp [marking] at hx
      · intro u hu
        exact th2_setCb (ho u hu) (hexE c (by simp [holdsE]) u hu) (fun _ => rfl)
  | sRegister flag sc =>
    refine ⟨?_, ?_⟩
    · intro x
      by_cases hx : x = sh.ncb
      · subst hx
        constructor <;> simp [setCb_cbs, hasUnsubRet, noneAfterUnsub, scan]
      · have hc : (setCb sh sh.ncb ({ elock := true, last := sh.uid, s0 := sh.st, ini := o.ini sh.st flag } : Cb S N)).cbs x
            = sh.cbs x := by simp [setCb_cbs, hx]
        constructor <;> simp only [hc, setCb_uid]
        · exact (hcb x).lastLe
        · intro hlt; exact (hcb x).notDone (by omega)
        · intro hu hin
          simp only [setCb_listed, List.mem_append, List.mem_singleton] at hin
          rcases hin with hin | hin
          · exact (hcb x).unsubNL hu hin
          · exact hx hin
        · exact (hcb x).retUnsub
        · exact (hcb x).nau
        · exact (hcb x).scanOk
    · simp only; rw [forall_mid]
      refine ⟨?_, ?_⟩
      · constructor <;> simp [tid, todo, isFresh, runs, marking, setCb_cbs]
      · intro u hu
        have h1u := h1o u hu
        refine th2_frame (ho u hu) (Nat.le_refl _) ?_ ?_ ?_
        · intro c hc hin
          simp only [setCb_listed, List.mem_append, List.mem_singleton] at hin
          rcases hin with hin | hin
          · exact hin
          · have := h1u.markLt c hc; omega
        · intro c hc
          have : c ≠ sh.ncb := Nat.ne_of_lt (h1u.workLt c (todo_sub_work u c hc))
          simp [setCb_cbs, this]
        · intro c hc
          have : c ≠ sh.ncb := Nat.ne_of_lt (h1u.holdLt c hc)
          simp only [setCb_cbs, this, if_false]
          exact sameObs_refl _
  | sRelV c sc =>
    refine ⟨hcbsame _ (Nat.le_refl _) rfl rfl (fun _ => rfl) (fun _ => rfl) (fun _ => sameObs_refl _), ?_⟩
    simp only; rw [forall_mid]
    exact ⟨⟨ht.tidLe, ht.lastLt, ht.fresh, ht.runDone, ht.runOpen, ht.markNL⟩,
      hsame _ (Nat.le_refl _) rfl (fun _ => rfl) (fun _ => sameObs_refl _)⟩
  | sEnter c n sc hini =>
    obtain ⟨hevs, hd, hidone, hun⟩ := ht.fresh c (by simp [isFresh])
    have hel : (sh.cbs c).elock = true := hheld c (by simp [holdsE])
    refine ⟨?_, ?_⟩
    · intro x
      by_cases hx : x = c
      · subst hx
        constructor <;> simp only [setCb_cbs, if_true, setCb_uid, setCb_ncb, setCb_listed, hevs, List.nil_append]
        · exact (hcb x).lastLe
        · intro _ hd'; cases hd'
        · exact (hcb x).unsubNL
        · intro hr; simp [hasUnsubRet] at hr
        · simp [noneAfterUnsub]
        · exact ⟨true, rfl, fun _ => hel⟩
      · exact cb2_setCb_ne (hcb x) hx
    · simp only; rw [forall_mid]
      refine ⟨?_, ?_⟩
      · constructor <;> simp [tid, todo, isFresh, runs, marking, setCb_cbs, hevs, scan, scanStep]
      · intro u hu
        exact th2_setCb (ho u hu) (hexE c (by simp [holdsE]) u hu) (fun _ => rfl)
  | sNoInit c sc hini =>
    obtain ⟨hevs, hd, hidone, hun⟩ := ht.fresh c (by simp [isFresh])
    refine ⟨?_, ?_⟩
    · intro x
      by_cases hx : x = c
      · subst hx
        constructor <;> simp only [setCb_cbs, if_true, setCb_uid, setCb_ncb, setCb_listed, hevs]
        · exact (hcb x).lastLe
        · intro _ hd'; cases hd'
        · exact (hcb x).unsubNL
        · intro hr; simp [hasUnsubRet] at hr
        · simp [noneAfterUnsub]
        · exact ⟨false, rfl, fun hb => by cases hb⟩
      · exact cb2_setCb_ne (hcb x) hx
    · simp only; rw [forall_mid]
      refine ⟨th2_idle _ sc, ?_⟩
      intro u hu
      exact th2_setCb (ho u hu) (hexE c (by simp [holdsE]) u hu) (fun _ => rfl)
  | sExit c sc =>
    have hopen : scan (sh.cbs c).evs = some true := ht.runOpen c (by simp [runs])
    have hdone : (sh.cbs c).iniDone = true := ht.runDone c (by simp [runs])
    refine ⟨?_, ?_⟩
    · intro x
      by_cases hx : x = c
      · subst hx
        constructor <;> simp only [setCb_cbs, if_true, setCb_uid, setCb_ncb, setCb_listed]
        · exact (hcb x).lastLe
        · intro _ hd; rw [hdone] at hd; cases hd
        · exact (hcb x).unsubNL
        · rw [hasUnsubRet_exit]; exact (hcb x).retUnsub
        · rw [nau_exit]; exact (hcb x).nau
        · exact ⟨false, by rw [scan_append, hopen]; rfl, fun hb => by cases hb⟩
      · exact cb2_setCb_ne (hcb x) hx
    · simp only; rw [forall_mid]
      refine ⟨th2_idle _ sc, ?_⟩
      intro u hu
      exact th2_setCb (ho u hu) (hexE c (by simp [holdsE]) u hu) (fun _ => rfl)
  | uMark c sc he =>
    have hnl : c ∉ sh.listed := ht.markNL c (by simp [marking])
    refine ⟨?_, ?_⟩
    · intro x
      by_cases hx : x = c
      · subst hx
        constructor <;> simp only [setCb_cbs, if_true, setCb_uid, setCb_ncb, setCb_listed]
        · exact (hcb x).lastLe
        · exact (hcb x).notDone
        · intro _; exact hnl
        · intro _; trivial
        · rw [nau_unsubRet]; exact (hcb x).nau
        · obtain ⟨b, hb, hbe⟩ := (hcb x).scanOk
          refine ⟨b, ?_, hbe⟩
          rw [scan_append, hb]; cases b <;> rfl
      · exact cb2_setCb_ne (hcb x) hx
    · simp only; rw [forall_mid]
      refine ⟨th2_idle _ sc, ?_⟩
      intro u hu
      exact th2_setCb (ho u hu) (hfreeE c he u hu) (fun _ => rfl)

end Hive.Reactive
