import Hive.Model.KVConc
/-!
# C05 protocol model: the transitions of one goroutine, and its thread-local invariant
-/
namespace Hive.KV.Conc
open Hive.Conc

/-- The transitions of `step`, one constructor per kind. -/
inductive TStep (s : Shared) (t : Thread) : Shared → Thread → Prop
  | invoke (op : COp) (rest : List COp) (hc : t.cur = none) (hs : t.script = op :: rest) :
      TStep s t (s.log (.inv t.tid t.idx op)) { t with script := rest, cur := some op, code := compile op, res := none }
  | ret (op : COp) (hc : t.cur = some op) (hcode : t.code = []) :
      TStep s t (s.log (.ret t.tid t.idx t.answer)) { t with cur := none, idx := t.idx + 1, res := none }
  | checkFail (op : COp) (rest : List Instr) (hc : t.cur = some op) (hcode : t.code = .check :: rest)
      (hcl : s.closed = true) :
      TStep s t (s.log (.lin t.tid t.idx .failClosed .closed)) { t with code := [], res := some .closed }
  | checkOk (op : COp) (rest : List Instr) (hc : t.cur = some op) (hcode : t.code = .check :: rest)
      (hcl : s.closed = false) : TStep s t s { t with code := rest }
  | announce (op : COp) (l : LockId) (rest : List Instr) (hc : t.cur = some op) (hcode : t.code = .lock l :: rest)
      (hw : t.waiting = false) :
      TStep s t { s with locks := setLock s.locks l { (s.locks l) with pending := (s.locks l).pending + 1 } }
        { t with waiting := true }
  | acquire (op : COp) (l : LockId) (rest : List Instr) (hc : t.cur = some op) (hcode : t.code = .lock l :: rest)
      (hw : t.waiting = true) (hfree : (s.locks l).writer = false ∧ (s.locks l).readers = 0) :
      TStep s t
        { s with locks := setLock s.locks l { (s.locks l) with writer := true, pending := (s.locks l).pending - 1 } }
        { t with code := rest, waiting := false, held := (l, true) :: t.held }
  | rlock (op : COp) (l : LockId) (rest : List Instr) (hc : t.cur = some op) (hcode : t.code = .rlock l :: rest)
      (hfree : (s.locks l).writer = false ∧ (s.locks l).pending = 0) :
      TStep s t { s with locks := setLock s.locks l { (s.locks l) with readers := (s.locks l).readers + 1 } }
        { t with code := rest, held := (l, false) :: t.held }
  | unlock (op : COp) (l : LockId) (rest : List Instr) (hc : t.cur = some op) (hcode : t.code = .unlock l :: rest) :
      TStep s t { s with locks := setLock s.locks l { (s.locks l) with writer := false } }
        { t with code := rest, held := t.held.erase (l, true) }
  | runlock (op : COp) (l : LockId) (rest : List Instr) (hc : t.cur = some op) (hcode : t.code = .runlock l :: rest) :
      TStep s t { s with locks := setLock s.locks l { (s.locks l) with readers := (s.locks l).readers - 1 } }
        { t with code := rest, held := t.held.erase (l, false) }
  | eff (op : COp) (a : DOp) (rest : List Instr) (hc : t.cur = some op) (hcode : t.code = .eff a :: rest) :
      TStep s t (({ s with m := (a.apply s.m).1 } : Shared).log (.lin t.tid t.idx (.eff a) (a.apply s.m).2))
        { t with code := rest, res := some (a.apply s.m).2 }
  | swap (op : COp) (rest : List Instr) (hc : t.cur = some op) (hcode : t.code = .swapClosed :: rest) :
      TStep s t (({ s with closed := true } : Shared).log (.lin t.tid t.idx .close .ok))
        { t with code := rest, res := some .ok }
  | load (op : COp) (rest : List Instr) (hc : t.cur = some op) (hcode : t.code = .load :: rest) :
      TStep s t s { t with code := rest }

theorem step_tstep {s s' : Shared} {t t' : Thread} (h : (s', t') ∈ step s t) : TStep s t s' t' := by
  unfold step at h
  split at h
  · rename_i hc
    split at h
    · simp at h
    · rename_i op rest hs
      simp only [List.mem_singleton, Prod.mk.injEq] at h
      obtain ⟨rfl, rfl⟩ := h
      exact TStep.invoke op rest hc hs
  · rename_i op hc
    split at h
    · rename_i hcode
      simp only [List.mem_singleton, Prod.mk.injEq] at h
      obtain ⟨rfl, rfl⟩ := h
      exact TStep.ret op hc hcode
    · rename_i rest hcode
      split at h
      · rename_i hcl
        simp only [List.mem_singleton, Prod.mk.injEq] at h
        obtain ⟨rfl, rfl⟩ := h
        exact TStep.checkFail op rest hc hcode hcl
      · rename_i hcl
        simp only [List.mem_singleton, Prod.mk.injEq] at h
        obtain ⟨rfl, rfl⟩ := h
        exact TStep.checkOk op rest hc hcode (by simpa using hcl)
    · rename_i l rest hcode
      split at h
      · rename_i hw
        split at h
        · rename_i hfree
          simp only [List.mem_singleton, Prod.mk.injEq] at h
          obtain ⟨rfl, rfl⟩ := h
          exact TStep.acquire op l rest hc hcode hw hfree
        · simp at h
      · rename_i hw
        simp only [List.mem_singleton, Prod.mk.injEq] at h
        obtain ⟨rfl, rfl⟩ := h
        exact TStep.announce op l rest hc hcode (by simpa using hw)
    · rename_i l rest hcode
      split at h
      · rename_i hfree
        simp only [List.mem_singleton, Prod.mk.injEq] at h
        obtain ⟨rfl, rfl⟩ := h
        exact TStep.rlock op l rest hc hcode hfree
      · simp at h
    · rename_i l rest hcode
      simp only [List.mem_singleton, Prod.mk.injEq] at h
      obtain ⟨rfl, rfl⟩ := h
      exact TStep.unlock op l rest hc hcode
    · rename_i l rest hcode
      simp only [List.mem_singleton, Prod.mk.injEq] at h
      obtain ⟨rfl, rfl⟩ := h
      exact TStep.runlock op l rest hc hcode
    · rename_i a rest hcode
      simp only [List.mem_singleton, Prod.mk.injEq] at h
      obtain ⟨rfl, rfl⟩ := h
      exact TStep.eff op a rest hc hcode
    · rename_i rest hcode
      simp only [List.mem_singleton, Prod.mk.injEq] at h
      obtain ⟨rfl, rfl⟩ := h
      exact TStep.swap op rest hc hcode
    · rename_i rest hcode
      simp only [List.mem_singleton, Prod.mk.injEq] at h
      obtain ⟨rfl, rfl⟩ := h
      exact TStep.load op rest hc hcode

/-- When a goroutine cannot move it is finished or waits for a lock. -/
theorem stuck_cases {s : Shared} {t : Thread} (h : step s t = []) :
    (t.cur = none ∧ t.script = []) ∨
    (∃ l rest, t.cur ≠ none ∧ t.code = .lock l :: rest ∧ t.waiting = true ∧
      ¬ ((s.locks l).writer = false ∧ (s.locks l).readers = 0)) ∨
    (∃ l rest, t.cur ≠ none ∧ t.code = .rlock l :: rest ∧
      ¬ ((s.locks l).writer = false ∧ (s.locks l).pending = 0)) := by
  unfold step at h
  split at h
  · rename_i hc
    split at h
    · rename_i hs; exact Or.inl ⟨hc, hs⟩
    · simp at h
  · rename_i op hc
    have hne : t.cur ≠ none := by rw [hc]; simp
    split at h
    · simp at h
    · split at h <;> simp at h
    · rename_i l rest hcode
      split at h
      · rename_i hw
        split at h
        · simp at h
        · rename_i hfree
          exact Or.inr (Or.inl ⟨l, rest, hne, hcode, hw, hfree⟩)
      · simp at h
    · rename_i l rest hcode
      split at h
      · simp at h
      · rename_i hfree
        exact Or.inr (Or.inr ⟨l, rest, hne, hcode, hfree⟩)
    all_goals simp at h

/-! ## well-bracketed code -/

/-- `code` can run with the locks `held`: every acquisition has a rank above everything held
(batch < view < map; hence no lock is acquired twice), every release releases a held lock in the
right mode, the closed flag is checked with no lock held, every access to the map happens with the
map lock held — in write mode for a write —, and at the end nothing is held. -/
def wfc : List Instr → List (LockId × Bool) → Bool
  | [], held => held.isEmpty
  | .check :: rest, held => held.isEmpty && wfc rest held
  | .lock l :: rest, held => held.all (fun h => rank h.1 < rank l) && wfc rest ((l, true) :: held)
  | .rlock l :: rest, held => held.all (fun h => rank h.1 < rank l) && wfc rest ((l, false) :: held)
  | .unlock l :: rest, held => held.contains (l, true) && wfc rest (held.erase (l, true))
  | .runlock l :: rest, held => held.contains (l, false) && wfc rest (held.erase (l, false))
  | .eff a :: rest, held =>
    (!a.touchesMap ||
      (if a.isWrite then held.contains (.map, true) else (held.contains (.map, true) || held.contains (.map, false))))
      && wfc rest held
  | .swapClosed :: rest, held => wfc rest held
  | .load :: rest, held => held.isEmpty && wfc rest held

theorem isWrite_writeOp (r : Bytes) (w : Write) : (writeOp r w).isWrite = true := by
  obtain ⟨k, o⟩ := w
  cases o <;> rfl

theorem wf_commitWrites (r : Bytes) (ws : List Write) (tail : List Instr) (held : List (LockId × Bool))
    (hr : held.all (fun h => rank h.1 < rank .map) = true) (ht : wfc tail held = true) :
    wfc (commitWrites r ws ++ tail) held = true := by
  induction ws with
  | nil => simpa [commitWrites] using ht
  | cons w ws ih =>
    simp only [commitWrites, List.cons_append, wfc, hr, isWrite_writeOp, if_true, Bool.true_and]
    simp [ih]

theorem wf_compile (op : COp) : wfc (compile op) [] = true := by
  cases op with
  | commit b v r ws =>
    simp only [compile, wfc, List.isEmpty_nil, List.all_nil, Bool.true_and]
    have h1 : ([(LockId.batch b, true)] : List (LockId × Bool)).all (fun h => rank h.1 < rank (.view v)) = true := by
      simp [rank]
    rw [h1, Bool.true_and]
    apply wf_commitWrites
    · simp [rank]
    · simp [wfc]
  | fcommit b v r ws =>
    simp only [compile, wfc, List.isEmpty_nil, List.all_nil, Bool.true_and]
    have h1 : ([(LockId.batch b, true)] : List (LockId × Bool)).all (fun h => rank h.1 < rank (.view v)) = true := by
      simp [rank]
    rw [h1, Bool.true_and]
    apply wf_commitWrites
    · simp [rank]
    · simp [wfc]
  | _ => simp [compile, readCode, writeCode, fwriteCode, iterCode, flagCode, batchCode, wfc, rank, DOp.isWrite, DOp.touchesMap]

/-! ## where `check` and `swapClosed` occur -/

theorem check_not_mem_commitWrites (r : Bytes) (ws : List Write) : Instr.check ∉ commitWrites r ws := by
  induction ws with
  | nil => simp [commitWrites]
  | cons w ws ih => simp [commitWrites, ih]

theorem swap_not_mem_commitWrites (r : Bytes) (ws : List Write) : Instr.swapClosed ∉ commitWrites r ws := by
  induction ws with
  | nil => simp [commitWrites]
  | cons w ws ih => simp [commitWrites, ih]

/-- `closed.Load()` is the first thing a call does, and it does it once. -/
theorem check_only_first (op : COp) (rest : List Instr) (h : compile op = .check :: rest) : Instr.check ∉ rest := by
  cases op with
  | commit b v r ws =>
    simp only [compile, List.cons.injEq, true_and] at h
    subst h
    simp [check_not_mem_commitWrites]
  | fcommit b v r ws =>
    simp only [compile, List.cons.injEq, true_and] at h
    subst h
    simp [check_not_mem_commitWrites]
  | close => simp [compile] at h
  | batchOp b => simp [compile, batchCode] at h
  | callback => simp [compile] at h
  | _ =>
    simp only [compile, readCode, writeCode, fwriteCode, iterCode, flagCode, List.cons.injEq, true_and] at h
    subst h; simp

/-- Only `Close` swaps the flag, and that is all it does. -/
theorem swap_only_close (op : COp) (h : Instr.swapClosed ∈ compile op) : op = .close := by
  cases op with
  | commit b v r ws => simp [compile, swap_not_mem_commitWrites] at h
  | fcommit b v r ws => simp [compile, swap_not_mem_commitWrites] at h
  | close => rfl
  | _ => simp [compile, readCode, writeCode, fwriteCode, iterCode, flagCode, batchCode] at h

/-! ## thread-local invariant -/

structure TInv (t : Thread) : Prop where
  wf : wfc t.code t.held = true
  wait : t.waiting = true → ∃ l rest, t.code = .lock l :: rest
  idle : t.cur = none → t.code = []
  fresh : (Instr.check ∈ t.code ∨ Instr.swapClosed ∈ t.code) →
    ∃ op, t.cur = some op ∧ t.code = compile op ∧ t.res = none

theorem TInv.held_nil {t : Thread} (h : TInv t) (hc : t.code = []) : t.held = [] := by
  have := h.wf
  rw [hc] at this
  simpa [wfc] using this

theorem tinv_init (tid : Nat) (script : List COp) : TInv (initThread tid script) := by
  constructor <;> simp [initThread, wfc]

/-- After the head instruction the rest of the code contains neither `check` nor `swapClosed`. -/
theorem fresh_tail {t : Thread} (h : TInv t) (i : Instr) (rest : List Instr) (hcode : t.code = i :: rest) :
    ¬ (Instr.check ∈ rest ∨ Instr.swapClosed ∈ rest) := by
  intro hm
  have hm' : Instr.check ∈ t.code ∨ Instr.swapClosed ∈ t.code := by
    rw [hcode]; rcases hm with hm | hm
    · exact Or.inl (List.mem_cons_of_mem _ hm)
    · exact Or.inr (List.mem_cons_of_mem _ hm)
  obtain ⟨op, _, hcomp, _⟩ := h.fresh hm'
  rw [hcode] at hcomp
  rcases hm with hm | hm
  · -- `check` in the tail: the head of `compile op` is `check` or `swapClosed`
    cases op with
    | close => simp [compile] at hcomp; simp [hcomp.2] at hm
    | commit b v r ws =>
      have : i = .check := by simp [compile] at hcomp; exact hcomp.1
      subst this
      exact check_only_first _ _ hcomp.symm hm
    | fcommit b v r ws =>
      have : i = .check := by simp [compile] at hcomp; exact hcomp.1
      subst this
      exact check_only_first _ _ hcomp.symm hm
    | batchOp b =>
      simp only [compile, batchCode, List.cons.injEq] at hcomp
      rw [hcomp.2] at hm
      simp at hm
    | callback => simp [compile] at hcomp
    | _ =>
      have : i = .check := by simp [compile, readCode, writeCode, fwriteCode, iterCode, flagCode] at hcomp; exact hcomp.1
      subst this
      exact check_only_first _ _ hcomp.symm hm
  · have hop := swap_only_close op (by rw [← hcomp]; exact List.mem_cons_of_mem _ hm)
    subst hop
    simp [compile] at hcomp
    simp [hcomp.2] at hm

/-- A goroutine whose next instruction is not `lock` is not inside `Lock()`. -/
theorem TInv.nowait {t : Thread} (h : TInv t) (hn : ∀ l rest, t.code ≠ .lock l :: rest) : t.waiting = false := by
  cases hw : t.waiting with
  | false => rfl
  | true => obtain ⟨l, rest, hc⟩ := h.wait hw; exact absurd hc (hn l rest)

theorem tinv_step {s s' : Shared} {t t' : Thread} (hs : TStep s t s' t') (h : TInv t) : TInv t' := by
  have hw := h.wf
  cases hs with
  | invoke op rest hc hs =>
    refine ⟨?_, ?_, ?_, ?_⟩
    · simpa [h.held_nil (h.idle hc)] using wf_compile op
    · intro hw'
      have hnw := h.nowait (fun l r hcode => by rw [h.idle hc] at hcode; cases hcode)
      rw [show t.waiting = true from hw'] at hnw; cases hnw
    · intro hc'; cases hc'
    · intro _; exact ⟨op, rfl, rfl, rfl⟩
  | ret op hc hcode =>
    refine ⟨?_, ?_, ?_, ?_⟩
    · simpa [hcode] using hw
    · intro hw'
      have hnw := h.nowait (fun l r hcode' => by rw [hcode] at hcode'; cases hcode')
      rw [show t.waiting = true from hw'] at hnw; cases hnw
    · intro _; exact hcode
    · intro hm; simp [hcode] at hm
  | checkFail op rest hc hcode hcl =>
    rw [hcode] at hw
    simp only [wfc, Bool.and_eq_true, List.isEmpty_iff] at hw
    refine ⟨?_, ?_, ?_, ?_⟩
    · simp [wfc, hw.1]
    · intro hw'
      have hnw := h.nowait (fun l r hcode' => by rw [hcode] at hcode'; cases hcode')
      rw [show t.waiting = true from hw'] at hnw; cases hnw
    · intro _; rfl
    · intro hm; simp at hm
  | checkOk op rest hc hcode hcl =>
    rw [hcode] at hw
    simp only [wfc, Bool.and_eq_true] at hw
    refine ⟨hw.2, ?_, ?_, ?_⟩
    · intro hw'
      have hnw := h.nowait (fun l r hcode' => by rw [hcode] at hcode'; cases hcode')
      rw [show t.waiting = true from hw'] at hnw; cases hnw
    · intro hc'; rw [show t.cur = none from hc'] at hc; cases hc
    · intro hm; exact absurd hm (fresh_tail h _ _ hcode)
  | announce op l rest hc hcode hwt =>
    refine ⟨hw, ?_, ?_, ?_⟩
    · intro _; exact ⟨l, rest, hcode⟩
    · intro hc'; exact h.idle hc'
    · intro hm; exact h.fresh hm
  | acquire op l rest hc hcode hwt hfree =>
    rw [hcode] at hw
    simp only [wfc, Bool.and_eq_true] at hw
    refine ⟨hw.2, ?_, ?_, ?_⟩
    · intro hw'; cases hw'
    · intro hc'; rw [show t.cur = none from hc'] at hc; cases hc
    · intro hm; exact absurd hm (fresh_tail h _ _ hcode)
  | rlock op l rest hc hcode hfree =>
    rw [hcode] at hw
    simp only [wfc, Bool.and_eq_true] at hw
    refine ⟨hw.2, ?_, ?_, ?_⟩
    · intro hw'
      have hnw := h.nowait (fun l r hcode' => by rw [hcode] at hcode'; cases hcode')
      rw [show t.waiting = true from hw'] at hnw; cases hnw
    · intro hc'; rw [show t.cur = none from hc'] at hc; cases hc
    · intro hm; exact absurd hm (fresh_tail h _ _ hcode)
  | unlock op l rest hc hcode =>
    rw [hcode] at hw
    simp only [wfc, Bool.and_eq_true] at hw
    refine ⟨hw.2, ?_, ?_, ?_⟩
    · intro hw'
      have hnw := h.nowait (fun l r hcode' => by rw [hcode] at hcode'; cases hcode')
      rw [show t.waiting = true from hw'] at hnw; cases hnw
    · intro hc'; rw [show t.cur = none from hc'] at hc; cases hc
    · intro hm; exact absurd hm (fresh_tail h _ _ hcode)
  | runlock op l rest hc hcode =>
    rw [hcode] at hw
    simp only [wfc, Bool.and_eq_true] at hw
    refine ⟨hw.2, ?_, ?_, ?_⟩
    · intro hw'
      have hnw := h.nowait (fun l r hcode' => by rw [hcode] at hcode'; cases hcode')
      rw [show t.waiting = true from hw'] at hnw; cases hnw
    · intro hc'; rw [show t.cur = none from hc'] at hc; cases hc
    · intro hm; exact absurd hm (fresh_tail h _ _ hcode)
  | eff op a rest hc hcode =>
    rw [hcode] at hw
    simp only [wfc, Bool.and_eq_true] at hw
    refine ⟨hw.2, ?_, ?_, ?_⟩
    · intro hw'
      have hnw := h.nowait (fun l r hcode' => by rw [hcode] at hcode'; cases hcode')
      rw [show t.waiting = true from hw'] at hnw; cases hnw
    · intro hc'; rw [show t.cur = none from hc'] at hc; cases hc
    · intro hm; exact absurd hm (fresh_tail h _ _ hcode)
  | swap op rest hc hcode =>
    rw [hcode] at hw
    simp only [wfc] at hw
    refine ⟨hw, ?_, ?_, ?_⟩
    · intro hw'
      have hnw := h.nowait (fun l r hcode' => by rw [hcode] at hcode'; cases hcode')
      rw [show t.waiting = true from hw'] at hnw; cases hnw
    · intro hc'; rw [show t.cur = none from hc'] at hc; cases hc
    · intro hm; exact absurd hm (fresh_tail h _ _ hcode)
  | load op rest hc hcode =>
    rw [hcode] at hw
    simp only [wfc, Bool.and_eq_true] at hw
    refine ⟨hw.2, ?_, ?_, ?_⟩
    · intro hw'
      have hnw := h.nowait (fun l r hcode' => by rw [hcode] at hcode'; cases hcode')
      rw [show t.waiting = true from hw'] at hnw; cases hnw
    · intro hc'; rw [show t.cur = none from hc'] at hc; cases hc
    · intro hm; exact absurd hm (fresh_tail h _ _ hcode)

end Hive.KV.Conc
