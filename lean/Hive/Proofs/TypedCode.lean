import Lean.Elab.Tactic
import Hive.Gen.C06_Code
import Hive.Model.TypedCode
/-!
# The regenerated method bodies of `TypedValue` equal the hand-written model (C06)
-/
namespace Hive.Typed.Code
open Hive.Gen.C06Code

variable {V : Type} [Inhabited V]

open Lean Elab Tactic Meta in
/-- `cases_call f n`: finds a closed subterm of the goal that is an application of the local hypothesis or constant
`f` to `n` arguments (a call of the compute function, of the encoder or of the decoder on concrete arguments), and
splits on its value.  Symbolic evaluation stops at such calls; this is how it gets past them. -/
elab "cases_call " f:ident n:num : tactic => withMainContext do
  let goal ← getMainGoal
  let tgt ← instantiateMVars (← goal.getType)
  let lctx ← getLCtx
  let isHead (e : Expr) : Bool :=
    match e.getAppFn with
    | .fvar id => (lctx.find? id).map (·.userName == f.getId) |>.getD false
    | .const c _ => c == f.getId || (c.isSuffixOf f.getId) || (f.getId.isSuffixOf c)
    | _ => false
  let some t := tgt.find? (fun e => e.isApp && isHead e && e.getAppNumArgs == n.getNat && !e.hasLooseBVars)
    | throwError "cases_call: no closed application of {f.getId} in the goal"
  let (fvs, goal') ← goal.generalize #[{ expr := t }]
  let subs ← goal'.cases fvs[0]!
  replaceMainGoal (subs.map (·.mvarId)).toList

/-- Symbolic evaluation of a translated body. -/
macro "code_eval" : tactic => `(tactic|
  simp [execOpW, errW, prog, exec, start, kvFault, evalB, evalV, evalRs, evalR, evalE, Env.init, Env.setE, Env.setV, Env.setY,
    Env.setB, finish, outErr, outHas, outGet, outCompute, EV.kind, EV.isNil, EV.is, encF, decF,
    Hive.Typed.get, Hive.Typed.has, Hive.Typed.set, Hive.Typed.delete])

theorem code_delete (w : Bool) (C : Codec V) (s : St V) (F : Faults) :
    execOpW w prog C s .delete F = delete s F := by
  obtain ⟨k1, k2, fd, fe⟩ := F
  cases w <;> cases k1 <;> simp only [execOpW, prog, code_Delete] <;> code_eval

theorem code_set (w : Bool) (C : Codec V) (s : St V) (v : V) (F : Faults) :
    execOpW w prog C s (.set v) F = set C s v F := by
  obtain ⟨k1, k2, fd, fe⟩ := F
  cases w <;> cases k1 <;> cases fe <;> simp only [execOpW, prog, code_Set] <;> code_eval <;> cases C.enc v <;> code_eval

theorem code_has (w : Bool) (C : Codec V) (s : St V) (F : Faults) :
    execOpW w prog C s .has F = has s F := by
  obtain ⟨k1, k2, fd, fe⟩ := F
  obtain ⟨st, cv, ch⟩ := s
  cases w <;> cases ch <;> cases k1 <;> simp only [execOpW, prog, code_Has] <;> code_eval

theorem code_get (w : Bool) (C : Codec V) (s : St V) (F : Faults) :
    execOpW w prog C s .get F = get C s F := by
  obtain ⟨k1, k2, fd, fe⟩ := F
  obtain ⟨st, cv, ch⟩ := s
  cases w <;> rcases ch with _ | _ | _ <;> cases cv <;> cases k1 <;> cases st <;> cases fd <;>
    simp only [execOpW, prog, code_Get] <;> code_eval <;> (rename_i b; cases C.dec b <;> code_eval)

/-- The translated `cachedValue` is what the `cached` statement of the language does. -/
theorem code_cachedValue_eq (w : Bool) (C : Codec V) (f : V → Bool → FnRes V) (F : Faults) (m : M V) :
    exec C f F w prog.cachedValue m = .done m [.v (m.st.cv.getD (m.env.v 1)), .b m.st.cv.isSome] := by
  obtain ⟨⟨st, cv, ch⟩, env, tr, nkv⟩ := m
  cases cv <;> simp [prog, code_cachedValue, exec, evalB, evalV, evalRs, evalR]

macro "compute_eval" : tactic => `(tactic|
  simp [compute, computeRead, computeWrite, needsRead, execOpW, errW, prog, exec, start, kvFault, evalB, evalV, evalRs, evalR, evalE, Env.init, Env.setE, Env.setV, Env.setY,
    Env.setB, finish, outCompute, EV.kind, EV.isNil, EV.is, encF, decF])

macro "compute_eval'" : tactic => `(tactic|
  simp [*, compute, computeRead, computeWrite, needsRead, execOpW, errW, prog, exec, start, kvFault, evalB, evalV, evalRs, evalR, evalE, Env.init, Env.setE, Env.setV, Env.setY,
    Env.setB, finish, outCompute, EV.kind, EV.isNil, EV.is, encF, decF])

theorem code_compute (w : Bool) (C : Codec V) (s : St V) (f : V → Bool → FnRes V) (F : Faults) :
    execOpW w prog C s (.compute f) F = compute C s f F := by
  obtain ⟨k1, k2, fd, fe⟩ := F
  obtain ⟨st, cv, ch⟩ := s
  cases w <;> rcases ch with _ | _ | _ <;> cases cv <;> cases k1 <;> cases st <;>
    simp only [execOpW, prog, code_Compute] <;> compute_eval
  all_goals (try (cases_call Codec.dec 3 <;> cases fd <;> (try compute_eval)))
  all_goals (try (cases_call f 2 <;> (try compute_eval)))
  all_goals (try (cases_call Codec.enc 3 <;> cases fe <;> (try compute_eval)))
  all_goals (try (cases k2 <;> compute_eval))

/-- Every operation of the translated code is the model's `step`, whether or not the store wraps its errors. -/
theorem execOpW_eq_step (w : Bool) (C : Codec V) (s : St V) (op : Op V) (F : Faults) :
    execOpW w prog C s op F = step C s op F := by
  cases op with
  | get => exact code_get w C s F
  | has => exact code_has w C s F
  | set v => exact code_set w C s v F
  | delete => exact code_delete w C s F
  | compute f => exact code_compute w C s f F
  | reopen => rfl

theorem execOp_eq_step (C : Codec V) (s : St V) (op : Op V) (F : Faults) :
    execOp prog C s op F = step C s op F := execOpW_eq_step false C s op F

/-- Histories run by the translated code; `ws`: per operation, whether the store wraps its errors. -/
def runCode (P : Prog) (C : Codec V) (s : St V) : List (Bool × Op V × Faults) → St V × List (Out V)
  | [] => (s, [])
  | (w, op, F) :: rest =>
    let r := execOpW w P C s op F
    let (s', os) := runCode P C r.st rest
    (s', r.out :: os)

theorem runCode_eq_run (C : Codec V) (s : St V) (h : List (Bool × Op V × Faults)) :
    runCode prog C s h = run C s (h.map (·.2)) := by
  induction h generalizing s with
  | nil => rfl
  | cons x rest ih =>
    obtain ⟨w, op, F⟩ := x
    simp only [runCode, run, List.map_cons, execOpW_eq_step, ih]

end Hive.Typed.Code
