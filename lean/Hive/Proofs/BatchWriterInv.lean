import Hive.Proofs.BatchWriterThread
/-!
# C08 proofs, part 6: the invariant of the protocol model holds in every reachable configuration

`Inv` bundles the counting invariants (`Cnt`), the writer pipeline (`WO`, `WS`), the life cycle (`LInv`), the
Stop obligations and verdicts (`NInv`), the per-thread facts (`TInv`) and distinct producer identifiers.
`inv_reach`: for every queue size, batch size and thread pool, every reachable configuration satisfies it.
-/
namespace Hive.BatchWriter
open Hive.Conc Hive.Spec.BatchWriter

/-! ### List helpers -/

theorem countP_le_add (p q r : Thread → Bool) (h : ∀ u, p u = true → q u = true ∨ r u = true) (l : List Thread) :
    l.countP p ≤ l.countP q + l.countP r := by
  induction l with
  | nil => simp
  | cons a l ih =>
    simp only [List.countP_cons]
    have := h a
    cases hp : p a <;> cases hq : q a <;> cases hr : r a <;> simp_all <;> omega

theorem countP_le_of_imp (p q : Thread → Bool) (h : ∀ u, p u = true → q u = true) (l : List Thread) :
    l.countP p ≤ l.countP q := by
  induction l with
  | nil => simp
  | cons a l ih =>
    simp only [List.countP_cons]
    have := h a
    cases hp : p a <;> cases hq : q a <;> simp_all <;> omega

theorem one_le_countP_of_mem (p : Thread → Bool) (l : List Thread) (u : Thread) (hu : u ∈ l) (hp : p u = true) :
    1 ≤ l.countP p := by
  have : 0 < l.countP p := List.countP_pos_iff.mpr ⟨u, hu, hp⟩
  omega

theorem step_pid {s s' : St} {t t' : Thread} (hm : (s', t') ∈ step s t) : t'.pid = t.pid := by
  step_cases
  all_goals rfl

theorem distinct_other {pre post : List Thread} {t u : Thread} (hd : distinctIds (pre ++ t :: post))
    (hu : u ∈ pre ∨ u ∈ post) (p : Bool × Nat) (h1 : u.pid = some p) : t.pid ≠ some p := by
  intro h2
  unfold distinctIds at hd
  rw [List.filterMap_append, List.filterMap_cons, h2] at hd
  rw [List.nodup_append] at hd
  obtain ⟨_, h3, h4⟩ := hd
  rcases hu with hu | hu
  · have hm : p ∈ pre.filterMap Thread.pid := List.mem_filterMap.mpr ⟨u, hu, h1⟩
    exact h4 p hm p (List.mem_cons_self) rfl
  · have hm : p ∈ post.filterMap Thread.pid := List.mem_filterMap.mpr ⟨u, hu, h1⟩
    rw [List.nodup_cons] at h3
    exact h3.1 hm

theorem distinct_step {pre post : List Thread} {t t' : Thread} (hd : distinctIds (pre ++ t :: post))
    (h : t'.pid = t.pid) : distinctIds (pre ++ t' :: post) := by
  unfold distinctIds at *
  rw [List.filterMap_append, List.filterMap_cons] at *
  rw [h]; exact hd

theorem holds_imp (o : Nat) (u : Thread) (h : holds o u = true) : atSend u = true := by
  cases u with
  | prod id pc cur sc => cases pc <;> simp [holds, atSend] at h ⊢
  | _ => simp [holds] at h

theorem inWin_imp (u : Thread) (h : inWin u = true) : atSend u = true := by
  cases u with
  | prod id pc cur sc => cases pc <;> simp [inWin, atSend] at h ⊢
  | _ => simp [inWin] at h

theorem atAdd_imp (u : Thread) (h : atAdd u = true) : holdsMu u = true := by
  cases u with
  | prod id pc cur sc => cases pc <;> simp [atAdd, holdsMu] at h ⊢
  | _ => simp [atAdd] at h

theorem atWait_imp (u : Thread) (h : atWait u = true) : holdsMu u = true := by
  cases u with
  | stopper id pc => cases pc <;> simp [atWait, holdsMu] at h ⊢
  | _ => simp [atWait] at h

theorem atLoad_facts (t : Thread) (h : atLoad t = true) : holdsMu t = true ∧ atAdd t = false ∧ atWait t = false := by
  cases t with
  | stopper id pc => cases pc <;> simp [atLoad, holdsMu, atAdd, atWait] at h ⊢
  | _ => simp [atLoad] at h

/-! ### The invariant of the protocol model -/

structure Inv (c : Cfg St Thread) : Prop where
  cnt : Cnt c.1 c.2
  wo : ∀ o, WO c.1 o
  ws : WS c.1
  l : LInv c.1
  n : NInv c.1
  t : ∀ u ∈ c.2, TInv c.1 u
  ids : distinctIds c.2

theorem ind_of_b2n {p : Prop} [Decidable p] {b : Bool} (h : b2n b ≤ if p then 1 else 0) (hb : b = true) : p := by
  subst hb
  by_cases hp : p
  · exact hp
  · simp [b2n, hp] at h

theorem cfacts_of_cnt {s : St} {pre post : List Thread} {t : Thread} (h : Cnt s (pre ++ t :: post)) : CFacts s t := by
  refine ⟨fun hb => ?_, fun hb => ?_, fun hb => ?_, fun hb => ?_, fun hb => ?_, fun hb => ?_⟩
  · have := b2n_le_countP bodyPre pre post t; rw [h.pre] at this; exact ind_of_b2n this hb
  · have := b2n_le_countP bodyPost pre post t; rw [h.post] at this; exact ind_of_b2n this hb
  · have := b2n_le_countP atAdd pre post t; rw [h.add] at this
    have := ind_of_b2n this hb; simpa using this
  · have := b2n_le_countP atGo pre post t; rw [h.go] at this
    have := ind_of_b2n this hb; simpa using this
  · have := b2n_le_countP atWait pre post t; rw [h.wait] at this
    have := ind_of_b2n this hb; simpa using this
  · have := b2n_le_countP inWin pre post t; rw [← h.win] at this; simpa [b2n, hb] using this

theorem holders_excl {s : St} {pre post : List Thread} {t u : Thread} (h : Cnt s (pre ++ t :: post))
    (hu : u ∈ pre ∨ u ∈ post) (h1 : holdsMu t = true) (h2 : holdsMu u = true) : False := by
  have hm := h.mu
  rw [countP_mid] at hm
  simp only [h1, if_true] at hm
  have : 1 ≤ pre.countP holdsMu + post.countP holdsMu := by
    rcases hu with hu | hu
    · have := one_le_countP_of_mem holdsMu pre u hu h2; omega
    · have := one_le_countP_of_mem holdsMu post u hu h2; omega
  split at hm <;> omega

theorem inv_step {s s' : St} {pre post : List Thread} {t t' : Thread} (h : Inv (s, pre ++ t :: post))
    (hm : (s', t') ∈ step s t) : Inv (s', pre ++ t' :: post) := by
  obtain ⟨hc, hwo, hws, hl, hn, ht, hid⟩ := h
  simp only at hc hwo hws hl hn ht hid
  have hcf := cfacts_of_cnt hc
  have htt : TInv s t := ht t (by simp)
  have hsn : ∀ o, s.snt o ≤ s.mon.sch o := fun o => by have := hc.sch o; omega
  have hcz : s.wpc = .loopCnt → s.count = 0 → (pre ++ t :: post).countP atSend = 0 ∧ s.queue = [] := by
    intro hw hcz
    have c2 := hc.count
    have hh : holdC s.wpc = 0 := by simp [holdC, hw]
    rw [hh, hcz] at c2
    exact ⟨by omega, List.eq_nil_of_length_eq_zero (by omega)⟩
  have hex : s.wpc = .loopCnt → s.count = 0 → ∀ o, s.mon.sch o = s.rcv o := by
    intro hw hz o
    obtain ⟨c1, hq⟩ := hcz hw hz
    have c5 := countP_le_of_imp (holds o) atSend (holds_imp o) (pre ++ t :: post)
    have c3 := hc.sch o
    have c4 := (hwo o).rcv_snt
    simp [hq] at c4
    omega
  have hexw : s.wpc = .loopCnt → s.count = 0 → s.win = 0 := by
    intro hw hz
    obtain ⟨c1, _⟩ := hcz hw hz
    have c5 := countP_le_of_imp inWin atSend inWin_imp (pre ++ t :: post)
    have c3 := hc.win
    omega
  have hld : atLoad t = true → (s.running = true → s.added = true) ∧ (s.stopped = true → s.waited = true) := by
    intro hat
    obtain ⟨hmu1, hna, hnw⟩ := atLoad_facts t hat
    have hcm := hc.mu
    rw [countP_mid] at hcm
    simp only [hmu1, if_true] at hcm
    have z : pre.countP holdsMu + post.countP holdsMu = 0 := by split at hcm <;> omega
    have a1 : (pre ++ t :: post).countP atAdd = 0 := by
      rw [countP_mid, hna]
      have e1 := countP_le_of_imp atAdd holdsMu atAdd_imp pre
      have e2 := countP_le_of_imp atAdd holdsMu atAdd_imp post
      simp only [Bool.false_eq_true, if_false]; omega
    have a2 : (pre ++ t :: post).countP atWait = 0 := by
      rw [countP_mid, hnw]
      have e1 := countP_le_of_imp atWait holdsMu atWait_imp pre
      have e2 := countP_le_of_imp atWait holdsMu atWait_imp post
      simp only [Bool.false_eq_true, if_false]; omega
    have b1 := hc.add; rw [a1] at b1
    have b2 := hc.wait; rw [a2] at b2
    constructor
    · intro hr
      have := hl.run_started hr
      by_cases hx : s.added = true
      · exact hx
      · simp [this, hx] at b1
    · intro hs
      by_cases hx : s.waited = true
      · exact hx
      · simp [hs, hx] at b2
  have hl' := linv_step hl htt hcf hexw hm
  have hn' := ninv_step hn hwo hws hl htt hcf hsn hex hm
  have hmo := mono_step hcf hm
  refine ⟨?_, fun o => wo_step (hwo o) hws hm, ws_step hws hm, hl', hn', ?_, distinct_step hid (step_pid hm)⟩
  · -- counting
    refine ⟨?_, ?_, ?_, ?_, ?_, ?_, ?_, ?_, ?_⟩
    · have d := d_win hm (by rw [hc.win]; exact b2n_le_countP _ _ _ _)
      have f := cnt_frame inWin pre post t t'; have := hc.win; simp only at *; omega
    · have d := d_count hm
      have f := cnt_frame atSend pre post t t'; have := hc.count; simp only at *; omega
    · intro o
      have d := d_sch hm o
      have f := cnt_frame (holds o) pre post t t'; have := hc.sch o; simp only at *; omega
    · have d := d_pre hm hcf.pre hcf.post
      have f := cnt_frame bodyPre pre post t t'; have := hc.pre; simp only at *; omega
    · have d := d_post hm hcf.pre hcf.post
      have f := cnt_frame bodyPost pre post t t'; have := hc.post; simp only at *; omega
    · have d := d_mu hm (by
        intro hb; have := b2n_le_countP holdsMu pre post t; rw [hc.mu] at this; exact ind_of_b2n this hb)
      have f := cnt_frame holdsMu pre post t t'; have := hc.mu; simp only at *; omega
    · have d := d_add hm hcf.add (by
        intro hb
        have := hcf.pre hb
        cases hx : s.started
        · rfl
        · have := hl.started_once hx; omega) hl.added_started
      have f := cnt_frame atAdd pre post t t'; have := hc.add; simp only at *; omega
    · have d := d_go hm hcf.go (fun hb => (hcf.add hb).2) hl.spawned_added
      have f := cnt_frame atGo pre post t t'; have := hc.go; simp only at *; omega
    · have d := d_wait hm hcf.wait (by
        intro hb
        have hr : s.running = true := by cases t <;> simp_all [atStore, TInv]
        cases hx : s.stopped
        · rfl
        · have := (hl.stopped_run hx).1; simp_all) hl.waited_stopped
      have f := cnt_frame atWait pre post t t'; have := hc.wait; simp only at *; omega
  · intro u hu
    simp only [List.mem_append, List.mem_cons] at hu
    rcases hu with hu | rfl | hu
    · exact tinv_other (ht u (by simp [hu])) hmo hl'.once_le
        (fun a b => holders_excl hc (Or.inl hu) a b) (fun p hp => distinct_other hid (Or.inl hu) p hp)
    · exact tinv_own htt hl hn hwo hld (fun hb => by
        have := hcf.pre hb
        cases hx : s.running
        · rfl
        · have := hl.run_once hx; omega) hm
    · exact tinv_other (ht u (by simp [hu])) hmo hl'.once_le
        (fun a b => holders_excl hc (Or.inr hu) a b) (fun p hp => distinct_other hid (Or.inr hu) p hp)

theorem inv_init (q b : Nat) (ts : List Thread) (hi : ∀ t ∈ ts, t.initial = true) (hd : distinctIds ts) :
    Inv (initSt q b, ts) := by
  refine ⟨cnt_init q b ts hi, fun o => ?_, ?_, ?_, ?_, ?_, hd⟩
  · refine ⟨?_, ?_, ?_, ?_, ?_⟩ <;> simp [initSt, holdW, holdR]
  · refine ⟨?_, ?_, ?_, ?_, ?_⟩ <;> simp [initSt, atTop]
  · refine ⟨?_, ?_, ?_, ?_, ?_, ?_, ?_, ?_, ?_, ?_, ?_, ?_, ?_, ?_, ?_, ?_⟩ <;> simp [initSt]
  · refine ⟨?_, ?_, ?_, ?_, ?_, ?_⟩ <;> simp [initSt]
  · intro u hu
    have := hi u hu
    cases u with
    | prod id pc cur sc => simp [Thread.initial] at this; subst this; simp [TInv]
    | stopper id pc => simp [Thread.initial] at this; subst this; simp [TInv]
    | _ => trivial

/-- Well-formed initial configurations: every thread is about to start (no call in progress), producer
identifiers are pairwise distinct; any number of producers (each with any script of objects to enqueue),
Stop callers, Flush callers, store observers; any queue and batch size. -/
def Init (q b : Nat) (c : Cfg St Thread) : Prop :=
  c.1 = initSt q b ∧ (∀ t ∈ c.2, t.initial = true) ∧ distinctIds c.2

theorem inv_reach {q b : Nat} {c0 c : Cfg St Thread} (h0 : Init q b c0) (hr : Reach sys c0 c) : Inv c := by
  obtain ⟨s0, ts⟩ := c0
  obtain ⟨rfl, hi, hd⟩ := h0
  refine inv_of_step Inv (inv_init q b ts hi hd) ?_ hr
  intro s pre t post s' t' h hm
  exact inv_step h hm

/-- The ghost monitor is the trace predicate's monitor run over the ghost trace. -/
theorem mon_eq_run {q b : Nat} {c0 c : Cfg St Thread} (h0 : Init q b c0) (hr : Reach sys c0 c) :
    c.1.mon = Mon.run c.1.tr.reverse := by
  obtain ⟨s0, ts⟩ := c0
  obtain ⟨rfl, hi, hd⟩ := h0
  refine inv_of_step (fun c => c.1.mon = Mon.run c.1.tr.reverse) rfl ?_ hr
  intro s pre t post s' t' h hm
  simp only at h ⊢
  step_cases
  all_goals (simp [emit, run_snoc, afterCommit, ← h] <;> (try split) <;> simp_all [run_snoc])
end Hive.BatchWriter
