import Hive.Proofs.DaemonInvA
/-! Invariants of the shutdown loop (`stopWorkers`) of the daemon model. -/
namespace Hive.Daemon

structure InvB (s : St) : Prop where
  /-- While the snapshot is being walked: every counted worker has either been cancelled and belongs to the
  current order group, or is still ahead in the snapshot; the rest of the snapshot is sorted and below `prev`. -/
  loopInv : ∀ prev todo, (s.sd = .loop prev todo ∨ s.sd = .waitMid prev todo) →
      (∀ i, i < s.n → (s.objs i).counted = true →
        ((s.objs i).cancelled = true ∧ ordOf s i = prev) ∨ i ∈ todo) ∧
      todo.Pairwise (fun a b => ordOf s b ≤ ordOf s a) ∧ (∀ i, i ∈ todo → ordOf s i ≤ prev)
  midInv : ∀ prev h rest, s.sd = .waitMid prev (h :: rest) → ordOf s h < prev
  lastInv : ∀ prev, s.sd = .waitLast prev → ∀ i, i < s.n → (s.objs i).counted = true →
      (s.objs i).cancelled = true ∧ ordOf s i = prev
  doneInv : (s.sd = .unrun ∨ s.sd = .clr ∨ s.sd = .done) → ∀ i, i < s.n → (s.objs i).counted = false
  /-- A cancelled worker that is still running has the highest order among the running workers. -/
  canc : ∀ i, i < s.n → (s.objs i).pc = .run → (s.objs i).cancelled = true →
      ∀ j, j < s.n → (s.objs j).pc = .run → ordOf s j ≤ ordOf s i

/-- `InvB` only reads `n`, `objs` and `sd`. -/
theorem invB_congr {s s' : St} (h : InvB s) (hn : s'.n = s.n) (ho : s'.objs = s.objs) (hsd : s'.sd = s.sd) :
    InvB s' := by
  have hord : ∀ i, ordOf s' i = ordOf s i := fun i => by unfold ordOf; rw [ho]
  constructor
  · intro prev todo; rw [hsd, hn, ho]; simp only [hord]; exact h.loopInv prev todo
  · intro prev hd rest; rw [hsd]; simp only [hord]; exact h.midInv prev hd rest
  · intro prev; rw [hsd, hn, ho]; simp only [hord]; exact h.lastInv prev
  · rw [hsd, hn, ho]; exact h.doneInv
  · rw [hn, ho]; simp only [hord]; exact h.canc

theorem invB_emit {s : St} (e : Ev) (h : InvB s) : InvB (emit e s) := invB_congr h rfl rfl rfl

/-- Before the stop flag is set nothing of the shutdown loop is active and nothing is cancelled. -/
theorem invB_of_not_stopped {s : St} (hA : InvA s) (hst : s.stopped = false) : InvB s := by
  have hsd : s.sd = .idle ∨ s.sd = .taken := by
    by_cases h1 : s.sd = .idle
    · exact Or.inl h1
    · by_cases h2 : s.sd = .taken
      · exact Or.inr h2
      · have := hA.stopped_iff.mpr ⟨h1, h2⟩; simp [hst] at this
  constructor
  · intro prev todo h; rcases hsd with h' | h' <;> simp [h'] at h
  · intro prev hd rest h; rcases hsd with h' | h' <;> simp [h'] at h
  · intro prev h; rcases hsd with h' | h' <;> simp [h'] at h
  · intro h; rcases hsd with h' | h' <;> simp [h'] at h
  · intro i hi _ hc; have := hA.nocancel hst i hi; simp [this] at hc

theorem invB_init : InvB init := invB_of_not_stopped invA_init rfl

/-- An object moves forward in its life cycle (or observes its cancellation). -/
theorem invB_setObj {s : St} {i : Nat} {w' : Wk} (h : InvB s)
    (hord : w'.order = (s.objs i).order) (hcn : w'.cancelled = (s.objs i).cancelled)
    (hcnt : w'.counted = true → (s.objs i).counted = true)
    (hrun : w'.pc = .run → (s.objs i).pc = .run) :
    InvB (setObj s i w') := by
  have hord' : ∀ j, ordOf (setObj s i w') j = ordOf s j := ordOf_setObj hord
  have hc : ∀ j, ((setObj s i w').objs j).counted = true → (s.objs j).counted = true := by
    intro j hj
    by_cases hji : j = i
    · subst hji; rw [setObj_objs_same] at hj; exact hcnt hj
    · rwa [setObj_objs_ne _ _ _ _ hji] at hj
  have hcc : ∀ j, ((setObj s i w').objs j).cancelled = (s.objs j).cancelled := by
    intro j
    by_cases hji : j = i
    · subst hji; rw [setObj_objs_same]; exact hcn
    · rw [setObj_objs_ne _ _ _ _ hji]
  have hr : ∀ j, ((setObj s i w').objs j).pc = .run → (s.objs j).pc = .run := by
    intro j hj
    by_cases hji : j = i
    · subst hji; rw [setObj_objs_same] at hj; exact hrun hj
    · rwa [setObj_objs_ne _ _ _ _ hji] at hj
  constructor
  · intro prev todo hsd
    obtain ⟨h1, h2, h3⟩ := h.loopInv prev todo hsd
    refine ⟨?_, ?_, ?_⟩
    · intro j hj hcj
      simp only [hord', hcc]
      exact h1 j hj (hc j hcj)
    · simp only [hord']; exact h2
    · simp only [hord']; exact h3
  · intro prev hd rest hsd; simp only [hord']; exact h.midInv prev hd rest hsd
  · intro prev hsd j hj hcj
    simp only [hord', hcc]
    exact h.lastInv prev hsd j hj (hc j hcj)
  · intro hsd j hj
    have := h.doneInv hsd j hj
    cases hx : ((setObj s i w').objs j).counted with
    | false => rfl
    | true => rw [hc j hx] at this; exact absurd this (by simp)
  · intro a ha hra hca b hb hrb
    simp only [hord']
    rw [hcc] at hca
    exact h.canc a ha (hr a hra) hca b hb (hr b hrb)

theorem invB_wkStep {s s' : St} {i : Nat} (h : InvB s) (hs : s' ∈ wkStep s i) : InvB s' := by
  unfold wkStep at hs
  by_cases hi : i < s.n
  · simp only [hi, if_true] at hs
    cases hpc : (s.objs i).pc with
    | reg => simp [hpc] at hs
    | fin => simp [hpc] at hs
    | run =>
      simp only [hpc, List.mem_append, List.mem_singleton] at hs
      rcases hs with hs | hs
      · subst hs
        apply invB_emit
        exact invB_setObj (i := i) (w' := { s.objs i with pc := .ret }) h rfl rfl
          (by intro _; simp [Wk.counted, hpc]) (by intro h'; simp at h')
      · split at hs
        · simp only [List.mem_singleton] at hs
          subst hs
          apply invB_emit
          exact invB_setObj (i := i) (w' := ⟨(s.objs i).name, (s.objs i).order, .run, (s.objs i).cancelled, true⟩) h rfl rfl
            (by intro _; simp [Wk.counted, hpc]) (by intro _; exact hpc)
        · simp at hs
    | ret =>
      simp only [hpc, List.mem_singleton] at hs
      subst hs
      have := invB_setObj (i := i) (w' := { s.objs i with pc := .dn }) h rfl rfl
          (by intro h'; simp [Wk.counted] at h') (by intro h'; simp at h')
      exact invB_congr this rfl rfl rfl
    | dn =>
      simp only [hpc] at hs
      have hb := invB_setObj (i := i) (w' := { s.objs i with pc := .cl }) h rfl rfl
          (by intro h'; simp [Wk.counted] at h') (by intro h'; simp at h')
      split at hs
      · simp only [List.mem_singleton] at hs; subst hs; exact invB_congr hb rfl rfl rfl
      · simp only [List.mem_singleton] at hs; subst hs; exact invB_congr hb rfl rfl rfl
    | cl =>
      simp only [hpc, List.mem_singleton] at hs
      subst hs
      exact invB_setObj (i := i) (w' := { s.objs i with pc := .fin }) h rfl rfl
          (by intro h'; simp [Wk.counted] at h') (by intro h'; simp at h')
  · simp [hi] at hs

/-! ## shutdown body -/

theorem cntd_false_of_wgc_zero {s : St} (hA : InvA s) {o : Int} (h0 : s.wgc o = 0) {j : Nat} (hj : j < s.n)
    (hc : (s.objs j).counted = true) : ordOf s j ≠ o := by
  intro ho
  have h1 := hA.wg o
  rw [h0] at h1
  have := cnt_zero_iff.mp h1.symm j hj
  simp [cntd, hc] at this
  exact this ho

theorem cancelW_objs_ne (s : St) (i j : Nat) (h : j ≠ i) : (cancelW s i).objs j = s.objs j := by
  unfold cancelW; rw [emit_objs, setObj_objs_ne _ _ _ _ h]

theorem cancelW_objs_same (s : St) (i : Nat) : (cancelW s i).objs i = { s.objs i with cancelled := true } := by
  unfold cancelW; rw [emit_objs, setObj_objs_same]

theorem cancelW_n (s : St) (i : Nat) : (cancelW s i).n = s.n := rfl

theorem cancelW_ord (s : St) (i j : Nat) : ordOf (cancelW s i) j = ordOf s j := by
  unfold ordOf
  by_cases h : j = i
  · subst h; rw [cancelW_objs_same]
  · rw [cancelW_objs_ne _ _ _ h]

theorem cancelW_counted (s : St) (i j : Nat) : ((cancelW s i).objs j).counted = (s.objs j).counted := by
  by_cases h : j = i
  · subst h; rw [cancelW_objs_same]; rfl
  · rw [cancelW_objs_ne _ _ _ h]

theorem cancelW_pc (s : St) (i j : Nat) : ((cancelW s i).objs j).pc = (s.objs j).pc := by
  by_cases h : j = i
  · subst h; rw [cancelW_objs_same]
  · rw [cancelW_objs_ne _ _ _ h]

/-- Cancelling the head of the snapshot and moving on, when the head is either not counted any more or
belongs to the current order group. -/
theorem invB_cancel_head {s : St} {prev : Int} {hd : Nat} {rest : List Nat} (h : InvB s)
    (hsd : s.sd = .loop prev (hd :: rest))
    (hhd : (s.objs hd).counted = true → ordOf s hd = prev) :
    InvB { cancelW s hd with sd := .loop prev rest } := by
  obtain ⟨h1, h2, h3⟩ := h.loopInv prev (hd :: rest) (Or.inl hsd)
  constructor
  · intro prev' todo' hsd'
    have hp : prev' = prev ∧ todo' = rest := by
      rcases hsd' with h' | h'
      · have h'' : SdPc.loop prev rest = SdPc.loop prev' todo' := h'
        injection h'' with a b; exact ⟨a.symm, b.symm⟩
      · have h'' : SdPc.loop prev rest = SdPc.waitMid prev' todo' := h'
        cases h''
    obtain ⟨rfl, rfl⟩ := hp
    refine ⟨?_, ?_, ?_⟩
    · intro j hj hcj
      show (((cancelW s hd).objs j).cancelled = true ∧ ordOf (cancelW s hd) j = prev') ∨ j ∈ todo'
      have hcj' : (s.objs j).counted = true := by rw [← cancelW_counted s hd j]; exact hcj
      rw [cancelW_ord]
      by_cases hji : j = hd
      · subst hji
        left
        rw [cancelW_objs_same]
        exact ⟨rfl, hhd hcj'⟩
      · rw [cancelW_objs_ne _ _ _ hji]
        rcases h1 j hj hcj' with hl | hr
        · exact Or.inl hl
        · rcases List.mem_cons.mp hr with rfl | hr'
          · exact absurd rfl hji
          · exact Or.inr hr'
    · show todo'.Pairwise (fun a b => ordOf (cancelW s hd) b ≤ ordOf (cancelW s hd) a)
      simp only [cancelW_ord]
      exact (List.pairwise_cons.mp h2).2
    · intro j hj
      show ordOf (cancelW s hd) j ≤ prev'
      rw [cancelW_ord]; exact h3 j (List.mem_cons_of_mem _ hj)
  · intro prev' hd' rest' hsd'
    have h'' : SdPc.loop prev rest = SdPc.waitMid prev' (hd' :: rest') := hsd'
    cases h''
  · intro prev' hsd'
    have h'' : SdPc.loop prev rest = SdPc.waitLast prev' := hsd'
    cases h''
  · intro hsd'
    have h'' : SdPc.loop prev rest = SdPc.unrun ∨ SdPc.loop prev rest = SdPc.clr ∨ SdPc.loop prev rest = SdPc.done := hsd'
    simp at h''
  · intro a ha hra hca b hb hrb
    show ordOf (cancelW s hd) b ≤ ordOf (cancelW s hd) a
    have ha' : a < s.n := ha
    have hb' : b < s.n := hb
    have hra' : (s.objs a).pc = .run := by rw [← cancelW_pc s hd a]; exact hra
    have hrb' : (s.objs b).pc = .run := by rw [← cancelW_pc s hd b]; exact hrb
    rw [cancelW_ord, cancelW_ord]
    by_cases hah : a = hd
    · subst hah
      have hca' : (s.objs a).counted = true := (counted_iff _).mpr (Or.inl hra')
      have hoa := hhd hca'
      have hcb' : (s.objs b).counted = true := (counted_iff _).mpr (Or.inl hrb')
      rcases h1 b hb' hcb' with hl | hr
      · rw [hoa, hl.2]; exact Int.le_refl _
      · rw [hoa]; exact h3 b hr
    · have hca' : (s.objs a).cancelled = true := by
        have : (cancelW s hd).objs a = s.objs a := cancelW_objs_ne _ _ _ hah
        rw [this] at hca; exact hca
      exact h.canc a ha' hra' hca' b hb' hrb'

/-- A step of the shutdown body that leaves the objects alone. -/
theorem invB_sd_only {s : St} (h : InvB s) (st' r' : Bool) (sd' : SdPc)
    (hloop : ∀ prev todo, (sd' = .loop prev todo ∨ sd' = .waitMid prev todo) →
      (∀ i, i < s.n → (s.objs i).counted = true →
        ((s.objs i).cancelled = true ∧ ordOf s i = prev) ∨ i ∈ todo) ∧
      todo.Pairwise (fun a b => ordOf s b ≤ ordOf s a) ∧ (∀ i, i ∈ todo → ordOf s i ≤ prev))
    (hmid : ∀ prev hd rest, sd' = .waitMid prev (hd :: rest) → ordOf s hd < prev)
    (hlast : ∀ prev, sd' = .waitLast prev → ∀ i, i < s.n → (s.objs i).counted = true →
      (s.objs i).cancelled = true ∧ ordOf s i = prev)
    (hdone : (sd' = .unrun ∨ sd' = .clr ∨ sd' = .done) → ∀ i, i < s.n → (s.objs i).counted = false) :
    InvB { s with stopped := st', running := r', sd := sd' } :=
  ⟨hloop, hmid, hlast, hdone, h.canc⟩

theorem invB_take {s : St} (h : InvB s) : InvB { s with sd := .taken } := by
  have := invB_sd_only h s.stopped s.running .taken (by simp) (by simp) (by simp) (by simp)
  simpa using this

theorem invB_sdBody {s s' : St} (hA : InvA s) (h : InvB s) (hs : s' ∈ sdBody s) : InvB s' := by
  unfold sdBody at hs
  cases hsd : s.sd with
  | idle => simp [hsd] at hs
  | done => simp [hsd] at hs
  | taken =>
    simp only [hsd, List.mem_singleton] at hs; subst hs
    have := invB_sd_only h true s.running .stoppedSet (by simp) (by simp) (by simp) (by simp)
    simpa using this
  | stoppedSet =>
    simp only [hsd] at hs
    by_cases hr : s.running = true
    · simp only [hr, if_true, List.mem_singleton] at hs; subst hs
      have := invB_sd_only h s.stopped s.running .snap (by simp) (by simp) (by simp) (by simp)
      simpa [hr] using this
    · have hr' : s.running = false := by simpa using hr
      simp only [hr', Bool.false_eq_true, if_false, List.mem_singleton] at hs; subst hs
      have := invB_sd_only h s.stopped s.running .done (by simp) (by simp) (by simp)
        (by intro _ i hi
            have := hA.notrun hr' (Or.inr (Or.inr hsd)) i hi
            simp [Wk.counted, this])
      simpa [hr'] using this
  | snap =>
    have hcl := cleared_false_of_ne_done hA (by simp [hsd])
    simp only [hsd] at hs
    cases hreg : s.regl with
    | nil =>
      simp only [hreg, List.mem_singleton] at hs; subst hs
      have := invB_sd_only h s.stopped s.running .unrun (by simp) (by simp) (by simp)
        (by intro _ i hi
            cases hc : (s.objs i).counted with
            | false => rfl
            | true =>
              have hin : inReg (s.objs i) := by
                rcases (counted_iff _).mp hc with h' | h'
                · exact Or.inl h'
                · exact Or.inr (Or.inl h')
              have := hA.flagreg hcl i hi hin
              simp [hreg] at this)
      simpa [hreg] using this
    | cons hd rest =>
      simp only [hreg, List.mem_singleton] at hs; subst hs
      have hsorted := hA.sorted
      rw [hreg] at hsorted
      have := invB_sd_only h s.stopped s.running (.loop (ordOf s hd) (hd :: rest))
        (by intro prev todo hp
            have hp' : prev = ordOf s hd ∧ todo = hd :: rest := by
              rcases hp with h' | h'
              · injection h' with a b; exact ⟨a.symm, b.symm⟩
              · cases h'
            obtain ⟨rfl, rfl⟩ := hp'
            refine ⟨?_, hsorted, ?_⟩
            · intro i hi hc
              right
              have hin : inReg (s.objs i) := by
                rcases (counted_iff _).mp hc with h' | h'
                · exact Or.inl h'
                · exact Or.inr (Or.inl h')
              have := hA.flagreg hcl i hi hin
              rwa [hreg] at this
            · intro i hi
              rcases List.mem_cons.mp hi with rfl | hi'
              · exact Int.le_refl _
              · exact (List.pairwise_cons.mp hsorted).1 i hi')
        (by intro prev hd' rest' h'; cases h') (by intro prev h'; cases h') (by simp)
      simpa [hreg] using this
  | loop prev todo =>
    obtain ⟨h1, h2, h3⟩ := h.loopInv prev todo (Or.inl hsd)
    cases todo with
    | nil =>
      simp only [hsd, List.mem_singleton] at hs; subst hs
      apply invB_emit
      have := invB_sd_only h s.stopped s.running (.waitLast prev) (by simp) (by simp)
        (by intro prev' h' i hi hc
            injection h' with h'
            subst h'
            rcases h1 i hi hc with hl | hr
            · exact hl
            · simp at hr)
        (by simp)
      simpa using this
    | cons hd rest =>
      simp only [hsd] at hs
      by_cases hfl : (s.objs hd).flag = true
      · simp only [hfl, Bool.not_true, Bool.false_eq_true, if_false] at hs
        by_cases hlt : ordOf s hd < prev
        · simp only [hlt, if_true, List.mem_singleton] at hs; subst hs
          apply invB_emit
          have := invB_sd_only h s.stopped s.running (.waitMid prev (hd :: rest))
            (by intro prev' todo' hp
                have hp' : prev' = prev ∧ todo' = hd :: rest := by
                  rcases hp with h' | h'
                  · cases h'
                  · injection h' with a b; exact ⟨a.symm, b.symm⟩
                obtain ⟨rfl, rfl⟩ := hp'
                exact ⟨h1, h2, h3⟩)
            (by intro prev' hd' rest' h'
                injection h' with a b
                injection b with b1 b2
                subst a; subst b1; exact hlt)
            (by intro prev' h'; cases h') (by simp)
          simpa using this
        · simp only [hlt, if_false, List.mem_singleton] at hs; subst hs
          apply invB_cancel_head h hsd
          intro _
          have := h3 hd (List.mem_cons_self ..)
          omega
      · have hfl' : (s.objs hd).flag = false := by simpa using hfl
        simp only [hfl', Bool.not_false, if_true, List.mem_singleton] at hs; subst hs
        apply invB_cancel_head h hsd
        intro hc
        rcases (flag_false_iff _).mp hfl' with h' | h' <;> rcases (counted_iff _).mp hc with h'' | h'' <;> simp [h'] at h''
  | waitMid prev todo =>
    obtain ⟨h1, h2, h3⟩ := h.loopInv prev todo (Or.inr hsd)
    simp only [hsd] at hs
    by_cases h0 : s.wgc prev = 0
    · simp only [h0, if_true] at hs
      cases todo with
      | nil =>
        simp only [List.mem_singleton] at hs; subst hs
        have := invB_sd_only h s.stopped s.running (.waitLast prev) (by simp) (by simp)
          (by intro prev' h' i hi hc
              injection h' with h'
              subst h'
              rcases h1 i hi hc with hl | hr
              · exact hl
              · simp at hr)
          (by simp)
        simpa using this
      | cons hd rest =>
        simp only [List.mem_singleton] at hs; subst hs
        have := invB_sd_only h s.stopped s.running (.loop (ordOf s hd) (hd :: rest))
          (by intro prev' todo' hp
              have hp' : prev' = ordOf s hd ∧ todo' = hd :: rest := by
                rcases hp with h' | h'
                · injection h' with a b; exact ⟨a.symm, b.symm⟩
                · cases h'
              obtain ⟨rfl, rfl⟩ := hp'
              refine ⟨?_, h2, ?_⟩
              · intro i hi hc
                rcases h1 i hi hc with hl | hr
                · exact absurd hl.2 (cntd_false_of_wgc_zero hA h0 hi hc)
                · exact Or.inr hr
              · intro i hi
                rcases List.mem_cons.mp hi with rfl | hi'
                · exact Int.le_refl _
                · exact (List.pairwise_cons.mp h2).1 i hi')
          (by intro prev' hd' rest' h'; cases h') (by intro prev' h'; cases h') (by simp)
        simpa using this
    · simp [h0] at hs
  | waitLast prev =>
    simp only [hsd] at hs
    by_cases h0 : s.wgc prev = 0
    · simp only [h0, if_true, List.mem_singleton] at hs; subst hs
      have := invB_sd_only h s.stopped s.running .unrun (by simp) (by simp) (by simp)
        (by intro _ i hi
            cases hc : (s.objs i).counted with
            | false => rfl
            | true =>
              have := h.lastInv prev hsd i hi hc
              exact absurd this.2 (cntd_false_of_wgc_zero hA h0 hi hc))
      simpa using this
    · simp [h0] at hs
  | unrun =>
    simp only [hsd, List.mem_singleton] at hs; subst hs
    have := invB_sd_only h s.stopped false .clr (by simp) (by simp) (by simp)
      (by intro _; exact h.doneInv (Or.inl hsd))
    simpa using this
  | clr =>
    simp only [hsd, List.mem_singleton] at hs; subst hs
    have := invB_sd_only h s.stopped s.running .done (by simp) (by simp) (by simp)
      (by intro _; exact h.doneInv (Or.inr (Or.inl hsd)))
    exact invB_congr this rfl rfl rfl

end Hive.Daemon
