import Hive.Spec.OMap
import Hive.Proofs.OMap
/-!
# The pointer-level ordered map refines the abstract one (C11)

`PInv` is the representation invariant of `orderedmap.OrderedMap`: the dictionary's elements form a
doubly linked chain from `head` to `tail` in insertion order, identities increase along the chain,
every element carries the key it is filed under.  `abs` reads the abstract map off the dictionary.
-/
namespace Hive.OMap
namespace PMap

/-! ## heap updates -/

theorem get_setNext (h : List Node) (i j : Nat) (nx : Option Nat) :
    (setNext h i nx)[j]? = if i = j then (h[j]?).map (fun n => { n with next := nx }) else h[j]? := by
  unfold setNext; rw [List.getElem?_modify]
  by_cases hij : i = j <;> cases h[j]? <;> simp [hij]

theorem get_setPrev (h : List Node) (i j : Nat) (pv : Option Nat) :
    (setPrev h i pv)[j]? = if i = j then (h[j]?).map (fun n => { n with prev := pv }) else h[j]? := by
  unfold setPrev; rw [List.getElem?_modify]
  by_cases hij : i = j <;> cases h[j]? <;> simp [hij]

theorem get_setVal (h : List Node) (i j : Nat) (v : Nat) :
    (setVal h i v)[j]? = if i = j then (h[j]?).map (fun n => { n with val := v }) else h[j]? := by
  unfold setVal; rw [List.getElem?_modify]
  by_cases hij : i = j <;> cases h[j]? <;> simp [hij]

theorem length_setNext (h : List Node) (i : Nat) (nx : Option Nat) : (setNext h i nx).length = h.length := by
  simp [setNext]
theorem length_setPrev (h : List Node) (i : Nat) (pv : Option Nat) : (setPrev h i pv).length = h.length := by
  simp [setPrev]
theorem length_setVal (h : List Node) (i : Nat) (v : Nat) : (setVal h i v).length = h.length := by
  simp [setVal]

/-- key and value stored in element `i` (0 for a dangling identity) -/
def keyOf (h : List Node) (i : Nat) : Nat := ((h[i]?).map (·.key)).getD 0
def valOf (h : List Node) (i : Nat) : Nat := ((h[i]?).map (·.val)).getD 0

theorem keyOf_setNext (h : List Node) (i j : Nat) (nx : Option Nat) : keyOf (setNext h i nx) j = keyOf h j := by
  unfold keyOf; rw [get_setNext]; by_cases hij : i = j <;> cases h[j]? <;> simp [hij]
theorem keyOf_setPrev (h : List Node) (i j : Nat) (pv : Option Nat) : keyOf (setPrev h i pv) j = keyOf h j := by
  unfold keyOf; rw [get_setPrev]; by_cases hij : i = j <;> cases h[j]? <;> simp [hij]
theorem keyOf_setVal (h : List Node) (i j : Nat) (v : Nat) : keyOf (setVal h i v) j = keyOf h j := by
  unfold keyOf; rw [get_setVal]; by_cases hij : i = j <;> cases h[j]? <;> simp [hij]
theorem valOf_setNext (h : List Node) (i j : Nat) (nx : Option Nat) : valOf (setNext h i nx) j = valOf h j := by
  unfold valOf; rw [get_setNext]; by_cases hij : i = j <;> cases h[j]? <;> simp [hij]
theorem valOf_setPrev (h : List Node) (i j : Nat) (pv : Option Nat) : valOf (setPrev h i pv) j = valOf h j := by
  unfold valOf; rw [get_setPrev]; by_cases hij : i = j <;> cases h[j]? <;> simp [hij]
theorem valOf_setVal (h : List Node) (i j : Nat) (v : Nat) (hi : i < h.length) :
    valOf (setVal h i v) j = if i = j then v else valOf h j := by
  unfold valOf; rw [get_setVal]
  by_cases hij : i = j
  · subst hij; simp [List.getElem?_eq_getElem hi]
  · simp [hij]

/-! ## doubly linked segments -/

/-- element `i` exists and has exactly these neighbours -/
def NodeIs (h : List Node) (i : Nat) (pv nx : Option Nat) : Prop :=
  ∃ n, h[i]? = some n ∧ n.prev = pv ∧ n.next = nx

/-- `Seg h pv l nx`: the elements `l` are doubly linked in this order, the first one's `prev` is `pv`,
the last one's `next` is `nx`. -/
def Seg (h : List Node) : Option Nat → List Nat → Option Nat → Prop
  | _, [], _ => True
  | pv, i :: rest, nx => NodeIs h i pv ((rest.head?).or nx) ∧ Seg h (some i) rest nx

theorem seg_frame {h h' : List Node} {l : List Nat} (hf : ∀ j ∈ l, h'[j]? = h[j]?) {pv nx : Option Nat}
    (hs : Seg h pv l nx) : Seg h' pv l nx := by
  induction l generalizing pv with
  | nil => trivial
  | cons i r ih =>
    obtain ⟨⟨n, hn, h1, h2⟩, hr⟩ := hs
    exact ⟨⟨n, by rw [hf i (by simp)]; exact hn, h1, h2⟩, ih (fun j hj => hf j (List.mem_cons_of_mem _ hj)) hr⟩

theorem seg_append (h : List Node) (a b : List Nat) (pv nx : Option Nat) :
    Seg h pv (a ++ b) nx ↔ Seg h pv a ((b.head?).or nx) ∧ Seg h ((a.getLast?).or pv) b nx := by
  induction a generalizing pv with
  | nil => simp [Seg]
  | cons i r ih =>
    simp only [List.cons_append, Seg, ih (some i)]
    have e1 : ((r ++ b).head?).or nx = (r.head?).or ((b.head?).or nx) := by
      rw [List.head?_append, Option.or_assoc]
    have e2 : ((i :: r).getLast?).or pv = (r.getLast?).or (some i) := by
      rw [List.getLast?_cons]; cases r.getLast? <;> simp
    rw [e1, e2]
    constructor
    · rintro ⟨h1, h2, h3⟩; exact ⟨⟨h1, h2⟩, h3⟩
    · rintro ⟨⟨h1, h2⟩, h3⟩; exact ⟨h1, h2, h3⟩

/-- redirect the `next` pointer of the last element -/
theorem seg_setNext_last {h : List Node} {l : List Nat} {t : Nat} (hn : l.Nodup) (hl : l.getLast? = some t)
    {pv nx : Option Nat} (nx' : Option Nat) (hs : Seg h pv l nx) : Seg (setNext h t nx') pv l nx' := by
  induction l generalizing pv with
  | nil => simp at hl
  | cons i r ih =>
    obtain ⟨⟨n, hn1, h1, h2⟩, hr⟩ := hs
    cases r with
    | nil =>
      simp at hl; subst hl
      refine ⟨⟨{ n with next := nx' }, ?_, h1, by simp⟩, trivial⟩
      rw [get_setNext]; simp [hn1]
    | cons j r' =>
      have hit : i ≠ t := by
        intro e
        have : t ∈ j :: r' := by
          rw [List.getLast?_cons_cons] at hl
          exact List.mem_of_getLast? hl
        exact (List.nodup_cons.1 hn).1 (e ▸ this)
      have hl' : (j :: r').getLast? = some t := by rw [List.getLast?_cons_cons] at hl; exact hl
      refine ⟨⟨n, ?_, h1, by simpa using h2⟩, ih (List.nodup_cons.1 hn).2 hl' hr⟩
      rw [get_setNext]; simp [Ne.symm hit, hn1]

/-- redirect the `prev` pointer of the first element -/
theorem seg_setPrev_first {h : List Node} {i : Nat} {r : List Nat} (hn : (i :: r).Nodup)
    {pv nx : Option Nat} (pv' : Option Nat) (hs : Seg h pv (i :: r) nx) : Seg (setPrev h i pv') pv' (i :: r) nx := by
  obtain ⟨⟨n, hn1, _, h2⟩, hr⟩ := hs
  refine ⟨⟨{ n with prev := pv' }, ?_, rfl, h2⟩, ?_⟩
  · rw [get_setPrev]; simp [hn1]
  · apply seg_frame _ hr
    intro j hj
    have : i ≠ j := fun e => (List.nodup_cons.1 hn).1 (e ▸ hj)
    rw [get_setPrev]; simp [this]

theorem seg_mem_lt {h : List Node} {l : List Nat} {pv nx : Option Nat} (hs : Seg h pv l nx) :
    ∀ i ∈ l, i < h.length := by
  induction l generalizing pv with
  | nil => simp
  | cons i r ih =>
    obtain ⟨⟨n, hn, _, _⟩, hr⟩ := hs
    intro j hj
    rcases List.mem_cons.1 hj with e | e
    · subst e
      rcases Nat.lt_or_ge j h.length with hlt | hge
      · exact hlt
      · rw [List.getElem?_eq_none hge] at hn; cases hn
    · exact ih hr j e

/-- walking `next` pointers along a segment that ends in `nil` reports its elements in order -/
theorem walk_fwd_seg {h : List Node} {l : List Nat} {pv : Option Nat} (hs : Seg h pv l none) (fuel : Nat)
    (hf : l.length ≤ fuel) : walk h true fuel l.head? = l.map (fun i => (keyOf h i, valOf h i)) := by
  induction l generalizing pv fuel with
  | nil => cases fuel <;> simp [walk]
  | cons i r ih =>
    obtain ⟨⟨n, hn, _, h2⟩, hr⟩ := hs
    cases fuel with
    | zero => simp at hf
    | succ f =>
      simp only [List.head?_cons, walk, hn, if_true, List.map_cons]
      rw [h2, Option.or_none, ih hr f (by simpa using hf)]
      simp [keyOf, valOf, hn]

/-- walking `prev` pointers from the last element of a segment whose first `prev` is `nil` -/
theorem walk_rev_seg {h : List Node} (fuel : Nat) (l : List Nat) {nx : Option Nat} (hs : Seg h none l nx)
    (hf : l.length ≤ fuel) : walk h false fuel l.getLast? = l.reverse.map (fun i => (keyOf h i, valOf h i)) := by
  induction fuel generalizing l nx with
  | zero =>
    have : l = [] := List.eq_nil_of_length_eq_zero (by omega)
    subst this; simp [walk]
  | succ f ih =>
    cases hl : l.getLast? with
    | none =>
      have : l = [] := List.getLast?_eq_none_iff.1 hl
      subst this; simp [walk]
    | some t =>
      obtain ⟨r, hr⟩ := List.getLast?_eq_some_iff.1 hl
      subst hr
      rw [seg_append] at hs
      obtain ⟨hr, ⟨n, hn, h1, _⟩, _⟩ := hs
      simp only [walk, hn, Bool.false_eq_true, if_false, List.reverse_append, List.reverse_cons, List.reverse_nil,
        List.nil_append, List.cons_append, List.map_cons]
      rw [h1, Option.or_none, ih r hr (by simp at hf; omega)]
      simp [keyOf, valOf, hn]

/-! ## representation invariant and abstraction -/

def ids (p : PMap) : List Nat := p.dict.map (·.2)

/-- the abstract map: the dictionary entries in chain order with the values stored in their elements -/
def abs (p : PMap) : AMap := p.dict.map (fun e => (e.1, valOf p.heap e.2))

structure PInv (p : PMap) : Prop where
  sorted : (ids p).Pairwise (· < ·)
  keyOk : ∀ e ∈ p.dict, keyOf p.heap e.2 = e.1
  nodupK : (AMap.keys p.dict).Nodup
  linked : Seg p.heap none (ids p) none
  head : p.head = (ids p).head?
  tail : p.tail = (ids p).getLast?
  size : p.size = p.dict.length

theorem pinv_empty : PInv empty := by
  constructor <;> simp [empty, ids, AMap.keys, Seg]

theorem inj_of_nodup_map {α β : Type} (f : α → β) {l : List α} (hn : (l.map f).Nodup) {a b : α}
    (ha : a ∈ l) (hb : b ∈ l) (e : f a = f b) : a = b := by
  induction l with
  | nil => cases ha
  | cons x r ih =>
    rw [List.map_cons, List.nodup_cons] at hn
    rcases List.mem_cons.1 ha with ha | ha <;> rcases List.mem_cons.1 hb with hb | hb
    · rw [ha, hb]
    · rw [ha] at e; exact absurd (List.mem_map.2 ⟨b, hb, e.symm⟩) hn.1
    · rw [hb] at e; exact absurd (List.mem_map.2 ⟨a, ha, e⟩) hn.1
    · exact ih hn.2 ha hb

theorem PInv.nodupIds {p : PMap} (h : PInv p) : (ids p).Nodup :=
  List.nodup_iff_pairwise_ne.2 (h.sorted.imp (fun hab => Nat.ne_of_lt hab))

theorem PInv.bound {p : PMap} (h : PInv p) : ∀ i ∈ ids p, i < p.heap.length := seg_mem_lt h.linked

theorem get_mapSnd (d : List (Nat × Nat)) (f : Nat → Nat) (k : Nat) :
    AMap.get (d.map (fun e => (e.1, f e.2))) k = (AMap.get d k).map f := by
  induction d with
  | nil => rfl
  | cons e r ih =>
    obtain ⟨a, b⟩ := e
    by_cases h : a = k <;> simp [AMap.get, h, ih]

theorem keys_abs (p : PMap) : AMap.keys (abs p) = AMap.keys p.dict := by
  simp [abs, AMap.keys, List.map_map, Function.comp_def]

theorem dict_get_mem {p : PMap} {k i : Nat} (h : AMap.get p.dict k = some i) : (k, i) ∈ p.dict :=
  AMap.get_some_mem h

theorem mem_ids_of_mem {p : PMap} {e : Nat × Nat} (h : e ∈ p.dict) : e.2 ∈ ids p :=
  List.mem_map.2 ⟨e, h, rfl⟩

theorem heap_some {p : PMap} (hp : PInv p) {i : Nat} (hi : i ∈ ids p) : ∃ n, p.heap[i]? = some n := by
  have := hp.bound i hi
  exact ⟨p.heap[i], List.getElem?_eq_getElem this⟩

/-- `Get` agrees. -/
theorem get_refines {p : PMap} (hp : PInv p) (k : Nat) : p.get k = AMap.get (abs p) k := by
  unfold PMap.get abs
  rw [get_mapSnd]
  cases h : AMap.get p.dict k with
  | none => rfl
  | some i =>
    obtain ⟨n, hn⟩ := heap_some hp (mem_ids_of_mem (dict_get_mem h))
    simp [valOf, hn]

/-- `Has` agrees. -/
theorem has_refines (p : PMap) (k : Nat) : p.has k = AMap.has (abs p) k := by
  unfold PMap.has AMap.has abs
  rw [get_mapSnd]; cases AMap.get p.dict k <;> rfl

theorem seg_setVal {h : List Node} {l : List Nat} {pv nx : Option Nat} (i v : Nat) (hs : Seg h pv l nx) :
    Seg (setVal h i v) pv l nx := by
  induction l generalizing pv with
  | nil => trivial
  | cons j r ih =>
    obtain ⟨⟨n, hn, h1, h2⟩, hr⟩ := hs
    refine ⟨?_, ih hr⟩
    by_cases hij : i = j
    · exact ⟨{ n with val := v }, by rw [get_setVal]; simp [hij, hn], h1, h2⟩
    · exact ⟨n, by rw [get_setVal]; simp [hij, hn], h1, h2⟩

theorem get_append_left' (h : List Node) (x : Node) {j : Nat} (hj : j < h.length) : (h ++ [x])[j]? = h[j]? :=
  List.getElem?_append_left hj

theorem keyOf_append (h : List Node) (x : Node) {j : Nat} (hj : j < h.length) : keyOf (h ++ [x]) j = keyOf h j := by
  simp [keyOf, get_append_left' h x hj]
theorem valOf_append (h : List Node) (x : Node) {j : Nat} (hj : j < h.length) : valOf (h ++ [x]) j = valOf h j := by
  simp [valOf, get_append_left' h x hj]

theorem get_append_new (h : List Node) (x : Node) : (h ++ [x])[h.length]? = some x := by
  rw [List.getElem?_append_right (Nat.le_refl _)]; simp

/-- `Set` refines `AMap.set` and keeps the invariant. -/
theorem set_refines {p : PMap} (hp : PInv p) (k v : Nat) :
    abs (p.set k v).1 = (AMap.set (abs p) k v).1 ∧ (p.set k v).2 = (AMap.set (abs p) k v).2 ∧ PInv (p.set k v).1 := by
  have hget : AMap.get (abs p) k = (AMap.get p.dict k).map (valOf p.heap) := by
    unfold abs; rw [get_mapSnd]
  unfold PMap.set AMap.set
  rw [hget]
  cases h : AMap.get p.dict k with
  | some i =>
    have hmem := dict_get_mem h
    have hi := hp.bound i (mem_ids_of_mem hmem)
    obtain ⟨n, hn⟩ := heap_some hp (mem_ids_of_mem hmem)
    simp only [Option.map_some]
    refine ⟨?_, by simp [valOf, hn], ?_⟩
    · -- the value of exactly this entry changes
      unfold abs AMap.update
      simp only [List.map_map]
      apply List.map_congr_left
      intro e he
      simp only [Function.comp]
      rw [valOf_setVal _ _ _ _ hi]
      by_cases hk : e.1 = k
      · have : e = (k, i) := inj_of_nodup_map (·.1) (show (p.dict.map (·.1)).Nodup from hp.nodupK) he hmem hk
        subst this; simp
      · have : i ≠ e.2 := by
          intro hie
          have : e = (k, i) := inj_of_nodup_map (·.2) (show (p.dict.map (·.2)).Nodup from hp.nodupIds) he hmem hie.symm
          exact hk (by rw [this])
        simp [hk, this]
    · exact ⟨hp.sorted, fun e he => by rw [keyOf_setVal]; exact hp.keyOk e he, hp.nodupK,
        seg_setVal i v hp.linked, hp.head, hp.tail, hp.size⟩
  | none =>
    have hk : k ∉ AMap.keys p.dict := (AMap.get_eq_none_iff _ _).1 h
    simp only [Option.map_none]
    cases hh : p.head with
    | none =>
      have hids : ids p = [] := by
        have := hp.head; rw [hh] at this
        exact List.head?_eq_none_iff.1 this.symm
      have hd : p.dict = [] := by simpa [ids] using hids
      have hsz : p.size = 0 := by rw [hp.size, hd]; rfl
      have habs : abs p = [] := by unfold abs; rw [hd]; rfl
      rw [habs, hd]
      dsimp only
      refine ⟨?_, rfl, ?_⟩
      · show [(k, valOf (p.heap ++ [_]) p.heap.length)] = [(k, v)]
        simp only [valOf, get_append_new]; rfl
      · refine ⟨?_, ?_, ?_, ?_, rfl, rfl, ?_⟩
        · show ([p.heap.length] : List Nat).Pairwise (· < ·)
          simp
        · intro e he
          have he' : e = (k, p.heap.length) := by simpa using he
          subst he'
          show keyOf (p.heap ++ [_]) p.heap.length = k
          simp only [keyOf, get_append_new]; rfl
        · show (AMap.keys [(k, p.heap.length)]).Nodup
          simp [AMap.keys]
        · exact ⟨⟨_, get_append_new _ _, rfl, rfl⟩, trivial⟩
        · show p.size + 1 = 1
          rw [hsz]
    | some hd =>
      have hne : ids p ≠ [] := by
        intro e; have := hp.head; rw [hh, e] at this; cases this
      obtain ⟨t, ht⟩ : ∃ t, (ids p).getLast? = some t := by
        cases hl : (ids p).getLast? with
        | none => exact absurd (List.getLast?_eq_none_iff.1 hl) hne
        | some t => exact ⟨t, rfl⟩
      have htail : p.tail = some t := by rw [hp.tail, ht]
      dsimp only
      simp only [htail]
      have hbound := hp.bound
      have hlen : (setNext p.heap t (some p.heap.length)).length = p.heap.length := length_setNext _ _ _
      have hold : ∀ e ∈ p.dict, e.2 < (setNext p.heap t (some p.heap.length)).length := by
        intro e he; rw [hlen]; exact hbound _ (mem_ids_of_mem he)
      have hnew : ∀ x : Node, (setNext p.heap t (some p.heap.length) ++ [x])[p.heap.length]? = some x := by
        intro x; have := get_append_new (setNext p.heap t (some p.heap.length)) x; rwa [hlen] at this
      have hI : ∀ (h' : List Node) (a b : Option Nat) (n : Nat),
          ids { heap := h', head := a, tail := b, dict := p.dict ++ [(k, p.heap.length)], size := n } = ids p ++ [p.heap.length] := by
        intros; simp [ids]
      refine ⟨?_, trivial, ?_⟩
      · unfold abs
        simp only [List.map_append, List.map_cons, List.map_nil]
        congr 1
        · apply List.map_congr_left
          intro e he
          rw [valOf_append _ _ (hold e he), valOf_setNext]
        · simp only [valOf, hnew]; rfl
      · refine ⟨?_, ?_, ?_, ?_, ?_, ?_, ?_⟩
        · rw [hI, List.pairwise_append]
          refine ⟨hp.sorted, by simp, ?_⟩
          intro a ha b hb
          have : b = p.heap.length := by simpa using hb
          subst this; exact hbound a ha
        · intro e he
          have he' : e ∈ p.dict ∨ e = (k, p.heap.length) := by simpa using he
          rcases he' with he' | he'
          · show keyOf (_ ++ [_]) e.2 = e.1
            rw [keyOf_append _ _ (hold e he'), keyOf_setNext]; exact hp.keyOk e he'
          · subst he'
            show keyOf (_ ++ [_]) p.heap.length = k
            simp only [keyOf, hnew]; rfl
        · show (AMap.keys (p.dict ++ [(k, p.heap.length)])).Nodup
          rw [AMap.keys_append, List.nodup_append]
          refine ⟨hp.nodupK, by simp [AMap.keys], ?_⟩
          intro a ha b hb
          have : b = k := by simpa [AMap.keys] using hb
          subst this
          intro e; exact hk (e ▸ ha)
        · rw [hI, seg_append]
          constructor
          · have h1 := seg_setNext_last hp.nodupIds ht (some p.heap.length) hp.linked
            apply seg_frame _ h1
            intro j hj
            exact get_append_left' _ _ (seg_mem_lt h1 j hj)
          · rw [ht]
            exact ⟨⟨_, hnew _, rfl, rfl⟩, trivial⟩
        · rw [hI, List.head?_append, ← hp.head, hh]; rfl
        · rw [hI]; simp
        · show p.size + 1 = (p.dict ++ [(k, p.heap.length)]).length
          simp [hp.size]

/-! ### Delete -/

theorem keyOf_unlink (h : List Node) (pv nx : Option Nat) (j : Nat) : keyOf (unlink h pv nx) j = keyOf h j := by
  unfold unlink; cases pv <;> cases nx <;> simp [keyOf_setNext, keyOf_setPrev]

theorem valOf_unlink (h : List Node) (pv nx : Option Nat) (j : Nat) : valOf (unlink h pv nx) j = valOf h j := by
  unfold unlink; cases pv <;> cases nx <;> simp [valOf_setNext, valOf_setPrev]

theorem unlink_seg {h : List Node} {pre post : List Nat} {i : Nat} (hn : (pre ++ i :: post).Nodup)
    (hA : Seg h none pre (some i)) (hB : Seg h (some i) post none) :
    Seg (unlink h pre.getLast? post.head?) none (pre ++ post) none := by
  have hnpre : pre.Nodup := (List.nodup_append.1 hn).1
  have hnpost : post.Nodup := (List.nodup_cons.1 (List.nodup_append.1 hn).2.1).2
  have hdisj : ∀ a ∈ pre, ∀ b ∈ post, a ≠ b := fun a ha b hb =>
    (List.nodup_append.1 hn).2.2 a ha b (List.mem_cons_of_mem _ hb)
  rw [seg_append]
  unfold unlink
  cases hpre : pre.getLast? with
  | none =>
    have : pre = [] := List.getLast?_eq_none_iff.1 hpre
    subst this
    cases hpost : post.head? with
    | none =>
      have : post = [] := List.head?_eq_none_iff.1 hpost
      subst this; exact ⟨trivial, trivial⟩
    | some ph =>
      obtain ⟨post', hp'⟩ := List.head?_eq_some_iff.1 hpost
      subst hp'
      exact ⟨trivial, seg_setPrev_first hnpost none hB⟩
  | some pl =>
    have hplmem : pl ∈ pre := List.mem_of_getLast? hpre
    cases hpost : post.head? with
    | none =>
      have : post = [] := List.head?_eq_none_iff.1 hpost
      subst this
      exact ⟨seg_setNext_last hnpre hpre none hA, trivial⟩
    | some ph =>
      obtain ⟨post', hp'⟩ := List.head?_eq_some_iff.1 hpost
      subst hp'
      have hphmem : ph ∈ ph :: post' := by simp
      constructor
      · have h1 := seg_setNext_last hnpre hpre (some ph) hA
        apply seg_frame _ h1
        intro j hj
        have : ph ≠ j := fun e => hdisj j hj ph hphmem e.symm
        rw [get_setPrev]; simp [this]
      · have h1 : Seg (setNext h pl (some ph)) (some i) (ph :: post') none := by
          apply seg_frame _ hB
          intro j hj
          have : pl ≠ j := fun e => hdisj pl hplmem j hj e
          rw [get_setNext]; simp [this]
        exact seg_setPrev_first hnpost (some pl) h1

theorem remove_split {d1 d2 : List (Nat × Nat)} {k i : Nat} (hn : (AMap.keys (d1 ++ (k, i) :: d2)).Nodup) :
    AMap.remove (d1 ++ (k, i) :: d2) k = d1 ++ d2 := by
  simp only [AMap.keys, List.map_append, List.map_cons] at hn
  have h1 : ∀ e ∈ d1, e.1 ≠ k := fun e he hk =>
    (List.nodup_append.1 hn).2.2 e.1 (List.mem_map.2 ⟨e, he, rfl⟩) k (by simp) hk
  have h2 : ∀ e ∈ d2, e.1 ≠ k := fun e he hk =>
    (List.nodup_cons.1 (List.nodup_append.1 hn).2.1).1 (List.mem_map.2 ⟨e, he, hk⟩)
  unfold AMap.remove
  rw [List.filter_append, List.filter_cons]
  simp only [bne_self_eq_false, Bool.false_eq_true, if_false]
  rw [List.filter_eq_self.2 (fun e he => by simpa using h1 e he), List.filter_eq_self.2 (fun e he => by simpa using h2 e he)]

theorem remove_abs (p : PMap) (k : Nat) :
    AMap.remove (abs p) k = (AMap.remove p.dict k).map (fun e => (e.1, valOf p.heap e.2)) := by
  unfold AMap.remove abs
  rw [List.filter_map]; rfl

/-- `Delete` refines `AMap.delete` and keeps the invariant. -/
theorem delete_refines {p : PMap} (hp : PInv p) (k : Nat) :
    abs (p.delete k).1 = (AMap.delete (abs p) k).1 ∧ (p.delete k).2 = (AMap.delete (abs p) k).2 ∧ PInv (p.delete k).1 := by
  have hget : AMap.get (abs p) k = (AMap.get p.dict k).map (valOf p.heap) := by
    unfold abs; rw [get_mapSnd]
  unfold PMap.delete AMap.delete
  rw [hget]
  cases h : AMap.get p.dict k with
  | none => exact ⟨rfl, rfl, hp⟩
  | some i =>
    have hmem := dict_get_mem h
    obtain ⟨n, hn⟩ := heap_some hp (mem_ids_of_mem hmem)
    obtain ⟨d1, d2, hd⟩ := List.append_of_mem hmem
    have hids : ids p = d1.map (·.2) ++ i :: d2.map (·.2) := by simp [ids, hd]
    have hlinked := hp.linked
    rw [hids, seg_append] at hlinked
    obtain ⟨hA, ⟨n', hn', hpv, hnx⟩, hB⟩ := hlinked
    rw [hn] at hn'; cases hn'
    simp only [List.head?_cons, Option.some_or, Option.or_none] at hA hpv hnx
    have hnd : (d1.map (·.2) ++ i :: d2.map (·.2)).Nodup := hids ▸ hp.nodupIds
    have hrem : AMap.remove p.dict k = d1 ++ d2 := by
      rw [hd]; exact remove_split (hd ▸ hp.nodupK)
    simp only [hn, Option.map_some]
    rw [hpv, hnx]
    refine ⟨?_, trivial, ?_⟩
    · rw [remove_abs]
      unfold abs
      apply List.map_congr_left
      intro e _
      simp only [valOf_unlink]
    · have hI : ∀ (h' : List Node) (a b : Option Nat) (m : Nat),
          ids { heap := h', head := a, tail := b, dict := AMap.remove p.dict k, size := m }
            = d1.map (·.2) ++ d2.map (·.2) := by
        intros; simp [ids, hrem]
      refine ⟨?_, ?_, ?_, ?_, ?_, ?_, ?_⟩
      · rw [hI]
        have := hp.sorted; rw [hids] at this
        exact this.sublist (List.Sublist.append (List.Sublist.refl _) (List.sublist_cons_self _ _))
      · intro e he
        have he' : e ∈ p.dict := by
          have : e ∈ AMap.remove p.dict k := he
          exact (List.mem_filter.1 this).1
        show keyOf (unlink _ _ _) e.2 = e.1
        rw [keyOf_unlink]; exact hp.keyOk e he'
      · show (AMap.keys (AMap.remove p.dict k)).Nodup
        rw [AMap.keys_remove]; exact hp.nodupK.sublist List.filter_sublist
      · rw [hI]; exact unlink_seg hnd hA hB
      · rw [hI]
        show (match (d1.map (fun e : Nat × Nat => e.2)).getLast? with
          | some _ => p.head
          | none => (d2.map (fun e : Nat × Nat => e.2)).head?) = _
        cases hl : (d1.map (·.2)).getLast? with
        | none =>
          have : d1.map (·.2) = [] := List.getLast?_eq_none_iff.1 hl
          simp [this]
        | some pl =>
          have hne : d1.map (·.2) ≠ [] := by intro e; rw [e] at hl; cases hl
          simp only [hp.head, hids]
          rw [List.head?_append, List.head?_append]
          cases hh : (d1.map (·.2)).head? with
          | none => exact absurd (List.head?_eq_none_iff.1 hh) hne
          | some a => rfl
      · rw [hI]
        show (match (d2.map (fun e : Nat × Nat => e.2)).head? with
          | some _ => p.tail
          | none => (d1.map (fun e : Nat × Nat => e.2)).getLast?) = _
        cases hl : (d2.map (·.2)).head? with
        | none =>
          have : d2.map (·.2) = [] := List.head?_eq_none_iff.1 hl
          simp [this]
        | some ph =>
          have hne : d2.map (·.2) ≠ [] := by intro e; rw [e] at hl; cases hl
          simp only [hp.tail, hids]
          rw [List.getLast?_append, List.getLast?_append, List.getLast?_cons]
          cases hh : (d2.map (·.2)).getLast? with
          | none => exact absurd (List.getLast?_eq_none_iff.1 hh) hne
          | some a => rfl
      · show p.size - 1 = (AMap.remove p.dict k).length
        rw [hrem, hp.size, hd]; simp

/-- `Clear`. -/
theorem clear_refines (p : PMap) : abs p.clear = [] ∧ PInv p.clear := by
  refine ⟨rfl, ?_⟩
  constructor <;> simp [clear, ids, AMap.keys, Seg]

/-! ### iteration and the ends -/

theorem ids_length_le {p : PMap} (hp : PInv p) : (ids p).length ≤ p.heap.length := by
  have := length_le_of_nodup_subset (a := ids p) (b := List.range p.heap.length) hp.nodupIds
    (fun x hx => List.mem_range.2 (hp.bound x hx))
  simpa using this

theorem entries_eq_abs {p : PMap} (hp : PInv p) :
    (ids p).map (fun i => (keyOf p.heap i, valOf p.heap i)) = abs p := by
  unfold ids abs
  rw [List.map_map]
  apply List.map_congr_left
  intro e he
  simp [Function.comp, hp.keyOk e he]

/-- `ForEach` without interference visits exactly the abstract map, in order. -/
theorem forEach_refines {p : PMap} (hp : PInv p) : p.forEach = abs p := by
  unfold forEach
  rw [hp.head, walk_fwd_seg hp.linked _ (ids_length_le hp), entries_eq_abs hp]

/-- `ForEachReverse` visits it in reverse order. -/
theorem forEachReverse_refines {p : PMap} (hp : PInv p) : p.forEachReverse = (abs p).reverse := by
  unfold forEachReverse
  rw [hp.tail, walk_rev_seg _ _ hp.linked (ids_length_le hp), ← entries_eq_abs hp, List.map_reverse]

theorem entry_eq {p : PMap} (hp : PInv p) {i : Nat} (hi : i ∈ ids p) :
    entry p.heap (some i) = some (keyOf p.heap i, valOf p.heap i) := by
  obtain ⟨n, hn⟩ := heap_some hp hi
  simp [entry, keyOf, valOf, hn]

/-- `Head` / `Tail`. -/
theorem head_refines {p : PMap} (hp : PInv p) : p.headKV = AMap.head (abs p) := by
  unfold headKV AMap.head
  rw [← entries_eq_abs hp, hp.head, List.head?_map]
  cases h : (ids p).head? with
  | none => rfl
  | some i => rw [entry_eq hp (List.mem_of_head? h)]; rfl

theorem tail_refines {p : PMap} (hp : PInv p) : p.tailKV = AMap.tail (abs p) := by
  unfold tailKV AMap.tail
  rw [← entries_eq_abs hp, hp.tail, List.getLast?_map]
  cases h : (ids p).getLast? with
  | none => rfl
  | some i => rw [entry_eq hp (List.mem_of_getLast? h)]; rfl

theorem size_refines {p : PMap} (hp : PInv p) : p.size = AMap.size (abs p) := by
  simp [hp.size, AMap.size, abs]

/-! ### histories -/

theorem applyOp_refines {p : PMap} (hp : PInv p) (op : MOp) :
    abs (applyOp p op) = AMap.applyOp (abs p) op ∧ PInv (applyOp p op) := by
  cases op with
  | set k v => exact ⟨(set_refines hp k v).1, (set_refines hp k v).2.2⟩
  | del k => exact ⟨(delete_refines hp k).1, (delete_refines hp k).2.2⟩
  | clear => exact clear_refines p

theorem applyOps_refines {p : PMap} (hp : PInv p) (ops : List MOp) :
    abs (applyOps p ops) = ops.foldl AMap.applyOp (abs p) ∧ PInv (applyOps p ops) := by
  induction ops generalizing p with
  | nil => exact ⟨rfl, hp⟩
  | cons op r ih =>
    have h1 := applyOp_refines hp op
    have h2 := ih h1.2
    simp only [applyOps, List.foldl_cons] at h2 ⊢
    rw [h1.1] at h2
    exact h2

theorem run_refines (h : List MOp) : abs (PMap.run h) = AMap.run h ∧ PInv (PMap.run h) := by
  have := applyOps_refines pinv_empty h
  simpa [PMap.run, AMap.run, applyOps, abs, empty] using this

end PMap
end Hive.OMap
