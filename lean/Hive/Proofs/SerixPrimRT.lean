import Hive.Proofs.SerixPrim
/-!
# The `Serializer` / `Deserializer` primitive pairs round-trip (one layer below serix)

Over the call-by-call model of serializer/serializer.go (`Hive/Model/SerixPrim.lean`, tied to the real chains by the
harness part `c03/prim`): for every `WriteX` call that completes without storing an error, the mirrored `ReadX`
call on the written bytes — followed by anything, at any offset — hands back the value written (numbers reduced
to their width, timestamps saturated, auto-sorted sequences sorted bytewise), advances by exactly the number of
bytes written and stores no error (`prim_roundtrip`).  `prim_chain_roundtrip` lifts this to whole chains:
`WriteNum/ReadNum`, `WriteBool/ReadBool`, `WriteByte/ReadByte`, `WriteBytes/ReadBytes`,
`WriteVariableByteSlice/ReadVariableByteSlice`, `WriteString/ReadString`, `WriteTime/ReadTime`,
`WriteUint256/ReadUint256`, the object-code prefix (`WriteNum(code)` / `CheckTypePrefix`),
`WriteSliceOfByteSlices/ReadSequenceOfObjects`; `WritePayloadLength/ReadPayloadLength` separately (the reader is not
part of the sticky chain).
-/
namespace Hive.Serix

/-- An element the item reader of the harness (a length byte and that many bytes) reads back as itself. -/
def itemOk : Bytes → Bool
  | [] => false
  | n :: rest => rest.length == n.toNat

/-- The reader call that mirrors a writer call (`sg`: the destination of `ReadNum` is a signed type). -/
def WOp.mirror (sg : Bool) : WOp → Option ROp
  | .num w _ => some (.num w sg)
  | .bool _ => some .bool
  | .byte _ => some .byte
  | .fixed bs => some (.fixed bs.length)
  | .varBytes lp mn mx _ => some (.varBytes lp mn mx)
  | .str lp mn mx _ => some (.str lp mn mx)
  | .time _ => some .time
  | .u256 _ => some .u256
  | .code c => some (.code c)
  | .seq lp r val _ => some (.seq lp r val)
  | .numBad => none
  | .payloadLen _ => none

/-- What the mirrored reader hands to its destination. -/
def WOp.readBack (sg : Bool) : WOp → Option PV
  | .num w x => some (.int (if sg then toSigned w (x % (256 : Int) ^ w).toNat else ((x % (256 : Int) ^ w).toNat : Int)))
  | .bool b => some (.int (if b then 1 else 0))
  | .byte x => some (.int ((x % 256 : Nat) : Int))
  | .fixed bs => some (.bytes bs)
  | .varBytes _ _ _ bs => some (.bytes bs)
  | .str _ _ _ bs => some (.bytes bs)
  | .time x => some (.int (timeOfU64 (timeToU64 x)))
  | .u256 (some x) => some (.int x)
  | .seq _ r _ items => some (.items (if r.autoSort && r.lex then sortBytes items else items))
  | _ => none

/-- Side condition of the sequence pair: the elements are what the item reader can delimit. -/
def WOp.itemsOk : WOp → Bool
  | .seq _ _ _ items => items.all itemOk
  | _ => true

/-! ## helpers -/

theorem take_append_of_length {α : Type} {a b : List α} {n : Nat} (h : a.length = n) : (a ++ b).take n = a := by
  subst h; exact take_append_length a b

theorem drop_append_of_length {α : Type} {a b : List α} {n : Nat} (h : a.length = n) : (a ++ b).drop n = b := by
  subst h; exact drop_append_length a b

theorem wLen_done {lp : LP} {l : Nat} {p : Bytes} (h : wLen lp l = .done p none) :
    ∃ w, lp.width = some w ∧ l < 256 ^ w ∧ p = leBytes w l := by
  unfold wLen at h
  cases hw : lp.width with
  | none => simp [hw] at h
  | some w =>
    simp only [hw] at h
    by_cases hl : l < 256 ^ w
    · simp only [hl, if_true, WOut.done.injEq, and_true] at h
      exact ⟨w, rfl, hl, h.symm⟩
    · simp [hl] at h

theorem itemLen_append {x : Bytes} (hx : itemOk x = true) (tail : Bytes) : itemLen (x ++ tail) = some x.length := by
  cases x with
  | nil => simp [itemOk] at hx
  | cons n p =>
    simp only [itemOk, beq_iff_eq] at hx
    simp only [List.cons_append, itemLen, List.length_append, List.length_cons]
    rw [if_neg (by omega)]
    congr 1; omega

theorem vRun_cons_none {r : Rules} {st : VSt} {x : Bytes} {xs : List Bytes} (h : (vRun r st (x :: xs)).2 = none) :
    vErr r st x = none ∧ (vRun r (vNext r st x) xs).2 = none := by
  simp only [vRun] at h
  cases hx : vErr r st x with
  | some e => simp [hx] at h
  | none => simp only [hx] at h; exact ⟨rfl, h⟩

/-- The item loop of `ReadSequenceOfObjects` over the concatenation of delimitable elements the validators accept. -/
theorem rLoop_flatten (r : Rules) (val : Bool) : ∀ (data : List Bytes) (st : VSt) (rest : Bytes),
    (∀ x ∈ data, itemOk x = true) → (val = true → (vRun r st data).2 = none) →
    rLoop r val data.length st (data.flatten ++ rest) = (data, data.flatten.length, none)
  | [], _, _, _, _ => by simp [rLoop]
  | x :: xs, st, rest, hok, hv => by
    have hx := hok x (List.mem_cons_self ..)
    have hl : itemLen (x ++ (xs.flatten ++ rest)) = some x.length := itemLen_append hx _
    have hve : (if val = true then vErr r st x else none) = none := by
      cases val with
      | false => rfl
      | true => simp [(vRun_cons_none (hv rfl)).1]
    have ih := rLoop_flatten r val xs (vNext r st x) rest (fun y hy => hok y (List.mem_cons_of_mem _ hy))
      (fun hval => (vRun_cons_none (hv hval)).2)
    simp only [List.length_cons, List.flatten_cons, List.append_assoc, rLoop, hl, take_append_length, hve,
      drop_append_length, ih, List.length_append]

theorem all_itemOk_of_perm {l l' : List Bytes} (hp : l'.Perm l) (h : l.all itemOk = true) : ∀ x ∈ l', itemOk x = true := by
  intro x hx
  exact List.all_eq_true.1 h x (hp.mem_iff.1 hx)

/-! ## one call -/

/-- **Every primitive pair.**  A `WriteX` call that completes without an error, then the mirrored `ReadX` on what
it wrote followed by any `rest`: the value written comes back, the offset advances by the bytes written, no
error. -/
theorem prim_roundtrip (sg : Bool) (op : WOp) (m : ROp) (b : Bytes) (hw : wOp op = .done b none)
    (hm : op.mirror sg = some m) (hi : op.itemsOk = true) (rest : Bytes) (total off : Nat) :
    rOp (b ++ rest) total off m = .done (op.readBack sg) b.length none := by
  cases op with
  | num w x =>
    simp only [WOp.mirror, Option.some.injEq] at hm; subst hm
    simp only [wOp, WOut.done.injEq, and_true] at hw; subst hw
    have hlt := leNat_emod_lt w x
    simp only [rOp, List.length_append, leBytes_length, take_append_of_length (leBytes_length _ _),
      leNat_leBytes_of_lt hlt, WOp.readBack]
    rw [if_neg (by omega)]
  | numBad => simp [WOp.mirror] at hm
  | bool v =>
    simp only [WOp.mirror, Option.some.injEq] at hm; subst hm
    simp only [wOp, WOut.done.injEq, and_true] at hw; subst hw
    cases v <;> simp [rOp, WOp.readBack]
  | byte x =>
    simp only [WOp.mirror, Option.some.injEq] at hm; subst hm
    simp only [wOp, WOut.done.injEq, and_true] at hw; subst hw
    simp [rOp, WOp.readBack]
  | fixed bs =>
    simp only [WOp.mirror, Option.some.injEq] at hm; subst hm
    simp only [wOp, WOut.done.injEq, and_true] at hw; subst hw
    simp only [rOp, List.length_append, take_append_length, WOp.readBack]
    rw [if_neg (by omega)]
  | varBytes lp mn mx bs =>
    simp only [WOp.mirror, Option.some.injEq] at hm; subst hm
    simp only [wOp] at hw
    split at hw
    · simp at hw
    · rename_i h1
      split at hw
      · simp at hw
      · rename_i h2
        cases hl : wLen lp bs.length with
        | panic => simp [hl] at hw
        | done p e =>
          cases e with
          | some e => simp [hl] at hw
          | none =>
            simp only [hl, WOut.done.injEq, and_true] at hw; subst hw
            obtain ⟨w, hwd, hlt, rfl⟩ := wLen_done hl
            simp only [rOp, hwd, List.append_assoc, List.length_append, leBytes_length,
              take_append_of_length (leBytes_length _ _), drop_append_of_length (leBytes_length _ _),
              leNat_leBytes_of_lt hlt, take_append_length, WOp.readBack]
            rw [if_neg (by omega), if_neg h1, if_neg h2, if_neg (by omega)]
  | str lp mn mx bs =>
    simp only [WOp.mirror, Option.some.injEq] at hm; subst hm
    simp only [wOp] at hw
    split at hw
    · simp at hw
    · rename_i h1
      split at hw
      · simp at hw
      · rename_i h2
        cases hl : wLen lp bs.length with
        | panic => simp [hl] at hw
        | done p e =>
          cases e with
          | some e => simp [hl] at hw
          | none =>
            simp only [hl, WOut.done.injEq, and_true] at hw; subst hw
            obtain ⟨w, hwd, hlt, rfl⟩ := wLen_done hl
            simp only [rOp, hwd, List.append_assoc, List.length_append, leBytes_length,
              take_append_of_length (leBytes_length _ _), drop_append_of_length (leBytes_length _ _),
              leNat_leBytes_of_lt hlt, take_append_length, WOp.readBack]
            rw [if_neg (by omega), if_neg h1, if_neg h2, if_neg (by omega)]
  | time x =>
    simp only [WOp.mirror, Option.some.injEq] at hm; subst hm
    simp only [wOp, WOut.done.injEq, and_true] at hw; subst hw
    have hlt : timeToU64 x < 256 ^ 8 := by
      have := timeToU64_le x
      have h2 : maxInt64 < 256 ^ 8 := by decide
      omega
    simp only [rOp, List.length_append, leBytes_length, take_append_of_length (leBytes_length _ _),
      leNat_leBytes_of_lt hlt, WOp.readBack]
    rw [if_neg (by omega)]
  | u256 x =>
    simp only [WOp.mirror, Option.some.injEq] at hm; subst hm
    cases x with
    | none => simp [wOp] at hw
    | some x =>
      simp only [wOp] at hw
      split at hw
      · simp at hw
      · rename_i h1
        split at hw
        · simp at hw
        · rename_i h2
          simp only [WOut.done.injEq, and_true] at hw; subst hw
          have hx0 : 0 ≤ x := by omega
          have hlt : x.toNat < 256 ^ 32 := by
            have : ((x.toNat : Nat) : Int) < ((256 ^ 32 : Nat) : Int) := by
              rw [Int.toNat_of_nonneg hx0]
              have : ((256 ^ 32 : Nat) : Int) = (2 : Int) ^ 256 := by decide
              omega
            exact Int.ofNat_lt.1 this
          simp only [rOp, List.length_append, leBytes_length, take_append_of_length (leBytes_length _ _),
            leNat_leBytes_of_lt hlt, WOp.readBack, Int.toNat_of_nonneg hx0]
          rw [if_neg (by omega)]
  | payloadLen n => simp [WOp.mirror] at hm
  | code c =>
    simp only [WOp.mirror, Option.some.injEq] at hm; subst hm
    simp only [wOp, WOut.done.injEq, and_true] at hw; subst hw
    have hlen : c.bytes.length = c.den.width := by simp [Code.bytes]
    simp only [rOp, List.length_append, hlen, take_append_of_length hlen, WOp.readBack]
    rw [if_neg (by omega)]
    simp [Code.bytes, leNat_leBytes]
  | seq lp r val items =>
    simp only [WOp.mirror, Option.some.injEq] at hm; subst hm
    have henc := (wOp_seq_done_iff lp r val items b).1 hw
    obtain ⟨p, hp, hbounds, hvalid, rfl⟩ := encSeq_ok henc
    have hwl := (wLen_done_iff lp items.length p).2 hp
    obtain ⟨w, hwd, hlt, rfl⟩ := wLen_done hwl
    generalize hdata : (if (r.autoSort && r.lex) = true then sortBytes items else items) = data at *
    have hperm : data.Perm items := by
      rw [← hdata]; split
      · exact isortBy_perm id items
      · exact List.Perm.refl _
    have hcount : data.length = items.length := hperm.length_eq
    have hok := all_itemOk_of_perm hperm (by simpa [WOp.itemsOk] using hi)
    have hb : (if val = true then boundsErr r items.length else none) = none := by
      cases val with
      | false => rfl
      | true => simpa using (boundsErr_none_iff r _).2 (hbounds rfl)
    have hloop := rLoop_flatten r val data {} rest hok
      (fun hval => (vRun_ok_iff_validSeq r data).2 (hvalid (by simpa using hval)))
    rw [hcount] at hloop
    simp only [rOp, hwd, List.append_assoc, List.length_append, leBytes_length,
      take_append_of_length (leBytes_length _ _), drop_append_of_length (leBytes_length _ _),
      leNat_leBytes_of_lt hlt, hb, hloop, WOp.readBack, hdata]
    rw [if_neg (by omega)]

/-- `WritePayloadLength` / `ReadPayloadLength` (the reader returns its result instead of storing it). -/
theorem prim_payloadLen_roundtrip (n : Nat) (pre rest : Bytes) :
    ({ src := pre ++ leBytes 4 n ++ rest, off := pre.length } : De).payloadLen =
      ({ src := pre ++ leBytes 4 n ++ rest, off := pre.length + 4 }, .ok (n % 2 ^ 32)) := by
  have h : (256 : Nat) ^ 4 = 2 ^ 32 := by decide
  simp only [De.payloadLen, List.append_assoc, drop_append_length, List.length_append, leBytes_length,
    take_append_of_length (leBytes_length _ _), leNat_leBytes, h]
  rw [if_neg (by omega)]

/-! ## whole chains -/

/-- A `Deserializer` chain: the state after the calls and the values handed out (`none`: a call panicked). -/
def De.run (d : De) : List ROp → Option (De × List (Option PV))
  | [] => some (d, [])
  | op :: ops =>
    match d.step op with
    | none => none
    | some (d', v) =>
      match d'.run ops with
      | none => none
      | some (d'', vs) => some (d'', v :: vs)

/-- Per call: is the `ReadNum` destination signed. -/
abbrev Signs := WOp → Bool

def mirrors (sg : Signs) (ops : List WOp) : List ROp := ops.filterMap (fun op => op.mirror (sg op))

theorem prim_chain_aux (sg : Signs) : ∀ (ops : List WOp) (s0 s : Ser) (rest : Bytes),
    s0.err = none → s0.run ops = some s → s.err = none →
    (∀ op ∈ ops, (op.mirror (sg op)).isSome = true ∧ op.itemsOk = true) →
    ({ src := s.buf ++ rest, off := s0.buf.length } : De).run (mirrors sg ops) =
      some ({ src := s.buf ++ rest, off := s.buf.length }, ops.map (fun op => op.readBack (sg op)))
  | [], s0, s, rest, _, hrun, _, _ => by
    simp only [Ser.run, Option.some.injEq] at hrun; subst hrun
    simp [mirrors, De.run]
  | op :: ops, s0, s, rest, h0, hrun, he, hall => by
    simp only [Ser.run] at hrun
    cases hs : s0.step op with
    | none => simp [hs] at hrun
    | some s1 =>
      simp only [hs] at hrun
      have hs' := hs
      unfold Ser.step at hs'
      simp only [h0, Option.isSome_none, Bool.false_eq_true, if_false] at hs'
      cases hop : wOp op with
      | panic => simp [hop] at hs'
      | done bs e =>
        simp only [hop, Option.some.injEq] at hs'
        subst hs'
        -- an error stored now would still be there at the end
        cases e with
        | some e =>
          have := Ser.run_of_err { buf := s0.buf ++ bs, err := some e } rfl ops
          rw [this] at hrun; cases hrun; simp at he
        | none =>
          obtain ⟨hmir, hitems⟩ := hall op (List.mem_cons_self ..)
          obtain ⟨m, hm⟩ := Option.isSome_iff_exists.1 hmir
          obtain ⟨tl, htl⟩ := Ser.run_prefix _ s ops hrun
          have ih := prim_chain_aux sg ops { buf := s0.buf ++ bs, err := none } s rest rfl hrun he
            (fun o ho => hall o (List.mem_cons_of_mem _ ho))
          have hsrc : (s.buf ++ rest).drop s0.buf.length = bs ++ (tl ++ rest) := by
            rw [htl]; simp only [List.append_assoc]; exact drop_append_length _ _
          have hstep := prim_roundtrip (sg op) op m bs hop hm hitems (tl ++ rest) (s.buf ++ rest).length s0.buf.length
          simp only [mirrors, List.filterMap_cons, hm, De.run, De.step, Option.isSome_none, Bool.false_eq_true,
            if_false, hsrc, hstep, List.map_cons]
          simp only [mirrors, List.length_append] at ih
          rw [ih]

/-- **Whole chains.**  A `Serializer` chain that ends without a stored error, read back by the mirrored
`Deserializer` chain from the bytes it produced followed by any `rest`: every call hands back what was written,
the chain ends without error at the offset `len(written)` — so `ConsumedAll` holds iff nothing follows. -/
theorem prim_chain_roundtrip (sg : Signs) (ops : List WOp) (s : Ser) (rest : Bytes)
    (hrun : ({} : Ser).run ops = some s) (he : s.err = none)
    (hall : ∀ op ∈ ops, (op.mirror (sg op)).isSome = true ∧ op.itemsOk = true) :
    ({ src := s.buf ++ rest } : De).run (mirrors sg ops) =
      some ({ src := s.buf ++ rest, off := s.buf.length }, ops.map (fun op => op.readBack (sg op))) :=
  prim_chain_aux sg ops {} s rest rfl hrun he hall

end Hive.Serix
