import Hive.Proofs.WorkerPoolLock
/-!
# Rank-ordered lock scripts cannot deadlock (C16)

A generic result about goroutines that only interact through (exclusive, non-reentrant) mutexes: every goroutine runs a
fixed script of `acq m` / `rel m`; `acq m` can be taken iff nobody — the goroutine itself included — holds `m`.  If every
script is *ordered* (each acquisition has a strictly higher rank than everything the goroutine holds at that point, each
release is of a held lock, and the script ends with nothing held), then in every reachable configuration in which some
goroutine has not finished, some goroutine can take a step: no deadlock, for any number of goroutines.

Proof: orderedness is preserved by steps (by definition).  In a configuration where nobody can move all unfinished
goroutines wait at an `acq`; take the one that waits for the mutex of the highest rank; its holder holds that mutex, is
unfinished (a finished ordered script holds nothing), hence waits itself — for a mutex of a strictly higher rank.

`RLock` is treated like `Lock` (as in the scan).  Condition waits and channel operations are not part of this picture:
the scan shows that they happen with no foreign lock held (`C16_lockscript_no_wait_under_lock`, and the one channel send
under `w.mutex` pinned by the report); their liveness is the subject of the protocol model (`C16_shutdown_terminates`).
-/
namespace Hive.WPL

inductive LOp
  | acq (m : Str)
  | rel (m : Str)
deriving DecidableEq, Repr

/-- The lock operations of an expanded script with the deferred unlocks made explicit: they run, last deferred first,
when the function that deferred them returns. -/
def linearize : List ETok → List (List Str) → List LOp
  | [], _ => []
  | .acq m :: ts, fr => .acq m :: linearize ts fr
  | .rel m :: ts, fr => .rel m :: linearize ts fr
  | .deferRel m :: ts, f :: fr => linearize ts ((m :: f) :: fr)
  | .deferRel _ :: ts, [] => linearize ts []
  | .enter _ :: ts, fr => linearize ts ([] :: fr)
  | .exit :: ts, f :: fr => f.map .rel ++ linearize ts fr
  | .exit :: ts, [] => linearize ts []
  | .wait _ :: ts, fr => linearize ts fr
  | .chan _ :: ts, fr => linearize ts fr
  | .unresolved _ :: ts, fr => linearize ts fr

/-- A goroutine: the locks it holds and the rest of its script. -/
abbrev LThr := List Str × List LOp

/-- The script is rank-ordered from the given held set on, balanced, and ends with nothing held. -/
def ordered (rk : Str → Nat) : List Str → List LOp → Bool
  | held, [] => held.isEmpty
  | held, .acq m :: rest => held.all (fun h => decide (rk h < rk m)) && ordered rk (m :: held) rest
  | held, .rel m :: rest => held.contains m && ordered rk (held.erase m) rest

inductive LStep : List LThr → List LThr → Prop
  | acq (pre post : List LThr) (held : List Str) (m : Str) (rest : List LOp)
      (free : ∀ t ∈ pre ++ (held, LOp.acq m :: rest) :: post, m ∉ t.1) :
      LStep (pre ++ (held, .acq m :: rest) :: post) (pre ++ (m :: held, rest) :: post)
  | rel (pre post : List LThr) (held : List Str) (m : Str) (rest : List LOp) :
      LStep (pre ++ (held, .rel m :: rest) :: post) (pre ++ (held.erase m, rest) :: post)

inductive LReach : List LThr → List LThr → Prop
  | refl (c : List LThr) : LReach c c
  | step {a b c : List LThr} : LReach a b → LStep b c → LReach a c

/-- Decidable enabledness: some goroutine is at a release, or at an acquisition of a mutex nobody holds. -/
def canStep (c : List LThr) : Bool :=
  c.any (fun t => match t.2 with
    | .acq m :: _ => c.all (fun u => !u.1.contains m)
    | .rel _ :: _ => true
    | [] => false)

theorem canStep_of_step (a b : List LThr) (hs : LStep a b) : canStep a = true := by
  cases hs with
  | acq pre post held m rest free =>
    unfold canStep
    rw [List.any_eq_true]
    refine ⟨(held, LOp.acq m :: rest), List.mem_append.mpr (Or.inr (List.mem_cons_self ..)), ?_⟩
    simp only
    rw [List.all_eq_true]
    intro u hu
    have := free u hu
    simpa using this
  | rel pre post held m rest =>
    unfold canStep
    rw [List.any_eq_true]
    exact ⟨(held, LOp.rel m :: rest), List.mem_append.mpr (Or.inr (List.mem_cons_self ..)), rfl⟩

def AllOrdered (rk : Str → Nat) (c : List LThr) : Prop := ∀ t ∈ c, ordered rk t.1 t.2 = true

theorem ordered_step (rk : Str → Nat) (a b : List LThr) (h : AllOrdered rk a) (hs : LStep a b) : AllOrdered rk b := by
  cases hs with
  | acq pre post held m rest free =>
    intro t ht
    rcases List.mem_append.mp ht with hp | hp
    · exact h t (List.mem_append.mpr (Or.inl hp))
    · rcases List.mem_cons.mp hp with rfl | hp'
      · have := h (held, LOp.acq m :: rest) (List.mem_append.mpr (Or.inr (List.mem_cons_self ..)))
        simp only [ordered, Bool.and_eq_true] at this
        exact this.2
      · exact h t (List.mem_append.mpr (Or.inr (List.mem_cons_of_mem _ hp')))
  | rel pre post held m rest =>
    intro t ht
    rcases List.mem_append.mp ht with hp | hp
    · exact h t (List.mem_append.mpr (Or.inl hp))
    · rcases List.mem_cons.mp hp with rfl | hp'
      · have := h (held, LOp.rel m :: rest) (List.mem_append.mpr (Or.inr (List.mem_cons_self ..)))
        simp only [ordered, Bool.and_eq_true] at this
        exact this.2
      · exact h t (List.mem_append.mpr (Or.inr (List.mem_cons_of_mem _ hp')))

theorem ordered_reach (rk : Str → Nat) (a b : List LThr) (h : AllOrdered rk a) (hr : LReach a b) : AllOrdered rk b := by
  induction hr with
  | refl => exact h
  | step _ hs ih => exact ordered_step rk _ _ ih hs

/-- The rank a goroutine is waiting for (0 if it is not at an `acq`). -/
def waitRank (rk : Str → Nat) (t : LThr) : Nat :=
  match t.2 with
  | .acq m :: _ => rk m
  | _ => 0

theorem exists_max {α} (f : α → Nat) (p : α → Prop) : ∀ (l : List α), (∃ x ∈ l, p x) →
    ∃ x ∈ l, p x ∧ ∀ y ∈ l, p y → f y ≤ f x := by
  intro l
  induction l with
  | nil => intro h; obtain ⟨x, hx, _⟩ := h; cases hx
  | cons a l ih =>
    intro h
    by_cases hl : ∃ x ∈ l, p x
    · obtain ⟨x, hx, hpx, hmax⟩ := ih hl
      by_cases hpa : p a
      · by_cases hle : f a ≤ f x
        · refine ⟨x, List.mem_cons_of_mem _ hx, hpx, ?_⟩
          intro y hy hpy
          rcases List.mem_cons.mp hy with rfl | hy'
          · exact hle
          · exact hmax y hy' hpy
        · refine ⟨a, List.mem_cons_self .., hpa, ?_⟩
          intro y hy hpy
          rcases List.mem_cons.mp hy with rfl | hy'
          · exact Nat.le_refl _
          · exact Nat.le_trans (hmax y hy' hpy) (Nat.le_of_lt (Nat.lt_of_not_le hle))
      · refine ⟨x, List.mem_cons_of_mem _ hx, hpx, ?_⟩
        intro y hy hpy
        rcases List.mem_cons.mp hy with rfl | hy'
        · exact absurd hpy hpa
        · exact hmax y hy' hpy
    · obtain ⟨x, hx, hpx⟩ := h
      rcases List.mem_cons.mp hx with rfl | hx'
      · refine ⟨x, List.mem_cons_self .., hpx, ?_⟩
        intro y hy hpy
        rcases List.mem_cons.mp hy with rfl | hy'
        · exact Nat.le_refl _
        · exact absurd ⟨y, hy', hpy⟩ hl
      · exact absurd ⟨x, hx', hpx⟩ hl

/-- **Progress.**  If all goroutines are ordered and one of them has not finished, some goroutine can take a step. -/
theorem lock_progress (rk : Str → Nat) (c : List LThr) (h : AllOrdered rk c) (hun : ∃ t ∈ c, t.2 ≠ []) :
    ∃ c', LStep c c' := by
  -- a goroutine at a release can always move
  by_cases hrel : ∃ t ∈ c, ∃ m rest, t.2 = LOp.rel m :: rest
  · obtain ⟨t, ht, m, rest, hm⟩ := hrel
    obtain ⟨pre, post, rfl⟩ := List.append_of_mem ht
    obtain ⟨held, sc⟩ := t
    simp only at hm
    subst hm
    exact ⟨_, LStep.rel pre post held m rest⟩
  · -- everybody unfinished is at an acquisition: take the one waiting for the highest rank
    obtain ⟨t, ht, hne, hmax⟩ := exists_max (waitRank rk) (fun t : LThr => t.2 ≠ []) c hun
    obtain ⟨held, sc⟩ := t
    cases sc with
    | nil => exact absurd rfl hne
    | cons op rest =>
      cases op with
      | rel m => exact absurd ⟨(held, LOp.rel m :: rest), ht, m, rest, rfl⟩ hrel
      | acq m =>
        by_cases hfree : ∀ u ∈ c, m ∉ u.1
        · obtain ⟨pre, post, rfl⟩ := List.append_of_mem ht
          exact ⟨_, LStep.acq pre post held m rest hfree⟩
        · -- somebody holds m
          have : ∃ u ∈ c, m ∈ u.1 := by
            apply Classical.byContradiction
            intro hno
            apply hfree
            intro u hu hmu
            exact hno ⟨u, hu, hmu⟩
          obtain ⟨u, hu, hmu⟩ := this
          obtain ⟨uheld, usc⟩ := u
          have hou := h (uheld, usc) hu
          cases usc with
          | nil =>
            -- a finished ordered goroutine holds nothing
            simp only [ordered, List.isEmpty_iff] at hou
            simp only at hmu
            rw [hou] at hmu
            cases hmu
          | cons uop urest =>
            cases uop with
            | rel m' => exact absurd ⟨(uheld, LOp.rel m' :: urest), hu, m', urest, rfl⟩ hrel
            | acq m' =>
              -- the holder waits for a strictly higher rank: contradiction with the choice of t
              simp only [ordered, Bool.and_eq_true, List.all_eq_true, decide_eq_true_eq] at hou
              have hlt : rk m < rk m' := hou.1 m hmu
              have hle := hmax (uheld, LOp.acq m' :: urest) hu (by simp)
              simp only [waitRank] at hle
              omega

/-- **No deadlock, for any number of goroutines.**  From an initial configuration of ordered goroutines every reachable
configuration either is final (every script finished, nothing held by anybody) or has a successor. -/
theorem lock_deadlock_free (rk : Str → Nat) (c0 c : List LThr) (h0 : AllOrdered rk c0) (hr : LReach c0 c) :
    (∀ t ∈ c, t.2 = [] ∧ t.1 = []) ∨ ∃ c', LStep c c' := by
  have h := ordered_reach rk c0 c h0 hr
  by_cases hun : ∃ t ∈ c, t.2 ≠ []
  · exact Or.inr (lock_progress rk c h hun)
  · left
    intro t ht
    have hfin : t.2 = [] := by
      apply Classical.byContradiction
      intro hne
      exact hun ⟨t, ht, hne⟩
    refine ⟨hfin, ?_⟩
    have := h t ht
    rw [hfin] at this
    simpa [ordered, List.isEmpty_iff] using this

end Hive.WPL
