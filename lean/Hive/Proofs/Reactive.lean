import Hive.Proofs.ReactiveInv3Step
/-!
# The C13 invariant holds in every reachable configuration; its generic consequences
-/
namespace Hive.Reactive
open Hive.Conc

variable {S N : Type}

structure Inv (o : Obj S N) (cfg : Cfg (Sh S N) (Th o.WOp N)) : Prop where
  i1 : Inv1 o cfg
  i2 : Inv2 o cfg
  i3 : Inv3 o cfg

theorem inv_init (o : Obj S N) (cfg : Cfg (Sh S N) (Th o.WOp N)) (h : Init o cfg) : Inv o cfg :=
  ⟨inv1_init o cfg h, inv2_init o cfg h, inv3_init o cfg h⟩

theorem inv_step (o : Obj S N) (a b : Cfg (Sh S N) (Th o.WOp N)) (ha : Inv o a) (hs : Step (sys o) a b) : Inv o b := by
  cases hs with
  | mk s pre t post s' t' hmem =>
    have htr := tr_of_step o hmem
    exact ⟨inv1_step o htr ha.i1, inv2_step o htr ha.i1 ha.i2, inv3_step o htr ha.i1 ha.i2 ha.i3⟩

/-- Every configuration reachable from an initial one — any number of threads, any scripts, any
schedule — satisfies the invariant. -/
theorem inv_reach (o : Obj S N) {c0 c : Cfg (Sh S N) (Th o.WOp N)} (h0 : Init o c0) (hr : Reach (sys o) c0 c) :
    Inv o c :=
  inv_induction (Inv o) (inv_init o c0 h0) (inv_step o) hr

/-- At quiescence no execution lock is held. -/
theorem quiescent_elock (o : Obj S N) {cfg : Cfg (Sh S N) (Th o.WOp N)} (h : Inv o cfg) (hq : Quiescent cfg.2)
    (c : Nat) : (cfg.1.cbs c).elock = false := by
  cases he : (cfg.1.cbs c).elock with
  | false => rfl
  | true =>
    have := h.i1.hE c
    rw [he] at this
    have hpos : 0 < cfg.2.countP (holdsE c) := by simp at this; omega
    obtain ⟨t, ht, hh⟩ := List.countP_pos_iff.mp hpos
    have := hq t ht
    simp [holdsE, this] at hh

/-- A callback that exists either has finished its initial phase or has not been handed anything. -/
theorem done_or_untouched (o : Obj S N) {cfg : Cfg (Sh S N) (Th o.WOp N)} (h : Inv o cfg) {c : Nat}
    (hc : c < cfg.1.ncb) :
    (cfg.1.cbs c).iniDone = true ∨ ((cfg.1.cbs c).evs = [] ∧ (cfg.1.cbs c).d = 0) := by
  cases hd : (cfg.1.cbs c).iniDone with
  | true => exact Or.inl rfl
  | false =>
    right
    have he := (h.i2.cb c).notDone hc hd
    have := h.i1.hE c
    rw [he] at this
    have hpos : 0 < cfg.2.countP (holdsE c) := by simp at this; omega
    obtain ⟨t, ht, hh⟩ := List.countP_pos_iff.mp hpos
    have h2 := h.i2.thr t ht
    by_cases hf : isFresh c t = true
    · obtain ⟨a, b, _, _⟩ := h2.fresh c hf
      exact ⟨a, b⟩
    · have hr : runs c t = true := by
        unfold holdsE at hh; unfold isFresh at hf; unfold runs
        split at hh <;> simp_all
      rw [h2.runDone c hr] at hd; cases hd

/-- **Generic log theorem.** In every reachable configuration, the notes handed to callback `c` are
its initial note (if it had one and the initial phase is over) followed by the first `d` history
entries since its registration — each exactly once, in order, nothing else. -/
theorem log_shape (o : Obj S N) {cfg : Cfg (Sh S N) (Th o.WOp N)} (h : Inv o cfg) (c : Nat) :
    notes (cfg.1.cbs c).evs = iniPart (cfg.1.cbs c) ++ ((cfg.1.cbs c).since.take (cfg.1.cbs c).d).map (·.note) :=
  (h.i3.cb c).log

/-- **At quiescence** a subscription that was never unsubscribed has been handed its initial note
and *every* later change. -/
theorem log_complete (o : Obj S N) {cfg : Cfg (Sh S N) (Th o.WOp N)} (h : Inv o cfg) (hq : Quiescent cfg.2)
    {c : Nat} (hc : c ∈ cfg.1.listed) :
    notes (cfg.1.cbs c).evs = (cfg.1.cbs c).ini.toList ++ (cfg.1.cbs c).since.map (·.note) := by
  have hlt := h.i1.listedLt c hc
  have hd : (cfg.1.cbs c).d = (cfg.1.cbs c).since.length := by
    apply h.i3.caughtUp c hc
    intro t ht
    simp [todo, hq t ht]
  have hdone : (cfg.1.cbs c).iniDone = true := by
    cases hd' : (cfg.1.cbs c).iniDone with
    | true => rfl
    | false =>
      have := (h.i2.cb c).notDone hlt hd'
      rw [quiescent_elock o h hq c] at this; cases this
  rw [log_shape o h c, hd, List.take_length]
  simp [iniPart, hdone]

end Hive.Reactive

namespace Hive.Reactive
open Hive.Conc
variable {S N : Type}

/-- Reachable from an initial configuration: any number of threads, any scripts, any schedule. -/
def Reachable (o : Obj S N) (cfg : Cfg (Sh S N) (Th o.WOp N)) : Prop :=
  ∃ c0, Init o c0 ∧ Reach (sys o) c0 cfg

theorem Reachable.inv {o : Obj S N} {cfg : Cfg (Sh S N) (Th o.WOp N)} (h : Reachable o cfg) : Inv o cfg := by
  obtain ⟨c0, h0, hr⟩ := h
  exact inv_reach o h0 hr

end Hive.Reactive
