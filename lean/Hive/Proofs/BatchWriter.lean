import Hive.Model.BatchWriter
/-!
# C08 proofs, part 1: step analysis and the thread-counting invariants

`Cnt` relates shared counters to the number of threads at certain program points, for an arbitrary
thread pool: the window counter, the scheduled counter, per-object sends, the `Once` body, the mutex.
-/
namespace Hive.BatchWriter
open Hive.Conc Hive.Spec.BatchWriter

/-! ### Steps -/

theorem step_inv {a b : Cfg St Thread} (h : Step sys a b) :
    ∃ s pre t post s' t', a = (s, pre ++ t :: post) ∧ b = (s', pre ++ t' :: post) ∧ (s', t') ∈ step s t := by
  cases h with
  | mk s pre t post s' t' hm => exact ⟨s, pre, t, post, s', t', rfl, rfl, hm⟩

/-- Invariant induction specialised: `P` is preserved by a step of any thread in the middle of the pool. -/
theorem inv_of_step (P : Cfg St Thread → Prop) {c0 c : Cfg St Thread} (h0 : P c0)
    (hs : ∀ s pre t post s' t', P (s, pre ++ t :: post) → (s', t') ∈ step s t → P (s', pre ++ t' :: post))
    (hr : Reach sys c0 c) : P c := by
  refine inv_induction P h0 ?_ hr
  intro a b ha hab
  obtain ⟨s, pre, t, post, s', t', rfl, rfl, hm⟩ := step_inv hab
  exact hs _ _ _ _ _ _ ha hm

/-! ### Thread classes -/

/-- passed the running check with `running = true`, queue send not finished -/
def inWin : Thread → Bool
  | .prod _ pc _ _ => pc = .cas || pc = .send
  | _ => false

/-- has incremented `scheduledCount` and neither sent the object nor taken the increment back -/
def atSend : Thread → Bool
  | .prod _ pc _ _ => pc = .chkRun || pc = .cas || pc = .send || pc = .undo
  | _ => false

/-- holds a successful scheduling of `o` that has not been sent yet -/
def holds (o : Nat) : Thread → Bool
  | .prod _ pc cur _ => pc = .send && cur = o
  | _ => false

def bodyPre : Thread → Bool
  | .prod _ pc _ _ => pc = .body || pc = .startLock || pc = .startLoad || pc = .startStore
  | _ => false

def bodyPost : Thread → Bool
  | .prod _ pc _ _ => pc = .startAdd || pc = .startGo || pc = .startUnlock || pc = .onceEnd
  | _ => false

def holdsMu : Thread → Bool
  | .prod _ pc _ _ => pc = .startLoad || pc = .startStore || pc = .startAdd || pc = .startGo || pc = .startUnlock
  | .stopper _ pc => pc = .load || pc = .store || pc = .wait || pc = .unlock
  | _ => false

def atAdd : Thread → Bool
  | .prod _ pc _ _ => pc = .startAdd
  | _ => false

def atGo : Thread → Bool
  | .prod _ pc _ _ => pc = .startGo
  | _ => false

def atWait : Thread → Bool
  | .stopper _ pc => pc = .wait
  | _ => false

/-- the writer holds a received object whose counter decrement is still to come -/
def holdC (w : WPc) : Nat := if w = .addReset ∨ w = .addDec then 1 else 0

def b2n (b : Bool) : Nat := if b then 1 else 0

structure Cnt (s : St) (ts : List Thread) : Prop where
  win : s.win = ts.countP inWin
  count : s.count = (ts.countP atSend : Int) + s.queue.length + holdC s.wpc
  sch : ∀ o, s.mon.sch o = s.snt o + ts.countP (holds o)
  pre : ts.countP bodyPre = if s.once = 1 then 1 else 0
  post : ts.countP bodyPost = if s.once = 2 then 1 else 0
  mu : ts.countP holdsMu = if s.mu then 1 else 0
  add : ts.countP atAdd = if s.started ∧ ¬ s.added then 1 else 0
  go : ts.countP atGo = if s.added ∧ ¬ s.spawned then 1 else 0
  wait : ts.countP atWait = if s.stopped ∧ ¬ s.waited then 1 else 0

theorem cnt_frame (p : Thread → Bool) (pre post : List Thread) (t t' : Thread) :
    (pre ++ t' :: post).countP p + b2n (p t) = (pre ++ t :: post).countP p + b2n (p t') := by
  simp only [countP_mid, b2n]; omega

theorem b2n_le_countP (p : Thread → Bool) (pre post : List Thread) (t : Thread) :
    b2n (p t) ≤ (pre ++ t :: post).countP p := by
  simp only [countP_mid, b2n]; omega

/-- All threads in their initial states: nobody is anywhere. -/
theorem countP_initial (p : Thread → Bool) (ts : List Thread) (hi : ∀ t ∈ ts, t.initial = true)
    (hp : ∀ t, t.initial = true → p t = false) : ts.countP p = 0 := by
  rw [List.countP_eq_zero]
  intro t ht
  simp [hp t (hi t ht)]

theorem cnt_init (q b : Nat) (ts : List Thread) (hi : ∀ t ∈ ts, t.initial = true) : Cnt (initSt q b) ts := by
  have h0 : ∀ p : Thread → Bool, (∀ t, t.initial = true → p t = false) → ts.countP p = 0 :=
    fun p hp => countP_initial p ts hi hp
  refine ⟨?_, ?_, ?_, ?_, ?_, ?_, ?_, ?_, ?_⟩
  · rw [h0]; · rfl
    intro t ht; cases t <;> simp_all [Thread.initial, inWin]
  · rw [h0]; · simp [initSt, holdC]
    intro t ht; cases t <;> simp_all [Thread.initial, atSend]
  · intro o; rw [h0]; · rfl
    intro t ht; cases t <;> simp_all [Thread.initial, holds]
  · rw [h0]; · rfl
    intro t ht; cases t <;> simp_all [Thread.initial, bodyPre]
  · rw [h0]; · rfl
    intro t ht; cases t <;> simp_all [Thread.initial, bodyPost]
  · rw [h0]; · rfl
    intro t ht; cases t <;> simp_all [Thread.initial, holdsMu]
  · rw [h0]; · rfl
    intro t ht; cases t <;> simp_all [Thread.initial, atAdd]
  · rw [h0]; · rfl
    intro t ht; cases t <;> simp_all [Thread.initial, atGo]
  · rw [h0]; · rfl
    intro t ht; cases t <;> simp_all [Thread.initial, atWait]

/-! ### One step, case by case -/

theorem mem_step_writer {s s' : St} {t' : Thread} :
    (s', t') ∈ step s .writer ↔ t' = .writer ∧ s' ∈ stepWriter s := by
  simp only [step, List.mem_map, Prod.mk.injEq]; constructor
  · rintro ⟨a, h, rfl, rfl⟩; exact ⟨rfl, h⟩
  · rintro ⟨rfl, h⟩; exact ⟨s', h, rfl, rfl⟩

-- Case analysis of one step `hm : (s', t') ∈ step s t` (these names are fixed): one goal per transition with
-- `s'` and `t'` substituted; for the writer `hm` is left as a disjunction of the possible `s'`.
set_option hygiene false in
macro "step_common" : tactic => `(tactic|
  (simp only [step, stepProd, stepStop, stepFlush, stepObs] at hm <;> (repeat' split at hm) <;>
     simp only [List.mem_singleton, List.not_mem_nil, Prod.mk.injEq, List.mem_nil_iff] at hm <;>
     (try exact hm.elim) <;> obtain ⟨rfl, rfl⟩ := hm))

set_option hygiene false in
macro "step_cases" : tactic => `(tactic|
  (rcases t with ⟨id, pc, cur, script⟩ | ⟨id, pc⟩ | ⟨l, n⟩ | _ | ⟨script⟩ <;>
   first
   | (cases pc <;> step_common)
   | (rw [mem_step_writer] at hm
      obtain ⟨rfl, hm⟩ := hm
      simp only [stepWriter, recvStep, afterCommit] at hm
      split at hm <;> (repeat' split at hm) <;>
       simp only [List.mem_singleton, List.not_mem_nil, List.mem_nil_iff, List.mem_append, List.mem_cons,
         or_false, false_or, List.nil_append, List.append_nil] at hm <;> (try exact hm.elim) <;>
       (repeat' (first | subst hm | obtain hm | hm := hm)))
   | step_common))

/-! ### Local effect of a step on each counter (no thread lists involved) -/

/-- closes the goals left by `step_cases` -/
macro "dclose" "[" ts:Lean.Parser.Tactic.simpLemma,* "]" : tactic =>
  `(tactic| all_goals ((try simp [emit, Mon.step, b2n, upd_apply, Tab.get_set, $ts,*] at *) <;> (try split) <;> (try simp_all) <;> (try omega)))

theorem d_win {s s' : St} {t t' : Thread} (hm : (s', t') ∈ step s t) (hp : b2n (inWin t) ≤ s.win) :
    s'.win + b2n (inWin t) = s.win + b2n (inWin t') := by
  step_cases
  dclose [inWin]

theorem d_count {s s' : St} {t t' : Thread} (hm : (s', t') ∈ step s t) :
    s'.count + s.queue.length + holdC s.wpc + b2n (atSend t) =
      s.count + s'.queue.length + holdC s'.wpc + b2n (atSend t') := by
  step_cases
  all_goals ((try simp [emit, atSend, b2n]) <;> (try omega) <;> (try (simp [holdC, *])) <;> (try omega))

theorem d_sch {s s' : St} {t t' : Thread} (hm : (s', t') ∈ step s t) (o : Nat) :
    s'.mon.sch o + s.snt o + b2n (holds o t) = s.mon.sch o + s'.snt o + b2n (holds o t') := by
  step_cases
  dclose [holds]

theorem d_pre {s s' : St} {t t' : Thread} (hm : (s', t') ∈ step s t)
    (h1 : bodyPre t = true → s.once = 1) (h2 : bodyPost t = true → s.once = 2) :
    (if s'.once = 1 then 1 else 0) + b2n (bodyPre t) = (if s.once = 1 then 1 else 0) + b2n (bodyPre t') := by
  step_cases
  dclose [bodyPre, bodyPost]

theorem d_post {s s' : St} {t t' : Thread} (hm : (s', t') ∈ step s t)
    (h1 : bodyPre t = true → s.once = 1) (h2 : bodyPost t = true → s.once = 2) :
    (if s'.once = 2 then 1 else 0) + b2n (bodyPost t) = (if s.once = 2 then 1 else 0) + b2n (bodyPost t') := by
  step_cases
  dclose [bodyPre, bodyPost]

theorem d_mu {s s' : St} {t t' : Thread} (hm : (s', t') ∈ step s t) (h1 : holdsMu t = true → s.mu = true) :
    (if s'.mu then 1 else 0) + b2n (holdsMu t) = (if s.mu then 1 else 0) + b2n (holdsMu t') := by
  step_cases
  dclose [holdsMu]

theorem d_add {s s' : St} {t t' : Thread} (hm : (s', t') ∈ step s t)
    (h1 : atAdd t = true → s.started = true ∧ s.added = false) (h2 : bodyPre t = true → s.started = false)
    (h3 : s.added = true → s.started = true) :
    (if s'.started ∧ ¬ s'.added then 1 else 0) + b2n (atAdd t) =
      (if s.started ∧ ¬ s.added then 1 else 0) + b2n (atAdd t') := by
  step_cases
  dclose [atAdd, bodyPre]

theorem d_go {s s' : St} {t t' : Thread} (hm : (s', t') ∈ step s t)
    (h1 : atGo t = true → s.added = true ∧ s.spawned = false) (h2 : atAdd t = true → s.added = false)
    (h3 : s.spawned = true → s.added = true) :
    (if s'.added ∧ ¬ s'.spawned then 1 else 0) + b2n (atGo t) =
      (if s.added ∧ ¬ s.spawned then 1 else 0) + b2n (atGo t') := by
  step_cases
  dclose [atGo, atAdd]

def atStore : Thread → Bool
  | .stopper _ pc => pc = .store
  | _ => false

theorem d_wait {s s' : St} {t t' : Thread} (hm : (s', t') ∈ step s t)
    (h1 : atWait t = true → s.stopped = true ∧ s.waited = false) (h2 : atStore t = true → s.stopped = false)
    (h3 : s.waited = true → s.stopped = true) :
    (if s'.stopped ∧ ¬ s'.waited then 1 else 0) + b2n (atWait t) =
      (if s.stopped ∧ ¬ s.waited then 1 else 0) + b2n (atWait t') := by
  step_cases
  dclose [atWait, atStore]

end Hive.BatchWriter
