import Hive.Proofs.DaemonInvT2
/-! The combined invariant of the repaired daemon model is preserved by every step of every thread, hence
holds in every reachable configuration of every thread pool. -/
namespace Hive.Daemon
open Hive.Conc

def Inv (s : St) : Prop := InvA s ∧ InvB s ∧ InvT s

theorem inv_init : Inv init := ⟨invA_init, invB_init, invT_init⟩

theorem inv_emit_neutral {s : St} (e : Ev) (h : Inv s) (hT : InvT (emit e s)) : Inv (emit e s) :=
  ⟨invA_emit e h.1, invB_emit e h.2.1, hT⟩

theorem inv_startCrit {s : St} (h : Inv s) : Inv (startCrit true s) := by
  obtain ⟨hA, hB, hT⟩ := h
  refine ⟨invA_startCrit hA, ?_, invT_startCrit hA hT⟩
  by_cases hst : s.stopped = true
  · rw [startCrit_stopped hst]; exact hB
  · have hst' : s.stopped = false := by simpa using hst
    exact invB_of_not_stopped (invA_startCrit hA) (by rw [startCrit_stopped_eq]; exact hst')

theorem inv_bwCrit {s s' : St} {c name : Nat} {order : Int} (h : Inv s) (hs : s' ∈ bwCrit true s c name order) :
    Inv s' := by
  obtain ⟨hA, hB, hT⟩ := h
  refine ⟨invA_bwCrit hA hs, ?_, invT_bwCrit hA hT hs⟩
  by_cases hst : s.stopped = true
  · have : s' = emit (.refuse c name .stopped) s := by
      unfold bwCrit at hs; simpa [hst] using hs
    subst this; exact invB_emit _ hB
  · have hst' : s.stopped = false := by simpa using hst
    exact invB_of_not_stopped (invA_bwCrit hA hs) (by rw [bwCrit_stopped hs]; exact hst')

theorem inv_sdret {s : St} (h : Inv s) (c : Nat) (hsd : s.sd = .done) : Inv (emit (.sdret c) s) :=
  inv_emit_neutral _ h (invT_sdret h.1 h.2.1 h.2.2 c hsd)

/-- Every step of every thread preserves the invariant. -/
theorem inv_step {s s' : St} {t t' : Th} (h : Inv s) (hs : (s', t') ∈ step true true s t) : Inv s' := by
  obtain ⟨hA, hB, hT⟩ := h
  cases t with
  | bw c name order pc =>
    cases pc with
    | call =>
      simp only [step] at hs
      have h1 : Inv (emit (.bwcall c name order) s) := inv_emit_neutral _ ⟨hA, hB, hT⟩ (invT_bwcall hT c name order)
      split at hs
      · simp only [List.mem_singleton, Prod.mk.injEq] at hs
        obtain ⟨rfl, _⟩ := hs
        exact inv_emit_neutral _ h1 (invT_refuse h1.2.2 _ _ _)
      · simp only [List.mem_singleton, Prod.mk.injEq] at hs
        obtain ⟨rfl, _⟩ := hs
        exact h1
    | passed =>
      simp only [step, List.mem_map] at hs
      obtain ⟨s1, hs1, heq⟩ := hs
      injection heq with h1 _
      subst h1
      exact inv_bwCrit ⟨hA, hB, hT⟩ hs1
    | fin => simp [step] at hs
  | starter pc =>
    cases pc with
    | call =>
      simp only [step] at hs
      split at hs <;> (simp only [List.mem_singleton, Prod.mk.injEq] at hs; obtain ⟨rfl, _⟩ := hs; exact ⟨hA, hB, hT⟩)
    | passed =>
      simp only [step, List.mem_singleton, Prod.mk.injEq] at hs
      obtain ⟨rfl, _⟩ := hs
      exact inv_startCrit ⟨hA, hB, hT⟩
    | fin => simp [step] at hs
  | wk i =>
    simp only [step, List.mem_map] at hs
    obtain ⟨s1, hs1, heq⟩ := hs
    injection heq with h1 _
    subst h1
    exact ⟨invA_wkStep hA hs1, invB_wkStep hB hs1, invT_wkStep hB hT hs1⟩
  | sd c pc =>
    cases pc with
    | call =>
      simp only [step, List.mem_singleton, Prod.mk.injEq] at hs
      obtain ⟨rfl, _⟩ := hs
      exact inv_emit_neutral _ ⟨hA, hB, hT⟩ (invT_sdcall hT c)
    | enter =>
      simp only [step] at hs
      cases hsd : s.sd with
      | idle =>
        simp only [hsd, List.mem_singleton, Prod.mk.injEq] at hs
        obtain ⟨rfl, _⟩ := hs
        exact ⟨invA_take hA hsd, invB_take hB, invT_take hT hsd⟩
      | _ =>
        simp only [hsd, List.mem_singleton, Prod.mk.injEq] at hs
        obtain ⟨rfl, _⟩ := hs
        exact ⟨hA, hB, hT⟩
    | body =>
      simp only [step] at hs
      cases hsd : s.sd with
      | done =>
        simp only [hsd, List.mem_singleton, Prod.mk.injEq] at hs
        obtain ⟨rfl, _⟩ := hs
        exact inv_sdret ⟨hA, hB, hT⟩ c hsd
      | _ =>
        simp only [hsd, List.mem_map] at hs
        obtain ⟨s1, hs1, heq⟩ := hs
        injection heq with h1 _
        subst h1
        exact ⟨invA_sdBody hA hs1, invB_sdBody hA hB hs1, invT_sdBody hA hB hT hs1⟩
    | blocked =>
      simp only [step] at hs
      cases hsd : s.sd with
      | done =>
        simp only [hsd, List.mem_singleton, Prod.mk.injEq] at hs
        obtain ⟨rfl, _⟩ := hs
        exact inv_sdret ⟨hA, hB, hT⟩ c hsd
      | _ => simp [hsd] at hs
    | fin => simp [step] at hs
  | runner c pc =>
    cases pc with
    | call =>
      simp only [step] at hs
      have h1 : Inv (emit (.runcall c) s) := inv_emit_neutral _ ⟨hA, hB, hT⟩ (invT_runcall hT c)
      split at hs <;> (simp only [List.mem_singleton, Prod.mk.injEq] at hs; obtain ⟨rfl, _⟩ := hs; exact h1)
    | passed =>
      simp only [step, List.mem_singleton, Prod.mk.injEq] at hs
      obtain ⟨rfl, _⟩ := hs
      exact inv_startCrit ⟨hA, hB, hT⟩
    | started =>
      simp only [step, if_true] at hs
      split at hs
      · simp only [List.mem_singleton, Prod.mk.injEq] at hs
        obtain ⟨rfl, _⟩ := hs
        exact inv_emit_neutral _ ⟨hA, hB, hT⟩ (invT_runret hT c)
      · simp at hs
    | waiting keys =>
      cases keys <;> simp [step] at hs
    | fin => simp [step] at hs
  | watcher =>
    simp only [step] at hs
    split at hs
    · rename_i hst
      simp only [List.mem_singleton, Prod.mk.injEq] at hs
      obtain ⟨rfl, _⟩ := hs
      exact inv_emit_neutral _ ⟨hA, hB, hT⟩ (invT_stopseen hT hst)
    · simp at hs

/-- The invariant holds in every configuration reachable from a fresh daemon, whatever the thread pool. -/
theorem inv_reach {ts ts' : List Th} {s : St} (hr : Reach (sys true true) (init, ts) (s, ts')) : Inv s := by
  have := inv_induction (S := sys true true) (fun c => Inv c.1) (c0 := (init, ts)) (c := (s, ts')) inv_init
    (by
      intro a b ha hstep
      cases hstep with
      | mk s0 pre t post s1 t1 hmem => exact inv_step ha hmem)
    hr
  exact this

end Hive.Daemon
