import Hive.Proofs.KVConcLocks
/-!
# C05 protocol model: no reachable deadlock

Locks are acquired in rank order batch < view < map, never twice, and a goroutine holding a lock
waits for nothing but a lock of higher rank.  In a stuck configuration follow the waits-for edges:
a goroutine waiting for `l` is blocked by a holder of `l` (or, for `RLock`, by a goroutine inside
`Lock(l)` which is itself blocked by a holder); the holder is not finished, hence it waits for a
lock of strictly higher rank; ranks are bounded by 2.
-/
namespace Hive.KV.Conc
open Hive.Conc

theorem rank_le (l : LockId) : rank l ≤ 2 := by cases l <;> simp [rank]

/-- Goroutine `t` has invoked a call and waits for lock `l`. -/
def BlockedOn (s : Shared) (t : Thread) (l : LockId) : Prop :=
  t.cur ≠ none ∧ ∃ rest,
    (t.code = .lock l :: rest ∧ t.waiting = true ∧ ¬ ((s.locks l).writer = false ∧ (s.locks l).readers = 0)) ∨
    (t.code = .rlock l :: rest ∧ ¬ ((s.locks l).writer = false ∧ (s.locks l).pending = 0))

theorem holder_busy {u : Thread} (hu : TInv u) {l : LockId} {b : Bool} (hm : (l, b) ∈ u.held) : u.cur ≠ none := by
  intro hc
  have := hu.held_nil (hu.idle hc)
  rw [this] at hm; cases hm

/-- What a holder of `l` waits for has a higher rank than `l`. -/
theorem holder_waits_higher {s : Shared} {u : Thread} (hu : TInv u) {l l1 : LockId} {b : Bool}
    (hm : (l, b) ∈ u.held) (hb : BlockedOn s u l1) : rank l < rank l1 := by
  obtain ⟨_, rest, hb | hb⟩ := hb
  · have := hu.wf
    rw [hb.1] at this
    simp only [wfc, Bool.and_eq_true, List.all_eq_true, decide_eq_true_eq] at this
    exact this.1 (l, b) hm
  · have := hu.wf
    rw [hb.1] at this
    simp only [wfc, Bool.and_eq_true, List.all_eq_true, decide_eq_true_eq] at this
    exact this.1 (l, b) hm

theorem stuck_blocked {s : Shared} {u : Thread} (hst : step s u = []) (hbusy : u.cur ≠ none) :
    ∃ l, BlockedOn s u l := by
  rcases stuck_cases hst with h | ⟨l, rest, h1, h2, h3, h4⟩ | ⟨l, rest, h1, h2, h3⟩
  · exact absurd h.1 hbusy
  · exact ⟨l, h1, rest, Or.inl ⟨h2, h3, h4⟩⟩
  · exact ⟨l, h1, rest, Or.inr ⟨h2, h3⟩⟩

theorem mem_of_count_ne_zero {α : Type} [BEq α] [LawfulBEq α] {a : α} {l : List α} (h : l.count a ≠ 0) : a ∈ l :=
  List.count_pos_iff.mp (Nat.pos_of_ne_zero h)

/-- A held lock has a holder among the goroutines. -/
theorem exists_holder {c : Cfg Shared Thread} (hi : LInv c) (l : LockId)
    (h : (c.1.locks l).writer = true ∨ (c.1.locks l).readers ≠ 0) : ∃ u ∈ c.2, ∃ b, (l, b) ∈ u.held := by
  rcases h with h | h
  · have hw := hi.w l
    rw [h] at hw
    obtain ⟨u, hu, hne⟩ := total_pos (hW l) c.2 (by rw [← hw]; simp [b2n])
    exact ⟨u, hu, true, mem_of_count_ne_zero hne⟩
  · have hr := hi.r l
    obtain ⟨u, hu, hne⟩ := total_pos (hR l) c.2 (by rw [← hr]; exact h)
    exact ⟨u, hu, false, mem_of_count_ne_zero hne⟩

theorem no_blocked {c : Cfg Shared Thread} (hi : LInv c) (hst : Stuck sys c) :
    ∀ n, ∀ t ∈ c.2, ∀ l, BlockedOn c.1 t l → 3 ≤ rank l + n → False := by
  intro n
  induction n with
  | zero => intro t _ l _ h; have := rank_le l; omega
  | succ n ih =>
    -- a goroutine waiting in `Lock(l)` for a holder of `l`
    have caseW : ∀ t ∈ c.2, ∀ l, (c.1.locks l).writer = true ∨ (c.1.locks l).readers ≠ 0 →
        3 ≤ rank l + (n + 1) → False := by
      intro t _ l hheld hr
      obtain ⟨u, hu, b, hm⟩ := exists_holder hi l hheld
      have hut := hi.tinv u hu
      obtain ⟨l1, hb1⟩ := stuck_blocked (hst u hu) (holder_busy hut hm)
      have := holder_waits_higher hut hm hb1
      exact ih u hu l1 hb1 (by omega)
    intro t ht l hb hr
    obtain ⟨_, rest, hb | hb⟩ := hb
    · refine caseW t ht l ?_ hr
      have := hb.2.2
      cases hw : (c.1.locks l).writer with
      | true => exact Or.inl rfl
      | false => right; intro h0; exact this ⟨hw, h0⟩
    · cases hw : (c.1.locks l).writer with
      | true => exact caseW t ht l (Or.inl hw) hr
      | false =>
        have hp : (c.1.locks l).pending ≠ 0 := fun h0 => hb.2 ⟨hw, h0⟩
        obtain ⟨u, hu, hne⟩ := total_pos (hP l) c.2 (by rw [← hi.p l]; exact hp)
        have hut := hi.tinv u hu
        simp only [hP, ne_eq, ite_eq_right_iff, Classical.not_imp] at hne
        obtain ⟨⟨huw, hhead⟩, _⟩ := hne
        -- `u` is inside `Lock(l)` and stuck: `l` is held
        rcases stuck_cases (hst u hu) with h | ⟨l', r', _, h2, _, h4⟩ | ⟨l', r', _, h2, _⟩
        · rw [hut.idle h.1] at hhead; cases hhead
        · rw [h2] at hhead
          simp only [List.head?_cons, Option.some.injEq, Instr.lock.injEq] at hhead
          subst hhead
          refine caseW u hu l' ?_ hr
          cases hw' : (c.1.locks l').writer with
          | true => exact Or.inl rfl
          | false => right; intro h0; exact h4 ⟨hw', h0⟩
        · rw [h2] at hhead; cases hhead

/-- **No deadlock**: in a configuration satisfying the lock invariant, if no goroutine can move then
every goroutine is finished. -/
theorem not_deadlock {c : Cfg Shared Thread} (hi : LInv c) : ¬ Deadlock sys Thread.finished c := by
  rintro ⟨hst, t, ht, hnf⟩
  rcases stuck_cases (hst t ht) with h | ⟨l, rest, h1, h2, h3, h4⟩ | ⟨l, rest, h1, h2, h3⟩
  · exact hnf h
  · exact no_blocked hi hst 3 t ht l ⟨h1, rest, Or.inl ⟨h2, h3, h4⟩⟩ (by omega)
  · exact no_blocked hi hst 3 t ht l ⟨h1, rest, Or.inr ⟨h2, h3⟩⟩ (by omega)

end Hive.KV.Conc
