import Hive.Model.KVBase
/-!
# Order and sorting lemmas for the KVStore development (core Lean only)

* `blt` (Go's string order on byte strings) is a strict total order; so is either iteration direction.
* `sortBy` (insertion sort) keeps the elements and produces a `Pairwise lt` list whenever the input's
  elements are pairwise comparable.
* A list that is `Pairwise` for an asymmetric, irreflexive relation is determined by its elements.
-/
namespace Hive.KV

/-! ## `blt` -/

theorem blt_irrefl (a : Bytes) : blt a a = false := by
  induction a with
  | nil => rfl
  | cons x xs ih => simp [blt, ih]

theorem blt_cons (x y : UInt8) (xs ys : Bytes) :
    blt (x :: xs) (y :: ys) = true ↔ x.toNat < y.toNat ∨ (x.toNat = y.toNat ∧ blt xs ys = true) := by
  simp only [blt]
  by_cases h1 : x.toNat < y.toNat
  · simp [h1]
  · by_cases h2 : x.toNat = y.toNat
    · simp [h2]
    · simp [h1, h2]

theorem blt_trans : ∀ (a b c : Bytes), blt a b = true → blt b c = true → blt a c = true
  | [], [], _, h, _ => by simp [blt] at h
  | [], _ :: _, [], _, h => by simp [blt] at h
  | [], _ :: _, _ :: _, _, _ => by simp [blt]
  | _ :: _, [], _, h, _ => by simp [blt] at h
  | _ :: _, _ :: _, [], _, h => by simp [blt] at h
  | x :: xs, y :: ys, z :: zs, h1, h2 => by
    rw [blt_cons] at h1 h2 ⊢
    rcases h1 with h1 | ⟨e1, h1⟩
    · rcases h2 with h2 | ⟨e2, _⟩
      · left; omega
      · left; omega
    · rcases h2 with h2 | ⟨e2, h2⟩
      · left; omega
      · right; exact ⟨by omega, blt_trans xs ys zs h1 h2⟩

theorem blt_total : ∀ (a b : Bytes), a ≠ b → blt a b = true ∨ blt b a = true
  | [], [], h => absurd rfl h
  | [], _ :: _, _ => by simp [blt]
  | _ :: _, [], _ => by simp [blt]
  | x :: xs, y :: ys, h => by
    rw [blt_cons, blt_cons]
    by_cases hxy : x.toNat < y.toNat
    · exact Or.inl (Or.inl hxy)
    · by_cases hyx : y.toNat < x.toNat
      · exact Or.inr (Or.inl hyx)
      · have heq : x.toNat = y.toNat := by omega
        have hxe : x = y := UInt8.toNat_inj.mp heq
        have hne : xs ≠ ys := by
          intro hh; exact h (by rw [hxe, hh])
        rcases blt_total xs ys hne with h' | h'
        · exact Or.inl (Or.inr ⟨heq, h'⟩)
        · exact Or.inr (Or.inr ⟨heq.symm, h'⟩)

theorem blt_asymm (a b : Bytes) (h : blt a b = true) : blt b a = false := by
  cases hb : blt b a with
  | false => rfl
  | true => have := blt_trans a b a h hb; rw [blt_irrefl] at this; cases this

/-! ## strict orders given as Boolean functions -/

structure Strict {α : Type} (lt : α → α → Bool) : Prop where
  irrefl : ∀ a, lt a a = false
  trans : ∀ a b c, lt a b = true → lt b c = true → lt a c = true

theorem Strict.asymm {α : Type} {lt : α → α → Bool} (h : Strict lt) (a b : α) (hab : lt a b = true) :
    lt b a = false := by
  cases hb : lt b a with
  | false => rfl
  | true => have := h.trans a b a hab hb; rw [h.irrefl] at this; cases this

theorem strict_dirLt (d : Dir) : Strict (dirLt d) := by
  cases d
  · exact ⟨blt_irrefl, blt_trans⟩
  · exact ⟨blt_irrefl, fun a b c h1 h2 => blt_trans c b a h2 h1⟩

theorem dirLt_total (d : Dir) (a b : Bytes) (h : a ≠ b) : dirLt d a b = true ∨ dirLt d b a = true := by
  cases d
  · exact blt_total a b h
  · exact (blt_total a b h).symm

/-- Entries are compared by key. -/
def keyLt (a b : Entry) : Bool := blt a.1 b.1

theorem strict_keyLt : Strict keyLt :=
  ⟨fun a => blt_irrefl a.1, fun a b c => blt_trans a.1 b.1 c.1⟩

/-! ## insertion sort -/

section sort
variable {α : Type} {lt : α → α → Bool}

theorem mem_insertBy (x y : α) (l : List α) : y ∈ insertBy lt x l ↔ y = x ∨ y ∈ l := by
  induction l with
  | nil => simp [insertBy]
  | cons z zs ih =>
    simp only [insertBy]
    split
    · simp only [List.mem_cons, ih]
      constructor
      · rintro (h | h | h) <;> simp [h]
      · rintro (h | h | h) <;> simp [h]
    · simp

theorem mem_sortBy (y : α) (l : List α) : y ∈ sortBy lt l ↔ y ∈ l := by
  induction l with
  | nil => simp [sortBy]
  | cons z zs ih =>
    have : sortBy lt (z :: zs) = insertBy lt z (sortBy lt zs) := rfl
    rw [this, mem_insertBy, ih]; simp

theorem pairwise_insertBy (hs : Strict lt) (x : α) (l : List α)
    (hc : ∀ y ∈ l, lt y x = true ∨ lt x y = true) (hp : l.Pairwise (fun a b => lt a b = true)) :
    (insertBy lt x l).Pairwise (fun a b => lt a b = true) := by
  induction l with
  | nil => simp [insertBy]
  | cons z zs ih =>
    simp only [insertBy]
    rw [List.pairwise_cons] at hp
    split
    · rename_i hzx
      rw [List.pairwise_cons]
      refine ⟨?_, ih (fun y hy => hc y (List.mem_cons_of_mem _ hy)) hp.2⟩
      intro y hy
      rw [mem_insertBy] at hy
      rcases hy with rfl | hy
      · exact hzx
      · exact hp.1 y hy
    · rename_i hzx
      have hxz : lt x z = true := by
        rcases hc z (List.mem_cons_self ..) with h | h
        · exact absurd h hzx
        · exact h
      rw [List.pairwise_cons]
      refine ⟨?_, List.pairwise_cons.mpr hp⟩
      intro y hy
      rcases List.mem_cons.mp hy with rfl | hy
      · exact hxz
      · exact hs.trans _ _ _ hxz (hp.1 y hy)

theorem pairwise_sortBy (hs : Strict lt) (l : List α)
    (hc : l.Pairwise (fun a b => lt a b = true ∨ lt b a = true)) :
    (sortBy lt l).Pairwise (fun a b => lt a b = true) := by
  induction l with
  | nil => simp [sortBy]
  | cons z zs ih =>
    have : sortBy lt (z :: zs) = insertBy lt z (sortBy lt zs) := rfl
    rw [this]
    rw [List.pairwise_cons] at hc
    apply pairwise_insertBy hs
    · intro y hy
      rw [mem_sortBy] at hy
      exact (hc.1 y hy).symm
    · exact ih hc.2

/-- A list sorted by a strict order is determined by its elements. -/
theorem sorted_ext (hs : Strict lt) : ∀ (l1 l2 : List α),
    l1.Pairwise (fun a b => lt a b = true) → l2.Pairwise (fun a b => lt a b = true) →
    (∀ x, x ∈ l1 ↔ x ∈ l2) → l1 = l2
  | [], [], _, _, _ => rfl
  | [], y :: ys, _, _, h => by have := (h y).mpr (List.mem_cons_self ..); simp at this
  | x :: xs, [], _, _, h => by have := (h x).mp (List.mem_cons_self ..); simp at this
  | x :: xs, y :: ys, h1, h2, h => by
    rw [List.pairwise_cons] at h1 h2
    have hxy : x = y := by
      have hx := (h x).mp (List.mem_cons_self ..)
      have hy := (h y).mpr (List.mem_cons_self ..)
      rcases List.mem_cons.mp hx with hx | hx
      · exact hx
      · rcases List.mem_cons.mp hy with hy | hy
        · exact hy.symm
        · have a := h2.1 x hx
          have b := h1.1 y hy
          rw [hs.asymm _ _ a] at b; cases b
    subst hxy
    congr 1
    apply sorted_ext hs xs ys h1.2 h2.2
    intro z
    constructor
    · intro hz
      rcases List.mem_cons.mp ((h z).mp (List.mem_cons_of_mem _ hz)) with rfl | hz'
      · have := h1.1 z hz; rw [hs.irrefl] at this; cases this
      · exact hz'
    · intro hz
      rcases List.mem_cons.mp ((h z).mpr (List.mem_cons_of_mem _ hz)) with rfl | hz'
      · have := h2.1 z hz; rw [hs.irrefl] at this; cases this
      · exact hz'

/-- Sorting a list of pairwise comparable elements gives *the* sorted list with these elements. -/
theorem sortBy_eq (hs : Strict lt) (l l' : List α)
    (hc : l.Pairwise (fun a b => lt a b = true ∨ lt b a = true))
    (hp : l'.Pairwise (fun a b => lt a b = true)) (hm : ∀ x, x ∈ l' ↔ x ∈ l) : sortBy lt l = l' :=
  sorted_ext hs _ _ (pairwise_sortBy hs l hc) hp (fun x => by rw [mem_sortBy, hm])

end sort

theorem stopAfter_map {α β : Type} (f : α → β) (n : Nat) (l : List α) :
    stopAfter n (l.map f) = (stopAfter n l).map f := by
  unfold stopAfter; split <;> simp [List.map_take]

end Hive.KV
