import Hive.Proofs.C12aHeapIdx
/-!
# Level 2: multiset facts

`swap`, `up`, `down` permute the array; `push` adds exactly the new element; `heap.Pop` removes
exactly slot 0, `heap.Remove(i)` exactly slot `i`, the `remove` closure of handle `h` exactly the
element with id `h` (or nothing).  Consequence: the `remove` closure is idempotent.
-/
namespace Hive.C12a.Heap

/-- Exchanging two entries of a list is a permutation. -/
theorem set_set_perm {α} [DecidableEq α] (l : List α) (i j : Nat) (hi : i < l.length)
    (hj : j < l.length) : ((l.set i l[j]).set j l[i]).Perm l := by
  rw [List.perm_iff_count]
  intro a
  rw [List.count_set (by simpa using hj), List.count_set hi]
  simp only [List.getElem_set, beq_iff_eq]
  have h1 : 0 < l.count l[i] := List.count_pos_iff.2 (List.getElem_mem hi)
  have h2 : 0 < l.count l[j] := List.count_pos_iff.2 (List.getElem_mem hj)
  grind

/-- `Swap(i, j)` permutes the array. -/
theorem swap_perm (s : St) (i j) (hi : i < s.arr.length) (hj : j < s.arr.length) :
    (swap s i j).arr.Perm s.arr := by
  simp only [swap, at_lt s i hi, at_lt s j hj]
  exact set_set_perm s.arr i j hi hj

/-- `up` permutes the array. -/
theorem up_perm (s : St) (j : Nat) (hj : j < s.arr.length) : (up s j).arr.Perm s.arr := by
  fun_induction up s j with
  | case1 s => exact List.Perm.refl _
  | case2 s j h0 hl ih =>
    exact (ih (by simp; omega)).trans (swap_perm s _ _ (by omega) hj)
  | case3 => exact List.Perm.refl _

/-- `down` permutes the array. -/
theorem down_perm (s : St) (i n : Nat) (hn : n ≤ s.arr.length) :
    (down s i n).1.arr.Perm s.arr := by
  fun_induction down s i n with
  | case1 s i h hl ih =>
    have := child_lt s i n h
    exact (ih (by simpa using hn)).trans (swap_perm s _ _ (by omega) (by omega))
  | case2 => exact List.Perm.refl _
  | case3 => exact List.Perm.refl _

/-- `Heap.Pop` removes exactly the last slot. -/
theorem popLast_perm (s : St) (hne : s.arr.length ≠ 0) :
    s.arr.Perm ((popLast s).2 :: (popLast s).1.arr) := by
  simp only [popLast_elem, popLast_arr]
  have h : s.arr.length - 1 < s.arr.length := by omega
  have := List.take_succ_eq_append_getElem h
  rw [List.take_of_length_le (by omega)] at this
  rw [at_lt s _ h]
  conv => lhs; rw [this]
  exact List.perm_append_singleton _ _

/-! ## `Push` -/

/-- `Push` returns the next allocation number as the handle. -/
theorem push_handle (s : St) (v : Nat) (p : Int) : (push s v p).2 = s.idx.length := rfl

@[simp] theorem push_cmp (s : St) (v : Nat) (p : Int) : (push s v p).1.cmp = s.cmp := by
  simp [push, heapPush]

@[simp] theorem push_idx_length (s : St) (v : Nat) (p : Int) :
    (push s v p).1.idx.length = s.idx.length + 1 := by
  simp [push, heapPush]

/-- `Push` adds exactly the new element `⟨handle, p, v⟩`. -/
theorem push_perm (s : St) (v : Nat) (p : Int) :
    (push s v p).1.arr.Perm (⟨s.idx.length, p, v⟩ :: s.arr) := by
  simp only [push, heapPush]
  refine (up_perm _ _ (by simp)).trans ?_
  simp only [pushLast_arr, alloc_arr, alloc_elem]
  exact List.perm_append_singleton _ _

theorem push_length (s : St) (v : Nat) (p : Int) :
    (push s v p).1.arr.length = s.arr.length + 1 := by
  simpa using (push_perm s v p).length_eq

/-! ## `heap.Pop` -/

@[simp] theorem heapPop_cmp (s : St) : (heapPop s).1.cmp = s.cmp := by
  simp [heapPop]

@[simp] theorem heapPop_idx_length (s : St) : (heapPop s).1.idx.length = s.idx.length := by
  simp [heapPop]

@[simp] theorem heapPop_length (s : St) : (heapPop s).1.arr.length = s.arr.length - 1 := by
  simp [heapPop]

/-- `heap.Pop` returns the root. -/
theorem heapPop_elem (s : St) (hne : s.arr.length ≠ 0) : (heapPop s).2 = s.at 0 := by
  simp only [heapPop, popLast_elem, down_length, swap_length]
  rw [down_at_ge _ _ _ _ (by simp) (Nat.le_refl _), at_swap s _ _ _ (by omega) (by omega)]
  simp

/-- `heap.Pop` removes exactly the element it returns. -/
theorem heapPop_perm (s : St) (hne : s.arr.length ≠ 0) :
    s.arr.Perm ((heapPop s).2 :: (heapPop s).1.arr) := by
  have h1 := swap_perm s 0 (s.arr.length - 1) (by omega) (by omega)
  have h2 := down_perm (swap s 0 (s.arr.length - 1)) 0 (s.arr.length - 1) (by simp)
  have h3 := popLast_perm (down (swap s 0 (s.arr.length - 1)) 0 (s.arr.length - 1)).1
    (by simpa using hne)
  exact (h1.symm.trans h2.symm).trans h3

/-- After `heap.Pop` the popped element's index is `-1` (its `remove` closure is dead). -/
theorem heapPop_idx_elem (s : St) : (heapPop s).1.idx.getD (heapPop s).2.id (-1) = -1 := by
  unfold heapPop; exact popLast_idx_elem _

/-! ## `heap.Remove` -/

theorem removePre_perm (s : St) (i : Nat) (hi : i < s.arr.length) :
    (removePre s i).arr.Perm s.arr := by
  unfold removePre
  have h1 := swap_perm s i (s.arr.length - 1) hi (by omega)
  have h2 := down_perm (swap s i (s.arr.length - 1)) i (s.arr.length - 1) (by simp)
  split
  · split
    · exact ((up_perm _ i (by simpa using hi)).trans h2).trans h1
    · exact h2.trans h1
  · exact List.Perm.refl _

/-- The slot `heap.Remove(i)` cuts off holds the old slot `i`. -/
theorem removePre_at_last (s : St) (i : Nat) (hi : i < s.arr.length) :
    (removePre s i).at (s.arr.length - 1) = s.at i := by
  unfold removePre
  have h1 : (swap s i (s.arr.length - 1)).at (s.arr.length - 1) = s.at i := by
    rw [at_swap s _ _ _ hi (by omega)]; simp
  have h2 := down_at_ge (swap s i (s.arr.length - 1)) i (s.arr.length - 1) (s.arr.length - 1)
    (by simp) (Nat.le_refl _)
  split
  · next hne =>
    split
    · rw [up_at_gt _ _ _ (by simpa using hi) (by omega), h2, h1]
    · rw [h2, h1]
  · next heq =>
    have : s.arr.length - 1 = i := by omega
    rw [this]

@[simp] theorem heapRemove_cmp (s : St) (i) : (heapRemove s i).1.cmp = s.cmp := by
  simp [heapRemove_eq]

@[simp] theorem heapRemove_idx_length (s : St) (i) :
    (heapRemove s i).1.idx.length = s.idx.length := by
  simp [heapRemove_eq]

@[simp] theorem heapRemove_length (s : St) (i) :
    (heapRemove s i).1.arr.length = s.arr.length - 1 := by
  simp [heapRemove_eq]

/-- `heap.Remove(i)` returns slot `i`. -/
theorem heapRemove_elem (s : St) (i : Nat) (hi : i < s.arr.length) :
    (heapRemove s i).2 = s.at i := by
  rw [heapRemove_eq, popLast_elem, removePre_length, removePre_at_last s i hi]

/-- `heap.Remove(i)` removes exactly the element it returns. -/
theorem heapRemove_perm (s : St) (i : Nat) (hi : i < s.arr.length) :
    s.arr.Perm ((heapRemove s i).2 :: (heapRemove s i).1.arr) := by
  rw [heapRemove_eq]
  exact (removePre_perm s i hi).symm.trans (popLast_perm _ (by rw [removePre_length]; omega))

/-- After `heap.Remove(i)` the removed element's index is `-1`. -/
theorem heapRemove_idx_elem (s : St) (i : Nat) :
    (heapRemove s i).1.idx.getD (heapRemove s i).2.id (-1) = -1 := by
  rw [heapRemove_eq]; exact popLast_idx_elem _

/-! ## the `remove` closure -/

@[simp] theorem removeHandle_cmp (s : St) (h) : (removeHandle s h).cmp = s.cmp := by
  unfold removeHandle; split <;> simp

@[simp] theorem removeHandle_idx_length (s : St) (h) :
    (removeHandle s h).idx.length = s.idx.length := by
  unfold removeHandle; split <;> simp

/-- A handle whose index is `-1` is a no-op. -/
theorem removeHandle_of_idx (s : St) (h : Nat) (hh : s.idx.getD h (-1) = -1) :
    removeHandle s h = s := by
  unfold removeHandle
  rw [if_neg (by simpa using hh)]

/-- A handle whose element is not in the heap (already popped / removed, or never allocated) is a
no-op. -/
theorem removeHandle_absent (s : St) (h : Nat) (hs : IdxInv s)
    (hn : ∀ e ∈ s.arr, e.id ≠ h) : removeHandle s h = s := by
  unfold removeHandle
  rw [if_neg]
  simp only [ne_eq, Decidable.not_not]
  exact hs.absent (fun i hi => hn _ (at_mem s i hi))

/-- A handle whose element is in the heap: exactly that element leaves the array. -/
theorem removeHandle_present (s : St) (h : Nat) (hs : IdxInv s) (e : Elem) (he : e ∈ s.arr)
    (hid : e.id = h) : s.arr.Perm (e :: (removeHandle s h).arr) := by
  obtain ⟨i, hi, rfl⟩ := (mem_iff_at s e).1 he
  have hidx := (hs.1 i hi).2
  rw [hid] at hidx
  unfold removeHandle
  have hne : s.idx.getD h (-1) ≠ -1 := by omega
  rw [if_pos hne, hidx]
  have := heapRemove_perm s i hi
  rw [heapRemove_elem s i hi] at this
  simpa using this

/-- Both cases of the `remove` closure in one statement. -/
theorem removeHandle_spec (s : St) (h : Nat) (hs : IdxInv s) :
    (∃ e, e ∈ s.arr ∧ e.id = h ∧ s.arr.Perm (e :: (removeHandle s h).arr)) ∨
    ((∀ e ∈ s.arr, e.id ≠ h) ∧ removeHandle s h = s) := by
  by_cases hex : ∃ e, e ∈ s.arr ∧ e.id = h
  · obtain ⟨e, he, hid⟩ := hex
    exact Or.inl ⟨e, he, hid, removeHandle_present s h hs e he hid⟩
  · have hn : ∀ e ∈ s.arr, e.id ≠ h := fun e he hid => hex ⟨e, he, hid⟩
    exact Or.inr ⟨hn, removeHandle_absent s h hs hn⟩

/-- After the `remove` closure ran, the handle's index is `-1`. -/
theorem removeHandle_idx (s : St) (h : Nat) (hs : IdxInv s) :
    (removeHandle s h).idx.getD h (-1) = -1 := by
  unfold removeHandle
  split
  · next hne =>
    obtain ⟨hlt, hid, _⟩ := hs.lookup hne
    have := heapRemove_idx_elem s (s.idx.getD h (-1)).toNat
    rwa [heapRemove_elem s _ hlt, hid] at this
  · next heq => simpa using heq

/-- The `remove` closure is idempotent. -/
theorem removeHandle_idem (s : St) (h : Nat) (hs : IdxInv s) :
    removeHandle (removeHandle s h) h = removeHandle s h :=
  removeHandle_of_idx _ h (removeHandle_idx s h hs)

end Hive.C12a.Heap
