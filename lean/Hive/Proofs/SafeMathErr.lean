import Hive.Model.SafeMathErr
/-! General facts about the error-identity model (all environments, all chains). -/
namespace Hive.SafeMathErr

/-- `classify` answers `overflow` exactly for the chains that reach the overflow sentinel and not the
division-by-zero sentinel. -/
theorem classify_overflow_iff (c : Chain) :
    classify c = "overflow" ↔
      (c.contains "?" = false ∧ c.contains "ErrIntegerOverflow" = true ∧ c.contains "ErrIntegerDivisionByZero" = false) := by
  unfold classify
  cases h0 : c.contains "?" <;> cases h1 : c.contains "ErrIntegerOverflow" <;> cases h2 : c.contains "ErrIntegerDivisionByZero" <;> simp <;> decide

theorem classify_divzero_iff (c : Chain) :
    classify c = "divzero" ↔
      (c.contains "?" = false ∧ c.contains "ErrIntegerOverflow" = false ∧ c.contains "ErrIntegerDivisionByZero" = true) := by
  unfold classify
  cases h0 : c.contains "?" <;> cases h1 : c.contains "ErrIntegerOverflow" <;> cases h2 : c.contains "ErrIntegerDivisionByZero" <;> simp <;> decide

/-- An accepted wrapper applied to a sentinel has the sentinel's chain: wrapping never changes what `errors.Is`
finds (any environment, any sentinel, any wrapper name). -/
theorem eval_wrapped_sentinel (env : Env) (n f : String) (c : Chain)
    (hs : env.sentinels.lookup n = some c) (hf : env.wrappers.contains f = true) :
    eval env [.sentinel n, .call f] = some c := by
  have hf' : f ∈ env.wrappers := by simpa using hf
  simp [eval, run, step, hs, hf']

/-- A wrapper that is not among the accepted ones makes the site unclassifiable (never silently accepted). -/
theorem eval_unknown_wrapper (env : Env) (n f : String) (hf : env.wrappers.contains f = false) :
    eval env [.sentinel n, .call f] = none := by
  have hf' : ¬ f ∈ env.wrappers := by simpa using hf
  cases hs : env.sentinels.lookup n <;> simp [eval, run, step, hs, hf']

theorem eval_opaque (env : Env) (s : String) (ts : List Tok) : eval env (.opaque s :: ts) = none := by
  simp [eval, run, step]

/-- `sitesOK` means what it says, for every site of the list. -/
theorem sitesOK_sound (defs : List (String × List Tok)) (ws : List Wrapper) (sites : List Site)
    (h : sitesOK defs ws sites = true) : ∀ s ∈ sites, siteClass defs ws s = some s.res := by
  intro s hs
  unfold sitesOK at h
  have := List.all_eq_true.mp h s hs
  simpa using this

end Hive.SafeMathErr
