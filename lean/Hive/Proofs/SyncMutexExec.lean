import Hive.Model.SyncMutexExec
/-!
Soundness of the driver's exploration: every configuration it reports as a quiescent outcome is reachable in
the protocol model (`Reach`) from one of the start configurations and is stuck (`Stuck`) — so "the
observation agrees with an admissible outcome" is a statement about the same transition systems the C17
theorems quantify over.
-/
namespace Hive.SyncMutex.Exec
open Hive.Conc

variable {σ τ κ : Type}

theorem succsAux_sound (S : Sys σ τ) (s : σ) :
    ∀ (post pre : List τ) (c' : Cfg σ τ), c' ∈ succsAux S s pre post → Step S (s, pre.reverse ++ post) c' := by
  intro post
  induction post with
  | nil => intro pre c' h; simp [succsAux] at h
  | cons t post ih =>
    intro pre c' h
    simp only [succsAux, List.mem_append, List.mem_map] at h
    rcases h with ⟨p, hp, rfl⟩ | h
    · exact Step.mk s pre.reverse t post p.1 p.2 hp
    · have := ih (t :: pre) c' h
      simpa using this

theorem succs_sound (S : Sys σ τ) (c c' : Cfg σ τ) (h : c' ∈ succs S c) : Step S c c' := by
  have := succsAux_sound S c.1 c.2 [] c' h
  simpa using this

theorem succsAux_nil (S : Sys σ τ) (s : σ) :
    ∀ (post pre : List τ), succsAux S s pre post = [] → ∀ t ∈ post, S.step s t = [] := by
  intro post
  induction post with
  | nil => intro _ _ t ht; simp at ht
  | cons a post ih =>
    intro pre h t ht
    simp only [succsAux, List.append_eq_nil_iff, List.map_eq_nil_iff] at h
    rcases List.mem_cons.mp ht with rfl | ht'
    · exact h.1
    · exact ih (a :: pre) h.2 t ht'

theorem succs_nil_stuck (S : Sys σ τ) (c : Cfg σ τ) (h : succs S c = []) : Stuck S c :=
  fun t ht => succsAux_nil S c.1 c.2 [] h t ht

theorem explore_sound (S : Sys σ τ) (key : Cfg σ τ → κ) [BEq κ] [Hashable κ] (P : Cfg σ τ → Prop)
    (hP : ∀ a b, P a → Step S a b → P b) :
    ∀ (fuel : Nat) (work : List (Cfg σ τ)) (seen : Std.HashSet κ) (acc : List (Cfg σ τ)),
      (∀ c ∈ work, P c) → (∀ c ∈ acc, P c ∧ Stuck S c) →
      ∀ c ∈ (explore S key fuel work seen acc).1, P c ∧ Stuck S c := by
  intro fuel
  induction fuel with
  | zero => intro work seen acc _ hacc c hc; simp only [explore] at hc; exact hacc c hc
  | succ fuel ih =>
    intro work seen acc hwork hacc c hc
    cases work with
    | nil => simp only [explore] at hc; exact hacc c hc
    | cons w work =>
      simp only [explore] at hc
      have hw : P w := hwork w (by simp)
      have hrest : ∀ c ∈ work, P c := fun c h => hwork c (by simp [h])
      split at hc
      · exact ih work seen acc hrest hacc c hc
      · split at hc
        · rename_i _ hemp
          refine ih work (seen.insert (key w)) (w :: acc) hrest ?_ c hc
          intro d hd
          rcases List.mem_cons.mp hd with rfl | hd'
          · exact ⟨hw, succs_nil_stuck S d (by simpa using hemp)⟩
          · exact hacc d hd'
        · refine ih (succs S w ++ work) (seen.insert (key w)) acc ?_ hacc c hc
          intro d hd
          rcases List.mem_append.mp hd with h1 | h2
          · exact hP w d hw (succs_sound S w d h1)
          · exact hrest d h2

/-- Everything the driver considers an admissible quiescent outcome is a reachable stuck configuration of
the model. -/
theorem quiescentFrom_sound (S : Sys σ τ) (key : Cfg σ τ → κ) [BEq κ] [Hashable κ] (starts : List (Cfg σ τ))
    (c : Cfg σ τ) (h : c ∈ (quiescentFrom S key starts).1) :
    (∃ c0 ∈ starts, Reach S c0 c) ∧ Stuck S c := by
  refine explore_sound S key (fun c => ∃ c0 ∈ starts, Reach S c0 c) ?_ 200000 starts {} [] ?_ ?_ c h
  · rintro a b ⟨c0, h0, hr⟩ hs
    exact ⟨c0, h0, Reach.tail hr hs⟩
  · intro c hc; exact ⟨c, hc, Reach.refl c⟩
  · intro c hc; simp at hc

end Hive.SyncMutex.Exec
