import Hive.Model.SerixC03Validators
import Hive.Proofs.SerixPrim
import Hive.Proofs.SerixCanonical
/-!
# Every exported validator accepts exactly the sequences its rule describes

`Hive/Model/SerixC03Validators.lean` has one state machine per validator constructor of serializer/serializable.go.
Here: what each one accepts, in mathematical terms (`List.Nodup`, `List.Pairwise` over the byte-lexical order, type
codes read as numbers of the denotation's width), for every sequence of byte strings — hence for every code value
`0..255` of the byte denotation and the full `uint32` range of the word denotation; what a refusal leaves behind; and
that the chained function (`ElementValidationFunc`) accepts iff every chained validator accepts, which is `validSeq`.
-/
namespace Hive.Serix.VX
open Hive.Serix

/-! ## a refusal records nothing; `feed` and `accepts` agree -/

theorem step_refuse (k : VKind) (s : S) (x : Bytes) (h : (step k s x).2.isSome = true) : (step k s x).1 = s := by
  cases k <;> simp only [step] at h ⊢
  · split <;> simp_all
  · split
    · simp_all
    · split <;> simp_all
  · split
    · simp_all
    · split
      · rfl
      · split <;> simp_all
  · split
    · rfl
    · split <;> simp_all

theorem accepts_eq_feed (k : VKind) (s : S) (xs : List Bytes) :
    accepts k s xs = (feed k s xs).all (·.isNone) := by
  induction xs generalizing s with
  | nil => rfl
  | cons x xs ih =>
    simp only [accepts, feed]
    cases h : step k s x with
    | mk s' e =>
      cases e with
      | none => simp [ih]
      | some e => simp

/-! ## each machine against the acceptance functions of `Proofs/SerixPrim` -/

theorem accepts_uniq (s : S) (xs : List Bytes) : accepts .uniq s xs = okU s.set xs := by
  induction xs generalizing s with
  | nil => rfl
  | cons x xs ih =>
    by_cases h : x ∈ s.set
    · simp [accepts, step, okU, h]
    · simp [accepts, step, okU, h, ih]

theorem accepts_lex (s : S) (xs : List Bytes) : accepts .lex s xs = okL lexLe s.prev xs := by
  induction xs generalizing s with
  | nil => rfl
  | cons x xs ih =>
    simp only [accepts, step, okL]
    cases hp : s.prev with
    | none => simp only [Bool.true_and]; rw [ih]
    | some p =>
      by_cases h : lexLe p x = true
      · simp only [h, Bool.not_true, Bool.false_eq_true, if_false, Bool.true_and]; rw [ih]
      · simp [h]

theorem accepts_lexNd (s : S) (xs : List Bytes) : accepts .lexNd s xs = okL lexLt s.prev xs := by
  induction xs generalizing s with
  | nil => rfl
  | cons x xs ih =>
    simp only [accepts, step, okL]
    cases hp : s.prev with
    | none => simp only [Bool.true_and]; rw [ih]
    | some p =>
      by_cases h : lexLe p x = true
      · by_cases he : (p == x) = true
        · simp [h, he, lexLt]
        · have hlt : lexLt p x = true := by simp [lexLt, h, he]
          simp only [h, he, hlt, Bool.not_true, Bool.false_eq_true, if_false, Bool.true_and]; rw [ih]
      · have hlt : lexLt p x = false := by simp [lexLt, h]
        simp [h, hlt]

theorem accepts_one (w : Nat) (s : S) (xs : List Bytes) : accepts (.one w) s xs = okT w s.set xs := by
  induction xs generalizing s with
  | nil => rfl
  | cons x xs ih =>
    by_cases hl : x.length < w
    · simp [accepts, step, okT, hl]
    · by_cases hc : x.take w ∈ s.set
      · simp [accepts, step, okT, hl, hc]
      · simp [accepts, step, okT, hl, hc, ih]

/-! ## what each validator accepts -/

/-- `ElementUniqueValidator` accepts a sequence iff its elements are pairwise different. -/
theorem uniq_accepts_iff (xs : List Bytes) : accepts .uniq {} xs = true ↔ xs.Nodup := by
  rw [accepts_uniq, okU_eq]
  simp [nodupB_iff, all_const_true]

theorem lexLt_trans {a b c : Bytes} (h1 : lexLt a b = true) (h2 : lexLt b c = true) : lexLt a c = true := by
  rw [lexLt_iff] at h1 h2 ⊢
  refine ⟨lexLe_trans h1.1 h2.1, ?_⟩
  intro e
  subst e
  exact h1.2 (lexLe_antisymm h1.1 h2.1)

/-- `LexicalOrderValidator` accepts a sequence iff it is ascending in the byte-lexical order (`bytes.Compare ≤ 0` for
every pair in sequence order; duplicates allowed). -/
theorem lex_accepts_iff (xs : List Bytes) :
    accepts .lex {} xs = true ↔ xs.Pairwise (fun a b => lexLe a b = true) := by
  rw [accepts_lex, okL_none]
  exact ⟨pairwise_of_adjOk (R := lexLe) (fun _ _ _ h1 h2 => lexLe_trans h1 h2), adjOk_of_pairwise⟩

/-- `LexicalOrderWithoutDupsValidator` accepts a sequence iff it is strictly ascending. -/
theorem lexNd_accepts_iff (xs : List Bytes) :
    accepts .lexNd {} xs = true ↔ xs.Pairwise (fun a b => lexLt a b = true) := by
  rw [accepts_lexNd, okL_none]
  exact ⟨pairwise_of_adjOk (R := lexLt) (fun _ _ _ h1 h2 => lexLt_trans h1 h2), adjOk_of_pairwise⟩

/-- Strictly ascending = ascending and pairwise different: the optimisation `ElementValidationFunc` makes for
`NoDuplicates | LexicalOrdering` (one comparison with the previous element instead of a map) decides the same rule. -/
theorem lexNd_accepts_iff_lex_and_uniq (xs : List Bytes) :
    accepts .lexNd {} xs = true ↔ (accepts .lex {} xs = true ∧ accepts .uniq {} xs = true) := by
  rw [lexNd_accepts_iff, lex_accepts_iff, uniq_accepts_iff]
  induction xs with
  | nil => simp
  | cons a as ih =>
    simp only [List.pairwise_cons, List.nodup_cons, ih]
    constructor
    · rintro ⟨h1, h2, h3⟩
      refine ⟨⟨fun b hb => lexLe_of_lexLt (h1 b hb), h2⟩, ?_, h3⟩
      intro hm
      have := (lexLt_iff.1 (h1 a hm)).2
      exact this rfl
    · rintro ⟨⟨h1, h2⟩, h3, h4⟩
      refine ⟨?_, h2, h4⟩
      intro b hb
      rw [lexLt_iff]
      refine ⟨h1 b hb, ?_⟩
      intro e
      subst e
      exact h3 hb

/-- `AtMostOneOfEachTypeValidator` with a denotation of `w` bytes accepts a sequence iff every element is at least `w`
bytes long and the `w`-byte prefixes are pairwise different. -/
theorem one_accepts_iff (w : Nat) (xs : List Bytes) :
    accepts (.one w) {} xs = true ↔ (∀ x ∈ xs, w ≤ x.length) ∧ (xs.map (fun x => x.take w)).Nodup := by
  rw [accepts_one, okT_eq, okU_eq]
  simp [nodupB_iff, all_const_true]

theorem leNat_inj {a b : Bytes} (hl : a.length = b.length) (h : leNat a = leNat b) : a = b := by
  rw [← leBytes_leNat a, ← leBytes_leNat b, hl, h]

/-- … iff the **type codes** — the first `w` bytes read as a little-endian number, i.e. every value `0..255` for the byte
denotation and every `uint32` for the word denotation — are pairwise different. -/
theorem one_accepts_iff_codes (w : Nat) (xs : List Bytes) :
    accepts (.one w) {} xs = true ↔
      (∀ x ∈ xs, w ≤ x.length) ∧ (xs.map (fun x => leNat (x.take w))).Nodup := by
  rw [one_accepts_iff]
  refine and_congr_right fun hl => ?_
  simp only [List.Nodup, List.pairwise_map]
  refine List.Pairwise.iff_of_mem ?_
  intro a b ha hb
  constructor
  · intro hne e
    apply hne
    apply leNat_inj _ e
    rw [List.length_take, List.length_take, Nat.min_eq_left (hl a ha), Nat.min_eq_left (hl b hb)]
  · intro hne e
    exact hne (by rw [e])

/-! ## the chained function -/

theorem accepts_cons (k : VKind) (s : S) (x : Bytes) (xs : List Bytes) :
    accepts k s (x :: xs) = (match step k s x with
      | (s', none) => accepts k s' xs
      | (_, some _) => false) := rfl

theorem chainAccepts_cons (c : List (VKind × S)) (x : Bytes) (xs : List Bytes) :
    chainAccepts c (x :: xs) = (match chainStep c x with
      | (c', none) => chainAccepts c' xs
      | (_, some _) => false) := rfl

theorem chainStep_spec (x : Bytes) (xs : List Bytes)
    (ih : ∀ c : List (VKind × S), chainAccepts c xs = c.all (fun p => accepts p.1 p.2 xs)) (c : List (VKind × S)) :
    (match chainStep c x with
      | (c', none) => chainAccepts c' xs
      | (_, some _) => false) = c.all (fun p => accepts p.1 p.2 (x :: xs)) := by
  induction c with
  | nil => simp [chainStep, ih]
  | cons p rest ihc =>
    obtain ⟨k, s⟩ := p
    rw [List.all_cons, accepts_cons, ← ihc]
    simp only [chainStep]
    cases hs : step k s x with
    | mk s' e =>
      cases e with
      | some e => simp
      | none =>
        cases hr : chainStep rest x with
        | mk rest' e' =>
          cases e' with
          | some e' => simp
          | none => simp [ih]

theorem chainAccepts_eq (c : List (VKind × S)) (xs : List Bytes) :
    chainAccepts c xs = c.all (fun p => accepts p.1 p.2 xs) := by
  induction xs generalizing c with
  | nil => simp [chainAccepts, accepts]
  | cons x xs ih => rw [chainAccepts_cons]; exact chainStep_spec x xs ih c

/-- **`ElementValidationFunc` accepts a sequence iff the declarative rule `validSeq` holds**, through the single
validators: the chained function accepts iff each chained validator accepts (they do not share state). -/
theorem chain_accepts_iff_validSeq (r : Rules) (xs : List Bytes) :
    chainAccepts (chainInit r) xs = validSeq r xs := by
  rw [chainAccepts_eq]
  obtain ⟨mn, mx, nd, lx, o8, o32, mo, as⟩ := r
  cases nd <;> cases lx <;> cases o8 <;> cases o32 <;>
    simp [chainInit, chainOf, validSeq, accepts_uniq, accepts_lex, accepts_lexNd, accepts_one, okU_eq, okL_none, okT_nil,
      all_const_true, Bool.and_assoc]

/-- `TypePrefixes.Subset` is set inclusion. -/
theorem subset_iff (a b : List Nat) : subset a b = true ↔ ∀ x ∈ a, x ∈ b := by
  simp [subset, List.all_eq_true]

/-- `CheckBounds`: exactly the counts inside `[min, max]`, where a bound of 0 is no bound. -/
theorem checkBounds_iff (mn mx n : Nat) :
    boundsErr { min := mn, max := mx } n = none ↔ ((mn = 0 ∨ mn ≤ n) ∧ (mx = 0 ∨ n ≤ mx)) := by
  unfold boundsErr
  by_cases h1 : mn = 0 <;> by_cases h2 : mx = 0 <;> by_cases h3 : n < mn <;> by_cases h4 : n > mx <;>
    simp [h1, h2, h3, h4] <;> omega

/-- The sort helpers: the result is an ascending permutation of the input — and the only one (`sortBytes_unique` in
`Proofs/SerixBase`: the order is total and antisymmetric). -/
theorem sortLex_spec (l : List Bytes) :
    (sortLex l).Perm l ∧ (sortLex l).Pairwise (fun a b => lexLe a b = true) :=
  ⟨isortBy_perm id l, isortBy_sorted id l⟩

end Hive.Serix.VX
