import Hive.Proofs.SeqConcStep
/-! Every answer a goroutine has ever received from `Next` / `Release` is the recorded (hence, by the
refinement, the sequential) answer of a linearised call of that goroutine. -/
namespace Hive.Seq.Conc
open Hive.Conc Hive.Seq

/-- A micro-step only extends the history; the goroutine keeps its id; its list of received answers
changes only at the deferred `Unlock`, by the answer it carries. -/
theorem mstep_hist {s s1 : Shared} {g g1 : Gor} (hm : (s1, g1) ∈ mstep s g) :
    (∃ ext, s1.hist = s.hist ++ ext) ∧ g1.id = g.id ∧
      (g1.got = g.got ∨ ∃ a, g.pc = .unlock a ∧ g1.got = g.got ++ [a]) := by
  obtain ⟨id, ep, script, pc, got⟩ := g
  cases pc with
  | idle =>
    simp only [mstep] at hm
    cases script with
    | nil => simp at hm
    | cons c rest =>
      simp only at hm
      split at hm
      · simp at hm
      · simp only [List.mem_singleton, Prod.mk.injEq] at hm
        obtain ⟨rfl, rfl⟩ := hm
        exact ⟨⟨[], (List.append_nil _).symm⟩, rfl, Or.inl rfl⟩
  | unlock a =>
    simp only [mstep, List.mem_singleton, Prod.mk.injEq] at hm
    obtain ⟨rfl, rfl⟩ := hm
    exact ⟨⟨[], (List.append_nil _).symm⟩, rfl, Or.inr ⟨a, rfl, rfl⟩⟩
  | rTest | uNext _ =>
    simp only [mstep] at hm
    obtain ⟨o, _, hx⟩ := mem_withObj hm
    split at hx <;> simp only [List.mem_singleton, Prod.mk.injEq] at hx <;> obtain ⟨rfl, rfl⟩ := hx <;>
      first
      | exact ⟨⟨[], (List.append_nil _).symm⟩, rfl, Or.inl rfl⟩
      | exact ⟨⟨[_], rfl⟩, rfl, Or.inl rfl⟩
  | nTest | uRes _ =>
    simp only [mstep] at hm
    obtain ⟨o, _, hx⟩ := mem_withObj hm
    simp only [List.mem_singleton, Prod.mk.injEq] at hx
    obtain ⟨rfl, rfl⟩ := hx
    exact ⟨⟨[], (List.append_nil _).symm⟩, rfl, Or.inl rfl⟩
  | nHand | rRes =>
    simp only [mstep] at hm
    obtain ⟨o, _, hx⟩ := mem_withObj hm
    simp only [List.mem_singleton, Prod.mk.injEq] at hx
    obtain ⟨rfl, rfl⟩ := hx
    exact ⟨⟨[_], rfl⟩, rfl, Or.inl rfl⟩
  | uGet | uSet | rSet =>
    simp only [mstep] at hm
    obtain ⟨o, _, hx⟩ := mem_withObj hm
    simp only [List.mem_cons, Prod.mk.injEq, List.not_mem_nil, or_false] at hx
    rcases hx with ⟨rfl, rfl⟩ | ⟨rfl, rfl⟩
    · exact ⟨⟨[], (List.append_nil _).symm⟩, rfl, Or.inl rfl⟩
    · exact ⟨⟨[_], rfl⟩, rfl, Or.inl rfl⟩

theorem estep_hist {s s' : Shared} {rs : List Nat} {t' : Thread} (h : (s', t') ∈ estep s rs) :
    (∃ ext, s'.hist = s.hist ++ ext) ∧ ∃ rs', t' = .env rs' := by
  cases rs with
  | nil => simp [estep] at h
  | cons i rest =>
    simp only [estep] at h
    split at h
    · simp at h
    · simp only [List.mem_singleton, Prod.mk.injEq] at h
      obtain ⟨rfl, rfl⟩ := h
      exact ⟨⟨[_, _], rfl⟩, rest, rfl⟩

/-- What every goroutine has received so far was recorded in the history under its id. -/
def AnswersOk (c : Cfg Shared Thread) : Prop :=
  ∀ g, .gor g ∈ c.2 → ∀ a ∈ g.got, ∃ op, (some g.id, op, a) ∈ c.1.hist

theorem answers_step {s0 : St} {a b : Cfg Shared Thread} (hi : Inv s0 a) (ha : AnswersOk a)
    (hs : Step sys a b) : AnswersOk b := by
  cases hs with
  | mk s pre t post s' t' hmem =>
    have hold : ∀ ext, s'.hist = s.hist ++ ext → ∀ g, .gor g ∈ pre ++ t :: post → ∀ x ∈ g.got,
        ∃ op, (some g.id, op, x) ∈ s'.hist := by
      intro ext he g hg x hx
      obtain ⟨op, hop⟩ := ha g hg x hx
      exact ⟨op, by rw [he]; exact List.mem_append_left _ hop⟩
    cases t with
    | env rs =>
      obtain ⟨⟨ext, he⟩, rs', rfl⟩ := estep_hist (show (s', t') ∈ estep s rs from hmem)
      intro g hg x hx
      rcases mem_mid hg with h | h
      · cases h
      · exact hold ext he g (mem_mid' h) x hx
    | gor g0 =>
      simp only [sys, tstep] at hmem
      split at hmem
      · rename_i hep
        simp only [List.mem_map] at hmem
        obtain ⟨⟨s1, g1⟩, hm, heq⟩ := hmem
        simp only [Prod.mk.injEq] at heq
        obtain ⟨rfl, rfl⟩ := heq
        obtain ⟨⟨ext, he⟩, hid, hgot⟩ := mstep_hist hm
        intro g hg x hx
        rcases mem_mid hg with h | h
        · cases h
          rw [hid]
          rcases hgot with hgot | ⟨a', hpc, hgot⟩
          · rw [hgot] at hx
            exact hold ext he g0 (by simp) x hx
          · rw [hgot] at hx
            simp only [List.mem_append, List.mem_singleton] at hx
            rcases hx with hx | rfl
            · exact hold ext he g0 (by simp) x hx
            · have hme := (inv_me hi hep (by rw [hpc]; rfl)).2
              rw [hpc] at hme
              obtain ⟨_, _, op, hlast⟩ := hme
              exact ⟨op, by rw [he]; exact List.mem_append_left _ (List.mem_of_getLast? hlast)⟩
        · exact hold ext he g (mem_mid' h) x hx
      · simp at hmem

theorem answers_reach (s0 : St) (specs : List Spec) {c : Cfg Shared Thread}
    (hr : Reach sys (initSh s0, specs.map spawn) c) : AnswersOk c := by
  have : Inv s0 c ∧ AnswersOk c := by
    refine inv_induction (fun c => Inv s0 c ∧ AnswersOk c) ⟨inv_init s0 specs, ?_⟩
      (fun a b h hs => ⟨inv_step s0 h.1 hs, answers_step h.1 h.2 hs⟩) hr
    intro g hg x hx
    simp only [List.mem_map] at hg
    obtain ⟨sp, _, hsp⟩ := hg
    cases sp with
    | env rs => simp [spawn] at hsp
    | gor id e sc =>
      simp only [spawn, Thread.gor.injEq] at hsp
      subst hsp
      simp at hx
  exact this.2

end Hive.Seq.Conc
