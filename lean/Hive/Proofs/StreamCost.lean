import Hive.Proofs.Stream
/-!
C02 for the stream readers: they never panic, never hand out more than the reader holds, allocate at
most `5·consumed + 16 KiB`, and a collection over items of positive size iterates at most once per
byte (plus one failing round).
-/
namespace Hive.Stream
open Hive.Dec

@[simp] theorem cost_empty_alloc : ({} : Cost).alloc = 0 := rfl
@[simp] theorem cost_empty_iters : ({} : Cost).iters = 0 := rfl

/-! ### lengths around readFull -/

theorem readFullAux_fail (cs : List Nat) (n : Nat) (rest racc : Bytes) (h : rest.length < n) :
    (readFullAux cs n rest racc).1 = none ∧ (readFullAux cs n rest racc).2.rest.length ≤ rest.length := by
  induction cs generalizing n rest racc with
  | nil =>
    cases n with
    | zero => omega
    | succ n =>
      have : ¬ n + 1 ≤ rest.length := by omega
      simp [readFullAux, this]
  | cons c cs ih =>
    cases n with
    | zero => omega
    | succ n =>
      cases hne : rest.isEmpty with
      | true => simp [readFullAux, hne]
      | false =>
        have hl : (rest.take (min (n + 1) c)).length = min (min (n + 1) c) rest.length := by simp
        have := ih (n + 1 - (rest.take (min (n + 1) c)).length) (rest.drop (rest.take (min (n + 1) c)).length)
          ((rest.take (min (n + 1) c)).reverse ++ racc) (by simp only [List.length_drop]; omega)
        simp only [readFullAux, hne, Bool.false_eq_true, if_false]
        refine ⟨this.1, Nat.le_trans this.2 (by simp)⟩

/-- what `readFull n` leaves: on success exactly `n` bytes less, never more than before -/
theorem readFull_len (n : Nat) (rd : Rd) :
    (readFull n rd).2.rest.length ≤ rd.rest.length ∧
    ∀ b, (readFull n rd).1 = some b → (readFull n rd).2.rest.length + n = rd.rest.length ∧ b.length = n := by
  by_cases h : n ≤ rd.rest.length
  · obtain ⟨cs', hr⟩ := readFull_ok n rd h
    rw [hr]
    refine ⟨by simp, fun b hb => ?_⟩
    simp only [Option.some.injEq] at hb
    subst hb
    simp; omega
  · have hf := readFullAux_fail rd.chunks n rd.rest [] (by omega)
    refine ⟨hf.2, fun b hb => ?_⟩
    simp only [readFull] at hb
    rw [hf.1] at hb
    simp at hb

/-! ### ReadBytes: allocation follows the delivered data -/

theorem growAux_cost (n : Nat) (f : Nat) (acc : Bytes) (rd : Rd) (a : Nat)
    (hacc : 1 ≤ acc.length) (ha : a ≤ 3 * acc.length) :
    (growAux f n acc rd a).2.1.rest.length ≤ rd.rest.length ∧
    (growAux f n acc rd a).2.2 ≤ 5 * (acc.length + (rd.rest.length - (growAux f n acc rd a).2.1.rest.length)) := by
  induction f generalizing acc rd a with
  | zero => simp [growAux]; omega
  | succ f ih =>
    by_cases hlt : acc.length < n
    · have hrl := readFull_len (min (n - acc.length) acc.length) rd
      simp only [growAux, hlt, if_true]
      cases hr : readFull (min (n - acc.length) acc.length) rd with
      | mk ob rd' =>
        rw [hr] at hrl
        cases ob with
        | none =>
          simp only
          exact ⟨hrl.1, by omega⟩
        | some b =>
          obtain ⟨hlen, hb⟩ := hrl.2 b rfl
          simp only at hlen hb ⊢
          by_cases hlt2 : (acc ++ b).length < n
          · -- a doubling step: the invariant a ≤ 3·len is kept
            have hnext : min (n - acc.length) acc.length = acc.length := by
              simp only [List.length_append] at hlt2; omega
            have := ih (acc ++ b) rd' (a + (acc.length + min (n - acc.length) acc.length))
              (by simp; omega) (by simp only [List.length_append]; omega)
            refine ⟨Nat.le_trans this.1 (by omega), ?_⟩
            have h2 := this.2
            simp only [List.length_append] at h2
            omega
          · -- the last step: the loop ends
            have hret : growAux f n (acc ++ b) rd' (a + (acc.length + min (n - acc.length) acc.length))
                = (some (acc ++ b), rd', a + (acc.length + min (n - acc.length) acc.length)) := by
              cases f with
              | zero => rfl
              | succ f => simp only [growAux, hlt2, ↓reduceIte]
            rw [hret]
            simp only [List.length_append] at hlt2
            exact ⟨by simp only; omega, by simp only; omega⟩
    · simp [growAux, hlt]; omega

theorem readBytes_cost (n : Int) (rd : Rd) :
    (readBytes n rd).2.1.rest.length ≤ rd.rest.length ∧
    ((readBytes n rd).1.isSome → (readBytes n rd).2.2 ≤ 5 * (rd.rest.length - (readBytes n rd).2.1.rest.length)) ∧
    (readBytes n rd).2.2 ≤ 5 * rd.rest.length + prealloc := by
  by_cases hneg : n < 0
  · simp [readBytes, hneg]
  · simp only [readBytes, hneg, if_false]
    have hrl := readFull_len (min n.toNat prealloc) rd
    cases hr : readFull (min n.toNat prealloc) rd with
    | mk ob rd' =>
      rw [hr] at hrl
      cases ob with
      | none =>
        simp only
        exact ⟨hrl.1, by simp, by omega⟩
      | some b =>
        obtain ⟨hlen, hb⟩ := hrl.2 b rfl
        simp only at hlen hb ⊢
        by_cases h0 : n.toNat = 0
        · simp only [h0, growAux]
          simp only [h0, Nat.zero_min] at hlen
          exact ⟨by omega, by simp, by simp⟩
        · have hp : 1 ≤ prealloc := by simp [prealloc]
          have := growAux_cost n.toNat n.toNat b rd' (min n.toNat prealloc) (by omega) (by omega)
          refine ⟨Nat.le_trans this.1 (by omega), fun _ => ?_, ?_⟩ <;> omega

/-! ### the invariant of a reader call -/

/-- the reader is only moved forward, a successful call allocated at most 5 bytes per byte it
consumed, and any call at most 5 per byte available plus one preallocation -/
structure GoodS (o : ROut) (rd : Rd) : Prop where
  len_le : o.rd.rest.length ≤ rd.rest.length
  ok : o.res = .ok → o.cost.alloc ≤ 5 * (rd.rest.length - o.rd.rest.length)
  all : o.cost.alloc ≤ 5 * rd.rest.length + prealloc
  np : o.res ≠ .panic

theorem goodS_free {o : ROut} {rd : Rd} (hl : o.rd.rest.length ≤ rd.rest.length) (ha : o.cost.alloc = 0)
    (hp : o.res ≠ .panic) : GoodS o rd :=
  ⟨hl, fun _ => by omega, by omega, hp⟩

theorem readFixedSize_len (lp : LP) (rd : Rd) :
    (readFixedSize lp rd).2.1.rest.length ≤ rd.rest.length ∧ (readFixedSize lp rd).2.2 = {} ∧
    ((readFixedSize lp rd).1.isSome → (readFixedSize lp rd).2.1.rest.length + lp.width = rd.rest.length) := by
  have hrl := readFull_len lp.width rd
  simp only [readFixedSize]
  cases hr : readFull lp.width rd with
  | mk ob rd' =>
    rw [hr] at hrl
    cases ob with
    | none => exact ⟨hrl.1, rfl, by simp⟩
    | some b =>
      have := (hrl.2 b rfl).1
      simp only at this ⊢
      split
      · exact ⟨hrl.1, rfl, by simp⟩
      · exact ⟨hrl.1, rfl, fun _ => this⟩

theorem readObj_good (n : Int) (f : From) (rd0 rd : Rd) (c0 : Cost) (h0 : c0.alloc = 0)
    (hle : rd.rest.length ≤ rd0.rest.length) : GoodS (readObj n f rd c0) rd0 := by
  have hc := readBytes_cost n rd
  simp only [readObj]
  cases hr : readBytes n rd with
  | mk ob rest =>
    obtain ⟨rd', a⟩ := rest
    rw [hr] at hc
    cases ob with
    | none =>
      simp only at hc ⊢
      exact ⟨by simp [rfail]; omega, by simp [rfail], by simp [rfail, h0]; omega, by simp [rfail]⟩
    | some b =>
      simp only at hc ⊢
      have hok := hc.2.1 (by simp)
      cases applyFrom f b with
      | none => exact ⟨by simp [rfail]; omega, by simp [rfail], by simp [rfail, h0]; omega, by simp [rfail]⟩
      | some v => exact ⟨by simp [rok]; omega, fun _ => by simp [rok, h0]; omega, by simp [rok, h0]; omega, by simp [rok]⟩

theorem loopItems_good (body : Rd → ROut) (hb : ∀ rd, GoodS (body rd) rd) (k : Nat) (rd : Rd) :
    GoodS (loopItems body k rd) rd := by
  induction k generalizing rd with
  | zero => exact goodS_free (by simp [loopItems]) (by simp [loopItems]) (by simp [loopItems])
  | succ k ih =>
    have h1 := hb rd
    simp only [loopItems]
    split
    · rename_i hok
      have h2 := ih (body rd).rd
      have ha1 := h1.ok hok
      refine ⟨Nat.le_trans h2.len_le h1.len_le, fun hr => ?_, ?_, h2.np⟩
      · have := h2.ok hr
        have := h2.len_le
        have := h1.len_le
        simp only [Cost.add_alloc]; omega
      · have := h2.all
        have := h1.len_le
        simp only [Cost.add_alloc]; omega
    · rename_i hne
      exact ⟨h1.len_le, fun hr => absurd hr hne, by simpa using h1.all, h1.np⟩

mutual
theorem op_good : (op : ROp) → ∀ rd, GoodS (runOp op rd) rd
  | .num w, rd => by
    have hrl := readFull_len w rd
    simp only [runOp]
    cases hr : readFull w rd with
    | mk ob rd' => rw [hr] at hrl; cases ob <;> exact goodS_free hrl.1 (by simp [rfail, rok]) (by simp [rfail, rok])
  | .bool, rd => by
    have hrl := readFull_len 1 rd
    simp only [runOp]
    cases hr : readFull 1 rd with
    | mk ob rd' => rw [hr] at hrl; cases ob <;> exact goodS_free hrl.1 (by simp [rfail, rok]) (by simp [rfail, rok])
  | .arr n, rd => by
    have hrl := readFull_len n rd
    simp only [runOp]
    cases hr : readFull n rd with
    | mk ob rd' => rw [hr] at hrl; cases ob <;> exact goodS_free hrl.1 (by simp [rfail, rok]) (by simp [rfail, rok])
  | .bytes n, rd => by
    have hc := readBytes_cost n rd
    simp only [runOp]
    cases hr : readBytes n rd with
    | mk ob rest =>
      obtain ⟨rd', a⟩ := rest
      rw [hr] at hc
      cases ob with
      | none => exact ⟨hc.1, by simp [rfail], by simpa [rfail] using hc.2.2, by simp [rfail]⟩
      | some b => exact ⟨hc.1, fun _ => by simpa [rok] using hc.2.1 (by simp), by simpa [rok] using hc.2.2, by simp [rok]⟩
  | .bws lp, rd => by
    have hs := readFixedSize_len lp rd
    simp only [runOp]
    cases hr : readFixedSize lp rd with
    | mk on rest =>
      obtain ⟨rd', c⟩ := rest
      rw [hr] at hs
      simp only at hs
      obtain ⟨hl, hc, _⟩ := hs
      subst hc
      cases on with
      | none => exact goodS_free hl (by simp [rfail]) (by simp [rfail])
      | some n =>
        simp only
        split
        · exact goodS_free hl (by simp [rok]) (by simp [rok])
        · have hc := readBytes_cost n rd'
          cases hb : readBytes (n : Int) rd' with
          | mk ob rest2 =>
            obtain ⟨rd'', a⟩ := rest2
            rw [hb] at hc
            simp only at hc
            cases ob with
            | none => exact ⟨by simp [rfail]; omega, by simp [rfail], by simp [rfail]; omega, by simp [rfail]⟩
            | some b =>
              have hok := hc.2.1 (by simp)
              exact ⟨by simp [rok]; omega, fun _ => by simp [rok]; omega, by simp [rok]; omega, by simp [rok]⟩
  | .obj n f, rd => by
    simp only [runOp]
    exact readObj_good n f rd rd {} rfl (Nat.le_refl _)
  | .ows lp f, rd => by
    have hs := readFixedSize_len lp rd
    simp only [runOp]
    cases hr : readFixedSize lp rd with
    | mk on rest =>
      obtain ⟨rd', c⟩ := rest
      rw [hr] at hs
      simp only at hs
      obtain ⟨hl, hc, _⟩ := hs
      subst hc
      cases on with
      | none => exact goodS_free hl (by simp [rfail]) (by simp [rfail])
      | some n => exact readObj_good n f rd rd' {} rfl hl
  | .peek lp, rd => by
    have hs := readFixedSize_len lp rd
    simp only [runOp]
    cases hr : readFixedSize lp rd with
    | mk on rest =>
      obtain ⟨rd', c⟩ := rest
      rw [hr] at hs
      simp only at hs
      obtain ⟨hl, hc, _⟩ := hs
      subst hc
      cases on with
      | none => exact goodS_free hl (by simp [rfail]) (by simp [rfail])
      | some n => exact goodS_free (by simp [rok]) (by simp [rok]) (by simp [rok])
  | .coll lp item, rd => by
    have hs := readFixedSize_len lp rd
    simp only [runOp]
    cases hr : readFixedSize lp rd with
    | mk on rest =>
      obtain ⟨rd', c⟩ := rest
      rw [hr] at hs
      simp only at hs
      obtain ⟨hl, hc, _⟩ := hs
      subst hc
      cases on with
      | none => exact goodS_free hl (by simp [rfail]) (by simp [rfail])
      | some n =>
        have hg := loopItems_good (runProg item) (fun rd'' => prog_good item rd'') n rd'
        refine ⟨Nat.le_trans hg.len_le hl, fun hok => ?_, ?_, hg.np⟩
        · have := hg.ok hok
          have := hg.len_le
          simp only [Cost.add_alloc] at *; omega
        · have := hg.all
          simp only [Cost.add_alloc] at *; omega
  | .sub item, rd => by simp only [runOp]; exact prog_good item rd
theorem prog_good : (p : RProg) → ∀ rd, GoodS (runProg p rd) rd
  | .nil, rd => goodS_free (by simp [runProg]) (by simp [runProg]) (by simp [runProg])
  | .cons op rest, rd => by
    have h1 := op_good op rd
    simp only [runProg]
    split
    · rename_i hok
      have h2 := prog_good rest (runOp op rd).rd
      have ha1 := h1.ok hok
      refine ⟨Nat.le_trans h2.len_le h1.len_le, fun hr => ?_, ?_, h2.np⟩
      · have := h2.ok hr
        have := h2.len_le
        have := h1.len_le
        simp only [Cost.add_alloc]; omega
      · have := h2.all
        have := h1.len_le
        simp only [Cost.add_alloc]; omega
    · exact h1
end

/-! ### iterations -/

/-- bytes a successful reader call consumes at least -/
def ROp.minSize : ROp → Nat
  | .num w => w
  | .bool => 1
  | .arr n => n
  | .bytes n => min n.toNat 1
  | .bws lp => lp.width
  | .obj n _ => min n.toNat 1
  | .ows lp _ => lp.width
  | .peek _ => 0
  | .coll lp _ => lp.width
  | .sub _ => 0

def RProg.minSize : RProg → Nat
  | .nil => 0
  | .cons op rest => op.minSize + rest.minSize

mutual
/-- every item program of every collection has a positive minimum size -/
def ROp.pos : ROp → Bool
  | .coll _ item => decide (1 ≤ item.minSize) && item.pos
  | .sub item => item.pos
  | _ => true
def RProg.pos : RProg → Bool
  | .nil => true
  | .cons op rest => op.pos && rest.pos
end

mutual
/-- 1 + nesting depth of collections -/
def ROp.K : ROp → Nat
  | .coll _ item => item.K + 1
  | .sub item => item.K
  | _ => 1
def RProg.K : RProg → Nat
  | .nil => 1
  | .cons op rest => max op.K rest.K
end

theorem readBytes_min (n : Int) (rd : Rd) (h : (readBytes n rd).1.isSome) :
    min n.toNat 1 ≤ rd.rest.length - (readBytes n rd).2.1.rest.length := by
  by_cases hneg : n < 0
  · simp [readBytes, hneg] at h
  · simp only [readBytes, hneg, if_false] at h ⊢
    have hrl := readFull_len (min n.toNat prealloc) rd
    cases hr : readFull (min n.toNat prealloc) rd with
    | mk ob rd' =>
      rw [hr] at hrl h
      cases ob with
      | none => simp at h
      | some b =>
        obtain ⟨hlen, hb⟩ := hrl.2 b rfl
        simp only at hlen hb ⊢
        have hp : 1 ≤ prealloc := by simp [prealloc]
        by_cases h0 : n.toNat = 0
        · simp [h0]
        · have := (growAux_cost n.toNat n.toNat b rd' (min n.toNat prealloc) (by omega) (by omega)).1
          omega

/-- a successful call consumed at least its static minimum -/
def MinS (m : Nat) (o : ROut) (rd : Rd) : Prop := o.res = .ok → m ≤ rd.rest.length - o.rd.rest.length

theorem readObj_min (n : Int) (f : From) (rd0 rd : Rd) (c0 : Cost) (w : Nat)
    (hle : rd.rest.length + w = rd0.rest.length) : MinS (w + min n.toNat 1) (readObj n f rd c0) rd0 := by
  have hm := readBytes_min n rd
  have hc := (readBytes_cost n rd).1
  simp only [readObj, MinS]
  cases hr : readBytes n rd with
  | mk ob rest =>
    obtain ⟨rd', a⟩ := rest
    rw [hr] at hm hc
    cases ob with
    | none => simp [rfail]
    | some b =>
      have := hm (by simp)
      simp only at this hc ⊢
      cases applyFrom f b with
      | none => simp [rfail]
      | some v => intro _; simp only [rok]; omega

theorem op_min (op : ROp) (rd : Rd) : MinS op.minSize (runOp op rd) rd := by
  cases op with
  | sub item => intro _; simp [ROp.minSize]
  | num w =>
    have hrl := readFull_len w rd
    simp only [runOp, MinS, ROp.minSize]
    cases hr : readFull w rd with
    | mk ob rd' =>
      rw [hr] at hrl
      cases ob with
      | none => simp [rfail]
      | some b => have := (hrl.2 b rfl).1; intro _; simp only [rok] at *; omega
  | bool =>
    have hrl := readFull_len 1 rd
    simp only [runOp, MinS, ROp.minSize]
    cases hr : readFull 1 rd with
    | mk ob rd' =>
      rw [hr] at hrl
      cases ob with
      | none => simp [rfail]
      | some b => have := (hrl.2 b rfl).1; intro _; simp only [rok] at *; omega
  | arr n =>
    have hrl := readFull_len n rd
    simp only [runOp, MinS, ROp.minSize]
    cases hr : readFull n rd with
    | mk ob rd' =>
      rw [hr] at hrl
      cases ob with
      | none => simp [rfail]
      | some b => have := (hrl.2 b rfl).1; intro _; simp only [rok] at *; omega
  | bytes n =>
    have hm := readBytes_min n rd
    simp only [runOp, MinS, ROp.minSize]
    cases hr : readBytes n rd with
    | mk ob rest =>
      obtain ⟨rd', a⟩ := rest
      rw [hr] at hm
      cases ob with
      | none => simp [rfail]
      | some b => have := hm (by simp); intro _; simpa [rok] using this
  | bws lp =>
    have hs := readFixedSize_len lp rd
    simp only [runOp, MinS, ROp.minSize]
    cases hr : readFixedSize lp rd with
    | mk on rest =>
      obtain ⟨rd', c⟩ := rest
      rw [hr] at hs
      simp only at hs
      cases on with
      | none => simp [rfail]
      | some n =>
        have hw := hs.2.2 (by simp)
        simp only
        split
        · intro _; simp only [rok]; omega
        · have hc := (readBytes_cost n rd').1
          cases hb : readBytes (n : Int) rd' with
          | mk ob rest2 =>
            obtain ⟨rd'', a⟩ := rest2
            rw [hb] at hc
            cases ob with
            | none => simp [rfail]
            | some b => intro _; simp only [rok] at *; omega
  | obj n f =>
    simp only [runOp, ROp.minSize]
    have := readObj_min n f rd rd {} 0 (by omega)
    simpa using this
  | ows lp f =>
    have hs := readFixedSize_len lp rd
    simp only [runOp, ROp.minSize]
    cases hr : readFixedSize lp rd with
    | mk on rest =>
      obtain ⟨rd', c⟩ := rest
      rw [hr] at hs
      simp only at hs
      cases on with
      | none => simp [MinS, rfail]
      | some n =>
        have hw := hs.2.2 (by simp)
        have := readObj_min n f rd rd' c lp.width hw
        intro hok
        simp only at hok ⊢
        have := this hok
        omega
  | peek lp => intro _; simp [ROp.minSize]
  | coll lp item =>
    have hs := readFixedSize_len lp rd
    simp only [runOp, ROp.minSize, MinS]
    cases hr : readFixedSize lp rd with
    | mk on rest =>
      obtain ⟨rd', c⟩ := rest
      rw [hr] at hs
      simp only at hs
      cases on with
      | none => simp [rfail]
      | some n =>
        have hw := hs.2.2 (by simp)
        have hg := (loopItems_good (runProg item) (fun rd'' => prog_good item rd'') n rd').len_le
        intro _
        simp only at *; omega

theorem prog_min : (p : RProg) → ∀ rd, MinS p.minSize (runProg p rd) rd
  | .nil, rd => by intro _; simp [RProg.minSize]
  | .cons op rest, rd => by
    have h1 := op_min op rd
    have hl1 := (op_good op rd).len_le
    simp only [runProg, RProg.minSize, MinS]
    split
    · rename_i hok
      have h2 := prog_min rest (runOp op rd).rd
      have hl2 := (prog_good rest (runOp op rd).rd).len_le
      intro hr
      have := h1 hok
      have := h2 hr
      simp only at *; omega
    · rename_i hne; intro hr; exact absurd hr hne

/-- a successful call iterated at most `K` times per byte consumed; any call at most `K` times per
byte available, plus one failing round -/
structure GoodSI (K : Nat) (o : ROut) (rd : Rd) : Prop where
  ok : o.res = .ok → o.cost.iters ≤ K * (rd.rest.length - o.rd.rest.length)
  all : o.cost.iters ≤ K * (rd.rest.length + 1)

theorem GoodSI.mono {K K' : Nat} {o : ROut} {rd : Rd} (h : GoodSI K o rd) (hk : K ≤ K') : GoodSI K' o rd :=
  ⟨fun hr => Nat.le_trans (h.ok hr) (Nat.mul_le_mul_right _ hk), Nat.le_trans h.all (Nat.mul_le_mul_right _ hk)⟩

theorem goodSI_zero {K : Nat} {o : ROut} {rd : Rd} (h : o.cost.iters = 0) : GoodSI K o rd :=
  ⟨fun _ => by omega, by omega⟩

theorem loopItems_I (body : Rd → ROut) (K : Nat) (hb : ∀ rd, GoodSI K (body rd) rd)
    (hg : ∀ rd, GoodS (body rd) rd) (hm : ∀ rd, MinS 1 (body rd) rd) (k : Nat) (rd : Rd) :
    GoodSI (K + 1) (loopItems body k rd) rd := by
  induction k generalizing rd with
  | zero => exact goodSI_zero (by simp [loopItems])
  | succ k ih =>
    have h1 := hb rd
    have hl1 := (hg rd).len_le
    simp only [loopItems]
    split
    · rename_i hok
      have h2 := ih (body rd).rd
      have hl2 := (loopItems_good body hg k (body rd).rd).len_le
      have hi1 := h1.ok hok
      have hm1 := hm rd hok
      constructor
      · intro hr
        have hi2 := h2.ok hr
        simp only [Cost.add_iters]
        have e := Nat.mul_add (K + 1) (rd.rest.length - (body rd).rd.rest.length)
          ((body rd).rd.rest.length - (loopItems body k (body rd).rd).rd.rest.length)
        have e2 : rd.rest.length - (body rd).rd.rest.length +
            ((body rd).rd.rest.length - (loopItems body k (body rd).rd).rd.rest.length)
            = rd.rest.length - (loopItems body k (body rd).rd).rd.rest.length := by omega
        rw [e2] at e
        rw [e, Nat.succ_mul K (rd.rest.length - (body rd).rd.rest.length)]
        omega
      · have hi2 := h2.all
        simp only [Cost.add_iters]
        have e := Nat.mul_add (K + 1) (rd.rest.length - (body rd).rd.rest.length) ((body rd).rd.rest.length + 1)
        have e2 : rd.rest.length - (body rd).rd.rest.length + ((body rd).rd.rest.length + 1) = rd.rest.length + 1 := by
          omega
        rw [e2] at e
        rw [e, Nat.succ_mul K (rd.rest.length - (body rd).rd.rest.length)]
        omega
    · rename_i hne
      refine ⟨fun hr => absurd hr hne, ?_⟩
      have := h1.all
      simp only [Cost.add_iters, Nat.succ_mul]; omega

mutual
theorem op_I : (op : ROp) → op.pos = true → ∀ rd, GoodSI op.K (runOp op rd) rd
  | .num w, _, rd => goodSI_zero (by
      simp only [runOp]; cases readFull w rd with | mk ob rd' => cases ob <;> simp [rfail, rok])
  | .bool, _, rd => goodSI_zero (by
      simp only [runOp]; cases readFull 1 rd with | mk ob rd' => cases ob <;> simp [rfail, rok])
  | .arr n, _, rd => goodSI_zero (by
      simp only [runOp]; cases readFull n rd with | mk ob rd' => cases ob <;> simp [rfail, rok])
  | .bytes n, _, rd => goodSI_zero (by
      simp only [runOp]
      cases readBytes n rd with
      | mk ob rest => obtain ⟨rd', a⟩ := rest; cases ob <;> simp [rfail, rok])
  | .bws lp, _, rd => goodSI_zero (by
      have hs := (readFixedSize_len lp rd).2.1
      simp only [runOp]
      cases hr : readFixedSize lp rd with
      | mk on rest =>
        obtain ⟨rd', c⟩ := rest
        rw [hr] at hs
        simp only at hs
        subst hs
        cases on with
        | none => simp [rfail]
        | some n =>
          simp only
          split
          · simp [rok]
          · cases readBytes (n : Int) rd' with
            | mk ob rest2 => obtain ⟨rd'', a⟩ := rest2; cases ob <;> simp [rfail, rok])
  | .obj n f, _, rd => goodSI_zero (by
      simp only [runOp, readObj]
      cases readBytes n rd with
      | mk ob rest =>
        obtain ⟨rd', a⟩ := rest
        cases ob with
        | none => simp [rfail]
        | some b => simp only; cases applyFrom f b <;> simp [rfail, rok])
  | .ows lp f, _, rd => goodSI_zero (by
      have hs := (readFixedSize_len lp rd).2.1
      simp only [runOp]
      cases hr : readFixedSize lp rd with
      | mk on rest =>
        obtain ⟨rd', c⟩ := rest
        rw [hr] at hs
        simp only at hs
        subst hs
        cases on with
        | none => simp [rfail]
        | some n =>
          simp only [readObj]
          cases readBytes (n : Int) rd' with
          | mk ob rest2 =>
            obtain ⟨rd'', a⟩ := rest2
            cases ob with
            | none => simp [rfail]
            | some b => simp only; cases applyFrom f b <;> simp [rfail, rok])
  | .peek lp, _, rd => goodSI_zero (by
      have hs := (readFixedSize_len lp rd).2.1
      simp only [runOp]
      cases hr : readFixedSize lp rd with
      | mk on rest =>
        obtain ⟨rd', c⟩ := rest
        rw [hr] at hs
        simp only at hs
        subst hs
        cases on <;> simp [rfail, rok])
  | .coll lp item, hp, rd => by
    have hp' : 1 ≤ item.minSize ∧ item.pos = true := by simpa [ROp.pos] using hp
    have hs := readFixedSize_len lp rd
    simp only [runOp, ROp.K]
    cases hr : readFixedSize lp rd with
    | mk on rest =>
      obtain ⟨rd', c⟩ := rest
      rw [hr] at hs
      simp only at hs
      obtain ⟨hl, hc, _⟩ := hs
      subst hc
      cases on with
      | none => exact goodSI_zero (by simp [rfail])
      | some n =>
        have hloop := loopItems_I (runProg item) item.K (fun rd'' => prog_I item hp'.2 rd'')
          (fun rd'' => prog_good item rd'')
          (fun rd'' hok => Nat.le_trans hp'.1 (prog_min item rd'' hok)) n rd'
        have hll := (loopItems_good (runProg item) (fun rd'' => prog_good item rd'') n rd').len_le
        constructor
        · intro hok
          have := hloop.ok hok
          have hmono : (item.K + 1) * (rd'.rest.length - (loopItems (runProg item) n rd').rd.rest.length)
              ≤ (item.K + 1) * (rd.rest.length - (loopItems (runProg item) n rd').rd.rest.length) :=
            Nat.mul_le_mul_left _ (by omega)
          simp only [Cost.add_iters] at *; omega
        · have := hloop.all
          have hmono : (item.K + 1) * (rd'.rest.length + 1) ≤ (item.K + 1) * (rd.rest.length + 1) :=
            Nat.mul_le_mul_left _ (by omega)
          simp only [Cost.add_iters] at *; omega
  | .sub item, hp, rd => by
    simp only [runOp, ROp.K]
    exact prog_I item (by simpa [ROp.pos] using hp) rd
theorem prog_I : (p : RProg) → p.pos = true → ∀ rd, GoodSI p.K (runProg p rd) rd
  | .nil, _, rd => goodSI_zero (by simp [runProg])
  | .cons op rest, hp, rd => by
    have hp' : op.pos = true ∧ rest.pos = true := by simpa [RProg.pos] using hp
    have h1 := (op_I op hp'.1 rd).mono (Nat.le_max_left op.K rest.K)
    have hl1 := (op_good op rd).len_le
    simp only [runProg, RProg.K]
    split
    · rename_i hok
      have h2 := (prog_I rest hp'.2 (runOp op rd).rd).mono (Nat.le_max_right op.K rest.K)
      have hl2 := (prog_good rest (runOp op rd).rd).len_le
      have hi1 := h1.ok hok
      constructor
      · intro hr
        have hi2 := h2.ok hr
        simp only [Cost.add_iters]
        have e := Nat.mul_add (max op.K rest.K) (rd.rest.length - (runOp op rd).rd.rest.length)
          ((runOp op rd).rd.rest.length - (runProg rest (runOp op rd).rd).rd.rest.length)
        have e2 : rd.rest.length - (runOp op rd).rd.rest.length +
            ((runOp op rd).rd.rest.length - (runProg rest (runOp op rd).rd).rd.rest.length)
            = rd.rest.length - (runProg rest (runOp op rd).rd).rd.rest.length := by omega
        rw [e2] at e
        rw [e]; omega
      · have hi2 := h2.all
        simp only [Cost.add_iters]
        have e := Nat.mul_add (max op.K rest.K) (rd.rest.length - (runOp op rd).rd.rest.length)
          ((runOp op rd).rd.rest.length + 1)
        have e2 : rd.rest.length - (runOp op rd).rd.rest.length + ((runOp op rd).rd.rest.length + 1)
            = rd.rest.length + 1 := by omega
        rw [e2] at e
        rw [e]; omega
    · exact h1
end

end Hive.Stream
