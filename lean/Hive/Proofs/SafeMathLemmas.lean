import Hive.Proofs.GoInt
import Hive.Model.SafeMathSpec
/-! Lemmas about Go integer arithmetic and the specification `exact` that the proofs about the definitions generated from
core/safemath/safe_math.go share.  Nothing here mentions a generated definition: a change of safe_math.go cannot break this module, so the
per-function proof modules (`Hive/Proofs/SafeMath{Add,Sub,Mul,Div,Shift,U64,MulDiv,I64}.lean`) fail independently of each other. -/
namespace Hive.GoInt
open IntTy

theorem bounds (T : IntTy) (hb : 0 < T.bits) :
    T.minVal ≤ 0 ∧ 0 ≤ T.maxVal ∧ T.maxVal - T.minVal + 1 = T.modulus ∧ 0 < T.half ∧
      (T.signed = true → T.minVal = -T.half ∧ T.maxVal = T.half - 1) ∧
      (T.signed = false → T.minVal = 0) := by
  have hM := T.modulus_pos
  have hH := T.half_pos
  have hMH := T.modulus_eq_two_half hb
  cases hs : T.signed with
  | false => rw [T.minVal_unsigned hs, T.maxVal_unsigned hs]; simp; omega
  | true => rw [T.minVal_signed hs, T.maxVal_signed hs]; simp; omega

theorem wrap_hi (T : IntTy) (hb : 0 < T.bits) (z : Int) (h1 : z > T.maxVal) (h2 : z ≤ T.maxVal + T.modulus) :
    T.wrap z = z - T.modulus := by
  obtain ⟨b1, b2, b3, _⟩ := bounds T hb
  have := T.wrap_shift hb z 1 (by unfold InRange; omega)
  simpa using this

theorem wrap_lo (T : IntTy) (hb : 0 < T.bits) (z : Int) (h1 : z < T.minVal) (h2 : T.minVal - T.modulus ≤ z) :
    T.wrap z = z + T.modulus := by
  obtain ⟨b1, b2, b3, _⟩ := bounds T hb
  have := T.wrap_shift hb z (-1) (by unfold InRange; omega)
  rw [this]; omega

theorem exact_in (T : IntTy) (z : Int) (h : T.minVal ≤ z ∧ z ≤ T.maxVal) : exact T z = .ok z := by
  unfold exact; exact if_pos h

theorem exact_out (T : IntTy) (z : Int) (h : ¬ (T.minVal ≤ z ∧ z ≤ T.maxVal)) : exact T z = .overflow := by
  unfold exact; exact if_neg h

/-- The three ways a sum / difference of two in-range numbers wraps. -/
theorem wrap_cases (T : IntTy) (hb : 0 < T.bits) (z : Int) (h1 : T.minVal - T.modulus ≤ z) (h2 : z ≤ T.maxVal + T.modulus) :
    (z > T.maxVal ∧ T.wrap z = z - T.modulus) ∨ (z < T.minVal ∧ T.wrap z = z + T.modulus) ∨
      ((T.minVal ≤ z ∧ z ≤ T.maxVal) ∧ T.wrap z = z) := by
  by_cases a : z > T.maxVal
  · exact Or.inl ⟨a, wrap_hi T hb z a h2⟩
  · by_cases b : z < T.minVal
    · exact Or.inr (Or.inl ⟨b, wrap_lo T hb z b h1⟩)
    · exact Or.inr (Or.inr ⟨by omega, T.wrap_eq_self hb z (by unfold InRange; omega)⟩)

/-- Closes `(if … then … else …) = .ok z | .overflow` when all conditions are linear facts about the operands: every
path of the (regenerated) code is followed and decided by `omega`.  Written against the *shape* of the code, not its
exact comparisons, so that an equivalent rewrite of the source (`y >= 0` for `y > 0`, swapped branches, …) still
proves, while a non-equivalent one leaves an unprovable path. -/
macro "close_ite" : tactic => `(tactic|
  (simp only [decide_eq_true_eq, Bool.or_eq_true, Bool.and_eq_true, Bool.not_eq_true', decide_eq_false_iff_not, ge_iff_le, gt_iff_lt]
   repeat' split
   all_goals first | rfl | omega | (exfalso; omega) | (simp only [Res.ok.injEq]; omega)))

theorem exact_ok_iff (T : IntTy) (z r : Int) : exact T z = .ok r ↔ (r = z ∧ T.InRange z) := by
  unfold exact
  by_cases h : T.InRange z
  · simp [h]; exact eq_comm
  · simp [h]

theorem exact_overflow_iff (T : IntTy) (z : Int) : exact T z = .overflow ↔ ¬ T.InRange z := by
  unfold exact
  by_cases h : T.InRange z <;> simp [h]

theorem mul_ne_zero_abs (k M : Int) (hk : k ≠ 0) (hM : 0 < M) : M ≤ (k * M).natAbs := by
  rcases Int.lt_or_le k 1 with h | h
  · have hk' : k ≤ -1 := by omega
    have := Int.mul_le_mul_of_nonneg_right hk' (Int.le_of_lt hM)
    omega
  · have := Int.mul_le_mul_of_nonneg_right h (Int.le_of_lt hM)
    omega

/-- The truncated quotient of in-range numbers is in range, except for `MinInt / -1`. -/
theorem tdiv_inRange_or (T : IntTy) (hb : 0 < T.bits) (r x : Int) (hr : T.InRange r) (hx : T.InRange x)
    (hx0 : x ≠ 0) : T.InRange (r.tdiv x) ∨ (T.signed = true ∧ r = T.minVal ∧ x = -1) := by
  obtain ⟨b1, b2, b3, b4, b5, b6⟩ := bounds T hb
  have hq := Int.natAbs_tdiv_le_natAbs r x
  unfold InRange at hr hx ⊢
  cases hs : T.signed with
  | false =>
    left
    have h0 := b6 hs
    have hq0 : 0 ≤ r.tdiv x := Int.tdiv_nonneg (by omega) (by omega)
    omega
  | true =>
    obtain ⟨e1, e2⟩ := b5 hs
    by_cases hqH : r.tdiv x = T.half
    · right
      have hrH : r = -T.half := by omega
      have hdiv : (r.tdiv x).natAbs = r.natAbs / x.natAbs := Int.natAbs_tdiv r x
      have hxa : x.natAbs = 1 := by
        rcases Nat.lt_or_ge 1 x.natAbs with h2 | h2
        · have hlt : r.natAbs / x.natAbs < r.natAbs := Nat.div_lt_self (by omega) h2
          omega
        · omega
      have hx1 : x = 1 ∨ x = -1 := by omega
      rcases hx1 with rfl | rfl
      · simp at hqH; omega
      · exact ⟨rfl, by omega, rfl⟩
    · left; omega

theorem zero_inRange (T : IntTy) (hb : 0 < T.bits) : T.InRange 0 := by
  obtain ⟨b1, b2, _⟩ := bounds T hb
  exact ⟨b1, b2⟩

theorem wrap_half (T : IntTy) (hb : 0 < T.bits) (hs : T.signed = true) : T.wrap T.half = -T.half := by
  obtain ⟨b1, b2, b3, b4, b5, b6⟩ := bounds T hb
  obtain ⟨e1, e2⟩ := b5 hs
  have hMH := T.modulus_eq_two_half hb
  have := T.wrap_shift hb T.half 1 (by unfold InRange; omega)
  rw [this]; omega

theorem two_pow_pos (n : Nat) : (0 : Int) < 2 ^ n := Int.pow_pos (by decide)

theorem two_pow_le (a b : Nat) (h : a ≤ b) : (2 : Int) ^ a ≤ 2 ^ b := by
  obtain ⟨c, rfl⟩ := Nat.exists_eq_add_of_le h
  rw [Int.pow_add]
  have h1 := two_pow_pos a
  have h2 : (1 : Int) ≤ 2 ^ c := two_pow_pos c
  have := Int.mul_le_mul_of_nonneg_left h2 (Int.le_of_lt h1)
  omega

theorem pow64 : (2 : Int) ^ 64 = 18446744073709551616 := by decide

theorem u64_inRange (z : Int) : IntTy.u64.InRange z ↔ 0 ≤ z ∧ z < 18446744073709551616 := by
  unfold InRange minVal maxVal u64
  simp only [Bool.false_eq_true, if_false, pow64]
  omega

theorem i64_inRange (z : Int) : IntTy.i64.InRange z ↔ -9223372036854775808 ≤ z ∧ z < 9223372036854775808 := by
  unfold InRange minVal maxVal i64
  have : (2 : Int) ^ (64 - 1) = 9223372036854775808 := by decide
  simp only [if_true, this]
  omega

theorem i64_wrap (z : Int) : IntTy.i64.wrap z =
    if z % 18446744073709551616 < 9223372036854775808 then z % 18446744073709551616
    else z % 18446744073709551616 - 18446744073709551616 := by
  have h1 : (2 : Int) ^ (64 - 1) = 9223372036854775808 := by decide
  simp only [wrap, i64, modulus, pow64, h1, if_true]

theorem u64_wrap (z : Int) : IntTy.u64.wrap z = z % 18446744073709551616 := by
  simp only [wrap, u64, modulus, pow64, Bool.false_eq_true, if_false]

/-- `(z >> 63) & 1 == 1` tests the sign of an int64. -/
theorem signBit (z : Int) (hz : -9223372036854775808 ≤ z ∧ z < 9223372036854775808) :
    decide (IntTy.i64.and (IntTy.i64.shr z 63) 1 = 1) = decide (z < 0) := by
  have h63 : (2 : Int) ^ (63 : Int).toNat = 9223372036854775808 := by decide
  unfold IntTy.shr
  rw [h63]
  by_cases hneg : z < 0
  · have : z / 9223372036854775808 = -1 := by omega
    rw [this]
    have : IntTy.i64.and (-1) 1 = 1 := by decide
    simp [this, hneg]
  · have : z / 9223372036854775808 = 0 := by omega
    rw [this]
    have : IntTy.i64.and 0 1 = 0 := by decide
    simp [this, hneg]

theorem i64_wrap_range (z : Int) :
    -9223372036854775808 ≤ IntTy.i64.wrap z ∧ IntTy.i64.wrap z < 9223372036854775808 := by
  rw [i64_wrap]; split <;> omega

/-- Tail of SafeMulInt64 when the product is expected to be positive (`resultSign = 1`). -/
theorem tailPos (P : Int) (hP : 0 < P) :
    (if decide (P / 18446744073709551616 ≠ 0) = true then Res.overflow
      else if decide (IntTy.i64.and (IntTy.i64.shr (IntTy.i64.mul (IntTy.i64.wrap (P % 18446744073709551616)) 1) 63) 1 = 1) = true
        then Res.overflow
        else Res.ok (IntTy.i64.mul (IntTy.i64.wrap (P % 18446744073709551616)) 1))
      = exact IntTy.i64 P := by
  unfold exact
  simp only [i64_inRange]
  have hmul : IntTy.i64.mul (IntTy.i64.wrap (P % 18446744073709551616)) 1
      = IntTy.i64.wrap (P % 18446744073709551616) := by
    unfold IntTy.mul
    rw [Int.mul_one, i64_wrap, i64_wrap]
    split <;> omega
  rw [hmul, signBit _ (i64_wrap_range _)]
  by_cases hhi : P / 18446744073709551616 = 0
  · have hlo : P % 18446744073709551616 = P := by omega
    rw [hlo, i64_wrap]
    by_cases hsmall : P < 9223372036854775808
    · have h1 : P % 18446744073709551616 = P := by omega
      have h2 : ¬ P < 0 := by omega
      have h3 : -9223372036854775808 ≤ P := by omega
      simp [hhi, h1, hsmall, h2, h3]
    · have h1 : P % 18446744073709551616 = P := by omega
      have h2 : P - 18446744073709551616 < 0 := by omega
      have h3 : ¬ (-9223372036854775808 ≤ P ∧ P < 9223372036854775808) := by omega
      simp [hhi, h1, hsmall, h2]
  · have h3 : ¬ (-9223372036854775808 ≤ P ∧ P < 9223372036854775808) := by omega
    simp [hhi, h3]

/-- Tail of SafeMulInt64 when the product is expected to be negative (`resultSign = -1`). -/
theorem tailNeg (P : Int) (hP : 0 < P) :
    (if decide (P / 18446744073709551616 ≠ 0) = true then Res.overflow
      else if (!decide (IntTy.i64.and (IntTy.i64.shr (IntTy.i64.mul (IntTy.i64.wrap (P % 18446744073709551616)) (-1)) 63) 1 = 1)) = true
        then Res.overflow
        else Res.ok (IntTy.i64.mul (IntTy.i64.wrap (P % 18446744073709551616)) (-1)))
      = exact IntTy.i64 (-P) := by
  unfold exact
  simp only [i64_inRange]
  have hrange : -9223372036854775808 ≤ IntTy.i64.mul (IntTy.i64.wrap (P % 18446744073709551616)) (-1) ∧
      IntTy.i64.mul (IntTy.i64.wrap (P % 18446744073709551616)) (-1) < 9223372036854775808 := by
    unfold IntTy.mul; exact i64_wrap_range _
  rw [signBit _ hrange]
  by_cases hhi : P / 18446744073709551616 = 0
  · have hlo : P % 18446744073709551616 = P := by omega
    have hval : IntTy.i64.mul (IntTy.i64.wrap (P % 18446744073709551616)) (-1) =
        if P ≤ 9223372036854775808 then -P else 18446744073709551616 - P := by
      unfold IntTy.mul
      rw [hlo, i64_wrap P, i64_wrap]
      split <;> split <;> split <;> omega
    rw [hval]
    by_cases hsmall : P ≤ 9223372036854775808
    · have h2 : -P < 0 := by omega
      have h3 : (-9223372036854775808 ≤ -P ∧ -P < 9223372036854775808) := by omega
      simp [hhi, hsmall, h3, hP]
    · have h2 : ¬ 18446744073709551616 - P < 0 := by omega
      have h3 : ¬ (-9223372036854775808 ≤ -P ∧ -P < 9223372036854775808) := by omega
      simp [hhi, hsmall, h2]
  · have h3 : ¬ (-9223372036854775808 ≤ -P ∧ -P < 9223372036854775808) := by omega
    rw [if_neg h3]
    simp [hhi]

/-- `uint64(-x)` of a negative int64 is its magnitude (also for MinInt64, where `-x` wraps). -/
theorem abs_of_neg (x : Int) (hx : -9223372036854775808 ≤ x ∧ x < 0) : IntTy.u64.wrap (IntTy.i64.neg x) = -x := by
  unfold IntTy.neg
  rw [u64_wrap, i64_wrap]
  split <;> omega

theorem abs_of_pos (x : Int) (hx : 0 < x ∧ x < 9223372036854775808) : IntTy.u64.wrap x = x := by
  rw [u64_wrap]; omega

/-- The clauses of the property read off an answer that equals `exact T z`: an `ok` answer is the exact result and it is
representable (never a wrapped value); a representable result is returned (never a spurious error); the overflow error
exactly when the result is not representable; never the other error, never a panic. -/
theorem exact_clauses (T : IntTy) (z : Int) (res : Res Int) (h : res = exact T z) :
    (∀ r, res = .ok r → r = z ∧ T.InRange r) ∧ (T.InRange z → res = .ok z) ∧
      (res = .overflow ↔ ¬ T.InRange z) ∧ res ≠ .divzero ∧ res ≠ .panic := by
  subst h
  refine ⟨?_, ?_, exact_overflow_iff T z, ?_, ?_⟩
  · intro r hr; obtain ⟨a, b⟩ := (exact_ok_iff T z r).mp hr; exact ⟨a, a ▸ b⟩
  · intro hz; exact (exact_ok_iff T z z).mpr ⟨rfl, hz⟩
  · unfold exact; by_cases hz : T.InRange z <;> simp [hz]
  · unfold exact; by_cases hz : T.InRange z <;> simp [hz]

end Hive.GoInt
