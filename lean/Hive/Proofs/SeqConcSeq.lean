import Hive.Model.SeqConc
import Hive.Proofs.Seq
/-! Facts about the *sequential* machine `Hive.Seq.step` that the concurrent theorems lift through
the refinement: the frontier advances by exactly one per successful `Next` and not at all per `Release` or exhausted `Next`
(contiguity), and a crash at any store-operation boundary moves it by at most one interval. -/
namespace Hive.Seq.Conc
open Hive.Seq

theorem front_eq (s : St) : front s = frontier s := rfl

theorem frontier_bounds {t : St} (h : Inv t) :
    (∀ r ∈ t.returned, r < frontier t) ∧ frontier t ≤ t.returned.length + t.budget := by
  unfold frontier
  cases hobj : t.obj with
  | none => exact ⟨h.below_mark, h.nolease (by intro o ho; simp [hobj] at ho)⟩
  | some o =>
    cases hl : hasLease o with
    | true =>
      obtain ⟨h1, _, _, h4⟩ := h.lease o hobj hl
      simp only [hl, if_true]; exact ⟨h1, h4⟩
    | false =>
      have := h.nolease (by intro o' ho'; rw [hobj] at ho'; cases ho'; exact hl)
      simp only [hl, Bool.false_eq_true, if_false]; exact ⟨h.below_mark, this⟩

/-- A `Next` that needs a store access at the end of the number space (`ErrSequenceExhausted`). -/
def exhausted (s : St) (o : Obj) : Bool := !hasLease o && lease (mark s) o.interval == 0

theorem next_obj {s : St} {o : Obj} (hobj : s.obj = some o) : ∃ o', (step s .next).1.obj = some o' := by
  cases hl : hasLease o with
  | true => simp [step, hobj, hl]
  | false => by_cases hz : lease (mark s) o.interval = 0 <;> simp [step, hobj, hl, hz, update]

/-- `Next` either answers the frontier and moves it by exactly one, or (exhausted) answers an error,
hands out nothing and leaves the frontier where it is. -/
theorem next_cases {s : St} {o : Obj} (h : Inv s) (hobj : s.obj = some o) :
    ((step s .next).2 = .num (frontier s) ∧ frontier (step s .next).1 = frontier s + 1) ∨
    ((step s .next).2 = .err ∧ frontier (step s .next).1 = frontier s) := by
  have hip := h.ipos o hobj
  cases hl : hasLease o with
  | true =>
    left
    have hl' : o.next < o.reserved := by simpa [hasLease] using hl
    obtain ⟨_, h2, _, _⟩ := h.lease o hobj hl
    have e : (step s .next).1 = serve s o := by simp [step, hobj, hl, serve]
    have hf : frontier s = o.next := by simp [frontier, hobj, hl]
    refine ⟨by simp [step, hobj, hl, hf], ?_⟩
    rw [e, hf]
    show (if hasLease { o with next := o.next + 1 } = true then o.next + 1 else mark s) = o.next + 1
    split
    · rfl
    · rename_i hc
      have : ¬ (o.next + 1 < o.reserved) := by simpa [hasLease] using hc
      omega
  | false =>
    have hf : frontier s = mark s := by simp [frontier, hobj, hl]
    by_cases hz : lease (mark s) o.interval = 0
    · right
      have hres := h.res_le o hobj
      have e : (step s .next).1 = { s with obj := some { o with next := mark s } } := by simp [step, hobj, hl, hz]
      refine ⟨by simp [step, hobj, hl, hz], ?_⟩
      rw [e, hf]
      show (if hasLease { o with next := mark s } = true then mark s else mark s) = mark s
      split <;> rfl
    · left
      have e : (step s .next).1 = refill s o := by simp [step, hobj, hl, hz, refill, update]
      refine ⟨by simp [step, hobj, hl, hz, hf, update], ?_⟩
      rw [e, hf]
      show (if hasLease ⟨o.interval, mark s + 1, mark s + lease (mark s) o.interval⟩ = true
        then mark s + 1 else mark s + lease (mark s) o.interval) = mark s + 1
      split
      · rfl
      · rename_i hc
        have : ¬ (mark s + 1 < mark s + lease (mark s) o.interval) := by simpa [hasLease] using hc
        omega

theorem release_out {s : St} {o : Obj} (hobj : s.obj = some o) :
    (step s .release).2 = .ok ∧ (∃ o', (step s .release).1.obj = some o') ∧
      frontier (step s .release).1 = frontier s ∧ mark (step s .release).1 = frontier s := by
  cases hl : hasLease o with
  | true =>
    have hl' : o.next < o.reserved := by simpa [hasLease] using hl
    simp [step, hobj, frontier, mark, hasLease, hl']
  | false => simp [step, hobj, hl, frontier]

/-- Without crashes and store errors nothing is skipped or repeated: the numbers answered by any
sequence of `Next` and `Release` calls are the consecutive numbers from the frontier. -/
theorem contiguous (ops : List Op) (hops : ∀ op ∈ ops, op = .next ∨ op = .release) {s : St} (h : Inv s)
    {o : Obj} (hobj : s.obj = some o) :
    outNums (run s ops).2 = List.range' (frontier s) (outNums (run s ops).2).length := by
  induction ops generalizing s o with
  | nil => simp [run, outNums]
  | cons op ops ih =>
    have hops' : ∀ op ∈ ops, op = .next ∨ op = .release := fun x hx => hops x (List.mem_cons_of_mem _ hx)
    rcases hops op List.mem_cons_self with rfl | rfl
    · obtain ⟨o', ho'⟩ := next_obj hobj
      have hi' : Inv (step s .next).1 := inv_step' h trivial
      have := ih hops' hi' ho'
      rcases next_cases h hobj with ⟨hout, hfr⟩ | ⟨hout, hfr⟩
      · rw [hfr] at this
        simp only [run, hout, outNums, List.length_cons, List.range'_succ]
        rw [← this]
      · rw [hfr] at this
        simp only [run, hout, outNums]
        exact this
    · obtain ⟨hout, ⟨o', ho'⟩, hfr, _⟩ := release_out hobj
      have hi' : Inv (step s .release).1 := inv_step' h trivial
      have := ih hops' hi' ho'
      rw [hfr] at this
      simp only [run, hout, outNums]
      exact this

/-- A crash at any store-operation boundary of the sequential machine leaves the mark (where a fresh
object starts) at or above the frontier and at most one interval of the abandoned object above it. -/
theorem crash_frontier {s : St} {o : Obj} (h : Inv s) (hobj : s.obj = some o) (pt : CrashAt) :
    frontier s ≤ mark (step s (.crash pt)).1 ∧ mark (step s (.crash pt)).1 ≤ frontier s + o.interval := by
  cases hl : hasLease o with
  | true =>
    have hl' : o.next < o.reserved := by simpa [hasLease] using hl
    obtain ⟨_, h2, h3, _⟩ := h.lease o hobj hl
    have h2' : o.reserved = s.store.getD 0 := h2
    cases pt <;> simp [step, hobj, hl, frontier, mark, abandon_store] <;> omega
  | false =>
    have hle := lease_le (s.store.getD 0) o.interval
    by_cases hz : lease (s.store.getD 0) o.interval = 0
    · cases pt <;> simp [step, hobj, hl, frontier, mark, abandon_store, hz]
    · cases pt <;> simp [step, hobj, hl, frontier, mark, abandon_store, hz]
      exact hle

end Hive.Seq.Conc
