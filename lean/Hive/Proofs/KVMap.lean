import Hive.Proofs.KVOrder
import Hive.Spec.KV
import Hive.Model.KV
/-!
# Association lists versus the ordered map (core Lean only)

`absMap m` sorts the model's unordered map by key.  Every primitive of the model's map commutes
with `absMap` and the corresponding primitive of the ordered map; the argument is always the same:
both sides are key-sorted lists, and a key-sorted list is determined by its lookups.
-/
namespace Hive.KV

/-- At most one entry per key. -/
def NoDupKeys (m : AList) : Prop := m.Pairwise (fun a b => a.1 ≠ b.1)

/-- Strictly ascending by key. -/
def SortedK (m : AList) : Prop := m.Pairwise (fun a b => keyLt a b = true)

/-- The abstraction of the model's map: the same entries, sorted by key. -/
def absMap (m : AList) : AList := sortBy keyLt m

theorem SortedK.noDup {m : AList} (h : SortedK m) : NoDupKeys m :=
  List.Pairwise.imp (fun {a b} hab heq => by
    unfold keyLt at hab; rw [heq, blt_irrefl] at hab; cases hab) h

theorem NoDupKeys.filter {m : AList} (h : NoDupKeys m) (p : Entry → Bool) : NoDupKeys (m.filter p) :=
  List.Pairwise.filter p h

theorem SortedK.filter {m : AList} (h : SortedK m) (p : Entry → Bool) : SortedK (m.filter p) :=
  List.Pairwise.filter p h

/-! ## lookups -/

theorem aget_nil (k : Bytes) : aget k [] = none := rfl

theorem aget_cons (k : Bytes) (e : Entry) (m : AList) :
    aget k (e :: m) = if e.1 = k then some e.2 else aget k m := by
  unfold aget
  by_cases h : e.1 = k <;> simp [h]

theorem aget_aset (k' k v : Bytes) (m : AList) :
    aget k' (aset k v m) = if k' = k then some v else aget k' (m.filter (fun e => e.1 != k)) := by
  unfold aset
  rw [aget_cons]
  by_cases h : k = k'
  · simp [h]
  · have : ¬ k' = k := fun hh => h hh.symm
    simp [h, this]

/-- Lookup in a map filtered by a predicate on keys. -/
theorem aget_filter (q : Bytes → Bool) (k : Bytes) (m : AList) :
    aget k (m.filter (fun e => q e.1)) = if q k then aget k m else none := by
  induction m with
  | nil => simp [aget_nil]
  | cons e t ih =>
    by_cases hq : q e.1
    · rw [List.filter_cons_of_pos (by simpa using hq), aget_cons, aget_cons, ih]
      by_cases he : e.1 = k
      · subst he; simp [hq]
      · simp [he]
    · rw [List.filter_cons_of_neg (by simpa using hq), ih, aget_cons]
      by_cases he : e.1 = k
      · subst he; simp [hq]
      · simp [he]

theorem aget_adel (k' k : Bytes) (m : AList) :
    aget k' (adel k m) = if k' = k then none else aget k' m := by
  unfold adel
  rw [aget_filter (fun x => x != k)]
  by_cases h : k' = k <;> simp [h]

theorem aget_aset' (k' k v : Bytes) (m : AList) :
    aget k' (aset k v m) = if k' = k then some v else aget k' m := by
  rw [aget_aset, aget_filter (fun x => x != k)]
  by_cases h : k' = k <;> simp [h]

theorem aget_adelPfx (k p : Bytes) (m : AList) :
    aget k (adelPfx p m) = if hasPfx p k then none else aget k m := by
  unfold adelPfx
  rw [aget_filter (fun x => !hasPfx p x)]
  by_cases h : hasPfx p k <;> simp [h]

theorem aget_some_mem {k v : Bytes} {m : AList} (h : aget k m = some v) : (k, v) ∈ m := by
  induction m with
  | nil => simp [aget_nil] at h
  | cons e t ih =>
    rw [aget_cons] at h
    by_cases he : e.1 = k
    · simp only [he, if_true, Option.some.injEq] at h
      have : e = (k, v) := by cases e; simp_all
      rw [this]; exact List.mem_cons_self ..
    · simp only [he, if_false] at h
      exact List.mem_cons_of_mem _ (ih h)

theorem mem_aget {k v : Bytes} {m : AList} (hn : NoDupKeys m) (h : (k, v) ∈ m) : aget k m = some v := by
  induction m with
  | nil => simp at h
  | cons e t ih =>
    unfold NoDupKeys at hn
    rw [List.pairwise_cons] at hn
    rw [aget_cons]
    rcases List.mem_cons.mp h with h | h
    · subst h; simp
    · have : e.1 ≠ k := fun hh => hn.1 (k, v) h hh
      simp only [this, if_false]
      exact ih hn.2 h

theorem mem_iff_aget {m : AList} (hn : NoDupKeys m) (k v : Bytes) : (k, v) ∈ m ↔ aget k m = some v :=
  ⟨mem_aget hn, aget_some_mem⟩

/-- A key-sorted map is determined by its lookups. -/
theorem sortedK_ext {l1 l2 : AList} (h1 : SortedK l1) (h2 : SortedK l2)
    (h : ∀ k, aget k l1 = aget k l2) : l1 = l2 := by
  apply sorted_ext strict_keyLt l1 l2 h1 h2
  intro x
  obtain ⟨k, v⟩ := x
  rw [mem_iff_aget h1.noDup, mem_iff_aget h2.noDup, h]

/-! ## `absMap` -/

theorem noDup_comparable {m : AList} (h : NoDupKeys m) :
    m.Pairwise (fun a b => keyLt a b = true ∨ keyLt b a = true) :=
  List.Pairwise.imp (fun {a b} hab => blt_total a.1 b.1 hab) h

theorem sortedK_absMap {m : AList} (h : NoDupKeys m) : SortedK (absMap m) :=
  pairwise_sortBy strict_keyLt m (noDup_comparable h)

theorem mem_absMap (e : Entry) (m : AList) : e ∈ absMap m ↔ e ∈ m := mem_sortBy e m

theorem aget_absMap {m : AList} (h : NoDupKeys m) (k : Bytes) : aget k (absMap m) = aget k m := by
  cases hg : aget k m with
  | some v =>
    exact mem_aget (sortedK_absMap h).noDup ((mem_absMap _ _).mpr (aget_some_mem hg))
  | none =>
    cases hg' : aget k (absMap m) with
    | none => rfl
    | some v =>
      have := mem_aget h ((mem_absMap _ _).mp (aget_some_mem hg'))
      rw [hg] at this; cases this

/-- `absMap m` is the sorted list with the lookups of `m`. -/
theorem absMap_eq {m l : AList} (hm : NoDupKeys m) (hl : SortedK l) (h : ∀ k, aget k l = aget k m) :
    absMap m = l :=
  sortedK_ext (sortedK_absMap hm) hl (fun k => by rw [aget_absMap hm, h])

theorem noDup_aset (k v : Bytes) {m : AList} (h : NoDupKeys m) : NoDupKeys (aset k v m) := by
  unfold aset NoDupKeys
  rw [List.pairwise_cons]
  refine ⟨?_, h.filter _⟩
  intro e he
  have := (List.mem_filter.mp he).2
  simp only [bne_iff_ne, ne_eq] at this
  exact fun hh => this hh.symm

/-! ## the ordered map's primitives -/

theorem lookup_eq_aget (k : Bytes) (m : AList) : Spec.lookup k m = aget k m := rfl

theorem aget_insert (k' k v : Bytes) (l : AList) :
    aget k' (Spec.insert k v l) = if k' = k then some v else aget k' l := by
  induction l with
  | nil =>
    simp only [Spec.insert, aget_cons, aget_nil]
    by_cases h : k = k'
    · simp [h]
    · have : ¬ k' = k := fun hh => h hh.symm
      simp [h, this]
  | cons e t ih =>
    obtain ⟨ek, ev⟩ := e
    simp only [Spec.insert]
    by_cases hk : k' = k
    · subst hk
      split
      · simp [aget_cons]
      · split
        · simp [aget_cons]
        · rename_i _ hne
          rw [aget_cons, ih]
          have : ¬ ek = k' := fun hh => hne hh.symm
          simp [this]
    · have hk' : ¬ k = k' := fun hh => hk hh.symm
      split
      · rw [aget_cons]; simp [hk']
      · split
        · rename_i _ heq
          subst heq
          simp [aget_cons, hk']
        · rw [aget_cons, ih, aget_cons]; simp [hk]

theorem mem_insert (x : Entry) (k v : Bytes) (l : AList) :
    x ∈ Spec.insert k v l → x = (k, v) ∨ x ∈ l := by
  induction l with
  | nil => simp [Spec.insert]
  | cons e t ih =>
    obtain ⟨ek, ev⟩ := e
    simp only [Spec.insert]
    split
    · intro h; rcases List.mem_cons.mp h with h | h
      · exact Or.inl h
      · exact Or.inr h
    · split
      · intro h; rcases List.mem_cons.mp h with h | h
        · exact Or.inl h
        · exact Or.inr (List.mem_cons_of_mem _ h)
      · intro h; rcases List.mem_cons.mp h with h | h
        · exact Or.inr (h ▸ List.mem_cons_self ..)
        · rcases ih h with h | h
          · exact Or.inl h
          · exact Or.inr (List.mem_cons_of_mem _ h)

theorem sortedK_insert (k v : Bytes) {l : AList} (h : SortedK l) : SortedK (Spec.insert k v l) := by
  induction l with
  | nil => simp [Spec.insert, SortedK]
  | cons e t ih =>
    obtain ⟨ek, ev⟩ := e
    unfold SortedK at h ih ⊢
    rw [List.pairwise_cons] at h
    simp only [Spec.insert]
    split
    · rename_i hlt
      rw [List.pairwise_cons]
      refine ⟨?_, List.pairwise_cons.mpr h⟩
      intro y hy
      rcases List.mem_cons.mp hy with rfl | hy
      · exact hlt
      · exact blt_trans _ _ _ hlt (h.1 y hy)
    · split
      · rename_i _ heq
        subst heq
        rw [List.pairwise_cons]
        exact ⟨fun y hy => h.1 y hy, h.2⟩
      · rename_i hnlt hne
        have hgt : blt ek k = true := by
          rcases blt_total k ek hne with h' | h'
          · exact absurd h' hnlt
          · exact h'
        rw [List.pairwise_cons]
        refine ⟨?_, ih h.2⟩
        intro y hy
        rcases mem_insert y k v t hy with rfl | hy
        · exact hgt
        · exact h.1 y hy

theorem absMap_aset (k v : Bytes) {m : AList} (h : NoDupKeys m) :
    absMap (aset k v m) = Spec.insert k v (absMap m) :=
  absMap_eq (noDup_aset k v h) (sortedK_insert k v (sortedK_absMap h))
    (fun k' => by rw [aget_insert, aget_aset', aget_absMap h])

theorem absMap_filter (q : Bytes → Bool) {m : AList} (h : NoDupKeys m) :
    absMap (m.filter (fun e => q e.1)) = (absMap m).filter (fun e => q e.1) :=
  absMap_eq (h.filter _) ((sortedK_absMap h).filter _)
    (fun k => by rw [aget_filter q, aget_filter q, aget_absMap h])

theorem absMap_adel (k : Bytes) {m : AList} (h : NoDupKeys m) :
    absMap (adel k m) = Spec.erase k (absMap m) := absMap_filter (fun x => x != k) h

theorem absMap_adelPfx (p : Bytes) {m : AList} (h : NoDupKeys m) :
    absMap (adelPfx p m) = Spec.erasePfx p (absMap m) := absMap_filter (fun x => !hasPfx p x) h

theorem noDup_adel (k : Bytes) {m : AList} (h : NoDupKeys m) : NoDupKeys (adel k m) := h.filter _
theorem noDup_adelPfx (p : Bytes) {m : AList} (h : NoDupKeys m) : NoDupKeys (adelPfx p m) := h.filter _

end Hive.KV
