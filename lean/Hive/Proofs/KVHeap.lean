import Hive.Model.KVHeap
import Hive.Proofs.KVOrder
/-!
# Ownership invariant of the store with memory (C04, private-copy clause)

The buffers the map references are never known to the caller: every one of them was allocated by the store
itself (`ConcatBytes`) after everything the caller holds.  Hence no caller write reaches stored data.
-/
namespace Hive.KV.Heap

/-! ## memory -/

theorem read_alloc_lt (m : Mem) (b : Bytes) (r : Ref) (h : r < m.next) : (m.alloc b).1.read r = m.read r := by
  have : (r == m.next) = false := by simpa using Nat.ne_of_lt h
  simp [Mem.alloc, Mem.read, List.lookup_cons, this]

theorem read_alloc_new (m : Mem) (b : Bytes) : (m.alloc b).1.read (m.alloc b).2 = b := by
  simp [Mem.alloc, Mem.read, List.lookup_cons]

theorem read_write_ne (m : Mem) (r r' : Ref) (b : Bytes) (h : r' ≠ r) : (m.write r b).read r' = m.read r' := by
  have : (r' == r) = false := by simpa using h
  simp [Mem.write, Mem.read, List.lookup_cons, this]

@[simp] theorem alloc_next (m : Mem) (b : Bytes) : (m.alloc b).1.next = m.next + 1 := rfl
@[simp] theorem alloc_ref (m : Mem) (b : Bytes) : (m.alloc b).2 = m.next := rfl
@[simp] theorem write_next (m : Mem) (r : Ref) (b : Bytes) : (m.write r b).next = m.next := rfl

/-! ## dereferencing -/

theorem deref_congr {mem mem' : Mem} {m : RMap} (h : ∀ e ∈ m, mem'.read e.2 = mem.read e.2) :
    deref mem' m = deref mem m := by
  unfold deref
  apply List.map_congr_left
  intro e he
  rw [h e he]

theorem deref_filter (mem : Mem) (m : RMap) (p : Bytes → Bool) :
    deref mem (m.filter (fun e => p e.1)) = (deref mem m).filter (fun e => p e.1) := by
  unfold deref
  induction m with
  | nil => rfl
  | cons e t ih =>
    by_cases h : p e.1 = true
    · simp [List.filter_cons, h, ih]
    · simp [List.filter_cons, h, ih]

theorem deref_rset (mem : Mem) (m : RMap) (k : Bytes) (r : Ref) :
    deref mem (rset k r m) = aset k (mem.read r) (deref mem m) := by
  have := deref_filter mem m (fun x => x != k)
  simp only [rset, aset]
  simp only [deref, List.map_cons] at this ⊢
  rw [this]

theorem deref_rdel (mem : Mem) (m : RMap) (k : Bytes) : deref mem (rdel k m) = adel k (deref mem m) :=
  deref_filter mem m (fun x => x != k)

theorem deref_rdelPfx (mem : Mem) (m : RMap) (p : Bytes) : deref mem (rdelPfx p m) = adelPfx p (deref mem m) :=
  deref_filter mem m (fun x => !hasPfx p x)

theorem mem_rset {k : Bytes} {r : Ref} {m : RMap} {e : Bytes × Ref} (h : e ∈ rset k r m) : e = (k, r) ∨ e ∈ m := by
  simp only [rset, List.mem_cons, List.mem_filter] at h
  rcases h with h | h
  · exact Or.inl h
  · exact Or.inr h.1

theorem mem_rdel {k : Bytes} {m : RMap} {e : Bytes × Ref} (h : e ∈ rdel k m) : e ∈ m := by
  simp only [rdel, List.mem_filter] at h; exact h.1

theorem mem_rdelPfx {p : Bytes} {m : RMap} {e : Bytes × Ref} (h : e ∈ rdelPfx p m) : e ∈ m := by
  simp only [rdelPfx, List.mem_filter] at h; exact h.1

theorem rget_mem {k : Bytes} {m : RMap} {r : Ref} (h : rget k m = some r) : ∃ e ∈ m, e.2 = r := by
  unfold rget at h
  cases hf : m.find? (fun e => e.1 == k) with
  | none => simp [hf] at h
  | some e =>
    simp [hf] at h
    exact ⟨e, List.mem_of_find?_eq_some hf, h⟩

/-! ## `syncedKVMap.set` and `Commit` -/

/-- What `mapSet` guarantees when the map's and the argument's references are below `mem.next`. -/
structure SetOk (mem : Mem) (m : RMap) (res : Mem × RMap) : Prop where
  next_ge : mem.next ≤ res.1.next
  old : ∀ r, r < mem.next → res.1.read r = mem.read r
  refs : ∀ e ∈ res.2, e.2 < res.1.next ∧ (e ∈ m ∨ mem.next ≤ e.2)

theorem mapSet_ok (mem : Mem) (m : RMap) (fk : Bytes) (v : Ref) (hm : ∀ e ∈ m, e.2 < mem.next) :
    SetOk mem m (mapSet mem m fk v) ∧
      (v < mem.next → deref (mapSet mem m fk v).1 (mapSet mem m fk v).2 = aset fk (mem.read v) (deref mem m)) := by
  refine ⟨⟨by simp [mapSet], fun r hr => read_alloc_lt _ _ _ hr, ?_⟩, ?_⟩
  · intro e he
    rcases mem_rset he with rfl | h
    · exact ⟨by simp [mapSet], Or.inr (by simp)⟩
    · exact ⟨Nat.lt_succ_of_lt (hm e h), Or.inl h⟩
  · intro _
    simp only [mapSet]
    rw [deref_rset, alloc_ref, ← alloc_ref mem (mem.read v), read_alloc_new]
    congr 1
    exact deref_congr (fun e he => read_alloc_lt _ _ _ (hm e he))

theorem commitSets_ok (realm : Bytes) (sets : RMap) (mem : Mem) (m : RMap)
    (hm : ∀ e ∈ m, e.2 < mem.next) (hs : ∀ e ∈ sets, e.2 < mem.next) :
    SetOk mem m (commitSets realm sets (mem, m)) ∧
      deref (commitSets realm sets (mem, m)).1 (commitSets realm sets (mem, m)).2 =
        sets.foldr (fun e acc => aset (realm ++ e.1) (mem.read e.2) acc) (deref mem m) := by
  induction sets with
  | nil => exact ⟨⟨Nat.le_refl _, fun _ _ => rfl, fun e he => ⟨hm e he, Or.inl he⟩⟩, rfl⟩
  | cons e rest ih =>
    obtain ⟨ok, hd⟩ := ih (fun x hx => hs x (List.mem_cons_of_mem _ hx))
    have hy : ∀ x ∈ (commitSets realm rest (mem, m)).2, x.2 < (commitSets realm rest (mem, m)).1.next :=
      fun x hx => (ok.refs x hx).1
    have he : e.2 < mem.next := hs e (by simp)
    obtain ⟨ok2, hd2⟩ := mapSet_ok (commitSets realm rest (mem, m)).1 (commitSets realm rest (mem, m)).2 (realm ++ e.1) e.2 hy
    refine ⟨⟨?_, ?_, ?_⟩, ?_⟩
    · exact Nat.le_trans ok.next_ge ok2.next_ge
    · intro r hr
      simp only [commitSets]
      rw [ok2.old r (Nat.lt_of_lt_of_le hr ok.next_ge), ok.old r hr]
    · intro x hx
      simp only [commitSets] at hx ⊢
      obtain ⟨h1, h2⟩ := ok2.refs x hx
      refine ⟨h1, ?_⟩
      rcases h2 with h2 | h2
      · exact (ok.refs x h2).2
      · exact Or.inr (Nat.le_trans ok.next_ge h2)
    · simp only [commitSets, List.foldr_cons]
      rw [hd2 (Nat.lt_of_lt_of_le he ok.next_ge), hd, ok.old e.2 he]

theorem copyAll_ok (snap : RMap) (mem : Mem) (hs : ∀ e ∈ snap, e.2 < mem.next) :
    mem.next ≤ (copyAll snap mem).1.next ∧ (∀ r, r < mem.next → (copyAll snap mem).1.read r = mem.read r) ∧
      (∀ e ∈ (copyAll snap mem).2, mem.next ≤ e.2 ∧ e.2 < (copyAll snap mem).1.next) ∧
      deref (copyAll snap mem).1 (copyAll snap mem).2 = deref mem snap := by
  induction snap with
  | nil => exact ⟨Nat.le_refl _, fun _ _ => rfl, by simp [copyAll], rfl⟩
  | cons e rest ih =>
    obtain ⟨h1, h2, h3, h4⟩ := ih (fun x hx => hs x (List.mem_cons_of_mem _ hx))
    have he : e.2 < mem.next := hs e (by simp)
    refine ⟨?_, ?_, ?_, ?_⟩
    · simp only [copyAll, alloc_next]; exact Nat.le_succ_of_le h1
    · intro r hr
      simp only [copyAll]
      rw [read_alloc_lt _ _ _ (Nat.lt_of_lt_of_le hr h1), h2 r hr]
    · intro x hx
      simp only [copyAll, List.mem_cons] at hx ⊢
      rcases hx with rfl | hx
      · simp only [alloc_ref, alloc_next]; exact ⟨h1, Nat.lt_succ_self _⟩
      · obtain ⟨a, b⟩ := h3 x hx
        simp only [alloc_next]; exact ⟨a, Nat.lt_succ_of_lt b⟩
    · simp only [copyAll, deref, List.map_cons]
      congr 1
      · rw [alloc_ref, ← alloc_ref _ ((copyAll rest mem).1.read e.2), read_alloc_new, h2 e.2 he]
      · have := deref_congr (mem := (copyAll rest mem).1) (mem' := ((copyAll rest mem).1.alloc ((copyAll rest mem).1.read e.2)).1)
          (m := (copyAll rest mem).2) (fun x hx => read_alloc_lt _ _ _ (h3 x hx).2)
        simp only [deref] at this h4
        rw [this, h4]

/-! ## the invariant -/

structure HInv (s : HSt) : Prop where
  owned_lt : ∀ e ∈ s.m, e.2 < s.mem.next
  owned_priv : ∀ e ∈ s.m, e.2 ∉ s.known
  known_lt : ∀ r ∈ s.known, r < s.mem.next
  batch_known : ∀ x ∈ s.batches, ∀ e ∈ x.2.sets, e.2 ∈ s.known

theorem hinv_init : HInv hinit := ⟨by simp [hinit], by simp [hinit], by simp [hinit], by simp [hinit]⟩

theorem lookup_mem' {α : Type} {l : List (Nat × α)} {k : Nat} {x : α} (h : l.lookup k = some x) : (k, x) ∈ l := by
  induction l with
  | nil => simp at h
  | cons e t ih =>
    obtain ⟨i, y⟩ := e
    simp only [List.lookup_cons] at h
    cases hk : (k == i) with
    | true =>
      rw [hk] at h; simp only at h; injection h with h; subst h
      have : k = i := by simpa using hk
      subst this; simp
    | false => rw [hk] at h; exact List.mem_cons_of_mem _ (ih h)

/-- A reference that is new (`≥ next` before) is neither known nor owned before. -/
theorem fresh_not_known {s : HSt} (h : HInv s) {r : Ref} (hr : s.mem.next ≤ r) : r ∉ s.known :=
  fun hk => Nat.lt_irrefl _ (Nat.lt_of_lt_of_le (h.known_lt r hk) hr)

theorem hinv_step (s : HSt) (h : HInv s) (op : HOp) : HInv (hstep s op).1 := by
  cases op with
  | alloc b =>
    refine ⟨fun e he => Nat.lt_succ_of_lt (h.owned_lt e he), ?_, ?_, ?_⟩
    · intro e he hk
      simp only [hstep, List.mem_cons, alloc_ref] at hk
      rcases hk with hk | hk
      · exact Nat.lt_irrefl _ (hk ▸ h.owned_lt e he)
      · exact h.owned_priv e he hk
    · intro r hr
      simp only [hstep, List.mem_cons, alloc_ref] at hr
      simp only [hstep, alloc_next]
      rcases hr with rfl | hr
      · exact Nat.lt_succ_self _
      · exact Nat.lt_succ_of_lt (h.known_lt r hr)
    · intro x hx e he
      exact List.mem_cons_of_mem _ (h.batch_known x hx e he)
  | write r b =>
    simp only [hstep]
    split
    · exact ⟨h.owned_lt, h.owned_priv, h.known_lt, h.batch_known⟩
    · exact h
  | set realm k v =>
    simp only [hstep]
    split
    · rename_i hv
      obtain ⟨ok, _⟩ := mapSet_ok s.mem s.m (realm ++ k) v h.owned_lt
      refine ⟨fun e he => (ok.refs e he).1, ?_, fun r hr => Nat.lt_of_lt_of_le (h.known_lt r hr) ok.next_ge, h.batch_known⟩
      intro e he
      rcases (ok.refs e he).2 with h2 | h2
      · exact h.owned_priv e h2
      · exact fresh_not_known h h2
    · exact h
  | get realm k =>
    simp only [hstep]
    split
    · exact h
    · refine ⟨fun e he => Nat.lt_succ_of_lt (h.owned_lt e he), ?_, ?_, ?_⟩
      · intro e he hk
        simp only [List.mem_cons, alloc_ref] at hk
        rcases hk with hk | hk
        · exact Nat.lt_irrefl _ (hk ▸ h.owned_lt e he)
        · exact h.owned_priv e he hk
      · intro r hr
        simp only [List.mem_cons, alloc_ref] at hr
        simp only [alloc_next]
        rcases hr with rfl | hr
        · exact Nat.lt_succ_self _
        · exact Nat.lt_succ_of_lt (h.known_lt r hr)
      · intro x hx e he
        exact List.mem_cons_of_mem _ (h.batch_known x hx e he)
  | del realm k =>
    exact ⟨fun e he => h.owned_lt e (mem_rdel he), fun e he => h.owned_priv e (mem_rdel he), h.known_lt, h.batch_known⟩
  | delp realm p =>
    exact ⟨fun e he => h.owned_lt e (mem_rdelPfx he), fun e he => h.owned_priv e (mem_rdelPfx he), h.known_lt, h.batch_known⟩
  | iter realm p d =>
    have hs : ∀ e ∈ s.m.filter (fun e => hasPfx (realm ++ p) e.1), e.2 < s.mem.next :=
      fun e he => h.owned_lt e (List.mem_filter.mp he).1
    obtain ⟨h1, _, h3, _⟩ := copyAll_ok _ s.mem hs
    refine ⟨fun e he => Nat.lt_of_lt_of_le (h.owned_lt e he) h1, ?_, ?_, ?_⟩
    · intro e he hk
      simp only [hstep, List.mem_append, List.mem_map] at hk
      rcases hk with ⟨x, hx, hxe⟩ | hk
      · have a := (h3 x hx).1
        have b := h.owned_lt e he
        rw [← hxe] at b
        exact Nat.lt_irrefl _ (Nat.lt_of_lt_of_le b a)
      · exact h.owned_priv e he hk
    · intro r hr
      simp only [hstep, List.mem_append, List.mem_map] at hr
      rcases hr with ⟨x, hx, rfl⟩ | hr
      · exact (h3 x hx).2
      · exact Nat.lt_of_lt_of_le (h.known_lt r hr) h1
    · intro x hx e he
      simp only [hstep]
      exact List.mem_append_right _ (h.batch_known x hx e he)
  | batch b realm =>
    refine ⟨h.owned_lt, h.owned_priv, h.known_lt, ?_⟩
    intro x hx e he
    simp only [hstep, List.mem_cons] at hx
    rcases hx with rfl | hx
    · simp at he
    · exact h.batch_known x hx e he
  | bset b k v =>
    simp only [hstep]
    split
    · exact h
    · rename_i bt hl
      split
      · rename_i hv
        refine ⟨h.owned_lt, h.owned_priv, h.known_lt, ?_⟩
        intro x hx e he
        simp only [List.mem_cons] at hx
        rcases hx with rfl | hx
        · rcases mem_rset he with rfl | he'
          · exact hv
          · exact h.batch_known (b, bt) (lookup_mem' hl) e he'
        · exact h.batch_known x hx e he
      · exact h
  | bdel b k =>
    simp only [hstep]
    split
    · exact h
    · rename_i bt hl
      refine ⟨h.owned_lt, h.owned_priv, h.known_lt, ?_⟩
      intro x hx e he
      simp only [List.mem_cons] at hx
      rcases hx with rfl | hx
      · exact h.batch_known (b, bt) (lookup_mem' hl) e (mem_rdel he)
      · exact h.batch_known x hx e he
  | commit b =>
    simp only [hstep]
    split
    · exact h
    · rename_i bt hl
      have hs : ∀ e ∈ bt.sets, e.2 < s.mem.next :=
        fun e he => h.known_lt _ (h.batch_known (b, bt) (lookup_mem' hl) e he)
      obtain ⟨ok, _⟩ := commitSets_ok bt.realm bt.sets s.mem s.m h.owned_lt hs
      have hsub : ∀ (dels : List Bytes) (e : Bytes × Ref),
          e ∈ dels.foldr (fun k m => rdel (bt.realm ++ k) m) (commitSets bt.realm bt.sets (s.mem, s.m)).2 →
            e ∈ (commitSets bt.realm bt.sets (s.mem, s.m)).2 := by
        intro dels
        induction dels with
        | nil => intro e he; exact he
        | cons k t ih => intro e he; exact ih e (mem_rdel he)
      refine ⟨fun e he => (ok.refs e (hsub _ e he)).1, ?_,
        fun r hr => Nat.lt_of_lt_of_le (h.known_lt r hr) ok.next_ge, h.batch_known⟩
      intro e he
      rcases (ok.refs e (hsub _ e he)).2 with h2 | h2
      · exact h.owned_priv e h2
      · exact fresh_not_known h h2
  | cancel b =>
    simp only [hstep]
    split
    · exact h
    · refine ⟨h.owned_lt, h.owned_priv, h.known_lt, ?_⟩
      intro x hx e he
      simp only [List.mem_cons] at hx
      rcases hx with rfl | hx
      · simp at he
      · exact h.batch_known x hx e he

theorem deref_foldr_rdel (mem : Mem) (realm : Bytes) (dels : List Bytes) (m : RMap) :
    deref mem (dels.foldr (fun k m => rdel (realm ++ k) m) m) =
      dels.foldr (fun k m => adel (realm ++ k) m) (deref mem m) := by
  induction dels with
  | nil => rfl
  | cons k t ih => simp only [List.foldr_cons, deref_rdel, ih]

theorem foldr_deref_sets (mem : Mem) (realm : Bytes) (sets : RMap) (m0 : AList) :
    sets.foldr (fun e acc => aset (realm ++ e.1) (mem.read e.2) acc) m0 =
      (deref mem sets).foldr (fun e m => aset (realm ++ e.1) e.2 m) m0 := by
  induction sets with
  | nil => rfl
  | cons e t ih => simp only [List.foldr_cons, deref, List.map_cons] at ih ⊢; rw [ih]

theorem rget_of_key_mem {k : Bytes} {m : RMap} (h : k ∈ m.map (·.1)) : ∃ e ∈ m, rget k m = some e.2 := by
  induction m with
  | nil => simp at h
  | cons x t ih =>
    by_cases hx : x.1 = k
    · exact ⟨x, by simp, by simp [rget, List.find?_cons, hx]⟩
    · have hne : (x.1 == k) = false := by simpa using hx
      simp only [List.map_cons, List.mem_cons] at h
      rcases h with h | h
      · exact absurd h.symm hx
      · obtain ⟨e, he, hr⟩ := ih h
        exact ⟨e, List.mem_cons_of_mem _ he, by simpa [rget, List.find?_cons, hne] using hr⟩

/-- Every value slice an iteration hands to its consumer is one of the copies it made: the caller knows it afterwards. -/
theorem iter_refs_known (s : HSt) (realm p : Bytes) (d : Dir) (l : List (Bytes × Ref))
    (hl : (hstep s (.iter realm p d)).2 = .refs l) : ∀ x ∈ l, x.2 ∈ (hstep s (.iter realm p d)).1.known := by
  simp only [hstep] at hl ⊢
  injection hl with hl
  subst hl
  intro x hx
  simp only [List.mem_map] at hx
  obtain ⟨k, hk, rfl⟩ := hx
  have hk' := (mem_sortBy (lt := dirLt d) k _).mp hk
  obtain ⟨e, he, hr⟩ := rget_of_key_mem hk'
  simp only [hr, Option.getD_some, List.mem_append, List.mem_map]
  exact Or.inl ⟨e, he, rfl⟩

theorem hinv_run (s : HSt) (h : HInv s) (ops : List HOp) : HInv (hrun s ops) := by
  induction ops generalizing s with
  | nil => exact h
  | cons op rest ih => exact ih _ (hinv_step s h op)

end Hive.KV.Heap
