import Hive.Proofs.SerixCanonical
/-!
# The decoder model never panics (on any schema, any input, both validation modes)
-/
namespace Hive.Serix
open Res

theorem bind_ne_panic {α β : Type} {x : Res α} {f : α → Res β} (hx : x ≠ .panic)
    (hf : ∀ a, x = .ok a → f a ≠ .panic) : (x >>= f) ≠ .panic := by
  cases x with
  | ok a => simpa using hf a rfl
  | err => simp
  | panic => exact absurd rfl hx

theorem require_ne_panic (c : Bool) : Res.require c ≠ .panic := by
  cases c <;> simp [Res.require]

theorem readLen_ne_panic (lp : LP) (b : Bytes) : readLen lp b ≠ .panic := by
  unfold readLen; split
  · simp
  · split <;> simp

theorem readCode_ne_panic (code : Option Code) (b : Bytes) : readCode code b ≠ .panic := by
  cases code with
  | none => simp [readCode]
  | some c => simp only [readCode]; split; · simp
              split <;> simp

theorem decLoop_ne_panic {item : Bytes → Res (Val × Nat)} (h : ∀ b, item b ≠ .panic) :
    ∀ (k : Nat) (b : Bytes), decLoop item k b ≠ .panic
  | 0, _ => by simp [decLoop]
  | k + 1, b => by
    simp only [decLoop]
    apply bind_ne_panic (h b)
    intro a _
    apply bind_ne_panic (decLoop_ne_panic h k _)
    intro a' _
    simp

theorem decSeqBody_ne_panic {item : Bytes → Res (Val × Nat)} (h : ∀ b, item b ≠ .panic) (r : Rules) (o : Opts)
    (count w : Nat) (b : Bytes) : decSeqBody item r o count w b ≠ .panic := by
  unfold decSeqBody
  apply bind_ne_panic (require_ne_panic _); intro _ _
  apply bind_ne_panic (decLoop_ne_panic h _ _); intro _ _
  apply bind_ne_panic (require_ne_panic _); intro _ _
  simp

theorem mapMRes_ne_panic {α β : Type} {f : α → Res β} {l : List α} (h : ∀ a ∈ l, f a ≠ .panic) :
    mapMRes f l ≠ .panic := by
  induction l with
  | nil => simp [mapMRes]
  | cons a as ih =>
    simp only [mapMRes]
    apply bind_ne_panic (h a (List.mem_cons_self)); intro _ _
    apply bind_ne_panic (ih (fun x hx => h x (List.mem_cons_of_mem a hx))); intro _ _
    simp

theorem mustOccurIf_ne_panic {c : Bool} {r : Rules} {e : Ty} {vs : List Val}
    (h : ∀ v ∈ vs, e.codeOf v ≠ .panic) : mustOccurIf c r e vs ≠ .panic := by
  unfold mustOccurIf mustOccurOk
  split
  · split
    · simp
    · apply bind_ne_panic (mapMRes_ne_panic h); intro _ _
      exact require_ne_panic _
  · simp

/-- The object code lookup never panics (a nil element is an error since fix a0f81e4). -/
theorem codeOf_ne_panic (e : Ty) (v : Val) : e.codeOf v ≠ .panic := by
  cases e <;> cases v <;> simp [Ty.codeOf] <;> (split <;> simp)

theorem mustOccurIf_ne_panic' (c : Bool) (r : Rules) (e : Ty) (vs : List Val) : mustOccurIf c r e vs ≠ .panic :=
  mustOccurIf_ne_panic (fun v _ => codeOf_ne_panic e v)

mutual
theorem np_ty : ∀ (t : Ty) (b : Bytes) (o : Opts), dec t b o ≠ .panic
  | .bool, b, o => by
    simp only [dec]; split
    · simp
    · split
      · simp
      · split <;> simp
  | .uint w, b, o => by simp only [dec]; split <;> simp
  | .float w, b, o => by simp only [dec]; split <;> simp
  | .int w, b, o => by simp only [dec]; split <;> simp
  | .str lp mn mx, b, o => by
    simp only [dec]
    apply bind_ne_panic (readLen_ne_panic _ _); intro _ _
    apply bind_ne_panic (require_ne_panic _); intro _ _
    split
    · simp
    · apply bind_ne_panic (require_ne_panic _); intro _ _
      simp
  | .bytes lp mn mx, b, o => by
    simp only [dec]
    apply bind_ne_panic (readLen_ne_panic _ _); intro _ _
    apply bind_ne_panic (require_ne_panic _); intro _ _
    split <;> simp
  | .byteArr n code mn mx, b, o => by
    simp only [dec]
    apply bind_ne_panic (require_ne_panic _); intro _ _
    apply bind_ne_panic (readCode_ne_panic _ _); intro _ _
    split <;> simp
  | .u256, b, o => by simp only [dec]; split <;> simp
  | .custom code fixed, b, o => by
    simp only [dec]
    apply bind_ne_panic (readCode_ne_panic _ _); intro _ _
    split
    · simp
    · split
      · simp
      · split <;> simp
  | .time, b, o => by
    simp only [dec]; split
    · simp
    · split <;> simp
  | .slice lp r e, b, o => by
    simp only [dec]
    apply bind_ne_panic (readLen_ne_panic _ _); intro ⟨count, w⟩ _
    apply bind_ne_panic (decSeqBody_ne_panic (fun b => np_ty e b o) _ _ _ _ _); intro ⟨items, n⟩ hbody
    apply bind_ne_panic (mustOccurIf_ne_panic' _ _ _ _); intro _ _
    simp
  | .array len lp r e, b, o => by
    simp only [dec]
    apply bind_ne_panic (readLen_ne_panic _ _); intro ⟨count, w⟩ _
    apply bind_ne_panic (require_ne_panic _); intro _ _
    split
    · simp
    · apply bind_ne_panic (decSeqBody_ne_panic (fun b => np_ty e b o) _ _ _ _ _); intro ⟨items, n⟩ hbody
      apply bind_ne_panic (mustOccurIf_ne_panic' _ _ _ _); intro _ _
      simp
  | .map lp r k v, b, o => by
    simp only [dec]
    apply bind_ne_panic (readLen_ne_panic _ _); intro ⟨count, w⟩ _
    have hitem : ∀ b, decKV (fun b => dec k b o) (fun b => dec v b o) b ≠ .panic := by
      intro b
      simp only [decKV]
      apply bind_ne_panic (np_ty k b o); intro _ _
      apply bind_ne_panic (np_ty v _ o); intro _ _
      simp
    apply bind_ne_panic (decSeqBody_ne_panic hitem _ _ _ _ _); intro _ _
    apply bind_ne_panic (require_ne_panic _); intro _ _
    simp
  | .struct code fs, b, o => by
    simp only [dec]
    apply bind_ne_panic (readCode_ne_panic _ _); intro _ _
    apply bind_ne_panic (np_fields fs _ o); intro _ _
    simp
  | .ptr t, b, o => by
    simp only [dec]
    apply bind_ne_panic (np_ty t b o); intro _ _
    simp
  | .iface den alts, b, o => by
    simp only [dec]; split
    · simp
    · exact np_alts alts _ b o
theorem np_fields : ∀ (fs : Fields) (b : Bytes) (o : Opts), decFields fs b o ≠ .panic
  | .nil, _, _ => by simp [decFields]
  | .cons false t rest, b, o => by
    simp only [decFields]
    apply bind_ne_panic (np_ty t b o); intro _ _
    apply bind_ne_panic (np_fields rest _ o); intro _ _
    simp
  | .cons true t rest, b, o => by
    simp only [decFields]
    split
    · simp
    · split
      · apply bind_ne_panic (np_fields rest _ o); intro _ _
        simp
      · apply bind_ne_panic (np_ty t _ o); intro _ _
        split
        · simp
        · apply bind_ne_panic (np_fields rest _ o); intro _ _
          simp
  | .emb ptr fs rest, b, o => by
    simp only [decFields]
    apply bind_ne_panic (np_fields fs b o); intro _ _
    apply bind_ne_panic (np_fields rest _ o); intro _ _
    simp
theorem np_alts : ∀ (alts : Alts) (code : Nat) (b : Bytes) (o : Opts), decAlts alts code b o ≠ .panic
  | .nil, _, _, _ => by simp [decAlts]
  | .cons c t rest, code, b, o => by
    simp only [decAlts]
    split
    · apply bind_ne_panic (np_ty t b o); intro _ _
      simp
    · exact np_alts rest code b o
end


/-! ## the encoder never panics either -/

theorem writeLen_ne_panic (lp : LP) (l : Nat) : writeLen lp l ≠ .panic := by
  unfold writeLen; split
  · simp
  · split <;> simp

theorem encSeq_ne_panic (lp : LP) (r : Rules) (o : Opts) (data : List Bytes) : encSeq lp r o data ≠ .panic := by
  unfold encSeq
  split
  · simp
  · apply bind_ne_panic (require_ne_panic _); intro _ _
    apply bind_ne_panic (writeLen_ne_panic _ _); intro _ _
    apply bind_ne_panic (require_ne_panic _); intro _ _
    simp

theorem encKV_ne_panic {ek ev : Val → Res Bytes} (hk : ∀ a, ek a ≠ .panic) (hv : ∀ a, ev a ≠ .panic) (x : Val) :
    encKV ek ev x ≠ .panic := by
  cases x <;> simp only [encKV] <;> (try simp)
  apply bind_ne_panic (hk _); intro _ _
  apply bind_ne_panic (hv _); intro _ _
  simp

mutual
theorem ep_ty : ∀ (t : Ty) (pre : Bool) (v : Val) (o : Opts), enc t pre v o ≠ .panic
  | .bool, pre, v, o => by cases v <;> simp only [enc] <;> (try simp) <;> (split <;> simp)
  | .uint w, pre, v, o => by cases v <;> simp only [enc] <;> (try simp) <;> (split <;> simp)
  | .float w, pre, v, o => by cases v <;> simp only [enc] <;> (try simp) <;> (split <;> simp)
  | .int w, pre, v, o => by cases v <;> simp only [enc] <;> (try simp) <;> (split <;> simp)
  | .str lp mn mx, pre, v, o => by
    cases v <;> simp only [enc] <;> (try simp)
    split
    · simp
    · apply bind_ne_panic (require_ne_panic _); intro _ _
      apply bind_ne_panic (writeLen_ne_panic _ _); intro _ _
      simp
  | .bytes lp mn mx, pre, v, o => by
    cases v <;> simp only [enc] <;> (try simp)
    split
    · simp
    · apply bind_ne_panic (require_ne_panic _); intro _ _
      apply bind_ne_panic (writeLen_ne_panic _ _); intro _ _
      simp
  | .byteArr n code mn mx, pre, v, o => by
    cases v <;> simp only [enc] <;> (try simp)
    split <;> (try simp)
    split <;> simp
  | .u256, pre, v, o => by cases v <;> simp only [enc] <;> (try simp) <;> (split <;> simp)
  | .time, pre, v, o => by cases v <;> simp only [enc] <;> simp
  | .custom code fixed, pre, v, o => by cases v <;> simp only [enc] <;> (try simp) <;> (split <;> simp)
  | .slice lp r e, pre, v, o => by
    cases v <;> simp only [enc] <;> (try simp)
    apply bind_ne_panic (require_ne_panic _); intro _ _
    apply bind_ne_panic (mustOccurIf_ne_panic' _ _ _ _); intro _ _
    apply bind_ne_panic (mapMRes_ne_panic (fun a _ => ep_ty e true a o)); intro _ _
    exact encSeq_ne_panic _ _ _ _
  | .array n lp r e, pre, v, o => by
    cases v <;> simp only [enc] <;> (try simp)
    split <;> (try simp)
    apply bind_ne_panic (require_ne_panic _); intro _ _
    apply bind_ne_panic (mustOccurIf_ne_panic' _ _ _ _); intro _ _
    apply bind_ne_panic (mapMRes_ne_panic (fun a _ => ep_ty e true a o)); intro _ _
    exact encSeq_ne_panic _ _ _ _
  | .map lp r k v', pre, v, o => by
    cases v <;> simp only [enc] <;> (try simp)
    split
    · simp
    · apply bind_ne_panic (require_ne_panic _); intro _ _
      apply bind_ne_panic (mapMRes_ne_panic (fun a _ =>
        encKV_ne_panic (fun x => ep_ty k true x o) (fun x => ep_ty v' true x o) a)); intro _ _
      exact encSeq_ne_panic _ _ _ _
  | .struct code fs, pre, v, o => by
    cases v <;> simp only [enc] <;> (try simp)
    apply bind_ne_panic (ep_fields fs _ o); intro _ _
    simp
  | .ptr t, pre, v, o => by
    cases v <;> simp only [enc] <;> (try simp)
    split
    · exact ep_ty t false _ o
    · simp
  | .iface den alts, pre, v, o => by
    cases v <;> simp only [enc] <;> (try simp)
    exact ep_alts alts _ _ o
theorem ep_fields : ∀ (fs : Fields) (vs : List Val) (o : Opts), encFields fs vs o ≠ .panic
  | .nil, vs, o => by cases vs <;> simp [encFields]
  | .cons false t rest, vs, o => by
    cases vs with
    | nil => simp [encFields]
    | cons v vs =>
      simp only [encFields]
      apply bind_ne_panic (ep_ty t true v o); intro _ _
      apply bind_ne_panic (ep_fields rest vs o); intro _ _
      simp
  | .cons true t rest, vs, o => by
    cases vs with
    | nil => simp [encFields]
    | cons v vs =>
      simp only [encFields]
      apply bind_ne_panic
      · split
        · simp
        · apply bind_ne_panic (ep_ty t true v o); intro _ _
          simp
      · intro _ _
        apply bind_ne_panic (ep_fields rest vs o); intro _ _
        simp
  | .emb false fs rest, vs, o => by
    rcases vs with _ | ⟨v, vs⟩
    · simp [encFields]
    · cases v <;> simp only [encFields] <;> (try simp)
      apply bind_ne_panic (ep_fields fs _ o); intro _ _
      apply bind_ne_panic (ep_fields rest vs o); intro _ _
      simp
  | .emb true fs rest, vs, o => by
    rcases vs with _ | ⟨v, vs⟩
    · simp [encFields]
    · rcases v with x | x | x | x | ⟨x, y⟩ | _ | x | ⟨x, y⟩ <;> (try simp only [encFields]) <;> (try simp)
      cases x <;> simp only [encFields] <;> (try simp)
      apply bind_ne_panic (ep_fields fs _ o); intro _ _
      apply bind_ne_panic (ep_fields rest vs o); intro _ _
      simp
theorem ep_alts : ∀ (alts : Alts) (code : Nat) (v : Val) (o : Opts), encAlts alts code v o ≠ .panic
  | .nil, _, _, _ => by simp [encAlts]
  | .cons c t rest, code, v, o => by
    simp only [encAlts]
    split
    · exact ep_ty t true v o
    · exact ep_alts rest code v o
end

end Hive.Serix
