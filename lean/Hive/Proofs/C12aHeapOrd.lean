import Hive.Proofs.C12aHeapPerm
/-!
# Level 3: the heap order

`HeapOrd s`: no slot is less than its parent.  `up` and `down` are verified against "heap with a
hole" invariants on a prefix of length `n` (`HoleUp`, `HoleDown`): every parent/child relation holds
except those involving the hole, plus the grandparent property (the children of the hole are not less
than the hole's parent).  From these: `heap.Push`, `heap.Pop`, `heap.Remove` (with container/heap's
"`up` only if `down` did not move") preserve the order, and the root is a minimum (`root_min`).
-/
namespace Hive.C12a.Heap

/-- The heap order: no slot is less than its parent. -/
def HeapOrd (s : St) : Prop := ∀ i, 0 < i → i < s.arr.length → less s i ((i - 1) / 2) = false

/-- The heap order on the prefix of length `n`. -/
def HeapOn (s : St) (n : Nat) : Prop := ∀ k, 0 < k → k < n → less s k ((k - 1) / 2) = false

/-- Heap with a hole at `i` (as `down` meets it) on the prefix `n`: every relation not involving `i`
holds, and the children of `i` are not less than the parent of `i`. -/
def HoleDown (s : St) (i n : Nat) : Prop :=
  (∀ k, 0 < k → k < n → k ≠ i → (k - 1) / 2 ≠ i → less s k ((k - 1) / 2) = false) ∧
  (∀ k, 0 < k → k < n → (k - 1) / 2 = i → 0 < i → less s k ((i - 1) / 2) = false)

/-- Heap with a hole at `j` (as `up` meets it) on the prefix `n`: every relation except (`j` vs its
parent) holds, and the children of `j` are not less than the parent of `j`. -/
def HoleUp (s : St) (j n : Nat) : Prop :=
  (∀ k, 0 < k → k < n → k ≠ j → less s k ((k - 1) / 2) = false) ∧
  (∀ k, 0 < k → k < n → (k - 1) / 2 = j → 0 < j → less s k ((j - 1) / 2) = false)

theorem child_cases (s : St) (i n : Nat) (_h : 2 * i + 1 < n) :
    (child s i n = 2 * i + 1 ∧ (2 * i + 2 < n → less s (2 * i + 2) (2 * i + 1) = false)) ∨
    (child s i n = 2 * i + 2 ∧ 2 * i + 2 < n ∧ less s (2 * i + 2) (2 * i + 1) = true) := by
  unfold child
  split
  · next hc => exact Or.inr ⟨rfl, hc.1, hc.2⟩
  · next hc =>
    refine Or.inl ⟨rfl, fun h2 => ?_⟩
    cases hl : less s (2 * i + 2) (2 * i + 1)
    · rfl
    · exact absurd ⟨h2, hl⟩ hc

theorem less_asymm (s : St) (a b) (h : less s a b = true) : less s b a = false :=
  lessK_asymm _ _ _ h
theorem less_trans_false (s : St) (a b c) (h1 : less s a b = false) (h2 : less s b c = false) :
    less s a c = false := lessK_trans_false _ _ _ _ h1 h2

/-- the other child of `i` is not less than the child `down` picks -/
theorem child_min (s : St) (i n k : Nat) (h : 2 * i + 1 < n) (hk : k < n) (hk0 : 0 < k)
    (hp : (k - 1) / 2 = i) : less s k (child s i n) = false := by
  have hk' : k = 2 * i + 1 ∨ k = 2 * i + 2 := by omega
  rcases child_cases s i n h with ⟨hc, h2⟩ | ⟨hc, h2, h3⟩ <;> rw [hc]
  · rcases hk' with rfl | rfl
    · exact lessK_irrefl _ _
    · exact h2 hk
  · rcases hk' with rfl | rfl
    · exact less_asymm _ _ _ h3
    · exact lessK_irrefl _ _

theorem less_swap (s : St) (i j a b : Nat) (hi : i < s.arr.length) (hj : j < s.arr.length) :
    less (swap s i j) a b =
      less s (if a = j then i else if a = i then j else a) (if b = j then i else if b = i then j else b) := by
  simp only [less, swap_cmp, at_swap s i j _ hi hj]
  grind

theorem holeDown_step (s : St) (i n : Nat) (hn : n ≤ s.arr.length) (h : 2 * i + 1 < n)
    (hp : HoleDown s i n) : HoleDown (swap s i (child s i n)) (child s i n) n := by
  have hc := child_lt s i n h
  have hcg := child_gt s i n
  have hcp : (child s i n - 1) / 2 = i := by
    rcases child_cases s i n h with ⟨hc, _⟩ | ⟨hc, _⟩ <;> omega
  refine ⟨?_, ?_⟩
  · intro k hk0 hkn hkc hpc
    rw [less_swap s _ _ _ _ (by omega) (by omega)]
    by_cases hki : k = i
    · subst hki
      have := hp.2 (child s k n) (by omega) hc hcp hk0
      grind
    · by_cases hpi : (k - 1) / 2 = i
      · have := child_min s i n k h hkn hk0 hpi
        grind
      · have := hp.1 k hk0 hkn hki hpi
        grind
  · intro k hk0 hkn hkp _
    rw [less_swap s _ _ _ _ (by omega) (by omega)]
    have := hp.1 k hk0 hkn (by omega) (by omega)
    grind



/-- `down` from a heap with a hole at `i`: afterwards every relation except (`i` vs its parent) holds,
and if `down` moved the element then (`i` vs its parent) holds too.  (If it did not move the state is
unchanged: `down_eq_of_not_moved`.) -/
theorem down_spec (s : St) (i n : Nat) (hn : n ≤ s.arr.length) (hp : HoleDown s i n) :
    (∀ k, 0 < k → k < n → k ≠ i → less (down s i n).1 k ((k - 1) / 2) = false) ∧
    ((down s i n).2 ≠ i → 0 < i → less (down s i n).1 i ((i - 1) / 2) = false) := by
  fun_induction down s i n with
  | case1 s i h hl ih =>
    have hc := child_lt s i n h
    have hcg := child_gt s i n
    have hcp : (child s i n - 1) / 2 = i := by
      rcases child_cases s i n h with ⟨hc, _⟩ | ⟨hc, _⟩ <;> omega
    obtain ⟨p1, p2⟩ := ih (by simpa using hn) (holeDown_step s i n hn h hp)
    refine ⟨?_, ?_⟩
    · intro k hk0 hkn hki
      by_cases hkc : k = child s i n
      · subst hkc
        rw [hcp]
        by_cases hm : (down (swap s i (child s i n)) (child s i n) n).2 = child s i n
        · rw [down_eq_of_not_moved _ _ _ hm, less_swap s _ _ _ _ (by omega) (by omega)]
          have := less_asymm s _ _ hl
          grind
        · have := p2 hm (by omega)
          rwa [hcp] at this
      · exact p1 k hk0 hkn hkc
    · intro _ hi0
      exact p1 i hi0 (by omega) (by omega)
  | case2 s i h hl =>
    refine ⟨?_, fun h => absurd rfl h⟩
    intro k hk0 hkn hki
    by_cases hpi : (k - 1) / 2 = i
    · have h1 := child_min s i n k h hkn hk0 hpi
      have h2 : less s (child s i n) i = false := by simpa using hl
      rw [hpi]
      exact less_trans_false s _ _ _ h1 h2
    · exact hp.1 k hk0 hkn hki hpi
  | case3 s i h =>
    refine ⟨?_, fun h => absurd rfl h⟩
    intro k hk0 hkn hki
    exact hp.1 k hk0 hkn hki (by omega)

theorem holeUp_step (s : St) (j n : Nat) (hn : n ≤ s.arr.length) (hj : j < n) (hj0 : j ≠ 0)
    (hl : less s j ((j - 1) / 2) = true) (hp : HoleUp s j n) :
    HoleUp (swap s ((j - 1) / 2) j) ((j - 1) / 2) n := by
  refine ⟨?_, ?_⟩
  · intro k hk0 hkn hkp
    rw [less_swap s _ _ _ _ (by omega) (by omega)]
    by_cases hkj : k = j
    · subst hkj
      have := less_asymm s _ _ hl
      grind
    · by_cases hpj : (k - 1) / 2 = j
      · have := hp.2 k hk0 hkn hpj (by omega)
        grind
      · by_cases hpp : (k - 1) / 2 = (j - 1) / 2
        · have h1 := hp.1 k hk0 hkn hkj
          have h2 := less_asymm s _ _ hl
          rw [hpp] at h1
          have := less_trans_false s _ _ _ h1 h2
          grind
        · have := hp.1 k hk0 hkn hkj
          grind
  · intro k hk0 hkn hkp hp0
    rw [less_swap s _ _ _ _ (by omega) (by omega)]
    have hpp := hp.1 ((j - 1) / 2) hp0 (by omega) (by omega)
    by_cases hkj : k = j
    · grind
    · have h1 := hp.1 k hk0 hkn hkj
      rw [hkp] at h1
      have := less_trans_false s _ _ _ h1 hpp
      grind

/-- `up` from a heap with a hole at `j` restores the full order on the prefix. -/
theorem up_spec (s : St) (j n : Nat) (hn : n ≤ s.arr.length) (hj : j < n) (hp : HoleUp s j n) :
    HeapOn (up s j) n := by
  fun_induction up s j with
  | case1 s =>
    intro k hk0 hkn
    exact hp.1 k hk0 hkn (by omega)
  | case2 s j h0 hl ih =>
    exact ih (by simpa using hn) (by omega) (holeUp_step s j n hn hj h0 hl hp)
  | case3 s j h0 hl =>
    intro k hk0 hkn
    by_cases hkj : k = j
    · subst hkj; simpa using hl
    · exact hp.1 k hk0 hkn hkj

/-! ## the operations -/

theorem heapOrd_iff_heapOn (s : St) : HeapOrd s ↔ HeapOn s s.arr.length := Iff.rfl

theorem heapOrd_init (d : Cmp) : HeapOrd (init d) := by
  intro i _ hi; simp [init] at hi

/-- `less` only looks at `cmp` and the two slots. -/
theorem less_congr {s t : St} {a b : Nat} (hd : t.cmp = s.cmp) (ha : t.at a = s.at a)
    (hb : t.at b = s.at b) : less t a b = less s a b := by
  simp only [less, hd, ha, hb]

/-- `heap.Push` keeps the heap order. -/
theorem heapOrd_heapPush (s : St) (e : Elem) (hs : HeapOrd s) : HeapOrd (heapPush s e) := by
  unfold heapPush
  have hl : ∀ a b, a < s.arr.length → b < s.arr.length →
      less (pushLast s e) a b = less s a b := by
    intro a b ha hb
    apply less_congr (s := s) (t := pushLast s e) rfl <;> simp [at_pushLast, ha, hb]
  have := up_spec (pushLast s e) ((pushLast s e).arr.length - 1) (pushLast s e).arr.length
    (Nat.le_refl _) (by simp) ?_
  · rw [heapOrd_iff_heapOn]; simpa using this
  · simp only [pushLast_arr, List.length_append, List.length_singleton, Nat.add_sub_cancel]
    refine ⟨?_, ?_⟩
    · intro k hk0 hkn hkj
      rw [hl k _ (by omega) (by omega)]
      exact hs k hk0 (by omega)
    · intro k hk0 hkn hkp
      omega

/-- Cutting the last slot off a heap whose prefix is ordered. -/
theorem heapOrd_popLast (s : St) (hs : HeapOn s (s.arr.length - 1)) : HeapOrd (popLast s).1 := by
  intro k hk0 hkn
  simp only [popLast_arr, List.length_take] at hkn
  rw [less_congr (s := s) (t := (popLast s).1) rfl (at_popLast s _ (by omega))
    (at_popLast s _ (by omega))]
  exact hs k hk0 (by omega)

/-- `heap.Pop` keeps the heap order. -/
theorem heapOrd_heapPop (s : St) (_hne : s.arr.length ≠ 0) (hs : HeapOrd s) :
    HeapOrd (heapPop s).1 := by
  unfold heapPop
  apply heapOrd_popLast
  simp only [down_length, swap_length]
  have hp : HoleDown (swap s 0 (s.arr.length - 1)) 0 (s.arr.length - 1) := by
    refine ⟨?_, fun _ _ _ _ h => absurd h (Nat.lt_irrefl 0)⟩
    intro k hk0 hkn _ hkp
    rw [less_swap s _ _ _ _ (by omega) (by omega)]
    have := hs k hk0 (by omega)
    grind
  have := (down_spec _ 0 (s.arr.length - 1) (by simp) hp).1
  intro k hk0 hkn
  exact this k hk0 hkn (by omega)

/-- The state `heap.Remove(i)` hands to `Heap.Pop` is ordered on all but the last slot. -/
theorem heapOn_removePre (s : St) (i : Nat) (hi : i < s.arr.length) (hs : HeapOrd s) :
    HeapOn (removePre s i) (s.arr.length - 1) := by
  unfold removePre
  split
  case isFalse => intro k hk0 hkn; exact hs k hk0 (by omega)
  next hne =>
  have hin : i < s.arr.length - 1 := by omega
  -- relations of `swap s i n` that do not involve `i` are those of `s`
  have h1 : ∀ k, 0 < k → k < s.arr.length - 1 → k ≠ i → (k - 1) / 2 ≠ i →
      less (swap s i (s.arr.length - 1)) k ((k - 1) / 2) = false := by
    intro k hk0 hkn hki hkp
    rw [less_swap s _ _ _ _ (by omega) (by omega)]
    have := hs k hk0 (by omega)
    grind
  -- grandparent property at `i`
  have h2 : ∀ k, 0 < k → k < s.arr.length - 1 → (k - 1) / 2 = i → 0 < i →
      less (swap s i (s.arr.length - 1)) k ((i - 1) / 2) = false := by
    intro k hk0 hkn hkp hi0
    rw [less_swap s _ _ _ _ (by omega) (by omega)]
    have a1 := hs k hk0 (by omega)
    have a2 := hs i hi0 hi
    rw [hkp] at a1
    have := less_trans_false s _ _ _ a1 a2
    grind
  obtain ⟨p1, p2⟩ := down_spec _ i (s.arr.length - 1) (by simp) ⟨h1, h2⟩
  split
  · next hm =>
    have hm' : (down (swap s i (s.arr.length - 1)) i (s.arr.length - 1)).2 = i := by
      have := down_ge (swap s i (s.arr.length - 1)) i (s.arr.length - 1)
      omega
    have heq := down_eq_of_not_moved _ _ _ hm'
    rw [heq] at p1 ⊢
    exact up_spec _ i (s.arr.length - 1) (by simp) hin ⟨p1, h2⟩
  · next hm =>
    intro k hk0 hkn
    by_cases hki : k = i
    · subst hki; exact p2 (by omega) hk0
    · exact p1 k hk0 hkn hki

/-- `heap.Remove(i)` keeps the heap order (`i` in range). -/
theorem heapOrd_heapRemove (s : St) (i : Nat) (hi : i < s.arr.length) (hs : HeapOrd s) :
    HeapOrd (heapRemove s i).1 := by
  rw [heapRemove_eq]
  apply heapOrd_popLast
  rw [removePre_length]
  exact heapOn_removePre s i hi hs

/-- In an ordered heap the root is a minimum: no slot is less than slot 0. -/
theorem root_min (s : St) (hs : HeapOrd s) (i : Nat) (hi : i < s.arr.length) :
    lessK s.cmp (s.at i).key (s.at 0).key = false := by
  induction i using Nat.strongRecOn with
  | ind i ih =>
    by_cases h0 : i = 0
    · subst h0; exact lessK_irrefl _ _
    · have h1 := hs i (by omega) hi
      have h2 := ih ((i - 1) / 2) (by omega) (by omega)
      exact lessK_trans_false _ _ _ _ h1 h2

/-- `root_min` over membership. -/
theorem root_min_mem (s : St) (hs : HeapOrd s) (x : Elem) (hx : x ∈ s.arr) :
    lessK s.cmp x.key (s.at 0).key = false := by
  obtain ⟨i, hi, rfl⟩ := (mem_iff_at s x).1 hx
  exact root_min s hs i hi

end Hive.C12a.Heap
