import Hive.Model.DerivedGraph
import Hive.Proofs.DerivedSet
/-!
# Quiescence of graphs of derived sets (model `Hive.Model.DerivedGraph`)

With atomic publication (`atomic = true`) every reachable quiescent state satisfies the defining equation of every
derived node over the *current values of its direct inputs* — for any wiring, any depth, any order of writes,
subscriptions and deliveries.  For an acyclic wiring the equations have one solution over the base sets: the
composed function.  Without atomic publication the equations fail (`g_demo_witness`).

Invariants: (A) per connected edge the queue is the alternating sequence of the source's changes since `view`
(`galt`); (B) per derived node the occurrence count is the signed sum of its in-edges' views and the value bit is
`count ≥ 1`.
-/
namespace Hive.Derived

/-- `q` lists the changes of a bit from `view` to `cur`, one report per change. -/
def galt : Bool → List Bool → Bool → Prop
  | view, [], cur => view = cur
  | view, r :: rest, cur => r = (!view) ∧ galt r rest cur

theorem galt_snoc (view cur : Bool) (q : List Bool) (h : galt view q cur) : galt view (q ++ [!cur]) (!cur) := by
  induction q generalizing view with
  | nil =>
    have h' : view = cur := h
    exact ⟨by rw [h'], rfl⟩
  | cons r rest ih => exact ⟨h.1, ih r h.2⟩

def edgeOK (v : Nat → Bool) (e : GEdge) : Prop :=
  if e.on then galt e.view e.queue (v e.src) else ((e.removing = true ∨ e.view = false) ∧ e.queue = [])

def gcontrib (k : Nat) (e : GEdge) : Int := if e.dst == k && e.view then gsign e else 0

/-- Signed sum of the in-edges of `k` by what has been delivered. -/
def gwsum (k : Nat) : List GEdge → Int
  | [] => 0
  | e :: es => gcontrib k e + gwsum k es

theorem gwsum_map_genq (k j : Nat) (b : Bool) (es : List GEdge) : gwsum k (es.map (genq j b)) = gwsum k es := by
  induction es with
  | nil => rfl
  | cons e es ih =>
    simp only [List.map_cons, gwsum, ih]
    congr 1
    unfold genq gcontrib gsign
    split <;> rfl

theorem gwsum_set (k : Nat) (es : List GEdge) (i : Nat) (e e' : GEdge) (h : es[i]? = some e) :
    gwsum k (es.set i e') = gwsum k es - gcontrib k e + gcontrib k e' := by
  induction es generalizing i with
  | nil => simp at h
  | cons a es ih =>
    cases i with
    | zero =>
      simp only [List.getElem?_cons_zero, Option.some.injEq] at h
      subst h
      simp only [List.set_cons_zero, gwsum]
      omega
    | succ i =>
      simp only [List.getElem?_cons_succ] at h
      simp only [List.set_cons_succ, gwsum, ih i h]
      omega

theorem mem_set_cases {α : Type} {l : List α} {i : Nat} {a x : α} (h : x ∈ l.set i a) : x = a ∨ x ∈ l := by
  induction l generalizing i with
  | nil => simp at h
  | cons b l ih =>
    cases i with
    | zero =>
      simp only [List.set_cons_zero, List.mem_cons] at h
      rcases h with h | h
      · exact Or.inl h
      · exact Or.inr (List.mem_cons_of_mem _ h)
    | succ i =>
      simp only [List.set_cons_succ, List.mem_cons] at h
      rcases h with h | h
      · exact Or.inr (h ▸ List.mem_cons_self)
      · rcases ih h with h' | h'
        · exact Or.inl h'
        · exact Or.inr (List.mem_cons_of_mem _ h')

theorem edgeOK_same {v v' : Nat → Bool} {e : GEdge} (hs : v' e.src = v e.src) (h : edgeOK v e) : edgeOK v' e := by
  unfold edgeOK at h ⊢
  rw [hs]; exact h

/-- Publishing the new bit of node `j` on an edge keeps the edge consistent with the new valuation. -/
theorem edgeOK_genq {v : Nat → Bool} {e : GEdge} (j : Nat) (b : Bool) (hb : b = !v j) (h : edgeOK v e) :
    edgeOK (setAt v j b) (genq j b e) := by
  by_cases hon : e.on = true
  · by_cases hsrc : e.src = j
    · have hg : genq j b e = { e with queue := e.queue ++ [b] } := by simp [genq, hon, hsrc]
      rw [hg]
      unfold edgeOK at h ⊢
      simp only [hon, if_true] at h ⊢
      rw [← hsrc] at hb
      have : setAt v j b e.src = b := by simp [setAt, hsrc]
      rw [this, hb]
      exact galt_snoc _ _ _ h
    · have hg : genq j b e = e := by simp [genq, hsrc]
      rw [hg]
      exact edgeOK_same (by simp [setAt, hsrc]) h
  · have hg : genq j b e = e := by simp [genq, hon]
    rw [hg]
    unfold edgeOK at h ⊢
    simp only [hon] at h ⊢
    exact h

structure GInv (base : Nat → Bool) (s : GS) : Prop where
  a : ∀ e ∈ s.edges, edgeOK s.v e
  b : ∀ k, base k = false → s.c k = gwsum k s.edges ∧ s.v k = decide (s.c k ≥ 1)
  p : s.pending = []

theorem gwsum_init (k : Nat) (w : List (Nat × Nat × Bool × Bool)) : gwsum k (GS.init w).edges = 0 := by
  induction w with
  | nil => rfl
  | cons a w ih =>
    simp only [GS.init, List.map_cons, gwsum] at ih ⊢
    rw [ih]
    simp [gcontrib]

theorem GInv_init (base : Nat → Bool) (wiring : List (Nat × Nat × Bool × Bool)) : GInv base (GS.init wiring) := by
  refine ⟨?_, ?_, rfl⟩
  · intro e he
    simp only [GS.init, List.mem_map] at he
    obtain ⟨w, _, rfl⟩ := he
    simp [edgeOK]
  · intro k _
    rw [gwsum_init]
    exact ⟨rfl, by simp [GS.init]⟩

/-- what a report does to the count, given that it is a real change of the view -/
theorem g_deliver_count (e : GEdge) (r : Bool) (c : Int) (v : Bool) (hr : r = !e.view) (hv : v = decide (c ≥ 1)) :
    let cv := if e.plus then inheritBit c v (e.fed r).1 (e.fed r).2 else subtractBit c v (e.fed r).1 (e.fed r).2
    cv.1 = c - (if e.view then gsign e else 0) + (if e.viewAfter r then gsign e else 0) ∧ cv.2 = decide (cv.1 ≥ 1) ∧
      e.viewAfter r = r := by
  have hfed : e.fed r = (r, !r) := by
    unfold GEdge.fed
    split
    · subst hr; cases e.view <;> simp [applyBit]
    · rfl
  have hva : e.viewAfter r = r := by
    unfold GEdge.viewAfter
    split
    · subst hr; cases e.view <;> simp [applyBit]
    · rfl
  simp only [hfed, hva]
  refine ⟨?_, ?_, trivial⟩
  · cases hp : e.plus
    · simp only [Bool.false_eq_true, if_false, subtractBit_fst, gsign, hp]
      subst hr; cases e.view <;> simp
      all_goals omega
    · simp only [if_true, inheritBit_fst, gsign, hp]
      subst hr; cases e.view <;> simp
      all_goals omega
  · cases hp : e.plus
    · simp only [Bool.false_eq_true, if_false]
      exact subtractBit_snd c v r (!r) hv
    · simp only [if_true]
      exact inheritBit_snd c v r (!r) hv

/-- publishing the change of node `k` (if there is one) on consistent edges keeps them consistent -/
theorem publish_edges (s : GS) (edges1 : List GEdge) (k : Nat) (v' : Bool) (hA : ∀ e ∈ edges1, edgeOK s.v e) :
    ∀ e' ∈ (if (v' != s.v k) = true then edges1.map (genq k v') else edges1), edgeOK (setAt s.v k v') e' := by
  by_cases hch : v' = s.v k
  · have hne : (v' != s.v k) = false := by simp [hch]
    simp only [hne, Bool.false_eq_true, if_false]
    intro e' he'
    refine edgeOK_same ?_ (hA e' he')
    simp only [setAt]
    split
    · next hs => rw [hch]; simp at hs; rw [hs]
    · rfl
  · have hne : (v' != s.v k) = true := by simp [hch]
    simp only [hne, if_true]
    intro e' he'
    simp only [List.mem_map] at he'
    obtain ⟨e0, he0, rfl⟩ := he'
    refine edgeOK_genq k v' ?_ (hA e0 he0)
    cases h1 : v' <;> cases h2 : s.v k <;> simp_all

theorem publish_gwsum (edges1 : List GEdge) (k k' : Nat) (v' : Bool) (b : Bool) :
    gwsum k' (if b = true then edges1.map (genq k v') else edges1) = gwsum k' edges1 := by
  split
  · rw [gwsum_map_genq]
  · rfl

theorem GInv_step (base : Nat → Bool) (s : GS) (op : GOp) (h : GInv base s) : GInv base (gStep true base s op) := by
  cases op with
  | write j b =>
    simp only [gStep]
    split
    · next hc =>
      simp only [Bool.and_eq_true, bne_iff_ne, ne_eq] at hc
      have hb : b = !s.v j := by
        cases b <;> cases hv : s.v j <;> simp_all
      refine ⟨?_, ?_, h.p⟩
      · intro e he
        simp only [List.mem_map] at he
        obtain ⟨e0, he0, rfl⟩ := he
        exact edgeOK_genq j b hb (h.a e0 he0)
      · intro k hk
        have hkj : k ≠ j := by
          intro e; subst e; simp [hk] at hc
        simp only [gwsum_map_genq, setAt, hkj, beq_iff_eq, if_false]
        exact h.b k hk
    · exact h
  | connect i =>
    simp only [gStep]
    split
    · next e hi =>
      split
      · exact h
      · next hon =>
        simp only [Bool.or_eq_true, not_or, Bool.not_eq_true] at hon
        obtain ⟨hon', hrem⟩ := hon
        have hold := h.a e (List.mem_of_getElem? hi)
        unfold edgeOK at hold
        simp only [hon', Bool.false_eq_true, if_false, hrem, false_or] at hold
        refine ⟨?_, ?_, h.p⟩
        · intro e' he'
          rcases mem_set_cases he' with rfl | he'
          · unfold edgeOK
            simp only [if_true]
            cases hv : s.v e.src <;> simp [galt]
          · exact h.a e' he'
        · intro k hk
          rw [gwsum_set k s.edges i e _ hi]
          have : gcontrib k { e with on := true, view := false, queue := if s.v e.src = true then [true] else [] } = 0 := by
            simp [gcontrib]
          have h0 : gcontrib k e = 0 := by simp [gcontrib, hold.1]
          rw [this, h0]
          simpa using h.b k hk
    · exact h
  | deliver i =>
    simp only [gStep]
    split
    · next e hi =>
      split
      · next r rest hq =>
        split
        · exact h
        · next hc =>
          simp only [Bool.or_eq_true, Bool.not_eq_true', not_or, Bool.not_eq_false, Bool.not_eq_true] at hc
          obtain ⟨hon, hbase⟩ := hc
          have hmem := List.mem_of_getElem? hi
          have hold := h.a e hmem
          unfold edgeOK at hold
          simp only [hon, if_true, hq] at hold
          obtain ⟨hr, halt⟩ := hold
          have hB := h.b e.dst hbase
          obtain ⟨hcnt, hval, hview⟩ := g_deliver_count e r (s.c e.dst) (s.v e.dst) hr hB.2
          generalize hcv : (if e.plus then inheritBit (s.c e.dst) (s.v e.dst) (e.fed r).1 (e.fed r).2
              else subtractBit (s.c e.dst) (s.v e.dst) (e.fed r).1 (e.fed r).2) = cv at hcnt hval
          simp only [Bool.and_true, Bool.not_true, Bool.and_false, Bool.false_eq_true, if_false]
          -- the edge after the delivery, under the old valuation
          have hedge1 : ∀ e' ∈ s.edges.set i { e with view := e.viewAfter r, queue := rest }, edgeOK s.v e' := by
            intro e' he'
            rcases mem_set_cases he' with rfl | he'
            · unfold edgeOK
              simp only [hon, if_true, hview]
              exact halt
            · exact h.a e' he'
          have hws : ∀ k, gwsum k (s.edges.set i { e with view := e.viewAfter r, queue := rest }) =
              gwsum k s.edges - gcontrib k e + gcontrib k { e with view := e.viewAfter r, queue := rest } :=
            fun k => gwsum_set k s.edges i e _ hi
          refine ⟨?_, ?_, h.p⟩
          · by_cases hch : cv.2 = s.v e.dst
            · have hne : (cv.2 != s.v e.dst) = false := by simp [hch]
              simp only [hne, Bool.false_eq_true, if_false]
              intro e' he'
              refine edgeOK_same ?_ (hedge1 e' he')
              simp only [setAt]
              split
              · next hs => rw [hch]; simp at hs; rw [hs]
              · rfl
            · have hne : (cv.2 != s.v e.dst) = true := by simp [hch]
              simp only [hne, if_true]
              intro e' he'
              simp only [List.mem_map] at he'
              obtain ⟨e0, he0, rfl⟩ := he'
              refine edgeOK_genq e.dst cv.2 ?_ (hedge1 e0 he0)
              cases h1 : cv.2 <;> cases h2 : s.v e.dst <;> simp_all
          · intro k hk
            have hsum : gwsum k (if (cv.2 != s.v e.dst) = true then
                  (s.edges.set i { e with view := e.viewAfter r, queue := rest }).map (genq e.dst cv.2)
                else s.edges.set i { e with view := e.viewAfter r, queue := rest }) =
                gwsum k s.edges - gcontrib k e + gcontrib k { e with view := e.viewAfter r, queue := rest } := by
              split
              · rw [gwsum_map_genq, hws]
              · rw [hws]
            rw [hsum]
            by_cases hkd : k = e.dst
            · subst hkd
              simp only [setAt, beq_self_eq_true, if_true]
              refine ⟨?_, hval⟩
              rw [hcnt, ← hB.1]
              simp [gcontrib, gsign]
            · have hk' : (k == e.dst) = false := by simp [hkd]
              have hk'' : (e.dst == k) = false := by simp [Ne.symm hkd]
              simp only [setAt, hk', Bool.false_eq_true, if_false, gcontrib, hk'', Bool.false_and]
              simpa using h.b k hk
      · exact h
    · exact h
  | publish n =>
    simp only [gStep]
    split
    · next p hp =>
      have := h.p
      rw [this] at hp
      simp at hp
    · exact h
  | unsubMark i =>
    simp only [gStep]
    split
    · next e hi =>
      split
      · refine ⟨?_, ?_, h.p⟩
        · intro e' he'
          rcases mem_set_cases he' with rfl | he'
          · simp [edgeOK]
          · exact h.a e' he'
        · intro k hk
          rw [gwsum_set k s.edges i e _ hi]
          have : gcontrib k { e with on := false, removing := true, queue := [] } = gcontrib k e := by
            simp [gcontrib, gsign]
          rw [this]
          have hb := h.b k hk
          refine ⟨?_, hb.2⟩
          show s.c k = _
          rw [hb.1]
          omega
      · exact h
    · exact h
  | unsubRemove i =>
    simp only [gStep]
    split
    · next e hi =>
      split
      · exact h
      · next hc =>
        simp only [Bool.or_eq_true, Bool.not_eq_true', not_or, Bool.not_eq_false, Bool.not_eq_true] at hc
        obtain ⟨⟨⟨hrem, hon⟩, hplus⟩, hbase⟩ := hc
        have hold := h.a e (List.mem_of_getElem? hi)
        unfold edgeOK at hold
        simp only [hon, Bool.false_eq_true, if_false] at hold
        have hB := h.b e.dst hbase
        simp only [Bool.and_true, Bool.not_true, Bool.and_false, Bool.false_eq_true, if_false]
        have hedge1 : ∀ e' ∈ s.edges.set i { e with removing := false, view := false }, edgeOK s.v e' := by
          intro e' he'
          rcases mem_set_cases he' with rfl | he'
          · unfold edgeOK
            simp only [hon, Bool.false_eq_true, if_false]
            exact ⟨by simp, hold.2⟩
          · exact h.a e' he'
        refine ⟨publish_edges s _ e.dst _ hedge1, ?_, h.p⟩
        intro k hk
        rw [publish_gwsum, gwsum_set k s.edges i e _ hi]
        by_cases hkd : k = e.dst
        · subst hkd
          simp only [setAt, beq_self_eq_true, if_true]
          refine ⟨?_, inheritBit_snd _ _ _ _ hB.2⟩
          rw [inheritBit_fst, ← hB.1]
          cases hv : e.view <;> simp [gcontrib, gsign, hplus, hv]
          all_goals omega
        · have hk' : (k == e.dst) = false := by simp [hkd]
          have hk'' : (e.dst == k) = false := by simp [Ne.symm hkd]
          simp only [setAt, hk', Bool.false_eq_true, if_false, gcontrib, hk'', Bool.false_and]
          simpa using h.b k hk
    · exact h

theorem GInv_run (base : Nat → Bool) (s : GS) (ops : List GOp) (h : GInv base s) : GInv base (gRun true base s ops) := by
  induction ops generalizing s with
  | nil => exact h
  | cons op ops ih => exact ih _ (GInv_step base s op h)

theorem gwsum_eq_wsumV (v : Nat → Bool) (k : Nat) (es : List GEdge)
    (h : ∀ e ∈ es, (e.on = true → e.view = v e.src) ∧ (e.on = false → e.view = false)) :
    gwsum k es = wsumV v k (es.filter (·.on)) := by
  induction es with
  | nil => rfl
  | cons e es ih =>
    have ih' := ih (fun e' he' => h e' (List.mem_cons_of_mem _ he'))
    have he := h e List.mem_cons_self
    cases hon : e.on
    · simp only [gwsum, gcontrib, he.2 hon, List.filter_cons, hon, Bool.false_eq_true, if_false, Bool.and_false, ih']
      omega
    · simp only [gwsum, gcontrib, he.1 hon, List.filter_cons, hon, if_true, wsumV, ih']

/-- **Quiescence of a graph of derived sets**: whatever the wiring, after any sequence of base writes, subscriptions
and deliveries that ends with everything subscribed and delivered, every derived node satisfies its defining equation
over the current values of its direct inputs. -/
theorem g_quiescent (base : Nat → Bool) (wiring : List (Nat × Nat × Bool × Bool)) (ops : List GOp)
    (hq : (gRun true base (GS.init wiring) ops).quiescent = true) :
    GS.localEq base (gRun true base (GS.init wiring) ops).live (gRun true base (GS.init wiring) ops).v := by
  have h := GInv_run base _ ops (GInv_init base wiring)
  generalize gRun true base (GS.init wiring) ops = s at h hq
  intro k hk
  have hview : ∀ e ∈ s.edges, (e.on = true → e.view = s.v e.src) ∧ (e.on = false → e.view = false) := by
    intro e he
    simp only [GS.quiescent, Bool.and_eq_true, List.all_eq_true, List.isEmpty_iff, Bool.or_eq_true,
      Bool.not_eq_true'] at hq
    have hqe := hq.1 e he
    have hok := h.a e he
    unfold edgeOK at hok
    constructor
    · intro hon
      rcases hqe with hq1 | hq1
      · simp only [hon, if_true, hq1.2] at hok
        exact hok
      · simp [hon] at hq1
    · intro hon
      rcases hqe with hq1 | hq1
      · simp [hon] at hq1
      · simp only [hon, Bool.false_eq_true, if_false, hq1.2, false_or] at hok
        exact hok.1
  unfold GS.live
  rw [← gwsum_eq_wsumV s.v k s.edges hview, ← (h.b k hk).1]
  simpa using (h.b k hk).2

/-! ## Reading the equation: DerivedSet = union, SubtractReactive = source minus others -/

theorem wsumV_allPlus (val : Nat → Bool) (k : Nat) (es : List GEdge) (h : ∀ e ∈ es, e.dst = k → e.plus = true) :
    0 ≤ wsumV val k es ∧ (1 ≤ wsumV val k es ↔ ∃ e ∈ es, e.dst = k ∧ val e.src = true) := by
  induction es with
  | nil => simp [wsumV]
  | cons e es ih =>
    have ih' := ih (fun e' he' => h e' (List.mem_cons_of_mem _ he'))
    simp only [wsumV, List.mem_cons, exists_eq_or_imp]
    by_cases hd : e.dst = k
    · have hp := h e List.mem_cons_self hd
      cases hv : val e.src
      · simp only [hd, beq_self_eq_true, Bool.and_false, Bool.false_eq_true, if_false, Int.zero_add, false_and,
          false_or]
        simpa [and_false] using ih'
      · simp only [hd, beq_self_eq_true, Bool.and_true, if_true, gsign, hp, true_and, true_or, iff_true]
        omega
    · have hd' : (e.dst == k) = false := by simp [hd]
      simp only [hd', Bool.false_and, Bool.false_eq_true, if_false, Int.zero_add, hd, false_and, false_or]
      exact ih'

/-- number of in-edges of `k` (of the given sign) whose source holds `x` -/
def gcount (val : Nat → Bool) (k : Nat) (plus : Bool) (es : List GEdge) : Nat :=
  es.countP (fun e => e.dst == k && e.plus == plus && val e.src)

theorem wsumV_split (val : Nat → Bool) (k : Nat) (es : List GEdge) :
    wsumV val k es = (gcount val k true es : Int) - (gcount val k false es : Int) := by
  induction es with
  | nil => simp [wsumV, gcount]
  | cons e es ih =>
    simp only [wsumV, gcount, List.countP_cons] at ih ⊢
    rw [ih]
    cases hd : e.dst == k <;> cases hp : e.plus <;> cases hv : val e.src <;> simp [gsign, hp] <;> omega

theorem gcount_le (val : Nat → Bool) (k : Nat) (es : List GEdge) :
    gcount val k true es ≤ es.countP (fun e => e.dst == k && e.plus) := by
  unfold gcount
  apply List.countP_mono_left
  intro e _ he
  simp only [Bool.and_eq_true, beq_iff_eq] at he ⊢
  exact ⟨he.1.1, he.1.2⟩

/-- a node with at most one `plus` in-edge (a SubtractReactive result): source ∧ no subtracted set -/
theorem wsumV_onePlus (val : Nat → Bool) (k : Nat) (es : List GEdge)
    (h1 : es.countP (fun e => e.dst == k && e.plus) ≤ 1) :
    (1 ≤ wsumV val k es ↔
      (∃ e ∈ es, e.dst = k ∧ e.plus = true ∧ val e.src = true) ∧
      (∀ e ∈ es, e.dst = k → e.plus = false → val e.src = false)) := by
  rw [wsumV_split]
  have hle := gcount_le val k es
  have hp : 0 < gcount val k true es ↔ ∃ e ∈ es, e.dst = k ∧ e.plus = true ∧ val e.src = true := by
    unfold gcount
    rw [List.countP_pos_iff]
    constructor
    · rintro ⟨e, he, hc⟩
      simp only [Bool.and_eq_true, beq_iff_eq] at hc
      exact ⟨e, he, hc.1.1, hc.1.2, hc.2⟩
    · rintro ⟨e, he, h1, h2, h3⟩
      exact ⟨e, he, by simp [h1, h2, h3]⟩
  have hm : gcount val k false es = 0 ↔ ∀ e ∈ es, e.dst = k → e.plus = false → val e.src = false := by
    unfold gcount
    rw [List.countP_eq_zero]
    constructor
    · intro hall e he hd hpl
      have := hall e he
      simp only [hd, beq_self_eq_true, hpl, Bool.true_and, Bool.not_eq_true] at this
      exact this
    · intro hall e he
      simp only [Bool.and_eq_true, beq_iff_eq, not_and, Bool.not_eq_true, and_imp]
      intro hd hpl
      exact hall e he hd hpl
  rw [← hp, ← hm]
  omega

/-! ## Acyclic wirings: the equations determine every node from the base sets -/

theorem wsumV_congr (v v' : Nat → Bool) (k : Nat) (es : List GEdge) (h : ∀ e ∈ es, e.dst = k → v e.src = v' e.src) :
    wsumV v k es = wsumV v' k es := by
  induction es with
  | nil => rfl
  | cons e es ih =>
    simp only [wsumV]
    rw [ih (fun e' he' => h e' (List.mem_cons_of_mem _ he'))]
    by_cases hd : e.dst = k
    · rw [h e List.mem_cons_self hd]
    · have hd' : (e.dst == k) = false := by simp [hd]
      simp [hd']

/-- **Composition**: in an acyclic wiring (every edge leads to a higher-numbered node) two valuations that agree on the
base sets and satisfy the defining equations of all derived nodes agree everywhere — the quiescent value of every
node, however deep, is the composed function of the base sets. -/
theorem g_unique (base : Nat → Bool) (es : List GEdge) (hac : ∀ e ∈ es, e.src < e.dst) (v v' : Nat → Bool)
    (hb : ∀ j, base j = true → v j = v' j) (hv : GS.localEq base es v) (hv' : GS.localEq base es v') :
    ∀ k, v k = v' k := by
  intro k
  induction k using Nat.strongRecOn with
  | _ k ih =>
    cases hk : base k
    · rw [hv k hk, hv' k hk]
      rw [wsumV_congr v v' k es (fun e he hd => ih e.src (hd ▸ hac e he))]
    · exact hb k hk

/-- Without atomic publication the equations fail: `S = A \ B`, `T = DerivedSet(S)`, `A.Add(x)` and `B.Add(x)`;
the two reports of `S` are published in the opposite order.  Everything is delivered, `x ∉ S`, `x ∈ T`. -/
theorem g_demo_witness :
    let s := gRun false (fun j => decide (j < 2)) (GS.init gDemoWiring) gDemoOps
    s.quiescent = true ∧ s.v 2 = false ∧ s.v 3 = true := by
  decide

/-- Composition for any kind of derived value: if the defining function of node `k` only looks at lower-numbered
nodes, the defining equations have one solution over given base values. -/
theorem compose_unique_general {α : Type} (base : Nat → Bool) (F : Nat → (Nat → α) → α)
    (hF : ∀ k (v v' : Nat → α), (∀ j, j < k → v j = v' j) → F k v = F k v')
    (v v' : Nat → α) (hb : ∀ j, base j = true → v j = v' j)
    (hv : ∀ k, base k = false → v k = F k v) (hv' : ∀ k, base k = false → v' k = F k v') : ∀ k, v k = v' k := by
  intro k
  induction k using Nat.strongRecOn with
  | _ k ih =>
    cases hk : base k
    · rw [hv k hk, hv' k hk]
      exact hF k v v' ih
    · exact hb k hk

/-- What the driver does between two requests of a `gs` case (deliver the first undelivered report until nothing is
queued) is a run of the graph model. -/
theorem gSettle_run (base : Nat → Bool) (fuel : Nat) (s : GS) : ∃ ops, gSettle base fuel s = gRun true base s ops := by
  induction fuel generalizing s with
  | zero => exact ⟨[], rfl⟩
  | succ fuel ih =>
    simp only [gSettle]
    split
    · next i _ =>
      obtain ⟨ops, h⟩ := ih (gStep true base s (.deliver i))
      exact ⟨.deliver i :: ops, by rw [h]; rfl⟩
    · exact ⟨[], rfl⟩

end Hive.Derived
