import Hive.Proofs.ReactiveTr
/-!
# Layer 1 of the C13 invariant: locks and structure

* the update-order mutex `U` is held by exactly the threads inside a write — at most one;
* callback `c`'s execution mutex is held by exactly the threads inside a section it protects —
  at most one;
* the callback list has no duplicates and only holds ids of existing callbacks; the same for every
  writer's snapshot.
-/
namespace Hive.Reactive
open Hive.Conc

variable {S N : Type}

/-! ## thread observers -/

section obs
variable {W : Type}

/-- The thread holds the update-order mutex. -/
def inU (t : Th W N) : Bool :=
  match t.pc with
  | .wU _ | .wV _ | .wRelV _ _ _ | .wLoop _ _ _ | .wRun _ _ _ _ => true
  | _ => false

/-- The thread holds callback `c`'s execution mutex. -/
def holdsE (c : Nat) (t : Th W N) : Bool :=
  match t.pc with
  | .sReg c' | .sInit c' | .sRun c' | .wRun _ _ c' _ => c' == c
  | _ => false

/-- A callback invocation for `c` is in progress in this thread. -/
def runs (c : Nat) (t : Th W N) : Bool :=
  match t.pc with
  | .sRun c' | .wRun _ _ c' _ => c' == c
  | _ => false

/-- Callbacks the writer still has to notify. -/
def todo (t : Th W N) : List Nat :=
  match t.pc with
  | .wRelV _ _ l | .wLoop _ _ l => l
  | .wRun _ _ _ rest => rest
  | _ => []

/-- … including the one it is running. -/
def work (t : Th W N) : List Nat :=
  match t.pc with
  | .wRelV _ _ l | .wLoop _ _ l => l
  | .wRun _ _ c rest => c :: rest
  | _ => []

def tid (t : Th W N) : Nat :=
  match t.pc with
  | .wRelV id _ _ | .wLoop id _ _ | .wRun id _ _ _ => id
  | _ => 0

def tnote (t : Th W N) : Option N :=
  match t.pc with
  | .wRelV _ n _ | .wLoop _ n _ | .wRun _ n _ _ => n
  | _ => none

/-- The callback an unsubscriber is about to mark. -/
def marking (c : Nat) (t : Th W N) : Bool :=
  match t.pc with
  | .uRm c' => c' == c
  | _ => false

theorem todo_sub_work (t : Th W N) : ∀ c ∈ todo t, c ∈ work t := by
  intro c hc
  unfold todo at hc; unfold work
  split at hc <;> simp_all

theorem inU_of_todo (t : Th W N) (c : Nat) (h : c ∈ todo t) : inU t = true := by
  unfold todo at h; unfold inU
  split at h <;> simp_all

theorem holdsE_of_runs (c : Nat) (t : Th W N) (h : runs c t = true) : holdsE c t = true := by
  unfold runs at h; unfold holdsE
  split at h <;> simp_all

end obs

/-! ## counting helpers -/

section count
variable {τ : Type}

theorem forall_mid {P : τ → Prop} {pre post : List τ} {t : τ} :
    (∀ u ∈ pre ++ t :: post, P u) ↔ P t ∧ ∀ u ∈ pre ++ post, P u := by
  constructor
  · intro h
    refine ⟨h t (by simp), ?_⟩
    intro u hu
    apply h u
    simp only [List.mem_append, List.mem_cons] at hu ⊢
    rcases hu with hu | hu
    · exact Or.inl hu
    · exact Or.inr (Or.inr hu)
  · rintro ⟨ht, ho⟩ u hu
    simp only [List.mem_append, List.mem_cons] at hu
    rcases hu with hu | rfl | hu
    · exact ho u (by simp [hu])
    · exact ht
    · exact ho u (by simp [hu])

theorem countP_others_zero (p : τ → Bool) (pre post : List τ) (h : pre.countP p + post.countP p = 0) :
    ∀ u ∈ pre ++ post, p u = false := by
  intro u hu
  have h1 : pre.countP p = 0 := by omega
  have h2 : post.countP p = 0 := by omega
  rw [List.countP_eq_zero] at h1 h2
  simp only [List.mem_append] at hu
  rcases hu with hu | hu
  · simpa using h1 u hu
  · simpa using h2 u hu

/-- If at most one thread satisfies `p` and `t` does, nobody else does. -/
theorem others_false (p : τ → Bool) (pre post : List τ) (t : τ) (b : Bool)
    (h : (pre ++ t :: post).countP p = if b then 1 else 0) (ht : p t = true) :
    ∀ u ∈ pre ++ post, p u = false := by
  rw [countP_mid, ht] at h
  apply countP_others_zero
  cases b <;> simp at h <;> omega

/-- If nobody satisfies `p`, nobody does. -/
theorem all_false (p : τ → Bool) (pre post : List τ) (t : τ)
    (h : (pre ++ t :: post).countP p = 0) : p t = false ∧ ∀ u ∈ pre ++ post, p u = false := by
  rw [countP_mid] at h
  refine ⟨?_, ?_⟩
  · cases hp : p t <;> simp [hp] at h ⊢
  · apply countP_others_zero; omega

/-- Replacing the stepping thread changes the count by its own contribution only. -/
theorem countP_swap (p : τ → Bool) (pre post : List τ) (t t' : τ) :
    (pre ++ t' :: post).countP p + (if p t then 1 else 0) = (pre ++ t :: post).countP p + (if p t' then 1 else 0) := by
  rw [countP_mid, countP_mid]; omega

end count

/-! ## the invariant -/

structure Th1 (sh : Sh S N) {W : Type} (t : Th W N) : Prop where
  workLt : ∀ c ∈ work t, c < sh.ncb
  workNodup : (work t).Nodup
  holdLt : ∀ c, holdsE c t = true → c < sh.ncb
  markLt : ∀ c, marking c t = true → c < sh.ncb
  noteNone : tnote t = none → todo t = []

structure Inv1 (o : Obj S N) (cfg : Cfg (Sh S N) (Th o.WOp N)) : Prop where
  hU : cfg.2.countP inU = if cfg.1.ulock then 1 else 0
  hE : ∀ c, cfg.2.countP (holdsE c) = if (cfg.1.cbs c).elock then 1 else 0
  listedLt : ∀ c ∈ cfg.1.listed, c < cfg.1.ncb
  listedNodup : cfg.1.listed.Nodup
  thr : ∀ t ∈ cfg.2, Th1 cfg.1 t

theorem th1_idle (sh : Sh S N) {W : Type} (sc : List (Op W)) : Th1 sh ({ pc := .idle, script := sc } : Th W N) := by
  constructor <;> simp [work, holdsE, marking, todo, tnote]

theorem inv1_init (o : Obj S N) (cfg : Cfg (Sh S N) (Th o.WOp N)) (h : Init o cfg) : Inv1 o cfg := by
  obtain ⟨sh, ts⟩ := cfg
  obtain ⟨rfl, hidle⟩ := h
  have hnone : ∀ (p : Th o.WOp N → Bool), (∀ t : Th o.WOp N, t.pc = .idle → p t = false) → ts.countP p = 0 := by
    intro p hp
    rw [List.countP_eq_zero]
    intro t ht
    simpa using hp t (hidle t ht)
  constructor
  · simp only [sh0]
    rw [hnone]; simp
    intro t ht; simp [inU, ht]
  · intro c
    simp only [sh0]
    rw [hnone]; simp
    intro t ht; simp [holdsE, ht]
  · simp [sh0]
  · simp [sh0]
  · intro t ht
    have := hidle t ht
    obtain ⟨pc, sc⟩ := t
    simp only at this; subst this
    exact th1_idle _ sc

/-- `Th1` only looks at `ncb`. -/
theorem th1_mono {sh sh' : Sh S N} {W : Type} {t : Th W N} (h : Th1 sh t) (hn : sh.ncb ≤ sh'.ncb) : Th1 sh' t := by
  constructor
  · intro c hc; exact Nat.lt_of_lt_of_le (h.workLt c hc) hn
  · exact h.workNodup
  · intro c hc; exact Nat.lt_of_lt_of_le (h.holdLt c hc) hn
  · intro c hc; exact Nat.lt_of_lt_of_le (h.markLt c hc) hn
  · exact h.noteNone

end Hive.Reactive

namespace Hive.Reactive
open Hive.Conc
variable {S N : Type}

theorem setCb_cbs (sh : Sh S N) (c : Nat) (x : Cb S N) (i : Nat) :
    (setCb sh c x).cbs i = if i = c then x else sh.cbs i := rfl

theorem elock_lt (o : Obj S N) {cfg : Cfg (Sh S N) (Th o.WOp N)} (h : Inv1 o cfg) (c : Nat)
    (he : (cfg.1.cbs c).elock = true) : c < cfg.1.ncb := by
  have := h.hE c
  rw [he] at this
  have hpos : 0 < cfg.2.countP (holdsE c) := by simp at this; omega
  rw [List.countP_pos_iff] at hpos
  obtain ⟨t, ht, hh⟩ := hpos
  exact (h.thr t ht).holdLt c hh

@[simp] theorem setCb_ulock (sh : Sh S N) (c : Nat) (x : Cb S N) : (setCb sh c x).ulock = sh.ulock := rfl
@[simp] theorem setCb_vlock (sh : Sh S N) (c : Nat) (x : Cb S N) : (setCb sh c x).vlock = sh.vlock := rfl
@[simp] theorem setCb_st (sh : Sh S N) (c : Nat) (x : Cb S N) : (setCb sh c x).st = sh.st := rfl
@[simp] theorem setCb_uid (sh : Sh S N) (c : Nat) (x : Cb S N) : (setCb sh c x).uid = sh.uid := rfl
@[simp] theorem setCb_ncb (sh : Sh S N) (c : Nat) (x : Cb S N) : (setCb sh c x).ncb = sh.ncb := rfl
@[simp] theorem setCb_listed (sh : Sh S N) (c : Nat) (x : Cb S N) : (setCb sh c x).listed = sh.listed := rfl

set_option hygiene false in
/-- the `U` count after the step -/
macro "count_u" : tactic =>
  `(tactic| (generalize List.countP inU _ = X at hsU ⊢
             rcases Bool.eq_false_or_eq_true sh.ulock with hul | hul <;> simp [inU, hul] at hsU ⊢ <;>
               first | omega | simp_all))

set_option hygiene false in
/-- the `E(c')` count after a step that leaves every execution lock as it was -/
macro "count_e" : tactic =>
  `(tactic| (intro c'; have := hsE c'; generalize List.countP (holdsE c') _ = X at this ⊢
             rcases Bool.eq_false_or_eq_true (sh.cbs c').elock with hel | hel <;>
               simp [holdsE, hel] at this ⊢ <;> first | omega | simp_all))

set_option hygiene false in
/-- the `E(c')` count after a step that rewrites callback `c` -/
macro "count_ec" : tactic =>
  `(tactic| (intro c'; have := hsE c'; generalize List.countP (holdsE c') _ = X at this ⊢
             simp only [setCb_cbs]
             by_cases hcc : c' = c
             · subst hcc
               rcases Bool.eq_false_or_eq_true (sh.cbs c').elock with hel | hel <;>
                 simp [holdsE, hel] at this ⊢ <;> first | omega | simp_all
             · have hcc' : ¬ c = c' := fun h => hcc h.symm
               rcases Bool.eq_false_or_eq_true (sh.cbs c').elock with hel | hel <;>
                 simp [holdsE, hcc, hcc', hel] at this ⊢ <;> first | omega | simp_all))

theorem inv1_step (o : Obj S N) {sh sh' : Sh S N} {pre post : List (Th o.WOp N)} {t t' : Th o.WOp N}
    (htr : Tr o sh t sh' t') (h : Inv1 o (sh, pre ++ t :: post)) : Inv1 o (sh', pre ++ t' :: post) := by
  have hfree : (sh.cbs sh.ncb).elock = false := by
    cases he : (sh.cbs sh.ncb).elock with
    | false => rfl
    | true => exact absurd (elock_lt o h sh.ncb he) (Nat.lt_irrefl _)
  obtain ⟨hU, hE, hLt, hNd, hthr⟩ := h
  simp only at hU hE hLt hNd hthr
  rw [forall_mid] at hthr
  obtain ⟨ht, ho⟩ := hthr
  have hsU := countP_swap inU pre post t t'
  rw [hU] at hsU
  have hsE : ∀ c, (pre ++ t' :: post).countP (holdsE c) + (if holdsE c t then 1 else 0)
      = (if (sh.cbs c).elock then 1 else 0) + (if holdsE c t' then 1 else 0) := by
    intro c; rw [← hE c]; exact countP_swap (holdsE c) pre post t t'
  clear hU hE
  have hoth : ∀ sh2 : Sh S N, sh.ncb ≤ sh2.ncb → ∀ u ∈ pre ++ post, Th1 sh2 u :=
    fun sh2 hle u hu => th1_mono (ho u hu) hle
  cases htr with
  | earlyReturn w rest hearly =>
    refine ⟨by count_u, by count_e, hLt, hNd, ?_⟩
    simp only; rw [forall_mid]
    exact ⟨th1_idle _ rest, hoth _ (Nat.le_refl _)⟩
  | startWrite w rest hearly hu =>
    refine ⟨by count_u, by count_e, hLt, hNd, ?_⟩
    simp only; rw [forall_mid]
    exact ⟨by constructor <;> simp [work, holdsE, marking, todo, tnote], hoth _ (Nat.le_refl _)⟩
  | startSub flag rest hv =>
    refine ⟨by count_u, by count_e, hLt, hNd, ?_⟩
    simp only; rw [forall_mid]
    exact ⟨by constructor <;> simp [work, holdsE, marking, todo, tnote], hoth _ (Nat.le_refl _)⟩
  | startUnsub c rest hc =>
    refine ⟨by count_u, by count_e, ?_, ?_, ?_⟩
    · intro c' hc'; simp only [List.mem_filter] at hc'; exact hLt c' hc'.1
    · exact hNd.sublist List.filter_sublist
    · simp only; rw [forall_mid]
      refine ⟨?_, hoth _ (Nat.le_refl _)⟩
      constructor <;> simp [work, holdsE, marking, todo, tnote]
      exact hc
  | wLockV w sc hv =>
    refine ⟨by count_u, by count_e, hLt, hNd, ?_⟩
    simp only; rw [forall_mid]
    exact ⟨by constructor <;> simp [work, holdsE, marking, todo, tnote], hoth _ (Nat.le_refl _)⟩
  | wChange w sc s' n hupd =>
    refine ⟨by count_u, by count_e, hLt, hNd, ?_⟩
    simp only; rw [forall_mid]
    refine ⟨?_, hoth _ (Nat.le_refl _)⟩
    constructor <;> simp [work, holdsE, marking, todo, tnote]
    · exact hLt
    · exact hNd
  | wQuiet w sc bump hupd =>
    refine ⟨by count_u, by count_e, hLt, hNd, ?_⟩
    simp only; rw [forall_mid]
    exact ⟨by constructor <;> simp [work, holdsE, marking, todo, tnote], hoth _ (Nat.le_refl _)⟩
  | wRelV id n todo sc =>
    refine ⟨by count_u, by count_e, hLt, hNd, ?_⟩
    simp only; rw [forall_mid]
    exact ⟨⟨ht.workLt, ht.workNodup, ht.holdLt, ht.markLt, ht.noteNone⟩, hoth _ (Nat.le_refl _)⟩
  | wDone id n sc =>
    refine ⟨by count_u, by count_e, hLt, hNd, ?_⟩
    simp only; rw [forall_mid]
    exact ⟨th1_idle _ sc, hoth _ (Nat.le_refl _)⟩
  | wNone id c rest sc =>
    have := ht.noteNone rfl
    simp [todo] at this
  | wTake id n c rest sc he htk =>
    refine ⟨by count_u, by count_ec, hLt, hNd, ?_⟩
    simp only; rw [forall_mid]
    refine ⟨?_, hoth _ (Nat.le_refl _)⟩
    refine ⟨ht.workLt, ht.workNodup, ?_, ?_, ?_⟩
    · intro c' hc'
      simp [holdsE] at hc'; subst hc'
      exact ht.workLt c (by simp [work])
    · intro c' hc'; simp [marking] at hc'
    · intro hn; simp [tnote] at hn
  | wSkip id n c rest sc he htk =>
    refine ⟨by count_u, by count_e, hLt, hNd, ?_⟩
    simp only; rw [forall_mid]
    refine ⟨?_, hoth _ (Nat.le_refl _)⟩
    have hw := ht.workLt
    have hn := ht.workNodup
    simp only [work, List.mem_cons, List.nodup_cons] at hw hn
    refine ⟨?_, ?_, ?_, ?_, ?_⟩
    · intro c' hc'; exact hw c' (Or.inr hc')
    · exact hn.2
    · intro c' hc'; simp [holdsE] at hc'
    · intro c' hc'; simp [marking] at hc'
    · intro hn; simp [tnote] at hn
  | wExit id n c rest sc =>
    refine ⟨by count_u, by count_ec, hLt, hNd, ?_⟩
    simp only; rw [forall_mid]
    refine ⟨?_, hoth _ (Nat.le_refl _)⟩
    have hw := ht.workLt
    have hn := ht.workNodup
    have hnn := ht.noteNone
    simp only [work, List.mem_cons, List.nodup_cons] at hw hn
    refine ⟨?_, ?_, ?_, ?_, ?_⟩
    · intro c' hc'; exact hw c' (Or.inr hc')
    · exact hn.2
    · intro c' hc'; simp [holdsE] at hc'
    · intro c' hc'; simp [marking] at hc'
    · exact hnn
  | sRegister flag sc =>
    refine ⟨by count_u, ?_, ?_, ?_, ?_⟩
    · intro c'; have := hsE c'; generalize List.countP (holdsE c') _ = X at this ⊢
      simp only [setCb_cbs]
      by_cases hcc : c' = sh.ncb
      · subst hcc; simp [holdsE, hfree] at this ⊢; omega
      · have hcc' : ¬ sh.ncb = c' := fun h => hcc h.symm
        rcases Bool.eq_false_or_eq_true (sh.cbs c').elock with hel | hel <;>
          simp [holdsE, hcc, hcc', hel] at this ⊢ <;> omega
    · intro c' hc'
      simp only [List.mem_append, List.mem_singleton] at hc'
      rcases hc' with hc' | rfl
      · exact Nat.lt_succ_of_lt (hLt c' hc')
      · exact Nat.lt_succ_self _
    · simp only
      rw [List.nodup_append]
      refine ⟨hNd, by simp, ?_⟩
      intro a ha b hb
      simp only [List.mem_singleton] at hb; subst hb
      exact Nat.ne_of_lt (hLt a ha)
    · simp only; rw [forall_mid]
      refine ⟨?_, hoth _ (Nat.le_succ _)⟩
      constructor <;> simp [work, holdsE, marking, todo, tnote]
  | sRelV c sc =>
    refine ⟨by count_u, by count_e, hLt, hNd, ?_⟩
    simp only; rw [forall_mid]
    exact ⟨⟨ht.workLt, ht.workNodup, ht.holdLt, ht.markLt, ht.noteNone⟩, hoth _ (Nat.le_refl _)⟩
  | sEnter c n sc hini =>
    refine ⟨by count_u, by count_ec, hLt, hNd, ?_⟩
    simp only; rw [forall_mid]
    exact ⟨⟨ht.workLt, ht.workNodup, ht.holdLt, ht.markLt, ht.noteNone⟩, hoth _ (Nat.le_refl _)⟩
  | sNoInit c sc hini =>
    refine ⟨by count_u, by count_ec, hLt, hNd, ?_⟩
    simp only; rw [forall_mid]
    exact ⟨th1_idle _ sc, hoth _ (Nat.le_refl _)⟩
  | sExit c sc =>
    refine ⟨by count_u, by count_ec, hLt, hNd, ?_⟩
    simp only; rw [forall_mid]
    exact ⟨th1_idle _ sc, hoth _ (Nat.le_refl _)⟩
  | uMark c sc he =>
    refine ⟨by count_u, by count_ec, hLt, hNd, ?_⟩
    simp only; rw [forall_mid]
    exact ⟨th1_idle _ sc, hoth _ (Nat.le_refl _)⟩

end Hive.Reactive
