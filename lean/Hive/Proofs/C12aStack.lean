import Hive.Model.C12aStack
/-! The slice stack refines the LIFO list (abstraction: reverse). -/
namespace Hive.C12a.Stack

theorem take_pred_reverse (s : List Nat) : (s.take (s.length - 1)).reverse = s.reverse.tail := by
  rw [← List.dropLast_eq_take, List.tail_reverse]

theorem step_refines (s : St) (op : Op) :
    (step s op).2 = (specStep s.reverse op).2 ∧ (step s op).1.reverse = (specStep s.reverse op).1 := by
  cases op with
  | push x => simp [step, specStep]
  | pop =>
    by_cases h : s = []
    · subst h; simp [step, specStep]
    · have hl : (s.length == 0) = false := by simp [h]
      simp only [step, hl, specStep]
      rw [List.head?_reverse, List.getD_eq_getElem?_getD, List.getLast?_eq_getElem?]
      cases hh : s[s.length - 1]? with
      | none =>
        have := List.getElem?_eq_none_iff.1 hh
        have : s.length ≠ 0 := by intro h0; exact h (List.eq_nil_of_length_eq_zero h0)
        omega
      | some v => simp [List.dropLast_eq_take]
  | peek =>
    by_cases h : s = []
    · subst h; simp [step, specStep]
    · have hl : (s.length == 0) = false := by simp [h]
      simp only [step, hl, specStep]
      rw [List.head?_reverse, List.getD_eq_getElem?_getD, List.getLast?_eq_getElem?]
      cases hh : s[s.length - 1]? with
      | none =>
        have := List.getElem?_eq_none_iff.1 hh
        have : s.length ≠ 0 := by intro h0; exact h (List.eq_nil_of_length_eq_zero h0)
        omega
      | some v => simp
  | clear => simp [step, specStep]
  | size => simp [step, specStep]
  | isEmpty => cases s <;> simp [step, specStep]

theorem run_refines (s : St) (ops : List Op) :
    (run s ops).2 = (specRun s.reverse ops).2 ∧ (run s ops).1.reverse = (specRun s.reverse ops).1 := by
  induction ops generalizing s with
  | nil => exact ⟨rfl, rfl⟩
  | cons op ops ih =>
    obtain ⟨h1, h2⟩ := step_refines s op
    obtain ⟨i1, i2⟩ := ih (step s op).1
    simp only [run, specRun]
    rw [h2] at i1 i2
    exact ⟨by rw [h1, i1], i2⟩

end Hive.C12a.Stack
