import Hive.Model.SerixObj
import Hive.Proofs.SerixPrimRT
/-!
# The object-based pairs of serializer/serializer.go round-trip

`WriteObject/ReadObject`, `WritePayload/ReadPayload` (incl. the nil payload), `WriteSliceOfObjects/ReadSliceOfObjects`
over the model `Hive/Model/SerixObj.lean`: whatever the writer completes without error, the mirrored reader — with a
read guard that admits the written codes, followed by any `rest` — hands back, consuming exactly the bytes written.
-/
namespace Hive.Serix

/-- The bytes an object serialises to (`[]` for an object `Serialize` refuses). -/
def Obj.key (o : Obj) : Bytes := (o.ser).getD []

theorem Obj.ser_eq {o : Obj} {b : Bytes} (h : o.ser = some b) :
    o.data.length ≤ 255 ∧ b = leBytes o.den.width o.code ++ UInt8.ofNat o.data.length :: o.data := by
  unfold Obj.ser at h
  split at h
  · cases h
  · rename_i hl
    simp only [Option.some.injEq] at h
    exact ⟨by omega, h.symm⟩

theorem Obj.ser_length {o : Obj} {b : Bytes} (h : o.ser = some b) : b.length = o.den.width + 1 + o.data.length := by
  obtain ⟨_, rfl⟩ := Obj.ser_eq h
  simp; omega

theorem UInt8.toNat_ofNat_of_le {n : Nat} (h : n ≤ 255) : (UInt8.ofNat n).toNat = n := by
  simp [UInt8.toNat_ofNat']; omega

/-- `Deserialize` of an empty object of the right code reads back what `Serialize` wrote. -/
theorem objDeser_ser {o : Obj} {b : Bytes} (h : o.ser = some b) (_hc : o.code < 256 ^ o.den.width) (rest : Bytes) :
    objDeser o.den o.code (b ++ rest) = .ok (o, b.length) := by
  obtain ⟨hl, rfl⟩ := Obj.ser_eq h
  have hn := UInt8.toNat_ofNat_of_le hl
  unfold objDeser
  simp only [List.append_assoc, List.length_append, leBytes_length, take_append_of_length (leBytes_length _ _),
    drop_append_of_length (leBytes_length _ _), leNat_leBytes, List.cons_append, List.length_cons, hn,
    take_append_length]
  rw [if_neg (by omega)]
  simp only [bne_self_eq_false, Bool.false_eq_true, if_false]
  rw [if_neg (by omega)]
  congr 2; omega

theorem leNat_take_ser {o : Obj} {b : Bytes} (h : o.ser = some b) (hc : o.code < 256 ^ o.den.width) (rest : Bytes) :
    leNat ((b ++ rest).take o.den.width) = o.code := by
  obtain ⟨_, rfl⟩ := Obj.ser_eq h
  simp only [List.append_assoc, take_append_of_length (leBytes_length _ _), leNat_leBytes_of_lt hc]

theorem readObj_ser {o : Obj} {b : Bytes} (h : o.ser = some b) (hc : o.code < 256 ^ o.den.width) {allow : List Nat}
    (ha : selOk allow o.code = true) (rest : Bytes) : readObj o.den allow (b ++ rest) = .ok (o, b.length) := by
  unfold readObj
  have hlen := Obj.ser_length h
  rw [if_neg (by simp only [List.length_append]; omega)]
  simp only [leNat_take_ser h hc rest, ha, Bool.not_true, Bool.false_eq_true, if_false, objDeser_ser h hc rest]

/-! ## `WriteObject` / `ReadObject` -/

theorem owOp_obj_done {val : Bool} {deny : Option (List Nat)} {o : Obj} {b : Bytes}
    (h : owOp (.obj val deny o) = .done b none) : o.ser = some b := by
  unfold owOp at h
  cases val <;> cases deny <;> simp only at h
  all_goals (try (split at h <;> try (simp at h)))
  all_goals (cases hs : o.ser <;> simp_all)

theorem obj_roundtrip (val : Bool) (deny : Option (List Nat)) (o : Obj) (b : Bytes)
    (hw : owOp (.obj val deny o) = .done b none) (hc : o.code < 256 ^ o.den.width) (allow : List Nat)
    (ha : selOk allow o.code = true) (rest : Bytes) :
    orOp (b ++ rest) (.obj o.den allow) = .done (some (.one (some o))) b.length none := by
  simp only [orOp, readObj_ser (owOp_obj_done hw) hc ha rest]

/-! ## `WritePayload` / `ReadPayload` -/

theorem payload_nil_roundtrip (deny : Option (List Nat)) (allow : List Nat) (rest : Bytes) :
    owOp (.payload deny none) = .done (leBytes 4 0) none ∧
    orOp (leBytes 4 0 ++ rest) (.payload allow) = .done (some (.one none)) 4 none := by
  refine ⟨rfl, ?_⟩
  simp only [orOp, List.length_append, leBytes_length, take_append_of_length (leBytes_length _ _), leNat_leBytes]
  rw [if_neg (by omega)]
  simp

theorem payload_roundtrip (deny : Option (List Nat)) (o : Obj) (b : Bytes)
    (hw : owOp (.payload deny (some o)) = .done b none) (hd : o.den = .u32) (hc : o.code < 2 ^ 32) (allow : List Nat)
    (ha : selOk allow o.code = true) (rest : Bytes) :
    orOp (b ++ rest) (.payload allow) = .done (some (.one (some o))) b.length none := by
  have hc' : o.code < 256 ^ o.den.width := by
    rw [hd]; have : (256 : Nat) ^ Den.u32.width = 2 ^ 32 := by decide
    omega
  simp only [owOp] at hw
  split at hw
  · simp at hw
  · cases hs : o.ser with
    | none => simp [hs] at hw
    | some sb =>
      simp only [hs, WOut.done.injEq, and_true] at hw; subst hw
      have hlen := Obj.ser_length hs
      have hl := (Obj.ser_eq hs).1
      have hw4 : o.den.width = 4 := by rw [hd]; rfl
      have hlt : sb.length < 256 ^ 4 := by
        have : (256 : Nat) ^ 4 = 4294967296 := by decide
        omega
      have hty := leNat_take_ser hs hc' rest
      rw [hw4] at hty
      have hdes := objDeser_ser hs hc' rest
      rw [hd] at hdes
      simp only [orOp, List.append_assoc, List.length_append, leBytes_length, take_append_of_length (leBytes_length _ _),
        drop_append_of_length (leBytes_length _ _), leNat_leBytes_of_lt hlt, hty, ha, hdes]
      rw [if_neg (by omega)]
      have hne : (sb.length == 0) = false := by
        have : sb.length ≠ 0 := by omega
        simpa using this
      simp only [hne, Bool.false_eq_true, if_false]
      rw [if_neg (by omega), if_neg (by omega)]
      simp

/-! ## `WriteSliceOfObjects` / `ReadSliceOfObjects` -/

theorem serAll_some {guard : Option (List Nat)} : ∀ {os : List Obj} {data : List Bytes}, serAll guard os = some data →
    data = os.map Obj.key ∧ ∀ o ∈ os, o.ser = some o.key
  | [], _, h => by simp only [serAll, Option.some.injEq] at h; subst h; simp
  | o :: os, data, h => by
    simp only [serAll] at h
    split at h
    · cases h
    · cases hs : o.ser with
      | none => simp [hs] at h
      | some b =>
        cases hr : serAll guard os with
        | none => simp [hs, hr] at h
        | some bs =>
          simp only [hs, hr, Option.some.injEq] at h
          obtain ⟨h1, h2⟩ := serAll_some hr
          have hk : o.key = b := by simp [Obj.key, hs]
          subst h
          refine ⟨by simp [hk, h1], ?_⟩
          intro o' ho'
          rcases List.mem_cons.1 ho' with rfl | ho'
          · rw [hk]; exact hs
          · exact h2 o' ho'

/-- What the read side needs of every element. -/
structure ObjOk (den : Den) (allow : List Nat) (post : Option Nat) (validation : Bool) (o : Obj) : Prop where
  hser : o.ser = some o.key
  hden : o.den = den
  hcode : o.code < 256 ^ den.width
  hallow : selOk allow o.code = true
  hpost : (validation && postDenied post o) = false

theorem oLoop_flatten (den : Den) (allow : List Nat) (post : Option Nat) (r : Rules) (val : Bool) :
    ∀ (os : List Obj) (st : VSt) (rest : Bytes), (∀ o ∈ os, ObjOk den allow post val o) →
    (val = true → (vRun r st (os.map Obj.key)).2 = none) →
    oLoop den allow post r val os.length st ((os.map Obj.key).flatten ++ rest) =
      (os, (os.map Obj.key).flatten.length, none)
  | [], _, _, _, _ => by simp [oLoop]
  | o :: os, st, rest, hok, hv => by
    have ho := hok o (List.mem_cons_self ..)
    have hread : readObj den allow (o.key ++ ((os.map Obj.key).flatten ++ rest)) = .ok (o, o.key.length) := by
      have := readObj_ser ho.hser (by rw [ho.hden]; exact ho.hcode) ho.hallow ((os.map Obj.key).flatten ++ rest)
      rw [ho.hden] at this; exact this
    have hve : (if val = true then vErr r st o.key else none) = none := by
      cases val with
      | false => rfl
      | true => simp [(vRun_cons_none (hv rfl)).1]
    have ih := oLoop_flatten den allow post r val os (vNext r st o.key) rest
      (fun y hy => hok y (List.mem_cons_of_mem _ hy)) (fun hval => (vRun_cons_none (hv hval)).2)
    simp only [List.length_cons, List.map_cons, List.flatten_cons, List.append_assoc, oLoop, hread, ho.hpost,
      Bool.false_eq_true, if_false, take_append_length, hve, drop_append_length, ih, List.length_append]

theorem map_key_isortBy (os : List Obj) : (isortBy Obj.key os).map Obj.key = sortBytes (os.map Obj.key) :=
  isortBy_map Obj.key os

/-- The objects in the order `ReadSliceOfObjects` hands them out: sorted by their bytes when the writer sorts. -/
def sliceBack (r : Rules) (os : List Obj) : List Obj :=
  if r.autoSort && r.lex then isortBy Obj.key os else os

theorem slice_roundtrip (lp : LP) (r : Rules) (val : Bool) (deny : Option (List Nat)) (os : List Obj) (b : Bytes)
    (hw : owOp (.slice lp r val deny os) = .done b none) (den : Den) (allow : List Nat) (post : Option Nat)
    (hok : ∀ o ∈ os, ObjOk den allow post val o)
    (hmust : val = true → r.mustOccur.all ((os.map (·.code)).contains ·) = true) (rest : Bytes) :
    orOp (b ++ rest) (.slice lp den r val allow post) = .done (some (.many (sliceBack r os))) b.length none := by
  unfold owOp at hw
  cases hs : serAll (if val = true then deny else none) os with
  | none => simp [hs] at hw
  | some data =>
    simp only [hs] at hw
    obtain ⟨hdata, _⟩ := serAll_some hs
    subst hdata
    have henc := (wOp_seq_done_iff lp r val _ b).1 hw
    obtain ⟨p, hp, hbounds, hvalid, rfl⟩ := encSeq_ok henc
    have hwl := (wLen_done_iff lp _ p).2 hp
    obtain ⟨w, hwd, hlt, rfl⟩ := wLen_done hwl
    simp only [List.length_map] at hlt hbounds
    -- the objects in the order of the written bytes
    have hback : (if (r.autoSort && r.lex) = true then sortBytes (os.map Obj.key) else os.map Obj.key) =
        (sliceBack r os).map Obj.key := by
      unfold sliceBack; split
      · exact (map_key_isortBy os).symm
      · rfl
    rw [hback] at hvalid ⊢
    have hperm : (sliceBack r os).Perm os := by
      unfold sliceBack; split
      · exact isortBy_perm Obj.key os
      · exact List.Perm.refl _
    have hcount : (sliceBack r os).length = os.length := hperm.length_eq
    have hok' : ∀ o ∈ sliceBack r os, ObjOk den allow post val o := fun o ho => hok o (hperm.mem_iff.1 ho)
    have hb : (if val = true then boundsErr r os.length else none) = none := by
      cases val with
      | false => rfl
      | true => simpa using (boundsErr_none_iff r _).2 (hbounds rfl)
    have hloop := oLoop_flatten den allow post r val (sliceBack r os) {} rest hok'
      (fun hval => (vRun_ok_iff_validSeq r _).2 (hvalid (by simpa using hval)))
    rw [hcount] at hloop
    have hcodes : (val && !(r.mustOccur.all (((sliceBack r os).map (·.code)).contains ·))) = false := by
      cases val with
      | false => rfl
      | true =>
        have h1 := hmust rfl
        have hall : ∀ c ∈ r.mustOccur, c ∈ (sliceBack r os).map (·.code) := by
          intro c hc
          have h2 : c ∈ os.map (·.code) := by
            have := List.all_eq_true.1 h1 c hc
            simpa using this
          exact (hperm.map _).mem_iff.2 h2
        have : r.mustOccur.all (((sliceBack r os).map (·.code)).contains ·) = true := by
          apply List.all_eq_true.2
          intro c hc
          simpa using hall c hc
        simp only [this, Bool.not_true, Bool.and_false]
    simp only [orOp, hwd, List.append_assoc, List.length_append, leBytes_length, List.length_map,
      take_append_of_length (leBytes_length _ _), drop_append_of_length (leBytes_length _ _),
      leNat_leBytes_of_lt hlt, hb, hloop, hcodes, Bool.false_eq_true, if_false]
    rw [if_neg (by omega)]

end Hive.Serix
