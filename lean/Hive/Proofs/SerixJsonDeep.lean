import Hive.Proofs.SerixJsonOrder
import Hive.Spec.SerixJsonOrder
/-!
# Order independence at every depth

`deep_ty`: if two documents differ only in the order of the members of their objects (at any depth),
every target type decodes them to the same Go value (Go maps compared as sets of entries) — or fails
on both.  Mutual induction over `JTy` / `Fields` / `Alts`; objects are compared through *related
lookups* (`LookRel`), Go-map targets through `decEntries_iff` / `decEntries_perm`.
-/
namespace Hive.SerixJson

variable (fc : FloatCodec) (o : Opts)

/-! ## the relations -/

theorem JPermM_refl : ∀ (ms : List (String × Json)), JPermM ms ms
  | [] => .nil
  | (_, x) :: ms => .cons (.refl x) (JPermM_refl ms)

theorem JPermL_refl : ∀ (xs : List Json), JPermL xs xs
  | [] => .nil
  | x :: xs => .cons (.refl x) (JPermL_refl xs)

theorem VEquivL_refl : ∀ (xs : List Val), VEquivL xs xs
  | [] => .nil
  | x :: xs => .cons (.refl x) (VEquivL_refl xs)

theorem JPerm_obj_inv {ms : List (String × Json)} {j' : Json} (h : JPerm (.obj ms) j') :
    ∃ ms' ns, j' = .obj ns ∧ JPermM ms ms' ∧ ms'.Perm ns := by
  cases h with
  | refl => exact ⟨ms, ms, rfl, JPermM_refl ms, List.Perm.refl _⟩
  | obj h1 h2 => exact ⟨_, _, rfl, h1, h2⟩

theorem JPerm_arr_inv {xs : List Json} {j' : Json} (h : JPerm (.arr xs) j') :
    ∃ ys, j' = .arr ys ∧ JPermL xs ys := by
  cases h with
  | refl => exact ⟨xs, rfl, JPermL_refl xs⟩
  | arr h1 => exact ⟨_, rfl, h1⟩

theorem VEquivL_length {xs ys : List Val} (h : VEquivL xs ys) : xs.length = ys.length := by
  induction xs generalizing ys with
  | nil => cases h; rfl
  | cons x xs ih => cases h with | cons _ h2 => simp [ih h2]

theorem VEquivE_keys {es fs : List (Val × Val)} (h : VEquivE es fs) : es.map (·.1) = fs.map (·.1) := by
  induction es generalizing fs with
  | nil => cases h; rfl
  | cons e es ih => cases h with | cons _ h2 => simp [ih h2]

theorem VEquivE_length {es fs : List (Val × Val)} (h : VEquivE es fs) : es.length = fs.length := by
  have := congrArg List.length (VEquivE_keys h)
  simpa using this

/-! ## related lookups -/

/-- the two objects have the same member names, and the values under each name are related. -/
def LookRel (ms ns : List (String × Json)) : Prop :=
  ∀ k, (jlookup k ms = none ∧ jlookup k ns = none) ∨
    ∃ x y, jlookup k ms = some x ∧ jlookup k ns = some y ∧ JPerm x y ∧ NoDupKeys x

theorem keys_of_JPermM {ms ms' : List (String × Json)} (h : JPermM ms ms') : keys ms' = keys ms := by
  induction ms generalizing ms' with
  | nil => cases h; rfl
  | cons m ms ih => cases h with | cons _ h2 => simp only [keys, List.map_cons] at ih ⊢; rw [ih h2]

theorem lookRel_of_JPermM {ms ms' : List (String × Json)} (h : JPermM ms ms') (hn : NoDupKeysM ms) :
    LookRel ms ms' := by
  induction ms generalizing ms' with
  | nil => cases h; intro k; exact Or.inl ⟨rfl, rfl⟩
  | cons m ms ih =>
    cases h with
    | cons hxy h2 =>
      rename_i k0 x y ns
      cases hn with
      | cons hx hms =>
        intro k
        simp only [jlookup]
        by_cases hk : k0 = k
        · simp only [hk, if_true]
          exact Or.inr ⟨x, y, rfl, rfl, hxy, hx⟩
        · simp only [hk, if_false]
          exact ih h2 hms k

theorem lookRel_obj {ms ms' ns : List (String × Json)} (h : JPermM ms ms') (hp : ms'.Perm ns)
    (hnd : (keys ms).Nodup) (hn : NoDupKeysM ms) : LookRel ms ns := by
  intro k
  have hnd' : (keys ms').Nodup := by rw [keys_of_JPermM h]; exact hnd
  rw [← jlookup_perm hp hnd' k]
  exact lookRel_of_JPermM h hn k

theorem checkType_lookRel (code : Option Nat) {ms ns : List (String × Json)} (h : LookRel ms ns)
    (hc : checkType code ms = .ok ()) : checkType code ns = .ok () := by
  cases code with
  | none => rfl
  | some c =>
    simp only [checkType] at hc ⊢
    rcases h "type" with ⟨h1, _⟩ | ⟨x, y, h1, h2, hxy, _⟩
    · simp [h1] at hc
    · rw [h1] at hc
      rw [h2]
      cases hxy with
      | refl => exact hc
      | arr _ => simp at hc
      | obj _ _ => simp at hc

/-! ## element lists and Go-map members -/

theorem mapM_JPermL (g : Json → Except Err Val)
    (ih : ∀ j j' v, JPerm j j' → NoDupKeys j → g j = .ok v → ∃ v', g j' = .ok v' ∧ VEquiv v v') :
    ∀ (xs ys : List Json), JPermL xs ys → NoDupKeysL xs → ∀ vs, xs.mapM g = .ok vs →
      ∃ vs', ys.mapM g = .ok vs' ∧ VEquivL vs vs'
  | [], ys, hp, _, vs, h => by
    cases hp
    simp at h; subst h
    exact ⟨[], rfl, .nil⟩
  | x :: xs, ys, hp, hn, vs, h => by
    cases hp with
    | cons hxy hrest =>
      cases hn with
      | cons hx hxs =>
        obtain ⟨v, vs0, hv, hvs, rfl⟩ := (mapM_cons_ok _ _ _ _).mp h
        obtain ⟨v', hv', he⟩ := ih _ _ _ hxy hx hv
        obtain ⟨vs', hvs', hes⟩ := mapM_JPermL g ih xs _ hrest hxs vs0 hvs
        exact ⟨v' :: vs', (mapM_cons_ok _ _ _ _).mpr ⟨v', vs', hv', hvs', rfl⟩, .cons he hes⟩

theorem mapM_decMember_JPermM (gk gv : Json → Except Err Val)
    (ih : ∀ j j' v, JPerm j j' → NoDupKeys j → gv j = .ok v → ∃ v', gv j' = .ok v' ∧ VEquiv v v') :
    ∀ (ms ms' : List (String × Json)), JPermM ms ms' → NoDupKeysM ms → ∀ es,
      ms.mapM (decMember gk gv) = .ok es → ∃ es', ms'.mapM (decMember gk gv) = .ok es' ∧ VEquivE es es'
  | [], ms', hp, _, es, h => by
    cases hp
    simp at h; subst h
    exact ⟨[], rfl, .nil⟩
  | m :: ms, ms', hp, hn, es, h => by
    cases hp with
    | cons hxy hrest =>
      rename_i k x y ns
      cases hn with
      | cons hx hms =>
        obtain ⟨e, es0, he, hes, rfl⟩ := (mapM_cons_ok _ _ _ _).mp h
        unfold decMember at he
        obtain ⟨kv, hkv, he⟩ := bind_eq_ok.mp he
        obtain ⟨v, hv, he⟩ := bind_eq_ok.mp he
        simp only [pure_eq_ok, Except.ok.injEq] at he
        subst he
        obtain ⟨v', hv', hvv⟩ := ih _ _ _ hxy hx hv
        obtain ⟨es', hes', hee⟩ := mapM_decMember_JPermM gk gv ih ms _ hrest hms es0 hes
        refine ⟨(kv, v') :: es', ?_, .cons hvv hee⟩
        rw [mapM_cons_ok]
        exact ⟨(kv, v'), es', by simp [decMember, hkv, hv'], hes', rfl⟩

/-- the members of a Go-map document, related and permuted, decode to related and permuted entries. -/
theorem decEntries_deep (gk gv : Json → Except Err Val)
    (ih : ∀ j j' v, JPerm j j' → NoDupKeys j → gv j = .ok v → ∃ v', gv j' = .ok v' ∧ VEquiv v v')
    {ms ms' ns : List (String × Json)} (hp : JPermM ms ms') (hperm : ms'.Perm ns) (hn : NoDupKeysM ms)
    {es : List (Val × Val)} (h : decEntries gk gv ms [] = .ok es) :
    ∃ es' fs, decEntries gk gv ns [] = .ok fs ∧ VEquivE es es' ∧ es'.Perm fs := by
  obtain ⟨es0, hes, heq, _, hpw⟩ := (decEntries_iff gk gv ms [] es).mp h
  simp only [List.nil_append] at heq
  subst heq
  obtain ⟨es', hes', hee⟩ := mapM_decMember_JPermM gk gv ih ms ms' hp hn es hes
  have hpw' : es'.Pairwise (fun a b => a.1.keyEq b.1 = false) := by
    have h1 : (es.map (·.1)).Pairwise (fun a b => a.keyEq b = false) := List.pairwise_map.mpr hpw
    rw [VEquivE_keys hee] at h1
    exact List.pairwise_map.mp h1
  have hd' : decEntries gk gv ms' [] = .ok es' := by
    rw [decEntries_iff]
    exact ⟨es', hes', by simp, by simp, hpw'⟩
  obtain ⟨fs, hfs, hpf⟩ := decEntries_perm gk gv hperm hd'
  exact ⟨es', fs, hfs, hee, hpf⟩

/-! ## the induction -/

/-- a decoder that reads a scalar gives the same answer on related documents. -/
theorem scalar_case {g : Json → Except Err Val} {j j' : Json} {v : Val} (hp : JPerm j j')
    (harr : ∀ xs, g (.arr xs) = .error .err) (hobj : ∀ ms, g (.obj ms) = .error .err)
    (h : g j = .ok v) : ∃ v', g j' = .ok v' ∧ VEquiv v v' := by
  cases hp with
  | refl => exact ⟨v, h, .refl v⟩
  | arr _ => rw [harr] at h; cases h
  | obj _ _ => rw [hobj] at h; cases h

theorem decTypedBytes_deep (n : Option Nat) (key : String) {j j' : Json} {v : Val} (hp : JPerm j j')
    (hn : NoDupKeys j) (h : decTypedBytes n key j = .ok v) :
    ∃ v', decTypedBytes n key j' = .ok v' ∧ VEquiv v v' := by
  cases j with
  | obj ms =>
    obtain ⟨ms', ns, rfl, hpm, hperm⟩ := JPerm_obj_inv hp
    cases hn with
    | obj hnd hnm =>
      have hl := lookRel_obj hpm hperm hnd hnm key
      simp only [decTypedBytes, asObj, ok_bind] at h ⊢
      rcases hl with ⟨h1, _⟩ | ⟨x, y, h1, h2, hxy, _⟩
      · simp [h1, ofOpt] at h
      · rw [h1] at h
        rw [h2]
        cases hxy with
        | refl => exact ⟨v, h, .refl v⟩
        | arr _ => simp [ofOpt, asStr] at h
        | obj _ _ => simp [ofOpt, asStr] at h
  | _ => simp [decTypedBytes, asObj] at h

mutual
theorem deep_ty : ∀ (t : JTy) (j j' : Json) (v : Val), JPerm j j' → NoDupKeys j →
    mapDecode fc o t j = .ok v → ∃ v', mapDecode fc o t j' = .ok v' ∧ VEquiv v v'
  | .bool, j, j', v, hp, _, h =>
    scalar_case hp (fun _ => by simp [mapDecode]) (fun _ => by simp [mapDecode]) h
  | .uint w, j, j', v, hp, _, h =>
    scalar_case hp (fun _ => by by_cases hw : w = 64 <;> simp [mapDecode, hw, asStr])
      (fun _ => by by_cases hw : w = 64 <;> simp [mapDecode, hw, asStr]) h
  | .int w, j, j', v, hp, _, h =>
    scalar_case hp (fun _ => by by_cases hw : w = 64 <;> simp [mapDecode, hw, asStr])
      (fun _ => by by_cases hw : w = 64 <;> simp [mapDecode, hw, asStr]) h
  | .float _, j, j', v, hp, _, h =>
    scalar_case hp (fun _ => by simp [mapDecode, asStr]) (fun _ => by simp [mapDecode, asStr]) h
  | .str _, j, j', v, hp, _, h =>
    scalar_case hp (fun _ => by simp [mapDecode, asStr]) (fun _ => by simp [mapDecode, asStr]) h
  | .bytes _, j, j', v, hp, _, h =>
    scalar_case hp (fun _ => by simp [mapDecode, asStr]) (fun _ => by simp [mapDecode, asStr]) h
  | .byteArr viaPtr _, j, j', v, hp, _, h =>
    scalar_case hp (fun _ => by cases viaPtr <;> simp [mapDecode, asStr])
      (fun _ => by cases viaPtr <;> simp [mapDecode, asStr]) h
  | .u256, j, j', v, hp, _, h =>
    scalar_case hp (fun _ => by simp [mapDecode, asStr]) (fun _ => by simp [mapDecode, asStr]) h
  | .time, j, j', v, hp, _, h =>
    scalar_case hp (fun _ => by simp [mapDecode, asStr]) (fun _ => by simp [mapDecode, asStr]) h
  | .typedBytes viaPtr n code key, j, j', v, hp, hn, h => by
    cases viaPtr <;> cases n <;> simp only [mapDecode] at h ⊢ <;>
      first | exact decTypedBytes_deep _ key hp hn h | cases h
  | .slice b e, j, j', v, hp, hn, h => by
    cases j with
    | arr xs =>
      obtain ⟨ys, rfl, hpl⟩ := JPerm_arr_inv hp
      cases hn with
      | arr hnl =>
        simp only [mapDecode, asArr, ok_bind] at h ⊢
        obtain ⟨vs, hvs, h⟩ := bind_eq_ok.mp h
        obtain ⟨u, hu, h⟩ := bind_eq_ok.mp h
        simp only [pure_eq_ok, Except.ok.injEq] at h
        subst h
        obtain ⟨vs', hvs', hee⟩ := mapM_JPermL (mapDecode fc o e) (deep_ty e) xs ys hpl hnl vs hvs
        refine ⟨.list vs', ?_, .list hee⟩
        have hu' : checkLen o b vs'.length = .ok () := by rw [← VEquivL_length hee]; exact hu
        simp [hvs', hu']
    | _ => simp [mapDecode, asArr] at h
  | .array n e, j, j', v, hp, hn, h => by
    cases j with
    | arr xs =>
      obtain ⟨ys, rfl, hpl⟩ := JPerm_arr_inv hp
      cases hn with
      | arr hnl =>
        simp only [mapDecode, asArr, ok_bind] at h ⊢
        obtain ⟨vs, hvs, h⟩ := bind_eq_ok.mp h
        obtain ⟨vs', hvs', hee⟩ := mapM_JPermL (mapDecode fc o e) (deep_ty e) xs ys hpl hnl vs hvs
        by_cases hl : vs.length = n
        · simp only [hl, if_true, pure_eq_ok, Except.ok.injEq] at h
          subst h
          refine ⟨.list vs', ?_, .list hee⟩
          have hl' : vs'.length = n := by rw [← VEquivL_length hee]; exact hl
          simp [hvs', hl']
        · simp [hl] at h
    | _ => simp [mapDecode, asArr] at h
  | .map b k e, j, j', v, hp, hn, h => by
    cases j with
    | obj ms =>
      obtain ⟨ms', ns, rfl, hpm, hperm⟩ := JPerm_obj_inv hp
      cases hn with
      | obj hnd hnm =>
        simp only [mapDecode, asObj, ok_bind] at h ⊢
        obtain ⟨es, hes, h⟩ := bind_eq_ok.mp h
        obtain ⟨u, hu, h⟩ := bind_eq_ok.mp h
        simp only [pure_eq_ok, Except.ok.injEq] at h
        subst h
        obtain ⟨es', fs, hfs, hee, hpf⟩ := decEntries_deep (mapDecode fc o k) (mapDecode fc o e)
          (deep_ty e) hpm hperm hnm hes
        refine ⟨.map fs, ?_, .map hee hpf⟩
        have hu' : checkLen o b fs.length = .ok () := by
          rw [← hpf.length_eq, ← VEquivE_length hee]; exact hu
        simp [hfs, hu']
    | _ => simp [mapDecode, asObj] at h
  | .struct code fs, j, j', v, hp, hn, h => by
    cases j with
    | obj ms =>
      obtain ⟨ms', ns, rfl, hpm, hperm⟩ := JPerm_obj_inv hp
      cases hn with
      | obj hnd hnm =>
        have hl := lookRel_obj hpm hperm hnd hnm
        simp only [mapDecode, asObj, ok_bind] at h ⊢
        obtain ⟨u, hu, h⟩ := bind_eq_ok.mp h
        obtain ⟨vs, hvs, h⟩ := bind_eq_ok.mp h
        simp only [pure_eq_ok, Except.ok.injEq] at h
        subst h
        obtain ⟨vs', hvs', hee⟩ := deep_fields fs ms ns vs hl hvs
        exact ⟨.struct vs', by simp [checkType_lookRel code hl hu, hvs'], .struct hee⟩
    | _ => simp [mapDecode, asObj] at h
  | .ptr t, j, j', v, hp, hn, h => by
    simp only [mapDecode] at h ⊢
    by_cases hd : t.ptrDecodable = true
    · simp only [hd, if_true] at h ⊢
      obtain ⟨x, hx, rfl⟩ := map_eq_ok.mp h
      obtain ⟨x', hx', he⟩ := deep_ty t j j' x hp hn hx
      exact ⟨.some x', by simp [hx', Except.map], .some he⟩
    · simp [hd] at h
  | .iface alts, j, j', v, hp, hn, h => by
    cases j with
    | obj ms =>
      obtain ⟨ms', ns, rfl, hpm, hperm⟩ := JPerm_obj_inv hp
      cases hn with
      | obj hnd hnm =>
        have hl := lookRel_obj hpm hperm hnd hnm "type"
        simp only [mapDecode, asObj, ok_bind] at h ⊢
        rcases hl with ⟨h1, _⟩ | ⟨x, y, h1, h2, hxy, _⟩
        · simp [h1] at h
        · rw [h1] at h
          rw [h2]
          cases hxy with
          | refl =>
            cases x with
            | num c =>
              simp only at h ⊢
              exact deep_alts alts _ (.obj ms) (.obj ns) v (.obj hpm hperm) (.obj hnd hnm) h
            | _ => simp at h
          | arr _ => simp at h
          | obj _ _ => simp at h
    | _ => simp [mapDecode, asObj] at h
theorem deep_fields : ∀ (fs : Fields) (ms ns : List (String × Json)) (vs : List Val), LookRel ms ns →
    decFields fc o fs ms = .ok vs → ∃ vs', decFields fc o fs ns = .ok vs' ∧ VEquivL vs vs'
  | .nil, _, _, vs, _, h => by
    simp only [decFields, Except.ok.injEq] at h
    subst h
    exact ⟨[], by simp [decFields], .nil⟩
  | .named key opt omt t rest, ms, ns, vs, hl, h => by
    simp only [decFields] at h ⊢
    rcases hl key with ⟨h1, h2⟩ | ⟨x, y, h1, h2, hxy, hnx⟩
    · rw [h1] at h
      rw [h2]
      by_cases hoo : (opt || omt) = true
      · simp only [hoo, if_true] at h ⊢
        obtain ⟨vs0, hvs0, rfl⟩ := map_eq_ok.mp h
        obtain ⟨vs', hvs', hee⟩ := deep_fields rest ms ns vs0 hl hvs0
        exact ⟨missingVal t :: vs', by simp [hvs', Except.map], .cons (.refl _) hee⟩
      · simp [hoo] at h
    · rw [h1] at h
      rw [h2]
      simp only at h ⊢
      obtain ⟨v, hv, h⟩ := bind_eq_ok.mp h
      obtain ⟨vs0, hvs0, h⟩ := bind_eq_ok.mp h
      simp only [pure_eq_ok, Except.ok.injEq] at h
      subst h
      obtain ⟨vs', hvs', hee⟩ := deep_fields rest ms ns vs0 hl hvs0
      cases hbt : t.byValueTyped with
      | none =>
        rw [hbt] at hv
        obtain ⟨v', hv', he⟩ := deep_ty t x y v hxy hnx hv
        exact ⟨v' :: vs', by simp [hv', hvs'], .cons he hee⟩
      | some nc =>
        rw [hbt] at hv
        obtain ⟨v', hv', he⟩ := decTypedBytes_deep nc.1 key hxy hnx hv
        exact ⟨v' :: vs', by simp [hv', hvs'], .cons he hee⟩
  | .embedded viaPtr fs rest, ms, ns, vs, hl, h => by
    simp only [decFields] at h ⊢
    obtain ⟨xs, hxs, h⟩ := bind_eq_ok.mp h
    obtain ⟨vs0, hvs0, h⟩ := bind_eq_ok.mp h
    simp only [pure_eq_ok, Except.ok.injEq] at h
    subst h
    obtain ⟨xs', hxs', hex⟩ := deep_fields fs ms ns xs hl hxs
    obtain ⟨vs', hvs', hee⟩ := deep_fields rest ms ns vs0 hl hvs0
    refine ⟨(if viaPtr then Val.some (.struct xs') else .struct xs') :: vs', by simp [hxs', hvs'], .cons ?_ hee⟩
    cases viaPtr
    · exact .struct hex
    · exact .some (.struct hex)
  | .inlined code fs rest, ms, ns, vs, hl, h => by
    simp only [decFields] at h ⊢
    obtain ⟨u, hu, h⟩ := bind_eq_ok.mp h
    obtain ⟨xs, hxs, h⟩ := bind_eq_ok.mp h
    obtain ⟨vs0, hvs0, h⟩ := bind_eq_ok.mp h
    simp only [pure_eq_ok, Except.ok.injEq] at h
    subst h
    obtain ⟨xs', hxs', hex⟩ := deep_fields fs ms ns xs hl hxs
    obtain ⟨vs', hvs', hee⟩ := deep_fields rest ms ns vs0 hl hvs0
    exact ⟨.struct xs' :: vs', by simp [checkType_lookRel code hl hu, hxs', hvs'], .cons (.struct hex) hee⟩
theorem deep_alts : ∀ (alts : Alts) (c : Nat) (j j' : Json) (v : Val), JPerm j j' → NoDupKeys j →
    decAlt fc o alts c j = .ok v → ∃ v', decAlt fc o alts c j' = .ok v' ∧ VEquiv v v'
  | .nil, _, _, _, _, _, _, h => by simp [decAlt] at h
  | .cons c0 t rest, c, j, j', v, hp, hn, h => by
    simp only [decAlt] at h ⊢
    by_cases hc : c0 = c
    · simp only [hc, if_true] at h ⊢
      obtain ⟨x, hx, rfl⟩ := map_eq_ok.mp h
      obtain ⟨x', hx', he⟩ := deep_ty t j j' x hp hn hx
      exact ⟨.iface c x', by simp [hx', Except.map], .iface c he⟩
    · simp only [hc, if_false] at h ⊢
      exact deep_alts rest c j j' v hp hn h
end

end Hive.SerixJson
