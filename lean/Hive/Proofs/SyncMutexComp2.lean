import Hive.Proofs.SyncMutexComp
/-!
Invariants of the composed DAGMutex, part 2: preservation by every kind of step.
-/
namespace Hive.SyncMutex.Comp
open Hive.Conc
open Hive.SyncMutex.Dag (Mode DOp upd eraseAll below chain pushAll allHeld okD)
open Hive.SyncMutex.Wait (sumL sumL_mid sumL_ge sumL_zero)

theorem after_idle (a : Nat) (b : Bool) : after ⟨.idle, a, b⟩ = (a, b) := rfl

theorem proj_of_idle {t : CTh} (o : Nat) (h : t.ipc = .idle) : proj o t = ⟨.idle, t.rd o, t.wr o⟩ := by
  simp [proj, h]

theorem proj_of_ne {t : CTh} {o : Nat} (h : t.cur ≠ o) : proj o t = ⟨.idle, t.rd o, t.wr o⟩ := by
  simp [proj, h]

/-- V-level version of starting a method. -/
theorem winv_startV {s : Mx} {pre post : List V} {v : V} (op : Op)
    (h : WInv s (pre ++ v :: post)) (hv : v.pc = .idle) (hvi : vinv { v with pc := start op }) :
    WInv s (pre ++ { v with pc := start op } :: post) := by
  have hg := ginv_start op h.g hv
  obtain ⟨_, h8, h9, h10⟩ := h
  rw [forall_mid] at h10
  obtain ⟨hpre, _, hpost⟩ := h10
  refine ⟨hg, ?_, ?_, forall_mid.mpr ⟨hpre, hvi, hpost⟩⟩
  · simpa only [sumV_mid, fRd] using h8
  · simpa only [sumV_mid, fWr] using h9

theorem cinv_assemble {s s' : CSh} {pre post : List CTh} {t t' : CTh} (h : CInv s (pre ++ t :: post))
    (hobj : ∀ o, WInv (s.heap o) (pre.map (proj o) ++ proj o t :: post.map (proj o)) →
      WInv (s'.heap o) (pre.map (proj o) ++ proj o t' :: post.map (proj o)))
    (hdm : ∀ k : Nat, (if s.dm then 1 else 0) = k + fDm t → (if s'.dm then 1 else 0) = k + fDm t')
    (hcnt : ∀ x (k : Nat), s.cnt x = k + regc x t → s'.cnt x = k + regc x t')
    (hrw : RW s')
    (hoth : ∀ u, (u ∈ pre ∨ u ∈ post) → TL s u → (∀ x, regc x u + regc x t ≤ s.cnt x) → TL s' u)
    (ht : TInv s' t') : CInv s' (pre ++ t' :: post) := by
  obtain ⟨h1, h2, h3, _, h5⟩ := h
  refine ⟨?_, ?_, ?_, hrw, ?_⟩
  · intro o
    have := h1 o
    simp only [List.map_append, List.map_cons] at this ⊢
    exact hobj o this
  · simp only [sumL_mid] at h2 ⊢
    have := hdm (sumL fDm pre + sumL fDm post) (by omega)
    omega
  · intro x
    have := h3 x
    simp only [sumL_mid] at this ⊢
    have := hcnt x (sumL (regc x) pre + sumL (regc x) post) (by omega)
    omega
  · intro u hu
    simp only [List.mem_append, List.mem_cons] at hu
    have hbound : ∀ u, (u ∈ pre ∨ u ∈ post) → ∀ x, regc x u + regc x t ≤ s.cnt x := by
      intro u hu x
      have := h3 x
      simp only [sumL_mid] at this
      rcases hu with hu | hu
      · have := sumL_ge (f := regc x) hu; omega
      · have := sumL_ge (f := regc x) hu; omega
    rcases hu with hu | rfl | hu
    · have hi := h5 u (by simp [hu])
      exact ⟨hi.ci, hi.ko, hi.lk, hi.si, hi.so, hoth u (Or.inl hu) hi.tl (hbound u (Or.inl hu)), hi.nd⟩
    · exact ht
    · have hi := h5 u (by simp [hu])
      exact ⟨hi.ci, hi.ko, hi.lk, hi.si, hi.so, hoth u (Or.inr hu) hi.tl (hbound u (Or.inr hu)), hi.nd⟩

theorem tl_mono {s s' : CSh} {u : CTh} (h : TL s u) (hm : ∀ y o, s.ent y = some o → s'.ent y = some o) : TL s' u :=
  ⟨fun a ha => hm _ _ (h.t1 a ha), fun ha => hm _ _ (h.t2 ha), fun p hp => hm _ _ (h.t3 p hp)⟩

/-- entities a goroutine refers to are registered by it -/
theorem tl_of_unreferenced {s s' : CSh} {u : CTh} (h : TL s u)
    (hm : ∀ y, regc y u = 0 ∨ s'.ent y = s.ent y) : TL s' u := by
  refine ⟨?_, ?_, ?_⟩
  · intro a ha
    rcases hm a.1 with h0 | he
    · exfalso
      have : 0 < u.held.countP (fun h => h.1 == a.1) := List.countP_pos_iff.mpr ⟨a, ha, by simp⟩
      simp only [regc] at h0; omega
    · rw [he]; exact h.t1 a ha
  · intro ha
    rcases hm u.curEnt with h0 | he
    · exfalso; simp [regc, ha] at h0
    · rw [he]; exact h.t2 ha
  · intro p hp
    rcases hm p.1 with h0 | he
    · exfalso
      have : 0 < (restEnts u).count p.1 := by
        apply List.count_pos_iff.mpr
        simp only [restEnts, List.mem_map]
        exact ⟨p, hp, rfl⟩
      simp only [regc] at h0; omega
    · rw [he]; exact h.t3 p hp

/-! ### goroutines outside a StarvingMutex method -/

structure Outside (t : CTh) : Prop where
  pend : pend t = []
  rest : restPairs t = []
  acq : acq t = false
  inA : ∀ o, inA t o = false
  bR : ∀ o, bonusR t o = 0
  bW : ∀ o, bonusW t o = false

theorem outside_of {t : CTh} (h : isInner t = false) : Outside t := by
  obtain ⟨ctl, iop, curEnt, cur, ipc, rd, wr, held, hobj, script⟩ := t
  cases ctl <;> simp [isInner] at h <;>
    constructor <;> simp [pend, restPairs, acq, inA, isInner, bonusR, bonusW]

theorem regc_outside {t : CTh} (h : isInner t = false) (x : Nat) :
    regc x t = t.held.countP (fun h => h.1 == x) + (unrg t).count x := by
  have o := outside_of h
  simp [regc, o.acq, restEnts, o.rest]

/-- `LK` for a goroutine outside a method says that its views are exactly what `held` records. -/
theorem lk_outside_iff {t : CTh} (h : isInner t = false) (hi : t.ipc = .idle) :
    LK t ↔ ∀ o, t.rd o = cR t o ∧ t.wr o = decide (0 < cW t o) := by
  have ot := outside_of h
  constructor
  · intro hl o
    have := hl.eq o
    rw [proj_of_idle o hi, after_idle, ot.pend, ot.bR, ot.bW] at this
    simp only [List.count_nil, Nat.add_zero, Bool.or_false, Prod.mk.injEq] at this
    exact this
  · intro hl
    refine ⟨?_, ?_, ?_, ?_⟩
    · intro o
      rw [proj_of_idle o hi, after_idle, ot.pend, ot.bR, ot.bW]
      simp only [List.count_nil, Nat.add_zero, Bool.or_false, Prod.mk.injEq]
      exact hl o
    · intro o ho
      rw [ot.inA, ot.pend] at ho
      simp at ho
    · intro o ho; rw [ot.inA] at ho; cases ho
    · rw [ot.pend]; exact List.nodup_nil

/-- A step that only moves the control point (and possibly the registry mutex) of a goroutine that is
outside a method. -/
theorem cinv_ctl {s : CSh} {pre post : List CTh} {t : CTh} (h : CInv s (pre ++ t :: post))
    (c' : Ctl) (r : List DOp) (dm' : Bool) (hni : isInner t = false)
    (hni' : isInner { t with ctl := c', script := r } = false)
    (hdm : ∀ k : Nat, (if s.dm then 1 else 0) = k + fDm t →
      (if dm' then 1 else 0) = k + fDm { t with ctl := c', script := r })
    (hsi : SI { t with ctl := c', script := r })
    (hun : unrg { t with ctl := c', script := r } = unrg t := by rfl) :
    CInv { s with dm := dm' } (pre ++ { t with ctl := c', script := r } :: post) := by
  have hti := h.th t (by simp)
  have hidle := hti.ci hni
  refine cinv_assemble h (fun o hw => hw) hdm ?_ ⟨h.rw.z, h.rw.lt, h.rw.inj⟩
    (fun u _ htl _ => ⟨htl.t1, htl.t2, htl.t3⟩) ?_
  · intro x k hk
    rw [regc_outside hni', hun]
    rw [regc_outside hni] at hk
    exact hk
  · have o' := outside_of hni'
    refine ⟨fun _ => hidle, ?_, ?_, hsi, hti.so, ?_, by rw [hun]; exact hti.nd⟩
    · revert hni'; cases c' <;> simp [KOk, isInner]
    · rw [lk_outside_iff hni' hidle]
      exact (lk_outside_iff hni hidle).mp hti.lk
    · refine ⟨hti.tl.t1, ?_, ?_⟩
      · intro ha; rw [o'.acq] at ha; cases ha
      · intro p hp; rw [o'.rest] at hp; cases hp

/-! ### a micro-step of the StarvingMutex method the goroutine is in -/

theorem cinv_inner {s : CSh} {pre post : List CTh} {t : CTh} (h : CInv s (pre ++ t :: post))
    {k : Kont} (hc : t.ctl = .inner k) {mx' : Mx} {v' : V}
    (hm : (mx', v') ∈ mxStep (s.heap t.cur) (proj t.cur t)) :
    CInv { s with heap := upd s.heap t.cur mx' }
      (pre ++ { t with ipc := v'.pc, rd := upd t.rd t.cur v'.rd, wr := upd t.wr t.cur v'.wr } :: post) := by
  have hti := h.th t (by simp)
  have hw0 := h.obj t.cur
  simp only [List.map_append, List.map_cons] at hw0
  obtain ⟨hw1, haft⟩ := winv_step hw0 hm
  have hpc : proj t.cur { t with ipc := v'.pc, rd := upd t.rd t.cur v'.rd, wr := upd t.wr t.cur v'.wr } = v' := by
    simp [proj, upd]
  have hpo : ∀ o, o ≠ t.cur →
      proj o { t with ipc := v'.pc, rd := upd t.rd t.cur v'.rd, wr := upd t.wr t.cur v'.wr } = proj o t := by
    intro o ho
    have : ¬ t.cur = o := fun h => ho h.symm
    simp [proj, upd, ho, this]
  refine cinv_assemble h ?_ (fun k hk => hk) (fun x k hk => hk) ⟨h.rw.z, h.rw.lt, h.rw.inj⟩
    (fun u _ htl _ => ⟨htl.t1, htl.t2, htl.t3⟩) ?_
  · intro o hw
    by_cases ho : o = t.cur
    · subst ho
      rw [hpc]
      simpa [upd] using hw1
    · rw [hpo o ho]
      simpa [upd, ho] using hw
  · refine ⟨?_, hti.ko, ?_, hti.si, hti.so, ⟨hti.tl.t1, hti.tl.t2, hti.tl.t3⟩, hti.nd⟩
    · intro hi; simp [isInner, hc] at hi
    · refine ⟨?_, hti.lk.dis, hti.lk.nin, hti.lk.pnd⟩
      intro o
      by_cases ho : o = t.cur
      · subst ho
        rw [hpc, haft]
        exact hti.lk.eq t.cur
      · rw [hpo o ho]
        exact hti.lk.eq o

/-! ### entering a StarvingMutex method -/

theorem proj_startInner (t : CTh) (op : Op) (x o0 : Nat) (k : Kont) (o : Nat) :
    proj o (startInner t op x o0 k) = ⟨if o0 = o then start op else .idle, t.rd o, t.wr o⟩ := by
  by_cases h : o0 = o <;> simp [proj, startInner, h]

theorem obj_start {mx : Mx} {pre post : List V} {t : CTh} (hi : t.ipc = .idle) (op : Op) (x o0 : Nat)
    (k : Kont) (o : Nat) (hv : vinv ⟨start op, t.rd o0, t.wr o0⟩)
    (hw : WInv mx (pre ++ proj o t :: post)) : WInv mx (pre ++ proj o (startInner t op x o0 k) :: post) := by
  rw [proj_startInner]
  rw [proj_of_idle o hi] at hw
  by_cases h : o0 = o
  · subst h
    simp only [if_true]
    exact winv_startV op hw rfl hv
  · simp only [h, if_false]
    exact hw

/-- no entry of `held` goes through object `o` -/
theorem counts_zero {t : CTh} {o : Nat} (h : ∀ a ∈ t.held, t.hobj a.1 ≠ o) : cR t o = 0 ∧ cW t o = 0 := by
  constructor
  · simp only [cR, List.countP_eq_zero]
    intro a ha; have := h a ha; simp [this]
  · simp only [cW, List.countP_eq_zero]
    intro a ha; have := h a ha; simp [this]

/-- an entry of `held` that goes through the object of entity `y` is the entry of `y` -/
theorem held_ent {s : CSh} {t : CTh} (hrw : RW s) (htl : ∀ a ∈ t.held, s.ent a.1 = some (t.hobj a.1))
    {a : Nat × Mode} (ha : a ∈ t.held) {y o : Nat} (hy : s.ent y = some o) (ho : t.hobj a.1 = o) : a.1 = y := by
  have := htl a ha
  rw [ho] at this
  exact hrw.inj _ _ _ this hy

theorem lk_start_acq {t : CTh} (hni : isInner t = false) (hi : t.ipc = .idle) (hl : LK t)
    (op : Op) (hop : op = .lock ∨ op = .rlock) (x o0 : Nat) (k : Kont)
    (hk : pend (startInner t op x o0 k) = []) (hz : cR t o0 = 0 ∧ cW t o0 = 0) :
    LK (startInner t op x o0 k) := by
  have hv := (lk_outside_iff hni hi).mp hl
  have hcR : ∀ o, cR (startInner t op x o0 k) o = cR t o := fun _ => rfl
  have hcW : ∀ o, cW (startInner t op x o0 k) o = cW t o := fun _ => rfl
  have hin : ∀ o, inA (startInner t op x o0 k) o = (o0 == o) := by
    intro o; simp [inA, isInner, startInner]
  refine ⟨?_, ?_, ?_, ?_⟩
  · intro o
    rw [proj_startInner, hk, hcR, hcW]
    by_cases h : o0 = o
    · subst h
      obtain ⟨h1, h2⟩ := hv o0
      rw [h1, h2, hz.1, hz.2]
      rcases hop with rfl | rfl
      · have hiop : (startInner t .lock x o0 k).iop = .lock := rfl
        simp [after, start, bonusR, bonusW, hin, hiop]
      · have hiop : (startInner t .rlock x o0 k).iop = .rlock := rfl
        simp [after, start, bonusR, bonusW, hin, hiop]
    · have hb : (o0 == o) = false := by simpa using h
      obtain ⟨h1, h2⟩ := hv o
      simp [h, after, bonusR, bonusW, hin, hb, h1, h2]
  · intro o ho
    rw [hk, hin] at ho
    simp at ho
    subst ho
    exact hz
  · intro o _; rw [hk]; simp
  · rw [hk]; exact List.nodup_nil

theorem cinv_lockC {s : CSh} {pre post : List CTh} {t : CTh} (h : CInv s (pre ++ t :: post))
    {x : Nat} (hc : t.ctl = .lockC x) :
    CInv { (regOne s x).1 with dm := false } (pre ++ startInner t .lock x (regOne s x).2 .done :: post) := by
  have hti := h.th t (by simp)
  have hni : isInner t = false := by simp [isInner, hc]
  have hidle := hti.ci hni
  obtain ⟨hspec, hent⟩ := regOne_spec s x h.rw
  have hsi := hti.si
  simp only [SI, hc] at hsi
  -- the object is not held by t
  have hz : cR t (regOne s x).2 = 0 ∧ cW t (regOne s x).2 = 0 := by
    apply counts_zero
    intro a ha ho
    have htl' : ∀ a ∈ t.held, (regOne s x).1.ent a.1 = some (t.hobj a.1) :=
      fun a ha => hspec.mono _ _ (hti.tl.t1 a ha)
    have := held_ent hspec.rw htl' ha hent ho
    have := below_mem hsi.1 a ha
    omega
  have hv := (lk_outside_iff hni hidle).mp hti.lk (regOne s x).2
  refine cinv_assemble h ?_ ?_ ?_ ⟨hspec.rw.z, hspec.rw.lt, hspec.rw.inj⟩ ?_ ?_
  · intro o hw
    have : ({ (regOne s x).1 with dm := false } : CSh).heap o = s.heap o := by
      show (regOne s x).1.heap o = s.heap o
      rw [hspec.heap]
    rw [this]
    apply obj_start hidle .lock x _ .done o _ hw
    rw [hv.1, hv.2, hz.1, hz.2]
    simp [vinv, start]
  · intro k hk
    simp only [fDm, hc] at hk
    simp only [fDm, startInner]
    cases hd : s.dm <;> simp [hd] at hk ⊢ <;> omega
  · intro y k hk
    have hun : unrg t = [] := by simp [unrg, hc]
    rw [regc_outside hni, hun] at hk
    have hcn := hspec.cnt y
    show (regOne s x).1.cnt y = _
    rw [hcn, hk]
    simp only [regc, acq, isInner, startInner, restEnts, restPairs, unrg, List.count_cons, List.count_nil]
    by_cases hy : x = y <;> simp [hy] <;> omega
  · intro u _ htl _
    exact tl_mono htl hspec.mono
  · refine ⟨?_, ?_, ?_, ?_, hti.so, ?_, by simp [unrg, startInner]⟩
    · intro hi; simp [isInner, startInner] at hi
    · simp [KOk, startInner]
    · exact lk_start_acq hni hidle hti.lk .lock (Or.inl rfl) x _ .done (by simp [pend, startInner]) hz
    · simp only [SI, startInner]; exact hsi
    · refine ⟨fun a ha => hspec.mono _ _ (hti.tl.t1 a ha), fun _ => hent, ?_⟩
      intro p hp; simp [restPairs, startInner] at hp

end Hive.SyncMutex.Comp
