import Hive.Proofs.TimedAll
/-!
# At most one task per identifier is pending; an identifier without registration has none
-/
namespace Hive.Timed
open Hive.Conc

/-- `e` is a task of identifier `i` whose cancel channel is still open. -/
def pendE (s : Sh) (i : Nat) (e : Elem) : Bool := e.id == some i && !(s.closed.contains e.serial)

/-- pending tasks of `i` in the heap -/
def pendHeap (s : Sh) (i : Nat) : Nat := s.heap.countP (pendE s i)

/-- the thread holds a pending task of `i` (popped, or delivered and not yet started) -/
def pendTh (s : Sh) (i : Nat) (t : Th) : Nat :=
  match t.held with
  | some e => if pendE s i e then 1 else 0
  | none => 0

theorem tsum_le_mem {f g : Th → Nat} {ts : List Th} (h : ∀ t ∈ ts, f t ≤ g t) : tsum f ts ≤ tsum g ts := by
  induction ts with
  | nil => simp [tsum]
  | cons a l ih =>
    have h1 := h a (by simp)
    have h2 := ih (fun t ht => h t (by simp [ht]))
    simp only [tsum, List.map_cons, List.sum_cons] at *
    omega

theorem pendE_reg {s : Sh} {i : Nat} {e : Elem} (hr : Reg s e) (hp : pendE s i e = true) :
    regGet s.reg i = some e.serial := by
  simp only [pendE, Bool.and_eq_true, beq_iff_eq, Bool.not_eq_eq_eq_not, Bool.not_true,
    List.contains_eq_mem, decide_eq_false_iff_not] at hp
  exact hr i hp.1 hp.2

theorem one_pending_aux {s : Sh} {ts : List Th} (h1 : Inv s ts) (h2 : Inv2 s ts) {i x : Nat}
    (hg : regGet s.reg i = some x) : pendHeap s i + tsum (pendTh s i) ts ≤ 1 := by
    have hlv := lv_le_one h1 x
    have hh : pendHeap s i ≤ hc x s.heap := by
      unfold pendHeap hc
      apply List.countP_mono_left
      intro e he hp
      have := pendE_reg (h2.e1 e he) hp
      rw [hg] at this
      simpa using (Option.some.inj this).symm
    have ht : tsum (pendTh s i) ts ≤ tsum (fun t => pre x t + wr x t) ts := by
      apply tsum_le_mem
      intro t ht
      unfold pendTh
      cases hheld : t.held with
      | none => exact Nat.zero_le _
      | some e =>
        simp only
        split
        · rename_i hp
          have := pendE_reg (h2.e2 t ht e hheld) hp
          rw [hg] at this
          have hx : e.serial = x := (Option.some.inj this).symm
          have := held_count hheld
          rw [hx] at this
          omega
        · exact Nat.zero_le _
    rw [tsum_add] at ht
    unfold lv at hlv
    omega


theorem one_pending {s : Sh} {ts : List Th} (h1 : Inv s ts) (h2 : Inv2 s ts) (i : Nat) :
    pendHeap s i + tsum (pendTh s i) ts ≤ 1 ∧
    (regGet s.reg i = none → pendHeap s i + tsum (pendTh s i) ts = 0) ∧
    (∀ x, regGet s.reg i = some x → x ∈ s.closed → pendHeap s i + tsum (pendTh s i) ts = 0) := by
  cases hg : regGet s.reg i with
  | none =>
    have hh : pendHeap s i = 0 := by
      unfold pendHeap
      rw [List.countP_eq_zero]
      intro e he hp
      have := pendE_reg (h2.e1 e he) hp
      rw [hg] at this; cases this
    have ht : tsum (pendTh s i) ts = 0 := by
      apply tsum_zero
      intro t ht
      unfold pendTh
      cases hheld : t.held with
      | none => rfl
      | some e =>
        simp only
        split
        · rename_i hp
          have := pendE_reg (h2.e2 t ht e hheld) hp
          rw [hg] at this; cases this
        · rfl
    exact ⟨by omega, (fun _ => by omega), (fun x hx => by cases hx)⟩
  | some x =>
    refine ⟨?_, (fun h => by cases h), ?_⟩
    · exact one_pending_aux h1 h2 hg
    · intro y hy hcl
      cases hy
      -- a pending task of `i` would be registered as `x`, but `x`'s channel is closed
      have hopen : ∀ e, pendE s i e = true → Reg s e → False := by
        intro e hp hr
        have := pendE_reg hr hp
        rw [hg] at this
        have hx : e.serial = x := (Option.some.inj this).symm
        simp only [pendE, Bool.and_eq_true, beq_iff_eq, Bool.not_eq_eq_eq_not, Bool.not_true,
          List.contains_eq_mem, decide_eq_false_iff_not] at hp
        exact hp.2 (hx ▸ hcl)
      have hh : pendHeap s i = 0 := by
        unfold pendHeap
        rw [List.countP_eq_zero]
        intro e he hp
        exact hopen e hp (h2.e1 e he)
      have ht : tsum (pendTh s i) ts = 0 := by
        apply tsum_zero
        intro t ht
        unfold pendTh
        cases hheld : t.held with
        | none => rfl
        | some e =>
          simp only
          split
          · rename_i hp; exact (hopen e hp (h2.e2 t ht e hheld)).elim
          · rfl
      omega


end Hive.Timed
