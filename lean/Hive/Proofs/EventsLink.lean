import Hive.Model.Events
/-!
# `LinkTo`: what triggers leave unchanged (`Frame`) and the link invariant over all histories
-/
namespace Hive.Events

theorem getElem?_lt' {α : Type} {l : List α} {k : Nat} {x : α} (h : l[k]? = some x) : k < l.length := by
  rcases Nat.lt_or_ge k l.length with h' | h'
  · exact h'
  · rw [List.getElem?_eq_none h'] at h; cases h

/-- What triggers may change: counters, and `attached` of hooks that carry a limit. -/
structure Frame (s s' : St) : Prop where
  hlen : s'.hooks.length = s.hooks.length
  elen : s'.evs.length = s.evs.length
  user : s'.user = s.user
  ev : ∀ (e : Nat) (ev : Ev), s.evs[e]? = some ev → ∃ ev', s'.evs[e]? = some ev' ∧ ev'.link = ev.link ∧ ev'.max = ev.max
  hk : ∀ (k : Nat) (hk : Hook), s.hooks[k]? = some hk → ∃ hk', s'.hooks[k]? = some hk' ∧ hk'.ev = hk.ev ∧
    hk'.link = hk.link ∧ hk'.max = hk.max ∧ (hk'.attached = true → hk.attached = true) ∧
    (hk.max = 0 → hk'.attached = hk.attached)

theorem Frame.refl (s : St) : Frame s s :=
  ⟨rfl, rfl, rfl, fun _ ev h => ⟨ev, h, rfl, rfl⟩, fun _ hk h => ⟨hk, h, rfl, rfl, rfl, id, fun _ => rfl⟩⟩

theorem Frame.trans {a b c : St} (h1 : Frame a b) (h2 : Frame b c) : Frame a c := by
  refine ⟨h2.hlen.trans h1.hlen, h2.elen.trans h1.elen, h2.user.trans h1.user, ?_, ?_⟩
  · intro e ev h
    obtain ⟨ev1, g1, l1, m1⟩ := h1.ev e ev h
    obtain ⟨ev2, g2, l2, m2⟩ := h2.ev e ev1 g1
    exact ⟨ev2, g2, l2.trans l1, m2.trans m1⟩
  · intro k hk h
    obtain ⟨x1, g1, a1, b1, c1, d1, e1⟩ := h1.hk k hk h
    obtain ⟨x2, g2, a2, b2, c2, d2, e2⟩ := h2.hk k x1 g1
    refine ⟨x2, g2, a2.trans a1, b2.trans b1, c2.trans c1, fun x => d1 (d2 x), ?_⟩
    intro hm
    rw [e2 (c1.trans hm), e1 hm]

theorem Frame.setHook {s : St} {k : Nat} {h h' : Hook} (hk : s.hooks[k]? = some h)
    (h1 : h'.ev = h.ev) (h2 : h'.link = h.link) (h3 : h'.max = h.max)
    (h4 : h'.attached = true → h.attached = true) (h5 : h.max = 0 → h'.attached = h.attached) :
    Frame s (setHook s k h') := by
  have hlt := getElem?_lt' hk
  refine ⟨by simp [Events.setHook], rfl, rfl, fun _ ev h => ⟨ev, h, rfl, rfl⟩, ?_⟩
  intro j hj hh
  simp only [Events.setHook, List.getElem?_set]
  by_cases hkj : k = j
  · subst hkj
    rw [hk] at hh; cases hh
    exact ⟨h', by simp [hlt], h1, h2, h3, h4, h5⟩
  · exact ⟨hj, by simp [hkj, hh], rfl, rfl, rfl, id, fun _ => rfl⟩

theorem Frame.setEv {s : St} {e : Nat} {ev ev' : Ev} (he : s.evs[e]? = some ev)
    (h1 : ev'.link = ev.link) (h2 : ev'.max = ev.max) : Frame s (setEv s e ev') := by
  have hlt := getElem?_lt' he
  refine ⟨rfl, by simp [Events.setEv], rfl, ?_, fun _ hk h => ⟨hk, h, rfl, rfl, rfl, id, fun _ => rfl⟩⟩
  intro j ej hh
  simp only [Events.setEv, List.getElem?_set]
  by_cases hkj : e = j
  · subst hkj
    rw [he] at hh; cases hh
    exact ⟨ev', by simp [hlt], h1, h2⟩
  · exact ⟨ej, by simp [hkj, hh], rfl, rfl⟩

theorem exceeds_zero (c : Nat) : exceeds 0 c = false := by simp [exceeds]

theorem frame_visitKey (trigRec : St → Nat → Nat → Bool → St × List Call)
    (hrec : ∀ s e a b, Frame s (trigRec s e a b).1) (e a : Nat) (async : Bool) (acc : St × List Call) (k : Nat) :
    Frame acc.1 (visitKey trigRec e a async acc k).1 := by
  unfold visitKey
  cases hk : acc.1.hooks[k]? with
  | none => exact Frame.refl _
  | some h =>
    simp only
    by_cases h1 : (h.ev != e || !h.attached) = true
    · simp only [h1, if_true]; exact Frame.refl _
    · simp only [h1, Bool.false_eq_true, if_false]
      have hatt : h.attached = true := by
        cases hh : h.attached with
        | true => rfl
        | false => simp [hh] at h1
      by_cases h2 : exceeds h.max (h.count + 1) = true
      · simp only [h2, if_true]
        refine Frame.setHook hk rfl rfl rfl (by simp) ?_
        intro hm; rw [hm, exceeds_zero] at h2; cases h2
      · simp only [h2, Bool.false_eq_true, if_false]
        have f1 : Frame acc.1 (setHook acc.1 k { h with count := h.count + 1, fired := h.fired + 1 }) :=
          Frame.setHook hk rfl rfl rfl id (fun _ => rfl)
        split
        · exact f1.trans (hrec _ _ a _)
        · exact f1

theorem frame_fold (trigRec : St → Nat → Nat → Bool → St × List Call)
    (hrec : ∀ s e a b, Frame s (trigRec s e a b).1) (e a : Nat) (async : Bool) (ks : List Nat)
    (acc : St × List Call) : Frame acc.1 (ks.foldl (visitKey trigRec e a async) acc).1 := by
  induction ks generalizing acc with
  | nil => exact Frame.refl _
  | cons k ks ih =>
    simp only [List.foldl_cons]
    exact (frame_visitKey trigRec hrec e a async acc k).trans (ih _)

theorem frame_trig (fuel : Nat) : ∀ s e a b, Frame s (trig fuel s e a b).1 := by
  induction fuel with
  | zero => intro s e a b; exact Frame.refl _
  | succ fuel ih =>
    intro s e a b
    simp only [trig]
    cases hev : s.evs[e]? with
    | none => exact Frame.refl _
    | some ev =>
      simp only
      by_cases hx : exceeds ev.max (ev.count + 1) = true
      · simp only [hx, if_true]; exact Frame.setEv hev rfl rfl
      · simp only [hx, Bool.false_eq_true, if_false]
        have f1 : Frame s (setEv s e { ev with count := ev.count + 1, passed := ev.passed + 1 }) :=
          Frame.setEv hev rfl rfl
        exact f1.trans (frame_fold (trig fuel) ih e a b _ (_, []))

/-- The link structure: an event's `link` field and the link hooks sitting in registries agree. -/
structure LinkInv (s : St) : Prop where
  cur : ∀ (src : Nat) (ev : Ev) (k : Nat), s.evs[src]? = some ev → ev.link = some k →
    ∃ hk, s.hooks[k]? = some hk ∧ hk.link = some src ∧ hk.attached = true ∧ hk.ev < src
  only : ∀ (k : Nat) (hk : Hook) (src : Nat), s.hooks[k]? = some hk → hk.link = some src → hk.attached = true →
    ∃ ev, s.evs[src]? = some ev ∧ ev.link = some k
  linkmax : ∀ (k : Nat) (hk : Hook) (src : Nat), s.hooks[k]? = some hk → hk.link = some src → hk.max = 0
  userhooks : ∀ (h k : Nat), s.user[h]? = some k → ∃ hk, s.hooks[k]? = some hk ∧ hk.link = none

theorem linkInv_init : LinkInv init := by
  constructor <;> simp [init]

theorem LinkInv.frame {s s' : St} (h : LinkInv s) (f : Frame s s') : LinkInv s' := by
  have back_ev : ∀ (e : Nat) (ev' : Ev), s'.evs[e]? = some ev' → ∃ ev, s.evs[e]? = some ev ∧ ev'.link = ev.link := by
    intro e ev' he
    have hlt : e < s.evs.length := by rw [← f.elen]; exact getElem?_lt' he
    obtain ⟨ev2, g, l, _⟩ := f.ev e _ (List.getElem?_eq_getElem hlt)
    rw [he] at g; cases g
    exact ⟨_, List.getElem?_eq_getElem hlt, l⟩
  have back_hk : ∀ (k : Nat) (hk' : Hook), s'.hooks[k]? = some hk' → ∃ hk, s.hooks[k]? = some hk ∧
      hk'.ev = hk.ev ∧ hk'.link = hk.link ∧ hk'.max = hk.max ∧ (hk'.attached = true → hk.attached = true) := by
    intro k hk' hh
    have hlt : k < s.hooks.length := by rw [← f.hlen]; exact getElem?_lt' hh
    obtain ⟨x, g, a, b, c, d, _⟩ := f.hk k _ (List.getElem?_eq_getElem hlt)
    rw [hh] at g; cases g
    exact ⟨_, List.getElem?_eq_getElem hlt, a, b, c, d⟩
  constructor
  · intro src ev' k he hl
    obtain ⟨ev, he0, hl0⟩ := back_ev src ev' he
    obtain ⟨hk, g, a, b, c⟩ := h.cur src ev k he0 (hl0 ▸ hl)
    obtain ⟨hk', g', a', b', c', d', e'⟩ := f.hk k hk g
    refine ⟨hk', g', b'.trans a, ?_, by rw [a']; exact c⟩
    rw [e' (h.linkmax k hk src g a)]; exact b
  · intro k hk' src hh hl ha
    obtain ⟨hk, g, a, b, c, d⟩ := back_hk k hk' hh
    obtain ⟨ev, he, hel⟩ := h.only k hk src g (b ▸ hl) (d ha)
    obtain ⟨ev', he', hl', _⟩ := f.ev src ev he
    exact ⟨ev', he', hl'.trans hel⟩
  · intro k hk' src hh hl
    obtain ⟨hk, g, a, b, c, d⟩ := back_hk k hk' hh
    rw [c]; exact h.linkmax k hk src g (b ▸ hl)
  · intro hd k hu
    rw [f.user] at hu
    obtain ⟨hk, g, l⟩ := h.userhooks hd k hu
    obtain ⟨hk', g', _, b', _⟩ := f.hk k hk g
    exact ⟨hk', g', b'.trans l⟩

/-- Appending one hook record. -/
theorem linkInv_append_user {s : St} (h : LinkInv s) (r : Hook) (hr : r.link = none) :
    LinkInv { s with hooks := s.hooks ++ [r], user := s.user ++ [s.hooks.length] } := by
  have old : ∀ (k : Nat) (hk : Hook), s.hooks[k]? = some hk → (s.hooks ++ [r])[k]? = some hk := by
    intro k hk hh; rw [List.getElem?_append_left (getElem?_lt' hh)]; exact hh
  have back : ∀ (k : Nat) (hk : Hook), (s.hooks ++ [r])[k]? = some hk → s.hooks[k]? = some hk ∨ hk = r := by
    intro k hk hh
    by_cases hlt : k < s.hooks.length
    · left; rw [List.getElem?_append_left hlt] at hh; exact hh
    · right
      rw [List.getElem?_append_right (by omega)] at hh
      have : k - s.hooks.length = 0 := by have := getElem?_lt' hh; simp at this; omega
      rw [this] at hh; simp at hh; exact hh.symm
  constructor
  · intro src ev k he hl
    obtain ⟨hk, g, rest⟩ := h.cur src ev k he hl
    exact ⟨hk, old k hk g, rest⟩
  · intro k hk src hh hl ha
    rcases back k hk hh with g | rfl
    · exact h.only k hk src g hl ha
    · rw [hr] at hl; cases hl
  · intro k hk src hh hl
    rcases back k hk hh with g | rfl
    · exact h.linkmax k hk src g hl
    · rw [hr] at hl; cases hl
  · intro hd k hu
    simp only at hu
    by_cases hlt : hd < s.user.length
    · rw [List.getElem?_append_left hlt] at hu
      obtain ⟨hk, g, l⟩ := h.userhooks hd k hu
      exact ⟨hk, old k hk g, l⟩
    · rw [List.getElem?_append_right (by omega)] at hu
      have : hd - s.user.length = 0 := by have := getElem?_lt' hu; simp at this; omega
      rw [this] at hu; simp at hu; subst hu
      exact ⟨r, by simp, hr⟩

/-- Detaching a hook that is not an attached link hook of a current link. -/
theorem linkInv_detach {s : St} (h : LinkInv s) (k : Nat)
    (hsafe : ∀ (src : Nat) (ev : Ev), s.evs[src]? = some ev → ev.link ≠ some k) : LinkInv (detach s k) := by
  unfold detach
  cases hk : s.hooks[k]? with
  | none => exact h
  | some r =>
    simp only
    have hlt := getElem?_lt' hk
    have hget : ∀ j : Nat, (setHook s k { r with attached := false }).hooks[j]? =
        if k = j then some { r with attached := false } else s.hooks[j]? := by
      intro j; simp only [setHook, List.getElem?_set]; simp [hlt]
    constructor
    · intro src ev k' he hl
      obtain ⟨x, g, rest⟩ := h.cur src ev k' he hl
      have hne : k ≠ k' := by intro hx; subst hx; exact hsafe src ev he hl
      exact ⟨x, by rw [hget k']; simp [hne, g], rest⟩
    · intro j x src hh hl ha
      rw [hget j] at hh
      by_cases hkj : k = j
      · simp [hkj] at hh; subst hh; simp at ha
      · simp [hkj] at hh; exact h.only j x src hh hl ha
    · intro j x src hh hl
      rw [hget j] at hh
      by_cases hkj : k = j
      · simp [hkj] at hh; subst hh; exact h.linkmax k r src hk hl
      · simp [hkj] at hh; exact h.linkmax j x src hh hl
    · intro hd j hu
      obtain ⟨x, g, l⟩ := h.userhooks hd j hu
      rw [hget j]
      by_cases hkj : k = j
      · subst hkj; rw [hk] at g; cases g; exact ⟨{ r with attached := false }, by simp, l⟩
      · exact ⟨x, by simp [hkj, g], l⟩

/-- State after `src.LinkTo(nil)`. -/
def unlinkSt (s : St) (src : Nat) (ev : Ev) : St :=
  let s1 := match ev.link with
    | some k => detach s k
    | none => s
  { s1 with evs := s1.evs.set src { ev with link := none } }

/-- The hook `LinkTo` installs on the target. -/
def linkHook (src tgt : Nat) : Hook :=
  { ev := tgt, handle := 0, link := some src, max := 0, count := 0, fired := 0, pool := none, pre := false,
    attached := true }

/-- Hooking the link hook on `tgt` for an event that currently has no link. -/
def linkSt (s : St) (src tgt : Nat) (ev : Ev) : St :=
  { s with hooks := s.hooks ++ [linkHook src tgt],
           evs := s.evs.set src { ev with link := some s.hooks.length } }

theorem detach_evs (s : St) (k : Nat) : (detach s k).evs = s.evs := by
  unfold detach; split <;> rfl

theorem detach_user (s : St) (k : Nat) : (detach s k).user = s.user := by
  unfold detach; split <;> rfl

theorem detach_len (s : St) (k : Nat) : (detach s k).hooks.length = s.hooks.length := by
  unfold detach; split <;> simp [setHook]

theorem step_unlink (s : St) (src : Nat) (ev : Ev) (he : s.evs[src]? = some ev) :
    (step s (.unlink src)).1 = unlinkSt s src ev := by
  simp only [step, he, unlinkSt]
  cases ev.link <;> rfl

theorem step_link (s : St) (src tgt : Nat) (ev : Ev) (he : s.evs[src]? = some ev) (hlt : tgt < src) :
    (step s (.link src tgt)).1 = linkSt (unlinkSt s src ev) src tgt { ev with link := none } := by
  simp only [step, he, hlt, if_true, unlinkSt, linkSt, linkHook]
  cases ev.link with
  | none => simp [List.set_set]
  | some k => simp [List.set_set, detach_evs]

theorem linkInv_unlink {s : St} (h : LinkInv s) (src : Nat) (ev : Ev) (he : s.evs[src]? = some ev) :
    LinkInv (unlinkSt s src ev) ∧ (unlinkSt s src ev).evs[src]? = some { ev with link := none } := by
  have hlt := getElem?_lt' he
  have hgetev : ∀ (l : List Ev), l = s.evs → ∀ j : Nat, (l.set src { ev with link := none })[j]? =
      if src = j then some { ev with link := none } else s.evs[j]? := by
    intro l hl j; subst hl; rw [List.getElem?_set]; simp [hlt]
  unfold unlinkSt
  cases hl : ev.link with
  | none =>
    simp only
    refine ⟨⟨?_, ?_, h.linkmax, h.userhooks⟩, by rw [hgetev _ rfl]; simp⟩
    · intro src' ev' k hev hk
      simp only at hev
      rw [hgetev _ rfl] at hev
      by_cases hs : src = src'
      · simp [hs] at hev; subst hev; simp at hk
      · simp [hs] at hev; exact h.cur src' ev' k hev hk
    · intro k hk src' hh hlk ha
      obtain ⟨ev', hev', hl'⟩ := h.only k hk src' hh hlk ha
      have hs : src ≠ src' := by
        intro hx; subst hx; rw [he] at hev'; cases hev'; rw [hl] at hl'; cases hl'
      exact ⟨ev', by simp only; rw [hgetev _ rfl]; simp [hs, hev'], hl'⟩
  | some k =>
    simp only
    obtain ⟨r, hr, hrl, hra, hrev⟩ := h.cur src ev k he hl
    have hklt := getElem?_lt' hr
    have hdet : detach s k = setHook s k { r with attached := false } := by simp [detach, hr]
    have hget : ∀ j : Nat, (detach s k).hooks[j]? =
        if k = j then some { r with attached := false } else s.hooks[j]? := by
      intro j; rw [hdet]; simp only [setHook, List.getElem?_set]; simp [hklt]
    refine ⟨⟨?_, ?_, ?_, ?_⟩, by rw [hgetev _ (detach_evs s k)]; simp⟩
    · intro src' ev' k' hev hk
      simp only at hev
      rw [hgetev _ (detach_evs s k)] at hev
      by_cases hs : src = src'
      · simp [hs] at hev; subst hev; simp at hk
      · simp [hs] at hev
        obtain ⟨x, g, a, b, c⟩ := h.cur src' ev' k' hev hk
        have hne : k ≠ k' := by
          intro hx; subst hx; rw [hr] at g; cases g; rw [hrl] at a; cases a; exact hs rfl
        exact ⟨x, by simp only; rw [hget k']; simp [hne, g], a, b, c⟩
    · intro j x src' hh hlk ha
      simp only at hh
      rw [hget j] at hh
      by_cases hkj : k = j
      · simp [hkj] at hh; subst hh; simp at ha
      · simp [hkj] at hh
        obtain ⟨ev', hev', hl'⟩ := h.only j x src' hh hlk ha
        have hs : src ≠ src' := by
          intro hx; subst hx; rw [he] at hev'; cases hev'; rw [hl] at hl'; cases hl'; exact hkj rfl
        exact ⟨ev', by simp only; rw [hgetev _ (detach_evs s k)]; simp [hs, hev'], hl'⟩
    · intro j x src' hh hlk
      simp only at hh
      rw [hget j] at hh
      by_cases hkj : k = j
      · simp [hkj] at hh; subst hh; exact h.linkmax k r src' hr hlk
      · simp [hkj] at hh; exact h.linkmax j x src' hh hlk
    · intro hd j hu
      simp only at hu
      rw [detach_user] at hu
      obtain ⟨x, g, l⟩ := h.userhooks hd j hu
      simp only
      rw [hget j]
      by_cases hkj : k = j
      · subst hkj; rw [hr] at g; cases g; rw [hrl] at l; cases l
      · exact ⟨x, by simp [hkj, g], l⟩

theorem linkInv_link {s : St} (h : LinkInv s) (src tgt : Nat) (ev : Ev) (he : s.evs[src]? = some ev)
    (hnone : ev.link = none) (hlt : tgt < src) : LinkInv (linkSt s src tgt ev) := by
  have hslt := getElem?_lt' he
  have hgetev : ∀ j : Nat, (s.evs.set src { ev with link := some s.hooks.length })[j]? =
      if src = j then some { ev with link := some s.hooks.length } else s.evs[j]? := by
    intro j; rw [List.getElem?_set]; simp [hslt]
  have old : ∀ (k : Nat) (hk : Hook), s.hooks[k]? = some hk →
      (linkSt s src tgt ev).hooks[k]? = some hk := by
    intro k hk hh; simp only [linkSt]; rw [List.getElem?_append_left (getElem?_lt' hh)]; exact hh
  have back : ∀ (k : Nat) (hk : Hook), (linkSt s src tgt ev).hooks[k]? = some hk →
      s.hooks[k]? = some hk ∨ (k = s.hooks.length ∧ hk = linkHook src tgt) := by
    intro k hk hh
    simp only [linkSt] at hh
    by_cases hklt : k < s.hooks.length
    · left; rw [List.getElem?_append_left hklt] at hh; exact hh
    · right
      rw [List.getElem?_append_right (by omega)] at hh
      have h0 : k - s.hooks.length = 0 := by have := getElem?_lt' hh; simp at this; omega
      rw [h0] at hh; simp at hh; exact ⟨by omega, hh.symm⟩
  constructor
  · intro src' ev' k hev hk
    simp only [linkSt] at hev
    rw [hgetev] at hev
    by_cases hs : src = src'
    · simp [hs] at hev; subst hev; subst hs
      simp at hk; subst hk
      exact ⟨linkHook src tgt, by simp [linkSt], rfl, rfl, hlt⟩
    · simp [hs] at hev
      obtain ⟨x, g, rest⟩ := h.cur src' ev' k hev hk
      exact ⟨x, old k x g, rest⟩
  · intro k hk src' hh hlk ha
    rcases back k hk hh with g | ⟨rfl, rfl⟩
    · obtain ⟨ev', hev', hl'⟩ := h.only k hk src' g hlk ha
      have hs : src ≠ src' := by
        intro hx; subst hx; rw [he] at hev'; cases hev'; rw [hnone] at hl'; cases hl'
      exact ⟨ev', by simp only [linkSt]; rw [hgetev]; simp [hs, hev'], hl'⟩
    · simp [linkHook] at hlk; subst hlk
      exact ⟨{ ev with link := some s.hooks.length }, by simp only [linkSt]; rw [hgetev]; simp, rfl⟩
  · intro k hk src' hh hlk
    rcases back k hk hh with g | ⟨rfl, rfl⟩
    · exact h.linkmax k hk src' g hlk
    · rfl
  · intro hd k hu
    simp only [linkSt] at hu
    obtain ⟨x, g, l⟩ := h.userhooks hd k hu
    exact ⟨x, old k x g, l⟩

theorem linkInv_step {s : St} (h : LinkInv s) (op : Op) : LinkInv (step s op).1 := by
  cases op with
  | new m p q =>
    simp only [step]
    refine ⟨?_, ?_, h.linkmax, h.userhooks⟩
    · intro src ev k he hl
      by_cases hlt : src < s.evs.length
      · rw [List.getElem?_append_left hlt] at he; exact h.cur src ev k he hl
      · rw [List.getElem?_append_right (by omega)] at he
        have h0 : src - s.evs.length = 0 := by have := getElem?_lt' he; simp at this; omega
        rw [h0] at he; simp at he; subst he; simp at hl
    · intro k hk src hh hl ha
      obtain ⟨ev, he, hel⟩ := h.only k hk src hh hl ha
      exact ⟨ev, by simp only; rw [List.getElem?_append_left (getElem?_lt' he)]; exact he, hel⟩
  | hook e m b p =>
    simp only [step]
    split
    · exact linkInv_append_user h _ rfl
    · exact h
  | unhook hd =>
    simp only [step]
    cases hu : s.user[hd]? with
    | none => exact h
    | some k =>
      simp only
      apply linkInv_detach h k
      intro src ev he hl
      obtain ⟨x, g, l⟩ := h.userhooks hd k hu
      obtain ⟨y, g', l', _⟩ := h.cur src ev k he hl
      rw [g] at g'; cases g'; rw [l] at l'; cases l'
  | trigger e a =>
    simp only [step]
    split
    · exact h.frame (frame_trig _ s e a false)
    · exact h
  | link src tgt =>
    cases he : s.evs[src]? with
    | none => simp only [step, he]; exact h
    | some ev =>
      by_cases hlt : tgt < src
      · rw [step_link s src tgt ev he hlt]
        obtain ⟨h1, h2⟩ := linkInv_unlink h src ev he
        exact linkInv_link h1 src tgt _ h2 rfl hlt
      · simp only [step, he, hlt, if_false]; exact h
  | unlink src =>
    cases he : s.evs[src]? with
    | none => simp only [step, he]; exact h
    | some ev => rw [step_unlink s src ev he]; exact (linkInv_unlink h src ev he).1
  | tcount e =>
    simp only [step]
    split <;> exact h
  | hcount hd =>
    simp only [step]
    split <;> exact h

theorem linkInv_final (ops : List Op) : LinkInv (final init ops) := by
  have : ∀ s, LinkInv s → LinkInv (final s ops) := by
    induction ops with
    | nil => intro s h; exact h
    | cons op ops ih => intro s h; simp only [final, List.foldl_cons]; exact ih _ (linkInv_step h op)
  exact this init linkInv_init

end Hive.Events
