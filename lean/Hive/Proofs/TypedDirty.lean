import Hive.Model.TypedDirty
import Hive.Proofs.TypedValue
/-! What `TypedValue` guarantees over a store whose failing write may have taken effect. -/
namespace Hive.Typed

variable {V : Type} [Inhabited V]

/-- Result, call trace and cache of `stepD` are those of `step`; the raw bytes differ only when the failed call was the
store write, and are then what the successful write leaves. -/
theorem stepD_facts (C : Codec V) (s : St V) (op : Op V) (F : Faults) :
    (stepD C s op F).out = (step C s op F).out ∧ (stepD C s op F).tr = (step C s op F).tr ∧
    (stepD C s op F).st.cv = (step C s op F).st.cv ∧ (stepD C s op F).st.ch = (step C s op F).st.ch ∧
    (writeFailed (step C s op F).tr = false → stepD C s op F = step C s op F) ∧
    (writeFailed (step C s op F).tr = true →
      (stepD C s op F).st.store = (step C s op (clearWriteFault s op F)).st.store) := by
  unfold stepD
  cases h : writeFailed (step C s op F).tr <;> simp [h]

/-- Any failed call (dirty or not): its error is returned and the cache is untouched. -/
theorem stepD_failure (C : Codec V) (s : St V) (op : Op V) (F : Faults) (e : Ev) (he : e ∈ (stepD C s op F).tr)
    (hf : e.res = .fail) :
    (stepD C s op F).out = .err (errOf e.call) ∧ (stepD C s op F).st.cv = s.cv ∧ (stepD C s op F).st.ch = s.ch := by
  obtain ⟨ho, ht, hcv, hch, _, _⟩ := stepD_facts C s op F
  rw [ht] at he
  have hfa := (failAtomic_step C s op F) e he hf
  rw [ho, hcv, hch, hfa.1]
  exact ⟨hfa.2, rfl, rfl⟩

end Hive.Typed
