import Hive.Proofs.DListRefine
/-! Per-operation refinement: every handle-taking operation and the pushes. -/
namespace Hive.DList

/-- `next` then `prev` comes back: read off the ring's pairs. -/
theorem ring_next_prev {h : Heap} {r : Nat} {xs : List Nat} {a : Nat} (hr : Ring h r xs) (ha : a ∈ r :: xs) :
    (h (h a).next).prev = a := by
  have : a ∈ (pairs (r :: xs ++ [r])).map Prod.fst := by rw [pairs_map_fst, full_dropLast]; exact ha
  obtain ⟨p, hp, hpa⟩ := List.mem_map.1 this
  obtain ⟨h1, h2⟩ := hr p hp
  rw [← hpa, h1, h2]

/-- Taking `e` out does not change the `prev` pointer of a ring node whose predecessor is not `e`. -/
theorem unlink_prev_keep {s : St} (w : WF s) {l : Bool} {e x : Nat} (he : e ∈ s.seq l)
    (hx : (s.heap x).prev ≠ e) : (unlink s.heap e x).prev = (s.heap x).prev := by
  obtain ⟨hp, _, _, _⟩ := ring_self_ne (w.ring l) (w.nodupR l) he
  rw [unlink_prev s.heap (Ne.symm hp)]
  by_cases hxn : x = (s.heap e).next
  · exfalso
    apply hx
    rw [hxn]
    exact ring_next_prev (w.ring l) (List.mem_cons_of_mem _ he)
  · rw [if_neg hxn]

def OpOk (s : St) (op : Op) : Prop := ∀ a ∈ op.args, a ∉ s.stale

/-- The three facts established for every operation. -/
def StepOk (s : St) (op : Op) : Prop :=
  WF (step s op).1 ∧ (step s op).2 = (sstep (abs s) op).2 ∧ abs (step s op).1 = (sstep (abs s) op).1

theorem setLst_same (t : SSt) (l : Bool) : setLst t l (t.lst l) = t := by
  apply SSt.ext'
  · funext k
    simp only [setLst, upd]
    split
    · next h => rw [h]
    · rfl
  · rfl
  · rfl
  · rfl

theorem insertValue_refines {s : St} (w : WF s) {l : Bool} (v : Nat) {a : Nat} (ha : a ∈ root l :: s.seq l)
    (f : Nat → List Nat → List Nat) (hf : (insAfter a s.fresh (root l :: s.seq l)).tail = f s.fresh (s.seq l)) :
    WF (handleOut (insertValue s l v a)).1 ∧ (handleOut (insertValue s l v a)).2 = (push (abs s) l v f).2
      ∧ abs (handleOut (insertValue s l v a)).1 = (push (abs s) l v f).1 := by
  refine ⟨wf_insertValue w v ha, rfl, ?_⟩
  show abs (insertValue s l v a).1 = _
  rw [abs_insertValue]
  rw [push_congr (abs s) l v (f := fun e xs => (insAfter a e (root l :: xs)).tail) (g := f) hf]

theorem pushFront_ok {s : St} (w : WF s) (l : Bool) (v : Nat) : StepOk s (.pushFront l v) := by
  unfold StepOk
  simp only [step, sstep, lazyInit_eq w]
  exact insertValue_refines w v List.mem_cons_self _ (insAfter_front _ _ _)

theorem pushBack_ok {s : St} (w : WF s) (l : Bool) (v : Nat) : StepOk s (.pushBack l v) := by
  unfold StepOk
  simp only [step, sstep, lazyInit_eq w]
  refine insertValue_refines w v (w.prev_mem List.mem_cons_self) _ ?_
  rw [(ring_root (w.ring l)).2]
  exact insAfter_last _ (w.nodupR l)

theorem insertAfter_ok {s : St} (w : WF s) (l : Bool) (v m : Nat) (hs : m ∉ s.stale) :
    StepOk s (.insertAfter l v m) := by
  unfold StepOk
  by_cases hm : m ∈ s.seq l
  · have hr : root l ≠ m := by have := root_lt l; have := (w.ids l m hm).1; omega
    simp only [step, sstep, w.owned_of_mem hm, if_true, show m ∈ (abs s).lst l from hm]
    exact insertValue_refines w v (List.mem_cons_of_mem _ hm) _ (insAfter_inner _ _ hr)
  · simp only [step, sstep, w.not_owned hm hs, show ¬ m ∈ (abs s).lst l from hm, if_false]
    exact ⟨w, by first | trivial | rfl, by first | trivial | rfl⟩

theorem insertBefore_ok {s : St} (w : WF s) (l : Bool) (v m : Nat) (hs : m ∉ s.stale) :
    StepOk s (.insertBefore l v m) := by
  unfold StepOk
  by_cases hm : m ∈ s.seq l
  · simp only [step, sstep, w.owned_of_mem hm, if_true, show m ∈ (abs s).lst l from hm]
    refine insertValue_refines w v (w.prev_mem (List.mem_cons_of_mem _ hm)) _ ?_
    obtain ⟨pre, post, hpp, _⟩ := decomp_of_mem hm
    have hr := w.ring l
    have hnd := w.nodupR l
    rw [hpp] at hr hnd ⊢
    rw [(ring_at hr).2]
    exact insAfter_pred _ hnd
  · simp only [step, sstep, w.not_owned hm hs, show ¬ m ∈ (abs s).lst l from hm, if_false]
    exact ⟨w, by first | trivial | rfl, by first | trivial | rfl⟩

theorem remove_ok {s : St} (w : WF s) (l : Bool) (e : Nat) (hs : e ∉ s.stale) : StepOk s (.remove l e) := by
  unfold StepOk
  by_cases he : e ∈ s.seq l
  · simp only [step, sstep, w.owned_of_mem he, if_true, show e ∈ (abs s).lst l from he]
    refine ⟨wf_remove w he, ?_, ?_⟩
    · simp [remove, abs]
    · apply SSt.ext'
      · rfl
      · funext j
        simp [remove, abs, setLst]
      · rfl
      · rfl
  · simp only [step, sstep, w.not_owned he hs, show ¬ e ∈ (abs s).lst l from he, if_false]
    exact ⟨w, by first | trivial | rfl, by first | trivial | rfl⟩

/-! ### moves -/

theorem abs_move {s : St} {l : Bool} {e a : Nat} (hea : e ≠ a) :
    abs (move s l e a) = setLst (abs s) l (insAfter a e (root l :: (s.seq l).erase e)).tail := by
  unfold move
  rw [if_neg hea]
  apply SSt.ext'
  · rfl
  · funext j
    simp [abs, setLst]
  · rfl
  · rfl

/-- Shape shared by the four moves once the guard has been evaluated. -/
theorem move_refines {s : St} (w : WF s) {l : Bool} {e a : Nat} (he : e ∈ s.seq l)
    (ha : a ∈ root l :: s.seq l) (hea : e ≠ a) {ys : List Nat}
    (hy : (insAfter a e (root l :: (s.seq l).erase e)).tail = ys) :
    WF (move s l e a) ∧ abs (move s l e a) = setLst (abs s) l ys := by
  refine ⟨wf_move w he ha, ?_⟩
  rw [abs_move hea, hy]

theorem erase_nodupR {s : St} (w : WF s) (l : Bool) (e : Nat) : (root l :: (s.seq l).erase e).Nodup := by
  have := w.nodupR l
  rw [List.nodup_cons] at this ⊢
  exact ⟨fun m => this.1 (List.mem_of_mem_erase m), this.2.erase e⟩

theorem moveToFront_ok {s : St} (w : WF s) (l : Bool) (e : Nat) (hs : e ∉ s.stale) :
    StepOk s (.moveToFront l e) := by
  unfold StepOk
  by_cases he : e ∈ s.seq l
  · have her : e ≠ root l := by have := root_lt l; have := (w.ids l e he).1; omega
    simp only [step, sstep, w.owned_of_mem he, Bool.not_true, Bool.false_or, show e ∈ (abs s).lst l from he, if_true]
    by_cases hf : (s.heap (root l)).next = e
    · simp only [hf, beq_self_eq_true, if_true]
      refine ⟨w, by first | trivial | rfl, ?_⟩
      rw [(ring_root (w.ring l)).1] at hf
      have : e :: ((abs s).lst l).erase e = (abs s).lst l := by
        show e :: (s.seq l).erase e = s.seq l
        cases hx : s.seq l with
        | nil => rw [hx] at he; cases he
        | cons b T =>
          rw [hx] at hf
          simp only [List.head?_cons, Option.getD_some] at hf
          subst hf; simp
      rw [this, setLst_same]
    · have hb : ((s.heap (root l)).next == e) = false := by simpa using hf
      simp only [hb, Bool.false_eq_true, if_false]
      obtain ⟨h1, h2⟩ := move_refines w he List.mem_cons_self her (insAfter_front _ _ _)
      exact ⟨h1, by first | trivial | rfl, h2⟩
  · simp only [step, sstep, w.not_owned he hs, Bool.not_false, Bool.true_or, if_true,
      show ¬ e ∈ (abs s).lst l from he, if_false]
    exact ⟨w, by first | trivial | rfl, by first | trivial | rfl⟩

theorem moveToBack_ok {s : St} (w : WF s) (l : Bool) (e : Nat) (hs : e ∉ s.stale) :
    StepOk s (.moveToBack l e) := by
  unfold StepOk
  by_cases he : e ∈ s.seq l
  · have her : e ≠ root l := by have := root_lt l; have := (w.ids l e he).1; omega
    simp only [step, sstep, w.owned_of_mem he, Bool.not_true, Bool.false_or, show e ∈ (abs s).lst l from he, if_true]
    by_cases hf : (s.heap (root l)).prev = e
    · simp only [hf, beq_self_eq_true, if_true]
      refine ⟨w, by first | trivial | rfl, ?_⟩
      rw [(ring_root (w.ring l)).2] at hf
      have : ((abs s).lst l).erase e ++ [e] = (abs s).lst l := by
        show (s.seq l).erase e ++ [e] = s.seq l
        cases hx : (s.seq l).getLast? with
        | none => rw [hx] at hf; exact absurd hf.symm her
        | some b =>
          rw [hx] at hf
          simp only [Option.getD_some] at hf
          subst hf
          obtain ⟨Q, hQ⟩ := eq_snoc_of_getLast? hx
          have hnd := w.nodup l
          rw [hQ] at hnd ⊢
          exact erase_last_append hnd
      rw [this, setLst_same]
    · have hb : ((s.heap (root l)).prev == e) = false := by simpa using hf
      simp only [hb, Bool.false_eq_true, if_false]
      have hea : e ≠ (s.heap (root l)).prev := fun k => hf k.symm
      have hy : (insAfter (s.heap (root l)).prev e (root l :: (s.seq l).erase e)).tail = (s.seq l).erase e ++ [e] := by
        have h1 := ring_unlink (w.ring l) (w.nodupR l) he
        have := (ring_root h1).2
        rw [unlink_prev_keep w he hf] at this
        rw [this]
        exact insAfter_last _ (erase_nodupR w l e)
      obtain ⟨h1, h2⟩ := move_refines w he (w.prev_mem List.mem_cons_self) hea hy
      exact ⟨h1, by first | trivial | rfl, h2⟩
  · simp only [step, sstep, w.not_owned he hs, Bool.not_false, Bool.true_or, if_true,
      show ¬ e ∈ (abs s).lst l from he, if_false]
    exact ⟨w, by first | trivial | rfl, by first | trivial | rfl⟩

theorem moveAfter_ok {s : St} (w : WF s) (l : Bool) (e m : Nat) (hse : e ∉ s.stale) (hsm : m ∉ s.stale) :
    StepOk s (.moveAfter l e m) := by
  unfold StepOk
  by_cases he : e ∈ s.seq l
  · by_cases hm : m ∈ s.seq l
    · by_cases hem : e = m
      · subst hem
        simp only [step, sstep, w.owned_of_mem he, Bool.not_true, Bool.false_or, beq_self_eq_true, Bool.true_or,
          if_true, ne_eq, not_true_eq_false, and_false, if_false]
        exact ⟨w, by first | trivial | rfl, by first | trivial | rfl⟩
      · have hb : (e == m) = false := by simpa using hem
        have hr : root l ≠ m := by have := root_lt l; have := (w.ids l m hm).1; omega
        simp only [step, sstep, w.owned_of_mem he, w.owned_of_mem hm, hb, Bool.not_true, Bool.or_self,
          Bool.false_eq_true, if_false, show e ∈ (abs s).lst l from he, show m ∈ (abs s).lst l from hm, ne_eq, hem,
          not_false_eq_true, and_self, if_true]
        obtain ⟨h1, h2⟩ := move_refines w he (List.mem_cons_of_mem _ hm) hem (insAfter_inner e _ hr)
        exact ⟨h1, by first | trivial | rfl, h2⟩
    · simp only [step, sstep, w.not_owned hm hsm, Bool.not_false, Bool.or_true, if_true,
        show ¬ m ∈ (abs s).lst l from hm, false_and, and_false, if_false]
      exact ⟨w, by first | trivial | rfl, by first | trivial | rfl⟩
  · simp only [step, sstep, w.not_owned he hse, Bool.not_false, Bool.true_or, if_true,
      show ¬ e ∈ (abs s).lst l from he, false_and, if_false]
    exact ⟨w, by first | trivial | rfl, by first | trivial | rfl⟩

theorem moveBefore_ok {s : St} (w : WF s) (l : Bool) (e m : Nat) (hse : e ∉ s.stale) (hsm : m ∉ s.stale) :
    StepOk s (.moveBefore l e m) := by
  unfold StepOk
  by_cases he : e ∈ s.seq l
  · by_cases hm : m ∈ s.seq l
    · by_cases hem : e = m
      · subst hem
        simp only [step, sstep, w.owned_of_mem he, Bool.not_true, Bool.false_or, beq_self_eq_true, Bool.true_or,
          if_true, ne_eq, not_true_eq_false, and_false, if_false]
        exact ⟨w, by first | trivial | rfl, by first | trivial | rfl⟩
      · have hb : (e == m) = false := by simpa using hem
        have her : e ≠ root l := by have := root_lt l; have := (w.ids l e he).1; omega
        simp only [step, sstep, w.owned_of_mem he, w.owned_of_mem hm, hb, Bool.not_true, Bool.or_self,
          Bool.false_eq_true, if_false, show e ∈ (abs s).lst l from he, show m ∈ (abs s).lst l from hm, ne_eq, hem,
          not_false_eq_true, and_self, if_true]
        by_cases hp : (s.heap m).prev = e
        · -- `e` already sits right before `m`: `move` returns at `e == at`
          have : move s l e (s.heap m).prev = s := by unfold move; rw [if_pos hp.symm]
          rw [this]
          refine ⟨w, by first | trivial | rfl, ?_⟩
          obtain ⟨pre, post, hpp, _⟩ := decomp_of_mem hm
          have hr := w.ring l
          have hnd := w.nodup l
          rw [hpp] at hr hnd
          rw [(ring_at hr).2] at hp
          have : insBefore m e (((abs s).lst l).erase e) = (abs s).lst l := by
            show insBefore m e ((s.seq l).erase e) = s.seq l
            cases hx : pre.getLast? with
            | none => rw [hx] at hp; exact absurd hp.symm her
            | some b =>
              rw [hx] at hp
              simp only [Option.getD_some] at hp
              subst hp
              obtain ⟨P, hP⟩ := eq_snoc_of_getLast? hx
              have hsplit : s.seq l = P ++ b :: m :: post := by rw [hpp, hP]; simp
              have hnd' : (P ++ b :: m :: post).Nodup := by rw [← hsplit]; exact w.nodup l
              rw [hsplit]
              exact insBefore_erase_self hnd'
          rw [this, setLst_same]
        · have hea : e ≠ (s.heap m).prev := fun k => hp k.symm
          have hy : (insAfter (s.heap m).prev e (root l :: (s.seq l).erase e)).tail
              = insBefore m e ((s.seq l).erase e) := by
            have h1 := ring_unlink (w.ring l) (w.nodupR l) he
            have hm1 : m ∈ (s.seq l).erase e := (w.nodup l).mem_erase_iff.2 ⟨fun k => hem k.symm, hm⟩
            obtain ⟨pre, post, hpp, _⟩ := decomp_of_mem hm1
            have hnd := erase_nodupR w l e
            rw [hpp] at h1 hnd ⊢
            have := (ring_at h1).2
            rw [unlink_prev_keep w he hp] at this
            rw [this]
            exact insAfter_pred _ hnd
          obtain ⟨h1, h2⟩ := move_refines w he (w.prev_mem (List.mem_cons_of_mem _ hm)) hea hy
          exact ⟨h1, by first | trivial | rfl, h2⟩
    · simp only [step, sstep, w.not_owned hm hsm, Bool.not_false, Bool.or_true, if_true,
        show ¬ m ∈ (abs s).lst l from hm, false_and, and_false, if_false]
      exact ⟨w, by first | trivial | rfl, by first | trivial | rfl⟩
  · simp only [step, sstep, w.not_owned he hse, Bool.not_false, Bool.true_or, if_true,
      show ¬ e ∈ (abs s).lst l from he, false_and, if_false]
    exact ⟨w, by first | trivial | rfl, by first | trivial | rfl⟩

theorem init_ok {s : St} (w : WF s) (l : Bool) : StepOk s (.init l) := by
  refine ⟨wf_initL w l, rfl, ?_⟩
  apply SSt.ext'
  · rfl
  · funext j
    simp [step, sstep, abs, initL]
  · rfl
  · rfl

end Hive.DList
