import Hive.Model.C12bBase
/-! Lemmas about the association-list model of a Go map. -/
namespace Hive.C12b.AMap
variable {β : Type}

theorem get_set_self (m : AMap β) (k : Nat) (v : β) : (m.set k v).get k = some v := by
  induction m with
  | nil => simp [set, get]
  | cons p m ih =>
    obtain ⟨k', v'⟩ := p
    by_cases h : k' = k <;> simp [set, get, h, ih]

theorem get_set_other (m : AMap β) {k k' : Nat} (v : β) (h : k' ≠ k) : (m.set k v).get k' = m.get k' := by
  induction m with
  | nil => simp [set, get]; intro h'; exact absurd h'.symm h
  | cons p m ih =>
    obtain ⟨k1, v1⟩ := p
    by_cases h1 : k1 = k
    · subst h1
      have : ¬ k1 = k' := fun e => h e.symm
      simp [set, get, this]
    · by_cases h2 : k1 = k'
      · subst h2; simp [set, get, h1]
      · simp [set, get, h1, h2, ih]

theorem get_set (m : AMap β) (k k' : Nat) (v : β) :
    (m.set k v).get k' = if k' = k then some v else m.get k' := by
  by_cases h : k' = k
  · subst h; simp [get_set_self]
  · simp [h, get_set_other m v h]

theorem get_del_self (m : AMap β) (k : Nat) : (m.del k).get k = none := by
  induction m with
  | nil => simp [del, get]
  | cons p m ih =>
    obtain ⟨k', v'⟩ := p
    by_cases h : k' = k <;> simp [del, get, h, ih]

theorem get_del_other (m : AMap β) {k k' : Nat} (h : k' ≠ k) : (m.del k).get k' = m.get k' := by
  induction m with
  | nil => simp [del, get]
  | cons p m ih =>
    obtain ⟨k1, v1⟩ := p
    by_cases h1 : k1 = k
    · subst h1
      have : ¬ k1 = k' := fun e => h e.symm
      simp [del, get, this, ih]
    · by_cases h2 : k1 = k'
      · subst h2; simp [del, get, h1]
      · simp [del, get, h1, h2, ih]

theorem get_del (m : AMap β) (k k' : Nat) :
    (m.del k).get k' = if k' = k then none else m.get k' := by
  by_cases h : k' = k
  · subst h; simp [get_del_self]
  · simp [h, get_del_other m h]

theorem get_eq_none_iff (m : AMap β) (k : Nat) : m.get k = none ↔ k ∉ m.keys := by
  induction m with
  | nil => simp [get, keys]
  | cons p m ih =>
    obtain ⟨k', v'⟩ := p
    by_cases h : k' = k
    · simp [get, keys, h]
    · have h' : ¬ k = k' := fun e => h e.symm
      simp only [get, h, if_false, keys, List.map_cons, List.mem_cons, h', false_or]
      exact ih

theorem get_isSome_iff (m : AMap β) (k : Nat) : (m.get k).isSome = true ↔ k ∈ m.keys := by
  cases h : m.get k with
  | none => simp [(get_eq_none_iff m k).1 h]
  | some v =>
    simp
    apply Classical.byContradiction
    intro hn
    rw [(get_eq_none_iff m k).2 hn] at h
    cases h

theorem mem_keys_set (m : AMap β) (k x : Nat) (v : β) : x ∈ (m.set k v).keys ↔ x = k ∨ x ∈ m.keys := by
  induction m with
  | nil => simp [set, keys]
  | cons p m ih =>
    obtain ⟨k', v'⟩ := p
    by_cases h : k' = k
    · subst h; simp [set, keys]
    · simp only [set, h, if_false, keys, List.map_cons, List.mem_cons] at ih ⊢
      rw [ih]
      constructor
      · rintro (h1 | h1 | h1) <;> simp [h1]
      · rintro (h1 | h1 | h1) <;> simp [h1]

theorem mem_keys_del (m : AMap β) (k x : Nat) : x ∈ (m.del k).keys ↔ x ≠ k ∧ x ∈ m.keys := by
  induction m with
  | nil => simp [del, keys]
  | cons p m ih =>
    obtain ⟨k', v'⟩ := p
    by_cases h : k' = k
    · subst h
      simp only [del, if_true, keys, List.map_cons, List.mem_cons] at ih ⊢
      rw [ih]
      constructor
      · rintro ⟨h1, h2⟩; exact ⟨h1, Or.inr h2⟩
      · rintro ⟨h1, h2 | h2⟩
        · exact absurd h2 h1
        · exact ⟨h1, h2⟩
    · simp only [del, h, if_false, keys, List.map_cons, List.mem_cons] at ih ⊢
      rw [ih]
      constructor
      · rintro (h1 | ⟨h1, h2⟩)
        · subst h1; exact ⟨h, Or.inl rfl⟩
        · exact ⟨h1, Or.inr h2⟩
      · rintro ⟨h1, h2 | h2⟩
        · exact Or.inl h2
        · exact Or.inr ⟨h1, h2⟩

theorem nodup_set (m : AMap β) (k : Nat) (v : β) (h : m.keys.Nodup) : (m.set k v).keys.Nodup := by
  induction m with
  | nil => simp [set, keys]
  | cons p m ih =>
    obtain ⟨k', v'⟩ := p
    simp only [keys, List.map_cons, List.nodup_cons] at h
    by_cases hk : k' = k
    · subst hk; simp only [set, if_true, keys, List.map_cons, List.nodup_cons]; exact h
    · simp only [set, hk, if_false, keys, List.map_cons, List.nodup_cons]
      refine ⟨?_, ih h.2⟩
      intro hm
      have := (mem_keys_set m k k' v).1 hm
      rcases this with h1 | h1
      · exact hk h1
      · exact h.1 h1

theorem nodup_del (m : AMap β) (k : Nat) (h : m.keys.Nodup) : (m.del k).keys.Nodup := by
  induction m with
  | nil => simp [del, keys]
  | cons p m ih =>
    obtain ⟨k', v'⟩ := p
    simp only [keys, List.map_cons, List.nodup_cons] at h
    by_cases hk : k' = k
    · simp only [del, hk, if_true]; exact ih h.2
    · simp only [del, hk, if_false, keys, List.map_cons, List.nodup_cons]
      refine ⟨?_, ih h.2⟩
      intro hm
      exact h.1 ((mem_keys_del m k k').1 hm).2

/-- With duplicate-free keys, `get` finds exactly the bindings that are members. -/
theorem get_eq_some_of_mem (m : AMap β) (k : Nat) (v : β) (hn : m.keys.Nodup) (h : (k, v) ∈ m) :
    m.get k = some v := by
  induction m with
  | nil => cases h
  | cons p m ih =>
    obtain ⟨k', v'⟩ := p
    simp only [keys, List.map_cons, List.nodup_cons] at hn
    rcases List.mem_cons.1 h with h1 | h1
    · cases h1; simp [get]
    · have hk : k ∈ keys m := List.mem_map.2 ⟨(k, v), h1, rfl⟩
      have : ¬ k' = k := fun e => hn.1 (e ▸ hk)
      simp [get, this, ih hn.2 h1]

theorem mem_of_get_eq_some (m : AMap β) (k : Nat) (v : β) (h : m.get k = some v) : (k, v) ∈ m := by
  induction m with
  | nil => simp [get] at h
  | cons p m ih =>
    obtain ⟨k', v'⟩ := p
    by_cases hk : k' = k
    · simp [get, hk] at h; subst h; subst hk; simp
    · simp [get, hk] at h; exact List.mem_cons_of_mem _ (ih h)

end Hive.C12b.AMap
