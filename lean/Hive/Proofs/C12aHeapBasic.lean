import Hive.Model.C12aHeap
/-!
# Basic facts about the C12 binary-heap model (`Hive.Model.C12aHeap`)

Field/frame lemmas for `swap`, `up`, `down`, `pushLast`, `popLast`, `alloc` (which positions of `arr`
and which entries of the index table `idx` an operation touches), and the order facts about `lessK`
that the heap-order proofs need.  Everything here is unconditional or only needs "index in range".
-/
namespace Hive.C12a.Heap

/-! ## the comparison -/

/-- `Less` is irreflexive. -/
theorem lessK_irrefl (d : Cmp) (a : Int) : lessK d a a = false := by
  have := d.anti a a
  simp only [lessK, decide_eq_false_iff_not]; omega

/-- `Less` is asymmetric. -/
theorem lessK_asymm (d : Cmp) (a b : Int) (h : lessK d a b = true) : lessK d b a = false := by
  have := d.anti a b
  simp only [lessK, decide_eq_true_eq, decide_eq_false_iff_not] at h ⊢; omega

/-- "not less" (`≥` in the queue's order) is transitive. -/
theorem lessK_trans_false (d : Cmp) (a b c : Int) (h1 : lessK d a b = false)
    (h2 : lessK d b c = false) : lessK d a c = false := by
  have e1 := d.anti a b
  have e2 := d.anti b c
  have e3 := d.anti a c
  have e4 := d.anti c a
  have t := d.trans c b a
  simp only [lessK, decide_eq_false_iff_not] at h1 h2 ⊢
  have hcb : d.f c b ≤ 0 := by omega
  have hba : d.f b a ≤ 0 := by omega
  have := t hcb hba
  omega

/-- "not less" is total. -/
theorem lessK_total (d : Cmp) (a b : Int) : lessK d a b = false ∨ lessK d b a = false := by
  have := d.anti a b
  simp only [lessK, decide_eq_false_iff_not]; omega

theorem leK_iff (d : Cmp) (a b : Int) : leK d a b = true ↔ lessK d b a = false := by
  have := d.anti b a
  simp only [leK, lessK, decide_eq_true_eq, decide_eq_false_iff_not]; omega

theorem leK_false_iff (d : Cmp) (a b : Int) : leK d a b = false ↔ lessK d b a = true := by
  have := d.anti b a
  simp only [leK, lessK, decide_eq_true_eq, decide_eq_false_iff_not]; omega

/-! ## `at` -/

theorem at_lt (s : St) (i : Nat) (h : i < s.arr.length) : s.at i = s.arr[i] := by
  simp [St.at, List.getD_eq_getElem?_getD, h]

theorem at_ge (s : St) (i : Nat) (h : s.arr.length ≤ i) : s.at i = default := by
  simp [St.at, List.getD_eq_getElem?_getD, h]

theorem at_mem (s : St) (i : Nat) (h : i < s.arr.length) : s.at i ∈ s.arr := by
  rw [at_lt s i h]; exact List.getElem_mem h

theorem mem_iff_at (s : St) (e : Elem) : e ∈ s.arr ↔ ∃ i, i < s.arr.length ∧ s.at i = e := by
  constructor
  · intro h
    obtain ⟨i, hi, rfl⟩ := List.getElem_of_mem h
    exact ⟨i, hi, at_lt s i hi⟩
  · rintro ⟨i, hi, rfl⟩; exact at_mem s i hi

/-! ## `swap` -/

@[simp] theorem swap_cmp (s : St) (i j) : (swap s i j).cmp = s.cmp := rfl
@[simp] theorem swap_length (s : St) (i j) : (swap s i j).arr.length = s.arr.length := by
  simp [swap]
@[simp] theorem swap_idx_length (s : St) (i j) : (swap s i j).idx.length = s.idx.length := by
  simp [swap]

/-- The array after `Swap(i, j)` (both in range). -/
theorem at_swap (s : St) (i j k : Nat) (hi : i < s.arr.length) (hj : j < s.arr.length) :
    (swap s i j).at k = if k = j then s.at i else if k = i then s.at j else s.at k := by
  simp only [swap, St.at, List.getD_eq_getElem?_getD, List.getElem?_set, List.length_set]
  grind

/-- The index table after `Swap(i, j)`. -/
theorem idx_swap (s : St) (i j h : Nat) (d : Int) :
    (swap s i j).idx.getD h d =
      if h = (s.at i).id ∧ h < s.idx.length then (j : Int)
      else if h = (s.at j).id ∧ h < s.idx.length then (i : Int) else s.idx.getD h d := by
  simp only [swap, List.getD_eq_getElem?_getD, List.getElem?_set, List.length_set]
  grind

/-! ## `up` -/

@[simp] theorem up_cmp (s : St) (j) : (up s j).cmp = s.cmp := by
  fun_induction up s j <;> simp_all
@[simp] theorem up_length (s : St) (j) : (up s j).arr.length = s.arr.length := by
  fun_induction up s j <;> simp_all
@[simp] theorem up_idx_length (s : St) (j) : (up s j).idx.length = s.idx.length := by
  fun_induction up s j <;> simp_all

/-- `up` from `j` does not touch positions above `j`. -/
theorem up_at_gt (s : St) (j k : Nat) (hj : j < s.arr.length) (hk : j < k) :
    (up s j).at k = s.at k := by
  fun_induction up s j with
  | case1 s => rfl
  | case2 s j h0 hl ih =>
    rw [ih (by simp; omega) (by omega), at_swap s _ _ _ (by omega) hj]
    grind
  | case3 => rfl

/-! ## `down` -/

@[simp] theorem down_cmp (s : St) (i n) : (down s i n).1.cmp = s.cmp := by
  fun_induction down s i n <;> simp_all
@[simp] theorem down_length (s : St) (i n) : (down s i n).1.arr.length = s.arr.length := by
  fun_induction down s i n <;> simp_all
@[simp] theorem down_idx_length (s : St) (i n) : (down s i n).1.idx.length = s.idx.length := by
  fun_induction down s i n <;> simp_all

/-- The position `down` reports is never above the start. -/
theorem down_ge (s : St) (i n) : i ≤ (down s i n).2 := by
  fun_induction down s i n with
  | case1 s i h hl ih => have := child_gt s i n; omega
  | case2 => simp
  | case3 => simp

/-- `down … n` does not touch positions `≥ n`. -/
theorem down_at_ge (s : St) (i n k : Nat) (hn : n ≤ s.arr.length) (hk : n ≤ k) :
    (down s i n).1.at k = s.at k := by
  fun_induction down s i n with
  | case1 s i h hl ih =>
    have := child_lt s i n h
    rw [ih (by simpa using hn), at_swap s _ _ _ (by omega) (by omega)]
    grind
  | case2 => rfl
  | case3 => rfl

/-- If `down` reports "did not move", the state is unchanged. -/
theorem down_eq_of_not_moved (s : St) (i n) (h : (down s i n).2 = i) : (down s i n).1 = s := by
  fun_induction down s i n with
  | case1 s i h' hl ih =>
    have := child_gt s i n
    have := down_ge (swap s i (child s i n)) (child s i n) n
    omega
  | case2 => rfl
  | case3 => rfl

/-! ## `pushLast`, `alloc`, `popLast` -/

@[simp] theorem pushLast_cmp (s : St) (e) : (pushLast s e).cmp = s.cmp := rfl
@[simp] theorem pushLast_arr (s : St) (e) : (pushLast s e).arr = s.arr ++ [e] := rfl
@[simp] theorem pushLast_idx_length (s : St) (e) : (pushLast s e).idx.length = s.idx.length := by
  simp [pushLast]

theorem at_pushLast (s : St) (e k) :
    (pushLast s e).at k =
      if k < s.arr.length then s.at k else if k = s.arr.length then e else default := by
  simp only [pushLast, St.at, List.getD_eq_getElem?_getD, List.getElem?_append]
  grind

theorem idx_pushLast (s : St) (e h) (d : Int) :
    (pushLast s e).idx.getD h d =
      if h = e.id ∧ h < s.idx.length then (s.arr.length : Int) else s.idx.getD h d := by
  simp only [pushLast, List.getD_eq_getElem?_getD, List.getElem?_set]
  grind

@[simp] theorem alloc_cmp (s : St) (p v) : (alloc s p v).1.cmp = s.cmp := rfl
@[simp] theorem alloc_arr (s : St) (p v) : (alloc s p v).1.arr = s.arr := rfl
@[simp] theorem alloc_at (s : St) (p v k) : (alloc s p v).1.at k = s.at k := rfl
@[simp] theorem alloc_idx_length (s : St) (p v) :
    (alloc s p v).1.idx.length = s.idx.length + 1 := by
  simp [alloc]
@[simp] theorem alloc_elem (s : St) (p v) : (alloc s p v).2 = ⟨s.idx.length, p, v⟩ := rfl

theorem idx_alloc (s : St) (p v h) (d : Int) :
    (alloc s p v).1.idx.getD h d =
      if h < s.idx.length then s.idx.getD h d else if h = s.idx.length then 0 else d := by
  simp only [alloc, List.getD_eq_getElem?_getD, List.getElem?_append]
  grind

@[simp] theorem popLast_cmp (s : St) : (popLast s).1.cmp = s.cmp := rfl
@[simp] theorem popLast_arr (s : St) : (popLast s).1.arr = s.arr.take (s.arr.length - 1) := rfl
@[simp] theorem popLast_idx_length (s : St) : (popLast s).1.idx.length = s.idx.length := by
  simp [popLast]
@[simp] theorem popLast_elem (s : St) : (popLast s).2 = s.at (s.arr.length - 1) := rfl

theorem popLast_length (s : St) : (popLast s).1.arr.length = s.arr.length - 1 := by
  simp

theorem at_popLast (s : St) (k) (hk : k < s.arr.length - 1) : (popLast s).1.at k = s.at k := by
  simp only [popLast, St.at, List.getD_eq_getElem?_getD, List.getElem?_take]
  grind

theorem idx_popLast (s : St) (h) (d : Int) :
    (popLast s).1.idx.getD h d =
      if h = (s.at (s.arr.length - 1)).id ∧ h < s.idx.length then -1 else s.idx.getD h d := by
  simp only [popLast, List.getD_eq_getElem?_getD, List.getElem?_set]
  grind

end Hive.C12a.Heap
