import Hive.Model.Stream
/-!
Lemmas about the stream model: `io.ReadFull` delivers the next `n` bytes under every chunking, the
layout of what the writers write, and the per-call round trip.
-/
namespace Hive.Stream
open Hive.Dec

/-! ### readFull under any chunking -/

theorem readFullAux_ok (cs : List Nat) (n : Nat) (rest racc : Bytes) (h : n ≤ rest.length) :
    ∃ cs', readFullAux cs n rest racc = (some (racc.reverse ++ rest.take n), ⟨rest.drop n, cs'⟩) := by
  induction cs generalizing n rest racc with
  | nil =>
    cases n with
    | zero => exact ⟨[], by simp [readFullAux]⟩
    | succ n => exact ⟨[], by simp [readFullAux, h]⟩
  | cons c cs ih =>
    cases n with
    | zero => exact ⟨c :: cs, by simp [readFullAux]⟩
    | succ n =>
      have hne : rest.isEmpty = false := by
        cases rest with
        | nil => simp at h
        | cons _ _ => rfl
      have hl : (rest.take (min (n + 1) c)).length = min (min (n + 1) c) rest.length := by simp
      obtain ⟨cs', hcs⟩ := ih (n + 1 - min (min (n + 1) c) rest.length)
        (rest.drop (min (min (n + 1) c) rest.length))
        ((rest.take (min (n + 1) c)).reverse ++ racc)
        (by simp only [List.length_drop]; omega)
      refine ⟨cs', ?_⟩
      simp only [readFullAux, hne, Bool.false_eq_true, if_false, hl]
      rw [hcs]
      have e0 : rest.take (min (n + 1) c) = rest.take (min (min (n + 1) c) rest.length) := by
        rw [List.take_eq_take_iff]; omega
      have e1 : rest.take (min (min (n + 1) c) rest.length) ++
          (rest.drop (min (min (n + 1) c) rest.length)).take (n + 1 - min (min (n + 1) c) rest.length)
          = rest.take (n + 1) := by
        rw [← List.take_add]; congr 1; omega
      have e2 : (rest.drop (min (min (n + 1) c) rest.length)).drop (n + 1 - min (min (n + 1) c) rest.length)
          = rest.drop (n + 1) := by
        rw [List.drop_drop]; congr 1; omega
      rw [List.reverse_append, List.reverse_reverse, List.append_assoc, e0, e1, e2]

theorem readFull_ok (n : Nat) (rd : Rd) (h : n ≤ rd.rest.length) :
    ∃ cs', readFull n rd = (some (rd.rest.take n), ⟨rd.rest.drop n, cs'⟩) := by
  obtain ⟨cs', h'⟩ := readFullAux_ok rd.chunks n rd.rest [] h
  exact ⟨cs', by simpa [readFull] using h'⟩

/-- reading exactly an encoded prefix `e` of the remaining data, whatever follows and however the reader chunks -/
theorem readFull_append (e tail : Bytes) (cs : List Nat) :
    ∃ cs', readFull e.length ⟨e ++ tail, cs⟩ = (some e, ⟨tail, cs'⟩) := by
  obtain ⟨cs', h⟩ := readFull_ok e.length ⟨e ++ tail, cs⟩ (by simp)
  exact ⟨cs', by simpa using h⟩

/-- `readFull` never hands out more than the reader holds, and what is left is a suffix -/
theorem readFullAux_suffix (cs : List Nat) (n : Nat) (rest racc : Bytes) :
    ∃ k, (readFullAux cs n rest racc).2.rest = rest.drop k := by
  induction cs generalizing n rest racc with
  | nil =>
    cases n with
    | zero => exact ⟨0, by simp [readFullAux]⟩
    | succ n =>
      by_cases h : n + 1 ≤ rest.length
      · exact ⟨n + 1, by simp [readFullAux, h]⟩
      · exact ⟨rest.length, by simp [readFullAux, h]⟩
  | cons c cs ih =>
    cases n with
    | zero => exact ⟨0, by simp [readFullAux]⟩
    | succ n =>
      cases hne : rest.isEmpty with
      | true => exact ⟨rest.length, by simp [readFullAux, hne]⟩
      | false =>
        obtain ⟨k, hk⟩ := ih (n + 1 - (rest.take (min (n + 1) c)).length)
          (rest.drop (rest.take (min (n + 1) c)).length) ((rest.take (min (n + 1) c)).reverse ++ racc)
        refine ⟨(rest.take (min (n + 1) c)).length + k, ?_⟩
        simp only [readFullAux, hne, Bool.false_eq_true, if_false]
        rw [hk, List.drop_drop]

theorem readFull_suffix (n : Nat) (rd : Rd) : ∃ k, (readFull n rd).2.rest = rd.rest.drop k :=
  readFullAux_suffix rd.chunks n rd.rest []

/-! ### prefixes -/

theorem fitsLP_lt (lp : LP) (n : Nat) (h : fitsLP lp n = true) : n < 256 ^ lp.width := by
  cases lp with
  | u8 => simp [fitsLP, LP.width] at h ⊢; omega
  | u16 => simp [fitsLP, LP.width] at h ⊢; omega
  | u32 => simp [fitsLP, LP.width] at h ⊢; omega
  | u64 =>
    have hm : maxInt < 256 ^ 8 := by decide
    simp only [fitsLP, decide_eq_true_eq] at h
    exact Nat.lt_of_le_of_lt h hm

theorem readFixedSize_ok (lp : LP) (n : Nat) (h : fitsLP lp n = true) (tail : Bytes) (cs : List Nat) :
    ∃ cs', readFixedSize lp ⟨natLE lp.width n ++ tail, cs⟩ = (some n, ⟨tail, cs'⟩, {}) := by
  obtain ⟨cs', hr⟩ := readFull_append (natLE lp.width n) tail cs
  rw [natLE_length] at hr
  refine ⟨cs', ?_⟩
  have hv := leNat_natLE lp.width n (fitsLP_lt lp n h)
  have hmax : ¬ (lp = .u64 ∧ maxInt < n) := by
    intro ⟨h1, h2⟩; subst h1; simp [fitsLP] at h; omega
  simp only [readFixedSize, hr, hv]
  simp [hmax]

/-! ### ReadBytes -/

theorem growAux_ok (f n : Nat) (acc rest : Bytes) (cs : List Nat) (a : Nat)
    (h1 : 1 ≤ acc.length) (h2 : n ≤ f + acc.length) (h3 : n - acc.length ≤ rest.length) :
    ∃ cs' a', growAux f n acc ⟨rest, cs⟩ a
      = (some (acc ++ rest.take (n - acc.length)), ⟨rest.drop (n - acc.length), cs'⟩, a') := by
  induction f generalizing acc rest cs a with
  | zero =>
    have : n - acc.length = 0 := by omega
    exact ⟨cs, a, by simp [growAux, this]⟩
  | succ f ih =>
    by_cases hlt : acc.length < n
    · obtain ⟨cs1, hr⟩ := readFull_ok (min (n - acc.length) acc.length) ⟨rest, cs⟩ (by simp; omega)
      simp only at hr
      obtain ⟨cs', a', hg⟩ := ih (acc ++ rest.take (min (n - acc.length) acc.length))
        (rest.drop (min (n - acc.length) acc.length)) cs1 (a + (acc.length + min (n - acc.length) acc.length))
        (by simp; omega) (by simp; omega) (by simp; omega)
      refine ⟨cs', a', ?_⟩
      simp only [growAux, hlt, if_true, hr]
      rw [hg]
      have hl : (acc ++ rest.take (min (n - acc.length) acc.length)).length
          = acc.length + min (n - acc.length) acc.length := by
        simp; omega
      rw [hl, List.append_assoc, ← List.take_add, List.drop_drop]
      have e : min (n - acc.length) acc.length + (n - (acc.length + min (n - acc.length) acc.length))
          = n - acc.length := by omega
      rw [e]
    · have : n - acc.length = 0 := by omega
      exact ⟨cs, a, by simp [growAux, hlt, this]⟩

theorem readBytes_append (e tail : Bytes) (cs : List Nat) :
    ∃ cs' a, readBytes (e.length : Int) ⟨e ++ tail, cs⟩ = (some e, ⟨tail, cs'⟩, a) := by
  have hnn : ¬ ((e.length : Int) < 0) := by omega
  by_cases h0 : e.length = 0
  · have he : e = [] := List.eq_nil_of_length_eq_zero h0
    subst he
    exact ⟨cs, 0, by simp [readBytes, readFull, readFullAux, growAux]⟩
  · obtain ⟨cs1, hr⟩ := readFull_ok (min e.length prealloc) ⟨e ++ tail, cs⟩ (by simp; omega)
    simp only at hr
    obtain ⟨cs', a', hg⟩ := growAux_ok e.length e.length ((e ++ tail).take (min e.length prealloc))
      ((e ++ tail).drop (min e.length prealloc)) cs1 (min e.length prealloc)
      (by simp [prealloc]; omega) (by simp) (by simp; omega)
    refine ⟨cs', a', ?_⟩
    simp only [readBytes, hnn, if_false, Int.toNat_natCast, hr]
    rw [hg]
    have hl : ((e ++ tail).take (min e.length prealloc)).length = min e.length prealloc := by
      simp; omega
    rw [hl, ← List.take_add, List.drop_drop]
    have e1 : min e.length prealloc + (e.length - min e.length prealloc) = e.length := by omega
    rw [e1]
    simp

/-! ### the layout of what the writers write -/

theorem BB.write_end (buf p : Bytes) :
    (⟨buf, buf.length⟩ : BB).write p = ⟨buf ++ p, (buf ++ p).length⟩ := by
  simp [BB.write]

/-- overwriting a placeholder in the middle of the buffer (the count of `WriteCollection`) -/
theorem BB.write_over (buf ph items cnt : Bytes) (h : ph.length = cnt.length) :
    (⟨buf ++ ph ++ items, buf.length⟩ : BB).write cnt = ⟨buf ++ cnt ++ items, buf.length + cnt.length⟩ := by
  have h1 : buf.length - (buf ++ ph ++ items).length = 0 := by simp
  simp only [BB.write, h1, List.replicate_zero, List.append_nil]
  congr 1
  have e1 : (buf ++ ph ++ items).take buf.length = buf := by
    rw [List.append_assoc]; simp
  have e2 : (buf ++ ph ++ items).drop (buf.length + cnt.length) = items := by
    rw [← h, ← List.length_append]; simp
  rw [e1, e2]

/-- the bytes one writer call appends (none: the call fails) -/
def encItem : IK → Bytes → Option Bytes
  | .bws lp, it => if fitsLP lp it.length then some (natLE lp.width it.length ++ it) else none
  | .ows lp, it => if fitsLP lp it.length then some (natLE lp.width it.length ++ it) else none
  | .num w, it => some (numBytes w it)
  | .obj _, it => some it

def encItems (k : IK) : List Bytes → Option Bytes
  | [] => some []
  | it :: its =>
    match encItem k it, encItems k its with
    | some a, some b => some (a ++ b)
    | _, _ => none

def encOp : WOp → Option Bytes
  | .num w d => some (numBytes w d)
  | .bool d => some [boolByte d]
  | .arr n d => some (padTo n d)
  | .bytes d => some d
  | .bws lp d => if fitsLP lp d.length then some (natLE lp.width d.length ++ d) else none
  | .obj d => some d
  | .ows lp d => if fitsLP lp d.length then some (natLE lp.width d.length ++ d) else none
  | .coll lp k items =>
    match encItems k items with
    | none => none
    | some b => if fitsLP lp items.length then some (natLE lp.width items.length ++ b) else none

def encW : List WOp → Option Bytes
  | [] => some []
  | op :: ops =>
    match encOp op, encW ops with
    | some a, some b => some (a ++ b)
    | _, _ => none

def atEnd (buf : Bytes) : BB := ⟨buf, buf.length⟩

theorem writeSized_end (lp : LP) (d buf : Bytes) :
    writeSized lp d (atEnd buf)
      = if fitsLP lp d.length then some (atEnd (buf ++ (natLE lp.width d.length ++ d))) else none := by
  by_cases h : fitsLP lp d.length = true
  · simp only [writeSized, writeFixedSize, h, if_true, atEnd, BB.write_end]
    simp
  · simp [writeSized, writeFixedSize, h]

theorem writeItem_end (k : IK) (it buf : Bytes) :
    writeItem k it (atEnd buf) = (encItem k it).map (fun e => atEnd (buf ++ e)) := by
  cases k with
  | bws lp => simp only [writeItem, encItem, writeSized_end]; split <;> rfl
  | ows lp => simp only [writeItem, encItem, writeSized_end]; split <;> rfl
  | num w => simp [writeItem, encItem, atEnd, BB.write_end]
  | obj n => simp [writeItem, encItem, atEnd, BB.write_end]

theorem writeItems_end (k : IK) (items : List Bytes) (buf : Bytes) :
    writeItems k items (atEnd buf) = (encItems k items).map (fun e => atEnd (buf ++ e)) := by
  induction items generalizing buf with
  | nil => simp [writeItems, encItems]
  | cons it its ih =>
    simp only [writeItems, encItems, writeItem_end]
    cases h1 : encItem k it with
    | none => simp
    | some a =>
      simp only [Option.map_some, ih]
      cases h2 : encItems k its with
      | none => simp
      | some b => simp [List.append_assoc]

theorem fitsLP_zero (lp : LP) : fitsLP lp 0 = true := by cases lp <;> simp [fitsLP]

theorem runWOp_end (op : WOp) (buf : Bytes) :
    runWOp op (atEnd buf) = (encOp op).map (fun e => atEnd (buf ++ e)) := by
  cases op with
  | num w d => simp [runWOp, encOp, atEnd, BB.write_end]
  | bool d => simp [runWOp, encOp, atEnd, BB.write_end]
  | arr n d => simp [runWOp, encOp, atEnd, BB.write_end]
  | bytes d => simp [runWOp, encOp, atEnd, BB.write_end]
  | obj d => simp [runWOp, encOp, atEnd, BB.write_end]
  | bws lp d => simp only [runWOp, encOp, writeSized_end]; split <;> rfl
  | ows lp d => simp only [runWOp, encOp, writeSized_end]; split <;> rfl
  | coll lp k items =>
    have hw1 : writeFixedSize lp 0 (atEnd buf) = some (atEnd (buf ++ natLE lp.width 0)) := by
      simp [writeFixedSize, fitsLP_zero, atEnd, BB.write_end]
    simp only [runWOp, encOp, hw1, writeItems_end]
    cases h1 : encItems k items with
    | none => simp
    | some b =>
      simp only [Option.map_some]
      by_cases hf : fitsLP lp items.length = true
      · have hover := BB.write_over buf (natLE lp.width 0) b (natLE lp.width items.length)
          (by simp [natLE_length])
        simp only [writeFixedSize, hf, if_true, atEnd, hover, Option.map_some]
        simp [natLE_length]
      · simp [writeFixedSize, hf]

theorem runW_end (ops : List WOp) (buf : Bytes) :
    runW ops (atEnd buf) = (encW ops).map (fun e => atEnd (buf ++ e)) := by
  induction ops generalizing buf with
  | nil => simp [runW, encW]
  | cons op ops ih =>
    simp only [runW, encW, runWOp_end]
    cases h1 : encOp op with
    | none => simp
    | some a =>
      simp only [Option.map_some, ih]
      cases h2 : encW ops with
      | none => simp
      | some b => simp [List.append_assoc]

/-! ### per-call round trip -/

/-- side condition of the tie: items written with `WriteObject` have the fixed length the reader is told -/
def WOp.wf : WOp → Prop
  | .coll _ (.obj n) items => ∀ it ∈ items, it.length = n
  | _ => True

def itemWf : IK → Bytes → Prop
  | .obj n, it => it.length = n
  | _, _ => True

theorem readObj_id_append (e tail : Bytes) (cs : List Nat) (c0 : Cost) :
    ∃ cs' c, readObj (e.length : Int) .id ⟨e ++ tail, cs⟩ c0 = ⟨.ok, ⟨tail, cs'⟩, [.bytes e], c⟩ := by
  obtain ⟨cs', a, h⟩ := readBytes_append e tail cs
  exact ⟨cs', c0 + ⟨a, 0⟩, by simp [readObj, h, applyFrom, rok]⟩

theorem sized_roundtrip (lp : LP) (d tail : Bytes) (cs : List Nat) (h : fitsLP lp d.length = true) :
    (∃ cs' c, runOp (.bws lp) ⟨natLE lp.width d.length ++ d ++ tail, cs⟩ = ⟨.ok, ⟨tail, cs'⟩, [.bytes d], c⟩) ∧
    (∃ cs' c, runOp (.ows lp .id) ⟨natLE lp.width d.length ++ d ++ tail, cs⟩ = ⟨.ok, ⟨tail, cs'⟩, [.bytes d], c⟩) := by
  obtain ⟨cs1, hs⟩ := readFixedSize_ok lp d.length h (d ++ tail) cs
  simp only [List.append_assoc]
  constructor
  · by_cases h0 : d.length = 0
    · have hd : d = [] := List.eq_nil_of_length_eq_zero h0
      subst hd
      simp only [List.length_nil, List.nil_append] at hs
      exact ⟨cs1, {}, by simp [runOp, hs, rok]⟩
    · obtain ⟨cs', a, hb⟩ := readBytes_append d tail cs1
      exact ⟨cs', {} + ⟨a, 0⟩, by simp [runOp, hs, h0, hb, rok]⟩
  · obtain ⟨cs', c, ho⟩ := readObj_id_append d tail cs1 {}
    exact ⟨cs', c, by simp [runOp, hs, ho]⟩

theorem item_roundtrip (k : IK) (it e tail : Bytes) (cs : List Nat)
    (he : encItem k it = some e) (hw : itemWf k it) :
    ∃ cs' c, runOp (readOfItem k) ⟨e ++ tail, cs⟩ = ⟨.ok, ⟨tail, cs'⟩, [itemVal k it], c⟩ := by
  cases k with
  | bws lp =>
    by_cases hf : fitsLP lp it.length = true
    · simp only [encItem, hf, if_true, Option.some.injEq] at he
      subst he
      simpa [readOfItem, itemVal] using (sized_roundtrip lp it tail cs hf).1
    · simp [encItem, hf] at he
  | ows lp =>
    by_cases hf : fitsLP lp it.length = true
    · simp only [encItem, hf, if_true, Option.some.injEq] at he
      subst he
      simpa [readOfItem, itemVal] using (sized_roundtrip lp it tail cs hf).2
    · simp [encItem, hf] at he
  | num w =>
    simp only [encItem, Option.some.injEq] at he
    subst he
    obtain ⟨cs', hr⟩ := readFull_append (numBytes w it) tail cs
    have hl : (numBytes w it).length = w := by simp [numBytes, natLE_length]
    rw [hl] at hr
    exact ⟨cs', {}, by simp [readOfItem, itemVal, runOp, hr, rok]⟩
  | obj n =>
    simp only [encItem, Option.some.injEq] at he
    subst he
    simp only [itemWf] at hw
    subst hw
    simpa [readOfItem, itemVal, runOp] using readObj_id_append it tail cs {}

theorem items_roundtrip (k : IK) (items : List Bytes) (e tail : Bytes) (cs : List Nat)
    (he : encItems k items = some e) (hw : ∀ it ∈ items, itemWf k it) :
    ∃ cs' c, loopItems (runProg (.cons (readOfItem k) .nil)) items.length ⟨e ++ tail, cs⟩
      = ⟨.ok, ⟨tail, cs'⟩, items.map (itemVal k), c⟩ := by
  induction items generalizing e cs with
  | nil =>
    simp only [encItems, Option.some.injEq] at he
    subst he
    exact ⟨cs, {}, by simp [loopItems]⟩
  | cons it its ih =>
    simp only [encItems] at he
    cases h1 : encItem k it with
    | none => simp [h1] at he
    | some a =>
      cases h2 : encItems k its with
      | none => simp [h1, h2] at he
      | some b =>
        simp only [h1, h2, Option.some.injEq] at he
        subst he
        obtain ⟨cs1, c1, hi⟩ := item_roundtrip k it a (b ++ tail) cs h1 (hw it (by simp))
        obtain ⟨cs', c2, hl⟩ := ih b cs1 h2 (fun x hx => hw x (by simp [hx]))
        have hbody : runProg (.cons (readOfItem k) .nil) ⟨a ++ (b ++ tail), cs⟩
            = ⟨.ok, ⟨b ++ tail, cs1⟩, [itemVal k it], c1 + {}⟩ := by
          simp [runProg, hi]
        refine ⟨cs', c1 + {} + c2 + ⟨0, 1⟩, ?_⟩
        simp only [List.length_cons, loopItems, List.append_assoc, hbody, if_true, hl]
        simp

theorem op_roundtrip (op : WOp) (e tail : Bytes) (cs : List Nat) (he : encOp op = some e) (hw : op.wf) :
    ∃ cs' c, runOp (readOf1 op) ⟨e ++ tail, cs⟩ = ⟨.ok, ⟨tail, cs'⟩, valsOf1 op, c⟩ := by
  cases op with
  | num w d =>
    simp only [encOp, Option.some.injEq] at he
    subst he
    obtain ⟨cs', hr⟩ := readFull_append (numBytes w d) tail cs
    have hl : (numBytes w d).length = w := by simp [numBytes, natLE_length]
    rw [hl] at hr
    exact ⟨cs', {}, by simp [readOf1, valsOf1, runOp, hr, rok]⟩
  | bool d =>
    simp only [encOp, Option.some.injEq] at he
    subst he
    obtain ⟨cs', hr⟩ := readFull_append [boolByte d] tail cs
    refine ⟨cs', {}, ?_⟩
    have hb : (if [boolByte d].head? = some 0 then (0 : UInt8) else 1) = boolByte d := by
      cases d with
      | nil => simp [boolByte]
      | cons b bs => by_cases hb0 : b = 0 <;> simp [boolByte, hb0]
    simp only [List.length_singleton, List.singleton_append] at hr
    simp only [List.head?_cons, Option.some.injEq] at hb
    simp [readOf1, valsOf1, runOp, hr, rok, hb]
  | arr n d =>
    simp only [encOp, Option.some.injEq] at he
    subst he
    obtain ⟨cs', hr⟩ := readFull_append (padTo n d) tail cs
    have hl : (padTo n d).length = n := by simp [padTo]
    rw [hl] at hr
    exact ⟨cs', {}, by simp [readOf1, valsOf1, runOp, hr, rok]⟩
  | bytes d =>
    simp only [encOp, Option.some.injEq] at he
    subst he
    obtain ⟨cs', a, hb⟩ := readBytes_append d tail cs
    exact ⟨cs', ⟨a, 0⟩, by simp [readOf1, valsOf1, runOp, hb, rok]⟩
  | obj d =>
    simp only [encOp, Option.some.injEq] at he
    subst he
    simpa [readOf1, valsOf1, runOp] using readObj_id_append d tail cs {}
  | bws lp d =>
    by_cases hf : fitsLP lp d.length = true
    · simp only [encOp, hf, if_true, Option.some.injEq] at he
      subst he
      simpa [readOf1, valsOf1] using (sized_roundtrip lp d tail cs hf).1
    · simp [encOp, hf] at he
  | ows lp d =>
    by_cases hf : fitsLP lp d.length = true
    · simp only [encOp, hf, if_true, Option.some.injEq] at he
      subst he
      simpa [readOf1, valsOf1] using (sized_roundtrip lp d tail cs hf).2
    · simp [encOp, hf] at he
  | coll lp k items =>
    simp only [encOp] at he
    cases h1 : encItems k items with
    | none => simp [h1] at he
    | some b =>
      by_cases hf : fitsLP lp items.length = true
      · simp only [h1, hf, if_true, Option.some.injEq] at he
        subst he
        obtain ⟨cs1, hs⟩ := readFixedSize_ok lp items.length hf (b ++ tail) cs
        simp only [List.append_assoc]
        have hwi : ∀ it ∈ items, itemWf k it := by
          cases k with
          | obj n => simpa [WOp.wf, itemWf] using hw
          | bws _ => intro _ _; trivial
          | ows _ => intro _ _; trivial
          | num _ => intro _ _; trivial
        obtain ⟨cs', c, hl⟩ := items_roundtrip k items b tail cs1 h1 hwi
        exact ⟨cs', {} + c, by simp [readOf1, valsOf1, runOp, hs, hl]⟩
      · simp [h1, hf] at he

theorem prog_roundtrip (ops : List WOp) (e tail : Bytes) (cs : List Nat)
    (he : encW ops = some e) (hw : ∀ op ∈ ops, op.wf) :
    ∃ cs' c, runProg (readOf ops) ⟨e ++ tail, cs⟩ = ⟨.ok, ⟨tail, cs'⟩, valsOf ops, c⟩ := by
  induction ops generalizing e cs with
  | nil =>
    simp only [encW, Option.some.injEq] at he
    subst he
    exact ⟨cs, {}, by simp [readOf, runProg, valsOf]⟩
  | cons op ops ih =>
    simp only [encW] at he
    cases h1 : encOp op with
    | none => simp [h1] at he
    | some a =>
      cases h2 : encW ops with
      | none => simp [h1, h2] at he
      | some b =>
        simp only [h1, h2, Option.some.injEq] at he
        subst he
        obtain ⟨cs1, c1, ho⟩ := op_roundtrip op a (b ++ tail) cs h1 (hw op (by simp))
        obtain ⟨cs', c2, hp⟩ := ih b cs1 h2 (fun x hx => hw x (by simp [hx]))
        exact ⟨cs', c1 + c2, by simp [readOf, runProg, valsOf, List.append_assoc, ho, hp]⟩

end Hive.Stream
