import Hive.Model.ReactiveDir
import Hive.Proofs.Reactive
/-!
# Every configuration the director of `Hive/Model/ReactiveDir.lean` visits is reachable

The director only (a) appends idle threads with a one-operation script and (b) lets threads take
successors of `step`.  A thread that has not moved yet might as well have been part of the initial
pool (`reach_append`), so whatever the directed driver prints is the state of a configuration the
C13 theorems are about.
-/
namespace Hive.Reactive.Dir
open Hive.Conc Hive.Reactive

variable {S N : Type}

/-- Further threads that do not move do not hinder anybody. -/
theorem reach_append {σ τ : Type} (Sy : Sys σ τ) (ex : List τ) {a b : Cfg σ τ} (h : Reach Sy a b) :
    Reach Sy (a.1, a.2 ++ ex) (b.1, b.2 ++ ex) := by
  induction h with
  | refl => exact Reach.refl _
  | tail _ hs ih =>
    refine Reach.tail ih ?_
    cases hs with
    | mk s pre t post s' t' hmem =>
      have := Step.mk (S := Sy) s pre t (post ++ ex) s' t' hmem
      simpa [List.append_assoc] using this

/-- The configuration of a director state. -/
def cfg {o : Obj S N} (d : D o) : Cfg (Sh S N) (Th o.WOp N) := (d.sh, d.ths)

/-- `d` was reached from an initial configuration (of as many idle threads as `d` has). -/
def Good (o : Obj S N) (d : D o) : Prop := Reachable o (cfg d)

theorem good_init (o : Obj S N) : Good o (D.init o) :=
  ⟨(sh0 o, []), ⟨rfl, by simp⟩, Reach.refl _⟩

theorem stepAt_cfg (o : Obj S N) (d : D o) (i : Nat) :
    cfg (stepAt o d i) = runSched (sys o) (cfg d) [(i, 0)] := by
  unfold stepAt cfg
  simp only [runSched]
  cases hi : d.ths[i]? with
  | none => simp
  | some t =>
    simp only [sys]
    cases hs : step o d.sh t with
    | nil => simp
    | cons st rest =>
      obtain ⟨sh', t'⟩ := st
      simp only [List.getElem?_cons_zero]
      split <;> (try split) <;> rfl

theorem good_stepAt (o : Obj S N) {d : D o} (h : Good o d) (i : Nat) : Good o (stepAt o d i) := by
  obtain ⟨c0, h0, hr⟩ := h
  refine ⟨c0, h0, ?_⟩
  rw [stepAt_cfg]
  exact Reach.trans hr (runSched_reach _ _ _)

theorem good_settle (o : Obj S N) (n : Nat) {d : D o} (h : Good o d) : Good o (settle o n d) := by
  induction n generalizing d with
  | zero => exact h
  | succ n ih =>
    simp only [settle]
    cases firstRunnable o d with
    | none => exact h
    | some i => exact ih (good_stepAt o h i)

/-- Changing the director's own bookkeeping (gates, held invocations, owners) changes no configuration. -/
theorem good_of_cfg (o : Obj S N) {d d' : D o} (h : Good o d) (he : cfg d' = cfg d) : Good o d' := by
  unfold Good; rw [he]; exact h

theorem good_spawn (o : Obj S N) {d : D o} (h : Good o d) (op : Op o.WOp) : Good o (spawn o d op) := by
  apply good_settle
  obtain ⟨c0, ⟨h01, h02⟩, hr⟩ := h
  refine ⟨(c0.1, c0.2 ++ [{ pc := .idle, script := [op] }]), ⟨h01, ?_⟩, ?_⟩
  · intro t ht
    rcases List.mem_append.mp ht with h | h
    · exact h02 t h
    · simp at h; subst h; rfl
  · exact reach_append (sys o) [{ pc := .idle, script := [op] }] hr

/-- **Every line of a directed case is answered from a reachable configuration.** -/
theorem good_stepLine (o : Obj S N) (f : Fmt o) {d : D o} (h : Good o d) (toks : List String) :
    Good o (stepLine o f d toks).1 := by
  unfold stepLine
  split
  · split
    · exact good_spawn o h _
    · exact h
  · split
    · apply good_spawn
      exact good_of_cfg o h rfl
    · exact h
  · split
    · split
      · exact good_spawn o h _
      · exact h
    · exact h
  · split
    · split
      · apply good_settle
        exact good_of_cfg o h rfl
      · exact h
    · exact h
  · apply good_settle
    exact good_of_cfg o h rfl
  · exact h
  · exact h
  · exact h

/-- The director state after a whole directed case. -/
def run (o : Obj S N) (f : Fmt o) (lines : List (List String)) : D o :=
  lines.foldl (fun d l => (stepLine o f d l).1) (D.init o)

theorem good_run (o : Obj S N) (f : Fmt o) (lines : List (List String)) : Good o (run o f lines) := by
  unfold run
  suffices ∀ d, Good o d → Good o (lines.foldl (fun d l => (stepLine o f d l).1) d) from this _ (good_init o)
  induction lines with
  | nil => intro d h; exact h
  | cons l rest ih => intro d h; exact ih _ (good_stepLine o f h l)

end Hive.Reactive.Dir
