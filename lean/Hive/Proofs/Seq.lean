import Hive.Model.Seq
/-! Invariant of the sequence model and its preservation by every step. -/
namespace Hive.Seq

/-- Everything handed out lies below what any current or future object can hand out next, and the
number of skipped numbers is bounded by the budget of abandoned objects. -/
structure Inv (s : St) : Prop where
  below_mark : ∀ r ∈ s.returned, r < mark s
  lease : ∀ o, s.obj = some o → hasLease o = true →
      (∀ r ∈ s.returned, r < o.next) ∧ o.reserved = mark s ∧ o.reserved ≤ o.next + o.interval
        ∧ o.next ≤ s.returned.length + s.budget
  nolease : (∀ o, s.obj = some o → hasLease o = false) → mark s ≤ s.returned.length + s.budget
  ipos : ∀ o, s.obj = some o → 0 < o.interval
  sorted : s.returned.Pairwise (· > ·)
  res_le : ∀ o, s.obj = some o → o.reserved ≤ mark s

theorem inv_init : Inv init := by
  constructor <;> simp [init, mark]

theorem abandon_obj (s : St) : (abandon s).obj = none := by
  unfold abandon; cases h : s.obj <;> simp [h]

theorem abandon_store (s : St) : (abandon s).store = s.store := by
  unfold abandon; cases h : s.obj <;> simp

theorem abandon_returned (s : St) : (abandon s).returned = s.returned := by
  unfold abandon; cases h : s.obj <;> simp

theorem abandon_budget (s : St) :
    (abandon s).budget = s.budget + (match s.obj with | none => 0 | some o => o.interval) := by
  unfold abandon; cases h : s.obj <;> simp

/-- The frontier: the smallest number a current or future object may still hand out. -/
def frontier (s : St) : Nat :=
  match s.obj with
  | some o => if hasLease o then o.next else mark s
  | none => mark s

theorem inv_abandon {s : St} (h : Inv s) : Inv (abandon s) := by
  have hm : mark (abandon s) = mark s := by simp [mark, abandon_store]
  constructor
  · simpa [hm, abandon_returned] using h.below_mark
  · intro o ho; simp [abandon_obj] at ho
  · intro _
    rw [hm, abandon_returned, abandon_budget]
    cases hobj : s.obj with
    | none =>
      have := h.nolease (by intro o ho; simp [hobj] at ho)
      simpa using this
    | some o =>
      cases hl : hasLease o with
      | false =>
        have := h.nolease (by intro o' ho'; rw [hobj] at ho'; cases ho'; exact hl)
        simp; omega
      | true =>
        obtain ⟨_, h2, h3, h4⟩ := h.lease o hobj hl
        simp; omega
  · intro o ho; simp [abandon_obj] at ho
  · simpa [abandon_returned] using h.sorted
  · intro o ho; simp [abandon_obj] at ho


/-- Next served from the lease. -/
def serve (s : St) (o : Obj) : St :=
  { s with obj := some { o with next := o.next + 1 }, returned := o.next :: s.returned }

/-- Next that has to reserve a new interval first. -/
def refill (s : St) (o : Obj) : St :=
  { s with store := some (mark s + lease (mark s) o.interval),
           obj := some { interval := o.interval, next := mark s + 1, reserved := mark s + lease (mark s) o.interval },
           returned := mark s :: s.returned }

theorem lease_le (m i : Nat) : lease m i ≤ i := by unfold lease; omega

theorem lease_cap (m i : Nat) (h : m ≤ cap) : m + lease m i ≤ cap := by unfold lease; omega

/-- Release of a held lease. -/
def rel (s : St) (o : Obj) : St :=
  { s with store := some o.next, obj := some { o with reserved := o.next } }

theorem inv_serve {s : St} {o : Obj} (h : Inv s) (hobj : s.obj = some o) (hl : hasLease o = true) :
    Inv (serve s o) := by
  have hip := h.ipos o hobj
  obtain ⟨h1, h2, h3, h4⟩ := h.lease o hobj hl
  simp only [hasLease, decide_eq_true_eq] at hl
  have hm : mark (serve s o) = mark s := rfl
  constructor
  · intro r hr
    simp only [serve, List.mem_cons] at hr
    rw [hm]
    rcases hr with rfl | hr
    · omega
    · exact h.below_mark r hr
  · intro o' ho' hl'
    simp only [serve, Option.some.injEq] at ho'; subst ho'
    simp only [hasLease, decide_eq_true_eq] at hl'
    refine ⟨?_, ?_, ?_, ?_⟩
    · intro r hr
      simp only [serve, List.mem_cons] at hr
      rcases hr with rfl | hr
      · simp
      · have := h1 r hr; simp only; omega
    · rw [hm]; exact h2
    · simp only; omega
    · simp only [serve, List.length_cons]; omega
  · intro hno
    have := hno _ rfl
    simp only [hasLease, decide_eq_false_iff_not] at this
    rw [hm]; simp only [serve, List.length_cons]; omega
  · intro o' ho'; simp only [serve, Option.some.injEq] at ho'; subst ho'; exact hip
  · simp only [serve, List.pairwise_cons]
    exact ⟨fun r hr => h1 r hr, h.sorted⟩
  · intro o' ho'; simp only [serve, Option.some.injEq] at ho'; subst ho'
    rw [hm]; exact h.res_le o hobj

theorem inv_refill {s : St} {o : Obj} (h : Inv s) (hobj : s.obj = some o) (hl : hasLease o = false)
    (hpos : lease (mark s) o.interval ≠ 0) : Inv (refill s o) := by
  have hip := h.ipos o hobj
  have hnl := h.nolease (by intro o' ho'; rw [hobj] at ho'; cases ho'; exact hl)
  have hle := lease_le (mark s) o.interval
  have hm : mark (refill s o) = mark s + lease (mark s) o.interval := rfl
  constructor
  · intro r hr
    simp only [refill, List.mem_cons] at hr
    rw [hm]
    rcases hr with rfl | hr
    · omega
    · have := h.below_mark r hr; omega
  · intro o' ho' hl'
    simp only [refill, Option.some.injEq] at ho'; subst ho'
    refine ⟨?_, ?_, ?_, ?_⟩
    · intro r hr
      simp only [refill, List.mem_cons] at hr
      rcases hr with rfl | hr
      · simp
      · have := h.below_mark r hr; simp only; omega
    · rw [hm]
    · simp only; omega
    · simp only [refill, List.length_cons]; omega
  · intro hno
    have := hno _ rfl
    simp only [hasLease, decide_eq_false_iff_not] at this
    rw [hm]; simp only [refill, List.length_cons]; omega
  · intro o' ho'; simp only [refill, Option.some.injEq] at ho'; subst ho'; exact hip
  · simp only [refill, List.pairwise_cons]
    exact ⟨fun r hr => h.below_mark r hr, h.sorted⟩
  · intro o' ho'; simp only [refill, Option.some.injEq] at ho'; subst ho'
    rw [hm]; exact Nat.le_refl _

theorem inv_rel {s : St} {o : Obj} (h : Inv s) (hobj : s.obj = some o) (hl : hasLease o = true) :
    Inv (rel s o) := by
  have hip := h.ipos o hobj
  obtain ⟨h1, h2, h3, h4⟩ := h.lease o hobj hl
  have hm : mark (rel s o) = o.next := rfl
  constructor
  · intro r hr; rw [hm]; exact h1 r hr
  · intro o' ho' hl'
    simp only [rel, Option.some.injEq] at ho'; subst ho'
    simp [hasLease] at hl'
  · intro _; rw [hm]; exact h4
  · intro o' ho'; simp only [rel, Option.some.injEq] at ho'; subst ho'; exact hip
  · exact h.sorted
  · intro o' ho'; simp only [rel, Option.some.injEq] at ho'; subst ho'
    rw [hm]; exact Nat.le_refl _

/-- Crash after the store write of `update`: the mark moved, the object is gone. -/
theorem inv_crash_write {s : St} {o : Obj} (h : Inv s) (hobj : s.obj = some o) (hl : hasLease o = false) :
    Inv (abandon { s with store := some (mark s + lease (mark s) o.interval) }) := by
  have hnl := h.nolease (by intro o' ho'; rw [hobj] at ho'; cases ho'; exact hl)
  have hle := lease_le (mark s) o.interval
  simp only [abandon, hobj]
  constructor
  · intro r hr
    have := h.below_mark r hr
    simp only [mark, Option.getD_some] at *; omega
  · intro o' ho'; simp at ho'
  · intro _; simp only [mark, Option.getD_some] at *; omega
  · intro o' ho'; simp at ho'
  · exact h.sorted
  · intro o' ho'; simp at ho'

theorem abandon_serve (s : St) (o : Obj) (hobj : s.obj = some o) :
    abandon (serve s o) = abandon { s with returned := o.next :: s.returned } := by
  simp [abandon, serve, hobj]

theorem abandon_rel (s : St) (o : Obj) (hobj : s.obj = some o) :
    abandon (rel s o) = abandon { s with store := some o.next } := by
  simp [abandon, rel, hobj]

theorem inv_failset {s : St} {o : Obj} (h : Inv s) (hobj : s.obj = some o) (hl : hasLease o = false) :
    Inv { s with obj := some { o with next := mark s } } := by
  have hnl := h.nolease (by intro o' ho'; rw [hobj] at ho'; cases ho'; exact hl)
  have hres := h.res_le o hobj
  have hm : mark { s with obj := some { o with next := mark s } } = mark s := rfl
  constructor
  · intro r hr; rw [hm]; exact h.below_mark r hr
  · intro o' ho' hl'
    simp only [Option.some.injEq] at ho'; subst ho'
    simp only [hasLease, decide_eq_true_eq] at hl'
    omega
  · intro _; rw [hm]; exact hnl
  · intro o' ho'; simp only [Option.some.injEq] at ho'; subst ho'; exact h.ipos o hobj
  · exact h.sorted
  · intro o' ho'; simp only [Option.some.injEq] at ho'; subst ho'; rw [hm]; exact hres

theorem inv_step {s : St} {op : Op} (h : Inv s) (hw : op.wf)
    (hop : ∀ f, op ≠ .failNext f) (hop' : op ≠ .failRelease) : Inv (step s op).1 := by
  cases op with
  | failNext f => exact absurd rfl (hop f)
  | failRelease => exact absurd rfl hop'
  | new i =>
    have ha := inv_abandon h
    simp only [step]
    constructor
    · simpa [mark] using ha.below_mark
    · intro o ho hl; simp only [Option.some.injEq] at ho; subst ho; simp [hasLease] at hl
    · intro _
      have := ha.nolease (by intro o ho; simp [abandon_obj] at ho)
      simpa [mark] using this
    · intro o ho; simp only [Option.some.injEq] at ho; subst ho; exact hw
    · simpa using ha.sorted
    · intro o ho; simp only [Option.some.injEq] at ho; subst ho; exact Nat.zero_le _
  | next =>
    cases hobj : s.obj with
    | none => simpa [step, hobj] using h
    | some o =>
      cases hl : hasLease o with
      | true =>
        have : (step s .next).1 = serve s o := by simp [step, hobj, hl, serve]
        rw [this]; exact inv_serve h hobj hl
      | false =>
        by_cases hz : lease (mark s) o.interval = 0
        · have : (step s .next).1 = { s with obj := some { o with next := mark s } } := by
            simp [step, hobj, hl, hz]
          rw [this]; exact inv_failset h hobj hl
        · have : (step s .next).1 = refill s o := by simp [step, hobj, hl, hz, refill, update]
          rw [this]; exact inv_refill h hobj hl hz
  | release =>
    cases hobj : s.obj with
    | none => simpa [step, hobj] using h
    | some o =>
      cases hl : hasLease o with
      | false => simpa [step, hobj, hl] using h
      | true =>
        have : (step s .release).1 = rel s o := by simp [step, hobj, hl, rel]
        rw [this]; exact inv_rel h hobj hl
  | crash pt =>
    cases hobj : s.obj with
    | none => simpa [step, hobj] using h
    | some o =>
      cases hl : hasLease o with
      | true =>
        cases pt with
        | idle => simpa [step, hobj] using inv_abandon h
        | nextRead =>
          have : (step s (.crash .nextRead)).1 = abandon (serve s o) := by
            simp [step, hobj, hl, abandon_serve]
          rw [this]; exact inv_abandon (inv_serve h hobj hl)
        | nextWrite =>
          have : (step s (.crash .nextWrite)).1 = abandon (serve s o) := by
            simp [step, hobj, hl, abandon_serve]
          rw [this]; exact inv_abandon (inv_serve h hobj hl)
        | relWrite =>
          have : (step s (.crash .relWrite)).1 = abandon (rel s o) := by
            simp [step, hobj, hl, abandon_rel]
          rw [this]; exact inv_abandon (inv_rel h hobj hl)
      | false =>
        cases pt with
        | idle => simpa [step, hobj] using inv_abandon h
        | nextRead => simpa [step, hobj, hl] using inv_abandon h
        | relWrite => simpa [step, hobj, hl] using inv_abandon h
        | nextWrite =>
          by_cases hz : lease (mark s) o.interval = 0
          · have : (step s (.crash .nextWrite)).1 = { s with obj := some { o with next := mark s } } := by
              simp [step, hobj, hl, hz]
            rw [this]; exact inv_failset h hobj hl
          · have : (step s (.crash .nextWrite)).1 =
                abandon { s with store := some (mark s + lease (mark s) o.interval) } := by
              simp [step, hobj, hl, hz]
            rw [this]; exact inv_crash_write h hobj hl

theorem inv_step' {s : St} {op : Op} (h : Inv s) (hw : op.wf) : Inv (step s op).1 := by
  cases op with
  | failNext f =>
    cases hobj : s.obj with
    | none => simpa [step, hobj] using h
    | some o =>
      cases hl : hasLease o with
      | true =>
        have : (step s (.failNext f)).1 = serve s o := by simp [step, hobj, hl, serve]
        rw [this]; exact inv_serve h hobj hl
      | false =>
        cases f with
        | get => simpa [step, hobj, hl] using h
        | set =>
          have : (step s (.failNext .set)).1 = { s with obj := some { o with next := mark s } } := by
            simp [step, hobj, hl]
          rw [this]; exact inv_failset h hobj hl
  | failRelease =>
    cases hobj : s.obj with
    | none => simpa [step, hobj] using h
    | some o => cases hl : hasLease o <;> simpa [step, hobj, hl] using h
  | new i => exact inv_step h hw (by intro f; simp) (by simp)
  | next => exact inv_step h hw (by intro f; simp) (by simp)
  | release => exact inv_step h hw (by intro f; simp) (by simp)
  | crash pt => exact inv_step h hw (by intro f; simp) (by simp)

theorem inv_final (ops : List Op) (hw : ∀ op ∈ ops, op.wf) {s : St} (h : Inv s) : Inv (final s ops) := by
  induction ops generalizing s with
  | nil => simpa [final] using h
  | cons op ops ih =>
    simp only [final, List.foldl_cons]
    exact ih (fun o ho => hw o (List.mem_cons_of_mem _ ho)) (inv_step' h (hw op (List.mem_cons_self)))

/-! ## No value ever exceeds `cap`: the code's `uint64` arithmetic never wraps around -/

structure Bnd (s : St) : Prop where
  mark_le : mark s ≤ cap
  next_le : ∀ o, s.obj = some o → o.next ≤ mark s

theorem bnd_init : Bnd init := by constructor <;> simp [init, mark]

theorem bnd_abandon {s : St} (h : Bnd s) : Bnd (abandon s) := by
  have hm : mark (abandon s) = mark s := by simp [mark, abandon_store]
  constructor
  · rw [hm]; exact h.mark_le
  · intro o ho; simp [abandon_obj] at ho

theorem bnd_serve {s : St} {o : Obj} (hi : Inv s) (h : Bnd s) (hobj : s.obj = some o) (hl : hasLease o = true) :
    Bnd (serve s o) := by
  obtain ⟨_, h2, _, _⟩ := hi.lease o hobj hl
  simp only [hasLease, decide_eq_true_eq] at hl
  have hm : mark (serve s o) = mark s := rfl
  constructor
  · rw [hm]; exact h.mark_le
  · intro o' ho'; simp only [serve, Option.some.injEq] at ho'; subst ho'
    rw [hm]; simp only; omega

theorem bnd_refill {s : St} {o : Obj} (h : Bnd s) (hpos : lease (mark s) o.interval ≠ 0) : Bnd (refill s o) := by
  have hm : mark (refill s o) = mark s + lease (mark s) o.interval := rfl
  constructor
  · rw [hm]; exact lease_cap _ _ h.mark_le
  · intro o' ho'; simp only [refill, Option.some.injEq] at ho'; subst ho'
    rw [hm]; simp only; omega

theorem bnd_rel {s : St} {o : Obj} (h : Bnd s) (hobj : s.obj = some o) : Bnd (rel s o) := by
  have hm : mark (rel s o) = o.next := rfl
  have := h.next_le o hobj
  constructor
  · rw [hm]; exact Nat.le_trans this h.mark_le
  · intro o' ho'; simp only [rel, Option.some.injEq] at ho'; subst ho'; rw [hm]; exact Nat.le_refl _

theorem bnd_failset {s : St} {o : Obj} (h : Bnd s) : Bnd { s with obj := some { o with next := mark s } } := by
  constructor
  · exact h.mark_le
  · intro o' ho'; simp only [Option.some.injEq] at ho'; subst ho'; exact Nat.le_refl _

theorem bnd_crash_write {s : St} {o : Obj} (h : Bnd s) (hobj : s.obj = some o) :
    Bnd (abandon { s with store := some (mark s + lease (mark s) o.interval) }) := by
  simp only [abandon, hobj]
  constructor
  · simpa [mark] using lease_cap _ o.interval h.mark_le
  · intro o' ho'; simp at ho'

theorem bnd_step' {s : St} {op : Op} (hi : Inv s) (h : Bnd s) : Bnd (step s op).1 := by
  cases op with
  | new i =>
    have ha := bnd_abandon h
    simp only [step]
    constructor
    · simpa [mark] using ha.mark_le
    · intro o ho; simp only [Option.some.injEq] at ho; subst ho; exact Nat.zero_le _
  | next =>
    cases hobj : s.obj with
    | none => simpa [step, hobj] using h
    | some o =>
      cases hl : hasLease o with
      | true =>
        have : (step s .next).1 = serve s o := by simp [step, hobj, hl, serve]
        rw [this]; exact bnd_serve hi h hobj hl
      | false =>
        by_cases hz : lease (mark s) o.interval = 0
        · have : (step s .next).1 = { s with obj := some { o with next := mark s } } := by
            simp [step, hobj, hl, hz]
          rw [this]; exact bnd_failset h
        · have : (step s .next).1 = refill s o := by simp [step, hobj, hl, hz, refill, update]
          rw [this]; exact bnd_refill h hz
  | release =>
    cases hobj : s.obj with
    | none => simpa [step, hobj] using h
    | some o =>
      cases hl : hasLease o with
      | false => simpa [step, hobj, hl] using h
      | true =>
        have : (step s .release).1 = rel s o := by simp [step, hobj, hl, rel]
        rw [this]; exact bnd_rel h hobj
  | crash pt =>
    cases hobj : s.obj with
    | none => simpa [step, hobj] using h
    | some o =>
      cases hl : hasLease o with
      | true =>
        cases pt with
        | idle => simpa [step, hobj] using bnd_abandon h
        | nextRead =>
          have : (step s (.crash .nextRead)).1 = abandon (serve s o) := by
            simp [step, hobj, hl, abandon_serve]
          rw [this]; exact bnd_abandon (bnd_serve hi h hobj hl)
        | nextWrite =>
          have : (step s (.crash .nextWrite)).1 = abandon (serve s o) := by
            simp [step, hobj, hl, abandon_serve]
          rw [this]; exact bnd_abandon (bnd_serve hi h hobj hl)
        | relWrite =>
          have : (step s (.crash .relWrite)).1 = abandon (rel s o) := by
            simp [step, hobj, hl, abandon_rel]
          rw [this]; exact bnd_abandon (bnd_rel h hobj)
      | false =>
        cases pt with
        | idle => simpa [step, hobj] using bnd_abandon h
        | nextRead => simpa [step, hobj, hl] using bnd_abandon h
        | relWrite => simpa [step, hobj, hl] using bnd_abandon h
        | nextWrite =>
          by_cases hz : lease (mark s) o.interval = 0
          · have : (step s (.crash .nextWrite)).1 = { s with obj := some { o with next := mark s } } := by
              simp [step, hobj, hl, hz]
            rw [this]; exact bnd_failset h
          · have : (step s (.crash .nextWrite)).1 =
                abandon { s with store := some (mark s + lease (mark s) o.interval) } := by
              simp [step, hobj, hl, hz]
            rw [this]; exact bnd_crash_write h hobj
  | failNext f =>
    cases hobj : s.obj with
    | none => simpa [step, hobj] using h
    | some o =>
      cases hl : hasLease o with
      | true =>
        have : (step s (.failNext f)).1 = serve s o := by simp [step, hobj, hl, serve]
        rw [this]; exact bnd_serve hi h hobj hl
      | false =>
        cases f with
        | get => simpa [step, hobj, hl] using h
        | set =>
          have : (step s (.failNext .set)).1 = { s with obj := some { o with next := mark s } } := by
            simp [step, hobj, hl]
          rw [this]; exact bnd_failset h
  | failRelease =>
    cases hobj : s.obj with
    | none => simpa [step, hobj] using h
    | some o => cases hl : hasLease o <;> simpa [step, hobj, hl] using h

theorem bnd_final (ops : List Op) (hw : ∀ op ∈ ops, op.wf) {s : St} (hi : Inv s) (h : Bnd s) :
    Bnd (final s ops) := by
  induction ops generalizing s with
  | nil => simpa [final] using h
  | cons op ops ih =>
    simp only [final, List.foldl_cons]
    exact ih (fun o ho => hw o (List.mem_cons_of_mem _ ho)) (inv_step' hi (hw op (List.mem_cons_self)))
      (bnd_step' hi h)

end Hive.Seq
