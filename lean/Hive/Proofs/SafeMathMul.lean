import Hive.Proofs.SafeMath
/-! SafeMul and SafeDiv for every width and signedness. -/
namespace Hive.GoInt
open Hive.Gen.SafeMath IntTy

theorem mul_ne_zero_abs (k M : Int) (hk : k ≠ 0) (hM : 0 < M) : M ≤ (k * M).natAbs := by
  rcases Int.lt_or_le k 1 with h | h
  · have hk' : k ≤ -1 := by omega
    have := Int.mul_le_mul_of_nonneg_right hk' (Int.le_of_lt hM)
    omega
  · have := Int.mul_le_mul_of_nonneg_right h (Int.le_of_lt hM)
    omega

/-- The truncated quotient of in-range numbers is in range, except for `MinInt / -1`. -/
theorem tdiv_inRange_or (T : IntTy) (hb : 0 < T.bits) (r x : Int) (hr : T.InRange r) (hx : T.InRange x)
    (hx0 : x ≠ 0) : T.InRange (r.tdiv x) ∨ (T.signed = true ∧ r = T.minVal ∧ x = -1) := by
  obtain ⟨b1, b2, b3, b4, b5, b6⟩ := bounds T hb
  have hq := Int.natAbs_tdiv_le_natAbs r x
  unfold InRange at hr hx ⊢
  cases hs : T.signed with
  | false =>
    left
    have h0 := b6 hs
    have hq0 : 0 ≤ r.tdiv x := Int.tdiv_nonneg (by omega) (by omega)
    omega
  | true =>
    obtain ⟨e1, e2⟩ := b5 hs
    by_cases hqH : r.tdiv x = T.half
    · right
      have hrH : r = -T.half := by omega
      have hdiv : (r.tdiv x).natAbs = r.natAbs / x.natAbs := Int.natAbs_tdiv r x
      have hxa : x.natAbs = 1 := by
        rcases Nat.lt_or_ge 1 x.natAbs with h2 | h2
        · have hlt : r.natAbs / x.natAbs < r.natAbs := Nat.div_lt_self (by omega) h2
          omega
        · omega
      have hx1 : x = 1 ∨ x = -1 := by omega
      rcases hx1 with rfl | rfl
      · simp at hqH; omega
      · exact ⟨rfl, by omega, rfl⟩
    · left; omega

theorem zero_inRange (T : IntTy) (hb : 0 < T.bits) : T.InRange 0 := by
  obtain ⟨b1, b2, _⟩ := bounds T hb
  exact ⟨b1, b2⟩

theorem wrap_half (T : IntTy) (hb : 0 < T.bits) (hs : T.signed = true) : T.wrap T.half = -T.half := by
  obtain ⟨b1, b2, b3, b4, b5, b6⟩ := bounds T hb
  obtain ⟨e1, e2⟩ := b5 hs
  have hMH := T.modulus_eq_two_half hb
  have := T.wrap_shift hb T.half 1 (by unfold InRange; omega)
  rw [this]; omega

theorem safeMul_exact (T : IntTy) (hb : 0 < T.bits) (x y : Int) (hx : T.InRange x) (hy : T.InRange y) :
    SafeMul T x y = exact T (x * y) := by
  obtain ⟨b1, b2, b3, b4, b5, b6⟩ := bounds T hb
  have hM := T.modulus_pos
  have hMH := T.modulus_eq_two_half hb
  unfold SafeMul exact
  by_cases h0 : x = 0 ∨ y = 0
  · have : x * y = 0 := by rcases h0 with h | h <;> simp [h]
    rw [this, if_pos (zero_inRange T hb)]
    rcases h0 with h | h <;> simp [h]
  · have hx0 : x ≠ 0 := fun h => h0 (Or.inl h)
    have hy0 : y ≠ 0 := fun h => h0 (Or.inr h)
    have hc : ((decide (x = 0)) || (decide (y = 0))) = false := by simp [hx0, hy0]
    simp only [hc, Bool.false_eq_true, if_false]
    by_cases hin : T.InRange (x * y)
    · rw [if_pos hin]
      have hr : T.mul x y = x * y := T.wrap_eq_self hb _ hin
      have hd : T.div (x * y) x = y := by
        unfold IntTy.div; rw [Int.mul_tdiv_cancel_left y hx0]; exact T.wrap_eq_self hb y hy
      have hneg : ¬ (x < 0 ∧ y < 0 ∧ x * y < 0) := by
        intro ⟨h1, h2, h3⟩
        have := Int.mul_pos_of_neg_of_neg h1 h2
        omega
      simp only [hr, hd]
      have : (decide (x < 0) && decide (y < 0) && decide (x * y < 0)) = false := by
        rcases Decidable.em (x < 0) with h1 | h1 <;> rcases Decidable.em (y < 0) with h2 | h2 <;>
          rcases Decidable.em (x * y < 0) with h3 | h3 <;> simp [h1, h2, h3] <;> exact hneg ⟨h1, h2, h3⟩
      simp [this]
    · rw [if_neg hin]
      obtain ⟨k, hk⟩ := T.wrap_congr hb (x * y)
      have hrin := T.wrap_inRange hb (x * y)
      have hk0 : k ≠ 0 := by
        intro h; rw [h] at hk; simp at hk; rw [hk] at hrin; exact hin hrin
      have habs := mul_ne_zero_abs k T.modulus hk0 hM
      -- the condition of the `if` is true
      suffices hcond : (decide (T.div (T.mul x y) x ≠ y) ||
          (decide (x < 0) && decide (y < 0) && decide (T.mul x y < 0))) = true by
        simp only [hcond, if_true]
      unfold IntTy.mul
      rcases tdiv_inRange_or T hb _ x hrin hx hx0 with hq | ⟨hs, hrmin, hxm1⟩
      · -- ordinary quotient: equality with y would make the wrap distance smaller than |x|
        have hdq : T.div (T.wrap (x * y)) x = (T.wrap (x * y)).tdiv x := T.wrap_eq_self hb _ hq
        by_cases heq : (T.wrap (x * y)).tdiv x = y
        · exfalso
          have hdm := Int.mul_tdiv_add_tmod (T.wrap (x * y)) x
          rw [heq] at hdm
          have hmabs : ((T.wrap (x * y)).tmod x).natAbs = (T.wrap (x * y)).natAbs % x.natAbs := Int.natAbs_tmod _ _
          have hmlt : (T.wrap (x * y)).natAbs % x.natAbs < x.natAbs := Nat.mod_lt _ (by omega)
          unfold InRange at hx
          have hxlt : (x.natAbs : Int) < T.modulus := by omega
          omega
        · simp [hdq, heq]
      · -- MinInt / -1
        obtain ⟨e1, e2⟩ := b5 hs
        have hdq : T.div (T.wrap (x * y)) x = -T.half := by
          unfold IntTy.div
          rw [hrmin, hxm1, e1]
          have : (-T.half).tdiv (-1) = T.half := by simp
          rw [this]; exact wrap_half T hb hs
        by_cases heq : -T.half = y
        · have hy' : y < 0 := by omega
          have hx' : x < 0 := by omega
          have hr' : T.wrap (x * y) < 0 := by omega
          simp [hdq, hx', hy', hr']
        · simp [hdq, heq]

/-- What the property demands of a division. -/
def exactDiv (T : IntTy) (x y : Int) : Res Int :=
  if y = 0 then .divzero else exact T (x.tdiv y)

theorem safeDiv_exact (T : IntTy) (hb : 0 < T.bits) (x y : Int) (hx : T.InRange x) (hy : T.InRange y) :
    SafeDiv T x y = exactDiv T x y := by
  obtain ⟨b1, b2, b3, b4, b5, b6⟩ := bounds T hb
  unfold SafeDiv exactDiv exact
  by_cases hy0 : y = 0
  · simp [hy0]
  · simp only [hy0, decide_false, Bool.false_eq_true, if_false]
    rcases tdiv_inRange_or T hb x y hx hy hy0 with hq | ⟨hs, hxmin, hym1⟩
    · rw [if_pos hq]
      have hd : T.div x y = x.tdiv y := T.wrap_eq_self hb _ hq
      rw [hd]
      have hneg : ¬ (x < 0 ∧ y < 0 ∧ x.tdiv y < 0) := by
        intro ⟨h1, h2, h3⟩
        have := Int.tdiv_nonneg_of_nonpos_of_nonpos (Int.le_of_lt h1) (Int.le_of_lt h2)
        omega
      have : (decide (x < 0) && decide (y < 0) && decide (x.tdiv y < 0)) = false := by
        rcases Decidable.em (x < 0) with h1 | h1 <;> rcases Decidable.em (y < 0) with h2 | h2 <;>
          rcases Decidable.em (x.tdiv y < 0) with h3 | h3 <;> simp [h1, h2, h3] <;> exact hneg ⟨h1, h2, h3⟩
      simp [this]
    · obtain ⟨e1, e2⟩ := b5 hs
      have hq : x.tdiv y = T.half := by rw [hxmin, hym1, e1]; simp
      have hnot : ¬ T.InRange (x.tdiv y) := by rw [hq]; unfold InRange; omega
      rw [if_neg hnot]
      have hd : T.div x y = -T.half := by unfold IntTy.div; rw [hq]; exact wrap_half T hb hs
      have hx' : x < 0 := by omega
      have hy' : y < 0 := by omega
      have hr' : -T.half < 0 := by omega
      simp [hd, hx', hy', b4]

end Hive.GoInt
