import Hive.Proofs.SafeMathLemmas
import Hive.Gen.C19_SafeMath
/-! SafeMul: the definition generated from core/safemath/safe_math.go meets the specification, for every width and signedness. -/
namespace Hive.GoInt
open Hive.Gen.SafeMath IntTy

theorem safeMul_exact (T : IntTy) (hb : 0 < T.bits) (x y : Int) (hx : T.InRange x) (hy : T.InRange y) :
    SafeMul T x y = exact T (x * y) := by
  obtain ⟨b1, b2, b3, b4, b5, b6⟩ := bounds T hb
  have hM := T.modulus_pos
  have hMH := T.modulus_eq_two_half hb
  unfold SafeMul exact
  by_cases h0 : x = 0 ∨ y = 0
  · have : x * y = 0 := by rcases h0 with h | h <;> simp [h]
    rw [this, if_pos (zero_inRange T hb)]
    rcases h0 with h | h <;> simp [h]
  · have hx0 : x ≠ 0 := fun h => h0 (Or.inl h)
    have hy0 : y ≠ 0 := fun h => h0 (Or.inr h)
    have hc : ((decide (x = 0)) || (decide (y = 0))) = false := by simp [hx0, hy0]
    simp only [hc, Bool.false_eq_true, if_false]
    by_cases hin : T.InRange (x * y)
    · rw [if_pos hin]
      have hr : T.mul x y = x * y := T.wrap_eq_self hb _ hin
      have hd : T.div (x * y) x = y := by
        unfold IntTy.div; rw [Int.mul_tdiv_cancel_left y hx0]; exact T.wrap_eq_self hb y hy
      have hneg : ¬ (x < 0 ∧ y < 0 ∧ x * y < 0) := by
        intro ⟨h1, h2, h3⟩
        have := Int.mul_pos_of_neg_of_neg h1 h2
        omega
      simp only [hr, hd]
      have : (decide (x < 0) && decide (y < 0) && decide (x * y < 0)) = false := by
        rcases Decidable.em (x < 0) with h1 | h1 <;> rcases Decidable.em (y < 0) with h2 | h2 <;>
          rcases Decidable.em (x * y < 0) with h3 | h3 <;> simp [h1, h2, h3] <;> exact hneg ⟨h1, h2, h3⟩
      simp [this]
    · rw [if_neg hin]
      obtain ⟨k, hk⟩ := T.wrap_congr hb (x * y)
      have hrin := T.wrap_inRange hb (x * y)
      have hk0 : k ≠ 0 := by
        intro h; rw [h] at hk; simp at hk; rw [hk] at hrin; exact hin hrin
      have habs := mul_ne_zero_abs k T.modulus hk0 hM
      -- the condition of the `if` is true
      suffices hcond : (decide (T.div (T.mul x y) x ≠ y) ||
          (decide (x < 0) && decide (y < 0) && decide (T.mul x y < 0))) = true by
        simp only [hcond, if_true]
      unfold IntTy.mul
      rcases tdiv_inRange_or T hb _ x hrin hx hx0 with hq | ⟨hs, hrmin, hxm1⟩
      · -- ordinary quotient: equality with y would make the wrap distance smaller than |x|
        have hdq : T.div (T.wrap (x * y)) x = (T.wrap (x * y)).tdiv x := T.wrap_eq_self hb _ hq
        by_cases heq : (T.wrap (x * y)).tdiv x = y
        · exfalso
          have hdm := Int.mul_tdiv_add_tmod (T.wrap (x * y)) x
          rw [heq] at hdm
          have hmabs : ((T.wrap (x * y)).tmod x).natAbs = (T.wrap (x * y)).natAbs % x.natAbs := Int.natAbs_tmod _ _
          have hmlt : (T.wrap (x * y)).natAbs % x.natAbs < x.natAbs := Nat.mod_lt _ (by omega)
          unfold InRange at hx
          have hxlt : (x.natAbs : Int) < T.modulus := by omega
          omega
        · simp [hdq, heq]
      · -- MinInt / -1
        obtain ⟨e1, e2⟩ := b5 hs
        have hdq : T.div (T.wrap (x * y)) x = -T.half := by
          unfold IntTy.div
          rw [hrmin, hxm1, e1]
          have : (-T.half).tdiv (-1) = T.half := by simp
          rw [this]; exact wrap_half T hb hs
        by_cases heq : -T.half = y
        · have hy' : y < 0 := by omega
          have hx' : x < 0 := by omega
          have hr' : T.wrap (x * y) < 0 := by omega
          simp [hdq, hx', hy', hr']
        · simp [hdq, heq]

end Hive.GoInt
