import Hive.Proofs.OMap
/-!
# C11: `Decode` into an arbitrary receiver, for arbitrary bytes — what is kept, what is appended, what a failure leaves

`SerializableOrderedMap.Decode` does not clear the receiver and `Set`s every entry as soon as it is decoded.  For
**any** input bytes and **any** element decoders (no codec hypothesis at all), whether the call succeeds or fails:

* the receiver afterwards is the fold of `Set` over a list `l` of entries — the entries decoded before the end or the
  failure — whose keys are pairwise distinct (the duplicate-key refusal); `l` has at most `count` entries and exactly
  `count` when the call succeeds;
* hence the keys the receiver had before are a *prefix* of its keys afterwards (a live key keeps its position, new keys
  go behind all old ones, in the order of the input), and a key that is not among the decoded ones keeps its value.
-/
namespace Hive.OMap
open AMap

abbrev setFold (l : List (Nat × Nat)) (m : AMap) : AMap := l.foldl (fun c p => (AMap.set c p.1 p.2).1) m

theorem keys_prefix_set (m : AMap) (k v : Nat) : keys m <+: keys (AMap.set m k v).1 := by
  rw [keys_set]
  split
  · exact List.prefix_refl _
  · exact List.prefix_append _ _

theorem keys_prefix_setFold (l : List (Nat × Nat)) : ∀ m : AMap, keys m <+: keys (setFold l m) := by
  induction l with
  | nil => intro m; exact List.prefix_refl _
  | cons p r ih =>
    intro m
    simp only [setFold, List.foldl_cons]
    exact List.IsPrefix.trans (keys_prefix_set m p.1 p.2) (ih _)

theorem get_setFold_of_not_mem (l : List (Nat × Nat)) : ∀ (m : AMap) (k : Nat), k ∉ l.map (·.1) →
    get (setFold l m) k = get m k := by
  induction l with
  | nil => intro m k _; rfl
  | cons p r ih =>
    intro m k hk
    simp only [List.map_cons, List.mem_cons, not_or] at hk
    simp only [setFold, List.foldl_cons]
    have h1 := ih (AMap.set m p.1 p.2).1 k hk.2
    simp only [setFold] at h1
    rw [h1, get_set]
    simp [hk.1]

/-- the decode loop, whatever the bytes and the decoders are: the receiver afterwards is the fold of `Set` over the
entries decoded so far, their keys are distinct and were not seen before, there are at most `n` of them, exactly `n` on
success -/
theorem decodeLoop_fold (decK decV : Dec) : ∀ (n : Nat) (b : Bytes) (m : AMap) (used : Nat) (seen : List Nat),
    ∃ l : List (Nat × Nat),
      (decodeLoop decK decV n b m used seen).1 = setFold l m ∧
      (l.map (·.1)).Nodup ∧ (∀ k ∈ l.map (·.1), k ∉ seen) ∧ l.length ≤ n ∧
      ((decodeLoop decK decV n b m used seen).2 ≠ none → l.length = n) := by
  intro n
  induction n with
  | zero => intro b m used seen; exact ⟨[], rfl, List.nodup_nil, by simp, Nat.le_refl _, fun _ => rfl⟩
  | succ n ih =>
    intro b m used seen
    unfold decodeLoop
    cases hk : decK b with
    | none => exact ⟨[], rfl, List.nodup_nil, by simp, Nat.zero_le _, by simp⟩
    | some kn =>
      obtain ⟨k, nk⟩ := kn
      simp only
      by_cases hs : seen.contains k = true
      · simp only [hs, if_true]
        exact ⟨[], rfl, List.nodup_nil, by simp, Nat.zero_le _, by simp⟩
      · simp only [hs]
        cases hv : decV (b.drop nk) with
        | none => exact ⟨[], rfl, List.nodup_nil, by simp, Nat.zero_le _, by simp⟩
        | some vn =>
          obtain ⟨v, nv⟩ := vn
          simp only
          obtain ⟨l, hl, hnd, hseen, hlen, hfull⟩ := ih (b.drop (nk + nv)) (AMap.set m k v).1 (used + nk + nv) (k :: seen)
          refine ⟨(k, v) :: l, ?_, ?_, ?_, ?_, ?_⟩
          · simpa [setFold] using hl
          · simp only [List.map_cons, List.nodup_cons]
            refine ⟨fun hin => ?_, hnd⟩
            exact (hseen k hin) List.mem_cons_self
          · intro x hx
            simp only [List.map_cons, List.mem_cons] at hx
            rcases hx with rfl | hx
            · simpa using hs
            · intro hxs; exact hseen x hx (List.mem_cons_of_mem _ hxs)
          · simp only [List.length_cons]; omega
          · intro hne; simp only [List.length_cons]; rw [hfull hne]

end Hive.OMap
