import Hive.Model.C12aOwn
/-!
# Ownership of the slices `RandomMap.Keys()` hands out (memory-level model `Hive.Model.C12aOwn`)

Invariant `Inv`: no handed-out slice lives in the backing array of `r.keys`, and no two of them share a
backing array.  With it every memory-level step is the value-level step: the container never sees a
caller's writes, an answer only changes by the writes of the caller that holds it.
-/
namespace Hive.C12a.Own

/-! ## list / heap helpers -/

theorem getD_set_same (m : List (List Nat)) (a : Nat) (x : List Nat) (h : a < m.length) :
    (m.set a x).getD a [] = x := by
  simp [List.getD_eq_getElem?_getD, h]

theorem getD_set_other (m : List (List Nat)) (a b : Nat) (x : List Nat) (h : b ≠ a) :
    (m.set a x).getD b [] = m.getD b [] := by
  simp [List.getD_eq_getElem?_getD, List.getElem?_set, Ne.symm h]

theorem getD_append_lt (m : List (List Nat)) (b : Nat) (x : List Nat) (h : b < m.length) :
    (m ++ [x]).getD b [] = m.getD b [] := by
  simp [List.getD_eq_getElem?_getD, List.getElem?_append_left h]

theorem getD_append_len (m : List (List Nat)) (x : List Nat) : (m ++ [x]).getD m.length [] = x := by
  simp [List.getD_eq_getElem?_getD]

theorem take_set_comm (l : List Nat) (n i v : Nat) : (l.set i v).take n = (l.take n).set i v := by
  apply List.ext_getElem?
  intro j
  simp only [List.getElem?_take, List.getElem?_set, List.length_take]
  grind

theorem take_succ_set (l : List Nat) (n k : Nat) (h : n < l.length) :
    (l.set n k).take (n + 1) = l.take n ++ [k] := by
  apply List.ext_getElem?
  intro j
  simp only [List.getElem?_take, List.getElem?_set, List.getElem?_append, List.length_take]
  grind

theorem take_grow (a : List Nat) (n k : Nat) (hn : n ≤ a.length) (pad : List Nat) :
    (a.take n ++ [k] ++ pad).take (n + 1) = a.take n ++ [k] := by
  have hl : (a.take n ++ [k]).length = n + 1 := by simp [Nat.min_eq_left hn]
  rw [List.take_append_of_le_length (by omega), List.take_of_length_le (by omega)]

theorem set_self (l : List (List Nat)) (h : Nat) (o : List Nat) (e : l[h]? = some o) : l.set h o = l := by
  apply List.ext_getElem?
  intro j
  simp only [List.getElem?_set]
  grind

/-! ## the invariant -/

structure Inv (s : St) : Prop where
  keysLt : s.keys < s.mem.length
  lenLe : s.len ≤ (s.arr s.keys).length
  outLt : ∀ p ∈ s.out, p.1 < s.mem.length
  outNe : ∀ p ∈ s.out, p.1 ≠ s.keys
  distinct : ∀ (i j : Nat) (p q : Nat × Nat), s.out[i]? = some p → s.out[j]? = some q → i ≠ j → p.1 ≠ q.1

theorem inv_init : Inv init := by
  refine ⟨by decide, by decide, ?_, ?_, ?_⟩ <;> simp [init]

theorem abs_l_length (s : St) (h : Inv s) : (abs s).l.length = s.len := by
  simp [abs, List.length_take, Nat.min_eq_left h.lenLe]

/-- Writing an array other than those of the handed-out slices leaves the answers alone. -/
theorem outs_set_keys (s : St) (h : Inv s) (x : List Nat) :
    s.out.map (fun p => (({ s with mem := s.mem.set s.keys x } : St).arr p.1).take p.2) =
      s.out.map (fun p => (s.arr p.1).take p.2) := by
  apply List.map_congr_left
  intro p hp
  simp only [St.arr]
  rw [getD_set_other _ _ _ _ (h.outNe p hp)]

/-- A new array at the end of the heap leaves the answers alone. -/
theorem outs_append (s : St) (h : Inv s) (x : List Nat) :
    s.out.map (fun p => ((s.mem ++ [x]).getD p.1 []).take p.2) =
      s.out.map (fun p => (s.arr p.1).take p.2) := by
  apply List.map_congr_left
  intro p hp
  simp only [St.arr]
  rw [getD_append_lt _ _ _ (h.outLt p hp)]

/-! ## `append` -/

theorem step_append (s : St) (h : Inv s) (k : Nat) :
    abs (step false s (.append k)) = pstep (abs s) (.append k) ∧ Inv (step false s (.append k)) := by
  by_cases hc : s.len < (s.arr s.keys).length
  · have e : step false s (.append k) =
        { s with mem := s.mem.set s.keys ((s.arr s.keys).set s.len k), len := s.len + 1 } := by
      simp [step, hc]
    rw [e]
    constructor
    · simp only [abs, pstep, St.arr, getD_set_same _ _ _ h.keysLt]
      congr 1
      · exact take_succ_set _ _ _ hc
      · exact outs_set_keys s h _
    · refine ⟨by simpa using h.keysLt, ?_, by simpa using h.outLt, h.outNe, h.distinct⟩
      simp only [St.arr, getD_set_same _ _ _ h.keysLt, List.length_set]
      exact hc
  · have hl : s.len = (s.arr s.keys).length := Nat.le_antisymm h.lenLe (Nat.le_of_not_lt hc)
    have e : step false s (.append k) =
        { s with mem := s.mem ++ [(s.arr s.keys).take s.len ++ [k] ++ List.replicate s.len 0],
                 keys := s.mem.length, len := s.len + 1 } := by
      simp [step, hc]
    rw [e]
    constructor
    · simp only [abs, pstep, St.arr, getD_append_len]
      congr 1
      · exact take_grow _ _ _ h.lenLe _
      · exact outs_append s h _
    · refine ⟨by simp, ?_, ?_, ?_, h.distinct⟩
      · simp only [St.arr, getD_append_len]; simp <;> omega
      · intro p hp; have := h.outLt p hp; simp <;> omega
      · intro p hp; have := h.outLt p hp; simp <;> omega

/-! ## `delSwap` -/

theorem take_delSwap (a : List Nat) (n i : Nat) (hn : n ≤ a.length) (hi : i < n) :
    ((a.set i (a.getD (n - 1) 0)).set (n - 1) 0).take (n - 1) =
      (((a.take n).set i ((a.take n).getD ((a.take n).length - 1) 0)).set ((a.take n).length - 1) 0).take
        ((a.take n).length - 1) := by
  have hl : (a.take n).length = n := by simp [Nat.min_eq_left hn]
  rw [hl]
  have hg : (a.take n).getD (n - 1) 0 = a.getD (n - 1) 0 := by
    simp only [List.getD_eq_getElem?_getD, List.getElem?_take]
    have : n - 1 < n := by omega
    simp [this]
  rw [hg]
  apply List.ext_getElem?
  intro j
  simp only [List.getElem?_take, List.getElem?_set, List.length_take, List.length_set]
  grind

theorem step_delSwap (s : St) (h : Inv s) (i : Nat) :
    abs (step false s (.delSwap i)) = pstep (abs s) (.delSwap i) ∧ Inv (step false s (.delSwap i)) := by
  have hl := abs_l_length s h
  by_cases hc : i < s.len
  · have e : step false s (.delSwap i) =
        { s with mem := s.mem.set s.keys
                   (((s.arr s.keys).set i ((s.arr s.keys).getD (s.len - 1) 0)).set (s.len - 1) 0),
                 len := s.len - 1 } := by
      simp [step, hc]
    rw [e]
    constructor
    · have hc' : i < (abs s).l.length := by omega
      simp only [pstep, hc', ↓reduceIte]
      simp only [abs, St.arr, getD_set_same _ _ _ h.keysLt]
      congr 1
      · exact take_delSwap _ _ _ h.lenLe hc
      · exact outs_set_keys s h _
    · refine ⟨by simpa using h.keysLt, ?_, by simpa using h.outLt, h.outNe, h.distinct⟩
      simp only [St.arr, getD_set_same _ _ _ h.keysLt, List.length_set]
      have := h.lenLe
      simp only [St.arr] at this
      omega
  · have e : step false s (.delSwap i) = s := by simp [step, hc]
    have hc' : ¬ i < (abs s).l.length := by omega
    rw [e]
    exact ⟨by simp [pstep, hc'], h⟩

/-! ## `Keys()` -/

theorem step_keys (s : St) (h : Inv s) :
    abs (step false s .keys) = pstep (abs s) .keys ∧ Inv (step false s .keys) := by
  have e : step false s .keys =
      { s with mem := s.mem ++ [(s.arr s.keys).take s.len], out := s.out ++ [(s.mem.length, s.len)] } := by
    simp [step]
  rw [e]
  constructor
  · simp only [abs, pstep, St.arr, getD_append_lt _ _ _ h.keysLt, List.map_append, List.map_cons,
      List.map_nil, getD_append_len, List.take_take, Nat.min_self]
    congr 1
    congr 1
    exact outs_append s h _
  · refine ⟨by simp; have := h.keysLt; omega, ?_, ?_, ?_, ?_⟩
    · simp only [St.arr, getD_append_lt _ _ _ h.keysLt]; exact h.lenLe
    · intro p hp
      simp only [List.mem_append, List.mem_singleton] at hp
      rcases hp with hp | rfl
      · have := h.outLt p hp; simp; omega
      · simp
    · intro p hp
      simp only [List.mem_append, List.mem_singleton] at hp
      rcases hp with hp | rfl
      · exact h.outNe p hp
      · have := h.keysLt; simp; omega
    · intro i j p q hi hj hij
      simp only [List.getElem?_append, List.getElem?_singleton] at hi hj
      by_cases h1 : i < s.out.length <;> by_cases h2 : j < s.out.length
      · simp only [h1, h2, ↓reduceIte] at hi hj
        exact h.distinct i j p q hi hj hij
      · simp only [h1, h2, ↓reduceIte] at hi hj
        have hp := h.outLt p (List.mem_of_getElem? hi)
        split at hj
        · cases hj; simp; omega
        · cases hj
      · simp only [h1, h2, ↓reduceIte] at hi hj
        have hq := h.outLt q (List.mem_of_getElem? hj)
        split at hi
        · cases hi; simp; omega
        · cases hi
      · simp only [h1, h2, ↓reduceIte] at hi hj
        split at hi <;> split at hj
        · omega
        · cases hj
        · cases hi
        · cases hi

/-! ## a caller's write -/

theorem step_write (s : St) (h : Inv s) (k i v : Nat) :
    abs (step false s (.write k i v)) = pstep (abs s) (.write k i v) ∧ Inv (step false s (.write k i v)) := by
  cases ho : s.out[k]? with
  | none =>
    have e : step false s (.write k i v) = s := by simp [step, ho]
    have e2 : (abs s).outs[k]? = none := by simp [abs, ho]
    rw [e]
    exact ⟨by simp [pstep, e2], h⟩
  | some an =>
    obtain ⟨a, n⟩ := an
    have e2 : (abs s).outs[k]? = some ((s.arr a).take n) := by simp [abs, ho]
    have hmem : (a, n) ∈ s.out := List.mem_of_getElem? ho
    have hne : a ≠ s.keys := h.outNe _ hmem
    have hlt : a < s.mem.length := h.outLt _ hmem
    by_cases hc : i < n
    · have e : step false s (.write k i v) = { s with mem := s.mem.set a ((s.arr a).set i v) } := by
        simp [step, ho, hc]
      rw [e]
      constructor
      · simp only [pstep, e2]
        simp only [abs, St.arr, getD_set_other _ _ _ _ (Ne.symm hne)]
        congr 1
        apply List.ext_getElem?
        intro j
        simp only [List.getElem?_map, List.getElem?_set, List.length_map]
        by_cases hj : k = j
        · subst hj
          have hk : k < s.out.length := by
            rcases Nat.lt_or_ge k s.out.length with h1 | h1
            · exact h1
            · simp [List.getElem?_eq_none h1] at ho
          simp only [ho, Option.map_some, hk, ↓reduceIte, getD_set_same _ _ _ hlt]
          rw [take_set_comm]
        · simp only [hj, ↓reduceIte]
          cases hq : s.out[j]? with
          | none => simp
          | some q =>
            have := h.distinct k j (a, n) q ho hq hj
            simp only [Option.map_some]
            rw [getD_set_other _ _ _ _ (Ne.symm this)]
      · refine ⟨by simpa using h.keysLt, ?_, by simpa using h.outLt, h.outNe, h.distinct⟩
        simp only [St.arr, getD_set_other _ _ _ _ (Ne.symm hne)]
        exact h.lenLe
    · have e : step false s (.write k i v) = s := by simp [step, ho, hc]
      rw [e]
      refine ⟨?_, h⟩
      simp only [pstep, e2]
      have hs : ((s.arr a).take n).set i v = (s.arr a).take n := by
        apply List.set_eq_of_length_le
        simp only [List.length_take]; omega
      rw [hs, set_self _ _ _ e2]

/-! ## every history -/

theorem step_refines (s : St) (h : Inv s) (op : Op) :
    abs (step false s op) = pstep (abs s) op ∧ Inv (step false s op) := by
  cases op with
  | append k => exact step_append s h k
  | delSwap i => exact step_delSwap s h i
  | keys => exact step_keys s h
  | write k i v => exact step_write s h k i v

theorem final_refines (s : St) (h : Inv s) (ops : List Op) :
    abs (final false s ops) = pfinal (abs s) ops ∧ Inv (final false s ops) := by
  induction ops generalizing s with
  | nil => exact ⟨rfl, h⟩
  | cons op ops ih =>
    obtain ⟨e, hi⟩ := step_refines s h op
    have := ih (step false s op) hi
    simp only [final, pfinal, List.foldl_cons] at this ⊢
    rw [e] at this
    exact this

end Hive.C12a.Own
