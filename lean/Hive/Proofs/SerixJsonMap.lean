import Hive.Proofs.SerixJsonBase
/-!
# Go maps in the JSON/map form: entries round-trip in any iteration order

`encEntries` writes one member per entry (`orderedmap.Set` never overwrites because distinct keys have
distinct texts), `decEntries` reads them back in member order without meeting a duplicate.
-/
namespace Hive.SerixJson

/-- one entry of `encEntries`. -/
def encEntry (fk fv : Val → Except Err Json) (p : Val × Val) : Except Err (String × Json) := do
  let kj ← fk p.1
  let vj ← fv p.2
  let ks ← keyString kj
  pure (ks, vj)

theorem encEntries_eq (fk fv : Val → Except Err Json) (es : List (Val × Val)) :
    encEntries fk fv es = (es.mapM (encEntry fk fv)).map (fun ps => Json.obj (objSetAll [] ps)) := rfl

theorem encEntry_ok {fk fv : Val → Except Err Json} {p : Val × Val} {q : String × Json}
    (h : encEntry fk fv p = .ok q) : fk p.1 = .ok (.str q.1) ∧ fv p.2 = .ok q.2 := by
  unfold encEntry at h
  obtain ⟨kj, hk, h⟩ := bind_eq_ok.mp h
  obtain ⟨vj, hv, h⟩ := bind_eq_ok.mp h
  obtain ⟨ks, hs, h⟩ := bind_eq_ok.mp h
  cases kj <;> simp [keyString] at hs
  subst hs
  simp at h
  subst h
  exact ⟨hk, hv⟩

/-- members decode to the entries they were made from (values up to `c`, e.g. the identity or
`canon`), no duplicate is met. -/
theorem decEntries_of_mapM (fk fv : Val → Except Err Json) (gk gv : Json → Except Err Val) (c : Val → Val) :
    ∀ (es : List (Val × Val)) (ps : List (String × Json)) (acc : List (Val × Val)),
      es.mapM (encEntry fk fv) = .ok ps →
      (∀ p ∈ es, ∀ j, fk p.1 = .ok j → gk j = .ok p.1) →
      (∀ p ∈ es, ∀ j, fv p.2 = .ok j → gv j = .ok (c p.2)) →
      distinctKeys es = true →
      (∀ a ∈ acc, ∀ p ∈ es, a.1.keyEq p.1 = false) →
      decEntries gk gv ps acc = .ok (acc ++ es.map (fun p => (p.1, c p.2)))
  | [], ps, acc, h, _, _, _, _ => by
    simp at h; subst h; simp [decEntries]
  | p :: es, ps, acc, h, hk, hv, hd, hacc => by
    obtain ⟨q, ps', hq, hps, rfl⟩ := (mapM_cons_ok _ p es ps).mp h
    obtain ⟨hqk, hqv⟩ := encEntry_ok hq
    obtain ⟨ks, vj⟩ := q
    simp only [distinctKeys, Bool.and_eq_true, Bool.not_eq_eq_eq_not, Bool.not_true] at hd
    have h1 := hk p List.mem_cons_self _ hqk
    have h2 := hv p List.mem_cons_self _ hqv
    have hany : acc.any (fun a => a.1.keyEq p.1) = false := by
      rw [List.any_eq_false]
      intro a ha
      simpa using hacc a ha p List.mem_cons_self
    simp only [decEntries, h1, ok_bind, hany, Bool.false_eq_true, if_false, h2]
    have := decEntries_of_mapM fk fv gk gv c es ps' (acc ++ [(p.1, c p.2)]) hps
      (fun p' hp' => hk p' (List.mem_cons_of_mem _ hp'))
      (fun p' hp' => hv p' (List.mem_cons_of_mem _ hp')) hd.2
      (by
        intro a ha p' hp'
        rcases List.mem_append.mp ha with ha | ha
        · exact hacc a ha p' (List.mem_cons_of_mem _ hp')
        · simp only [List.mem_singleton] at ha
          subst ha
          have := List.any_eq_false.mp hd.1 p' hp'
          simpa using this)
    rw [this]
    simp

/-- distinct keys have distinct member names. -/
theorem keys_nodup_of_mapM (fk fv : Val → Except Err Json) (gk : Json → Except Err Val) :
    ∀ (es : List (Val × Val)) (ps : List (String × Json)),
      es.mapM (encEntry fk fv) = .ok ps →
      (∀ p ∈ es, ∀ j, fk p.1 = .ok j → gk j = .ok p.1) →
      (∀ p ∈ es, p.1.keyEq p.1 = true) →
      distinctKeys es = true →
      (keys ps).Nodup ∧ ∀ q ∈ ps, ∃ p ∈ es, gk (.str q.1) = .ok p.1
  | [], ps, h, _, _, _ => by
    simp at h; subst h; simp [keys]
  | p :: es, ps, h, hk, hr, hd => by
    obtain ⟨q, ps', hq, hps, rfl⟩ := (mapM_cons_ok _ p es ps).mp h
    obtain ⟨hqk, _⟩ := encEntry_ok hq
    simp only [distinctKeys, Bool.and_eq_true, Bool.not_eq_eq_eq_not, Bool.not_true] at hd
    obtain ⟨ih1, ih2⟩ := keys_nodup_of_mapM fk fv gk es ps' hps
      (fun p' hp' => hk p' (List.mem_cons_of_mem _ hp'))
      (fun p' hp' => hr p' (List.mem_cons_of_mem _ hp')) hd.2
    have h1 := hk p List.mem_cons_self _ hqk
    constructor
    · simp only [keys, List.map_cons, List.nodup_cons]
      refine ⟨?_, ih1⟩
      intro hmem
      obtain ⟨q', hq', hqq⟩ := List.mem_map.mp hmem
      obtain ⟨p', hp', hg⟩ := ih2 q' hq'
      rw [hqq, h1] at hg
      have hpp : p.1 = p'.1 := by injection hg
      have hne := List.any_eq_false.mp hd.1 p' hp'
      rw [← hpp, hr p List.mem_cons_self] at hne
      simp at hne
    · intro q' hq'
      rcases List.mem_cons.mp hq' with rfl | hq'
      · exact ⟨p, List.mem_cons_self, h1⟩
      · obtain ⟨p', hp', hg⟩ := ih2 q' hq'
        exact ⟨p', List.mem_cons_of_mem _ hp', hg⟩

/-- Go maps, values decoded up to `c`. -/
theorem entries_roundtrip_map (fk fv : Val → Except Err Json) (gk gv : Json → Except Err Val) (c : Val → Val)
    (es : List (Val × Val)) (j : Json)
    (hk : ∀ p ∈ es, ∀ j, fk p.1 = .ok j → gk j = .ok p.1)
    (hv : ∀ p ∈ es, ∀ j, fv p.2 = .ok j → gv j = .ok (c p.2))
    (hr : ∀ p ∈ es, p.1.keyEq p.1 = true)
    (hd : distinctKeys es = true)
    (h : encEntries fk fv es = .ok j) :
    ∃ ps, j = .obj ps ∧ decEntries gk gv ps [] = .ok (es.map (fun p => (p.1, c p.2))) := by
  rw [encEntries_eq] at h
  obtain ⟨ps, hps, rfl⟩ := map_eq_ok.mp h
  obtain ⟨hnd, _⟩ := keys_nodup_of_mapM fk fv gk es ps hps hk hr hd
  refine ⟨ps, ?_, ?_⟩
  · rw [objSetAll_of_disjoint [] ps hnd (by simp [keys])]
    simp
  · have := decEntries_of_mapM fk fv gk gv c es ps [] hps hk hv hd (by simp)
    simpa using this

/-- **Go maps round-trip whatever order their entries are visited in.** -/
theorem entries_roundtrip (fk fv : Val → Except Err Json) (gk gv : Json → Except Err Val)
    (es : List (Val × Val)) (j : Json)
    (hk : ∀ p ∈ es, ∀ j, fk p.1 = .ok j → gk j = .ok p.1)
    (hv : ∀ p ∈ es, ∀ j, fv p.2 = .ok j → gv j = .ok p.2)
    (hr : ∀ p ∈ es, p.1.keyEq p.1 = true)
    (hd : distinctKeys es = true)
    (h : encEntries fk fv es = .ok j) :
    ∃ ps, j = .obj ps ∧ decEntries gk gv ps [] = .ok es := by
  have := entries_roundtrip_map fk fv gk gv id es j hk hv hr hd h
  simpa using this

end Hive.SerixJson
