import Hive.Model.AdsAdapter
/-! # The adapter as written never disturbs a buffer it handed to the trie -/
namespace Hive.Ads.Adapter

theorem read_alloc_lt (m : Mem) (b : Bytes) (r : Ref) (h : r < m.next) : (m.alloc b).1.read r = m.read r := by
  have hne : (r == m.next) = false := beq_eq_false_iff_ne.mpr (Nat.ne_of_lt h)
  simp [Mem.read, Mem.alloc, List.lookup, hne]

theorem read_alloc_new (m : Mem) (b : Bytes) : (m.alloc b).1.read (m.alloc b).2 = b := by
  simp [Mem.read, Mem.alloc, List.lookup]

/-- References in use are below `next`, and what the trie holds is intact. -/
structure AInv (s : ASt) : Prop where
  held_lt : ∀ e ∈ s.held, e.1 < s.mem.next
  intact : Intact s

theorem ainv_init : AInv ainit := ⟨fun _ h => by simp [ainit] at h, fun _ h => by simp [ainit] at h⟩

theorem ainv_step (s : ASt) (h : AInv s) (op : AOp) : AInv (astep .forward s op) := by
  cases op with
  | get k =>
    simp only [astep]
    cases hg : sget k s.store with
    | none => exact h
    | some r0 =>
      refine ⟨?_, ?_⟩
      · intro e he
        simp only [List.mem_cons] at he
        rcases he with rfl | he
        · show s.mem.next < s.mem.next + 1
          exact Nat.lt_succ_self _
        · show e.1 < s.mem.next + 1
          exact Nat.lt_succ_of_lt (h.held_lt e he)
      · intro e he
        simp only [List.mem_cons] at he
        rcases he with rfl | he
        · exact read_alloc_new _ _
        · show (s.mem.alloc (s.mem.read r0)).1.read e.1 = e.2
          rw [read_alloc_lt _ _ _ (h.held_lt e he)]; exact h.intact e he
  | set k v =>
    simp only [astep]
    refine ⟨?_, ?_⟩
    · intro e he
      show e.1 < s.mem.next + 1 + 1
      exact Nat.lt_succ_of_lt (Nat.lt_succ_of_lt (h.held_lt e he))
    · intro e he
      have hlt := h.held_lt e he
      show ((s.mem.alloc v).1.alloc v).1.read e.1 = e.2
      have hlt' : e.1 < (s.mem.alloc v).1.next := Nat.lt_succ_of_lt hlt
      rw [read_alloc_lt _ _ _ hlt', read_alloc_lt _ _ _ hlt]
      exact h.intact e he
  | del k => exact ⟨h.held_lt, h.intact⟩

theorem ainv_run (ops : List AOp) : ∀ s, AInv s → AInv (arun .forward s ops) := by
  induction ops with
  | nil => intro s h; exact h
  | cons op ops ih => intro s h; exact ih _ (ainv_step s h op)

end Hive.Ads.Adapter
