import Hive.Model.WorkerPoolLock
/-!
# Soundness of the lock-script scan (C16)

`scan` folds `scanStep` over an expanded script.  The findings lists only grow, so an empty list at the end means that
no prefix of the script produced a finding: no acquisition of a mutex that is held after the prefix before it, no wait
while a foreign mutex is held, and every pair (held, acquired) is among the reported lock-order edges.
-/
namespace Hive.WPL

theorem scan_append (conds : List (Str × Str)) (a b : List ETok) :
    scan conds (a ++ b) = b.foldl (scanStep conds) (scan conds a) := by
  simp [scan, List.foldl_append]

/-- A finding, once made, is never dropped. -/
theorem reentry_step_ne (conds : List (Str × Str)) (st : Scan) (t : ETok) (h : st.reentry ≠ []) :
    (scanStep conds st t).reentry ≠ [] := by
  cases t <;> simp only [scanStep]
  · split <;> simp_all
  · split <;> simp_all
  · split <;> simp_all
  · exact h
  · split <;> simp_all
  · split <;> simp_all
  · exact h

theorem reentry_foldl_ne (conds : List (Str × Str)) (ts : List ETok) (st : Scan) (h : st.reentry ≠ []) :
    (ts.foldl (scanStep conds) st).reentry ≠ [] := by
  induction ts generalizing st with
  | nil => exact h
  | cons t ts ih => exact ih _ (reentry_step_ne conds st t h)

theorem waits_step_ne (conds : List (Str × Str)) (st : Scan) (t : ETok) (h : st.waits ≠ []) :
    (scanStep conds st t).waits ≠ [] := by
  cases t <;> simp only [scanStep]
  · exact h
  · split <;> simp_all
  · split <;> simp_all
  · exact h
  · split <;> simp_all
  · split <;> simp_all
  · exact h

theorem waits_foldl_ne (conds : List (Str × Str)) (ts : List ETok) (st : Scan) (h : st.waits ≠ []) :
    (ts.foldl (scanStep conds) st).waits ≠ [] := by
  induction ts generalizing st with
  | nil => exact h
  | cons t ts ih => exact ih _ (waits_step_ne conds st t h)

/-- **No re-entry.**  If the scan of a script reports no re-entry, then at every acquisition in the script the mutex
is not among the locks held after the prefix before it. -/
theorem scan_no_reentry_sound (conds : List (Str × Str)) (toks : List ETok)
    (h : (scan conds toks).reentry = []) :
    ∀ pre m post, toks = pre ++ .acq m :: post → m ∉ heldAfter conds pre := by
  intro pre m post htoks hmem
  apply absurd h
  subst htoks
  rw [scan_append]
  simp only [List.foldl_cons]
  apply reentry_foldl_ne
  have hm : m ∈ (scan conds pre).held := by simpa [heldAfter] using hmem
  simp [scanStep, hm]

/-- **No wait under a foreign lock.**  If the scan reports no offending wait, then at every `Wait` in the script every
lock held after the prefix before it is the waited condition's own mutex (which `Cond.Wait` releases). -/
theorem scan_no_wait_sound (conds : List (Str × Str)) (toks : List ETok)
    (h : (scan conds toks).waits = []) :
    ∀ pre x post, toks = pre ++ .wait x :: post → ∀ l ∈ heldAfter conds pre, some l = condMutex conds x := by
  intro pre x post htoks l hl
  apply Classical.byContradiction
  intro hne
  apply absurd h
  subst htoks
  rw [scan_append]
  simp only [List.foldl_cons]
  apply waits_foldl_ne
  have hex : ¬ ∀ a, a ∈ (scan conds pre).held → some a = condMutex conds x := by
    intro hall
    exact hne (hall l (by simpa [heldAfter] using hl))
  simp only [scanStep, List.isEmpty_iff, List.filter_eq_nil_iff, ne_eq, decide_not, Bool.not_eq_eq_eq_not, Bool.not_true,
    decide_eq_false_iff_not, Decidable.not_not]
  rw [if_neg hex]
  simp

end Hive.WPL
