import Hive.Model.WorkerPoolLock
/-!
# Soundness of the lock-script scan (C16)

`scan` folds `scanStep` over an expanded script.  The findings lists only grow, so an empty list at the end means that
no prefix of the script produced a finding: no acquisition of a mutex that is held after the prefix before it, no wait
while a foreign mutex is held, and every pair (held, acquired) is among the reported lock-order edges.
-/
namespace Hive.WPL

theorem scan_append (conds : List (Str × Str)) (a b : List ETok) :
    scan conds (a ++ b) = b.foldl (scanStep conds) (scan conds a) := by
  simp [scan, List.foldl_append]

/-- A finding, once made, is never dropped. -/
theorem reentry_step_ne (conds : List (Str × Str)) (st : Scan) (t : ETok) (h : st.reentry ≠ []) :
    (scanStep conds st t).reentry ≠ [] := by
  cases t <;> simp only [scanStep]
  · split <;> simp_all
  · split <;> simp_all
  · split <;> simp_all
  · exact h
  · split <;> simp_all
  · split <;> simp_all
  · split <;> simp_all
  · exact h

theorem reentry_foldl_ne (conds : List (Str × Str)) (ts : List ETok) (st : Scan) (h : st.reentry ≠ []) :
    (ts.foldl (scanStep conds) st).reentry ≠ [] := by
  induction ts generalizing st with
  | nil => exact h
  | cons t ts ih => exact ih _ (reentry_step_ne conds st t h)

theorem waits_step_ne (conds : List (Str × Str)) (st : Scan) (t : ETok) (h : st.waits ≠ []) :
    (scanStep conds st t).waits ≠ [] := by
  cases t <;> simp only [scanStep]
  · exact h
  · split <;> simp_all
  · split <;> simp_all
  · exact h
  · split <;> simp_all
  · split <;> simp_all
  · split <;> simp_all
  · exact h

theorem waits_foldl_ne (conds : List (Str × Str)) (ts : List ETok) (st : Scan) (h : st.waits ≠ []) :
    (ts.foldl (scanStep conds) st).waits ≠ [] := by
  induction ts generalizing st with
  | nil => exact h
  | cons t ts ih => exact ih _ (waits_step_ne conds st t h)

/-- **No re-entry.**  If the scan of a script reports no re-entry, then at every acquisition in the script the mutex
is not among the locks held after the prefix before it. -/
theorem scan_no_reentry_sound (conds : List (Str × Str)) (toks : List ETok)
    (h : (scan conds toks).reentry = []) :
    ∀ pre m post, toks = pre ++ .acq m :: post → m ∉ heldAfter conds pre := by
  intro pre m post htoks hmem
  apply absurd h
  subst htoks
  rw [scan_append]
  simp only [List.foldl_cons]
  apply reentry_foldl_ne
  have hm : m ∈ (scan conds pre).held := by simpa [heldAfter] using hmem
  simp [scanStep, hm]

/-- **No wait under a foreign lock.**  If the scan reports no offending wait, then at every `Wait` in the script every
lock held after the prefix before it is the waited condition's own mutex (which `Cond.Wait` releases). -/
theorem scan_no_wait_sound (conds : List (Str × Str)) (toks : List ETok)
    (h : (scan conds toks).waits = []) :
    ∀ pre x post, toks = pre ++ .wait x :: post → ∀ l ∈ heldAfter conds pre, some l = condMutex conds x := by
  intro pre x post htoks l hl
  apply Classical.byContradiction
  intro hne
  apply absurd h
  subst htoks
  rw [scan_append]
  simp only [List.foldl_cons]
  apply waits_foldl_ne
  have hex : ¬ ∀ a, a ∈ (scan conds pre).held → some a = condMutex conds x := by
    intro hall
    exact hne (hall l (by simpa [heldAfter] using hl))
  simp only [scanStep, List.isEmpty_iff, List.filter_eq_nil_iff, ne_eq, decide_not, Bool.not_eq_eq_eq_not, Bool.not_true,
    decide_eq_false_iff_not, Decidable.not_not]
  rw [if_neg hex]
  simp

/-! ### the reported lock-order edges are complete -/

theorem mem_addNew {α} [DecidableEq α] (xs : List α) (x y : α) : x ∈ addNew xs y ↔ x ∈ xs ∨ x = y := by
  unfold addNew
  split
  · rename_i h
    constructor
    · intro hx; exact Or.inl hx
    · intro hx
      rcases hx with hx | hx
      · exact hx
      · subst hx; simpa using h
  · simp

theorem edgeFold_mono (m : Str) (hs : List Str) (es : List (Str × Str)) (e : Str × Str) (he : e ∈ es) :
    e ∈ hs.foldl (fun es h => if h = m then es else addNew es (h, m)) es := by
  induction hs generalizing es with
  | nil => exact he
  | cons h hs ih =>
    simp only [List.foldl_cons]
    apply ih
    split
    · exact he
    · exact (mem_addNew _ _ _).mpr (Or.inl he)

theorem edgeFold_mem (m : Str) (hs : List Str) (es : List (Str × Str)) (h : Str) (hh : h ∈ hs) (hne : h ≠ m) :
    (h, m) ∈ hs.foldl (fun es h => if h = m then es else addNew es (h, m)) es := by
  induction hs generalizing es with
  | nil => cases hh
  | cons a hs ih =>
    simp only [List.foldl_cons]
    rcases List.mem_cons.mp hh with rfl | hh'
    · apply edgeFold_mono
      rw [if_neg hne]
      exact (mem_addNew _ _ _).mpr (Or.inr rfl)
    · exact ih _ hh'

theorem edges_step_mono (conds : List (Str × Str)) (st : Scan) (t : ETok) (e : Str × Str) (he : e ∈ st.edges) :
    e ∈ (scanStep conds st t).edges := by
  cases t <;> simp only [scanStep]
  · exact edgeFold_mono _ _ _ _ he
  · split <;> exact he
  · split <;> exact he
  · exact he
  · split <;> exact he
  · split <;> exact he
  · split <;> exact he
  · exact he

theorem edges_foldl_mono (conds : List (Str × Str)) (ts : List ETok) (st : Scan) (e : Str × Str) (he : e ∈ st.edges) :
    e ∈ (ts.foldl (scanStep conds) st).edges := by
  induction ts generalizing st with
  | nil => exact he
  | cons t ts ih => exact ih _ (edges_step_mono conds st t e he)

/-- **Lock-order edges are complete.**  Whenever a script acquires `m` while it holds a different lock `h`, the pair
`(h, m)` is among the edges the scan reports — so an order (rank) that all reported edges respect is respected by every
nested acquisition of the script. -/
theorem scan_edges_sound (conds : List (Str × Str)) (toks : List ETok) :
    ∀ pre m post, toks = pre ++ .acq m :: post → ∀ h ∈ heldAfter conds pre, h ≠ m → (h, m) ∈ (scan conds toks).edges := by
  intro pre m post htoks h hh hne
  subst htoks
  rw [scan_append]
  simp only [List.foldl_cons]
  apply edges_foldl_mono
  simp only [scanStep]
  exact edgeFold_mem m _ _ h (by simpa [heldAfter] using hh) hne

end Hive.WPL
