import Hive.Model.EventsMaxN
import Hive.Proofs.EventsMax
/-!
# Counting invariants of the multi-hook max-trigger-count protocol (one instance per hook)
-/
namespace Hive.EventsMaxN
open Hive.Conc
open Hive.EventsMax (minLim minLim_succ_exceeds minLim_succ_not_exceeds exceeds_iff)

def atCall (i : Nat) : Th → Bool
  | .h j .call => j == i
  | _ => false

def atUnhook (i : Nat) : Th → Bool
  | .h j .unhook => j == i
  | _ => false

/-- The caller has passed the event's check and has not yet performed hook `i`'s `Add`
(nor skipped it). -/
def pending (i : Nat) : Th → Bool
  | .h j .look => decide (j ≤ i)
  | .h j .add => decide (j ≤ i)
  | .h j _ => decide (j < i)
  | _ => false

def notT0 : Th → Bool
  | .t0 => false
  | _ => true

structure HInv (s : Sh) (ts : List Th) (i : Nat) (hk : HSt) : Prop where
  fired : hk.fired + ts.countP (atCall i) = minLim hk.m hk.hc
  visits : s.passed = hk.hc + ts.countP (pending i) + hk.skipped
  gone : (0 < ts.countP (atUnhook i) ∨ hk.attached = false) → hk.m ≠ 0 ∧ hk.m < hk.hc
  skipped : 0 < hk.skipped → hk.attached = false

structure Inv (c : Cfg Sh Th) : Prop where
  ec : c.1.ec = c.2.countP notT0
  passed : c.1.passed = minLim c.1.n c.1.ec
  hooks : ∀ (i : Nat) (hk : HSt), c.1.hooks[i]? = some hk → HInv c.1 c.2 i hk
  bound : ∀ t ∈ c.2, ∀ j pc, t = Th.h j pc → j < c.1.hooks.length

theorem getElem?_lt {α : Type} {l : List α} {k : Nat} {x : α} (h : l[k]? = some x) : k < l.length := by
  rcases Nat.lt_or_ge k l.length with h' | h'
  · exact h'
  · rw [List.getElem?_eq_none h'] at h; cases h

/-- Effect of a step of a caller that works on hook `j` on the invariant of another hook `i ≠ j`. -/
theorem other_hook {s : Sh} {pre post : List Th} {i j : Nat} {hk : HSt} {pc : HPc} {t' : Th} {p' : Nat}
    (h : HInv s (pre ++ Th.h j pc :: post) i hk) (hij : i ≠ j) (hp : p' = s.passed)
    (ht' : (∃ pc', t' = .h j pc') ∨ (t' = .h (j + 1) .look) ∨ (t' = .fin ∧ i < j)) :
    ∀ s' : Sh, s'.passed = p' → HInv s' (pre ++ t' :: post) i hk := by
  intro s' hs'
  obtain ⟨h1, h2, h3, h4⟩ := h
  simp only [countP_mid] at h1 h2 h3 ⊢
  have e1 : atCall i (Th.h j pc) = false := by cases pc <;> simp [atCall]; exact fun x => hij x.symm
  have e2 : atUnhook i (Th.h j pc) = false := by cases pc <;> simp [atUnhook]; exact fun x => hij x.symm
  have e3 : pending i (Th.h j pc) = decide (j < i) := by
    cases pc <;> simp [pending] <;> omega
  have f1 : atCall i t' = false := by
    rcases ht' with ⟨pc', rfl⟩ | rfl | ⟨rfl, _⟩
    · cases pc' <;> simp [atCall]; exact fun x => hij x.symm
    · simp [atCall]
    · simp [atCall]
  have f2 : atUnhook i t' = false := by
    rcases ht' with ⟨pc', rfl⟩ | rfl | ⟨rfl, _⟩
    · cases pc' <;> simp [atUnhook]; exact fun x => hij x.symm
    · simp [atUnhook]
    · simp [atUnhook]
  have f3 : pending i t' = decide (j < i) := by
    rcases ht' with ⟨pc', rfl⟩ | rfl | ⟨rfl, hlt⟩
    · cases pc' <;> simp [pending] <;> omega
    · simp [pending]; omega
    · simp [pending]; omega
  constructor
  · simp only [countP_mid]; rw [f1]; rw [e1] at h1; exact h1
  · simp only [countP_mid]; rw [f3, hs', hp]; rw [e3] at h2; exact h2
  · simp only [countP_mid]; rw [f2]; rw [e2] at h3; exact h3
  · exact h4

theorem nextTh_cases (s : Sh) (j : Nat) :
    (nextTh s j = .h (j + 1) .look ∧ j + 1 < s.hooks.length) ∨ (nextTh s j = .fin ∧ ¬ j + 1 < s.hooks.length) := by
  unfold nextTh
  by_cases h : j + 1 < s.hooks.length
  · left; simp [h]
  · right; simp [h]

theorem setH_get (s : Sh) (j : Nat) (x : HSt) (i : Nat) (hj : j < s.hooks.length) :
    (setH s j x).hooks[i]? = if j = i then some x else s.hooks[i]? := by
  simp only [setH, List.getElem?_set]
  by_cases h : j = i
  · subst h; simp [hj]
  · simp [h]

/-- A step of a caller that works on hook `j`, seen from hook `i`. -/
theorem hook_step {s s' : Sh} {pre post : List Th} {j : Nat} {pc : HPc} {t' : Th}
    (hinv : Inv (s, pre ++ Th.h j pc :: post)) (hm : (s', t') ∈ step s (Th.h j pc)) (i : Nat) (hk' : HSt)
    (hi : s'.hooks[i]? = some hk') : HInv s' (pre ++ t' :: post) i hk' := by
  have hjlt : j < s.hooks.length := hinv.bound (Th.h j pc) (by simp) j pc rfl
  obtain ⟨hkj, hhkj⟩ : ∃ x, s.hooks[j]? = some x := ⟨s.hooks[j], List.getElem?_eq_getElem hjlt⟩
  simp only [step, hhkj] at hm
  by_cases hij : i = j
  · -- the hook the caller works on
    subst hij
    have hold := hinv.hooks i hkj hhkj
    obtain ⟨h1, h2, h3, h4⟩ := hold
    simp only [countP_mid] at h1 h2 h3
    cases pc with
    | look =>
      simp [atCall, atUnhook, pending] at h1 h2 h3
      by_cases ha : hkj.attached = true
      · simp only [ha, if_true, List.mem_singleton, Prod.mk.injEq] at hm
        obtain ⟨rfl, rfl⟩ := hm
        rw [hhkj] at hi; cases hi
        constructor
        all_goals (try simp only [countP_mid])
        all_goals (try simp [atCall, atUnhook, pending])
        all_goals first | omega | exact h3 | exact h4
      · simp only [ha, Bool.false_eq_true, if_false, List.mem_singleton, Prod.mk.injEq] at hm
        obtain ⟨rfl, rfl⟩ := hm
        rw [setH_get s i _ i hjlt] at hi
        simp only [if_true, Option.some.injEq] at hi; subst hi
        have haf : hkj.attached = false := by simpa using ha
        have hg := h3 (Or.inr haf)
        rcases nextTh_cases s i with ⟨hn, _⟩ | ⟨hn, _⟩ <;> rw [hn]
        all_goals constructor
        all_goals (try simp only [countP_mid])
        all_goals (try simp [atCall, atUnhook, pending, setH, Nat.not_succ_le_self])
        all_goals first | omega | exact fun _ => hg | exact haf | (intro _; exact haf)
    | add =>
      simp [atCall, atUnhook, pending] at h1 h2 h3
      by_cases hx : hkj.m ≠ 0 ∧ hkj.m < hkj.hc + 1
      · rw [if_pos ((exceeds_iff _ _).mpr hx)] at hm
        simp only [List.mem_singleton, Prod.mk.injEq] at hm
        obtain ⟨rfl, rfl⟩ := hm
        rw [setH_get s i _ i hjlt] at hi
        simp only [if_true, Option.some.injEq] at hi; subst hi
        have hmin := minLim_succ_exceeds hx
        constructor
        all_goals (try simp only [countP_mid])
        all_goals (try simp [atCall, atUnhook, pending, setH])
        all_goals first | omega | exact h4 | exact hx
      · rw [if_neg (fun hh => hx ((exceeds_iff _ _).mp hh))] at hm
        simp only [List.mem_singleton, Prod.mk.injEq] at hm
        obtain ⟨rfl, rfl⟩ := hm
        rw [setH_get s i _ i hjlt] at hi
        simp only [if_true, Option.some.injEq] at hi; subst hi
        have hmin := minLim_succ_not_exceeds hx
        constructor
        all_goals (try simp only [countP_mid])
        all_goals (try simp [atCall, atUnhook, pending, setH])
        all_goals first | omega | exact h4 | (intro hh; have := h3 hh; exact ⟨this.1, by omega⟩)
    | unhook =>
      simp [atCall, atUnhook, pending] at h1 h2 h3
      simp only [List.mem_singleton, Prod.mk.injEq] at hm
      obtain ⟨rfl, rfl⟩ := hm
      rw [setH_get s i _ i hjlt] at hi
      simp only [if_true, Option.some.injEq] at hi; subst hi
      rcases nextTh_cases s i with ⟨hn, _⟩ | ⟨hn, _⟩ <;> rw [hn]
      all_goals constructor
      all_goals (try simp only [countP_mid])
      all_goals (try simp [atCall, atUnhook, pending, setH, Nat.not_succ_le_self])
      all_goals first | omega | exact h3
    | call =>
      simp [atCall, atUnhook, pending] at h1 h2 h3
      simp only [List.mem_singleton, Prod.mk.injEq] at hm
      obtain ⟨rfl, rfl⟩ := hm
      rw [setH_get s i _ i hjlt] at hi
      simp only [if_true, Option.some.injEq] at hi; subst hi
      rcases nextTh_cases s i with ⟨hn, _⟩ | ⟨hn, _⟩ <;> rw [hn]
      all_goals constructor
      all_goals (try simp only [countP_mid])
      all_goals (try simp [atCall, atUnhook, pending, setH, Nat.not_succ_le_self])
      all_goals first | omega | exact h3 | exact h4
  · -- another hook: its record is untouched
    have hilt : i < s.hooks.length := by
      have := getElem?_lt hi
      cases pc <;> simp only at hm
      · split at hm <;> simp at hm <;> obtain ⟨rfl, rfl⟩ := hm <;> simpa [setH] using this
      · split at hm <;> simp at hm <;> obtain ⟨rfl, rfl⟩ := hm <;> simpa [setH] using this
      · simp at hm; obtain ⟨rfl, rfl⟩ := hm; simpa [setH] using this
      · simp at hm; obtain ⟨rfl, rfl⟩ := hm; simpa [setH] using this
    have hji : ¬ j = i := fun x => hij x.symm
    have key : ∀ (x : HSt) (tt : Th), s' = setH s j x ∨ s' = s → t' = tt →
        ((∃ pc', tt = .h j pc') ∨ tt = nextTh s j) → HInv s' (pre ++ t' :: post) i hk' := by
      intro x tt hs ht hshape
      have hget : s.hooks[i]? = some hk' := by
        rcases hs with rfl | rfl
        · rw [setH_get s j x i hjlt] at hi; simpa [hji] using hi
        · exact hi
      have hp : s'.passed = s.passed := by rcases hs with rfl | rfl <;> rfl
      subst ht
      refine other_hook (hinv.hooks i hk' hget) hij rfl ?_ s' hp
      rcases hshape with h | h
      · exact Or.inl h
      · rcases nextTh_cases s j with ⟨hn, _⟩ | ⟨hn, hnl⟩
        · right; left; rw [h, hn]
        · right; right; rw [h, hn]; exact ⟨rfl, by omega⟩
    cases pc with
    | look =>
      by_cases ha : hkj.attached = true
      · simp only [ha, if_true, List.mem_singleton, Prod.mk.injEq] at hm
        exact key hkj _ (Or.inr hm.1) hm.2 (Or.inl ⟨_, rfl⟩)
      · simp only [ha, Bool.false_eq_true, if_false, List.mem_singleton, Prod.mk.injEq] at hm
        exact key _ _ (Or.inl hm.1) hm.2 (Or.inr rfl)
    | add =>
      by_cases hx : Hive.Events.exceeds hkj.m (hkj.hc + 1) = true
      · simp only [hx, if_true, List.mem_singleton, Prod.mk.injEq] at hm
        exact key _ _ (Or.inl hm.1) hm.2 (Or.inl ⟨_, rfl⟩)
      · simp only [hx, Bool.false_eq_true, if_false, List.mem_singleton, Prod.mk.injEq] at hm
        exact key _ _ (Or.inl hm.1) hm.2 (Or.inl ⟨_, rfl⟩)
    | unhook =>
      simp only [List.mem_singleton, Prod.mk.injEq] at hm
      exact key _ _ (Or.inl hm.1) hm.2 (Or.inr rfl)
    | call =>
      simp only [List.mem_singleton, Prod.mk.injEq] at hm
      exact key _ _ (Or.inl hm.1) hm.2 (Or.inr rfl)

/-- Shape of one step of a hook-working caller: the shared counters, the number of hooks and the
limits stay, the caller stays past `t0` and keeps pointing at an existing hook. -/
theorem hook_step_frame {s s' : Sh} {j : Nat} {pc : HPc} {t' : Th} (hjlt : j < s.hooks.length)
    (hm : (s', t') ∈ step s (Th.h j pc)) :
    s'.ec = s.ec ∧ s'.passed = s.passed ∧ s'.n = s.n ∧ s'.hooks.length = s.hooks.length ∧
    s'.hooks.map (·.m) = s.hooks.map (·.m) ∧ notT0 t' = true ∧
    (∀ j' pc', t' = Th.h j' pc' → j' < s.hooks.length) := by
  obtain ⟨hkj, hhkj⟩ : ∃ x, s.hooks[j]? = some x := ⟨s.hooks[j], List.getElem?_eq_getElem hjlt⟩
  have hmap : ∀ x : HSt, x.m = hkj.m → (setH s j x).hooks.map (·.m) = s.hooks.map (·.m) := by
    intro x hx
    apply List.ext_getElem?
    intro k
    simp only [List.getElem?_map, setH_get s j x k hjlt]
    by_cases hjk : j = k
    · subst hjk; simp [hhkj, hx]
    · simp [hjk]
  have hnext : ∀ j' pc', nextTh s j = Th.h j' pc' → j' < s.hooks.length := by
    intro j' pc' h
    rcases nextTh_cases s j with ⟨hn, hl⟩ | ⟨hn, _⟩
    · rw [hn] at h; cases h; exact hl
    · rw [hn] at h; cases h
  have hnt : notT0 (nextTh s j) = true := by
    rcases nextTh_cases s j with ⟨hn, _⟩ | ⟨hn, _⟩ <;> rw [hn] <;> rfl
  simp only [step, hhkj] at hm
  cases pc with
  | look =>
    by_cases ha : hkj.attached = true
    · simp only [ha, if_true, List.mem_singleton, Prod.mk.injEq] at hm
      obtain ⟨rfl, rfl⟩ := hm
      exact ⟨rfl, rfl, rfl, rfl, rfl, rfl, fun j' pc' h => by cases h; exact hjlt⟩
    · simp only [ha, Bool.false_eq_true, if_false, List.mem_singleton, Prod.mk.injEq] at hm
      obtain ⟨rfl, rfl⟩ := hm
      exact ⟨rfl, rfl, rfl, by simp [setH], hmap _ rfl, hnt, hnext⟩
  | add =>
    by_cases hx : Hive.Events.exceeds hkj.m (hkj.hc + 1) = true
    · simp only [hx, if_true, List.mem_singleton, Prod.mk.injEq] at hm
      obtain ⟨rfl, rfl⟩ := hm
      exact ⟨rfl, rfl, rfl, by simp [setH], hmap _ rfl, rfl, fun j' pc' h => by cases h; exact hjlt⟩
    · simp only [hx, Bool.false_eq_true, if_false, List.mem_singleton, Prod.mk.injEq] at hm
      obtain ⟨rfl, rfl⟩ := hm
      exact ⟨rfl, rfl, rfl, by simp [setH], hmap _ rfl, rfl, fun j' pc' h => by cases h; exact hjlt⟩
  | unhook =>
    simp only [List.mem_singleton, Prod.mk.injEq] at hm
    obtain ⟨rfl, rfl⟩ := hm
    exact ⟨rfl, rfl, rfl, by simp [setH], hmap _ rfl, hnt, hnext⟩
  | call =>
    simp only [List.mem_singleton, Prod.mk.injEq] at hm
    obtain ⟨rfl, rfl⟩ := hm
    exact ⟨rfl, rfl, rfl, by simp [setH], hmap _ rfl, hnt, hnext⟩

theorem inv_step {a b : Cfg Sh Th} (h : Inv a) (hs : Step sys a b) : Inv b := by
  cases hs with
  | mk s pre t post s' t' hm =>
    simp only [sys] at hm
    have hmem : ∀ x, x ∈ pre ++ t' :: post → x = t' ∨ x ∈ pre ++ t :: post := by
      intro x hx
      simp only [List.mem_append, List.mem_cons] at hx ⊢
      rcases hx with hx | rfl | hx
      · exact Or.inr (Or.inl hx)
      · exact Or.inl rfl
      · exact Or.inr (Or.inr (Or.inr hx))
    cases t with
    | fin => simp [step] at hm
    | h j pc =>
      have hjlt : j < s.hooks.length := h.bound (Th.h j pc) (by simp) j pc rfl
      obtain ⟨f1, f2, f3, f4, _, f6, f7⟩ := hook_step_frame hjlt hm
      refine ⟨?_, ?_, fun i hk' hi => hook_step h hm i hk' hi, ?_⟩
      · have := h.ec
        simp only [countP_mid] at this ⊢
        simp only [f6, f1, if_true]
        simpa [notT0] using this
      · simp only; rw [f2, f3, f1]; exact h.passed
      · intro x hx j' pc' hxe
        simp only; rw [f4]
        rcases hmem x hx with rfl | hx
        · exact f7 j' pc' hxe
        · exact h.bound x hx j' pc' hxe
    | t0 =>
      simp only [step] at hm
      have hec := h.ec
      have hpa := h.passed
      simp only [countP_mid, notT0] at hec
      simp only at hpa
      by_cases hx : s.n ≠ 0 ∧ s.n < s.ec + 1
      · rw [if_pos ((exceeds_iff _ _).mpr hx)] at hm
        simp only [List.mem_singleton, Prod.mk.injEq] at hm
        obtain ⟨rfl, rfl⟩ := hm
        have hmin := minLim_succ_exceeds hx
        refine ⟨?_, ?_, ?_, ?_⟩
        · simp only [countP_mid, notT0]; simp at hec ⊢; omega
        · simp only; rw [hmin]; exact hpa
        · intro i hk hi
          obtain ⟨h1, h2, h3, h4⟩ := h.hooks i hk hi
          simp only [countP_mid] at h1 h2 h3
          simp [atCall, atUnhook, pending] at h1 h2 h3
          constructor
          all_goals (try simp only [countP_mid])
          all_goals (try simp [atCall, atUnhook, pending])
          all_goals first | omega | exact h3 | exact h4
        · intro x hx' j' pc' hxe
          rcases hmem x hx' with rfl | hx'
          · cases hxe
          · exact h.bound x hx' j' pc' hxe
      · rw [if_neg (fun hh => hx ((exceeds_iff _ _).mp hh))] at hm
        simp only [List.mem_singleton, Prod.mk.injEq] at hm
        obtain ⟨rfl, rfl⟩ := hm
        have hmin := minLim_succ_not_exceeds hx
        refine ⟨?_, ?_, ?_, ?_⟩
        · simp only [countP_mid]
          by_cases hl : 0 < s.hooks.length <;> simp [hl, notT0] at hec ⊢ <;> omega
        · simp only; rw [hmin, hpa]
        · intro i hk hi
          have hl : 0 < s.hooks.length := by have := getElem?_lt hi; simp only at this; omega
          obtain ⟨h1, h2, h3, h4⟩ := h.hooks i hk hi
          simp only [countP_mid] at h1 h2 h3
          simp [atCall, atUnhook, pending] at h1 h2 h3
          constructor
          all_goals (try simp only [countP_mid])
          all_goals (try simp [hl, atCall, atUnhook, pending])
          all_goals first | omega | exact h3 | exact h4
        · intro x hx' j' pc' hxe
          rcases hmem x hx' with rfl | hx'
          · by_cases hl : 0 < s.hooks.length
            · simp only [hl, if_true] at hxe; cases hxe; exact hl
            · simp only [hl, if_false] at hxe; cases hxe
          · exact h.bound x hx' j' pc' hxe

theorem inv_init (n : Nat) (ms : List Nat) (ts : List Th) (hts : ∀ t ∈ ts, t = .t0) : Inv (init n ms, ts) := by
  have hz : ∀ p : Th → Bool, p .t0 = false → ts.countP p = 0 := by
    intro p hp
    rw [List.countP_eq_zero]
    intro t ht; rw [hts t ht, hp]; simp
  refine ⟨?_, ?_, ?_, ?_⟩
  · simp [init, hz notT0 rfl]
  · simp [init, minLim]
  · intro i hk hi
    simp only [init, List.getElem?_map, Option.map_eq_some_iff] at hi
    obtain ⟨m, _, rfl⟩ := hi
    constructor
    · simp [minLim, hz (atCall i) rfl]
    · simp [init, hz (pending i) rfl]
    · simp [hz (atUnhook i) rfl]
    · simp
  · intro t ht j pc he
    rw [hts t ht] at he; cases he

/-- The limits never change. -/
theorem lim_step {a b : Cfg Sh Th} (h : Inv a) (hs : Step sys a b) :
    b.1.n = a.1.n ∧ b.1.hooks.map (·.m) = a.1.hooks.map (·.m) := by
  cases hs with
  | mk s pre t post s' t' hm =>
    simp only [sys] at hm
    cases t with
    | fin => simp [step] at hm
    | h j pc =>
      have hjlt : j < s.hooks.length := h.bound (Th.h j pc) (by simp) j pc rfl
      obtain ⟨_, _, f3, _, f5, _, _⟩ := hook_step_frame hjlt hm
      exact ⟨f3, f5⟩
    | t0 =>
      simp only [step] at hm
      split at hm <;> simp at hm <;> obtain ⟨rfl, rfl⟩ := hm <;> exact ⟨rfl, rfl⟩

end Hive.EventsMaxN
