import Hive.Model.SerixPrim
import Hive.Proofs.SerixRoundTrip
/-!
# The element validators as state machines accept exactly `validSeq`; the `Serializer` chain is sticky

`vRun` (Model/SerixPrim) runs the closures `ArrayRules.ElementValidationFunc` chains — a map of seen elements, a
previous element, maps of seen type bytes / words — over the elements in order.  `vRun_ok_iff_validSeq`: the run
accepts every element iff the declarative `validSeq` of the serix model holds, for every rule set and every
sequence.  This discharges what `Hive/Model/Serix.lean` had assumed about the validators.
-/
namespace Hive.Serix

/-! ## Every step accepted -/

def vAll (r : Rules) : VSt → List Bytes → Bool
  | _, [] => true
  | st, x :: xs => (vErr r st x).isNone && vAll r (vNext r st x) xs

theorem vRun_none_iff (r : Rules) (st : VSt) (data : List Bytes) :
    (vRun r st data).2 = none ↔ vAll r st data = true := by
  induction data generalizing st with
  | nil => simp [vRun, vAll]
  | cons x xs ih =>
    simp only [vRun, vAll]
    cases h : vErr r st x with
    | some e => simp
    | none => simpa using ih (vNext r st x)

/-- The elements written before the refusal are a prefix of the elements. -/
theorem vRun_prefix (r : Rules) (st : VSt) (data : List Bytes) :
    ∃ rest, data = (vRun r st data).1 ++ rest := by
  induction data generalizing st with
  | nil => exact ⟨[], rfl⟩
  | cons x xs ih =>
    simp only [vRun]
    cases h : vErr r st x with
    | some e => exact ⟨x :: xs, rfl⟩
    | none =>
      obtain ⟨rest, hr⟩ := ih (vNext r st x)
      exact ⟨rest, by simp [← hr]⟩

/-- Without a refusal everything is written. -/
theorem vRun_all (r : Rules) (st : VSt) (data : List Bytes) (h : (vRun r st data).2 = none) :
    (vRun r st data).1 = data := by
  induction data generalizing st with
  | nil => rfl
  | cons x xs ih =>
    simp only [vRun] at h ⊢
    cases hx : vErr r st x with
    | some e => simp [hx] at h
    | none =>
      simp only [hx] at h ⊢
      rw [ih _ h]

/-! ## The single validators -/

/-- `ElementUniqueValidator` from a given map. -/
def okU (set : List Bytes) : List Bytes → Bool
  | [] => true
  | x :: xs => !set.contains x && okU (x :: set) xs

/-- `LexicalOrderValidator` / `LexicalOrderWithoutDupsValidator` from a given previous element. -/
def okL (R : Bytes → Bytes → Bool) (prev : Option Bytes) : List Bytes → Bool
  | [] => true
  | x :: xs => (match prev with | some p => R p x | none => true) && okL R (some x) xs

/-- `AtMostOneOfEachTypeValidator` from a given map. -/
def okT (w : Nat) (seen : List Bytes) : List Bytes → Bool
  | [] => true
  | x :: xs => (!decide (x.length < w) && !seen.contains (x.take w)) && okT w (x.take w :: seen) xs

theorem orElse_isNone {α : Type} (a : Option α) (f : Unit → Option α) :
    (a.orElse f).isNone = (a.isNone && (f ()).isNone) := by
  cases a <;> simp [Option.orElse]

theorem chkU_isNone (r : Rules) (st : VSt) (x : Bytes) :
    (chkU r st x).isNone = (!(r.noDups && !r.lex) || !st.set.contains x) := by
  unfold chkU
  cases (r.noDups && !r.lex) <;> cases (st.set.contains x) <;> simp

theorem chkL_isNone (r : Rules) (st : VSt) (x : Bytes) :
    (chkL r st x).isNone =
      (!r.lex || (match st.prev with | some p => (if r.noDups then lexLt p x else lexLe p x) | none => true)) := by
  unfold chkL lexLt
  cases r.lex <;> cases st.prev <;> cases r.noDups <;> simp
  · rename_i p; cases lexLe p x <;> simp
  · rename_i p; cases lexLe p x <;> by_cases h : p = x <;> simp [h]

theorem chkT_isNone (on : Bool) (w : Nat) (seen : List Bytes) (x : Bytes) :
    (chkT on w seen x).isNone = (!on || (!decide (x.length < w) && !seen.contains (x.take w))) := by
  unfold chkT
  cases on <;> by_cases h : x.length < w <;> cases hs : seen.contains (x.take w) <;> simp [h, hs]

theorem vErr_isNone (r : Rules) (st : VSt) (x : Bytes) :
    (vErr r st x).isNone = ((chkU r st x).isNone && (chkL r st x).isNone &&
      (chkT r.one8 1 st.seen8 x).isNone && (chkT r.one32 4 st.seen32 x).isNone) := by
  simp only [vErr, orElse_isNone, Bool.and_assoc]

theorem vAll_eq (r : Rules) (st : VSt) (data : List Bytes) :
    vAll r st data =
      ((!(r.noDups && !r.lex) || okU st.set data) &&
       (!r.lex || okL (if r.noDups then lexLt else lexLe) st.prev data) &&
       (!r.one8 || okT 1 st.seen8 data) && (!r.one32 || okT 4 st.seen32 data)) := by
  induction data generalizing st with
  | nil => simp [vAll, okU, okL, okT]
  | cons x xs ih =>
    rw [vAll, ih, vErr_isNone, chkU_isNone, chkL_isNone, chkT_isNone, chkT_isNone]
    obtain ⟨mn, mx, nd, lx, o8, o32, mo, as⟩ := r
    obtain ⟨set, prev, s8, s32⟩ := st
    cases nd <;> cases lx <;> cases o8 <;> cases o32 <;>
      simp only [vNext, okU, okL, okT, Bool.not_true, Bool.not_false, Bool.and_true, Bool.and_false, Bool.false_or,
        Bool.true_or, Bool.true_and, Bool.false_and, if_true, if_false, Bool.false_eq_true, Bool.or_true, Bool.or_false] <;>
      ac_rfl

theorem all_not_contains_cons (x : Bytes) (set xs : List Bytes) :
    xs.all (fun y => !(x :: set).contains y) = (!xs.contains x && xs.all (fun y => !set.contains y)) := by
  induction xs with
  | nil => simp
  | cons y ys ih =>
    have h1 : (!(x :: set).contains y) = (!(y == x) && !set.contains y) := by
      rw [List.contains_cons, Bool.not_or]
    have h2 : (y :: ys).contains x = ((x == y) || ys.contains x) := List.contains_cons ..
    have hc : (y == x) = (x == y) := by
      by_cases h : y = x
      · subst h; simp
      · have h' : ¬ x = y := fun e => h e.symm
        rw [beq_eq_false_iff_ne.2 h, beq_eq_false_iff_ne.2 h']
    rw [List.all_cons, List.all_cons, ih, h1, h2, hc, Bool.not_or]
    ac_rfl

theorem all_const_true {α : Type} (l : List α) : l.all (fun _ => true) = true := by
  induction l with
  | nil => rfl
  | cons a as ih => rw [List.all_cons, ih]; rfl

theorem okU_eq (set data : List Bytes) :
    okU set data = (nodupB data && data.all (fun y => !set.contains y)) := by
  induction data generalizing set with
  | nil => simp [okU, nodupB]
  | cons x xs ih =>
    simp only [okU, ih, nodupB, List.all_cons, all_not_contains_cons]
    cases (set.contains x) <;> cases (xs.contains x) <;> cases (nodupB xs) <;> simp

theorem okL_some (R : Bytes → Bytes → Bool) (p : Bytes) (data : List Bytes) :
    okL R (some p) data = adjOk R (p :: data) := by
  induction data generalizing p with
  | nil => simp [okL, adjOk]
  | cons x xs ih => simp [okL, adjOk, ih]

theorem okL_none (R : Bytes → Bytes → Bool) (data : List Bytes) : okL R none data = adjOk R data := by
  cases data with
  | nil => simp [okL, adjOk]
  | cons x xs => simp [okL, okL_some]

theorem okT_eq (w : Nat) (seen data : List Bytes) :
    okT w seen data = (data.all (fun b => decide (w ≤ b.length)) && okU seen (data.map (fun b => b.take w))) := by
  induction data generalizing seen with
  | nil => simp [okT, okU]
  | cons x xs ih =>
    have hd : decide (w ≤ x.length) = !decide (x.length < w) := by
      by_cases h : x.length < w <;> simp [h] <;> omega
    simp only [okT, ih, List.all_cons, List.map_cons, okU, hd]
    cases (decide (x.length < w)) <;> cases (seen.contains (x.take w)) <;>
      cases (xs.all fun b => decide (w ≤ b.length)) <;> simp

theorem okT_nil (w : Nat) (data : List Bytes) : okT w [] data = typeUnique w data := by
  rw [okT_eq, okU_eq]
  simp [typeUnique, all_const_true]

/-- **The validators, run as the state machines they are over the elements in order, accept exactly the sequences the
declarative `validSeq` describes** — for every rule set and every sequence of element encodings. -/
theorem vRun_ok_iff_validSeq (r : Rules) (data : List Bytes) :
    (vRun r {} data).2 = none ↔ validSeq r data = true := by
  rw [vRun_none_iff, vAll_eq]
  simp only [okL_none, okT_nil, okU_eq, List.contains_nil, Bool.not_false, List.all_eq_true, implies_true,
    Bool.and_true, validSeq]
  obtain ⟨mn, mx, nd, lx, o8, o32, mo, as⟩ := r
  cases nd <;> cases lx <;> cases o8 <;> cases o32 <;> simp

/-- `bytes.Compare(empty, next) ≤ 0`: why the `prev == nil` test of `LexicalOrderValidator` cannot misfire. -/
theorem lexLe_nil (x : Bytes) : lexLe [] x = true := by
  cases x <;> rfl

/-! ## `ArrayRules.CheckBounds` -/

theorem boundsErr_none_iff (r : Rules) (n : Nat) : boundsErr r n = none ↔ r.boundsOk n = true := by
  unfold boundsErr Rules.boundsOk Hive.Serix.boundsOk
  by_cases h1 : r.min = 0 <;> by_cases h2 : r.max = 0 <;> by_cases h3 : n < r.min <;> by_cases h4 : n > r.max <;>
    simp [h1, h2, h3, h4] <;> omega

/-! ## `WriteSliceOfByteSlices` refines `encSeq` -/

theorem wLen_done_iff (lp : LP) (l : Nat) (p : Bytes) : wLen lp l = .done p none ↔ writeLen lp l = .ok p := by
  unfold wLen writeLen
  cases lp.width with
  | none => simp
  | some w => by_cases h : l < 256 ^ w <;> simp [h]

/-- A `WriteSliceOfByteSlices` call completes without error, having appended `b`, iff the serix model's `encSeq`
produces `b`. -/
theorem wOp_seq_done_iff (lp : LP) (r : Rules) (val : Bool) (items : List Bytes) (b : Bytes) :
    wOp (.seq lp r val items) = .done b none ↔ encSeq lp r ⟨val, false⟩ items = .ok b := by
  unfold wOp encSeq
  cases hw : lp.width with
  | none => cases val <;> simp [wLen, hw] <;> (try (cases boundsErr r items.length <;> simp))
  | some w =>
    have hwl : ∀ p, wLen lp items.length = .done p none ↔ writeLen lp items.length = .ok p := wLen_done_iff lp _
    unfold wLen writeLen at hwl
    simp only [hw] at hwl
    cases val with
    | false =>
      by_cases hl : items.length < 256 ^ w
      · simp [wLen, writeLen, hw, hl, Res.require]
      · simp [wLen, writeLen, hw, hl, Res.require]
    | true =>
      cases hb : boundsErr r items.length with
      | some e =>
        have : r.boundsOk items.length = false := by
          cases h : r.boundsOk items.length
          · rfl
          · rw [(boundsErr_none_iff r _).2 h] at hb; cases hb
        simp [hb, this, Res.require]
      | none =>
        have hbo := (boundsErr_none_iff r _).1 hb
        by_cases hl : items.length < 256 ^ w
        · simp only [hb, wLen, writeLen, hw, hl, if_true, hbo, Bool.not_true, Bool.or_true, Res.require, Option.isNone_some,
            Bool.false_eq_true, if_false, Res.ok_bind]
          generalize (if (r.autoSort && r.lex) = true then sortBytes items else items) = data
          cases hv : (vRun r {} data).2 with
          | none =>
            have h1 := (vRun_ok_iff_validSeq r data).1 hv
            have h2 := vRun_all r {} data hv
            rcases hrun : vRun r {} data with ⟨acc, e⟩
            rw [hrun] at hv h2
            simp only at hv h2
            subst hv; subst h2
            simp [h1]
          | some e =>
            have h1 : validSeq r data = false := by
              cases h : validSeq r data
              · rfl
              · rw [(vRun_ok_iff_validSeq r data).2 h] at hv; cases hv
            rcases hrun : vRun r {} data with ⟨acc, e'⟩
            rw [hrun] at hv
            simp only at hv
            subst hv
            simp [h1]
        · simp [hb, wLen, writeLen, hw, hl, hbo, Res.require]

/-! ## The chain is sticky and only appends -/

theorem Ser.run_of_err (s : Ser) (h : s.err.isSome = true) (ops : List WOp) : s.run ops = some s := by
  induction ops with
  | nil => rfl
  | cons op ops ih => simp [Ser.run, Ser.step, h, ih]

/-- Every call appends: the buffer before is a prefix of the buffer after. -/
theorem Ser.step_prefix (s s' : Ser) (op : WOp) (h : s.step op = some s') : ∃ bs, s'.buf = s.buf ++ bs := by
  unfold Ser.step at h
  split at h
  · cases h; exact ⟨[], by simp⟩
  · split at h
    · cases h; exact ⟨_, rfl⟩
    · cases h

theorem Ser.run_prefix (s s' : Ser) (ops : List WOp) (h : s.run ops = some s') : ∃ bs, s'.buf = s.buf ++ bs := by
  induction ops generalizing s with
  | nil => cases h; exact ⟨[], by simp⟩
  | cons op ops ih =>
    simp only [Ser.run] at h
    cases hs : s.step op with
    | none => simp [hs] at h
    | some s1 =>
      simp only [hs] at h
      obtain ⟨b1, h1⟩ := Ser.step_prefix s s1 op hs
      obtain ⟨b2, h2⟩ := ih s1 h
      exact ⟨b1 ++ b2, by rw [h2, h1, List.append_assoc]⟩

/-- A chain that ends without a stored error wrote, call by call, the concatenation of what each call writes. -/
def wBytes : WOp → Bytes
  | op => match wOp op with
    | .done bs _ => bs
    | .panic => []

theorem Ser.run_ok_buf (s s' : Ser) (ops : List WOp) (h : s.run ops = some s') (he : s'.err = none) :
    s'.buf = s.buf ++ (ops.map wBytes).flatten := by
  induction ops generalizing s with
  | nil => cases h; simp
  | cons op ops ih =>
    simp only [Ser.run] at h
    cases hs : s.step op with
    | none => simp [hs] at h
    | some s1 =>
      simp only [hs] at h
      by_cases hse : s.err.isSome = true
      · -- a stored error stays: contradiction with the clean end
        have := Ser.run_of_err s hse ops
        simp only [Ser.step, hse, if_true] at hs
        cases hs
        rw [this] at h; cases h
        simp [he] at hse
      · unfold Ser.step at hs
        simp only [hse, if_false] at hs
        cases hop : wOp op with
        | panic => simp [hop] at hs
        | done bs e =>
          simp only [hop] at hs
          cases hs
          rw [ih _ h]
          simp [wBytes, hop, List.append_assoc]

end Hive.Serix
