import Hive.Model.EventsNotifierRace
/-!
# Invariant of the `Wait` protocol model (repaired code)
-/
namespace Hive.NotifierRace
open Hive.Conc

/-- Shared-state part of the invariant. -/
structure ShInv (s : Sh) : Prop where
  closed_flag : s.nchan = true → s.inWindow = false → s.flag = true
  gone_flag : s.lcounted = false → s.flag = true

/-- Per-thread part of the invariant. -/
def ThInv (s : Sh) : Th → Prop
  | .w2 => s.nchan = true
  | .dr (some .ok) pc => s.inWindow = true ∧ (pc = .close ∨ pc = .remove → s.flag = true)
  | .dr _ pc => pc = .close ∨ pc = .remove → s.flag = true
  | _ => True

/-- Flags only ever go up. -/
def Le (s s' : Sh) : Prop :=
  (s.flag = true → s'.flag = true) ∧ (s.nchan = true → s'.nchan = true) ∧ (s.inWindow = true → s'.inWindow = true)

theorem ThInv.mono {s s' : Sh} (hle : Le s s') {t : Th} (h : ThInv s t) : ThInv s' t := by
  obtain ⟨h1, h2, h3⟩ := hle
  cases t with
  | w2 => exact h2 h
  | dr r pc =>
    cases r with
    | none => exact fun x => h1 (h x)
    | some r =>
      cases r with
      | ok => exact ⟨h3 h.1, fun x => h1 (h.2 x)⟩
      | dereg => exact fun x => h1 (h x)
      | ctx => exact fun x => h1 (h x)
  | _ => trivial

theorem ThInv.past_swap {s : Sh} {r : Option Res} {pc : DPc} (h : ThInv s (.dr r pc))
    (hpc : pc = .close ∨ pc = .remove) : s.flag = true := by
  cases r with
  | none => exact h hpc
  | some r => cases r with
    | ok => exact h.2 hpc
    | dereg => exact h hpc
    | ctx => exact h hpc

theorem le_removeL (s : Sh) : Le s (removeL s) := by
  unfold removeL Le
  by_cases h1 : (s.entry && s.lcounted) = true <;> by_cases h2 : (s.others == 0) = true <;> simp [h1, h2]

theorem le_removeO (s : Sh) : Le s (removeO s) := by
  unfold removeO Le
  by_cases h1 : (s.entry && decide (0 < s.others)) = true <;>
    by_cases h2 : (s.others == 1 && !s.lcounted) = true <;> simp [h1, h2]

theorem le_notify (s : Sh) : Le s (notify s) := by
  unfold notify Le
  by_cases h1 : s.entry = true <;> simp [h1]
  intro h; simp [h]

theorem removeO_fields (s : Sh) :
    (removeO s).flag = s.flag ∧ (removeO s).inWindow = s.inWindow ∧ (removeO s).lcounted = s.lcounted ∧
    ((removeO s).nchan = true → s.nchan = true ∨ s.lcounted = false) := by
  unfold removeO
  by_cases h1 : (s.entry && decide (0 < s.others)) = true <;>
    by_cases h2 : (s.others == 1 && !s.lcounted) = true <;> simp [h1, h2]
  · simp only [Bool.and_eq_true, Bool.not_eq_true'] at h2
    exact Or.inr h2.2
  all_goals exact fun h => Or.inl h

theorem notify_fields (s : Sh) :
    (notify s).flag = s.flag ∧ (notify s).lcounted = s.lcounted ∧
    ((notify s).nchan = true → (notify s).inWindow = false →
      s.flag = true ∨ (s.nchan = true ∧ s.inWindow = false)) := by
  unfold notify
  by_cases h1 : s.entry = true <;> simp [h1]
  · intro h2 h3; left; exact h3
  · intro h2 h3; right; exact ⟨h2, h3⟩

/-- One step of one thread: the shared invariant is preserved, flags go up, and the moved thread
satisfies its invariant in the new state. -/
theorem step_ok {s s' : Sh} {t t' : Th} (hs : ShInv s) (ht : ThInv s t) (hm : (s', t') ∈ step true s t) :
    ShInv s' ∧ Le s s' ∧ ThInv s' t' := by
  cases t with
  | w0 =>
    simp only [step] at hm
    split at hm <;> simp at hm <;> obtain ⟨rfl, rfl⟩ := hm
    · exact ⟨hs, ⟨id, id, id⟩, by simp [ThInv]⟩
    · exact ⟨hs, ⟨id, id, id⟩, trivial⟩
  | w1 =>
    simp only [step, List.mem_append, if_true] at hm
    rcases hm with (hm | hm) | hm
    · split at hm <;> simp at hm
      obtain ⟨rfl, rfl⟩ := hm
      rename_i hn
      exact ⟨hs, ⟨id, id, id⟩, hn⟩
    · split at hm <;> simp at hm
      obtain ⟨rfl, rfl⟩ := hm
      exact ⟨hs, ⟨id, id, id⟩, by simp [ThInv]⟩
    · split at hm <;> simp at hm
      obtain ⟨rfl, rfl⟩ := hm
      exact ⟨hs, ⟨id, id, id⟩, by simp [ThInv]⟩
  | w2 =>
    simp only [step] at hm
    split at hm <;> simp at hm <;> obtain ⟨rfl, rfl⟩ := hm
    · exact ⟨hs, ⟨id, id, id⟩, by simp [ThInv]⟩
    · rename_i hf
      have hin : s'.inWindow = true := by
        cases hw : s'.inWindow with
        | true => rfl
        | false => exact absurd (hs.closed_flag ht hw) hf
      exact ⟨hs, ⟨id, id, id⟩, ⟨hin, by simp⟩⟩
  | dr r pc =>
    simp only [step, List.mem_map] at hm
    obtain ⟨⟨s1, pc1⟩, hd, heq⟩ := hm
    simp only [Prod.mk.injEq] at heq
    obtain ⟨rfl, rfl⟩ := heq
    have hres : ∀ s2 pc2, Le s s2 → (pc2 = .close ∨ pc2 = .remove → s2.flag = true) → ThInv s2 (.dr r pc2) := by
      intro s2 pc2 hle hp
      cases r with
      | none => exact hp
      | some r => cases r with
        | ok => exact ⟨hle.2.2 ht.1, hp⟩
        | dereg => exact hp
        | ctx => exact hp
    cases pc with
    | swap =>
      simp only [dstep] at hd
      split at hd <;> simp at hd <;> obtain ⟨rfl, rfl⟩ := hd
      · exact ⟨hs, ⟨id, id, id⟩, hres _ _ ⟨id, id, id⟩ (by simp)⟩
      · refine ⟨⟨fun _ _ => rfl, fun _ => rfl⟩, ⟨fun _ => rfl, id, id⟩, hres _ _ ⟨fun _ => rfl, id, id⟩ (fun _ => rfl)⟩
    | close =>
      simp only [dstep, List.mem_singleton, Prod.mk.injEq] at hd
      obtain ⟨rfl, rfl⟩ := hd
      have hf := ht.past_swap (Or.inl rfl)
      exact ⟨⟨fun _ _ => hf, fun _ => hf⟩, ⟨id, id, id⟩, hres _ _ ⟨id, id, id⟩ (fun _ => hf)⟩
    | remove =>
      simp only [dstep, List.mem_singleton, Prod.mk.injEq] at hd
      obtain ⟨rfl, rfl⟩ := hd
      have hf := ht.past_swap (Or.inr rfl)
      have hle := le_removeL s
      have hf' := hle.1 hf
      exact ⟨⟨fun _ _ => hf', fun _ => hf'⟩, hle, hres _ _ hle (by simp)⟩
    | fin => simp [dstep] at hd
  | od b =>
    cases b with
    | true => simp [step] at hm
    | false =>
      simp only [step, List.mem_singleton, Prod.mk.injEq] at hm
      obtain ⟨rfl, rfl⟩ := hm
      refine ⟨?_, le_removeO s, trivial⟩
      obtain ⟨f1, f2, f3, f4⟩ := removeO_fields s
      constructor
      · intro hn hw
        rw [f1]; rw [f2] at hw
        rcases f4 hn with h | h
        · exact hs.closed_flag h hw
        · exact hs.gone_flag h
      · intro hl
        rw [f1]; rw [f3] at hl
        exact hs.gone_flag hl
  | nt b =>
    cases b with
    | true => simp [step] at hm
    | false =>
      simp only [step, List.mem_singleton, Prod.mk.injEq] at hm
      obtain ⟨rfl, rfl⟩ := hm
      refine ⟨?_, le_notify s, trivial⟩
      obtain ⟨f1, f2, f3⟩ := notify_fields s
      constructor
      · intro hn hw
        rw [f1]
        rcases f3 hn hw with h | ⟨h, h'⟩
        · exact h
        · exact hs.closed_flag h h'
      · intro hl
        rw [f1]; rw [f2] at hl
        exact hs.gone_flag hl
  | cx b =>
    cases b with
    | true => simp [step] at hm
    | false =>
      simp only [step, List.mem_singleton, Prod.mk.injEq] at hm
      obtain ⟨rfl, rfl⟩ := hm
      exact ⟨⟨hs.closed_flag, hs.gone_flag⟩, ⟨id, id, id⟩, trivial⟩

def CfgInv (c : Cfg Sh Th) : Prop := ShInv c.1 ∧ ∀ t ∈ c.2, ThInv c.1 t

theorem cfgInv_step {a b : Cfg Sh Th} (h : CfgInv a) (hs : Step (sys true) a b) : CfgInv b := by
  cases hs with
  | mk s pre t post s' t' hm =>
    obtain ⟨hsh, hth⟩ := h
    have ht := hth t (by simp)
    obtain ⟨h1, h2, h3⟩ := step_ok hsh ht hm
    refine ⟨h1, ?_⟩
    intro x hx
    simp only [List.mem_append, List.mem_cons] at hx
    rcases hx with hx | rfl | hx
    · exact (hth x (by simp [hx])).mono h2
    · exact h3
    · exact (hth x (by simp [hx])).mono h2

theorem cfgInv_init (others : Nat) (ts : List Th) (hts : ∀ t ∈ ts, t.initial = true) :
    CfgInv (init others, ts) := by
  refine ⟨⟨by simp [init], by simp [init]⟩, ?_⟩
  intro t ht
  have := hts t ht
  cases t with
  | dr r pc => cases r <;> cases pc <;> simp_all [Th.initial, ThInv]
  | _ => simp_all [Th.initial, ThInv]

end Hive.NotifierRace
