import Hive.Model.EventsNotifierRace
/-!
# Invariant of the `Wait` / `Deregister` protocol model (repaired code)

The reference count of the entry is exact in every reachable configuration: while the entry exists,
`count` = number of listeners whose `deregistered` flag is still unset + number of `Deregister`
callers that have won the atomic swap and not yet executed `removeListener`.  Hence the deregistration
that brings the count to 0 finds every flag — in particular `L`'s — set.
-/
namespace Hive.NotifierRace
open Hive.Conc

/-- Listeners of the entry whose `deregistered` flag is unset. -/
def unflagged (s : Sh) : Nat := (if s.flag then 0 else 1) + s.oflags.countP (fun b => !b)

/-- A `Deregister` caller between its winning swap and the end of its `removeListener`. -/
def mid : Th → Bool
  | .dr _ _ .close => true
  | .dr _ _ .remove => true
  | _ => false

/-- Shared-state part of the invariant; `n` = number of threads that are `mid`. -/
structure ShInv (s : Sh) (n : Nat) : Prop where
  closed_flag : s.nchan = true → s.inWindow = false → s.flag = true
  count_exact : s.entry = true → s.count = unflagged s + n

/-- Per-thread part of the invariant. -/
def ThInv (s : Sh) : Th → Prop
  | .w2 => s.nchan = true
  | .dr who r pc =>
    (r = some .ok → s.inWindow = true) ∧ (pc = .close ∨ pc = .remove → getFlag s who = true) ∧
    (pc = .swap ∨ pc = .close ∨ pc = .remove ∨ pc = .fin)
  | _ => True

/-- Flags only ever go up. -/
def Le (s s' : Sh) : Prop :=
  (∀ who, getFlag s who = true → getFlag s' who = true) ∧ (s.nchan = true → s'.nchan = true) ∧
  (s.inWindow = true → s'.inWindow = true)

theorem Le.rfl' (s : Sh) : Le s s := ⟨fun _ h => h, id, id⟩

theorem ThInv.mono {s s' : Sh} (hle : Le s s') {t : Th} (h : ThInv s t) : ThInv s' t := by
  obtain ⟨h1, h2, h3⟩ := hle
  cases t with
  | w2 => exact h2 h
  | dr who r pc => exact ⟨fun x => h3 (h.1 x), fun x => h1 who (h.2.1 x), h.2.2⟩
  | _ => trivial

/-! ### list facts about the flags of the other listeners -/

theorem getD_set_true (l : List Bool) (i j : Nat) (h : l.getD i true = true) :
    (l.set j true).getD i true = true := by
  induction l generalizing i j with
  | nil => simp
  | cons a l ih =>
    cases j with
    | zero => cases i with
      | zero => simp
      | succ i => simpa using h
    | succ j => cases i with
      | zero => simpa using h
      | succ i =>
        simp only [List.set_cons_succ, List.getD_cons_succ] at h ⊢
        exact ih i j h

theorem getD_set_self (l : List Bool) (j : Nat) (h : l.getD j true = false) :
    (l.set j true).getD j true = true := by
  induction l generalizing j with
  | nil => simp
  | cons a l ih =>
    cases j with
    | zero => simp
    | succ j =>
      simp only [List.set_cons_succ, List.getD_cons_succ] at h ⊢
      exact ih j h

theorem countP_set_true (l : List Bool) (j : Nat) (h : l.getD j true = false) :
    (l.set j true).countP (fun b => !b) + 1 = l.countP (fun b => !b) := by
  induction l generalizing j with
  | nil => simp at h
  | cons a l ih =>
    cases j with
    | zero =>
      have : a = false := by simpa using h
      subst this
      simp
    | succ j =>
      simp only [List.getD_cons_succ] at h
      have := ih j h
      simp only [List.set_cons_succ, List.countP_cons]
      omega

theorem le_setFlag (s : Sh) (who : Option Nat) : Le s (setFlag s who) := by
  refine ⟨?_, ?_, ?_⟩
  · intro w hw
    cases who with
    | none => cases w with
      | none => rfl
      | some i => exact hw
    | some j => cases w with
      | none => exact hw
      | some i => exact getD_set_true _ i j hw
  · cases who <;> exact id
  · cases who <;> exact id

theorem getFlag_setFlag (s : Sh) (who : Option Nat) (h : getFlag s who = false) :
    getFlag (setFlag s who) who = true := by
  cases who with
  | none => rfl
  | some j => exact getD_set_self _ j h

theorem unflagged_setFlag (s : Sh) (who : Option Nat) (h : getFlag s who = false) :
    unflagged (setFlag s who) + 1 = unflagged s := by
  cases who with
  | none =>
    have : s.flag = false := h
    simp [unflagged, setFlag, this]; omega
  | some j =>
    have := countP_set_true s.oflags j h
    cases hf : s.flag <;> simp [unflagged, setFlag, hf] <;> omega

theorem setFlag_fields (s : Sh) (who : Option Nat) :
    (setFlag s who).nchan = s.nchan ∧ (setFlag s who).inWindow = s.inWindow ∧ (setFlag s who).entry = s.entry ∧
    (setFlag s who).count = s.count ∧ (s.flag = true → (setFlag s who).flag = true) := by
  cases who <;> simp [setFlag]

theorem closeD_fields (s : Sh) (who : Option Nat) :
    (closeD s who).nchan = s.nchan ∧ (closeD s who).inWindow = s.inWindow ∧ (closeD s who).entry = s.entry ∧
    (closeD s who).count = s.count ∧ (closeD s who).flag = s.flag ∧ (closeD s who).oflags = s.oflags := by
  cases who <;> simp [closeD]

theorem le_closeD (s : Sh) (who : Option Nat) : Le s (closeD s who) := by
  obtain ⟨h1, h2, _, _, h5, h6⟩ := closeD_fields s who
  refine ⟨?_, by rw [h1]; exact id, by rw [h2]; exact id⟩
  intro w hw
  cases w with
  | none => simpa [getFlag, h5] using hw
  | some i => simpa [getFlag, h6] using hw

theorem unflagged_congr {s s' : Sh} (h1 : s'.flag = s.flag) (h2 : s'.oflags = s.oflags) : unflagged s' = unflagged s := by
  simp [unflagged, h1, h2]

theorem remove_fields (s : Sh) :
    (remove s).flag = s.flag ∧ (remove s).oflags = s.oflags ∧ (remove s).inWindow = s.inWindow ∧
    (s.nchan = true → (remove s).nchan = true) := by
  unfold remove
  by_cases h1 : s.entry = true <;> by_cases h2 : (s.count == 1) = true <;> simp [h1, h2]

theorem le_remove (s : Sh) : Le s (remove s) := by
  obtain ⟨h1, h2, h3, h4⟩ := remove_fields s
  refine ⟨?_, h4, by rw [h3]; exact id⟩
  intro w hw
  cases w with
  | none => simpa [getFlag, h1] using hw
  | some i => simpa [getFlag, h2] using hw

theorem le_notify (s : Sh) : Le s (notify s) := by
  unfold notify
  by_cases h1 : s.entry = true
  · simp only [h1, if_true]
    refine ⟨fun w hw => ?_, fun _ => rfl, ?_⟩
    · cases w <;> exact hw
    · intro h; simp [h]
  · simp only [h1]
    exact Le.rfl' s

theorem unflagged_zero {s : Sh} (h : unflagged s = 0) : s.flag = true := by
  unfold unflagged at h
  cases hf : s.flag with
  | true => rfl
  | false => simp [hf] at h

/-- The `removeListener` step of a caller that is counted in `n + 1`. -/
theorem remove_ok {s : Sh} {n : Nat} (hs : ShInv s (n + 1)) : ShInv (remove s) n := by
  obtain ⟨f1, f2, f3, _⟩ := remove_fields s
  have hu : unflagged (remove s) = unflagged s := unflagged_congr f1 f2
  by_cases h1 : s.entry = true
  · have hc := hs.count_exact h1
    by_cases h2 : (s.count == 1) = true
    · have h2' : s.count = 1 := by simpa using h2
      have hz : unflagged s = 0 := by omega
      have hf := unflagged_zero hz
      constructor
      · intro _ _; rw [f1]; exact hf
      · intro he; simp [remove, h1, h2] at he
    · have h2' : s.count ≠ 1 := by simpa using h2
      constructor
      · intro hn hw
        rw [f1]; rw [f3] at hw
        have : s.nchan = true := by simpa [remove, h1, h2] using hn
        exact hs.closed_flag this hw
      · intro _
        rw [hu]
        have : (remove s).count = s.count - 1 := by simp [remove, h1, h2]
        omega
  · have : remove s = s := by simp [remove, h1]
    rw [this]
    exact ⟨hs.closed_flag, fun he => absurd he h1⟩

theorem notify_ok {s : Sh} {n : Nat} (hs : ShInv s n) : ShInv (notify s) n := by
  unfold notify
  by_cases h1 : s.entry = true
  · simp only [h1, if_true]
    constructor
    · intro _ hw
      cases hf : s.flag with
      | true => rfl
      | false => simp [hf] at hw
    · intro he; simp at he
  · simp only [h1]
    exact hs

/-- One step of one thread: the shared invariant is preserved (with the moved thread's contribution
to the number of mid-deregistration callers updated), flags go up, and the moved thread satisfies its
invariant in the new state. -/
theorem step_ok {s s' : Sh} {t t' : Th} {m : Nat} (hs : ShInv s (m + (if mid t then 1 else 0))) (ht : ThInv s t)
    (hm : (s', t') ∈ step true s t) :
    ShInv s' (m + (if mid t' then 1 else 0)) ∧ Le s s' ∧ ThInv s' t' := by
  cases t with
  | w0 =>
    simp only [step] at hm
    split at hm <;> simp at hm <;> obtain ⟨rfl, rfl⟩ := hm
    · exact ⟨by simpa [mid] using hs, Le.rfl' _, by simp [ThInv]⟩
    · exact ⟨by simpa [mid] using hs, Le.rfl' _, trivial⟩
  | w1 =>
    simp only [step, List.mem_append, if_true] at hm
    rcases hm with (hm | hm) | hm
    · split at hm <;> simp at hm
      obtain ⟨rfl, rfl⟩ := hm
      rename_i hn
      exact ⟨by simpa [mid] using hs, Le.rfl' _, hn⟩
    · split at hm <;> simp at hm
      obtain ⟨rfl, rfl⟩ := hm
      exact ⟨by simpa [mid] using hs, Le.rfl' _, by simp [ThInv]⟩
    · split at hm <;> simp at hm
      obtain ⟨rfl, rfl⟩ := hm
      exact ⟨by simpa [mid] using hs, Le.rfl' _, by simp [ThInv]⟩
  | w2 =>
    simp only [step] at hm
    split at hm <;> simp at hm <;> obtain ⟨rfl, rfl⟩ := hm
    · exact ⟨by simpa [mid] using hs, Le.rfl' _, by simp [ThInv]⟩
    · rename_i hf
      have hin : s'.inWindow = true := by
        cases hw : s'.inWindow with
        | true => rfl
        | false => exact absurd (hs.closed_flag ht hw) hf
      exact ⟨by simpa [mid] using hs, Le.rfl' _, ⟨fun _ => hin, by simp, by simp⟩⟩
  | dr who r pc =>
    simp only [step, List.mem_map] at hm
    obtain ⟨⟨s1, pc1⟩, hd, heq⟩ := hm
    simp only [Prod.mk.injEq] at heq
    obtain ⟨rfl, rfl⟩ := heq
    obtain ⟨hr, hp, hpc⟩ := ht
    cases pc with
    | swap =>
      simp only [dstep] at hd
      split at hd <;> simp at hd <;> obtain ⟨rfl, rfl⟩ := hd
      · exact ⟨by simpa [mid] using hs, Le.rfl' _, ⟨hr, by simp, by simp⟩⟩
      · rename_i hg
        have hg' : getFlag s who = false := by simpa using hg
        obtain ⟨g1, g2, g3, g4, g5⟩ := setFlag_fields s who
        have hle := le_setFlag s who
        have hs0 : ShInv s m := by simpa [mid] using hs
        refine ⟨?_, hle, ⟨fun x => hle.2.2 (hr x), fun _ => getFlag_setFlag s who hg', by simp⟩⟩
        simp only [mid, if_true]
        constructor
        · intro hn hw
          rw [g1] at hn; rw [g2] at hw
          exact g5 (hs0.closed_flag hn hw)
        · intro he
          rw [g3] at he
          have := hs0.count_exact he
          have hu := unflagged_setFlag s who hg'
          rw [g4]; omega
    | close =>
      simp only [dstep, List.mem_singleton, Prod.mk.injEq] at hd
      obtain ⟨rfl, rfl⟩ := hd
      obtain ⟨g1, g2, g3, g4, g5, g6⟩ := closeD_fields s who
      have hle := le_closeD s who
      refine ⟨?_, hle, ⟨fun x => hle.2.2 (hr x), fun _ => hle.1 who (hp (Or.inl rfl)), by simp⟩⟩
      have hs1 : ShInv s (m + 1) := by simpa [mid] using hs
      simp only [mid, if_true]
      constructor
      · intro hn hw
        rw [g1] at hn; rw [g2] at hw; rw [g5]
        exact hs1.closed_flag hn hw
      · intro he
        rw [g3] at he
        rw [g4, unflagged_congr g5 g6]
        exact hs1.count_exact he
    | remove =>
      simp only [dstep, List.mem_singleton, Prod.mk.injEq] at hd
      obtain ⟨rfl, rfl⟩ := hd
      have hs1 : ShInv s (m + 1) := by simpa [mid] using hs
      have hle := le_remove s
      exact ⟨by simpa [mid] using remove_ok hs1, hle, ⟨fun x => hle.2.2 (hr x), by simp, by simp⟩⟩
    | fin => simp [dstep] at hd
    | sload => simp at hpc
    | sremove => simp at hpc
    | sswap => simp at hpc
    | sclose => simp at hpc
  | nt b =>
    cases b with
    | true => simp [step] at hm
    | false =>
      simp only [step, List.mem_singleton, Prod.mk.injEq] at hm
      obtain ⟨rfl, rfl⟩ := hm
      exact ⟨by simpa [mid] using notify_ok (by simpa [mid] using hs), le_notify s, trivial⟩
  | cx b =>
    cases b with
    | true => simp [step] at hm
    | false =>
      simp only [step, List.mem_singleton, Prod.mk.injEq] at hm
      obtain ⟨rfl, rfl⟩ := hm
      have hs0 : ShInv s m := by simpa [mid] using hs
      exact ⟨by simpa [mid] using (⟨hs0.closed_flag, hs0.count_exact⟩ : ShInv { s with ctxDone := true } m),
        ⟨fun w hw => by cases w <;> exact hw, id, id⟩, trivial⟩

def CfgInv (c : Cfg Sh Th) : Prop := ShInv c.1 (c.2.countP mid) ∧ ∀ t ∈ c.2, ThInv c.1 t

theorem cfgInv_step {a b : Cfg Sh Th} (h : CfgInv a) (hs : Step (sys true) a b) : CfgInv b := by
  cases hs with
  | mk s pre t post s' t' hm =>
    obtain ⟨hsh, hth⟩ := h
    have ht := hth t (by simp)
    have e1 := countP_mid mid pre post t
    have e2 := countP_mid mid pre post t'
    have hsh' : ShInv s ((pre.countP mid + post.countP mid) + (if mid t then 1 else 0)) := by
      have : (pre ++ t :: post).countP mid = (pre.countP mid + post.countP mid) + (if mid t then 1 else 0) := by omega
      rw [← this]; exact hsh
    obtain ⟨h1, h2, h3⟩ := step_ok hsh' ht hm
    refine ⟨?_, ?_⟩
    · have : (pre ++ t' :: post).countP mid = (pre.countP mid + post.countP mid) + (if mid t' then 1 else 0) := by omega
      show ShInv s' ((pre ++ t' :: post).countP mid)
      rw [this]; exact h1
    · intro x hx
      simp only [List.mem_append, List.mem_cons] at hx
      rcases hx with hx | rfl | hx
      · exact (hth x (by simp [hx])).mono h2
      · exact h3
      · exact (hth x (by simp [hx])).mono h2

theorem initial_not_mid {t : Th} (h : t.initial = true) : mid t = false := by
  cases t with
  | dr who r pc => cases r <;> cases pc <;> simp_all [Th.initial, mid]
  | _ => simp [mid]

theorem cfgInv_init (others : Nat) (ts : List Th) (hts : ∀ t ∈ ts, t.initial = true) :
    CfgInv (init others, ts) := by
  have hc : ts.countP mid = 0 := by
    rw [List.countP_eq_zero]
    intro t ht
    simp [initial_not_mid (hts t ht)]
  refine ⟨⟨by simp [init], ?_⟩, ?_⟩
  · intro _
    show (init others).count = unflagged (init others) + ts.countP mid
    rw [hc]
    simp [init, unflagged, List.countP_replicate]
    omega
  · intro t ht
    have := hts t ht
    cases t with
    | dr who r pc => cases r <;> cases pc <;> simp_all [Th.initial, ThInv]
    | _ => simp_all [Th.initial, ThInv]

end Hive.NotifierRace
