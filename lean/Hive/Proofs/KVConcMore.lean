import Hive.Proofs.KVConcLin
import Hive.Proofs.KVConcDeadlock
/-!
# C05 protocol model: mutual exclusion on the map, frame properties, the open-store corollary,
and the accesses as C04-specification steps
-/
namespace Hive.KV.Conc
open Hive.Conc

/-! ## mutual exclusion -/

theorem total_eq_zero {f : Thread → Nat} {ts : List Thread} (h : total f ts = 0) : ∀ u ∈ ts, f u = 0 := by
  intro u hu
  induction ts with
  | nil => cases hu
  | cons t ts ih =>
    simp only [total, List.map_cons, List.sum_cons] at h ih
    rcases List.mem_cons.mp hu with rfl | hu
    · omega
    · exact ih (by omega) hu

theorem not_mem_of_count_zero {α : Type} [BEq α] [LawfulBEq α] {a : α} {l : List α} (h : l.count a = 0) : a ∉ l :=
  fun hm => by have := List.count_pos_iff.mpr hm; omega

/-- A goroutine holding lock `l` in write mode is the only holder of `l`; a goroutine holding it in
read mode excludes writers. -/
theorem exclusion {s : Shared} {pre post : List Thread} {t : Thread} (h : LInv (s, pre ++ t :: post)) (l : LockId) :
    ((l, true) ∈ t.held → ∀ u ∈ pre ++ post, ∀ b, (l, b) ∉ u.held) ∧
    ((l, false) ∈ t.held → ∀ u ∈ pre ++ post, (l, true) ∉ u.held) := by
  have hw := h.w l
  have hr := h.r l
  have hex : (s.locks l).writer = true → (s.locks l).readers = 0 := h.excl l
  simp only [total_mid] at hw hr
  have hb : b2n (s.locks l).writer ≤ 1 := by unfold b2n; split <;> omega
  constructor
  · intro hm u hu b
    have h1 : 0 < hW l t := List.count_pos_iff.mpr hm
    have hwr : (s.locks l).writer = true := by
      cases hh : (s.locks l).writer with
      | true => rfl
      | false => rw [hh] at hw; simp [b2n] at hw; omega
    have hr0 := hex hwr
    rw [hr0] at hr
    cases b with
    | true =>
      have : hW l u = 0 := by
        rcases List.mem_append.mp hu with hu | hu
        · exact total_eq_zero (by omega) u hu
        · exact total_eq_zero (by omega) u hu
      exact not_mem_of_count_zero this
    | false =>
      have : hR l u = 0 := by
        rcases List.mem_append.mp hu with hu | hu
        · exact total_eq_zero (by omega) u hu
        · exact total_eq_zero (by omega) u hu
      exact not_mem_of_count_zero this
  · intro hm u hu
    have h1 : 0 < hR l t := List.count_pos_iff.mpr hm
    have hwr : (s.locks l).writer = false := by
      cases hh : (s.locks l).writer with
      | false => rfl
      | true => have hz : (s.locks l).readers = 0 := hex hh; omega
    rw [hwr] at hw
    simp only [b2n, Bool.false_eq_true, if_false] at hw
    have : hW l u = 0 := by
      rcases List.mem_append.mp hu with hu | hu
      · exact total_eq_zero (by omega) u hu
      · exact total_eq_zero (by omega) u hu
    exact not_mem_of_count_zero this

/-- What a goroutine about to access the map holds. -/
theorem eff_holds_lock {t : Thread} (ht : TInv t) {a : DOp} {rest : List Instr} (hcode : t.code = .eff a :: rest)
    (htm : a.touchesMap = true) :
    (a.isWrite = true → (LockId.map, true) ∈ t.held) ∧
    ((LockId.map, true) ∈ t.held ∨ (LockId.map, false) ∈ t.held) := by
  have := ht.wf
  rw [hcode] at this
  simp only [wfc, Bool.and_eq_true, htm, Bool.not_true, Bool.false_or] at this
  cases hw : a.isWrite with
  | true =>
    simp only [hw, if_true, List.contains_iff_mem] at this
    exact ⟨fun _ => this.1, Or.inl this.1⟩
  | false =>
    simp only [hw, Bool.false_eq_true, if_false, Bool.or_eq_true, List.contains_iff_mem] at this
    exact ⟨fun h => (by cases h), this.1⟩

/-! ## frame: who touches the map, who looks at it -/

theorem apply_read (a : DOp) (h : a.isWrite = false) (m : AList) : (a.apply m).1 = m := by
  cases a <;> simp_all [DOp.apply, DOp.isWrite]

/-- Only a write access changes the map. -/
theorem map_changed_only_by_write {s s' : Shared} {t t' : Thread} (hs : TStep s t s' t') :
    s'.m = s.m ∨ ∃ a rest, t.code = .eff a :: rest ∧ a.isWrite = true := by
  cases hs with
  | eff op a rest hc hcode =>
    cases hw : a.isWrite with
    | true => exact Or.inr ⟨a, rest, hcode, hw⟩
    | false => left; simp [Shared.log, apply_read a hw]
  | _ => left; rfl

/-- A goroutine that is not at an access instruction does not look at the map: its transition is
the same whatever the map contains. -/
theorem map_read_only_by_eff (s : Shared) (t : Thread) (m' : AList)
    (h : ∀ a rest, t.code ≠ .eff a :: rest) :
    step { s with m := m' } t = (step s t).map (fun p => ({ p.1 with m := m' }, p.2)) := by
  unfold step
  cases hc : t.cur with
  | none => cases hs : t.script <;> simp [Shared.log]
  | some op =>
    cases hcode : t.code with
    | nil => simp [Shared.log]
    | cons i rest =>
      cases i with
      | eff a => exact absurd hcode (h a rest)
      | check => by_cases hcl : s.closed <;> simp [Shared.log, hcl]
      | lock l =>
        by_cases hw : t.waiting
        · by_cases hf : (s.locks l).writer = false ∧ (s.locks l).readers = 0 <;> simp [hw, hf]
        · simp [hw]
      | rlock l =>
        by_cases hf : (s.locks l).writer = false ∧ (s.locks l).pending = 0 <;> simp [hf]
      | unlock l => simp
      | runlock l => simp
      | swapClosed => simp [Shared.log]
      | load => simp

/-! ## a store that is never closed -/

def NoClose (t : Thread) : Prop := COp.close ∉ t.script ∧ t.cur ≠ some .close ∧ Instr.swapClosed ∉ t.code

def notCloseEv : Ev → Prop
  | .lin _ _ .failClosed _ => False
  | .lin _ _ .close _ => False
  | _ => True

structure OInv (c : Cfg Shared Thread) : Prop where
  open_ : c.1.closed = false
  threads : ∀ t ∈ c.2, NoClose t
  evs : ∀ e ∈ c.1.tr, notCloseEv e

theorem mem_suffix_code {i j : Instr} {rest : List Instr} (h : j ∉ i :: rest) : j ∉ rest :=
  fun hm => h (List.mem_cons_of_mem _ hm)

theorem oinv_step {s s' : Shared} {pre post : List Thread} {t t' : Thread} (hs : TStep s t s' t')
    (h : OInv (s, pre ++ t :: post)) : OInv (s', pre ++ t' :: post) := by
  have ht : NoClose t := h.threads t (List.mem_append_right _ (List.mem_cons_self ..))
  have others : ∀ (x : Thread), NoClose x → ∀ u ∈ pre ++ x :: post, NoClose u := by
    intro x hx u hu
    rcases List.mem_append.mp hu with hu | hu
    · exact h.threads u (List.mem_append_left _ hu)
    · rcases List.mem_cons.mp hu with rfl | hu
      · exact hx
      · exact h.threads u (List.mem_append_right _ (List.mem_cons_of_mem _ hu))
  have hop := h.open_
  have hev := h.evs
  simp only at hop hev
  have logged : ∀ (e : Ev), notCloseEv e → ∀ x ∈ s.tr ++ [e], notCloseEv x := by
    intro e he x hx
    rcases List.mem_append.mp hx with hx | hx
    · exact hev x hx
    · simp only [List.mem_singleton] at hx; subst hx; exact he
  obtain ⟨h1, h2, h3⟩ := ht
  cases hs with
  | invoke op rest hc hs =>
    refine ⟨hop, others _ ⟨?_, ?_, ?_⟩, logged _ trivial⟩
    · rw [hs] at h1; exact fun hm => h1 (List.mem_cons_of_mem _ hm)
    · rw [hs] at h1
      intro heq
      simp only [Option.some.injEq] at heq
      exact h1 (heq ▸ List.mem_cons_self ..)
    · intro hm
      have := swap_only_close op hm
      rw [hs] at h1
      exact h1 (this ▸ List.mem_cons_self ..)
  | ret op hc hcode =>
    exact ⟨hop, others _ ⟨h1, by simp, by simp [hcode]⟩, logged _ trivial⟩
  | checkFail op rest hc hcode hcl => rw [hop] at hcl; cases hcl
  | checkOk op rest hc hcode hcl =>
    rw [hcode] at h3
    exact ⟨hop, others _ ⟨h1, h2, mem_suffix_code h3⟩, hev⟩
  | load op rest hc hcode =>
    rw [hcode] at h3
    exact ⟨hop, others _ ⟨h1, h2, mem_suffix_code h3⟩, hev⟩
  | announce op l rest hc hcode hwt => exact ⟨hop, others _ ⟨h1, h2, h3⟩, hev⟩
  | acquire op l rest hc hcode hwt hfree =>
    rw [hcode] at h3
    exact ⟨hop, others _ ⟨h1, h2, mem_suffix_code h3⟩, hev⟩
  | rlock op l rest hc hcode hfree =>
    rw [hcode] at h3
    exact ⟨hop, others _ ⟨h1, h2, mem_suffix_code h3⟩, hev⟩
  | unlock op l rest hc hcode =>
    rw [hcode] at h3
    exact ⟨hop, others _ ⟨h1, h2, mem_suffix_code h3⟩, hev⟩
  | runlock op l rest hc hcode =>
    rw [hcode] at h3
    exact ⟨hop, others _ ⟨h1, h2, mem_suffix_code h3⟩, hev⟩
  | eff op a rest hc hcode =>
    rw [hcode] at h3
    exact ⟨hop, others _ ⟨h1, h2, mem_suffix_code h3⟩, logged _ trivial⟩
  | swap op rest hc hcode =>
    rw [hcode] at h3
    exact absurd (List.mem_cons_self ..) h3

theorem oinv_init (scripts : List (List COp)) (h : ∀ sc ∈ scripts, COp.close ∉ sc) : OInv (initCfg scripts) := by
  refine ⟨rfl, ?_, by simp [initCfg, initShared]⟩
  intro t ht
  have : ∀ (n : Nat) (scs : List (List COp)), (∀ sc ∈ scs, COp.close ∉ sc) → ∀ t ∈ initThreads n scs, NoClose t := by
    intro n scs
    induction scs generalizing n with
    | nil => intro _ t ht; simp [initThreads] at ht
    | cons sc rest ih =>
      intro hsc t ht
      simp only [initThreads, List.mem_cons] at ht
      rcases ht with rfl | ht
      · exact ⟨hsc sc (List.mem_cons_self ..), by simp [initThread], by simp [initThread]⟩
      · exact ih (n + 1) (fun sc' hm => hsc sc' (List.mem_cons_of_mem _ hm)) t ht
  exact this 0 scripts h t ht

theorem oinv_reach {scripts : List (List COp)} (h : ∀ sc ∈ scripts, COp.close ∉ sc) {c : Cfg Shared Thread}
    (hr : Reach sys (initCfg scripts) c) : OInv c := by
  refine inv_induction (S := sys) OInv (oinv_init scripts h) ?_ hr
  intro a b ha hstep
  cases hstep with
  | mk s pre t post s' t' hmem => exact oinv_step (step_tstep hmem) ha

end Hive.KV.Conc
