import Hive.Model.WorkerPoolDebounce
import Hive.Proofs.WorkerPool
/-!
# C16 — invariants of the `DebounceFunc` protocol
-/
set_option linter.unusedSimpArgs false
set_option linter.unusedVariables false
namespace Hive.WPD
open Hive.Conc
open Hive.WP (b2n countP_set_add lt_of_get)

structure Inv (s : St) : Prop where
  /-- every logged execution belongs to a call whose task is past its `workerFunc` -/
  logged : ∀ e ∈ s.execs, 1 ≤ e ∧ ∃ c, s.calls[e - 1]? = some c ∧ c.ranlike = true
  /-- executions are logged in strictly increasing order of invocation -/
  sorted : s.execs.Pairwise (· < ·)
  /-- a task that skipped its `workerFunc` was not the latest invocation (and never will be) -/
  skipped : ∀ i c, s.calls[i]? = some c → c.skiplike = true → i + 1 < s.calls.length
  /-- a task past its `workerFunc` is in the log -/
  ranLogged : ∀ i c, s.calls[i]? = some c → c.ranlike = true → (i + 1) ∈ s.execs
  /-- `execMutex`: at most one task between Lock and Unlock -/
  mutex : s.calls.countP Pc.holds = b2n s.held

theorem inv_init : Inv {} := by
  refine ⟨?_, ?_, ?_, ?_, ?_⟩ <;> simp [b2n]

theorem get_set (l : List Pc) (i k : Nat) (pc : Pc) (hi : i < l.length) :
    (l.set i pc)[k]? = if k = i then some pc else l[k]? := by
  by_cases h : k = i
  · subst h; simp [hi]
  · simp [List.getElem?_set, h, Ne.symm h]

/-- Changing the program counter of call `i` from `old` to `new`, the log unchanged. -/
theorem inv_setPc (s : St) (i : Nat) (old new : Pc) (held' : Bool) (h : Inv s) (hi : s.calls[i]? = some old)
    (hran : old.ranlike = true → new.ranlike = true)
    (hran' : new.ranlike = true → old.ranlike = true)
    (hskip : new.skiplike = true → old.skiplike = true ∨ i + 1 < s.calls.length)
    (hmx : b2n (new.holds) + b2n s.held = b2n (old.holds) + b2n held') :
    Inv { setPc s i new with held := held' } := by
  have hlt := lt_of_get hi
  refine ⟨?_, h.sorted, ?_, ?_, ?_⟩
  · intro e he
    obtain ⟨h1, c, hc, hr⟩ := h.logged e he
    refine ⟨h1, ?_⟩
    simp only [setPc, get_set _ _ _ _ hlt]
    by_cases hk : e - 1 = i
    · simp only [hk, if_true]
      rw [hk, hi] at hc; cases hc
      exact ⟨new, rfl, hran hr⟩
    · simp only [hk, if_false]; exact ⟨c, hc, hr⟩
  · intro k c hk hs
    simp only [setPc, get_set _ _ _ _ hlt] at hk
    simp only [setPc, List.length_set]
    by_cases hki : k = i
    · simp only [hki, if_true] at hk; cases hk
      rcases hskip hs with ho | ho
      · subst hki; exact h.skipped k old hi ho
      · subst hki; exact ho
    · simp only [hki, if_false] at hk; exact h.skipped k c hk hs
  · intro k c hk hr
    simp only [setPc, get_set _ _ _ _ hlt] at hk
    by_cases hki : k = i
    · simp only [hki, if_true] at hk; cases hk
      subst hki; exact h.ranLogged k old hi (hran' hr)
    · simp only [hki, if_false] at hk; exact h.ranLogged k c hk hr
  · have := countP_set_add Pc.holds s.calls i old new hi
    have := h.mutex
    simp only [setPc]
    omega

theorem pairwise_snoc (l : List Nat) (x : Nat) (h : l.Pairwise (· < ·)) (hx : ∀ e ∈ l, e < x) :
    (l ++ [x]).Pairwise (· < ·) := by
  rw [List.pairwise_append]
  refine ⟨h, by simp, ?_⟩
  intro a ha b hb
  simp at hb; subst hb; exact hx a ha

theorem inv_callStep (s s' : St) (i : Nat) (h : Inv s) (hs : s' ∈ callStep s i) : Inv s' := by
  unfold callStep at hs
  cases hi : s.calls[i]? with
  | none => simp [hi] at hs
  | some pc =>
    have hlt := lt_of_get hi
    cases pc with
    | submitted =>
      simp only [hi, List.mem_singleton] at hs
      by_cases hl : i + 1 = s.calls.length
      · simp only [hl, if_true] at hs; subst hs
        have := inv_setPc s i .submitted .wantLock s.held h hi (by simp [Pc.ranlike]) (by simp [Pc.ranlike])
          (by simp [Pc.skiplike]) (by simp [Pc.holds])
        simpa [setPc] using this
      · simp only [hl, if_false] at hs; subst hs
        have := inv_setPc s i .submitted .doneSkip s.held h hi (by simp [Pc.ranlike]) (by simp [Pc.ranlike])
          (by intro _; right; omega) (by simp [Pc.holds])
        simpa [setPc] using this
    | wantLock =>
      simp only [hi] at hs
      by_cases hh : s.held = true
      · simp [hh] at hs
      · have hf : s.held = false := by simpa using hh
        rw [hf] at hs
        simp only [Bool.false_eq_true, if_false, List.mem_singleton] at hs
        subst hs
        exact inv_setPc s i .wantLock .locked true h hi (by simp [Pc.ranlike]) (by simp [Pc.ranlike])
          (by simp [Pc.skiplike]) (by simp [Pc.holds, hf, b2n])
    | locked =>
      simp only [hi, List.mem_singleton] at hs
      by_cases hl : i + 1 = s.calls.length
      · simp only [hl, if_true] at hs; subst hs
        -- the workerFunc is executed: every earlier execution belongs to an earlier call
        have hsm : ∀ e ∈ s.execs, e < s.calls.length := by
          intro e he
          obtain ⟨h1, c, hc, hr⟩ := h.logged e he
          have := lt_of_get hc
          by_cases hel : e = s.calls.length
          · have hei : e - 1 = i := by omega
            rw [hei, hi] at hc; cases hc; simp [Pc.ranlike] at hr
          · omega
        have hlt' := hlt
        refine ⟨?_, ?_, ?_, ?_, ?_⟩
        · intro e he
          simp only [setPc, List.mem_append, List.mem_singleton] at he
          simp only [setPc, get_set _ _ _ _ hlt]
          rcases he with he | he
          · obtain ⟨h1, c, hc, hr⟩ := h.logged e he
            refine ⟨h1, ?_⟩
            have := hsm e he
            have hk : ¬ (e - 1 = i) := by omega
            simp only [hk, if_false]; exact ⟨c, hc, hr⟩
          · subst he
            refine ⟨by omega, .ran, ?_, rfl⟩
            have : s.calls.length - 1 = i := by omega
            simp [this]
        · simp only [setPc]
          exact pairwise_snoc _ _ h.sorted hsm
        · intro k c hk hsk
          simp only [setPc, get_set _ _ _ _ hlt] at hk
          simp only [setPc, List.length_set]
          by_cases hki : k = i
          · simp only [hki, if_true] at hk; cases hk; simp [Pc.skiplike] at hsk
          · simp only [hki, if_false] at hk; exact h.skipped k c hk hsk
        · intro k c hk hr
          simp only [setPc, get_set _ _ _ _ hlt] at hk
          simp only [setPc, List.mem_append, List.mem_singleton]
          by_cases hki : k = i
          · right; omega
          · simp only [hki, if_false] at hk; left; exact h.ranLogged k c hk hr
        · have := countP_set_add Pc.holds s.calls i .locked .ran hi
          have := h.mutex
          simp only [setPc]
          simp [Pc.holds] at *
          omega
      · simp only [hl, if_false] at hs; subst hs
        have := inv_setPc s i .locked .skip s.held h hi (by simp [Pc.ranlike]) (by simp [Pc.ranlike])
          (by intro _; right; omega) (by simp [Pc.holds])
        simpa [setPc] using this
    | ran =>
      simp only [hi, List.mem_singleton] at hs; subst hs
      have hheld : s.held = true := by
        have hm := h.mutex
        have hp : 0 < s.calls.countP Pc.holds := List.countP_pos_iff.mpr ⟨.ran, List.mem_of_getElem? hi, rfl⟩
        cases hh : s.held with
        | true => rfl
        | false => rw [hh, Hive.WP.b2n_false] at hm; omega
      exact inv_setPc s i .ran .doneRan false h hi (by simp [Pc.ranlike]) (by simp [Pc.ranlike])
        (by simp [Pc.skiplike]) (by simp [Pc.holds, hheld, b2n])
    | skip =>
      simp only [hi, List.mem_singleton] at hs; subst hs
      have hheld : s.held = true := by
        have hm := h.mutex
        have hp : 0 < s.calls.countP Pc.holds := List.countP_pos_iff.mpr ⟨.skip, List.mem_of_getElem? hi, rfl⟩
        cases hh : s.held with
        | true => rfl
        | false => rw [hh, Hive.WP.b2n_false] at hm; omega
      exact inv_setPc s i .skip .doneSkip false h hi (by simp [Pc.ranlike]) (by simp [Pc.ranlike])
        (by intro _; left; rfl) (by simp [Pc.holds, hheld, b2n])
    | doneRan => simp [hi] at hs
    | doneSkip => simp [hi] at hs

theorem inv_call (s : St) (h : Inv s) : Inv { s with calls := s.calls ++ [.submitted] } := by
  have hget : ∀ (k : Nat) (c : Pc), (s.calls ++ [Pc.submitted])[k]? = some c → c ≠ Pc.submitted → s.calls[k]? = some c := by
    intro k c hk hne
    rcases Nat.lt_or_ge k s.calls.length with hl | hl
    · rwa [List.getElem?_append_left hl] at hk
    · rw [List.getElem?_append_right hl] at hk
      cases hkk : k - s.calls.length with
      | zero => simp [hkk] at hk; exact absurd hk.symm hne
      | succ m => simp [hkk] at hk
  refine ⟨?_, h.sorted, ?_, ?_, ?_⟩
  · intro e he
    obtain ⟨h1, c, hc, hr⟩ := h.logged e he
    exact ⟨h1, c, by rw [List.getElem?_append_left (lt_of_get hc)]; exact hc, hr⟩
  · intro k c hk hs
    have := h.skipped k c (hget k c hk (by intro e; subst e; simp [Pc.skiplike] at hs)) hs
    simp; omega
  · intro k c hk hr
    exact h.ranLogged k c (hget k c hk (by intro e; subst e; simp [Pc.ranlike] at hr)) hr
  · simp [List.countP_append, Pc.holds]; exact h.mutex

theorem inv_step (a b : Cfg St Thr) (h : Inv a.1) (hs : Step sys a b) : Inv b.1 := by
  cases hs with
  | mk s pre t post s' t' hmem =>
    cases t with
    | caller n =>
      cases n with
      | zero => simp [sys] at hmem
      | succ n =>
        simp only [sys, List.mem_singleton, Prod.mk.injEq] at hmem
        obtain ⟨rfl, _⟩ := hmem
        exact inv_call s h
    | runner =>
      simp only [sys, List.mem_flatMap, List.mem_map, List.mem_range, Prod.mk.injEq] at hmem
      obtain ⟨i, _, s'', hs'', rfl, _⟩ := hmem
      exact inv_callStep s s'' i h hs''

theorem inv_reach (ts : List Thr) (c : Cfg St Thr) (hr : Reach sys ({}, ts) c) : Inv c.1 :=
  inv_induction (S := sys) (fun c => Inv c.1) inv_init inv_step hr

theorem execsOk_of (n : Nat) : ∀ (l : List Nat) (lo : Nat), l.Pairwise (· < ·) → (∀ e ∈ l, lo < e ∧ e ≤ n) →
    execsOk n lo l = true := by
  intro l
  induction l with
  | nil => intro lo _ _; rfl
  | cons k rest ih =>
    intro lo hp hb
    simp only [execsOk, Bool.and_eq_true, decide_eq_true_eq]
    rw [List.pairwise_cons] at hp
    refine ⟨⟨(hb k (by simp)).1, (hb k (by simp)).2⟩, ih k hp.2 ?_⟩
    intro e he
    exact ⟨hp.1 e he, (hb e (by simp [he])).2⟩

end Hive.WPD
