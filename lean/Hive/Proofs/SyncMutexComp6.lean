import Hive.Proofs.SyncMutexComp5
/-!
Invariants of the composed DAGMutex, part 6: every step preserves `CInv`; reachable configurations.
-/
namespace Hive.SyncMutex.Comp
open Hive.Conc
open Hive.SyncMutex.Dag (Mode DOp upd eraseAll below chain pushAll allHeld okD)
open Hive.SyncMutex.Wait (sumL sumL_mid sumL_ge sumL_zero)

theorem cinv_step_mid {s : CSh} {pre post : List CTh} {t : CTh} {s' : CSh} {t' : CTh}
    (h : CInv s (pre ++ t :: post)) (hmem : (s', t') ∈ step s t) : CInv s' (pre ++ t' :: post) := by
  have hti := h.th t (by simp)
  unfold step at hmem
  cases hc : t.ctl with
  | dead => simp [hc] at hmem
  | idle =>
    have hni : isInner t = false := by simp [isInner, hc]
    have hsi := hti.si
    simp only [SI, hc] at hsi
    simp only [hc] at hmem
    cases hs : t.script with
    | nil => simp [hs] at hmem
    | cons op r =>
      rw [hs] at hsi
      cases op with
      | lock x =>
        simp only [hs, List.mem_singleton, Prod.mk.injEq] at hmem
        obtain ⟨h1, h2⟩ := hmem
        rw [h1, h2]
        simp only [okD, Bool.and_eq_true] at hsi
        exact cinv_ctl h (.lockA x) r s.dm hni (by simp [isInner]) (by intro k hk; simpa [fDm, hc] using hk)
          (by simp only [SI]; exact hsi) (by simp [unrg, hc])
      | rlock xs =>
        simp only [hs, List.mem_singleton, Prod.mk.injEq] at hmem
        obtain ⟨h1, h2⟩ := hmem
        rw [h1, h2]
        simp only [okD, Bool.and_eq_true] at hsi
        exact cinv_ctl h (.rlockA xs) r s.dm hni (by simp [isInner]) (by intro k hk; simpa [fDm, hc] using hk)
          (by simp only [SI]; exact hsi) (by simp [unrg, hc])
      | unlock x =>
        simp only [hs, List.mem_singleton, Prod.mk.injEq] at hmem
        obtain ⟨h1, h2⟩ := hmem
        rw [h1, h2]
        simp only [okD, Bool.and_eq_true, List.contains_iff_mem] at hsi
        exact cinv_ctl h (.unlockA x) r s.dm hni (by simp [isInner]) (by intro k hk; simpa [fDm, hc] using hk)
          (by simp only [SI]; exact hsi) (by simp [unrg, hc])
      | runlock xs =>
        simp only [hs, List.mem_singleton, Prod.mk.injEq] at hmem
        obtain ⟨h1, h2⟩ := hmem
        rw [h1, h2]
        simp only [okD, Bool.and_eq_true] at hsi
        exact cinv_ctl h (.runlockA xs) r s.dm hni (by simp [isInner]) (by intro k hk; simpa [fDm, hc] using hk)
          (by simp only [SI]; exact hsi) (by simp [unrg, hc])
  | lockA x =>
    have hni : isInner t = false := by simp [isInner, hc]
    have hsi := hti.si
    simp only [SI, hc] at hsi
    simp only [hc] at hmem
    cases hd : s.dm <;> simp [hd] at hmem
    obtain ⟨rfl, rfl⟩ := hmem
    have := cinv_ctl h (.lockC x) t.script true hni (by simp [isInner])
      (by intro k hk; simp [fDm, hc, hd] at hk ⊢; omega) (by simp only [SI]; exact hsi) (by simp [unrg, hc])
    exact this
  | rlockA xs =>
    have hni : isInner t = false := by simp [isInner, hc]
    have hsi := hti.si
    simp only [SI, hc] at hsi
    simp only [hc] at hmem
    cases hd : s.dm <;> simp [hd] at hmem
    obtain ⟨rfl, rfl⟩ := hmem
    exact cinv_ctl h (.rlockC xs) t.script true hni (by simp [isInner])
      (by intro k hk; simp [fDm, hc, hd] at hk ⊢; omega) (by simp only [SI]; exact hsi) (by simp [unrg, hc])
  | unlockA x =>
    have hni : isInner t = false := by simp [isInner, hc]
    have hsi := hti.si
    simp only [SI, hc] at hsi
    simp only [hc] at hmem
    cases hd : s.dm <;> simp [hd] at hmem
    obtain ⟨rfl, rfl⟩ := hmem
    exact cinv_ctl h (.unlockC x) t.script true hni (by simp [isInner])
      (by intro k hk; simp [fDm, hc, hd] at hk ⊢; omega) (by simp only [SI]; exact hsi) (by simp [unrg, hc])
  | runlockA xs =>
    have hni : isInner t = false := by simp [isInner, hc]
    have hsi := hti.si
    simp only [SI, hc] at hsi
    simp only [hc] at hmem
    cases hd : s.dm <;> simp [hd] at hmem
    obtain ⟨rfl, rfl⟩ := hmem
    exact cinv_ctl h (.runlockC xs) t.script true hni (by simp [isInner])
      (by intro k hk; simp [fDm, hc, hd] at hk ⊢; omega) (by simp only [SI]; exact hsi) (by simp [unrg, hc])
  | lockC x =>
    simp only [hc, List.mem_singleton, Prod.mk.injEq] at hmem
    obtain ⟨rfl, rfl⟩ := hmem
    exact cinv_lockC h hc
  | rlockC xs =>
    simp only [hc] at hmem
    cases hr : (regAll s xs).2 with
    | nil =>
      simp only [hr, List.mem_singleton, Prod.mk.injEq] at hmem
      obtain ⟨rfl, rfl⟩ := hmem
      exact cinv_rlockC_nil h hc hr
    | cons p rest =>
      obtain ⟨x, o⟩ := p
      simp only [hr, List.mem_singleton, Prod.mk.injEq] at hmem
      obtain ⟨rfl, rfl⟩ := hmem
      exact cinv_rlockC_cons h hc hr
  | unlockC x =>
    obtain ⟨o, e1, hci⟩ := cinv_unlockC h hc
    simp only [hc, e1, List.mem_singleton, Prod.mk.injEq] at hmem
    obtain ⟨rfl, rfl⟩ := hmem
    exact hci
  | runlockC xs =>
    obtain ⟨e1, hnil, hcons⟩ := cinv_runlockC h hc
    simp only [hc, e1] at hmem
    cases xs with
    | nil =>
      simp only [List.map_nil, List.mem_singleton, Prod.mk.injEq] at hmem
      obtain ⟨rfl, rfl⟩ := hmem
      exact hnil rfl
    | cons x xs' =>
      simp only [List.map_cons, List.mem_singleton, Prod.mk.injEq] at hmem
      obtain ⟨rfl, rfl⟩ := hmem
      exact hcons x xs' rfl
  | unregA x =>
    have hni : isInner t = false := by simp [isInner, hc]
    have hsi := hti.si
    simp only [SI, hc] at hsi
    simp only [hc] at hmem
    cases hd : s.dm <;> simp [hd] at hmem
    obtain ⟨rfl, rfl⟩ := hmem
    exact cinv_ctl h (.unregC x) t.script true hni (by simp [isInner])
      (by intro k hk; simp [fDm, hc, hd] at hk ⊢; omega) (by simp only [SI]; exact hsi) (by simp [unrg, hc])
  | runregA xs =>
    have hni : isInner t = false := by simp [isInner, hc]
    have hsi := hti.si
    simp only [SI, hc] at hsi
    simp only [hc] at hmem
    cases hd : s.dm <;> simp [hd] at hmem
    obtain ⟨rfl, rfl⟩ := hmem
    exact cinv_ctl h (.runregC xs) t.script true hni (by simp [isInner])
      (by intro k hk; simp [fDm, hc, hd] at hk ⊢; omega) (by simp only [SI]; exact hsi) (by simp [unrg, hc])
  | unregC x =>
    obtain ⟨s1, o, e1, hci⟩ := cinv_unregC h hc
    simp only [hc, e1, List.mem_singleton, Prod.mk.injEq] at hmem
    obtain ⟨rfl, rfl⟩ := hmem
    exact hci
  | runregC xs =>
    obtain ⟨s1, os, e1, hci⟩ := cinv_runregC h hc
    simp only [hc, e1, List.mem_singleton, Prod.mk.injEq] at hmem
    obtain ⟨rfl, rfl⟩ := hmem
    exact hci
  | inner k =>
    simp only [hc] at hmem
    by_cases hi : t.ipc = .idle
    · simp only [hi, if_true, List.mem_singleton, Prod.mk.injEq] at hmem
      obtain ⟨rfl, rfl⟩ := hmem
      have hko := hti.ko
      simp only [KOk, hc] at hko
      cases hiop : t.iop with
      | lock =>
        have : ret t k = { grant t .w with ctl := .idle } := by simp [ret, hiop]
        rw [this]
        exact cinv_ret_grant h hc hi .w (Or.inl ⟨hiop, rfl⟩)
      | unlock =>
        rw [hiop] at hko
        obtain ⟨x, rfl⟩ := hko
        have : ret t (.ul x) = { t with ctl := .unregA x } := by simp [ret, hiop]
        rw [this]
        exact cinv_ret_plain h hc hi (Or.inl ⟨hiop, x, rfl, rfl⟩)
      | rlock =>
        rw [hiop] at hko
        obtain ⟨rest, rfl⟩ := hko
        cases rest with
        | nil =>
          have : ret t (.rl []) = { grant t .r with ctl := .idle } := by simp [ret, hiop]
          rw [this]
          exact cinv_ret_grant h hc hi .r (Or.inr ⟨hiop, rfl, rfl⟩)
        | cons p rest =>
          obtain ⟨x, o1⟩ := p
          have : ret t (.rl ((x, o1) :: rest)) = startInner (grant t .r) .rlock x o1 (.rl rest) := by
            simp [ret, hiop]
          rw [this]
          exact cinv_ret_rlock_next h hc hi hiop
      | runlock =>
        rw [hiop] at hko
        obtain ⟨rest, ids, rfl⟩ := hko
        cases rest with
        | nil =>
          have : ret t (.ru [] ids) = { t with ctl := .runregA ids } := by simp [ret, hiop]
          rw [this]
          exact cinv_ret_plain h hc hi (Or.inr ⟨hiop, ids, rfl, rfl⟩)
        | cons o1 rest =>
          have : ret t (.ru (o1 :: rest) ids) = startInner t .runlock 0 o1 (.ru rest ids) := by simp [ret, hiop]
          rw [this]
          exact cinv_ret_runlock_next h hc hi hiop
    · simp only [hi, if_false, List.mem_map] at hmem
      obtain ⟨p, hp, heq⟩ := hmem
      simp only [Prod.mk.injEq] at heq
      obtain ⟨rfl, rfl⟩ := heq
      simpa [hc] using cinv_inner h hc hp

theorem cinv_step {a b : Cfg CSh CTh} (h : CInv a.1 a.2) (hs : Step sys a b) : CInv b.1 b.2 := by
  cases hs with
  | mk s pre t post s' t' hmem => exact cinv_step_mid h hmem

theorem winv_init_views {vs : List V} (h : ∀ v ∈ vs, v = V.init) : WInv Mx.init vs := by
  refine ⟨ginv_init vs (fun v hv => by rw [h v hv]; rfl), ?_, ?_, ?_⟩
  · rw [sumV_zero]; · rfl
    intro v hv; rw [h v hv]; rfl
  · rw [sumV_zero]; · rfl
    intro v hv; rw [h v hv]; rfl
  · intro v hv; rw [h v hv]; trivial

theorem cinv_init {scripts : List (List DOp)} (hwb : Dag.WBD scripts) :
    CInv (initCfg scripts).1 (initCfg scripts).2 := by
  have hnew : ∀ t ∈ (initCfg scripts).2, ∃ sc ∈ scripts, t = CTh.new sc := by
    intro t ht
    simp only [initCfg, List.mem_map] at ht
    obtain ⟨sc, hsc, rfl⟩ := ht
    exact ⟨sc, hsc, rfl⟩
  have z : ∀ f : CTh → Nat, (∀ sc, f (CTh.new sc) = 0) → sumL f (initCfg scripts).2 = 0 := by
    intro f hf
    apply sumL_zero
    intro t ht
    obtain ⟨sc, _, rfl⟩ := hnew t ht
    exact hf sc
  refine ⟨?_, ?_, ?_, ⟨?_, ?_, ?_⟩, ?_⟩
  · intro o
    apply winv_init_views
    intro v hv
    simp only [List.mem_map] at hv
    obtain ⟨t, ht, rfl⟩ := hv
    obtain ⟨sc, _, rfl⟩ := hnew t ht
    simp [proj, CTh.new, V.init]
    by_cases h0 : 0 = o <;> simp [h0]
  · rw [z]; · rfl
    intro sc; rfl
  · intro x
    rw [z]; · rfl
    intro sc; simp [regc, CTh.new, acq, isInner, restEnts, restPairs, unrg]
  · intro x; simp [initCfg, CSh.init]
  · intro x o h; simp [initCfg, CSh.init] at h
  · intro x y o h; simp [initCfg, CSh.init] at h
  · intro t ht
    obtain ⟨sc, hsc, rfl⟩ := hnew t ht
    refine ⟨fun _ => rfl, by simp [KOk, CTh.new], ?_, ?_, ?_, ⟨?_, ?_, ?_⟩, by simp [unrg, CTh.new]⟩
    · rw [lk_outside_iff (by simp [isInner, CTh.new]) rfl]
      intro o; simp [CTh.new, cR, cW]
    · simp only [SI, CTh.new]; exact hwb sc hsc
    · exact List.Pairwise.nil
    · intro a ha; simp [CTh.new] at ha
    · intro ha; simp [acq, isInner, CTh.new] at ha
    · intro p hp; simp [restPairs, CTh.new] at hp

theorem cinv_reach {scripts : List (List DOp)} (hwb : Dag.WBD scripts) {c : Cfg CSh CTh}
    (hr : Reach sys (initCfg scripts) c) : CInv c.1 c.2 :=
  inv_induction (fun c => CInv c.1 c.2) (cinv_init hwb) (fun _ _ h hs => cinv_step h hs) hr

end Hive.SyncMutex.Comp
