import Hive.Model.KVFault
import Hive.Proofs.KVRefine
/-!
# The fault-free instance of the error-path model is the model; what an injected Flush failure does (C04)
-/
namespace Hive.KV

theorem vFlushF_false (ws : List Wrap) (s : Store) : vFlushF false ws s = vFlush ws s := by
  induction ws with
  | nil => simp only [vFlushF, vFlush]; cases dbCheck s <;> rfl
  | cons w t ih => simpa [vFlushF, vFlush] using ih

theorem vMutF_false (f : Store → Store × Out) (ws : List Wrap) (s : Store) : vMutF false f ws s = vMut f ws s := by
  induction ws with
  | nil => rfl
  | cons w t ih =>
    cases w with
    | debug => simpa [vMutF, vMut] using ih
    | flush => simp only [vMutF, vMut, ih, vFlushF_false]; rfl

theorem stepF_false (s : St) (op : Op) : stepF false s op = step s op := by
  cases op <;> simp [stepF, step, mutateF, mutate, vMutF_false, vFlushF_false]

theorem copySetsF_false (ws : List Wrap) (realm : Bytes) (es : List Entry) (s : Store) :
    copySetsF false ws realm es s = copySets ws realm es s := by
  induction es generalizing s with
  | nil => rfl
  | cons e rest ih =>
    simp only [copySetsF, copySets, vMutF_false]
    rcases h : vMut (dbSet realm e.1 e.2) ws s with ⟨s', o⟩
    cases o <;> simp [ih]

theorem copyCommitsF_false (ws : List Wrap) (realm : Bytes) (cs : List (List Entry)) (s : Store) :
    copyCommitsF false ws realm cs s = copyCommits ws realm cs s := by
  induction cs generalizing s with
  | nil => rfl
  | cons c rest ih =>
    simp only [copyCommitsF, copyCommits, vMutF_false]
    rcases h : vMut (dbCommit realm c []) ws s with ⟨s', o⟩
    cases o <;> simp [ih]

theorem copyStepF_false (src dst : St) (v w : Nat) : copyStepF false src dst v w = copyStep src dst v w := by
  simp only [copyStepF, copyStep, copySetsF_false, vFlushF_false]; rfl

theorem copybStepF_false (src dst : St) (v w n : Nat) : copybStepF false src dst v w n = copybStep src dst v w n := by
  simp only [copybStepF, copybStep, copyCommitsF_false, vFlushF_false]; rfl

theorem pstepF_false (p : Pair) (op : POp) : pstepF false false p op = pstep p op := by
  cases op <;> simp [pstepF, pstep, stepF_false, copyStepF_false, copybStepF_false]

/-! ## armed -/

def hasFlush (ws : List Wrap) : Bool := ws.any (· == .flush)

theorem vFlushF_true (ws : List Wrap) (s : Store) :
    vFlushF true ws s = if s.closed then .closed else .notfound := by
  induction ws with
  | nil => simp only [vFlushF, dbCheck]; cases s.closed <;> rfl
  | cons w t ih => simpa [vFlushF] using ih

/-- A mutator that succeeds only on an open store and leaves it open, through any stack, with the fault armed:
the mutation is applied exactly as without wrappers; the answer is the injected error iff the mutation
succeeded and the stack has a `flushkv` layer. -/
theorem vMutF_true {f : Store → Store × Out} (hf : FlushSafe f) (ws : List Wrap) (s : Store) :
    vMutF true f ws s = ((f s).1, if (f s).2 = .ok ∧ hasFlush ws = true then .notfound else (f s).2) := by
  induction ws with
  | nil => simp [vMutF, hasFlush]
  | cons w t ih =>
    cases w with
    | debug => simpa [vMutF, hasFlush] using ih
    | flush =>
      simp only [vMutF, ih, vFlushF_true]
      have h := hf s
      rcases hfs : f s with ⟨s', o⟩
      rw [hfs] at h
      cases o <;> simp_all [hasFlush]
      by_cases ht : Wrap.flush ∈ t <;> simp [ht, h]

end Hive.KV
