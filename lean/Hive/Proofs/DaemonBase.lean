import Hive.Model.Daemon
/-! Helper lemmas for the daemon protocol proofs: field projections of the state transformers, counting
over the object heap, the sorted permutations, and the scan of trace predicates. -/
namespace Hive.Daemon

/-! ## projections -/

@[simp] theorem emit_stopped (e : Ev) (s : St) : (emit e s).stopped = s.stopped := rfl
@[simp] theorem emit_running (e : Ev) (s : St) : (emit e s).running = s.running := rfl
@[simp] theorem emit_cleared (e : Ev) (s : St) : (emit e s).cleared = s.cleared := rfl
@[simp] theorem emit_n (e : Ev) (s : St) : (emit e s).n = s.n := rfl
@[simp] theorem emit_objs (e : Ev) (s : St) : (emit e s).objs = s.objs := rfl
@[simp] theorem emit_regl (e : Ev) (s : St) : (emit e s).regl = s.regl := rfl
@[simp] theorem emit_wgc (e : Ev) (s : St) : (emit e s).wgc = s.wgc := rfl
@[simp] theorem emit_wgKeys (e : Ev) (s : St) : (emit e s).wgKeys = s.wgKeys := rfl
@[simp] theorem emit_sd (e : Ev) (s : St) : (emit e s).sd = s.sd := rfl
@[simp] theorem emit_rw (e : Ev) (s : St) : (emit e s).rw = s.rw := rfl
@[simp] theorem emit_tr (e : Ev) (s : St) : (emit e s).tr = s.tr ++ [e] := rfl

@[simp] theorem setObj_stopped (s : St) (i : Nat) (w : Wk) : (setObj s i w).stopped = s.stopped := rfl
@[simp] theorem setObj_running (s : St) (i : Nat) (w : Wk) : (setObj s i w).running = s.running := rfl
@[simp] theorem setObj_cleared (s : St) (i : Nat) (w : Wk) : (setObj s i w).cleared = s.cleared := rfl
@[simp] theorem setObj_n (s : St) (i : Nat) (w : Wk) : (setObj s i w).n = s.n := rfl
@[simp] theorem setObj_regl (s : St) (i : Nat) (w : Wk) : (setObj s i w).regl = s.regl := rfl
@[simp] theorem setObj_wgc (s : St) (i : Nat) (w : Wk) : (setObj s i w).wgc = s.wgc := rfl
@[simp] theorem setObj_wgKeys (s : St) (i : Nat) (w : Wk) : (setObj s i w).wgKeys = s.wgKeys := rfl
@[simp] theorem setObj_sd (s : St) (i : Nat) (w : Wk) : (setObj s i w).sd = s.sd := rfl
@[simp] theorem setObj_rw (s : St) (i : Nat) (w : Wk) : (setObj s i w).rw = s.rw := rfl
@[simp] theorem setObj_tr (s : St) (i : Nat) (w : Wk) : (setObj s i w).tr = s.tr := rfl
theorem setObj_objs (s : St) (i : Nat) (w : Wk) (j : Nat) :
    (setObj s i w).objs j = if j = i then w else s.objs j := rfl
@[simp] theorem setObj_objs_same (s : St) (i : Nat) (w : Wk) : (setObj s i w).objs i = w := by
  simp [setObj_objs]
theorem setObj_objs_ne (s : St) (i : Nat) (w : Wk) (j : Nat) (h : j ≠ i) : (setObj s i w).objs j = s.objs j := by
  simp [setObj_objs, h]

@[simp] theorem ordOf_emit (e : Ev) (s : St) (i : Nat) : ordOf (emit e s) i = ordOf s i := rfl

@[simp] theorem wpc_beq (a b : WPc) : (a == b) = decide (a = b) := by cases a <;> cases b <;> rfl

theorem counted_iff (w : Wk) : w.counted = true ↔ (w.pc = .run ∨ w.pc = .ret) := by
  cases w with | mk n o pc c sn => cases pc <;> simp [Wk.counted]

theorem counted_false_iff (w : Wk) : w.counted = false ↔ (w.pc ≠ .run ∧ w.pc ≠ .ret) := by
  cases w with | mk n o pc c sn => cases pc <;> simp [Wk.counted]

theorem flag_iff (w : Wk) : w.flag = true ↔ (w.pc = .run ∨ w.pc = .ret ∨ w.pc = .dn ∨ w.pc = .cl) := by
  cases w with | mk n o pc c sn => cases pc <;> simp [Wk.flag]

theorem flag_false_iff (w : Wk) : w.flag = false ↔ (w.pc = .reg ∨ w.pc = .fin) := by
  cases w with | mk n o pc c sn => cases pc <;> simp [Wk.flag]

/-! ## counting over the heap -/

def cnt (p : Nat → Bool) : Nat → Nat
  | 0 => 0
  | n + 1 => cnt p n + (if p n then 1 else 0)

theorem cnt_congr {p q : Nat → Bool} : ∀ {n : Nat}, (∀ i, i < n → p i = q i) → cnt p n = cnt q n
  | 0, _ => rfl
  | n + 1, h => by
    have h1 : cnt p n = cnt q n := cnt_congr (fun i hi => h i (Nat.lt_succ_of_lt hi))
    have h2 : p n = q n := h n (Nat.lt_succ_self n)
    simp [cnt, h1, h2]

theorem cnt_zero_iff {p : Nat → Bool} : ∀ {n : Nat}, cnt p n = 0 ↔ ∀ i, i < n → p i = false
  | 0 => by simp [cnt]
  | n + 1 => by
    have ih := @cnt_zero_iff p n
    constructor
    · intro h i hi
      have h0 : cnt p n = 0 ∧ (if p n then 1 else 0) = 0 := by
        simp only [cnt] at h; omega
      rcases Nat.lt_succ_iff_lt_or_eq.mp hi with hlt | heq
      · exact ih.mp h0.1 i hlt
      · subst heq
        cases hp : p i with
        | false => rfl
        | true => simp [hp] at h0
    · intro h
      have h1 := ih.mpr (fun i hi => h i (Nat.lt_succ_of_lt hi))
      have h2 := h n (Nat.lt_succ_self n)
      simp [cnt, h1, h2]

/-- Changing the predicate at one index changes the count by that index's contribution. -/
theorem cnt_change {p q : Nat → Bool} (i : Nat) : ∀ {n : Nat}, i < n → (∀ j, j < n → j ≠ i → q j = p j) →
    cnt q n + (if p i then 1 else 0) = cnt p n + (if q i then 1 else 0)
  | 0, h, _ => absurd h (Nat.not_lt_zero _)
  | n + 1, hi, h => by
    rcases Nat.lt_succ_iff_lt_or_eq.mp hi with hlt | heq
    · have ih := cnt_change i hlt (fun j hj hne => h j (Nat.lt_succ_of_lt hj) hne)
      have hn : q n = p n := h n (Nat.lt_succ_self n) (by omega)
      simp only [cnt, hn]; omega
    · subst heq
      have hc : cnt q i = cnt p i := cnt_congr (fun j hj => h j (Nat.lt_succ_of_lt hj) (by omega))
      simp only [cnt, hc]; omega

theorem cnt_succ_new {p q : Nat → Bool} {n : Nat} (h : ∀ j, j < n → q j = p j) (hn : q n = false) :
    cnt q (n + 1) = cnt p n := by
  simp [cnt, cnt_congr h, hn]

/-! ## sorted permutations -/

theorem mem_insertEverywhere {x : Nat} : ∀ {ys l : List Nat}, l ∈ insertEverywhere x ys → ∀ z, z ∈ l ↔ z = x ∨ z ∈ ys
  | [], l, h, z => by
    simp [insertEverywhere] at h; subst h; simp
  | y :: ys, l, h, z => by
    simp only [insertEverywhere, List.mem_cons, List.mem_map] at h
    rcases h with h | ⟨l', hl', rfl⟩
    · subst h; simp
    · have ih := mem_insertEverywhere hl' z
      simp only [List.mem_cons, ih]
      constructor
      · rintro (h | h | h)
        · exact Or.inr (Or.inl h)
        · exact Or.inl h
        · exact Or.inr (Or.inr h)
      · rintro (h | h | h)
        · exact Or.inr (Or.inl h)
        · exact Or.inl h
        · exact Or.inr (Or.inr h)

theorem mem_perms : ∀ {xs l : List Nat}, l ∈ perms xs → ∀ z, z ∈ l ↔ z ∈ xs
  | [], l, h, z => by
    simp [perms] at h; subst h; simp
  | x :: xs, l, h, z => by
    simp only [perms, List.mem_flatMap] at h
    obtain ⟨l', hl', hl⟩ := h
    rw [mem_insertEverywhere hl z, mem_perms hl' z]; simp

theorem sortedDesc_pairwise {ord : Nat → Int} : ∀ {l : List Nat}, sortedDesc ord l = true →
    l.Pairwise (fun a b => ord b ≤ ord a)
  | [], _ => List.Pairwise.nil
  | x :: xs, h => by
    simp only [sortedDesc, Bool.and_eq_true, List.all_eq_true, decide_eq_true_eq] at h
    exact List.Pairwise.cons (fun y hy => h.1 y hy) (sortedDesc_pairwise h.2)

theorem mem_sortedPerms {ord : Nat → Int} {xs l : List Nat} (h : l ∈ sortedPerms ord xs) :
    (∀ z, z ∈ l ↔ z ∈ xs) ∧ l.Pairwise (fun a b => ord b ≤ ord a) := by
  simp only [sortedPerms, List.mem_filter] at h
  exact ⟨mem_perms h.1, sortedDesc_pairwise h.2⟩

/-! ## scanning a trace -/

theorem scan_append (chk : Obs → Ev → Bool) : ∀ (tr : List Ev) (o : Obs) (e : Ev),
    scan chk o (tr ++ [e]) = (scan chk o tr && chk (tr.foldl upd o) e)
  | [], o, e => by simp [scan]
  | x :: xs, o, e => by
    simp [scan, scan_append chk xs (upd o x) e, Bool.and_assoc]

theorem holds_emit (chk : Obs → Ev → Bool) (s : St) (e : Ev) :
    holds chk (emit e s).tr = (holds chk s.tr && chk (obsOf s.tr) e) := by
  simp [holds, obsOf, scan_append]

@[simp] theorem obsOf_emit (s : St) (e : Ev) : obsOf (emit e s).tr = upd (obsOf s.tr) e := by
  simp [obsOf, List.foldl_append]

end Hive.Daemon
