import Hive.Model.SerixC03Objects
import Hive.Proofs.SerixBase
import Hive.Proofs.SerixCanonicalValidators
/-!
# The payload marker and the must-occur rule of the object calls

`ReadPayload` accepts a payload only when the uint32 marker equals the number of bytes the payload consumed, hence
`WritePayload` of what was read writes back exactly the bytes consumed (`payload_canonical`); what `ReadSliceOfObjects`
accepts under validation contains every must-occur type code, judged on the objects themselves (`objs_must_occur`).
-/
namespace Hive.Serix.VX
open Hive.Serix

theorem take_add_drop {α : Type} (l : List α) (m n : Nat) : l.take (m + n) = l.take m ++ (l.drop m).take n := by
  induction m generalizing l with
  | zero => simp
  | succ m ih =>
    cases l with
    | nil => simp
    | cons a as =>
      have : m + 1 + n = (m + n) + 1 := by omega
      rw [this]
      simp [ih]

theorem objLen_le {w : Nat} {rem : Bytes} {n : Nat} (h : objLen w rem = some n) : n ≤ rem.length := by
  unfold objLen at h
  split at h
  · cases h
  · simp only at h
    split at h
    · cases h
    · cases h; omega

theorem readObj_le {den : Option Den} {rem : Bytes} {n ty : Nat} (h : readObj den rem = .ok (n, ty)) :
    n ≤ rem.length ∧ ty = leNat (rem.take (denWidth den)) ∧ allowed.contains ty = true := by
  unfold readObj at h
  simp only at h
  split at h
  · cases h
  · split at h
    · cases h
    · split at h
      · cases h
      · rename_i n' hn
        cases h
        refine ⟨objLen_le hn, rfl, ?_⟩
        rename_i hc _
        simpa using hc

/-- **The payload marker is canonical.**  A payload `ReadPayload` accepts is written back by `WritePayload` to exactly the
bytes consumed: the marker holds the length of what follows. -/
theorem payload_canonical (d d' : De) (bs : Bytes) (hd : d.err = none)
    (h : deReadPayload d = (d', some (some bs))) :
    d'.err = none ∧ d.off ≤ d'.off ∧
    serWritePayload {} .absent (some (some bs)) = { buf := (d.src.drop d.off).take (d'.off - d.off), err := none } := by
  unfold deReadPayload at h
  simp only [hd, Option.isSome_none, Bool.false_eq_true, if_false] at h
  split at h
  · cases h
  · rename_i h4
    split at h
    · cases h
    · split at h
      · cases h
      · split at h
        · cases h
        · rename_i hlen
          split at h
          · cases h
          · rename_i n ty hr
            split at h
            · cases h
            · rename_i hn
              simp only [Prod.mk.injEq, Option.some.injEq] at h
              obtain ⟨hd', hbs⟩ := h
              subst hd' hbs
              have hle := (readObj_le hr).1
              have hn' : n = leNat (List.take 4 (List.drop d.off d.src)) := by simpa using hn
              have h4' : 4 ≤ (List.drop d.off d.src).length := by omega
              refine ⟨by simp, by simp; omega, ?_⟩
              simp only [serWritePayload, Option.isSome_none, Bool.false_eq_true, if_false]
              have hoff : d.off + 4 + n - d.off = 4 + n := by omega
              simp only [hoff, take_add_drop]
              have hl : (List.take n (List.drop 4 (List.drop d.off d.src))).length = n := by
                rw [List.length_take]; exact Nat.min_eq_left hle
              have hp : leBytes 4 n = List.take 4 (List.drop d.off d.src) := by
                have := leBytes_leNat (List.take 4 (List.drop d.off d.src))
                rw [List.length_take, Nat.min_eq_left h4'] at this
                rw [hn']; exact this
              simp only [List.nil_append]
              rw [hl, hp]
              rfl

/-- The type codes `oLoop` records under validation are the codes of the objects it read. -/
theorem oLoop_codes (den : Option Den) (k : Nat) (c : List (VKind × S)) (b : Bytes) :
    (oLoop true den k c b).2.2.2 = none →
    (oLoop true den k c b).2.2.1 = (oLoop true den k c b).1.map (fun x => leNat (x.take (denWidth den))) := by
  induction k generalizing c b with
  | zero => intro _; rfl
  | succ k ih =>
    intro h
    unfold oLoop at h ⊢
    cases hr : readObj den b with
    | error e => simp [hr] at h
    | ok p =>
      obtain ⟨n, ty⟩ := p
      simp only [hr, if_true] at h ⊢
      cases hs : chainStep c (List.take n b) with
      | mk c' e =>
        cases e with
        | some e => simp [hs] at h
        | none =>
          simp only [hs] at h ⊢
          have := ih c' (List.drop n b) h
          have hty := (readObj_le hr).2.1
          have hn := (readObj_le hr).1
          simp only [List.map_cons, List.singleton_append, this, List.cons.injEq, and_true]
          rw [hty, List.take_take, Nat.min_eq_left]
          have : denWidth den ≤ n := by
            unfold readObj at hr
            simp only at hr
            split at hr
            · cases hr
            · split at hr
              · cases hr
              · split at hr
                · cases hr
                · rename_i n' hn'
                  cases hr
                  unfold objLen at hn'
                  split at hn'
                  · cases hn'
                  · simp only at hn'
                    split at hn'
                    · cases hn'
                    · cases hn'; omega
          exact this

/-- **Must occur, one layer below serix.**  What `ReadSliceOfObjects` accepts under validation contains an object of every
must-occur type code. -/
theorem objs_must_occur (d d' : De) (lp : LP) (r : Rules) (den : Option Den) (must : List Nat) (xs : List Bytes)
    (hd : d.err = none) (h : deReadObjs d lp r true den must = some (d', some xs, none)) :
    ∀ m ∈ must, ∃ x ∈ xs, leNat (x.take (denWidth den)) = m := by
  unfold deReadObjs at h
  simp only [hd, Option.isSome_none, Bool.false_eq_true, if_false, if_true] at h
  split at h
  · cases h
  · split at h
    · cases h
    · split at h
      · cases h
      · split at h
        · cases h
        · rename_i he
          split at h
          · cases h
          · rename_i hsub
            simp only [Option.some.injEq, Prod.mk.injEq, and_true] at h
            obtain ⟨_, hxs⟩ := h
            intro m hm
            have hs := hsub
            simp only [Bool.true_and, Bool.not_eq_true, Bool.not_eq_false'] at hs
            rw [subset_iff] at hs
            have := hs m hm
            rw [oLoop_codes den _ _ _ (by rw [he])] at this
            rcases List.mem_map.1 this with ⟨x, hx, rfl⟩
            exact ⟨x, hxs ▸ hx, rfl⟩

end Hive.Serix.VX
