import Hive.Model.TypedLin
import Hive.Proofs.TypedGate
/-! The linearizability judge is sound (accepts only real-time-respecting serial explanations) and complete for them. -/
namespace Hive.Typed.Conc

theorem mem_of_mem_eraseIdx {α : Type} {l : List α} {i : Nat} {a : α} (h : a ∈ l.eraseIdx i) : a ∈ l :=
  List.mem_of_mem_eraseIdx h

theorem linSearch_sound : ∀ (fuel st : Nat) (ops : List LOp) (final : Nat),
    linSearch fuel st ops final = true →
    ∃ l, l.Perm ops ∧ replayG st (l.map (·.op)) = some final ∧ RealTime l := by
  intro fuel
  induction fuel with
  | zero =>
    intro st ops final h
    cases ops with
    | nil => simp [linSearch] at h; exact ⟨[], List.Perm.refl _, by simp [replayG, h], List.Pairwise.nil⟩
    | cons o rest => simp [linSearch] at h
  | succ fuel ih =>
    intro st ops final h
    cases ops with
    | nil => simp [linSearch] at h; exact ⟨[], List.Perm.refl _, by simp [replayG, h], List.Pairwise.nil⟩
    | cons o0 rest0 =>
      simp only [linSearch, List.any_eq_true, List.mem_range] at h
      obtain ⟨i, hi, hm⟩ := h
      have hget : (o0 :: rest0)[i]? = some (o0 :: rest0)[i] := List.getElem?_eq_getElem hi
      rw [hget] at hm
      simp only [Bool.and_eq_true] at hm
      obtain ⟨hmin, hm⟩ := hm
      cases ha : applyG st (o0 :: rest0)[i].op with
      | none => simp [ha] at hm
      | some st' =>
        simp only [ha] at hm
        obtain ⟨l', hp, hr, hrt⟩ := ih st' _ final hm
        refine ⟨(o0 :: rest0)[i] :: l', ?_, ?_, ?_⟩
        · exact (List.Perm.cons _ hp).trans (perm_getElem_eraseIdx _ i hi)
        · simp only [List.map_cons]; rw [replayG_cons, ha]; exact hr
        · refine List.Pairwise.cons (fun b hb => ?_) hrt
          have hb' : b ∈ (o0 :: rest0) := mem_of_mem_eraseIdx (hp.subset hb)
          simp only [minimalAt, List.all_eq_true] at hmin
          simpa using hmin b hb'

theorem linOk_sound (init : Nat) (ops : List LOp) (final : Nat) (h : linOk init ops final = true) :
    ∃ l, l.Perm ops ∧ replayG init (l.map (·.op)) = some final ∧ RealTime l :=
  linSearch_sound _ _ _ _ h

theorem linSearch_complete : ∀ (ops : List LOp) (fuel st final : Nat), ops.length < fuel →
    (∀ o ∈ ops, o.inv ≤ o.ret) → RealTime ops →
    replayG st (ops.map (·.op)) = some final → linSearch fuel st ops final = true := by
  intro ops
  induction ops with
  | nil =>
    intro fuel st final _ _ _ h
    simp only [List.map_nil, replayG, Option.some.injEq] at h
    cases fuel <;> simp [linSearch, h]
  | cons o rest ih =>
    intro fuel st final hf hwf hrt h
    cases fuel with
    | zero => simp at hf
    | succ fuel =>
      simp only [List.map_cons] at h
      rw [replayG_cons] at h
      cases ha : applyG st o.op with
      | none => simp [ha] at h
      | some st' =>
        simp only [ha, Option.bind_some] at h
        simp only [linSearch, List.any_eq_true, List.mem_range]
        refine ⟨0, by simp, ?_⟩
        have hrt' := List.pairwise_cons.mp hrt
        have hmin : minimalAt (o :: rest) o = true := by
          simp only [minimalAt, List.all_eq_true]
          intro p hp
          rcases List.mem_cons.mp hp with rfl | hp
          · have := hwf p (by simp); simp; omega
          · simpa using hrt'.1 p hp
        simp only [List.getElem?_cons_zero, hmin, ha, List.eraseIdx_cons_zero, Bool.true_and]
        exact ih fuel st' final (by simpa using hf) (fun o ho => hwf o (by simp [ho])) hrt'.2 h

theorem linOk_complete (init : Nat) (ops : List LOp) (final : Nat) (hwf : ∀ o ∈ ops, o.inv ≤ o.ret) (hrt : RealTime ops)
    (h : replayG init (ops.map (·.op)) = some final) : linOk init ops final = true :=
  linSearch_complete ops _ _ _ (Nat.lt_succ_self _) hwf hrt h

end Hive.Typed.Conc

/-! ## Real-time order of the protocol model's log (ghost clock) -/
namespace Hive.Typed.Conc
open Hive.Conc

variable {V : Type} [Inhabited V]

/-- Erasing the ghost time gives a run of the protocol model itself. -/
theorem tsys_simulates (C : Codec V) {c0 c : Cfg (TShared V) (TThread V)} (hr : Reach (tsys C) c0 c) :
    Reach (sys C) (c0.1.sh, c0.2.map (·.t)) (c.1.sh, c.2.map (·.t)) := by
  induction hr with
  | refl => exact Reach.refl _
  | tail _ hs ih =>
    refine Reach.tail ih ?_
    cases hs with
    | mk s pre u post s' u' hm =>
      simp only [tsys, ttstep, List.mem_map] at hm
      obtain ⟨x, hx, hxe⟩ := hm
      obtain ⟨hs', hu'⟩ := Prod.mk.inj hxe
      subst hs' hu'
      simp only [List.map_append, List.map_cons]
      have hx' : (x.1, x.2) ∈ (sys C).step s.sh u.t := hx
      exact Step.mk s.sh (pre.map (·.t)) u.t (post.map (·.t)) x.1 x.2 hx'

/-- One micro-step logs at most one call. -/
theorem tstep_log (C : Codec V) (sh : Shared V) (t : Thread V) (x : Shared V × Thread V) (h : x ∈ tstep C sh t) :
    x.1.log = sh.log ∨ ∃ e, x.1.log = sh.log ++ [e] := by
  unfold tstep at h
  split at h
  · simp at h
  · split at h
    all_goals (try split at h)
    all_goals (try split at h)
    all_goals simp at h
    all_goals (try (subst h; simp))

structure TInv (c : Cfg (TShared V) (TThread V)) : Prop where
  len : c.1.stamps.length = c.1.sh.log.length
  within : ∀ p ∈ c.1.stamps, p.1 ≤ p.2 ∧ p.2 < c.1.clock
  sorted : c.1.stamps.Pairwise fun a b => a.2 < b.2
  inflight : ∀ u ∈ c.2, u.inv ≤ c.1.clock

theorem tinv_init (s0 : St V) (scripts : List (List (Op V × Faults))) : TInv (tinit s0, scripts.map tstart) := by
  refine ⟨by simp [tinit, init], by simp [tinit], by simp [tinit], ?_⟩
  intro u hu
  simp only [List.mem_map] at hu
  obtain ⟨_, _, rfl⟩ := hu
  simp [tstart]

theorem tinv_step (C : Codec V) (a b : Cfg (TShared V) (TThread V)) (hi : TInv a) (hs : Step (tsys C) a b) : TInv b := by
  cases hs with
  | mk s pre u post s' u' hm =>
    simp only [tsys, ttstep, List.mem_map] at hm
    obtain ⟨x, hx, hxe⟩ := hm
    have hwithin : ∀ p ∈ s.stamps, p.1 ≤ p.2 ∧ p.2 < s.clock := hi.within
    have hinfl : ∀ v ∈ pre ++ u :: post, v.inv ≤ s.clock := hi.inflight
    have hsorted : s.stamps.Pairwise fun a b => a.2 < b.2 := hi.sorted
    have hlen : s.stamps.length = s.sh.log.length := hi.len
    have hu : u.inv ≤ s.clock := hinfl u (by simp)
    have hinv : (if isIdle u.t.pc then s.clock else u.inv) ≤ s.clock := by split <;> simp [hu]
    have hlog := tstep_log C s.sh u.t x hx
    obtain ⟨hs', hu'⟩ := Prod.mk.inj hxe
    subst hs' hu'
    refine ⟨?_, ?_, ?_, ?_⟩
    · simp only
      rcases hlog with hl | ⟨e, hl⟩
      · simp [hl, hlen]
      · simp [hl, hlen]
    · simp only
      intro p hp
      split at hp
      · rcases List.mem_append.mp hp with hp | hp
        · have := hwithin p hp; exact ⟨this.1, by omega⟩
        · simp only [List.mem_singleton] at hp; subst hp; exact ⟨hinv, by simp⟩
      · have := hwithin p hp; exact ⟨this.1, by omega⟩
    · simp only
      split
      · refine List.pairwise_append.mpr ⟨hsorted, by simp, ?_⟩
        intro p hp q hq
        simp only [List.mem_singleton] at hq; subst hq
        exact (hwithin p hp).2
      · exact hsorted
    · intro v hv
      simp only
      rcases List.mem_append.mp hv with hv | hv
      · have := hinfl v (by simp [hv]); omega
      · rcases List.mem_cons.mp hv with rfl | hv
        · simp only; omega
        · have := hinfl v (by simp [hv]); omega

theorem tinv_reach (C : Codec V) (s0 : St V) (scripts : List (List (Op V × Faults)))
    {c : Cfg (TShared V) (TThread V)} (hr : Reach (tsys C) (tinit s0, scripts.map tstart) c) : TInv c :=
  inv_induction TInv (tinv_init s0 scripts) (tinv_step C) hr

end Hive.Typed.Conc
