import Hive.Model.OMapConc
import Hive.Proofs.OMap
/-!
# Single-element operations are linearizable (C11): invariant of `opSys`, soundness of `linSearch`
-/
namespace Hive.OMap
open Hive.Conc

/-- program counters at which the goroutine holds `M` for writing -/
def holdsW : Pc → Bool
  | .addLook | .addWrite _ | .addUnlock | .delLook2 | .delWrite _ | .delUnlock | .clrWrite | .clrUnlock => true
  | _ => false

/-- the (operation, result) pair a call is going to return once its linearization point has passed -/
def pendingRet (t : OTh) : Option (SOp × SRes) :=
  match t.pc with
  | .addUnlock => some (.add t.e, .bool t.res)
  | .delRUnlock false => some (.del t.e, .bool false)
  | .delBranch false => some (.del t.e, .bool false)
  | .delUnlock => some (.del t.e, .bool t.res)
  | .hasRUnlock => some (.has t.e, .bool t.res)
  | .clrUnlock => some (.clear, .unit)
  | _ => none

def isWritePc (pc : Pc) (b : Bool) : Prop := pc = .addWrite b ∨ pc = .delWrite b

structure OInv (s0 : ASet) (c : Cfg OSh OTh) : Prop where
  excl : (if c.1.m.writer then 1 else 0) = c.2.countP (fun t => holdsW t.pc)
  look : ∀ t ∈ c.2, ∀ b, isWritePc t.pc b → b = AMap.has c.1.set t.e
  zeros : ∀ p ∈ c.1.set, p.2 = 0
  lin : replay s0 c.1.log = some c.1.set
  pend : ∀ t ∈ c.2, ∀ x, pendingRet t = some x → x ∈ c.1.log
  rets : ∀ t ∈ c.2, ∀ x ∈ t.rets, x ∈ c.1.log

theorem replay_snoc (s0 : ASet) (log : List (SOp × SRes)) (op : SOp) (res : SRes) :
    replay s0 (log ++ [(op, res)]) =
      match replay s0 log with
      | none => none
      | some st => if (specStep st op).2 = res then some (specStep st op).1 else none := by
  induction log generalizing s0 with
  | nil => simp [replay]
  | cons x r ih =>
    obtain ⟨o, rs⟩ := x
    simp only [List.cons_append, replay]
    split
    · exact ih _
    · rfl

theorem update_zero_self {m : AMap} (hz : ∀ p ∈ m, p.2 = 0) (k : Nat) : AMap.update m k 0 = m := by
  unfold AMap.update
  conv => rhs; rw [← List.map_id m]
  apply List.map_congr_left
  intro p hp
  by_cases h : p.1 = k
  · have := hz p hp
    simp only [h, if_true, id]
    rw [← h, ← this]
  · simp [h]

/-- the specification's `Add` on a set whose values are all `Void` -/
theorem specAdd {s : ASet} (hz : ∀ p ∈ s, p.2 = 0) (e : Nat) :
    specStep s (.add e) = ((if AMap.has s e then s else s ++ [(e, 0)]), .bool (!AMap.has s e)) := by
  cases h : AMap.get s e with
  | none => simp [specStep, sAdd, AMap.set, AMap.has, h]
  | some v => simp [specStep, sAdd, AMap.set, AMap.has, h, update_zero_self hz]

theorem specDel (s : ASet) (e : Nat) :
    specStep s (.del e) = ((if AMap.has s e then AMap.remove s e else s), .bool (AMap.has s e)) := by
  cases h : AMap.get s e with
  | none => simp [specStep, sDelete, AMap.delete, AMap.has, h]
  | some v => simp [specStep, sDelete, AMap.delete, AMap.has, h]

theorem specHas (s : ASet) (e : Nat) : specStep s (.has e) = (s, .bool (AMap.has s e)) := rfl
theorem specClear (s : ASet) : specStep s .clear = ([], .unit) := rfl

/-- all other goroutines are outside their write sections while one is inside -/
theorem others_outside {s : OSh} {pre post : List OTh} {t : OTh}
    (hex : (if s.m.writer then 1 else 0) = (pre ++ t :: post).countP (fun t => holdsW t.pc)) (ht : holdsW t.pc = true) :
    (∀ u ∈ pre, holdsW u.pc = false) ∧ (∀ u ∈ post, holdsW u.pc = false) ∧ s.m.writer = true := by
  rw [countP_mid] at hex
  simp only [ht, if_true] at hex
  have h0 : pre.countP (fun t => holdsW t.pc) = 0 ∧ post.countP (fun t => holdsW t.pc) = 0 ∧ s.m.writer = true := by
    split at hex
    · rename_i hw; exact ⟨by omega, by omega, hw⟩
    · omega
  refine ⟨?_, ?_, h0.2.2⟩
  · intro u hu
    have := List.countP_eq_zero.1 h0.1 u hu
    simpa using this
  · intro u hu
    have := List.countP_eq_zero.1 h0.2.1 u hu
    simpa using this

theorem isWritePc_holdsW {pc : Pc} {b : Bool} (h : isWritePc pc b) : holdsW pc = true := by
  rcases h with h | h <;> rw [h] <;> rfl

/-- steps that do not touch the contents -/
theorem oinv_frame {s0 : ASet} {s s' : OSh} {pre post : List OTh} {t t' : OTh}
    (hi : OInv s0 (s, pre ++ t :: post))
    (hexcl : (if s'.m.writer then 1 else 0) + (if holdsW t.pc then 1 else 0)
      = (if s.m.writer then 1 else 0) + (if holdsW t'.pc then 1 else 0))
    (hset : s'.set = s.set)
    (hlin : replay s0 s'.log = some s'.set)
    (hmono : ∀ x ∈ s.log, x ∈ s'.log)
    (hlook : ∀ b, isWritePc t'.pc b → b = AMap.has s.set t'.e)
    (hpend : ∀ x, pendingRet t' = some x → x ∈ s'.log)
    (hrets : ∀ x ∈ t'.rets, x ∈ s'.log) :
    OInv s0 (s', pre ++ t' :: post) := by
  have hex := hi.excl
  simp only [] at hex
  rw [countP_mid] at hex
  refine ⟨?_, ?_, ?_, hlin, ?_, ?_⟩
  · show (if s'.m.writer then 1 else 0) = _
    rw [countP_mid]; omega
  · intro u hu b hb
    show b = AMap.has s'.set u.e
    rw [hset]
    rcases List.mem_append.1 hu with hu | hu
    · exact hi.look u (List.mem_append_left _ hu) b hb
    · rcases List.mem_cons.1 hu with hu | hu
      · subst hu; exact hlook b hb
      · exact hi.look u (List.mem_append_right _ (List.mem_cons_of_mem _ hu)) b hb
  · show ∀ p ∈ s'.set, p.2 = 0
    rw [hset]; exact hi.zeros
  · intro u hu x hx
    rcases List.mem_append.1 hu with hu | hu
    · exact hmono x (hi.pend u (List.mem_append_left _ hu) x hx)
    · rcases List.mem_cons.1 hu with hu | hu
      · subst hu; exact hpend x hx
      · exact hmono x (hi.pend u (List.mem_append_right _ (List.mem_cons_of_mem _ hu)) x hx)
  · intro u hu x hx
    rcases List.mem_append.1 hu with hu | hu
    · exact hmono x (hi.rets u (List.mem_append_left _ hu) x hx)
    · rcases List.mem_cons.1 hu with hu | hu
      · subst hu; exact hrets x hx
      · exact hmono x (hi.rets u (List.mem_append_right _ (List.mem_cons_of_mem _ hu)) x hx)

/-- the write step of a critical section: the contents change, nobody else is inside -/
theorem oinv_write {s0 : ASet} {s s' : OSh} {pre post : List OTh} {t t' : OTh}
    (hi : OInv s0 (s, pre ++ t :: post))
    (hin : holdsW t.pc = true) (hin' : holdsW t'.pc = true) (hm : s'.m = s.m)
    (hnw : ∀ b, ¬ isWritePc t'.pc b)
    (hz : ∀ p ∈ s'.set, p.2 = 0)
    (hlin : replay s0 s'.log = some s'.set)
    (hmono : ∀ x ∈ s.log, x ∈ s'.log)
    (hpend : ∀ x, pendingRet t' = some x → x ∈ s'.log)
    (hrets : ∀ x ∈ t'.rets, x ∈ s'.log) :
    OInv s0 (s', pre ++ t' :: post) := by
  have hex := hi.excl
  simp only [] at hex
  obtain ⟨hpre, hpost, _⟩ := others_outside hex hin
  rw [countP_mid] at hex
  refine ⟨?_, ?_, hz, hlin, ?_, ?_⟩
  · show (if s'.m.writer then 1 else 0) = _
    rw [countP_mid, hm]; simp only [hin, hin', if_true] at hex ⊢; exact hex
  · intro u hu b hb
    rcases List.mem_append.1 hu with hu | hu
    · have := hpre u hu; rw [isWritePc_holdsW hb] at this; cases this
    · rcases List.mem_cons.1 hu with hu | hu
      · subst hu; exact absurd hb (hnw b)
      · have := hpost u hu; rw [isWritePc_holdsW hb] at this; cases this
  · intro u hu x hx
    rcases List.mem_append.1 hu with hu | hu
    · exact hmono x (hi.pend u (List.mem_append_left _ hu) x hx)
    · rcases List.mem_cons.1 hu with hu | hu
      · subst hu; exact hpend x hx
      · exact hmono x (hi.pend u (List.mem_append_right _ (List.mem_cons_of_mem _ hu)) x hx)
  · intro u hu x hx
    rcases List.mem_append.1 hu with hu | hu
    · exact hmono x (hi.rets u (List.mem_append_left _ hu) x hx)
    · rcases List.mem_cons.1 hu with hu | hu
      · subst hu; exact hrets x hx
      · exact hmono x (hi.rets u (List.mem_append_right _ (List.mem_cons_of_mem _ hu)) x hx)

theorem oinv_init (s0 : ASet) (hz : ∀ p ∈ s0, p.2 = 0) (progs : List (List SOp)) :
    OInv s0 ({ m := RW.free, set := s0, log := [] }, progs.map OTh.start) := by
  refine ⟨?_, ?_, hz, rfl, ?_, ?_⟩
  · show (if RW.free.writer then 1 else 0) = _
    have : (progs.map OTh.start).countP (fun t => holdsW t.pc) = 0 := by
      rw [List.countP_eq_zero]; intro t ht
      obtain ⟨p, _, rfl⟩ := List.mem_map.1 ht; simp [OTh.start, holdsW]
    rw [this]; rfl
  · intro t ht b hb
    obtain ⟨p, _, rfl⟩ := List.mem_map.1 ht
    rcases hb with hb | hb <;> simp [OTh.start] at hb
  · intro t ht x hx
    obtain ⟨p, _, rfl⟩ := List.mem_map.1 ht
    simp [pendingRet, OTh.start] at hx
  · intro t ht x hx
    obtain ⟨p, _, rfl⟩ := List.mem_map.1 ht
    simp [OTh.start] at hx

theorem mem_snoc_left {α : Type} {l : List α} {x y : α} (h : x ∈ l) : x ∈ l ++ [y] := List.mem_append_left _ h

theorem oinv_step {s0 : ASet} {a b : Cfg OSh OTh} (hi : OInv s0 a) (hs : Step opSys a b) : OInv s0 b := by
  obtain ⟨s, pre, t, post, s', t', hmem⟩ := hs
  have hpendt : ∀ x, pendingRet t = some x → x ∈ s.log := hi.pend t (by simp)
  have hretst : ∀ x ∈ t.rets, x ∈ s.log := hi.rets t (by simp)
  have hlookt : ∀ b, isWritePc t.pc b → b = AMap.has s.set t.e := hi.look t (by simp)
  have hlin : replay s0 s.log = some s.set := hi.lin
  have hzeros : ∀ p ∈ s.set, p.2 = 0 := hi.zeros
  simp only [opSys, opStep] at hmem
  cases hpc : t.pc with
  | idle =>
    simp only [hpc] at hmem
    cases htd : t.todo with
    | nil => simp [htd] at hmem
    | cons op rest =>
      simp only [htd] at hmem
      cases op <;> simp only [List.mem_singleton, Prod.mk.injEq] at hmem <;> obtain ⟨rfl, rfl⟩ := hmem <;>
        exact oinv_frame hi (by simp [hpc, holdsW, runlockM] <;> rfl) rfl hlin (fun _ h => h)
          (by intro b hb; rcases hb with hb | hb <;> simp at hb)
          (by intro x hx; simp [pendingRet] at hx) hretst
  | addReq =>
    simp only [hpc, List.mem_singleton, Prod.mk.injEq] at hmem
    obtain ⟨rfl, rfl⟩ := hmem
    exact oinv_frame hi (by simp [hpc, holdsW, reqM] <;> rfl) rfl hlin (fun _ h => h)
      (by intro b hb; rcases hb with hb | hb <;> simp at hb)
      (by intro x hx; simp [pendingRet] at hx) hretst
  | addAcq =>
    simp only [hpc] at hmem
    cases hacq : acqM s with
    | none => simp [hacq] at hmem
    | some s1 =>
      simp only [hacq, List.mem_singleton, Prod.mk.injEq] at hmem
      obtain ⟨rfl, rfl⟩ := hmem
      unfold acqM at hacq
      split at hacq
      · rename_i hen
        cases hacq
        have hw : s.m.writer = false := by simp at hen; exact hen.2
        exact oinv_frame hi (by simp [hpc, holdsW, hw]) rfl hlin (fun _ h => h)
          (by intro b hb; rcases hb with hb | hb <;> simp at hb)
          (by intro x hx; simp [pendingRet] at hx) hretst
      · cases hacq
  | addLook =>
    simp only [hpc, List.mem_singleton, Prod.mk.injEq] at hmem
    obtain ⟨rfl, rfl⟩ := hmem
    exact oinv_frame hi (by simp [hpc, holdsW, runlockM] <;> rfl) rfl hlin (fun _ h => h)
      (by intro b hb; rcases hb with hb | hb <;> simp at hb; exact hb.symm)
      (by intro x hx; simp [pendingRet] at hx) hretst
  | addWrite present =>
    simp only [hpc, List.mem_singleton, Prod.mk.injEq] at hmem
    obtain ⟨rfl, rfl⟩ := hmem
    have hp : present = AMap.has s.set t.e := hlookt present (Or.inl hpc)
    refine oinv_write hi (by simp [hpc, holdsW]) (by simp [holdsW]) rfl
      (by intro b hb; rcases hb with hb | hb <;> simp at hb) ?_ ?_ (fun _ h => mem_snoc_left h) ?_
      (fun x hx => mem_snoc_left (hretst x hx))
    · intro p hp'
      simp only at hp'
      split at hp'
      · exact hzeros p hp'
      · rcases List.mem_append.1 hp' with h | h
        · exact hzeros p h
        · simp at h; rw [h]
    · simp only [replay_snoc, hlin, specAdd hzeros, ← hp, if_true]
    · intro x hx
      simp only [pendingRet] at hx
      cases hx
      simp
  | addUnlock =>
    simp only [hpc, List.mem_singleton, Prod.mk.injEq] at hmem
    obtain ⟨rfl, rfl⟩ := hmem
    have hex : (if s.m.writer then 1 else 0) = (pre ++ t :: post).countP (fun t => holdsW t.pc) := hi.excl
    obtain ⟨_, _, hw⟩ := others_outside hex (t := t) (by simp [hpc, holdsW])
    exact oinv_frame hi (by simp [hpc, holdsW, unlockM, hw]) rfl hlin (fun _ h => h)
      (by intro b hb; rcases hb with hb | hb <;> simp at hb)
      (by intro x hx; simp [pendingRet] at hx)
      (by intro x hx
          simp only [List.mem_cons] at hx
          rcases hx with hx | hx
          · exact hx ▸ hpendt _ (by simp [pendingRet, hpc])
          · exact hretst x hx)
  | delRLock =>
    simp only [hpc] at hmem
    cases hr : rlockM s with
    | none => simp [hr] at hmem
    | some s1 =>
      simp only [hr, List.mem_singleton, Prod.mk.injEq] at hmem
      obtain ⟨rfl, rfl⟩ := hmem
      unfold rlockM at hr
      split at hr
      · cases hr
        exact oinv_frame hi (by simp [hpc, holdsW, runlockM] <;> rfl) rfl hlin (fun _ h => h)
          (by intro b hb; rcases hb with hb | hb <;> simp at hb)
          (by intro x hx; simp [pendingRet] at hx) hretst
      · cases hr
  | delLook1 =>
    simp only [hpc, List.mem_singleton, Prod.mk.injEq] at hmem
    obtain ⟨rfl, rfl⟩ := hmem
    cases hp : AMap.has s.set t.e with
    | true =>
      refine oinv_frame hi (by simp [hpc, holdsW]) rfl (by simpa [hp] using hlin) (by intro x hx; simpa [hp] using hx)
        (by intro b hb; rcases hb with hb | hb <;> simp at hb)
        (by intro x hx; simp [pendingRet, hp] at hx) (by intro x hx; simpa [hp] using hretst x hx)
    | false =>
      refine oinv_frame hi (by simp [hpc, holdsW]) rfl ?_ (by intro x hx; simp [hp]; exact Or.inl hx)
        (by intro b hb; rcases hb with hb | hb <;> simp at hb)
        (by intro x hx; simp [pendingRet, hp] at hx; simp [hp, ← hx]) (by intro x hx; simp [hp]; exact Or.inl (hretst x hx))
      simp only [hp, Bool.false_eq_true, if_false, replay_snoc, hlin, specDel, if_true]
  | delRUnlock present =>
    simp only [hpc, List.mem_singleton, Prod.mk.injEq] at hmem
    obtain ⟨rfl, rfl⟩ := hmem
    exact oinv_frame hi (by simp [hpc, holdsW, runlockM] <;> rfl) rfl hlin (fun _ h => h)
      (by intro b hb; rcases hb with hb | hb <;> simp at hb)
      (by intro x hx
          cases present
          · exact hpendt x (by simpa [pendingRet, hpc] using hx)
          · simp [pendingRet] at hx)
      hretst
  | delBranch present =>
    simp only [hpc] at hmem
    cases present with
    | true =>
      simp only [if_true, List.mem_singleton, Prod.mk.injEq] at hmem
      obtain ⟨rfl, rfl⟩ := hmem
      exact oinv_frame hi (by simp [hpc, holdsW, reqM] <;> rfl) rfl hlin (fun _ h => h)
        (by intro b hb; rcases hb with hb | hb <;> simp at hb)
        (by intro x hx; simp [pendingRet] at hx) hretst
    | false =>
      simp only [Bool.false_eq_true, if_false, List.mem_singleton, Prod.mk.injEq] at hmem
      obtain ⟨rfl, rfl⟩ := hmem
      exact oinv_frame hi (by simp [hpc, holdsW, runlockM] <;> rfl) rfl hlin (fun _ h => h)
        (by intro b hb; rcases hb with hb | hb <;> simp at hb)
        (by intro x hx; simp [pendingRet] at hx)
        (by intro x hx
            simp only [List.mem_cons] at hx
            rcases hx with hx | hx
            · exact hx ▸ hpendt _ (by simp [pendingRet, hpc])
            · exact hretst x hx)
  | delAcq =>
    simp only [hpc] at hmem
    cases hacq : acqM s with
    | none => simp [hacq] at hmem
    | some s1 =>
      simp only [hacq, List.mem_singleton, Prod.mk.injEq] at hmem
      obtain ⟨rfl, rfl⟩ := hmem
      unfold acqM at hacq
      split at hacq
      · rename_i hen
        cases hacq
        have hw : s.m.writer = false := by simp at hen; exact hen.2
        exact oinv_frame hi (by simp [hpc, holdsW, hw]) rfl hlin (fun _ h => h)
          (by intro b hb; rcases hb with hb | hb <;> simp at hb)
          (by intro x hx; simp [pendingRet] at hx) hretst
      · cases hacq
  | delLook2 =>
    simp only [hpc, List.mem_singleton, Prod.mk.injEq] at hmem
    obtain ⟨rfl, rfl⟩ := hmem
    exact oinv_frame hi (by simp [hpc, holdsW, runlockM] <;> rfl) rfl hlin (fun _ h => h)
      (by intro b hb; rcases hb with hb | hb <;> simp at hb; exact hb.symm)
      (by intro x hx; simp [pendingRet] at hx) hretst
  | delWrite present =>
    simp only [hpc, List.mem_singleton, Prod.mk.injEq] at hmem
    obtain ⟨rfl, rfl⟩ := hmem
    have hp : present = AMap.has s.set t.e := hlookt present (Or.inr hpc)
    refine oinv_write hi (by simp [hpc, holdsW]) (by simp [holdsW]) rfl
      (by intro b hb; rcases hb with hb | hb <;> simp at hb) ?_ ?_ (fun _ h => mem_snoc_left h) ?_
      (fun x hx => mem_snoc_left (hretst x hx))
    · intro p hp'
      simp only at hp'
      split at hp'
      · exact hzeros p (List.mem_filter.1 hp').1
      · exact hzeros p hp'
    · simp only [replay_snoc, hlin, specDel, ← hp, if_true]
    · intro x hx
      simp only [pendingRet] at hx
      cases hx
      simp
  | delUnlock =>
    simp only [hpc, List.mem_singleton, Prod.mk.injEq] at hmem
    obtain ⟨rfl, rfl⟩ := hmem
    have hex : (if s.m.writer then 1 else 0) = (pre ++ t :: post).countP (fun t => holdsW t.pc) := hi.excl
    obtain ⟨_, _, hw⟩ := others_outside hex (t := t) (by simp [hpc, holdsW])
    exact oinv_frame hi (by simp [hpc, holdsW, unlockM, hw]) rfl hlin (fun _ h => h)
      (by intro b hb; rcases hb with hb | hb <;> simp at hb)
      (by intro x hx; simp [pendingRet] at hx)
      (by intro x hx
          simp only [List.mem_cons] at hx
          rcases hx with hx | hx
          · exact hx ▸ hpendt _ (by simp [pendingRet, hpc])
          · exact hretst x hx)
  | hasRLock =>
    simp only [hpc] at hmem
    cases hr : rlockM s with
    | none => simp [hr] at hmem
    | some s1 =>
      simp only [hr, List.mem_singleton, Prod.mk.injEq] at hmem
      obtain ⟨rfl, rfl⟩ := hmem
      unfold rlockM at hr
      split at hr
      · cases hr
        exact oinv_frame hi (by simp [hpc, holdsW, runlockM] <;> rfl) rfl hlin (fun _ h => h)
          (by intro b hb; rcases hb with hb | hb <;> simp at hb)
          (by intro x hx; simp [pendingRet] at hx) hretst
      · cases hr
  | hasLook =>
    simp only [hpc, List.mem_singleton, Prod.mk.injEq] at hmem
    obtain ⟨rfl, rfl⟩ := hmem
    refine oinv_frame hi (by simp [hpc, holdsW]) rfl ?_ (fun _ h => mem_snoc_left h)
      (by intro b hb; rcases hb with hb | hb <;> simp at hb)
      (by intro x hx; simp [pendingRet] at hx; simp [← hx]) (fun x hx => mem_snoc_left (hretst x hx))
    simp only [replay_snoc, hlin, specHas, if_true]
  | hasRUnlock =>
    simp only [hpc, List.mem_singleton, Prod.mk.injEq] at hmem
    obtain ⟨rfl, rfl⟩ := hmem
    exact oinv_frame hi (by simp [hpc, holdsW, runlockM] <;> rfl) rfl hlin (fun _ h => h)
      (by intro b hb; rcases hb with hb | hb <;> simp at hb)
      (by intro x hx; simp [pendingRet] at hx)
      (by intro x hx
          simp only [List.mem_cons] at hx
          rcases hx with hx | hx
          · exact hx ▸ hpendt _ (by simp [pendingRet, hpc])
          · exact hretst x hx)
  | clrReq =>
    simp only [hpc, List.mem_singleton, Prod.mk.injEq] at hmem
    obtain ⟨rfl, rfl⟩ := hmem
    exact oinv_frame hi (by simp [hpc, holdsW, reqM] <;> rfl) rfl hlin (fun _ h => h)
      (by intro b hb; rcases hb with hb | hb <;> simp at hb)
      (by intro x hx; simp [pendingRet] at hx) hretst
  | clrAcq =>
    simp only [hpc] at hmem
    cases hacq : acqM s with
    | none => simp [hacq] at hmem
    | some s1 =>
      simp only [hacq, List.mem_singleton, Prod.mk.injEq] at hmem
      obtain ⟨rfl, rfl⟩ := hmem
      unfold acqM at hacq
      split at hacq
      · rename_i hen
        cases hacq
        have hw : s.m.writer = false := by simp at hen; exact hen.2
        exact oinv_frame hi (by simp [hpc, holdsW, hw]) rfl hlin (fun _ h => h)
          (by intro b hb; rcases hb with hb | hb <;> simp at hb)
          (by intro x hx; simp [pendingRet] at hx) hretst
      · cases hacq
  | clrWrite =>
    simp only [hpc, List.mem_singleton, Prod.mk.injEq] at hmem
    obtain ⟨rfl, rfl⟩ := hmem
    refine oinv_write hi (by simp [hpc, holdsW]) (by simp [holdsW]) rfl
      (by intro b hb; rcases hb with hb | hb <;> simp at hb) (by simp) ?_ (fun _ h => mem_snoc_left h) ?_
      (fun x hx => mem_snoc_left (hretst x hx))
    · simp only [replay_snoc, hlin, specClear, if_true]
    · intro x hx
      simp only [pendingRet] at hx
      cases hx
      simp
  | clrUnlock =>
    simp only [hpc, List.mem_singleton, Prod.mk.injEq] at hmem
    obtain ⟨rfl, rfl⟩ := hmem
    have hex : (if s.m.writer then 1 else 0) = (pre ++ t :: post).countP (fun t => holdsW t.pc) := hi.excl
    obtain ⟨_, _, hw⟩ := others_outside hex (t := t) (by simp [hpc, holdsW])
    exact oinv_frame hi (by simp [hpc, holdsW, unlockM, hw]) rfl hlin (fun _ h => h)
      (by intro b hb; rcases hb with hb | hb <;> simp at hb)
      (by intro x hx; simp [pendingRet] at hx)
      (by intro x hx
          simp only [List.mem_cons] at hx
          rcases hx with hx | hx
          · exact hx ▸ hpendt _ (by simp [pendingRet, hpc])
          · exact hretst x hx)

theorem oinv_reach {s0 : ASet} (hz : ∀ p ∈ s0, p.2 = 0) {progs : List (List SOp)} {c : Cfg OSh OTh}
    (hr : Reach opSys ({ m := RW.free, set := s0, log := [] }, progs.map OTh.start) c) : OInv s0 c :=
  inv_induction (OInv s0) (oinv_init s0 hz progs) (fun _ _ h hs => oinv_step h hs) hr

/-! ## soundness of the linearizability checker -/

/-- `order` is a linearization of the completed calls `cs` from state `s`: a permutation of them that the
specification can execute with exactly the recorded results and that never puts a call before one
that had already returned when it was invoked. -/
def LinWitness (s : ASet) (cs order : List HCall) : Prop :=
  order.Perm cs ∧ (replay s (order.map (fun c => (c.op, c.res)))).isSome = true ∧
    order.Pairwise (fun a b => ¬ b.ret < a.inv)

theorem perm_cons_eraseIdx {α : Type} {l : List α} {i : Nat} {c : α} (h : l[i]? = some c) :
    (c :: l.eraseIdx i).Perm l := by
  obtain ⟨hlt, hc⟩ := List.getElem?_eq_some_iff.1 h
  have hsplit : l = l.take i ++ c :: l.drop (i + 1) := by
    conv => lhs; rw [← List.take_append_drop i l, List.drop_eq_getElem_cons hlt, hc]
  rw [List.eraseIdx_eq_take_drop_succ]
  conv => rhs; rw [hsplit]
  exact List.perm_middle.symm

theorem linSearch_sound (fuel : Nat) (s : ASet) (cs : List HCall) (h : linSearch fuel s cs = true) :
    ∃ order, LinWitness s cs order := by
  induction fuel generalizing s cs with
  | zero =>
    cases cs with
    | nil => exact ⟨[], List.Perm.refl _, rfl, List.Pairwise.nil⟩
    | cons c r => simp [linSearch] at h
  | succ f ih =>
    cases cs with
    | nil => exact ⟨[], List.Perm.refl _, rfl, List.Pairwise.nil⟩
    | cons c0 r =>
      simp only [linSearch, List.any_eq_true] at h
      obtain ⟨i, _, hi⟩ := h
      cases hc : (c0 :: r)[i]? with
      | none => simp [hc] at hi
      | some c =>
        simp only [hc, Bool.and_eq_true, decide_eq_true_eq] at hi
        obtain ⟨hmin, hres, hrec⟩ := hi
        obtain ⟨order, hperm, hrep, hpw⟩ := ih _ _ hrec
        have hp := perm_cons_eraseIdx hc
        refine ⟨c :: order, (List.Perm.cons c hperm).trans hp, ?_, ?_⟩
        · simp only [List.map_cons, replay, hres, if_true]; exact hrep
        · rw [List.pairwise_cons]
          refine ⟨?_, hpw⟩
          intro b hb
          have hb' : b ∈ c0 :: r := hp.mem_iff.1 (List.mem_cons_of_mem _ (hperm.mem_iff.1 hb))
          have := List.all_eq_true.1 hmin b hb'
          simpa using this

theorem linearizable_sound (init : ASet) (cs : List HCall) (h : linearizable init cs = true) :
    ∃ order, LinWitness init cs order := linSearch_sound _ _ _ h

end Hive.OMap
