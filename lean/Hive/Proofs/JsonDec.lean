import Hive.Model.JsonDec
/-!
Totality of the map/JSON decoder model: with every assertion site checked, no document of any shape
makes any target type panic.
-/
namespace Hive.JsonDec
open Hive.Dec

theorem ofBool_np (b : Bool) : ofBool b ≠ .panic := by cases b <;> simp [ofBool]

theorem bad_np (c : Cfg) (h : c.checked = true) : bad c ≠ .panic := by simp [bad, h]

theorem decList_np (f : Json → Res) (h : ∀ x, f x ≠ .panic) (xs : List Json) : decList f xs ≠ .panic := by
  induction xs with
  | nil => simp [decList]
  | cons x xs ih =>
    simp only [decList]
    have hx := h x
    cases hfx : f x with
    | ok => simpa using ih
    | err => simp
    | panic => exact absurd hfx hx

theorem decEntries_np (fk fv : Json → Res) (hk : ∀ x, fk x ≠ .panic) (hv : ∀ x, fv x ≠ .panic)
    (kvs : List (Bytes × Json)) : decEntries fk fv kvs ≠ .panic := by
  induction kvs with
  | nil => simp [decEntries]
  | cons kv kvs ih =>
    obtain ⟨k, v⟩ := kv
    simp only [decEntries]
    have h1 := hk (.str k)
    have h2 := hv v
    cases hfk : fk (.str k) with
    | ok =>
      cases hfv : fv v with
      | ok => simpa using ih
      | err => simp
      | panic => exact absurd hfv h2
    | err => simp
    | panic => exact absurd hfk h1

/-- a result that is `ok`-continued by something that never panics never panics -/
theorem cont_np {r : Res} {k : Res} (hr : r ≠ .panic) (hk : k ≠ .panic) :
    (match r with
     | .ok => k
     | r => r) ≠ .panic := by
  cases r <;> simp_all

mutual
theorem dec_np (c : Cfg) (hc : c.checked = true) : (t : JTy) → ∀ j, dec c t j ≠ .panic
  | .bool, j => by cases j <;> simp [dec, bad_np c hc]
  | .str mn mx, j => by
    cases j <;> simp only [dec] <;> try simp
    split <;> first | exact ofBool_np _ | simp
  | .f64, j => by cases j <;> simp [dec, bad_np c hc]
  | .i64, j => by cases j <;> simp [dec, bad_np c hc, ofBool_np]
  | .u64, j => by cases j <;> simp [dec, bad_np c hc, ofBool_np]
  | .flt bits, j => by cases j <;> simp [dec, bad_np c hc, ofBool_np]
  | .big, j => by cases j <;> simp [dec, ofBool_np]
  | .time, j => by cases j <;> simp [dec, bad_np c hc, ofBool_np]
  | .hex mn mx, j => by
    cases j <;> simp only [dec] <;> try exact bad_np c hc
    split <;> first | exact ofBool_np _ | simp
  | .harr, j => by cases j <;> simp [dec, bad_np c hc, ofBool_np]
  | .pharr key, j => by
    cases j <;> simp only [dec] <;> try exact bad_np c hc
    split <;> first | exact ofBool_np _ | exact bad_np c hc
  | .ohex key mn mx, j => by
    cases j <;> simp only [dec] <;> try exact bad_np c hc
    split
    · split <;> first | exact ofBool_np _ | simp
    · exact bad_np c hc
  | .cstr, j => by cases j <;> simp [dec, ofBool_np]
  | .cnum, j => by cases j <;> simp [dec]
  | .sl mn mx e, j => by
    cases j <;> simp only [dec] <;> try exact bad_np c hc
    rename_i xs
    have h := decList_np (dec c e) (fun x => dec_np c hc e x) xs
    split
    · exact ofBool_np _
    · intro hp; exact h hp
  | .arr n e, j => by
    cases j <;> simp only [dec] <;> try exact bad_np c hc
    rename_i xs
    have h := decList_np (dec c e) (fun x => dec_np c hc e x) xs
    split
    · exact ofBool_np _
    · intro hp; exact h hp
  | .map mn mx k v, j => by
    cases j <;> simp only [dec] <;> try simp
    rename_i kvs
    have h := decEntries_np (dec c k) (dec c v) (fun x => dec_np c hc k x) (fun x => dec_np c hc v x) kvs
    split
    · exact ofBool_np _
    · intro hp; exact h hp
  | .st code fs, j => by
    cases j <;> simp only [dec] <;> try simp
    rename_i kvs
    split
    · exact decFields_np c hc fs kvs
    · split
      · split
        · exact decFields_np c hc fs kvs
        · simp
      · simp
  | .iface alts, j => by
    cases j <;> simp only [dec] <;> try simp
    rename_i kvs
    split
    · simp
    · exact decAlts_np c hc alts _ kvs
    · exact bad_np c hc
  | .ifu, j => by simp [dec]
  | .uns, j => by simp [dec]
theorem decFields_np (c : Cfg) (hc : c.checked = true) : (fs : JFields) → ∀ kvs, decFields c fs kvs ≠ .panic
  | .nil, kvs => by simp [decFields]
  | .cons key kind ty rest, kvs => by
    simp only [decFields]
    have hrest := decFields_np c hc rest kvs
    have hr : (match kind with
        | .emb => decEmb c ty kvs
        | .inl => dec c ty (.obj kvs)
        | .req =>
          match kvs.lookup key with
          | none => .err
          | some v => dec c ty v
        | .opt =>
          match kvs.lookup key with
          | none => .ok
          | some v => dec c ty v) ≠ .panic := by
      cases kind with
      | emb => exact decEmb_np c hc ty kvs
      | inl => exact dec_np c hc ty _
      | req => simp only; split <;> first | exact dec_np c hc ty _ | simp
      | opt => simp only; split <;> first | exact dec_np c hc ty _ | simp
    exact cont_np hr hrest
theorem decEmb_np (c : Cfg) (hc : c.checked = true) : (t : JTy) → ∀ kvs, decEmb c t kvs ≠ .panic
  | .st code fs, kvs => by simp only [decEmb]; exact decFields_np c hc fs kvs
  | .bool, _ => by simp [decEmb]
  | .str _ _, _ => by simp [decEmb]
  | .f64, _ => by simp [decEmb]
  | .i64, _ => by simp [decEmb]
  | .u64, _ => by simp [decEmb]
  | .flt _, _ => by simp [decEmb]
  | .big, _ => by simp [decEmb]
  | .time, _ => by simp [decEmb]
  | .hex _ _, _ => by simp [decEmb]
  | .harr, _ => by simp [decEmb]
  | .pharr _, _ => by simp [decEmb]
  | .ohex _ _ _, _ => by simp [decEmb]
  | .cstr, _ => by simp [decEmb]
  | .cnum, _ => by simp [decEmb]
  | .sl _ _ _, _ => by simp [decEmb]
  | .arr _ _, _ => by simp [decEmb]
  | .map _ _ _ _, _ => by simp [decEmb]
  | .iface _, _ => by simp [decEmb]
  | .ifu, _ => by simp [decEmb]
  | .uns, _ => by simp [decEmb]
theorem decAlts_np (c : Cfg) (hc : c.checked = true) : (a : JAlts) → ∀ oc kvs, decAlts c a oc kvs ≠ .panic
  | .nil, oc, kvs => by simp [decAlts]
  | .cons code ty rest, oc, kvs => by
    simp only [decAlts]
    split
    · exact dec_np c hc ty _
    · exact decAlts_np c hc rest oc kvs
end

end Hive.JsonDec
