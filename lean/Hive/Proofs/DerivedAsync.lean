import Hive.Model.DerivedAsync
import Hive.Proofs.DerivedCounter
import Hive.Proofs.DerivedSorted
/-! # Proofs about the asynchronous DerivedSet / Counter models -/
namespace Hive.Derived

/-! ## DerivedSet -/

/-- The membership bit of `x` after the queued reports have been applied to a mirror bit. -/
def replayAt (x : Nat) (b : Bool) (q : List ((Nat → Bool) × (Nat → Bool))) : Bool :=
  q.foldl (fun b r => (applyBit b (r.1 x) (r.2 x)).1) b

theorem replayAt_snoc (x : Nat) (b : Bool) (q : List ((Nat → Bool) × (Nat → Bool))) (ra rd : Nat → Bool) :
    replayAt x b (q ++ [(ra, rd)]) = (applyBit (replayAt x b q) (ra x) (rd x)).1 := by
  simp [replayAt, List.foldl_append]

/-- Subscriptions that still contribute their mirror to the counts. -/
def occA : List ASub → Nat → Int
  | [], _ => 0
  | s :: r, x => b2i (decide (s.phase ≠ .dead) && s.mirror x) + occA r x

theorem occA_append (a b : List ASub) (x : Nat) : occA (a ++ b) x = occA a x + occA b x := by
  induction a with
  | nil => simp [occA]
  | cons s r ih => simp [occA, ih]; omega

theorem occA_set (subs : List ASub) (j : Nat) (s s' : ASub) (x : Nat) (h : subs[j]? = some s) :
    occA (subs.set j s') x = occA subs x - b2i (decide (s.phase ≠ .dead) && s.mirror x)
      + b2i (decide (s'.phase ≠ .dead) && s'.mirror x) := by
  induction subs generalizing j with
  | nil => simp at h
  | cons a r ih =>
    cases j with
    | zero => simp at h; subst h; simp [occA]; omega
    | succ j => simp at h; simp [occA, ih j h]; omega

theorem occA_map_enqueue (i : Nat) (ra rd : Nat → Bool) (subs : List ASub) (x : Nat) :
    occA (subs.map (enqueue i ra rd)) x = occA subs x := by
  induction subs with
  | nil => rfl
  | cons s r ih =>
    simp only [List.map_cons, occA, ih]
    unfold enqueue
    split <;> rfl

theorem occA_nonneg (subs : List ASub) (x : Nat) : 0 ≤ occA subs x := by
  induction subs with
  | nil => simp [occA]
  | cons s r ih => simp only [occA, b2i]; split <;> omega

theorem occA_pos_iff (subs : List ASub) (x : Nat) :
    occA subs x ≥ 1 ↔ ∃ s ∈ subs, s.phase ≠ .dead ∧ s.mirror x = true := by
  induction subs with
  | nil => simp [occA]
  | cons s r ih =>
    have := occA_nonneg r x
    simp only [occA, List.mem_cons, exists_eq_or_imp]
    by_cases hp : s.phase = .dead <;> cases hm : s.mirror x <;> simp [b2i, hp, ← ih] <;> omega

structure DSA.Inv (s : DSA) : Prop where
  count : ∀ x, s.count x = occA s.subs x
  value : ∀ x, s.value x = decide (s.count x ≥ 1)
  replay : ∀ sub ∈ s.subs, sub.phase = .active → ∀ x, replayAt x (sub.mirror x) sub.queue = s.mem sub.src x

theorem DSA.inv_init : DSA.init.Inv := by
  constructor <;> simp [DSA.init, occA]

theorem DSA.inv_step (a b : DSA) (h : a.Inv) (hs : DSAStep a b) : b.Inv := by
  cases hs with
  | write i op =>
    refine ⟨fun x => ?_, h.value, ?_⟩
    · simp only [occA_map_enqueue]; exact h.count x
    · intro sub hsub hp x
      simp only [List.mem_map] at hsub
      obtain ⟨sub0, hm, rfl⟩ := hsub
      unfold enqueue at hp ⊢
      split
      · rename_i hc
        simp only [replayAt_snoc, hc.2, setAt_same]
        rw [← hc.2, h.replay sub0 hm hc.1 x, hc.2]
        exact report_consistent op (a.mem i) x
      · rename_i hc
        simp only [hc, if_false] at hp
        have hne : sub0.src ≠ i := fun he => hc ⟨hp, he⟩
        simp only [setAt_other _ _ _ _ hne]
        exact h.replay sub0 hm hp x
  | inherit i =>
    refine ⟨fun x => ?_, h.value, ?_⟩
    · simp only [occA_append, occA]
      have := h.count x
      simp [b2i] at this ⊢
      omega
    · intro sub hsub hp x
      simp only [List.mem_append, List.mem_singleton] at hsub
      rcases hsub with hsub | rfl
      · exact h.replay sub hsub hp x
      · simp [replayAt, applyBit]
  | deliver j sub ra rd rest hj hp hq =>
    refine ⟨fun x => ?_, fun x => ?_, ?_⟩
    · simp only [inheritBit_fst, occA_set _ _ _ _ _ hj, hp]
      have := h.count x
      have := mirror_delta (sub.mirror x) (ra x) (rd x)
      simp [b2i] at *
      omega
    · exact inheritBit_snd _ _ _ _ (h.value x)
    · intro sub' hsub' hp' x
      rcases List.mem_or_eq_of_mem_set hsub' with hm | rfl
      · exact h.replay sub' hm hp' x
      · have := h.replay sub (List.mem_of_getElem? hj) hp x
        rw [hq] at this
        simpa [replayAt] using this
  | unsubMark j sub hj hp =>
    refine ⟨fun x => ?_, h.value, ?_⟩
    · simp only [occA_set _ _ _ _ _ hj, hp]
      have := h.count x
      simp at *
      omega
    · intro sub' hsub' hp' x
      rcases List.mem_or_eq_of_mem_set hsub' with hm | rfl
      · exact h.replay sub' hm hp' x
      · simp at hp'
  | unsubRemove j sub hj hp =>
    refine ⟨fun x => ?_, fun x => ?_, ?_⟩
    · simp only [inheritBit_fst, occA_set _ _ _ _ _ hj, hp]
      have := h.count x
      simp [b2i] at *
      omega
    · exact inheritBit_snd _ _ _ _ (h.value x)
    · intro sub' hsub' hp' x
      rcases List.mem_or_eq_of_mem_set hsub' with hm | rfl
      · exact h.replay sub' hm hp' x
      · simp at hp'

theorem DSA.inv_reach (a b : DSA) (h : a.Inv) (hr : DSAReach a b) : b.Inv := by
  induction hr with
  | refl => exact h
  | tail _ hs ih => exact DSA.inv_step _ _ ih hs

theorem DSA.value_iff_union (s : DSA) (h : s.Inv) (hq : s.quiescent) (x : Nat) : s.value x = true ↔ s.union x := by
  rw [h.value x, h.count x, decide_eq_true_iff, occA_pos_iff]
  constructor
  · rintro ⟨sub, hm, hd, hx⟩
    have hact : sub.phase = .active := by
      have := (hq sub hm).2
      cases hph : sub.phase <;> simp_all
    refine ⟨sub, hm, hact, ?_⟩
    have := h.replay sub hm hact x
    rw [(hq sub hm).1 hact] at this
    simpa [replayAt, hx] using this.symm
  · rintro ⟨sub, hm, hact, hx⟩
    refine ⟨sub, hm, by simp [hact], ?_⟩
    have := h.replay sub hm hact x
    rw [(hq sub hm).1 hact] at this
    simpa [replayAt, hx] using this

/-! ## Counter -/

def lastVal (v : Int) (q : List Int) : Int := q.foldl (fun _ w => w) v

theorem lastVal_snoc (v w : Int) (q : List Int) : lastVal v (q ++ [w]) = w := by
  simp [lastVal, List.foldl_append]

def wsumA : List AMon → Int
  | [] => 0
  | m :: r => b2i m.was + wsumA r

theorem wsumA_append (a b : List AMon) : wsumA (a ++ b) = wsumA a + wsumA b := by
  induction a with
  | nil => simp [wsumA]
  | cons m r ih => simp [wsumA, ih]; omega

theorem wsumA_set (mons : List AMon) (j : Nat) (m m' : AMon) (h : mons[j]? = some m) :
    wsumA (mons.set j m') = wsumA mons - b2i m.was + b2i m'.was := by
  induction mons generalizing j with
  | nil => simp at h
  | cons a r ih =>
    cases j with
    | zero => simp at h; subst h; simp [wsumA]; omega
    | succ j => simp at h; simp [wsumA, ih j h]; omega

theorem wsumA_map_enqueue (i : Nat) (v : Int) (mons : List AMon) : wsumA (mons.map (enqueueVal i v)) = wsumA mons := by
  induction mons with
  | nil => rfl
  | cons m r ih =>
    simp only [List.map_cons, wsumA, ih]
    unfold enqueueVal
    split <;> rfl

/-- `seen m`: a value the flag of monitor `m` reflects, such that the queue leads from it to the
input's current value. -/
structure CTA.Inv (s : CTA) : Prop where
  counter : s.counter = wsumA s.mons
  dead : ∀ m ∈ s.mons, m.live = false → m.was = false
  live : ∀ m ∈ s.mons, m.live = true → m.queue = [] → m.was = s.cond (s.vars m.var)
  last : ∀ m ∈ s.mons, m.live = true → ∀ v rest, m.queue = v :: rest → lastVal v rest = s.vars m.var

theorem CTA.inv_init (cond : Int → Bool) : (CTA.init cond).Inv := by
  constructor <;> simp [CTA.init, wsumA]

/-- the condition is the same in every state of a run -/
theorem CTA.cond_step {flag : Bool} {a b : CTA} (hs : CTAStep flag a b) : b.cond = a.cond := by
  cases hs <;> rfl

theorem CTA.inv_step {flag : Bool} (a b : CTA) (hf : flag = true ∨ a.cond 0 = false) (h : a.Inv) (hs : CTAStep flag a b) :
    b.Inv := by
  cases hs with
  | set i v hne =>
    refine ⟨by simp only [wsumA_map_enqueue]; exact h.counter, ?_, ?_, ?_⟩
    · intro m hm hl
      simp only [List.mem_map] at hm
      obtain ⟨m0, hm0, rfl⟩ := hm
      unfold enqueueVal at hl ⊢
      split
      · rename_i hc; simp [hc.1, hc.2] at hl
      · rename_i hc; simp only [hc, if_false] at hl; exact h.dead m0 hm0 hl
    · intro m hm hl hq
      simp only [List.mem_map] at hm
      obtain ⟨m0, hm0, rfl⟩ := hm
      unfold enqueueVal at hl hq ⊢
      split
      · rename_i hc; simp [hc] at hq
      · rename_i hc
        simp only [hc, if_false] at hl hq
        have hne' : m0.var ≠ i := fun he => hc ⟨hl, he⟩
        simp only [setAt_other _ _ _ _ hne']
        exact h.live m0 hm0 hl hq
    · intro m hm hl w rest hq
      simp only [List.mem_map] at hm
      obtain ⟨m0, hm0, rfl⟩ := hm
      unfold enqueueVal at hl hq ⊢
      split
      · rename_i hc
        simp only [hc, and_self, if_true] at hq
        simp only [hc.2, setAt_same]
        cases hq0 : m0.queue with
        | nil => simp [hq0] at hq; obtain ⟨rfl, rfl⟩ := hq; rfl
        | cons u r0 =>
          simp [hq0] at hq
          obtain ⟨rfl, rfl⟩ := hq
          exact lastVal_snoc _ _ _
      · rename_i hc
        simp only [hc, if_false] at hl hq
        have hne' : m0.var ≠ i := fun he => hc ⟨hl, he⟩
        simp only [setAt_other _ _ _ _ hne']
        exact h.last m0 hm0 hl w rest hq
  | monitor i =>
    refine ⟨by simp [wsumA_append, wsumA, h.counter], ?_, ?_, ?_⟩
    · intro m hm hl
      simp only [List.mem_append, List.mem_singleton] at hm
      rcases hm with hm | rfl
      · exact h.dead m hm hl
      · simp at hl
    · intro m hm hl hq
      simp only [List.mem_append, List.mem_singleton] at hm
      rcases hm with hm | rfl
      · exact h.live m hm hl hq
      · -- registered silently: the input holds the zero value and the subscription has no flag, so the condition
        -- must be false for the zero value
        simp only at hq ⊢
        split at hq
        · simp at hq
        · next hc =>
          simp only [Bool.or_eq_true, bne_iff_ne, ne_eq, not_or, Decidable.not_not, Bool.not_eq_true] at hc
          rcases hf with hf | hf
          · simp [hf] at hc
          · rw [hc.1, hf]
    · intro m hm hl w rest hq
      simp only [List.mem_append, List.mem_singleton] at hm
      rcases hm with hm | rfl
      · exact h.last m hm hl w rest hq
      · simp only at hq
        split at hq
        · simp at hq; obtain ⟨rfl, rfl⟩ := hq; rfl
        · simp at hq
  | deliver j m v rest hj hl hq =>
    have hm := List.mem_of_getElem? hj
    refine ⟨?_, ?_, ?_, ?_⟩
    · simp only [wsumA_set _ _ _ _ hj, h.counter]
      cases a.cond v <;> cases m.was <;> simp [b2i] <;> omega
    · intro m' hm' hl'
      rcases List.mem_or_eq_of_mem_set hm' with hm'' | rfl
      · exact h.dead m' hm'' hl'
      · simp [hl] at hl'
    · intro m' hm' hl' hq'
      rcases List.mem_or_eq_of_mem_set hm' with hm'' | rfl
      · exact h.live m' hm'' hl' hq'
      · simp only at hq' ⊢
        subst hq'
        have := h.last m hm hl v [] hq
        simp [lastVal] at this
        rw [this]
    · intro m' hm' hl' w rest' hq'
      rcases List.mem_or_eq_of_mem_set hm' with hm'' | rfl
      · exact h.last m' hm'' hl' w rest' hq'
      · simp only at hq' ⊢
        subst hq'
        have := h.last m hm hl v (w :: rest') hq
        simpa [lastVal] using this
  | unmonitor j m hj hl =>
    refine ⟨?_, ?_, ?_, ?_⟩
    · simp only [wsumA_set _ _ _ _ hj, h.counter]
      cases m.was <;> simp [b2i]
    · intro m' hm' hl'
      rcases List.mem_or_eq_of_mem_set hm' with hm'' | rfl
      · exact h.dead m' hm'' hl'
      · rfl
    · intro m' hm' hl' hq'
      rcases List.mem_or_eq_of_mem_set hm' with hm'' | rfl
      · exact h.live m' hm'' hl' hq'
      · simp at hl'
    · intro m' hm' hl' w rest' hq'
      rcases List.mem_or_eq_of_mem_set hm' with hm'' | rfl
      · exact h.last m' hm'' hl' w rest' hq'
      · simp at hl'

theorem CTA.cond_reach {flag : Bool} {a b : CTA} (hr : CTAReach flag a b) : b.cond = a.cond := by
  induction hr with
  | refl => rfl
  | tail _ hs ih => rw [CTA.cond_step hs, ih]

theorem CTA.inv_reach {flag : Bool} (a b : CTA) (hf : flag = true ∨ a.cond 0 = false) (h : a.Inv)
    (hr : CTAReach flag a b) : b.Inv := by
  induction hr with
  | refl => exact h
  | tail hr' hs ih => exact CTA.inv_step _ _ (by rw [CTA.cond_reach hr']; exact hf) ih hs

theorem wsumA_eq_countP (mons : List AMon) (p : AMon → Bool) (h : ∀ m ∈ mons, m.was = p m) :
    wsumA mons = (mons.countP p : Nat) := by
  induction mons with
  | nil => simp [wsumA]
  | cons m r ih =>
    have h1 := h m (List.mem_cons_self ..)
    have h2 := ih (fun m' hm' => h m' (List.mem_cons_of_mem _ hm'))
    simp only [wsumA, List.countP_cons, h1, h2]
    cases p m <;> simp [b2i]
    omega

theorem CTA.counter_eq_expected (s : CTA) (h : s.Inv) (hq : s.quiescent) : s.counter = (s.expected : Nat) := by
  rw [h.counter, CTA.expected]
  apply wsumA_eq_countP
  intro m hm
  cases hl : m.live with
  | false => simp [h.dead m hm hl]
  | true => simp [h.live m hm hl (hq m hm hl)]

/-! ## SortedSet -/

structure SSA.Inv (s : SSA) : Prop where
  good : s.lag.Good
  last : ∀ e, s.lag.has e = true → lastVal (s.lag.wv e) (s.pend e) = s.cur e

theorem SSA.inv_init (less : Bool) : (SSA.init less).Inv :=
  ⟨SS.good_init less, by intro e h; simp [SSA.init, SS.init, SS.has] at h⟩

theorem good_setWv_absent (s : SS) (e : Nat) (w : Int) (h : s.Good) (hm : s.has e = false) :
    ({ s with wv := setAt s.wv e w } : SS).Good := by
  refine ⟨h.sorted, h.idx, ?_, h.nodup, h.heaviest, h.lightest⟩
  intro ent hent
  have hne : ent.el ≠ e := by
    intro he
    have : s.has e = true := by
      simp only [SS.has, List.any_eq_true]
      exact ⟨ent, hent, by simp [he]⟩
    rw [hm] at this
    exact Bool.false_ne_true this
  simp only [setAt_other _ _ _ _ hne]
  exact h.weights ent hent

theorem lastVal_cons (v w : Int) (rest : List Int) : lastVal v (w :: rest) = lastVal w rest := by
  simp [lastVal]

theorem SSA.inv_step (a b : SSA) (h : a.Inv) (hs : SSAStep a b) : b.Inv := by
  cases hs with
  | setW e w hne =>
    refine ⟨h.good, ?_⟩
    intro e' hm'
    by_cases hee : e' = e
    · subst hee
      simp only [hm', if_true, setAt_same]
      cases hq : a.pend e' with
      | nil => simp [lastVal]
      | cons u r => exact lastVal_snoc _ _ _
    · simp only [setAt_other _ _ _ _ hee]
      have := h.last e' hm'
      split
      · simp only [setAt_other _ _ _ _ hee]; exact this
      · exact this
  | deliverW e w rest hm hq =>
    refine ⟨SS.good_step a.lag (.weight e w) h.good, ?_⟩
    intro e' hm'
    have hmem : a.lag.has e' = true := by
      have := SS.has_step a.lag (.weight e w) e' h.good
      simp only [memSpec] at this
      rw [← this]; exact hm'
    simp only [SS.wv_step_weight]
    by_cases hee : e' = e
    · subst hee
      simp only [setAt_same]
      have := h.last e' hmem
      rw [hq, lastVal_cons] at this
      exact this
    · simp only [setAt_other _ _ _ _ hee]
      exact h.last e' hmem
  | add e hm =>
    have hg := good_setWv_absent a.lag e (a.cur e) h.good hm
    refine ⟨SS.good_step _ (.apply [e] []) hg, ?_⟩
    intro e' hm'
    have hs' := SS.has_step ({ a.lag with wv := setAt a.lag.wv e (a.cur e) } : SS) (.apply [e] []) e' hg
    simp only [SS.wv_step_apply]
    by_cases hee : e' = e
    · subst hee
      simp [setAt_same, lastVal]
    · simp only [setAt_other _ _ _ _ hee]
      have hmem : a.lag.has e' = true := by
        rw [hs'] at hm'
        simp only [memSpec, applyBit] at hm'
        have hc : ([e] : List Nat).contains e' = false := by simp [hee]
        rw [hc] at hm'
        simpa [SS.has] using hm'
      exact h.last e' hmem
  | del e =>
    refine ⟨SS.good_step a.lag (.apply [] [e]) h.good, ?_⟩
    intro e' hm'
    have hs' := SS.has_step a.lag (.apply [] [e]) e' h.good
    rw [hs'] at hm'
    simp only [memSpec, applyBit] at hm'
    simp only [SS.wv_step_apply]
    by_cases hee : e' = e
    · subst hee
      simp at hm'
    · simp only [setAt_other _ _ _ _ hee]
      have hmem : a.lag.has e' = true := by
        simp only [Bool.and_eq_true, Bool.or_eq_true] at hm'
        rcases hm'.1 with h1 | h1
        · exact h1
        · simp at h1
      exact h.last e' hmem

theorem SSA.inv_reach (a b : SSA) (h : a.Inv) (hr : SSAReach a b) : b.Inv := by
  induction hr with
  | refl => exact h
  | tail _ hs ih => exact SSA.inv_step _ _ ih hs

/-- At quiescence every entry carries the current value of its weight variable. -/
theorem SSA.weights_current (s : SSA) (h : s.Inv) (hq : s.quiescent) : ∀ ent ∈ s.lag.ents, ent.w = s.cur ent.el := by
  intro ent hent
  have hm : s.lag.has ent.el = true := by
    simp only [SS.has, List.any_eq_true]
    exact ⟨ent, hent, by simp⟩
  have := h.last ent.el hm
  rw [hq ent.el hm] at this
  rw [h.good.weights ent hent]
  simpa [lastVal] using this

/-! ## SubtractReactive -/

/-- The queued reports lead from the delivered view bit to the set's current bit, and every report
changes the occurrence count by exactly the change of the view bit. -/
def chainAt (x : Nat) : Bool → List ((Nat → Bool) × (Nat → Bool)) → Bool → Prop
  | v, [], m => v = m
  | v, r :: q, m => b2i (r.1 x) - b2i (r.2 x) = b2i (applyBit v (r.1 x) (r.2 x)).1 - b2i v ∧
      chainAt x (applyBit v (r.1 x) (r.2 x)).1 q m

theorem chainAt_snoc (x : Nat) (v : Bool) (q : List ((Nat → Bool) × (Nat → Bool))) (m m' : Bool) (ra rd : Nat → Bool)
    (h : chainAt x v q m) (hd : b2i (ra x) - b2i (rd x) = b2i m' - b2i m) (hc : (applyBit m (ra x) (rd x)).1 = m') :
    chainAt x v (q ++ [(ra, rd)]) m' := by
  induction q generalizing v with
  | nil =>
    simp only [chainAt] at h
    subst h
    simp only [List.nil_append, chainAt, hc]
    exact ⟨hd, trivial⟩
  | cons r q ih =>
    simp only [List.cons_append, chainAt] at h ⊢
    exact ⟨h.1, ih _ h.2⟩

/-- Signed sum of the delivered views. -/
def vsum : List RSub → Nat → Int
  | [], _ => 0
  | s :: r, x => (if s.plus then b2i (s.view x) else - b2i (s.view x)) + vsum r x

theorem vsum_append (a b : List RSub) (x : Nat) : vsum (a ++ b) x = vsum a x + vsum b x := by
  induction a with
  | nil => simp [vsum]
  | cons s r ih => simp [vsum, ih]; omega

theorem vsum_set (subs : List RSub) (j : Nat) (s s' : RSub) (x : Nat) (h : subs[j]? = some s) :
    vsum (subs.set j s') x = vsum subs x - (if s.plus then b2i (s.view x) else - b2i (s.view x))
      + (if s'.plus then b2i (s'.view x) else - b2i (s'.view x)) := by
  induction subs generalizing j with
  | nil => simp at h
  | cons a r ih =>
    cases j with
    | zero => simp at h; subst h; simp [vsum]; omega
    | succ j => simp at h; simp [vsum, ih j h]; omega

theorem vsum_map_renqueue (i : Nat) (ra rd : Nat → Bool) (subs : List RSub) (x : Nat) :
    vsum (subs.map (renqueue i ra rd)) x = vsum subs x := by
  induction subs with
  | nil => rfl
  | cons s r ih =>
    simp only [List.map_cons, vsum, ih]
    unfold renqueue
    split <;> rfl

/-- The subscriptions in creation order: the source, then the subtracted sets subscribed so far. -/
def shape (subs : List RSub) : List (Nat × Bool) := subs.map (fun s => (s.set, s.plus))

theorem shape_map_renqueue (i : Nat) (ra rd : Nat → Bool) (subs : List RSub) :
    shape (subs.map (renqueue i ra rd)) = shape subs := by
  simp only [shape, List.map_map]
  congr 1
  funext s
  simp only [Function.comp, renqueue]
  split <;> rfl

theorem shape_set (subs : List RSub) (j : Nat) (s s' : RSub) (h : subs[j]? = some s)
    (h1 : s'.set = s.set) (h2 : s'.plus = s.plus) : shape (subs.set j s') = shape subs := by
  induction subs generalizing j with
  | nil => simp at h
  | cons a r ih =>
    cases j with
    | zero => simp at h; subst h; simp [shape, h1, h2]
    | succ j =>
      simp at h
      have := ih j h
      simp only [shape, List.set_cons_succ, List.map_cons] at this ⊢
      rw [this]

structure SRA.Inv (s : SRA) : Prop where
  count : ∀ x, s.count x = vsum s.subs x
  value : ∀ x, s.value x = decide (s.count x ≥ 1)
  chain : ∀ sub ∈ s.subs, ∀ x, chainAt x (sub.view x) sub.queue (s.mem sub.set x)
  fresh : s.todo = none → s.subs = []
  shape : ∀ rest, s.todo = some rest → ∃ done, s.others = done ++ rest ∧
            shape s.subs = (s.src, true) :: done.map (fun o => (o, false))

theorem SRA.inv_init : SRA.init.Inv := by
  constructor <;> simp [SRA.init, vsum]

theorem SRA.inv_step (a b : SRA) (h : a.Inv) (hs : SRAStep a b) : b.Inv := by
  cases hs with
  | write i op =>
    refine ⟨fun x => by simp only [vsum_map_renqueue]; exact h.count x, h.value, ?_, ?_, ?_⟩
    · intro sub hsub x
      simp only [List.mem_map] at hsub
      obtain ⟨sub0, hm, rfl⟩ := hsub
      have h0 := h.chain sub0 hm x
      unfold renqueue
      split
      · rename_i hc
        simp only [hc, setAt_same]
        rw [hc] at h0
        exact chainAt_snoc x _ _ _ _ _ _ h0 (report_delta op (a.mem i) x).symm (report_consistent op (a.mem i) x)
      · rename_i hc
        simp only [setAt_other _ _ _ _ hc]
        exact h0
    · intro ht
      simp only [h.fresh ht, List.map_nil]
    · intro rest ht
      obtain ⟨done, h1, h2⟩ := h.shape rest ht
      exact ⟨done, h1, by simp only [shape_map_renqueue]; exact h2⟩
  | create src others hn =>
    have he := h.fresh hn
    refine ⟨fun x => ?_, h.value, ?_, by simp, ?_⟩
    · have := h.count x
      simp only [he, vsum] at this ⊢
      simp [this]
    · intro sub hsub x
      simp only [List.mem_singleton] at hsub
      subst hsub
      simp [chainAt, applyBit]
    · intro rest ht
      simp only [Option.some.injEq] at ht
      subst ht
      exact ⟨[], by simp, by simp [shape]⟩
  | subscribe o rest ht =>
    refine ⟨fun x => ?_, h.value, ?_, by simp, ?_⟩
    · have := h.count x
      simp only [vsum_append, vsum]
      simp [this]
    · intro sub hsub x
      simp only [List.mem_append, List.mem_singleton] at hsub
      rcases hsub with hsub | rfl
      · exact h.chain sub hsub x
      · simp [chainAt, applyBit]
    · intro rest' ht'
      simp only [Option.some.injEq] at ht'
      obtain ⟨done, h1, h2⟩ := h.shape (o :: rest) ht
      refine ⟨done ++ [o], by simp [h1, ← ht'], ?_⟩
      simp only [shape, List.map_append, List.map_cons, List.map_nil] at h2 ⊢
      rw [h2]
      simp
  | deliver j sub ra rd rest hj hq =>
    have hm := List.mem_of_getElem? hj
    have hch := fun x => h.chain sub hm x
    refine ⟨fun x => ?_, fun x => ?_, ?_, ?_, ?_⟩
    · have h1 := h.count x
      have h2 := hch x
      rw [hq] at h2
      simp only [chainAt] at h2
      simp only [vsum_set _ _ _ _ _ hj]
      cases hp : sub.plus
      · simp only [Bool.false_eq_true, if_false, subtractBit_fst]
        omega
      · simp only [if_true, inheritBit_fst]
        omega
    · cases hp : sub.plus
      · simp only [Bool.false_eq_true, if_false]
        exact subtractBit_snd _ _ _ _ (h.value x)
      · simp only [if_true]
        exact inheritBit_snd _ _ _ _ (h.value x)
    · intro sub' hsub' x
      rcases List.mem_or_eq_of_mem_set hsub' with hm' | rfl
      · exact h.chain sub' hm' x
      · have h2 := hch x
        rw [hq] at h2
        simp only [chainAt] at h2
        exact h2.2
    · intro ht
      have := h.fresh ht
      rw [this] at hj
      simp at hj
    · intro rest' ht'
      obtain ⟨done, h1, h2⟩ := h.shape rest' ht'
      exact ⟨done, h1, by
        have := shape_set a.subs j sub { sub with view := fun x => (applyBit (sub.view x) (ra x) (rd x)).1, queue := rest } hj rfl rfl
        simp only [this]; exact h2⟩

theorem SRA.inv_reach (a b : SRA) (h : a.Inv) (hr : SRAReach a b) : b.Inv := by
  induction hr with
  | refl => exact h
  | tail _ hs ih => exact SRA.inv_step _ _ ih hs

theorem vsum_of_shape (mem : Nat → Nat → Bool) (x : Nat) (subs : List RSub) (done : List Nat)
    (hv : ∀ sub ∈ subs, sub.view x = mem sub.set x)
    (hs : shape subs = done.map (fun o => (o, false))) : vsum subs x = - osum mem done x := by
  induction subs generalizing done with
  | nil =>
    cases done with
    | nil => simp [vsum, osum]
    | cons o r => simp [shape] at hs
  | cons s r ih =>
    cases done with
    | nil => simp [shape] at hs
    | cons o d =>
      simp only [shape, List.map_cons, List.cons.injEq, Prod.mk.injEq] at hs
      obtain ⟨⟨h1, h2⟩, h3⟩ := hs
      have := ih d (fun sub hsub => hv sub (List.mem_cons_of_mem _ hsub)) h3
      have hv0 := hv s (List.mem_cons_self ..)
      simp only [vsum, osum, h2, Bool.false_eq_true, if_false, this, hv0, h1]
      omega

theorem SRA.value_eq_diff (s : SRA) (h : s.Inv) (hq : s.quiescent) (x : Nat) : s.value x = s.diff x := by
  obtain ⟨done, h1, h2⟩ := h.shape [] hq.1
  simp only [List.append_nil] at h1
  subst h1
  have hv : ∀ sub ∈ s.subs, sub.view x = s.mem sub.set x := by
    intro sub hsub
    have := h.chain sub hsub x
    rw [hq.2 sub hsub] at this
    simpa [chainAt] using this
  cases hsubs : s.subs with
  | nil => rw [hsubs] at h2; simp [shape] at h2
  | cons s0 r =>
    rw [hsubs] at h2 hv
    simp only [shape, List.map_cons, List.cons.injEq, Prod.mk.injEq] at h2
    obtain ⟨⟨h3, h4⟩, h5⟩ := h2
    have hr := vsum_of_shape s.mem x r s.others (fun sub hsub => hv sub (List.mem_cons_of_mem _ hsub)) h5
    have hv0 := hv s0 (List.mem_cons_self ..)
    have hcnt : s.count x = b2i (s.mem s.src x) - osum s.mem s.others x := by
      rw [h.count x, hsubs]
      simp only [vsum, h4, if_true, hr, hv0, h3]
      omega
    have hn := osum_nonneg s.mem s.others x
    have hz := osum_zero_iff s.mem s.others x
    rw [h.value x, SRA.diff]
    cases hm : s.mem s.src x <;> cases ha : s.others.all (fun o => !s.mem o x) <;>
      simp [hm, ha, b2i] at hcnt hz ⊢ <;> omega

end Hive.Derived
