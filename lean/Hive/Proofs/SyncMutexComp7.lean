import Hive.Proofs.SyncMutexComp6
/-!
The composed DAGMutex: exclusion per entity and absence of deadlock for ordered acquisition.
-/
namespace Hive.SyncMutex.Comp
open Hive.Conc
open Hive.SyncMutex.Dag (Mode DOp upd eraseAll below chain pushAll allHeld okD)
open Hive.SyncMutex.Wait (sumL sumL_mid sumL_ge sumL_zero)

/-! ## what `held` means physically -/

/-- An entity recorded in `held` is physically held on the entity's current mutex object. -/
theorem held_physical {s : CSh} {t : CTh} (_hrw : RW s) (hti : TInv s t) {x o : Nat} (hx : s.ent x = some o)
    {m : Mode} (hm : (x, m) ∈ t.held) :
    (m = .w → (proj o t).wr = true) ∧ (m = .r → 0 < (proj o t).rd) := by
  have ho : t.hobj x = o := by
    have := hti.tl.t1 (x, m) hm
    rw [hx] at this
    exact (Option.some.inj this).symm
  have hcnt : (m = .w → 0 < cW t o) ∧ (m = .r → 0 < cR t o) := by
    constructor
    · rintro rfl
      exact List.countP_pos_iff.mpr ⟨(x, .w), hm, by simp [ho]⟩
    · rintro rfl
      exact List.countP_pos_iff.mpr ⟨(x, .r), hm, by simp [ho]⟩
  have hnin : inA t o = false := by
    cases hin : inA t o with
    | false => rfl
    | true =>
      have := hti.lk.dis o (Or.inl hin)
      cases m
      · have := hcnt.2 rfl; omega
      · have := hcnt.1 rfl; omega
  have hpidle : proj o t = ⟨.idle, t.rd o, t.wr o⟩ := by
    cases hi : isInner t with
    | false => exact proj_of_idle o (hti.ci hi)
    | true =>
      have : t.cur ≠ o := by
        intro hc; simp [inA, hi, hc] at hnin
      exact proj_of_ne this
  have he := hti.lk.eq o
  rw [hpidle, after_idle] at he
  simp only [Prod.mk.injEq, bonusR, bonusW, hnin] at he
  simp only [proj]
  constructor
  · intro hmw; rw [he.2]; simp [hcnt.1 hmw]
  · intro hmr; rw [he.1]; have := hcnt.2 hmr; omega

theorem count_le_one_of_sorted {held : List (Nat × Mode)} (h : Sorted held) (a : Nat × Mode) : held.count a ≤ 1 :=
  List.nodup_iff_count.mp h.nodup a

theorem sumL_le_sumV {f : CTh → Nat} {g : V → Nat} {o : Nat} : ∀ (ts : List CTh),
    (∀ t ∈ ts, f t ≤ g (proj o t)) → sumL f ts ≤ sumV g (ts.map (proj o)) := by
  intro ts
  induction ts with
  | nil => intro _; simp [sumL, sumV]
  | cons a l ih =>
    intro h
    have h1 := h a (by simp)
    have h2 := ih (fun t ht => h t (by simp [ht]))
    simp only [sumL, sumV, List.map_cons, List.sum_cons] at h2 ⊢
    omega

/-- **Exclusion per entity** in every configuration satisfying the invariant. -/
theorem comp_exclusion {s : CSh} {ts : List CTh} (h : CInv s ts) (x : Nat) :
    Excl (sumL (fun t => t.held.count (x, .w)) ts) (sumL (fun t => t.held.count (x, .r)) ts) := by
  cases hx : s.ent x with
  | none =>
    have hz : ∀ m, sumL (fun t => t.held.count (x, m)) ts = 0 := by
      intro m
      apply sumL_zero
      intro t ht
      apply List.count_eq_zero.mpr
      intro hm
      have := (h.th t ht).tl.t1 (x, m) hm
      rw [hx] at this; cases this
    rw [hz, hz]; unfold Excl; omega
  | some o =>
    have hw := h.obj o
    have h1 : sumL (fun t => t.held.count (x, .w)) ts ≤ sumV fWr (ts.map (proj o)) := by
      apply sumL_le_sumV
      intro t ht
      have hti := h.th t ht
      by_cases hm : (x, Mode.w) ∈ t.held
      · have := (held_physical h.rw hti hx hm).1 rfl
        have hc := count_le_one_of_sorted hti.so (x, .w)
        simp only [fWr, this, if_true]; exact hc
      · rw [List.count_eq_zero.mpr hm]; exact Nat.zero_le _
    have h2 : sumL (fun t => t.held.count (x, .r)) ts ≤ sumV fRd (ts.map (proj o)) := by
      apply sumL_le_sumV
      intro t ht
      have hti := h.th t ht
      by_cases hm : (x, Mode.r) ∈ t.held
      · have := (held_physical h.rw hti hx hm).2 rfl
        have hc := count_le_one_of_sorted hti.so (x, .r)
        simp only [fRd]; omega
      · rw [List.count_eq_zero.mpr hm]; exact Nat.zero_le _
    have e1 := hw.hwr; have e2 := hw.hrd; have e3 := hw.g.excl
    unfold Excl
    cases hwr : (s.heap o).writer <;> simp [hwr] at e1 e3 <;> omega

/-! ## a monitor whose goroutines are all stuck -/

theorem stuck_fM_V {s : Mx} {v : V} (h : mxStep s v = []) (hv : vinv v) : fM v = 0 := by
  obtain ⟨pc, rd, wr⟩ := v
  cases pc <;> simp [fM, vinv] at hv ⊢ <;>
    simp [mxStepG, ulCStep] at h <;> (repeat' split at h) <;> simp at h

theorem stuck_shape_V {s : Mx} {v : V} (h : mxStep s v = []) (hm : s.m = false) (hv : vinv v) :
    v.pc = .idle ∨ (v.pc = .rlP ∧ s.wakeR = 0) ∨ (v.pc = .lkP ∧ s.wakeW = 0) := by
  obtain ⟨pc, rd, wr⟩ := v
  cases pc <;> simp [vinv] at hv ⊢ <;>
    simp [mxStepG, ulCStep, hm] at h <;> (repeat' split at h) <;> (try simp at h) <;> try assumption

theorem ginv_quiescent {s : Mx} {vs : List V} (g : GInv s vs) (hq : Quiescent s vs) :
    (0 < s.waitW → s.writer = true ∨ 0 < s.readers) ∧
    (0 < s.waitR → s.writer = true ∨ (0 < s.readers ∧ 0 < s.waitW)) := by
  obtain ⟨hfl, hwR, hwW⟩ := hq
  have zHW : sumV fHW vs = 0 := sumV_zero (fun v hv => (quiet_flags (hfl v hv)).1)
  have zBR : sumV fBR vs = 0 := sumV_zero (fun v hv => (quiet_flags (hfl v hv)).2.1)
  have hpp : sumV fPend vs = sumV fPW vs := sumV_congr (fun v hv => (quiet_flags (hfl v hv)).2.2)
  have first : 0 < s.waitW → s.writer = true ∨ 0 < s.readers := by
    intro hw
    cases hwr : s.writer with
    | true => exact Or.inl rfl
    | false =>
      right
      rcases Nat.eq_zero_or_pos s.readers with h0 | hp
      · have := g.phiW hwr h0 hw; omega
      · exact hp
  refine ⟨first, ?_⟩
  intro hw
  cases hwr : s.writer with
  | true => exact Or.inl rfl
  | false =>
    right
    rcases g.phiR hwr hw with h | h
    · omega
    · have hWpos : 0 < s.waitW := by have := g.hW; have := g.hpend; omega
      rcases first hWpos with h' | h'
      · rw [hwr] at h'; cases h'
      · exact ⟨h', hWpos⟩

/-- In a monitor all of whose goroutines are stuck, whoever is inside a method is parked in `Lock`/`RLock`
and somebody holds the lock. -/
theorem stuck_views_holder {s : Mx} {vs : List V} (hw : WInv s vs) (hst : ∀ v ∈ vs, mxStep s v = []) :
    ∀ v ∈ vs, v.pc ≠ .idle → (v.pc = .rlP ∨ v.pc = .lkP) ∧ (s.writer = true ∨ 0 < s.readers) := by
  have hm : s.m = false := by
    have : sumV fM vs = 0 := sumV_zero (fun v hv => stuck_fM_V (hst v hv) (hw.loc v hv))
    have g2 := hw.g.hm
    rw [this] at g2
    cases hmm : s.m <;> simp [hmm] at g2 ⊢
  have hshape := fun v hv => stuck_shape_V (hst v hv) hm (hw.loc v hv)
  have hwakeR : s.wakeR = 0 := by
    rcases Nat.eq_zero_or_pos (sumV fPR vs) with h0 | hp
    · have := hw.g.hR; omega
    · obtain ⟨v, hv, hpv⟩ := sumV_pos hp
      rcases hshape v hv with h | ⟨_, h⟩ | ⟨h, _⟩
      · simp [fPR, h] at hpv
      · exact h
      · simp [fPR, h] at hpv
  have hwakeW : s.wakeW = 0 := by
    rcases Nat.eq_zero_or_pos (sumV fPW vs) with h0 | hp
    · have := hw.g.hW; omega
    · obtain ⟨v, hv, hpv⟩ := sumV_pos hp
      rcases hshape v hv with h | ⟨h, _⟩ | ⟨_, h⟩
      · simp [fPW, h] at hpv
      · simp [fPW, h] at hpv
      · exact h
  have hq : Quiescent s vs := by
    refine ⟨?_, hwakeR, hwakeW⟩
    intro v hv
    rcases hshape v hv with h | ⟨h, _⟩ | ⟨h, _⟩ <;> simp [V.inFlight, h]
  obtain ⟨q1, q2⟩ := ginv_quiescent hw.g hq
  intro v hv hne
  rcases hshape v hv with h | ⟨h, _⟩ | ⟨h, _⟩
  · exact absurd h hne
  · refine ⟨Or.inl h, ?_⟩
    have hge := sumV_ge (f := fPR) hv
    simp only [fPR, h] at hge
    have := hw.g.hR
    rcases q2 (by omega) with h' | ⟨h', _⟩
    · exact Or.inl h'
    · exact Or.inr h'
  · refine ⟨Or.inr h, ?_⟩
    have hge := sumV_ge (f := fPW) hv
    simp only [fPW, h] at hge
    have := hw.g.hW
    exact q1 (by omega)

/-! ## ordered acquisition never deadlocks -/

/-- What a goroutine that cannot move looks like. -/
theorem stuck_class {s : CSh} {t : CTh} (hs : step s t = []) (hti : TInv s t) :
    fDm t = 0 ∧ (s.dm = false → t.done ∨
      ∃ k, t.ctl = .inner k ∧ t.ipc ≠ .idle ∧ mxStep (s.heap t.cur) (proj t.cur t) = []) := by
  unfold step at hs
  cases hc : t.ctl with
  | dead => have := hti.si; simp [SI, hc] at this
  | idle =>
    refine ⟨by simp [fDm, hc], fun _ => Or.inl ⟨hc, ?_⟩⟩
    simp only [hc] at hs
    cases hscr : t.script with
    | nil => rfl
    | cons op r => cases op <;> simp [hscr] at hs
  | lockA x => exact ⟨by simp [fDm, hc], fun hd => by simp [hc, hd] at hs⟩
  | rlockA xs => exact ⟨by simp [fDm, hc], fun hd => by simp [hc, hd] at hs⟩
  | unlockA x => exact ⟨by simp [fDm, hc], fun hd => by simp [hc, hd] at hs⟩
  | runlockA xs => exact ⟨by simp [fDm, hc], fun hd => by simp [hc, hd] at hs⟩
  | lockC x => simp [hc] at hs
  | rlockC xs => simp only [hc] at hs; split at hs <;> simp at hs
  | unlockC x => simp only [hc] at hs; split at hs <;> simp at hs
  | runlockC xs => simp only [hc] at hs; split at hs <;> simp at hs
  | unregA x => exact ⟨by simp [fDm, hc], fun hd => by simp [hc, hd] at hs⟩
  | runregA xs => exact ⟨by simp [fDm, hc], fun hd => by simp [hc, hd] at hs⟩
  | unregC x => simp only [hc] at hs; split at hs <;> simp at hs
  | runregC xs => simp only [hc] at hs; split at hs <;> simp at hs
  | inner k =>
    refine ⟨by simp [fDm, hc], fun _ => Or.inr ⟨k, rfl, ?_⟩⟩
    simp only [hc] at hs
    by_cases hi : t.ipc = .idle
    · simp [hi] at hs
    · simp only [hi, if_false, List.map_eq_nil_iff] at hs
      exact ⟨hi, hs⟩

/-- A goroutine parked in `Lock`/`RLock` of its current object is acquiring `curEnt`, above all it holds. -/
theorem parked_facts {s : CSh} {t : CTh} (hti : TInv s t) {k : Kont} (hc : t.ctl = .inner k)
    (hp : t.ipc = .rlP ∨ t.ipc = .lkP) :
    acq t = true ∧ pend t = [] ∧ below t.held t.curEnt = true := by
  have hin : inA t t.cur = true := by simp [inA, isInner, hc]
  have hd := hti.lk.dis t.cur (Or.inl hin)
  have hn : (pend t).count t.cur = 0 := List.count_eq_zero.mpr (hti.lk.nin t.cur hin)
  have he := hti.lk.eq t.cur
  have hpr : proj t.cur t = ⟨t.ipc, t.rd t.cur, t.wr t.cur⟩ := by simp [proj]
  rw [hpr, hd.1, hd.2, hn] at he
  have hko := hti.ko
  simp only [KOk, hc] at hko
  have hsi := hti.si
  simp only [SI, hc] at hsi
  have hiop : t.iop = .lock ∨ t.iop = .rlock := by
    rcases hp with hp | hp
    · rw [hp] at he
      simp only [after, Prod.mk.injEq, bonusR, hin] at he
      right
      by_cases hr : t.iop = .rlock
      · exact hr
      · simp [hr] at he
    · rw [hp] at he
      simp only [after, Prod.mk.injEq, bonusW, hin] at he
      left
      simpa using he.2
  rcases hiop with hiop | hiop
  · rw [hiop] at hko hsi
    subst hko
    exact ⟨by simp [acq, isInner, hc, hiop], by simp [pend, hc], hsi.1⟩
  · rw [hiop] at hko hsi
    obtain ⟨rest, rfl⟩ := hko
    refine ⟨by simp [acq, isInner, hc, hiop], by simp [pend, hc], ?_⟩
    have := hsi.1
    simp only [chain, Bool.and_eq_true] at this
    exact this.1

theorem comp_stuck_all_done {s : CSh} {ts : List CTh} (h : CInv s ts) (hst : Stuck sys (s, ts)) :
    ∀ t ∈ ts, t.done := by
  have hstk : ∀ t ∈ ts, step s t = [] := fun t ht => hst t ht
  have hcls := fun t ht => stuck_class (hstk t ht) (h.th t ht)
  have hdm : s.dm = false := by
    have : sumL fDm ts = 0 := sumL_zero (fun t ht => (hcls t ht).1)
    have hd := h.dm
    rw [this] at hd
    cases hdd : s.dm <;> simp [hdd] at hd ⊢
  have hcl : ∀ t ∈ ts, t.done ∨
      ∃ k, t.ctl = .inner k ∧ t.ipc ≠ .idle ∧ mxStep (s.heap t.cur) (proj t.cur t) = [] :=
    fun t ht => (hcls t ht).2 hdm
  -- every monitor is stuck
  have hviews : ∀ o, ∀ v ∈ ts.map (proj o), mxStep (s.heap o) v = [] := by
    intro o v hv
    simp only [List.mem_map] at hv
    obtain ⟨t, ht, rfl⟩ := hv
    rcases hcl t ht with hd | ⟨k, hc, _, hm⟩
    · have hi : t.ipc = .idle := (h.th t ht).ci (by simp [isInner, hd.1])
      rw [proj_of_idle o hi]; rfl
    · by_cases ho : t.cur = o
      · subst ho; exact hm
      · rw [proj_of_ne ho]; rfl
  have hpark : ∀ t ∈ ts, ∀ k, t.ctl = .inner k → t.ipc ≠ .idle →
      (t.ipc = .rlP ∨ t.ipc = .lkP) ∧ ((s.heap t.cur).writer = true ∨ 0 < (s.heap t.cur).readers) := by
    intro t ht k _ hne
    have hmem : proj t.cur t ∈ ts.map (proj t.cur) := List.mem_map.mpr ⟨t, ht, rfl⟩
    have := stuck_views_holder (h.obj t.cur) (hviews t.cur) _ hmem (by simpa [proj] using hne)
    simpa [proj] using this
  -- a goroutine that has not finished waits for an entity held by one that waits for a larger entity
  have hclimb : ∀ t ∈ ts, ¬ t.done → ∃ u ∈ ts, ¬ u.done ∧ t.curEnt < u.curEnt := by
    intro t ht hnd
    rcases hcl t ht with hd | ⟨k, hc, hne, _⟩
    · exact absurd hd hnd
    obtain ⟨hp, hheld⟩ := hpark t ht k hc hne
    have hti := h.th t ht
    obtain ⟨hacq, _, _⟩ := parked_facts hti hc hp
    have hent : s.ent t.curEnt = some t.cur := hti.tl.t2 hacq
    have hw := h.obj t.cur
    -- somebody holds the object physically
    have hphys : ∃ u ∈ ts, (proj t.cur u).wr = true ∨ 0 < (proj t.cur u).rd := by
      rcases hheld with hwr | hrd
      · have e := hw.hwr
        simp only [hwr, if_true] at e
        obtain ⟨v, hv, hpv⟩ := sumV_pos (f := fWr) (vs := ts.map (proj t.cur)) (by omega)
        simp only [List.mem_map] at hv
        obtain ⟨u, hu, rfl⟩ := hv
        refine ⟨u, hu, Or.inl ?_⟩
        revert hpv; simp only [fWr]; cases (proj t.cur u).wr <;> simp
      · have e := hw.hrd
        obtain ⟨v, hv, hpv⟩ := sumV_pos (f := fRd) (vs := ts.map (proj t.cur)) (by omega)
        simp only [List.mem_map] at hv
        obtain ⟨u, hu, rfl⟩ := hv
        exact ⟨u, hu, Or.inr hpv⟩
    obtain ⟨u, hu, hph⟩ := hphys
    have hui := h.th u hu
    have hprojrw : (proj t.cur u).wr = u.wr t.cur ∧ (proj t.cur u).rd = u.rd t.cur := ⟨rfl, rfl⟩
    rw [hprojrw.1, hprojrw.2] at hph
    rcases hcl u hu with hd | ⟨ku, hcu, hneu, _⟩
    · -- a finished goroutine holds nothing
      exfalso
      have hniu : isInner u = false := by simp [isInner, hd.1]
      have hv := (lk_outside_iff hniu (hui.ci hniu)).mp hui.lk t.cur
      have hsi := hui.si
      simp only [SI, hd.1, hd.2, okD, List.isEmpty_iff] at hsi
      simp only [cR, cW, hsi, List.countP_nil] at hv
      rcases hph with h1 | h1
      · rw [hv.2] at h1; simp at h1
      · omega
    · obtain ⟨hpu, _⟩ := hpark u hu ku hcu hneu
      obtain ⟨_, hpendu, hbelowu⟩ := parked_facts hui hcu hpu
      refine ⟨u, hu, fun hd => by simp [CTh.done, hcu] at hd, ?_⟩
      by_cases hcur : u.cur = t.cur
      · -- parked on the same object: holds nothing of it
        exfalso
        have hloc := (h.obj t.cur).loc (proj t.cur u) (List.mem_map.mpr ⟨u, hu, rfl⟩)
        have hpr : proj t.cur u = ⟨u.ipc, u.rd t.cur, u.wr t.cur⟩ := by simp [proj, hcur]
        rw [hpr] at hloc
        rcases hpu with hpu | hpu <;> (rw [hpu] at hloc; simp only [vinv] at hloc)
        · rcases hph with h1 | h1
          · rw [hloc.1] at h1; cases h1
          · omega
        · rcases hph with h1 | h1
          · rw [hloc.1] at h1; cases h1
          · omega
      · have he := hui.lk.eq t.cur
        have hinu : inA u t.cur = false := by simp [inA, hcur]
        rw [proj_of_ne hcur, after_idle, hpendu] at he
        simp only [Prod.mk.injEq, bonusR, bonusW, hinu, List.count_nil, Bool.false_eq_true, false_and,
          if_false, Nat.add_zero, Bool.false_and, Bool.or_false] at he
        have : ∃ a ∈ u.held, u.hobj a.1 = t.cur := by
          rcases hph with h1 | h1
          · rw [he.2] at h1
            have : 0 < cW u t.cur := by simpa using h1
            obtain ⟨a, ha, hpa⟩ := List.countP_pos_iff.mp this
            simp only [Bool.and_eq_true, beq_iff_eq] at hpa
            exact ⟨a, ha, hpa.2⟩
          · have : 0 < cR u t.cur := by omega
            obtain ⟨a, ha, hpa⟩ := List.countP_pos_iff.mp this
            simp only [Bool.and_eq_true, beq_iff_eq] at hpa
            exact ⟨a, ha, hpa.2⟩
        obtain ⟨a, ha, hao⟩ := this
        have := held_ent h.rw hui.tl.t1 ha hent hao
        have hlt := below_mem hbelowu a ha
        omega
  -- a bounded climb
  have hbound : ∀ t ∈ ts, t.curEnt ≤ sumL (fun t => t.curEnt) ts := fun t ht => sumL_ge (f := fun t => t.curEnt) ht
  have hnone : ∀ n, ∀ t ∈ ts, ¬ t.done → sumL (fun t => t.curEnt) ts - t.curEnt ≤ n → False := by
    intro n
    induction n with
    | zero =>
      intro t ht hnd hk
      obtain ⟨u, hu, _, hlt⟩ := hclimb t ht hnd
      have := hbound u hu
      omega
    | succ n ih =>
      intro t ht hnd hk
      obtain ⟨u, hu, hnu, hlt⟩ := hclimb t ht hnd
      have := hbound u hu
      exact ih u hu hnu (by omega)
  intro t ht
  by_cases hd : t.done
  · exact hd
  · exact (hnone _ t ht hd (Nat.le_refl _)).elim

end Hive.SyncMutex.Comp
