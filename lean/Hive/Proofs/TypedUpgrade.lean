import Hive.Proofs.TypedCode
import Hive.Model.TypedUpgrade
/-!
# The upgrade window of the translated `Get` / `Has` (C06): fast part = `fastOut`, slow part = `step` in every state
-/
namespace Hive.Typed.Code
open Hive.Gen.C06Code Hive.Typed.Conc

variable {V : Type} [Inhabited V]

/-- Splitting a body at its first `Lock()` does not change what it does. -/
theorem exec_split (C : Codec V) (f : V → Bool → FnRes V) (F : Faults) (w : Bool) (s : Stmt) (m : M V) :
    exec C f F w (.seq (fastPart s) (slowPart s)) m = exec C f F w s m := by
  induction s generalizing m with
  | seq a b _ ihb =>
    by_cases h : isLock a = true
    · simp [fastPart, slowPart, h, exec]
    · have h' : isLock a = false := by simpa using h
      simp only [fastPart, slowPart, h', exec, Bool.false_eq_true, if_false]
      cases hx : exec C f F w a m with
      | cont m' => have := ihb m'; simp only [exec] at this; simpa [hx] using this
      | done m' r => rfl
      | panic m' => rfl
  | _ => simp [fastPart, slowPart, exec]

macro "slow_eval" : tactic => `(tactic|
  simp [execSlowW, slowPart, isLock, errW, prog, exec, start, kvFault, evalB, evalV, evalRs, evalR, evalE, Env.init, Env.setE, Env.setV, Env.setY,
    Env.setB, finish, outErr, outHas, outGet, outCompute, EV.kind, EV.isNil, EV.is, encF, decF,
    Hive.Typed.get, Hive.Typed.has, Hive.Typed.set, Hive.Typed.delete])

theorem slow_has (w : Bool) (C : Codec V) (s : St V) (F : Faults) :
    execSlowW w prog C s .has F = has s F := by
  obtain ⟨k1, k2, fd, fe⟩ := F
  obtain ⟨st, cv, ch⟩ := s
  cases w <;> cases ch <;> cases k1 <;> simp only [execSlowW, prog, code_Has] <;> slow_eval

theorem slow_get (w : Bool) (C : Codec V) (s : St V) (F : Faults) :
    execSlowW w prog C s .get F = get C s F := by
  obtain ⟨k1, k2, fd, fe⟩ := F
  obtain ⟨st, cv, ch⟩ := s
  cases w <;> rcases ch with _ | _ | _ <;> cases cv <;> cases k1 <;> cases st <;> cases fd <;>
    simp only [execSlowW, prog, code_Get] <;> slow_eval <;> (rename_i b; cases C.dec b <;> slow_eval)

/-- `Compute`, `Set`, `Delete` start with `Lock()`: the whole body is the write section. -/
theorem slow_writers : slowPart prog.compute = prog.compute ∧ slowPart prog.set = prog.set ∧ slowPart prog.delete = prog.delete ∧
    fastPart prog.compute = .skip ∧ fastPart prog.set = .skip ∧ fastPart prog.delete = .skip := by
  simp [prog, code_Compute, code_Set, code_Delete, slowPart, fastPart, isLock]

/-- The slow path, started in **any** state (whatever the fast path saw earlier), is the sequential `step`. -/
theorem execSlowW_eq_step (w : Bool) (C : Codec V) (s : St V) (op : Op V) (F : Faults) :
    execSlowW w prog C s op F = step C s op F := by
  cases op with
  | get => exact slow_get w C s F
  | has => exact slow_has w C s F
  | set v =>
    have h := code_set w C s v F
    simp only [execOpW] at h
    simpa only [execSlowW, step, slow_writers.2.1] using h
  | delete =>
    have h := code_delete w C s F
    simp only [execOpW] at h
    simpa only [execSlowW, step, slow_writers.2.2.1] using h
  | compute f =>
    have h := code_compute w C s f F
    simp only [execOpW] at h
    simpa only [execSlowW, step, slow_writers.1] using h
  | reopen => rfl

macro "fast_eval" : tactic => `(tactic|
  simp [fastOutCode, fastOut, fastPart, isLock, outcM, prog, exec, start, evalB, evalV, evalRs, evalR, evalE, Env.init,
    outHas, outGet, EV.isNil, EV.is])

/-- The fast path of the translated `Get` / `Has` answers exactly `fastOut` (a hit ⇒ the cached answer, a miss ⇒ it falls
through), makes no call and leaves state and locals untouched. -/
theorem fast_get (w : Bool) (C : Codec V) (s : St V) (F : Faults) :
    fastOutCode w prog C s .get F = fastOut s .get ∧ outcM (exec C noFn F w (fastPart prog.get) (start s)) = start s := by
  obtain ⟨st, cv, ch⟩ := s
  rcases ch with _ | _ | _ <;> cases cv <;> simp only [prog, code_Get] <;> fast_eval

theorem fast_has (w : Bool) (C : Codec V) (s : St V) (F : Faults) :
    fastOutCode w prog C s .has F = fastOut s .has ∧ outcM (exec C noFn F w (fastPart prog.has) (start s)) = start s := by
  obtain ⟨st, cv, ch⟩ := s
  cases ch <;> simp only [prog, code_Has] <;> fast_eval

theorem fastOutCode_eq (w : Bool) (C : Codec V) (s : St V) (op : Op V) (F : Faults) :
    fastOutCode w prog C s op F = fastOut s op := by
  cases op with
  | get => exact (fast_get w C s F).1
  | has => exact (fast_has w C s F).1
  | _ => rfl

end Hive.Typed.Code

namespace Hive.Typed.Conc
open Hive.Conc Hive.Typed.Code Hive.Gen.C06Code

variable {V : Type} [Inhabited V]

/-- The protocol over the translated fast and slow parts is the protocol model. -/
theorem tstepCode_eq (w : Bool) (C : Codec V) (sh : Shared V) (t : Thread V) :
    tstepCode w prog C sh t = tstep C sh t := by
  unfold tstepCode tstep
  cases t.script with
  | nil => rfl
  | cons x rest =>
    obtain ⟨op, F⟩ := x
    cases t.pc <;> (try simp only [fastOutCode_eq, execSlowW_eq_step]) <;> (try rfl)

theorem sysCode_eq (w : Bool) (C : Codec V) : sysCode w prog C = sys C := by
  unfold sysCode sys
  congr
  funext sh t
  exact tstepCode_eq w C sh t

end Hive.Typed.Conc
